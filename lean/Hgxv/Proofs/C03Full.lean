import Hgxv.Model.C03Full
import Hgxv.Proofs.C03Ref
/-! Facts about the whole object (`Obj` = `Store` + incidence table) and the routes between objects (core Lean only). -/
namespace AL
variable {α β : Type} [DecidableEq α]

/-- assigning the value that is already stored changes nothing -/
theorem set_self_of_get? (l : List (α × β)) (k : α) (v : β) (h : get? l k = some v) : set l k v = l := by
  induction l with
  | nil => simp at h
  | cons hd t ih =>
    obtain ⟨k', v'⟩ := hd
    by_cases hk : k' = k
    · subst hk
      have hv : v' = v := by simpa [get?] using h
      subst hv
      simp [set]
    · have ht : get? t k = some v := by simpa [get?, hk] using h
      simp [set, hk, ih ht]

end AL

open AL
namespace C03

/-- the hypothesis of the history theorems, for the machine with incidence calls and routes: every inserted hyperedge
is a duplicate-free node tuple -/
def FOp.WF : FOp → Prop
  | .on _ (.base op) => op.WF
  | _ => True

instance (o : FOp) : Decidable o.WF := by
  cases o with
  | on i op => cases op <;> simp only [FOp.WF] <;> infer_instance
  | _ => simp only [FOp.WF]; infer_instance

theorem baseState_eq (st : FState) : baseState st = mapVals Obj.base st := rfl

theorem get?_baseState (st : FState) (i : Nat) : get? (baseState st) i = (get? st i).map Obj.base := by
  rw [baseState_eq, get?_mapVals]

/-! ## the incidence calls do not touch the other tables, the other calls do not touch the incidence table -/

theorem setInc_base (o : Obj) (raw : List Nat) (t : TimeArg) (n : Node) (md : Meta) :
    (setInc o raw t n md).1.base = o.base := by
  unfold setInc; split <;> rfl

theorem attrInc_base (o : Obj) (raw : List Nat) (t : TimeArg) (n : Node) (f v : Nat) :
    (attrInc o raw t n f v).1.base = o.base := by
  unfold attrInc
  split
  · rfl
  · split <;> rfl

theorem apply_base_inc (o : Obj) (op : SOp) : (o.apply (.base op)).1.inc = o.inc := rfl

theorem apply_base_base (o : Obj) (op : SOp) :
    (o.apply (.base op)).1.base = (applyOp o.base op).1 ∧ (o.apply (.base op)).2 = (applyOp o.base op).2 := ⟨rfl, rfl⟩

theorem derive_base (o : Obj) (r : Route) : (derive o r).base = o.base := by cases r <;> rfl

theorem recKey_some (o : Obj) (raw : List Nat) (t : TimeArg) (k : Key) :
    recKey o raw t = some k ↔ mkKey raw t = some k ∧ (get? o.base.edgeList k).isSome = true := by
  unfold recKey
  cases hm : mkKey raw t with
  | none => simp
  | some k' =>
    by_cases hp : (get? o.base.edgeList k').isSome = true
    · simp only [hp, if_true, Option.some.injEq]
      constructor
      · intro h; subst h; exact ⟨rfl, hp⟩
      · intro h; exact h.1
    · simp only [hp, Option.some.injEq]
      constructor
      · intro h; cases h
      · rintro ⟨h1, h2⟩; subst h1; exact absurd h2 hp

/-- accepted `set_incidence_metadata`: the entry reads back, every other entry and every other table is as before -/
theorem setInc_ok (o : Obj) (raw : List Nat) (t : TimeArg) (n : Node) (md : Meta) (k : Key)
    (hk : recKey o raw t = some k) :
    (setInc o raw t n md).2 = .ok ∧ (setInc o raw t n md).1.base = o.base ∧
    getInc (setInc o raw t n md).1 raw t n = some md ∧
    ∀ p, p ≠ (k, n) → get? (setInc o raw t n md).1.inc p = get? o.inc p := by
  have h1 : setInc o raw t n md = ({ o with inc := AL.set o.inc (k, n) md }, .ok) := by
    unfold setInc; rw [hk]
  have hk' : recKey { o with inc := AL.set o.inc (k, n) md } raw t = some k := by
    rw [recKey_some] at hk ⊢; exact hk
  refine ⟨by rw [h1], by rw [h1], ?_, ?_⟩
  · rw [h1]; simp only [getInc, hk', Option.bind_some, get?_set_self]
  · intro p hp; rw [h1]; exact get?_set_ne _ _ _ _ (Ne.symm hp)

/-- rejected `set_incidence_metadata` (the record is not there): nothing changes -/
theorem setInc_rej (o : Obj) (raw : List Nat) (t : TimeArg) (n : Node) (md : Meta) (hk : recKey o raw t = none) :
    setInc o raw t n md = (o, .rej) := by
  unfold setInc; rw [hk]

theorem recKey_perm (o : Obj) (r1 r2 : List Nat) (h : r1.Perm r2) (t : TimeArg) : recKey o r1 t = recKey o r2 t := by
  simp only [recKey, mkKey, canon_eq_of_perm r1 r2 h]

/-! ## slots -/

theorem fstep_query_state (st : FState) (i : Nat) (q : OQuery) : (fstep st (.query i q)).1 = st := by
  simp only [fstep]; split <;> rfl

/-- the slot a call writes -/
def FOp.target : FOp → Option Nat
  | .new i _ => some i
  | .on i _ => some i
  | .derive _ _ j => some j
  | .query _ _ => none

theorem fstep_other (st : FState) (op : FOp) (k : Nat) (hk : op.target ≠ some k) :
    get? (fstep st op).1 k = get? st k := by
  cases op with
  | new i w =>
    have : i ≠ k := fun h => hk (by simp [FOp.target, h])
    simp only [fstep]; exact get?_set_ne _ _ _ _ this
  | on i o =>
    have : i ≠ k := fun h => hk (by simp [FOp.target, h])
    simp only [fstep]
    split
    · rfl
    · exact get?_set_ne _ _ _ _ this
  | derive r i j =>
    have : j ≠ k := fun h => hk (by simp [FOp.target, h])
    simp only [fstep]
    split
    · rfl
    · exact get?_set_ne _ _ _ _ this
  | query i q => rw [fstep_query_state]

theorem frun_other (ops : List FOp) (st : FState) (k : Nat) (hk : ∀ op ∈ ops, op.target ≠ some k) :
    get? (frun st ops) k = get? st k := by
  induction ops generalizing st with
  | nil => rfl
  | cons op ops ih =>
    simp only [frun, List.foldl_cons]
    have h := ih (fstep st op).1 (fun o ho => hk o (by simp [ho]))
    simp only [frun] at h
    rw [h]
    exact fstep_other st op k (hk op (by simp))

theorem fstep_derive_get (st : FState) (r : Route) (i j : Nat) (o : Obj) (h : get? st i = some o) :
    get? (fstep st (.derive r i j)).1 j = some (derive o r) := by
  simp only [fstep, h]; exact get?_set_self _ _ _

/-! ## the projection to the machine of Model/C03.lean -/

theorem fstep_base (st : FState) (op : FOp) :
    baseState (fstep st op).1 =
      match op.toBase? with
      | some b => (step (baseState st) b).1
      | none => baseState st := by
  cases op with
  | new i w =>
    simp only [fstep, FOp.toBase?, step, baseState_eq, mapVals_set]; rfl
  | derive r i j =>
    simp only [fstep, FOp.toBase?, step, get?_baseState]
    cases hg : get? st i with
    | none => rfl
    | some o => simp only [Option.map_some, baseState_eq, mapVals_set, derive_base]
  | query i q =>
    rw [fstep_query_state]; rfl
  | on i o =>
    cases o with
    | base b =>
      simp only [fstep, FOp.toBase?, step, get?_baseState]
      cases hg : get? st i with
      | none => rfl
      | some ob => simp only [Option.map_some, baseState_eq, mapVals_set]; rfl
    | setInc raw t n md =>
      simp only [fstep, FOp.toBase?]
      cases hg : get? st i with
      | none => rfl
      | some ob =>
        simp only [baseState_eq, mapVals_set, Obj.apply, setInc_base]
        exact set_self_of_get? _ _ _ (by rw [get?_mapVals, hg]; rfl)
    | attrInc raw t n f v =>
      simp only [fstep, FOp.toBase?]
      cases hg : get? st i with
      | none => rfl
      | some ob =>
        simp only [baseState_eq, mapVals_set, Obj.apply, attrInc_base]
        exact set_self_of_get? _ _ _ (by rw [get?_mapVals, hg]; rfl)

theorem frun_base (ops : List FOp) (st : FState) :
    baseState (frun st ops) = run (baseState st) (ops.filterMap FOp.toBase?) := by
  induction ops generalizing st with
  | nil => rfl
  | cons op ops ih =>
    have h := ih (fstep st op).1
    simp only [frun] at h
    simp only [frun, List.foldl_cons, List.filterMap_cons]
    rw [h, fstep_base]
    cases hb : op.toBase? with
    | none => rfl
    | some b => simp only [run, List.foldl_cons]

theorem toBase_wf (ops : List FOp) (hwf : ∀ op ∈ ops, op.WF) : ∀ b ∈ ops.filterMap FOp.toBase?, b.WF := by
  intro b hb
  obtain ⟨op, hop, hb⟩ := List.mem_filterMap.mp hb
  have h := hwf op hop
  cases op with
  | new i w => simp only [FOp.toBase?, Option.some.injEq] at hb; subst hb; trivial
  | derive r i j => simp only [FOp.toBase?, Option.some.injEq] at hb; subst hb; trivial
  | query i q => simp [FOp.toBase?] at hb
  | on i o =>
    cases o with
    | base s => simp only [FOp.toBase?, Option.some.injEq] at hb; subst hb; exact h
    | setInc raw t n md => simp [FOp.toBase?] at hb
    | attrInc raw t n f v => simp [FOp.toBase?] at hb

/-- `o` is the content of some slot after some history of well-formed public calls, incidence calls and routes included -/
def FReachable (o : Obj) : Prop :=
  ∃ ops : List FOp, (∀ op ∈ ops, op.WF) ∧ ∃ i, get? (frun [] ops) i = some o

theorem freachable_base {o : Obj} (h : FReachable o) : Reachable o.base := by
  obtain ⟨ops, hwf, i, hi⟩ := h
  refine ⟨ops.filterMap FOp.toBase?, toBase_wf ops hwf, i, ?_⟩
  have hb := frun_base ops []
  have : baseState ([] : FState) = [] := rfl
  rw [this] at hb
  rw [← hb, get?_baseState, hi]; rfl

/-! ## a concrete history: incidence entries, both routes, removal of the record afterwards -/

def fullOps : List FOp := [
  .new 0 true,
  .on 0 (.base (.addEdge [2, 1] (.int 3) (some 8) none)),
  .on 0 (.base (.addEdge [1, 2, 3] (.int 3) (some 2) (some [(0, 1)]))),
  .on 0 (.setInc [1, 2] (.int 3) 2 [(0, 5)]),
  .on 0 (.setInc [3, 2, 1] (.int 3) 7 [(1, 1)]),      -- node 7 is not in the hyperedge: accepted as in the code
  .on 0 (.setInc [1, 2] (.int 4) 2 [(0, 6)]),         -- no such record: rejected
  .on 0 (.attrInc [2, 1] (.int 3) 2 1 4),
  .derive .copy 0 1,
  .derive .tables 0 2,
  .on 0 (.base (.removeEdge [1, 2] (.int 3))),        -- the entry of the removed record stays in the table
  .on 1 (.setInc [1, 2] (.int 3) 1 []),
  .on 2 (.base (.addEdge [5] (.int 0) none none))]

def fullObj (i : Nat) : Obj := (get? (frun [] fullOps) i).getD (Obj.new false)

end C03
