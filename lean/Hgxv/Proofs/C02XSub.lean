import Hgxv.Proofs.C02X
/-! # C02, extension round - the routine of `get_edges(subhypergraph=True)` on the abstract object has a closed form -/
namespace AL
variable {α β : Type} [DecidableEq α]

theorem set_absent (l : List (α × β)) (k : α) (v : β) (h : get? l k = none) : set l k v = l ++ [(k, v)] := by
  induction l with
  | nil => rfl
  | cons hd t ih =>
    obtain ⟨k', v'⟩ := hd
    simp only [get?] at h
    by_cases hk : k' = k
    · simp [hk] at h
    · simp only [hk, if_false] at h
      simp [set, hk, ih h]

theorem set_same (l : List (α × β)) (k : α) (v : β) (h : get? l k = some v) : set l k v = l := by
  induction l with
  | nil => simp [get?] at h
  | cons hd t ih =>
    obtain ⟨k', v'⟩ := hd
    simp only [get?] at h
    by_cases hk : k' = k
    · simp only [hk, if_true] at h
      injection h with h
      simp [set, hk, h]
    · simp only [hk, if_false] at h
      simp [set, hk, ih h]

theorem get?_append (P Q : List (α × β)) (k : α) :
    get? (P ++ Q) k = match get? P k with | some v => some v | none => get? Q k := by
  induction P with
  | nil => simp [get?]
  | cons hd t ih =>
    obtain ⟨k', v'⟩ := hd
    by_cases hk : k' = k
    · simp [get?, hk]
    · simp [get?, hk, ih]

theorem set_append_right (P Q : List (α × β)) (k : α) (v : β) (h : get? P k = none) :
    set (P ++ Q) k v = P ++ set Q k v := by
  induction P with
  | nil => rfl
  | cons hd t ih =>
    obtain ⟨k', v'⟩ := hd
    simp only [get?] at h
    by_cases hk : k' = k
    · simp [hk] at h
    · simp only [hk, if_false] at h
      simp [set, hk, ih h]

theorem get?_map_mk (L : List α) (f : α → β) (k : α) : get? (L.map (fun n => (n, f n))) k = if k ∈ L then some (f k) else none := by
  induction L with
  | nil => simp [get?]
  | cons a t ih =>
    by_cases hk : a = k
    · simp [get?, hk]
    · have : ¬ k = a := fun h => hk h.symm
      simp [get?, hk, ih, this]

end AL

namespace C02
open AL

/-! ### touching nodes -/

def addN (N : List (Node × Meta)) (n : Node) : List (Node × Meta) :=
  match get? N n with
  | none => set N n []
  | some [] => set N n []
  | some _ => N

theorem Spec.addNode_none_eq (S : Spec) (n : Node) : Spec.addNode S n none = { S with nodes := addN S.nodes n } := by
  unfold Spec.addNode addN
  cases h : get? S.nodes n with
  | none => rfl
  | some md => cases md <;> rfl

theorem Spec.touchAll_eq (S : Spec) (l : List Node) : Spec.touchAll S l = { S with nodes := l.foldl addN S.nodes } := by
  induction l generalizing S with
  | nil => rfl
  | cons n ns ih =>
    simp only [Spec.touchAll, List.foldl_cons]
    rw [Spec.addNode_none_eq, ih]

theorem Spec.addNodes_eq (S : Spec) (l : List Node) : Spec.addNodes S l = { S with nodes := l.foldl addN S.nodes } := by
  induction l generalizing S with
  | nil => rfl
  | cons n ns ih =>
    simp only [Spec.addNodes, List.foldl_cons]
    rw [Spec.addNode_none_eq, ih]

/-- on a table whose metadata are all `{}`, touching is `addK` on the key list -/
theorem addN_mk (L : List Node) (n : Node) :
    addN (L.map (fun m => (m, ([] : Meta)))) n = (addK L n).map (fun m => (m, ([] : Meta))) := by
  unfold addN addK
  rw [get?_map_mk]
  by_cases h : n ∈ L
  · simp only [h, if_true, List.contains_iff_mem]
    rw [set_same]
    rw [get?_map_mk]; simp [h]
  · simp only [h, if_false, List.contains_iff_mem]
    rw [set_absent]
    · simp
    · rw [get?_map_mk]; simp [h]

theorem foldl_addN_mk (L l : List Node) :
    l.foldl addN (L.map (fun m => (m, ([] : Meta)))) = (l.foldl addK L).map (fun m => (m, ([] : Meta))) := by
  induction l generalizing L with
  | nil => rfl
  | cons n ns ih => simp only [List.foldl_cons]; rw [addN_mk, ih]

theorem foldl_addK_of_mem (L l : List Node) (h : ∀ n ∈ l, n ∈ L) : l.foldl addK L = L := by
  induction l with
  | nil => rfl
  | cons n ns ih =>
    simp only [List.foldl_cons]
    have hn : addK L n = L := by simp [addK, h n List.mem_cons_self]
    rw [hn]
    exact ih (fun m hm => h m (List.mem_cons_of_mem _ hm))

theorem addK_nodup (L : List Node) (n : Node) (h : L.Nodup) : (addK L n).Nodup := by
  unfold addK
  by_cases hn : n ∈ L
  · simp [hn, h]
  · simp only [List.contains_iff_mem, hn, if_false]
    rw [List.nodup_append]
    refine ⟨h, by simp, ?_⟩
    intro a ha b hb
    simp at hb; subst hb
    intro hab; subst hab; exact hn ha

theorem foldl_addK_nodup (L l : List Node) (h : L.Nodup) : (l.foldl addK L).Nodup := by
  induction l generalizing L with
  | nil => exact h
  | cons n ns ih => exact ih _ (addK_nodup L n h)

theorem mem_addK (L : List Node) (n m : Node) : m ∈ addK L n ↔ m ∈ L ∨ m = n := by
  unfold addK
  by_cases hn : n ∈ L
  · simp only [List.contains_iff_mem, hn, if_true]
    constructor
    · exact Or.inl
    · rintro (h | h); exact h; subst h; exact hn
  · simp [hn]

theorem mem_foldl_addK (L l : List Node) (m : Node) : m ∈ l.foldl addK L ↔ m ∈ L ∨ m ∈ l := by
  induction l generalizing L with
  | nil => simp
  | cons n ns ih =>
    simp only [List.foldl_cons]
    rw [ih, mem_addK]
    simp only [List.mem_cons]
    grind

end C02

namespace C02
open AL

/-! ### `add_edges` of pairwise different new hyperedges -/

def newEdges (W : Bool) (es : List (Key × (Int × Meta))) : List (Key × (Int × Meta)) :=
  es.map (fun p => (p.1, (if W then p.2.1 else one, ([] : Meta))))
def endsOf (es : List (Key × (Int × Meta))) : List Node := es.flatMap (fun p => p.1.1 ++ p.1.2)

theorem Spec.addEdge_new (S : Spec) (k : Key) (w : Option Int) (hk : KeyWF k) (hn : get? S.edges k = none)
    (hw : S.weighted = true ∨ w = none) :
    Spec.addEdge S (RawEdge.ofKey k) w none =
      ({ S with nodes := (k.1 ++ k.2).foldl addN S.nodes,
                edges := S.edges ++ [(k, (if S.weighted then w.getD one else one, ([] : Meta)))] }, .ok) := by
  unfold Spec.addEdge
  rw [canonAdd_ofKey k hk]
  unfold Spec.addEdgeKey
  have hg : (!S.weighted && w.isSome && w != some one) = false := by
    rcases hw with h | h
    · simp [h]
    · simp [h]
  rw [hg]
  simp only [Bool.false_eq_true, if_false, hn]
  rw [Spec.touchAll_eq]
  simp only [Option.getD_none]
  rw [set_absent _ _ _ hn]

theorem Spec.loopB (es : List (Key × (Int × Meta))) (S : Spec) (ws : Option (List Int))
    (hk : ∀ p ∈ es, KeyWF p.1) (hnd : (keys es).Nodup) (hnew : ∀ p ∈ es, get? S.edges p.1 = none)
    (hw : (S.weighted = true ∧ ws = some (es.map (·.2.1))) ∨ (S.weighted = false ∧ ws = none)) :
    Spec.addEdgesLoop S ((keys es).map RawEdge.ofKey) ws none =
      ({ S with nodes := (endsOf es).foldl addN S.nodes, edges := S.edges ++ newEdges S.weighted es }, .ok) := by
  induction es generalizing S ws with
  | nil => simp [Spec.addEdgesLoop, keys, endsOf, newEdges]
  | cons p es ih =>
    have hkp := hk p List.mem_cons_self
    have hnp := hnew p List.mem_cons_self
    simp only [keys, List.map_cons] at hnd ⊢
    have hnd' := List.nodup_cons.mp hnd
    -- one step
    have step : ∀ w, (S.weighted = true ∨ w = none) → Spec.addEdge S (RawEdge.ofKey p.1) w none = _ :=
      fun w h => Spec.addEdge_new S p.1 w hkp hnp h
    -- the state after the step
    let S' : Spec := { S with nodes := (p.1.1 ++ p.1.2).foldl addN S.nodes,
                              edges := S.edges ++ [(p.1, (if S.weighted then p.2.1 else one, ([] : Meta)))] }
    have hnew' : ∀ q ∈ es, get? S'.edges q.1 = none := by
      intro q hq
      show get? (S.edges ++ _) q.1 = none
      rw [get?_append, hnew q (List.mem_cons_of_mem _ hq)]
      have hne : p.1 ≠ q.1 := by
        intro he
        apply hnd'.1
        rw [he]
        exact List.mem_map.mpr ⟨q, hq, rfl⟩
      simp [get?, hne]
    have fin : ({ S' with nodes := (endsOf es).foldl addN S'.nodes, edges := S'.edges ++ newEdges S'.weighted es } : Spec) =
        { S with nodes := (endsOf (p :: es)).foldl addN S.nodes, edges := S.edges ++ newEdges S.weighted (p :: es) } := by
      simp only [S', endsOf, newEdges, List.flatMap_cons, List.foldl_append, List.map_cons, List.append_assoc,
        List.singleton_append]
    rcases hw with ⟨hW, hws⟩ | ⟨hW, hws⟩
    · subst hws
      rw [Spec.addEdgesLoop]
      simp only [List.map_cons, Option.bind_some, List.head?_cons, Option.bind_none, Option.map_some, List.tail_cons,
        Option.map_none]
      rw [step (some p.2.1) (Or.inl hW)]
      simp only [hW, if_true, Option.getD_some]
      have := ih S' (some (es.map (·.2.1))) (fun q hq => hk q (List.mem_cons_of_mem _ hq)) hnd'.2 hnew'
        (Or.inl ⟨hW, rfl⟩)
      simp only [keys] at this
      simp only [S', hW, if_true] at this fin
      rw [this, fin]
      all_goals (intro h; simp at h)
    · subst hws
      rw [Spec.addEdgesLoop]
      simp only [Option.bind_none, Option.map_none]
      rw [step none (Or.inr rfl)]
      simp only [hW, Bool.false_eq_true, if_false]
      have := ih S' none (fun q hq => hk q (List.mem_cons_of_mem _ hq)) hnd'.2 hnew' (Or.inr ⟨hW, rfl⟩)
      simp only [keys] at this
      simp only [S', hW, Bool.false_eq_true, if_false] at this fin
      rw [this, fin]
      all_goals (intro h; simp at h)

end C02

namespace C02
open AL

theorem Spec.addEdges_sel (es : List (Key × (Int × Meta))) (S : Spec)
    (hk : ∀ p ∈ es, KeyWF p.1) (hnd : (keys es).Nodup) (hnew : ∀ p ∈ es, get? S.edges p.1 = none) :
    Spec.addEdges S ((keys es).map RawEdge.ofKey) (if S.weighted then some (es.map (·.2.1)) else none) none =
      ({ S with nodes := (endsOf es).foldl addN S.nodes, edges := S.edges ++ newEdges S.weighted es }, .ok) := by
  unfold Spec.addEdges
  cases hW : S.weighted with
  | false =>
    simp only [Bool.false_eq_true, if_false, Option.isSome_none, Bool.false_and]
    have := Spec.loopB es S none hk hnd hnew (Or.inr ⟨hW, rfl⟩)
    rw [hW] at this
    exact this
  | true =>
    simp only [if_true, Option.isSome_some, Bool.not_true, Bool.and_false, Bool.false_eq_true, if_false]
    have hl : ((keys es).map RawEdge.ofKey).length = (es.map (·.2.1)).length := by simp [keys]
    simp only [hl, ne_eq, not_true_eq_false, if_false]
    cases es with
    | nil =>
      obtain ⟨w0, n0, e0, h0⟩ := S
      simp only at hW; subst hW
      simp [truthy, Spec.addEdgesLoop, keys, endsOf, newEdges]
    | cons p es =>
      have := Spec.loopB (p :: es) S (some ((p :: es).map (·.2.1))) hk hnd hnew (Or.inl ⟨hW, rfl⟩)
      rw [hW] at this
      simp only [truthy, List.map_cons] at this ⊢
      exact this

/-! ### the two metadata loops -/

theorem Spec.runOk_append (S : Spec) (a b : List Op) :
    Spec.runOk S (a ++ b) = (Spec.runOk S a).bind (fun S' => Spec.runOk S' b) := by
  induction a generalizing S with
  | nil => rfl
  | cons o os ih =>
    simp only [List.cons_append, Spec.runOk]
    cases (Spec.applyOp S o).2 with
    | ok => exact ih _
    | rej => rfl

theorem Spec.runOk_run (S S' : Spec) (ops : List Op) (h : Spec.runOk S ops = some S') : Spec.run S ops = S' := by
  induction ops generalizing S with
  | nil => simp only [Spec.runOk] at h; injection h
  | cons o os ih =>
    simp only [Spec.runOk] at h
    simp only [Spec.run]
    cases ho : (Spec.applyOp S o).2 with
    | ok => rw [ho] at h; exact ih _ h
    | rej => rw [ho] at h; simp at h

theorem Spec.loopD (Q P : List (Node × Meta)) (S : Spec) (g : Node → Meta) (rest : List Op)
    (hnd : (keys (P ++ Q)).Nodup) :
    Spec.runOk { S with nodes := P ++ Q } ((keys Q).map (fun n => Op.setNodeMeta n (g n)) ++ rest) =
      Spec.runOk { S with nodes := P ++ Q.map (fun p => (p.1, g p.1)) } rest := by
  induction Q generalizing P with
  | nil => simp [keys]
  | cons q Q ih =>
    obtain ⟨n, md⟩ := q
    have hP : get? P n = none := by
      rw [get?_eq_none_iff]
      intro hc
      simp only [keys, List.map_append, List.map_cons] at hnd
      have := (List.nodup_append.mp hnd).2.2 n (by simpa [keys] using hc) n (by simp)
      exact this rfl
    simp only [keys, List.map_cons, List.cons_append, Spec.runOk, Spec.applyOp, Spec.setNodeMeta]
    have hh : has (P ++ (n, md) :: Q) n = true := by
      simp [has, get?_append, hP, get?]
    simp only [hh, if_true]
    rw [set_append_right _ _ _ _ hP]
    simp only [AL.set, if_true]
    have e1 : P ++ (n, g n) :: Q = (P ++ [(n, g n)]) ++ Q := by simp
    have e2 : P ++ (n, g n) :: List.map (fun p => (p.1, g p.1)) Q = (P ++ [(n, g n)]) ++ List.map (fun p => (p.1, g p.1)) Q := by simp
    rw [e1, e2]
    have := ih (P ++ [(n, g n)]) (by simpa [keys] using hnd)
    simp only [keys] at this
    exact this

theorem Spec.loopE (Q P : List (Key × (Int × Meta))) (S : Spec) (g : Key → Meta) (rest : List Op)
    (hnd : (keys (P ++ Q)).Nodup) (hk : ∀ p ∈ Q, KeyWF p.1) :
    Spec.runOk { S with edges := P ++ Q } ((keys Q).map (fun k => Op.setEdgeMeta (RawEdge.ofKey k) (g k)) ++ rest) =
      Spec.runOk { S with edges := P ++ Q.map (fun p => (p.1, (p.2.1, g p.1))) } rest := by
  induction Q generalizing P with
  | nil => simp [keys]
  | cons q Q ih =>
    obtain ⟨k, w, md⟩ := q
    have hP : get? P k = none := by
      rw [get?_eq_none_iff]
      intro hc
      simp only [keys, List.map_append, List.map_cons] at hnd
      have := (List.nodup_append.mp hnd).2.2 k (by simpa [keys] using hc) k (by simp)
      exact this rfl
    have hkk := hk (k, w, md) List.mem_cons_self
    simp only [keys, List.map_cons, List.cons_append, Spec.runOk, Spec.applyOp, Spec.updEdgeMeta,
      canonStrict_ofKey k hkk]
    have hg : get? (P ++ (k, w, md) :: Q) k = some (w, md) := by
      simp [get?_append, hP, get?]
    simp only [hg]
    rw [set_append_right _ _ _ _ hP]
    simp only [AL.set, if_true]
    have e1 : P ++ (k, w, g k) :: Q = (P ++ [(k, w, g k)]) ++ Q := by simp
    have e2 : P ++ (k, w, g k) :: List.map (fun p => (p.1, (p.2.1, g p.1))) Q =
        (P ++ [(k, w, g k)]) ++ List.map (fun p => (p.1, (p.2.1, g p.1))) Q := by simp
    rw [e1, e2]
    have := ih (P ++ [(k, w, g k)]) (by simpa [keys] using hnd) (fun p hp => hk p (List.mem_cons_of_mem _ hp))
    simp only [keys] at this
    exact this

theorem collect_map {α β γ : Type} (f : β → Option γ) (h : α → β) (g : α → γ) (l : List α)
    (hf : ∀ a ∈ l, f (h a) = some (g a)) : collect f (l.map h) = some (l.map g) := by
  induction l with
  | nil => rfl
  | cons a l ih =>
    simp only [List.map_cons, collect]
    rw [hf a List.mem_cons_self, ih (fun b hb => hf b (List.mem_cons_of_mem _ hb))]

theorem foldl_addK_fresh (L0 l : List Node) (hnd : l.Nodup) (hd : ∀ n ∈ l, n ∉ L0) : l.foldl addK L0 = L0 ++ l := by
  induction l generalizing L0 with
  | nil => simp
  | cons n ns ih =>
    simp only [List.foldl_cons]
    have hn : addK L0 n = L0 ++ [n] := by simp [addK, hd n List.mem_cons_self]
    rw [hn, ih (L0 ++ [n]) (List.nodup_cons.mp hnd).2]
    · simp
    · intro m hm hc
      rcases List.mem_append.mp hc with h | h
      · exact hd m (List.mem_cons_of_mem _ hm) h
      · simp at h; subst h; exact (List.nodup_cons.mp hnd).1 hm

theorem map_keys_get (N : List (Node × Meta)) (hnd : (keys N).Nodup) :
    (keys N).map (fun n => (n, (get? N n).getD [])) = N := by
  induction N with
  | nil => rfl
  | cons p N ih =>
    obtain ⟨n, md⟩ := p
    simp only [keys, List.map_cons] at hnd
    have h' := List.nodup_cons.mp hnd
    have e : (keys N).map (fun m => (m, (get? ((n, md) :: N) m).getD [])) =
        (keys N).map (fun m => (m, (get? N m).getD [])) := by
      apply List.map_congr_left
      intro m hm
      have hne : n ≠ m := fun he => h'.1 (he ▸ hm)
      simp [get?, hne]
    have e0 : get? ((n, md) :: N) n = some md := by simp [get?]
    show (n, (get? ((n, md) :: N) n).getD []) :: (keys N).map (fun m => (m, (get? ((n, md) :: N) m).getD [])) = _
    rw [e, e0, ih h'.2]
    rfl

end C02

namespace C02
open AL

theorem collect_map' {α γ : Type} (f : α → Option γ) (g : α → γ) (l : List α)
    (hf : ∀ a ∈ l, f a = some (g a)) : collect f l = some (l.map g) := by
  have := collect_map f id g l hf
  simpa using this

theorem firstOcc_nodup (l : List Node) : (firstOcc l).Nodup := foldl_addK_nodup [] l List.nodup_nil
theorem mem_firstOcc (l : List Node) (m : Node) : m ∈ firstOcc l ↔ m ∈ l := by
  unfold firstOcc; rw [mem_foldl_addK]; simp

theorem Spec.runOk_cons_ok (S S' : Spec) (o : Op) (os : List Op) (h : Spec.applyOp S o = (S', .ok)) :
    Spec.runOk S (o :: os) = Spec.runOk S' os := by
  simp only [Spec.runOk, h]

/-- `add_nodes` (optional) and `add_edges` of the routine on the fresh object -/
theorem Spec.stage1 (W : Bool) (nl : List Node) (hnl : nl.Nodup) (es : List (Key × (Int × Meta)))
    (hk : ∀ p ∈ es, KeyWF p.1) (hnd : (keys es).Nodup) (hends : ∀ n ∈ endsOf es, n ∈ nl) (keep : Bool) :
    Spec.runOk (Spec.fresh W) ((if keep then [Op.addNodes nl] else []) ++
        [Op.addEdges ((keys es).map RawEdge.ofKey) (if W then some (es.map (·.2.1)) else none) none]) =
      some { weighted := W, nodes := (if keep then nl else firstOcc (endsOf es)).map (fun m => (m, ([] : Meta))),
             edges := newEdges W es, hmeta := ctorHMeta none W } := by
  have mk0 : ([] : List (Node × Meta)) = ([] : List Node).map (fun m => (m, ([] : Meta))) := rfl
  cases keep with
  | true =>
    simp only [if_true, List.singleton_append]
    have a1 : Spec.applyOp (Spec.fresh W) (Op.addNodes nl) =
        ((⟨W, nl.map (fun m => (m, ([] : Meta))), [], ctorHMeta none W⟩ : Spec), Out.ok) := by
      show (Spec.addNodes (Spec.fresh W) nl, Out.ok) = _
      rw [Spec.addNodes_eq]
      show ((⟨W, nl.foldl addN [], [], ctorHMeta none W⟩ : Spec), Out.ok) = _
      rw [mk0, foldl_addN_mk, foldl_addK_fresh [] nl hnl (fun _ _ h => by cases h)]
      simp
    rw [Spec.runOk_cons_ok _ _ _ _ a1]
    have a2 : Spec.applyOp (⟨W, nl.map (fun m => (m, ([] : Meta))), [], ctorHMeta none W⟩ : Spec)
        (Op.addEdges ((keys es).map RawEdge.ofKey) (if W then some (es.map (·.2.1)) else none) none) =
        ((⟨W, nl.map (fun m => (m, ([] : Meta))), newEdges W es, ctorHMeta none W⟩ : Spec), Out.ok) := by
      refine (Spec.addEdges_sel es ⟨W, nl.map (fun m => (m, ([] : Meta))), [], ctorHMeta none W⟩ hk hnd
        (fun p _ => rfl)).trans ?_
      show ((⟨W, (endsOf es).foldl addN (nl.map (fun m => (m, ([] : Meta)))), [] ++ newEdges W es,
        ctorHMeta none W⟩ : Spec), Out.ok) = _
      rw [foldl_addN_mk, foldl_addK_of_mem nl (endsOf es) hends]
      rfl
    rw [Spec.runOk_cons_ok _ _ _ _ a2]
    rfl
  | false =>
    simp only [Bool.false_eq_true, if_false, List.nil_append]
    have a2 : Spec.applyOp (Spec.fresh W)
        (Op.addEdges ((keys es).map RawEdge.ofKey) (if W then some (es.map (·.2.1)) else none) none) =
        ((⟨W, (firstOcc (endsOf es)).map (fun m => (m, ([] : Meta))), newEdges W es, ctorHMeta none W⟩ : Spec), Out.ok) := by
      refine (Spec.addEdges_sel es (Spec.fresh W) hk hnd (fun p _ => rfl)).trans ?_
      show ((⟨W, (endsOf es).foldl addN [], [] ++ newEdges W es, ctorHMeta none W⟩ : Spec), Out.ok) = _
      rw [mk0, foldl_addN_mk]
      rfl
    rw [Spec.runOk_cons_ok _ _ _ _ a2]
    rfl

/-- the two metadata loops of the routine -/
theorem Spec.stage23 (W : Bool) (hm : Meta) (L2 : List Node) (hL2 : L2.Nodup) (es : List (Key × (Int × Meta)))
    (hk : ∀ p ∈ es, KeyWF p.1) (hnd : (keys es).Nodup) (gN : Node → Meta) (gE : Key → Meta) :
    Spec.runOk { weighted := W, nodes := L2.map (fun m => (m, ([] : Meta))), edges := newEdges W es, hmeta := hm }
        (L2.map (fun n => Op.setNodeMeta n (gN n)) ++
          (keys es).map (fun k => Op.setEdgeMeta (RawEdge.ofKey k) (gE k))) =
      some { weighted := W, nodes := L2.map (fun n => (n, gN n)),
             edges := es.map (fun p => (p.1, (if W then p.2.1 else one, gE p.1))), hmeta := hm } := by
  have kN : keys (L2.map (fun m => (m, ([] : Meta)))) = L2 := by simp [keys, Function.comp_def]
  have kE : keys (newEdges W es) = keys es := by simp [keys, newEdges, Function.comp_def]
  have d := Spec.loopD (L2.map (fun m => (m, ([] : Meta)))) []
    { weighted := W, nodes := [], edges := newEdges W es, hmeta := hm } gN
    ((keys es).map (fun k => Op.setEdgeMeta (RawEdge.ofKey k) (gE k))) (by simpa [kN] using hL2)
  simp only [List.nil_append, kN] at d
  rw [d]
  have e := Spec.loopE (newEdges W es) []
    { weighted := W, nodes := (L2.map (fun m => (m, ([] : Meta)))).map (fun p => (p.1, gN p.1)), edges := [], hmeta := hm }
    gE [] (by simpa [kE] using hnd) (by
      intro p hp
      obtain ⟨q, hq, rfl⟩ := List.mem_map.mp hp
      exact hk q hq)
  simp only [List.nil_append, kE, List.append_nil] at e
  rw [e]
  simp [Spec.runOk, newEdges]

end C02

namespace C02
open AL

/-- what `C02_abstract_wellformed` and the unweighted-weights invariant say about the abstract object -/
structure SpecWF (sp : Spec) : Prop where
  ndN : (keys sp.nodes).Nodup
  ndE : (keys sp.edges).Nodup
  kwf : ∀ p ∈ sp.edges, KeyWF p.1
  ends : ∀ p ∈ sp.edges, ∀ n, (n ∈ p.1.1 ∨ n ∈ p.1.2) → n ∈ keys sp.nodes
  unw : sp.weighted = false → ∀ p ∈ sp.edges, p.2.1 = one

/-- **closed form**: the routine run on a well-formed abstract object returns the selected part of it -/
theorem Spec.subHG_eq_sub (sp : Spec) (wf : SpecWF sp) (f : Filt) (up keep : Bool) :
    Spec.subHG sp f up keep = Spec.sub sp f up keep := by
  unfold Spec.subHG Spec.sub Spec.subProgram
  cases ht : f.target with
  | none => simp [Spec.edgesF, ht, subProgramG]
  | some t =>
    simp only [Option.map_some]
    generalize hes : sp.edges.filter (fun p => passes t up p.1) = es
    have hks : sp.edgesF f up = some (keys es) := by
      simp only [Spec.edgesF, ht, Option.map_some, Spec.keyList, keys, ← hes, List.filter_map]
      rfl
    have hsub : ∀ p ∈ es, p ∈ sp.edges := fun p hp => (List.mem_filter.mp (hes ▸ hp)).1
    have hkwf : ∀ p ∈ es, KeyWF p.1 := fun p hp => wf.kwf p (hsub p hp)
    have hndE : (keys es).Nodup := by
      have : (keys es).Sublist (keys sp.edges) := by
        rw [← hes]; exact List.Sublist.map _ List.filter_sublist
      exact this.nodup wf.ndE
    have hget : ∀ p ∈ es, get? sp.edges p.1 = some p.2 :=
      fun p hp => get?_of_mem sp.edges p.1 p.2 wf.ndE (hsub p hp)
    have hends : ∀ n ∈ endsOf es, n ∈ keys sp.nodes := by
      intro n hn
      obtain ⟨p, hp, hn⟩ := List.mem_flatMap.mp hn
      exact wf.ends p (hsub p hp) n (List.mem_append.mp hn)
    -- the first two calls
    have h1 : subOps1G sp.weighted sp.nodeList sp.getWeight (keys es) keep =
        some ((if keep then [Op.addNodes (keys sp.nodes)] else []) ++
          [Op.addEdges ((keys es).map RawEdge.ofKey) (if sp.weighted then some (es.map (·.2.1)) else none) none]) := by
      unfold subOps1G Spec.nodeList
      cases hW : sp.weighted with
      | false => simp
      | true =>
        have : collect (fun k => sp.getWeight (RawEdge.ofKey k)) (keys es) = some (es.map (·.2.1)) := by
          apply collect_map
          intro p hp
          unfold Spec.getWeight
          rw [canonStrict_ofKey p.1 (hkwf p hp)]
          simp [hget p hp]
        simp [this]
    rw [hks]
    unfold subProgramG
    simp only [h1]
    have r1 := Spec.stage1 sp.weighted (keys sp.nodes) wf.ndN es hkwf hndE hends keep
    generalize hL2 : (if keep then keys sp.nodes else firstOcc (endsOf es)) = L2 at r1
    have hL2nd : L2.Nodup := by
      rw [← hL2]; cases keep
      · exact firstOcc_nodup _
      · exact wf.ndN
    have hL2sub : ∀ n ∈ L2, n ∈ keys sp.nodes := by
      intro n hn
      rw [← hL2] at hn
      cases keep
      · exact hends n ((mem_firstOcc _ n).mp hn)
      · exact hn
    have hrun := Spec.runOk_run _ _ _ r1
    rw [hrun]
    have hnl : (⟨sp.weighted, L2.map (fun m => (m, ([] : Meta))), newEdges sp.weighted es, ctorHMeta none sp.weighted⟩ : Spec).nodeList = L2 := by
      simp [Spec.nodeList, keys, Function.comp_def]
    rw [hnl]
    have h2 : subOps2G sp.nodeMeta L2 = some (L2.map (fun n => Op.setNodeMeta n ((get? sp.nodes n).getD []))) := by
      apply collect_map'
      intro n hn
      unfold Spec.nodeMeta
      have := (isSome_get?_iff sp.nodes n).mpr (hL2sub n hn)
      cases hg : get? sp.nodes n with
      | none => rw [hg] at this; simp at this
      | some md => simp
    have h3 : subOps3G sp.edgeMeta (keys es) =
        some ((keys es).map (fun k => Op.setEdgeMeta (RawEdge.ofKey k) (((get? sp.edges k).map (·.2)).getD []))) := by
      unfold subOps3G
      have := collect_map (fun k => (sp.edgeMeta (RawEdge.ofKey k)).map (fun md => Op.setEdgeMeta (RawEdge.ofKey k) md))
        (fun p : Key × (Int × Meta) => p.1)
        (fun p => Op.setEdgeMeta (RawEdge.ofKey p.1) (((get? sp.edges p.1).map (·.2)).getD [])) es (by
          intro p hp
          unfold Spec.edgeMeta
          rw [canonStrict_ofKey p.1 (hkwf p hp)]
          simp [hget p hp])
      simp only [keys, List.map_map] at this ⊢
      exact this
    simp only [h2, h3, Option.bind_some]
    rw [List.append_assoc, Spec.runOk_append, r1]
    simp only [Option.bind_some]
    rw [Spec.stage23 sp.weighted _ L2 hL2nd es hkwf hndE]
    congr 1
    have eE : es.map (fun p => (p.1, (if sp.weighted then p.2.1 else one, ((get? sp.edges p.1).map (·.2)).getD []))) = es := by
      conv => rhs; rw [← List.map_id es]
      apply List.map_congr_left
      intro p hp
      have hw : (if sp.weighted then p.2.1 else one) = p.2.1 := by
        cases hW : sp.weighted with
        | true => simp
        | false => simp [wf.unw hW p (hsub p hp)]
      simp [hget p hp, hw]
    rw [eE]
    have eN : L2.map (fun n => (n, (get? sp.nodes n).getD [])) =
        (if keep then sp.nodes else (firstOcc (endsOf es)).map (fun n => (n, (get? sp.nodes n).getD []))) := by
      rw [← hL2]
      cases keep
      · simp
      · simp only [if_true]; exact map_keys_get sp.nodes wf.ndN
    rw [eN]
    rfl

end C02

namespace C02
open AL

/-- the abstraction of a store satisfying the invariants is a well-formed abstract object -/
theorem specWF_abs (s : Store) (h : Inv s) (u : Unw s) : SpecWF (abs s) := by
  have kk : ∀ p ∈ (abs s).edges, ∃ id, get? s.rev id = some p.1 := by
    intro p hp
    have : p.1 ∈ keys (abs s).edges := List.mem_map.mpr ⟨p, hp, rfl⟩
    rw [abs_edges_keys] at this
    exact (h.mem_keys_iff p.1).mp this
  refine ⟨?_, ?_, ?_, ?_, ?_⟩
  · rw [abs_nodes_keys]; exact h.nd_adjS
  · rw [abs_edges_keys]; exact h.nd_edge
  · intro p hp
    obtain ⟨id, hid⟩ := kk p hp
    exact h.key_wf id p.1 hid
  · intro p hp n hn
    obtain ⟨id, hid⟩ := kk p hp
    rw [abs_nodes_keys]
    exact (isSome_get?_iff _ _).mp (h.nodes_in id p.1 hid n hn)
  · intro hw p hp
    have hw' : s.weighted = false := hw
    obtain ⟨q, hq, rfl⟩ := List.mem_map.mp hp
    have hg : get? s.edgeList q.1 = some q.2 := get?_of_mem _ _ _ h.nd_edge hq
    have hws := h.weights_of_edge q.1 q.2 hg
    obtain ⟨w, hw2⟩ := Option.isSome_iff_exists.mp hws
    show (get? s.weights q.2).getD 0 = one
    rw [hw2]
    exact u hw' q.2 w hw2

end C02
