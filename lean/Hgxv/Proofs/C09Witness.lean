import Hgxv.Model.C09
/-! The concrete hypergraph used by `C09_adjacency_wraps_witness` (and replayed on the implementation by
`harness/c09.py`, fixed case "256 hyperedges share two nodes"): ten nodes with labels that are not `0..N-1`,
and the 256 distinct hyperedges `{3, 5} ∪ S`, `S` ranging over the subsets of the other eight nodes. -/
namespace C09

def wrapNodes : List Nat := [3, 5, 8, 10, 11, 20, 21, 22, 30, 40]

def wrapRest : List Nat := [8, 10, 11, 20, 21, 22, 30, 40]

def wrapEdges : List Edge :=
  (List.range 256).map fun m => 3 :: 5 :: (wrapRest.zipIdx.filter fun xb => m.testBit xb.2).map (·.1)

end C09

namespace C09
/-- the bit mask of a hyperedge over `wrapRest` (the two common nodes contribute `2^8` each) -/
def wrapKey (e : Edge) : Nat := (e.map fun x => 2 ^ wrapRest.idxOf x).sum
end C09
