import Hgxv.Model.C13
/-! # C13 — helper lemmas (core Lean only) -/
namespace C13

/-! ## generic list facts -/

theorem count_flatMap_set {α β} [BEq β] [LawfulBEq β] (g : α → List β) (b : β) (l : List α) (i : Nat)
    (x f : α) (h : l[i]? = some f) :
    List.count b ((l.set i x).flatMap g) + List.count b (g f)
      = List.count b (l.flatMap g) + List.count b (g x) := by
  induction l generalizing i with
  | nil => simp at h
  | cons c t ih =>
    cases i with
    | zero =>
      simp only [List.getElem?_cons_zero, Option.some.injEq] at h
      subst h
      simp only [List.set_cons_zero, List.flatMap_cons, List.count_append]
      omega
    | succ i =>
      simp only [List.getElem?_cons_succ] at h
      have := ih i h
      simp only [List.set_cons_succ, List.flatMap_cons, List.count_append]
      omega

/-- replacing two entries by a pair with the same total count leaves every count unchanged -/
theorem count_flatMap_set2 {α β} [BEq β] [LawfulBEq β] (g : α → List β) (b : β) (l : List α) (i j : Nat)
    (f1 f2 x1 x2 : α) (hi : l[i]? = some f1) (hj : l[j]? = some f2)
    (hne : i ≠ j → List.count b (g x1) + List.count b (g x2) = List.count b (g f1) + List.count b (g f2))
    (heq : i = j → List.count b (g x2) = List.count b (g f1)) :
    List.count b (((l.set i x1).set j x2).flatMap g) = List.count b (l.flatMap g) := by
  by_cases hij : i = j
  · subst hij
    rw [List.set_set]
    have := count_flatMap_set g b l i x2 f1 hi
    have := heq rfl
    omega
  · have h1 := count_flatMap_set g b l i x1 f1 hi
    have hj' : (l.set i x1)[j]? = some f2 := by
      rw [List.getElem?_set]; simp [hij, hj]
    have h2 := count_flatMap_set g b (l.set i x1) j x2 f2 hj'
    have := hne hij
    omega

theorem map_set_same {α β} (g : α → β) (l : List α) (i : Nat) (x f : α) (h : l[i]? = some f)
    (hg : g x = g f) : (l.set i x).map g = l.map g := by
  induction l generalizing i with
  | nil => simp
  | cons c t ih =>
    cases i with
    | zero =>
      simp only [List.getElem?_cons_zero, Option.some.injEq] at h
      subst h
      simp [hg]
    | succ i =>
      simp only [List.getElem?_cons_succ] at h
      simp [ih i h]

theorem map_set2_same {α β} (g : α → β) (l : List α) (i j : Nat) (f1 f2 x1 x2 : α)
    (hi : l[i]? = some f1) (hj : l[j]? = some f2) (h1 : g x1 = g f1) (h2 : g x2 = g f2) :
    ((l.set i x1).set j x2).map g = l.map g := by
  by_cases hij : i = j
  · subst hij
    rw [List.set_set]
    have : f1 = f2 := by rw [hi] at hj; exact Option.some.inj hj
    subst this
    exact map_set_same g l i x2 f1 hi h2
  · have hj' : (l.set i x1)[j]? = some f2 := by
      rw [List.getElem?_set]; simp [hij, hj]
    rw [map_set_same g (l.set i x1) j x2 f2 hj' h2, map_set_same g l i x1 f1 hi h1]

theorem forall_mem_set2 {α} (P : α → Prop) (l : List α) (i j : Nat) (x1 x2 : α)
    (h : ∀ e ∈ l, P e) (h1 : P x1) (h2 : P x2) : ∀ e ∈ (l.set i x1).set j x2, P e := by
  intro e he
  rcases List.mem_or_eq_of_mem_set he with he | rfl
  · rcases List.mem_or_eq_of_mem_set he with he | rfl
    · exact h e he
    · exact h1
  · exact h2

/-! ## `sorted` -/

theorem insertSorted_perm (a : Nat) (l : List Nat) : (insertSorted a l).Perm (a :: l) := by
  induction l with
  | nil => exact List.Perm.refl _
  | cons b bs ih =>
    simp only [insertSorted]
    split
    · exact List.Perm.refl _
    · exact (List.Perm.cons b ih).trans (List.Perm.swap a b bs)

theorem sortNodes_perm (e : Edge) : (sortNodes e).Perm e := by
  induction e with
  | nil => exact List.Perm.refl _
  | cons a t ih =>
    show (insertSorted a (sortNodes t)).Perm (a :: t)
    exact (insertSorted_perm a _).trans (List.Perm.cons a ih)

theorem sortNodes_length (e : Edge) : (sortNodes e).length = e.length := (sortNodes_perm e).length_eq
theorem sortNodes_nodup {e : Edge} (h : e.Nodup) : (sortNodes e).Nodup := (sortNodes_perm e).nodup_iff.mpr h
theorem sortNodes_count (a : Nat) (e : Edge) : (sortNodes e).count a = e.count a := (sortNodes_perm e).count_eq a
theorem sortNodes_contains (a : Nat) (e : Edge) : (sortNodes e).contains a = e.contains a := by
  have := (sortNodes_perm e).mem_iff (a := a)
  cases h : e.contains a <;> simp_all

theorem insertSorted_sorted (a : Nat) (l : List Nat) (h : l.Pairwise (· ≤ ·)) :
    (insertSorted a l).Pairwise (· ≤ ·) := by
  induction l with
  | nil => simp [insertSorted]
  | cons b bs ih =>
    obtain ⟨hb, hbs⟩ := List.pairwise_cons.mp h
    simp only [insertSorted]
    split
    · rename_i hab
      refine List.pairwise_cons.mpr ⟨?_, h⟩
      intro x hx
      rcases List.mem_cons.mp hx with rfl | hx
      · exact hab
      · exact Nat.le_trans hab (hb x hx)
    · rename_i hab
      refine List.pairwise_cons.mpr ⟨?_, ih hbs⟩
      intro x hx
      rcases List.mem_cons.mp ((insertSorted_perm a bs).mem_iff.mp hx) with rfl | hx
      · omega
      · exact hb x hx

theorem sortNodes_sorted (e : Edge) : (sortNodes e).Pairwise (· ≤ ·) := by
  induction e with
  | nil => simp [sortNodes]
  | cons a t ih => exact insertSorted_sorted a _ ih

/-- `sorted` of a node set is the strictly increasing tuple: the canonical form of the set -/
theorem sortNodes_strict {e : Edge} (h : e.Nodup) : (sortNodes e).Pairwise (· < ·) :=
  List.Pairwise.imp₂ (fun _ _ hle hne => Nat.lt_of_le_of_ne hle hne) (sortNodes_sorted e) (sortNodes_nodup h)

/-- two strictly increasing tuples with the same members are the same tuple -/
theorem strict_ext {l1 l2 : List Nat} (h1 : l1.Pairwise (· < ·)) (h2 : l2.Pairwise (· < ·))
    (hm : ∀ x, x ∈ l1 ↔ x ∈ l2) : l1 = l2 := by
  have n1 : l1.Nodup := h1.imp (fun h => Nat.ne_of_lt h)
  have n2 : l2.Nodup := h2.imp (fun h => Nat.ne_of_lt h)
  exact List.Perm.eq_of_pairwise (fun a b _ _ hab hba => absurd hab (Nat.lt_asymm hba)) h1 h2
    ((List.perm_ext_iff_of_nodup n1 n2).mpr hm)

/-! ## `__pairwise_reshuffle` -/

/-- the dealing loop places every element (there is room for all of them); each result is its
start list followed by a part of `f`, the two parts together are `f` -/
theorem deal_spec (f g1 g2 : List Nat) (n1 n2 : Nat) (ds : List Draw) (r1 r2 : List Nat) (ds' : List Draw)
    (h : deal f g1 g2 n1 n2 ds = .ok (r1, r2, ds'))
    (h1 : g1.length ≤ n1) (h2 : g2.length ≤ n2)
    (hroom : f.length + g1.length + g2.length = n1 + n2) :
    r1.length = n1 ∧ r2.length = n2 ∧ ∃ s1 s2, r1 = g1 ++ s1 ∧ r2 = g2 ++ s2 ∧ (s1 ++ s2).Perm f := by
  induction f generalizing g1 g2 ds with
  | nil =>
    simp only [deal, Except.ok.injEq, Prod.mk.injEq] at h
    obtain ⟨rfl, rfl, _⟩ := h
    simp only [List.length_nil, Nat.zero_add] at hroom
    exact ⟨by omega, by omega, [], [], by simp, by simp, by simp⟩
  | cons v f ih =>
    simp only [List.length_cons] at hroom
    have key1 : ∀ ds0, deal f (g1 ++ [v]) g2 n1 n2 ds0 = .ok (r1, r2, ds') → g1.length < n1 →
        r1.length = n1 ∧ r2.length = n2 ∧
          ∃ s1 s2, r1 = g1 ++ s1 ∧ r2 = g2 ++ s2 ∧ (s1 ++ s2).Perm (v :: f) := by
      intro ds0 h0 hlt
      obtain ⟨a, b, s1, s2, e1, e2, hp⟩ := ih (g1 ++ [v]) g2 ds0 h0 (by simp; omega) h2 (by simp; omega)
      refine ⟨a, b, v :: s1, s2, by simp [e1], e2, ?_⟩
      exact List.Perm.cons v hp
    have key2 : ∀ ds0, deal f g1 (g2 ++ [v]) n1 n2 ds0 = .ok (r1, r2, ds') → g2.length < n2 →
        r1.length = n1 ∧ r2.length = n2 ∧
          ∃ s1 s2, r1 = g1 ++ s1 ∧ r2 = g2 ++ s2 ∧ (s1 ++ s2).Perm (v :: f) := by
      intro ds0 h0 hlt
      obtain ⟨a, b, s1, s2, e1, e2, hp⟩ := ih g1 (g2 ++ [v]) ds0 h0 h1 (by simp; omega) (by simp; omega)
      refine ⟨a, b, s1, v :: s2, e1, by simp [e2], ?_⟩
      exact List.perm_middle.trans (List.Perm.cons v hp)
    unfold deal at h
    by_cases hb : g1.length < n1 ∧ g2.length < n2
    · simp only [hb, and_self, if_true] at h
      match ds, h with
      | .coin true :: cs, h => exact key1 cs h hb.1
      | .coin false :: cs, h => exact key2 cs h hb.2
    · simp only [hb, if_false] at h
      by_cases h1' : g1.length < n1
      · simp only [h1', if_true] at h; exact key1 ds h h1'
      · simp only [h1', if_false] at h
        by_cases h2' : g2.length < n2
        · simp only [h2', if_true] at h; exact key2 ds h h2'
        · omega

/-- stripping two occurrences of each `v ∈ ix` (each occurring at least twice) -/
theorem strip_perm (ix f : List Nat) (hnd : ix.Nodup) (hcnt : ∀ v ∈ ix, 2 ≤ f.count v) :
    (strip f ix ++ ix ++ ix).Perm f := by
  induction ix generalizing f with
  | nil => simp [strip]
  | cons v ix ih =>
    have hv : v ∉ ix := (List.nodup_cons.mp hnd).1
    have hnd' := (List.nodup_cons.mp hnd).2
    have hc := hcnt v List.mem_cons_self
    have hm1 : v ∈ f := List.count_pos_iff.mp (by omega)
    have hm2 : v ∈ f.erase v := List.count_pos_iff.mp (by rw [List.count_erase_self]; omega)
    simp only [strip]
    have ih' := ih ((f.erase v).erase v) hnd' (by
      intro u hu
      have hne : u ≠ v := fun h => hv (h ▸ hu)
      rw [List.count_erase_of_ne hne, List.count_erase_of_ne hne]
      exact hcnt u (List.mem_cons_of_mem _ hu))
    have hf : f.Perm (v :: v :: (f.erase v).erase v) :=
      (List.perm_cons_erase hm1).trans (List.Perm.cons v (List.perm_cons_erase hm2))
    refine List.Perm.trans ?_ hf.symm
    have : (strip ((f.erase v).erase v) ix ++ v :: ix ++ v :: ix).Perm
        (v :: v :: (strip ((f.erase v).erase v) ix ++ ix ++ ix)) := by
      simp only [List.append_assoc]
      refine (List.perm_middle).trans (List.Perm.cons v ?_)
      have h2 : (ix ++ v :: ix).Perm (v :: (ix ++ ix)) := List.perm_middle
      exact (List.Perm.append_left _ h2).trans List.perm_middle
    exact this.trans (List.Perm.cons v (List.Perm.cons v ih'))

theorem mem_inter {f1 f2 : Edge} {v : Nat} : v ∈ inter f1 f2 ↔ v ∈ f1 ∧ v ∈ f2 := by
  simp [inter, List.mem_filter]

theorem inter_nodup {f1 f2 : Edge} (h1 : f1.Nodup) : (inter f1 f2).Nodup := h1.filter _

/-- count bookkeeping of the remainder: `count(strip) + 2·count(ix) = count f1 + count f2` -/
theorem strip_count (f1 f2 : Edge) (h1 : f1.Nodup) (a : Nat) :
    (strip (f1 ++ f2) (inter f1 f2)).count a + (inter f1 f2).count a + (inter f1 f2).count a
      = f1.count a + f2.count a := by
  have hcnt : ∀ v ∈ inter f1 f2, 2 ≤ (f1 ++ f2).count v := by
    intro v hv
    obtain ⟨hv1, hv2⟩ := mem_inter.mp hv
    rw [List.count_append]
    have a := List.count_pos_iff.mpr hv1
    have b := List.count_pos_iff.mpr hv2
    omega
  have := (strip_perm _ (f1 ++ f2) (inter_nodup h1) hcnt).count_eq a
  simp only [List.count_append] at this
  omega

/-- the three possible situations of a node w.r.t. two duplicate-free hyperedges -/
theorem count_cases (f1 f2 : Edge) (h1 : f1.Nodup) (h2 : f2.Nodup) (a : Nat) :
    f1.count a ≤ 1 ∧ f2.count a ≤ 1 ∧
    (((inter f1 f2).count a = 1 ∧ f1.count a = 1 ∧ f2.count a = 1) ∨
     ((inter f1 f2).count a = 0 ∧ (f1.count a = 0 ∨ f2.count a = 0))) := by
  have c1 := List.nodup_iff_count.mp h1 a
  have c2 := List.nodup_iff_count.mp h2 a
  refine ⟨c1, c2, ?_⟩
  by_cases hm : a ∈ inter f1 f2
  · left
    obtain ⟨m1, m2⟩ := mem_inter.mp hm
    have := List.count_pos_iff.mpr m1
    have := List.count_pos_iff.mpr m2
    have := List.count_pos_iff.mpr hm
    have := List.nodup_iff_count.mp (inter_nodup (f2 := f2) h1) a
    omega
  · right
    refine ⟨List.count_eq_zero.mpr hm, ?_⟩
    by_cases m1 : a ∈ f1
    · right
      exact List.count_eq_zero.mpr (fun m2 => hm (mem_inter.mpr ⟨m1, m2⟩))
    · left; exact List.count_eq_zero.mpr m1

/-- what a pair of replacement hyperedges must satisfy -/
structure Good (f1 f2 g1 g2 : Edge) : Prop where
  len1 : g1.length = f1.length
  len2 : g2.length = f2.length
  nd1 : g1.Nodup
  nd2 : g2.Nodup
  cnt : ∀ a, g1.count a + g2.count a = f1.count a + f2.count a

theorem reshuffle_good (f1 f2 : Edge) (ds : List Draw) (g1 g2 : Edge) (ds' : List Draw)
    (h : reshuffle f1 f2 ds = .ok (g1, g2, ds')) (h1 : f1.Nodup) (h2 : f2.Nodup) :
    Good f1 f2 g1 g2 := by
  unfold reshuffle at h
  split at h
  · simp at h
  · rename_i r1 r2 ds1 hd
    simp only [Except.ok.injEq, Prod.mk.injEq] at h
    obtain ⟨rfl, rfl, _⟩ := h
    have hixnd : (inter f1 f2).Nodup := inter_nodup h1
    have hle1 : (inter f1 f2).length ≤ f1.length := List.length_filter_le _ _
    have hle2 : (inter f1 f2).length ≤ f2.length :=
      hixnd.length_le_of_subset (fun v hv => (mem_inter.mp hv).2)
    have hlen : (strip (f1 ++ f2) (inter f1 f2)).length + (inter f1 f2).length + (inter f1 f2).length
        = f1.length + f2.length := by
      have hcnt : ∀ v ∈ inter f1 f2, 2 ≤ (f1 ++ f2).count v := by
        intro v hv
        obtain ⟨hv1, hv2⟩ := mem_inter.mp hv
        rw [List.count_append]
        have a := List.count_pos_iff.mpr hv1
        have b := List.count_pos_iff.mpr hv2
        omega
      have := (strip_perm _ (f1 ++ f2) hixnd hcnt).length_eq
      simp only [List.length_append] at this
      omega
    obtain ⟨l1, l2, s1, s2, e1, e2, hp⟩ := deal_spec _ _ _ _ _ _ _ _ _ hd hle1 hle2 hlen
    -- counts in the two dealt parts
    have hs : ∀ a, s1.count a + s2.count a = (strip (f1 ++ f2) (inter f1 f2)).count a := by
      intro a; have := hp.count_eq a; simpa [List.count_append] using this
    have hr1 : ∀ a, r1.count a = (inter f1 f2).count a + s1.count a := by
      intro a; rw [e1, List.count_append]
    have hr2 : ∀ a, r2.count a = (inter f1 f2).count a + s2.count a := by
      intro a; rw [e2, List.count_append]
    have nd : ∀ a, r1.count a ≤ 1 ∧ r2.count a ≤ 1 := by
      intro a
      have := strip_count f1 f2 h1 a
      have := count_cases f1 f2 h1 h2 a
      have := hs a; have := hr1 a; have := hr2 a
      omega
    refine ⟨by rw [sortNodes_length]; exact l1, by rw [sortNodes_length]; exact l2,
      sortNodes_nodup (List.nodup_iff_count.mpr fun a => (nd a).1),
      sortNodes_nodup (List.nodup_iff_count.mpr fun a => (nd a).2), ?_⟩
    intro a
    rw [sortNodes_count, sortNodes_count]
    have := strip_count f1 f2 h1 a
    have := hs a; have := hr1 a; have := hr2 a
    omega

theorem Good.sort {f1 f2 g1 g2 : Edge} (h : Good f1 f2 g1 g2) : Good f1 f2 (sortNodes g1) (sortNodes g2) :=
  ⟨by rw [sortNodes_length]; exact h.len1, by rw [sortNodes_length]; exact h.len2,
   sortNodes_nodup h.nd1, sortNodes_nodup h.nd2, by
    intro a; rw [sortNodes_count, sortNodes_count]; exact h.cnt a⟩

/-! ## one Metropolis step -/

theorem count_map_pair (v k L : Nat) (e : List Nat) :
    List.count (v, k) (e.map (fun u => (u, L))) = if L = k then e.count v else 0 := by
  induction e with
  | nil => simp
  | cons u t ih =>
    simp only [List.map_cons, List.count_cons, ih, beq_iff_eq, Prod.mk.injEq]
    by_cases hL : L = k <;> by_cases hu : u = v <;> simp [hL, hu]

theorem count_incE (v k : Nat) (e : Edge) :
    List.count (v, k) (incE e) = if e.length = k then e.count v else 0 := count_map_pair v k e.length e

theorem stubs_eq (es : List Edge) : stubs es = es.flatMap id := by
  simp [stubs, List.flatMap_id]

theorem pick_spec (detailed : Bool) (es : List Edge) (ds : List Draw) (i j : Nat) (f1 f2 : Edge)
    (ds' : List Draw) (h : pick detailed es ds = .ok (i, j, f1, f2, ds')) :
    es[i]? = some f1 ∧ es[j]? = some f2 ∧ (detailed = true → f1.length = f2.length) := by
  induction ds with
  | nil => simp [pick] at h
  | cons d ds ih =>
    cases d with
    | coin b => simp [pick] at h
    | idx a b =>
      simp only [pick] at h
      split at h
      · rename_i x1 x2 e1 e2
        split at h
        · rename_i hadm
          simp only [Except.ok.injEq, Prod.mk.injEq] at h
          obtain ⟨rfl, rfl, rfl, rfl, _⟩ := h
          refine ⟨e1, e2, ?_⟩
          intro hd
          simpa [admissible, hd] using hadm
        · exact ih h
      · simp at h

/-- a successful step replaces the hyperedges at two drawn positions by a `Good` pair -/
theorem mhStep_spec (detailed : Bool) (es : List Edge) (ds : List Draw) (es' : List Edge) (ds' : List Draw)
    (h : mhStep detailed es ds = .ok (es', ds')) :
    ∃ i j f1 f2 g1 g2, es[i]? = some f1 ∧ es[j]? = some f2 ∧ (detailed = true → f1.length = f2.length) ∧
      es' = (es.set i g1).set j g2 ∧ (f1.Nodup → f2.Nodup → Good f1 f2 g1 g2) := by
  unfold mhStep at h
  split at h
  · simp at h
  · rename_i i j f1 f2 ds1 hp
    split at h
    · simp at h
    · rename_i g1 g2 ds2 hr
      simp only [Except.ok.injEq, Prod.mk.injEq] at h
      obtain ⟨rfl, _⟩ := h
      unfold proposal at hp
      split at hp
      · simp at hp
      · obtain ⟨hi, hj, hd⟩ := pick_spec _ _ _ _ _ _ _ _ hp
        exact ⟨i, j, f1, f2, _, _, hi, hj, hd, rfl, fun n1 n2 => (reshuffle_good _ _ _ _ _ _ hr n1 n2).sort⟩

/-! ## replacing a pair of hyperedges by a `Good` pair -/

section setPair
variable (es : List Edge) (i j : Nat) (f1 f2 g1 g2 : Edge)
  (hi : es[i]? = some f1) (hj : es[j]? = some f2) (hg : Good f1 f2 g1 g2)
include hi hj hg

theorem setPair_sizes : sizes ((es.set i g1).set j g2) = sizes es :=
  map_set2_same List.length es i j f1 f2 g1 g2 hi hj hg.len1 hg.len2

omit hi hj in
theorem setPair_nodup (hnd : ∀ e ∈ es, e.Nodup) : ∀ e ∈ (es.set i g1).set j g2, e.Nodup :=
  forall_mem_set2 _ es i j g1 g2 hnd hg.nd1 hg.nd2

theorem setPair_stubs (h1 : f1.Nodup) : (stubs ((es.set i g1).set j g2)).Perm (stubs es) := by
  rw [stubs_eq, stubs_eq]
  apply List.perm_iff_count.mpr
  intro a
  apply count_flatMap_set2 id a es i j f1 f2 g1 g2 hi hj
  · intro _; exact hg.cnt a
  · intro hij
    subst hij
    have : f1 = f2 := by rw [hi] at hj; exact Option.some.inj hj
    subst this
    have := hg.cnt a
    have := List.nodup_iff_count.mp hg.nd1 a
    have := List.nodup_iff_count.mp hg.nd2 a
    have := List.nodup_iff_count.mp h1 a
    simp only [id]
    omega

theorem setPair_incidences (h1 : f1.Nodup) (hlen : i ≠ j → f1.length = f2.length) :
    (incidences ((es.set i g1).set j g2)).Perm (incidences es) := by
  apply List.perm_iff_count.mpr
  intro ⟨v, k⟩
  apply count_flatMap_set2 incE (v, k) es i j f1 f2 g1 g2 hi hj
  · intro hij
    rw [count_incE, count_incE, count_incE, count_incE, hg.len1, hg.len2, ← hlen hij]
    have := hg.cnt v
    split <;> omega
  · intro hij
    subst hij
    have : f1 = f2 := by rw [hi] at hj; exact Option.some.inj hj
    subst this
    rw [count_incE, count_incE, hg.len2]
    have := hg.cnt v
    have := List.nodup_iff_count.mp hg.nd1 v
    have := List.nodup_iff_count.mp hg.nd2 v
    have := List.nodup_iff_count.mp h1 v
    split <;> omega

end setPair

/-! ## invariants of a step and of the chain -/

theorem mhStep_inv (detailed : Bool) (es : List Edge) (ds : List Draw) (es' : List Edge) (ds' : List Draw)
    (h : mhStep detailed es ds = .ok (es', ds')) (hnd : ∀ e ∈ es, e.Nodup) :
    (∀ e ∈ es', e.Nodup) ∧ sizes es' = sizes es ∧ (stubs es').Perm (stubs es) ∧
      (detailed = true → (incidences es').Perm (incidences es)) := by
  obtain ⟨i, j, f1, f2, g1, g2, hi, hj, hd, rfl, hg⟩ := mhStep_spec _ _ _ _ _ h
  have n1 := hnd f1 (List.mem_of_getElem? hi)
  have n2 := hnd f2 (List.mem_of_getElem? hj)
  have g := hg n1 n2
  exact ⟨setPair_nodup es i j f1 f2 g1 g2 g hnd, setPair_sizes es i j f1 f2 g1 g2 hi hj g,
    setPair_stubs es i j f1 f2 g1 g2 hi hj g n1,
    fun hdet => setPair_incidences es i j f1 f2 g1 g2 hi hj g n1 (fun _ => hd hdet)⟩

theorem chain_inv (detailed : Bool) (n : Nat) (es : List Edge) (ds : List Draw) (es' : List Edge)
    (ds' : List Draw) (h : chain detailed n es ds = .ok (es', ds')) (hnd : ∀ e ∈ es, e.Nodup) :
    (∀ e ∈ es', e.Nodup) ∧ sizes es' = sizes es ∧ (stubs es').Perm (stubs es) ∧
      (detailed = true → (incidences es').Perm (incidences es)) := by
  induction n generalizing es ds with
  | zero =>
    simp only [chain, Except.ok.injEq, Prod.mk.injEq] at h
    obtain ⟨rfl, _⟩ := h
    exact ⟨hnd, rfl, List.Perm.refl _, fun _ => List.Perm.refl _⟩
  | succ n ih =>
    simp only [chain] at h
    split at h
    · simp at h
    · rename_i es1 ds1 hs
      obtain ⟨a1, b1, c1, d1⟩ := mhStep_inv _ _ _ _ _ hs hnd
      obtain ⟨a2, b2, c2, d2⟩ := ih es1 ds1 h a1
      exact ⟨a2, b2.trans b1, c2.trans c1, fun hd => (d2 hd).trans (d1 hd)⟩

/-! ## degrees are counts of incidences (duplicate-free hyperedges) -/

theorem degK_eq_count (es : List Edge) (hnd : ∀ e ∈ es, e.Nodup) (n k : Nat) :
    degK es n k = List.count (n, k) (incidences es) := by
  induction es with
  | nil => simp [degK, incidences]
  | cons e t ih =>
    have ih' := ih (fun x hx => hnd x (List.mem_cons_of_mem _ hx))
    have he := hnd e List.mem_cons_self
    simp only [degK, incidences] at ih' ⊢
    rw [List.countP_cons, List.flatMap_cons, List.count_append, count_incE, ih', he.count]
    by_cases hl : e.length = k <;> by_cases hm : n ∈ e <;> simp [hl, hm] <;> omega

theorem deg_eq_count (es : List Edge) (hnd : ∀ e ∈ es, e.Nodup) (n : Nat) :
    deg es n = List.count n (stubs es) := by
  induction es with
  | nil => simp [deg, stubs]
  | cons e t ih =>
    have ih' := ih (fun x hx => hnd x (List.mem_cons_of_mem _ hx))
    have he := hnd e List.mem_cons_self
    simp only [deg, stubs] at ih' ⊢
    rw [List.countP_cons, List.flatten_cons, List.count_append, ih', he.count]
    by_cases hm : n ∈ e <;> simp [hm] <;> omega

/-- degrees do not see the order of the nodes inside a hyperedge -/
theorem degK_map_sort (es : List Edge) (n k : Nat) : degK (es.map sortNodes) n k = degK es n k := by
  simp only [degK, List.countP_map]
  congr 1
  funext e
  simp only [Function.comp_def, sortNodes_length, sortNodes_contains]

theorem deg_map_sort (es : List Edge) (n : Nat) : deg (es.map sortNodes) n = deg es n := by
  simp only [deg, List.countP_map]
  congr 1
  funext e
  simp only [Function.comp_def, sortNodes_contains]

theorem sizes_map_sort (es : List Edge) : sizes (es.map sortNodes) = sizes es := by
  simp [sizes, List.map_map, Function.comp_def, sortNodes_length]

/-! ## merging coinciding hyperedges -/

theorem dedup_sublist {α} [BEq α] (l : List α) : (dedup l).Sublist l := by
  induction l with
  | nil => exact List.Sublist.refl _
  | cons a t ih =>
    simp only [dedup]
    split
    · exact List.Sublist.cons a ih
    · exact List.Sublist.cons_cons a ih

theorem mem_dedup {α} [BEq α] [LawfulBEq α] (l : List α) (x : α) : x ∈ dedup l ↔ x ∈ l := by
  induction l with
  | nil => simp [dedup]
  | cons a t ih =>
    simp only [dedup]
    split
    · rename_i hc
      have : a ∈ t := by simpa using hc
      constructor
      · intro h; exact List.mem_cons_of_mem _ (ih.mp h)
      · intro h
        rcases List.mem_cons.mp h with rfl | h
        · exact ih.mpr this
        · exact ih.mpr h
    · simp [List.mem_cons, ih]

theorem dedup_nodup {α} [BEq α] [LawfulBEq α] (l : List α) : (dedup l).Nodup := by
  induction l with
  | nil => simp [dedup]
  | cons a t ih =>
    simp only [dedup]
    split
    · exact ih
    · rename_i hc
      have : a ∉ t := by simpa using hc
      exact List.nodup_cons.mpr ⟨fun h => this ((mem_dedup t a).mp h), ih⟩

theorem dedup_eq_of_length {α} [BEq α] (l : List α) (h : (dedup l).length = l.length) : dedup l = l :=
  (dedup_sublist l).eq_of_length h

/-! ## `stub_edge_mh` end to end -/

/-- everything the property claims about one returned listing `out` for the input listing `es` -/
structure Preserved (detailed : Bool) (es out : List Edge) : Prop where
  distinct : out.Nodup
  edgesNodup : ∀ e ∈ out, e.Nodup
  sorted : ∀ e ∈ out, e.Pairwise (· < ·)
  sizesSub : ∀ e ∈ out, e.length ∈ sizes es
  len_le : out.length ≤ es.length
  deg_le : ∀ n, deg out n ≤ deg es n
  degK_le : detailed = true → ∀ n k, degK out n k ≤ degK es n k
  deg_eq : out.length = es.length → ∀ n, deg out n = deg es n
  degK_eq : out.length = es.length → detailed = true → ∀ n k, degK out n k = degK es n k
  sizes_eq : out.length = es.length → (sizes out).Perm (sizes es)

theorem sizes_length (es : List Edge) : (sizes es).length = es.length := by simp [sizes]

theorem stubEdgeMH_preserved (detailed : Bool) (n : Nat) (es : List Edge) (ds : List Draw) (out : List Edge)
    (h : stubEdgeMH detailed n es ds = .ok out) (hnd : ∀ e ∈ es, e.Nodup) :
    Preserved detailed es out := by
  unfold stubEdgeMH at h
  split at h
  · simp at h
  · rename_i es' ds' hc
    simp only [Except.ok.injEq] at h
    subst h
    obtain ⟨nd', sz, st, inc⟩ := chain_inv _ _ _ _ _ _ hc hnd
    have hlen : (es'.map sortNodes).length = es.length := by
      rw [List.length_map, ← sizes_length es', sz, sizes_length]
    have hdeg : ∀ x, deg (es'.map sortNodes) x = deg es x := by
      intro x
      rw [deg_map_sort, deg_eq_count es' nd', deg_eq_count es hnd]
      exact st.count_eq x
    have hdegK : detailed = true → ∀ x k, degK (es'.map sortNodes) x k = degK es x k := by
      intro hd x k
      rw [degK_map_sort, degK_eq_count es' nd', degK_eq_count es hnd]
      exact (inc hd).count_eq (x, k)
    have hsub := dedup_sublist (es'.map sortNodes)
    have hmem : ∀ e ∈ dedup (es'.map sortNodes), ∃ e0 ∈ es', e = sortNodes e0 := by
      intro e he
      obtain ⟨e0, h0, rfl⟩ := List.mem_map.mp ((mem_dedup _ e).mp he)
      exact ⟨e0, h0, rfl⟩
    refine ⟨dedup_nodup _, ?_, ?_, ?_, ?_, ?_, ?_, ?_, ?_, ?_⟩
    · intro e he
      obtain ⟨e0, h0, rfl⟩ := hmem e he
      exact sortNodes_nodup (nd' e0 h0)
    · intro e he
      obtain ⟨e0, h0, rfl⟩ := hmem e he
      exact sortNodes_strict (nd' e0 h0)
    · intro e he
      obtain ⟨e0, h0, rfl⟩ := hmem e he
      rw [sortNodes_length, ← sz]
      exact List.mem_map.mpr ⟨e0, h0, rfl⟩
    · rw [← hlen]; exact hsub.length_le
    · intro x; rw [← hdeg x]; exact hsub.countP_le
    · intro hd x k; rw [← hdegK hd x k]; exact hsub.countP_le
    · intro hl x
      rw [dedup_eq_of_length _ (hl.trans hlen.symm)]; exact hdeg x
    · intro hl hd x k
      rw [dedup_eq_of_length _ (hl.trans hlen.symm)]; exact hdegK hd x k
    · intro hl
      rw [dedup_eq_of_length _ (hl.trans hlen.symm), sizes_map_sort, sz]

theorem cmMCMC_preserved (label : Label) (detailed : Bool) (n : Nat) (es : List Edge) (ds : List Draw)
    (out : List Edge) (h : cmMCMC label detailed n es ds = .ok out) (hnd : ∀ e ∈ es, e.Nodup) :
    Preserved detailed es out := by
  cases label <;> exact stubEdgeMH_preserved _ _ _ _ _ h hnd

/-! ## the `size=` / `order=` variant -/

theorem foldl_addEdge (rest out : List Edge) (hnd : rest.Nodup) (hdis : ∀ e ∈ rest, e ∉ out) :
    rest.foldl addEdge out = out ++ rest := by
  induction rest generalizing out with
  | nil => simp
  | cons e t ih =>
    have he : e ∉ out := hdis e List.mem_cons_self
    have hnd' := List.nodup_cons.mp hnd
    have h1 : addEdge out e = out ++ [e] := by simp [addEdge, he]
    rw [List.foldl_cons, h1, ih (out ++ [e]) hnd'.2]
    · simp
    · intro x hx hmem
      rcases List.mem_append.mp hmem with hm | hm
      · exact hdis x (List.mem_cons_of_mem _ hx) hm
      · have : x = e := by simpa using hm
        exact hnd'.1 (this ▸ hx)

theorem countP_split {α} (p q : α → Bool) (l : List α) :
    l.countP p = (l.filter q).countP p + (l.filter (fun x => !q x)).countP p := by
  induction l with
  | nil => simp
  | cons a t ih =>
    by_cases hq : q a <;> by_cases hp : p a <;> simp [hq, hp, ih] <;> omega

theorem length_split {α} (q : α → Bool) (l : List α) :
    l.length = (l.filter q).length + (l.filter (fun x => !q x)).length := by
  induction l with
  | nil => simp
  | cons a t ih =>
    by_cases hq : q a <;> simp [hq, ih] <;> omega

theorem filter_split_perm {α} [BEq α] [LawfulBEq α] (q : α → Bool) (l : List α) :
    (l.filter q ++ l.filter (fun x => !q x)).Perm l := by
  apply List.perm_iff_count.mpr
  intro a
  rw [List.count_append]
  exact (countP_split _ q l).symm

/-- the restricted call returns the reshuffled hyperedges of size `s` followed by all others -/
theorem restricted_spec (label : Label) (detailed : Bool) (s n : Nat) (es : List Edge) (ds : List Draw)
    (out : List Edge) (h : configurationModel label detailed (some s) n es ds = .ok out)
    (hdist : es.Nodup) (hnd : ∀ e ∈ es, e.Nodup) :
    ∃ out0, Preserved detailed (es.filter (fun e => e.length == s)) out0 ∧
      (∀ e ∈ out0, e.length = s) ∧ out = out0 ++ es.filter (fun e => e.length != s) := by
  simp only [configurationModel] at h
  split at h
  · simp at h
  · rename_i out0 h0
    simp only [Except.ok.injEq] at h
    have P := cmMCMC_preserved _ _ _ _ _ _ h0 (fun e he => hnd e (List.mem_filter.mp he).1)
    have hsz : ∀ e ∈ out0, e.length = s := by
      intro e he
      obtain ⟨e0, h0, hl⟩ := List.mem_map.mp (P.sizesSub e he)
      have := (List.mem_filter.mp h0).2
      simp only [beq_iff_eq] at this
      omega
    refine ⟨out0, P, hsz, ?_⟩
    rw [← h]
    apply foldl_addEdge
    · exact hdist.sublist List.filter_sublist
    · intro e he hmem
      have := (List.mem_filter.mp he).2
      have := hsz e hmem
      simp_all

/-! ## directed configuration model -/

/-- `s[s.index(a)] = b` removes one occurrence of `a` and adds one of `b` -/
theorem replaceFirst_count (s : List Nat) (a b x : Nat) (ha : a ∈ s) :
    (replaceFirst s a b).count x + (if a = x then 1 else 0) = s.count x + (if b = x then 1 else 0) := by
  induction s with
  | nil => simp at ha
  | cons c t ih =>
    unfold replaceFirst at ih ⊢
    rw [List.idxOf_cons]
    by_cases hc : c = a
    · subst hc
      simp only [beq_self_eq_true, cond_true, List.set_cons_zero, List.count_cons, beq_iff_eq]
      split <;> split <;> omega
    · have hc' : (c == a) = false := by simpa using hc
      have ha' : a ∈ t := by
        rcases List.mem_cons.mp ha with h | h
        · exact absurd h.symm hc
        · exact h
      have := ih ha'
      simp only [hc', cond_false, List.set_cons_succ, List.count_cons]
      omega

theorem replaceFirst_length (s : List Nat) (a b : Nat) : (replaceFirst s a b).length = s.length := by
  simp [replaceFirst]

theorem replaceFirst_nodup (s : List Nat) (a b : Nat) (ha : a ∈ s) (hb : b ∉ s) (hs : s.Nodup) :
    (replaceFirst s a b).Nodup := by
  apply List.nodup_iff_count.mpr
  intro x
  have h1 := replaceFirst_count s a b x ha
  have h2 := List.nodup_iff_count.mp hs x
  by_cases hbx : b = x
  · subst hbx
    have := List.count_eq_zero.mpr hb
    simp only [if_true] at h1
    split at h1 <;> omega
  · simp only [hbx, if_false] at h1
    split at h1 <;> omega

/-- a successful iteration either leaves the list alone or swaps two nodes that pass both tests -/
theorem swapStep_spec (tgt : Bool) (es : List DEdge) (ds : List Nat) (es' : List DEdge) (ds' : List Nat)
    (h : swapStep tgt es ds = .ok (es', ds')) :
    es' = es ∨ ∃ id1 id2 e1 e2 n1 n2, id1 ≠ id2 ∧ es[id1]? = some e1 ∧ es[id2]? = some e2 ∧
      n1 ∈ side tgt e1 ∧ n2 ∈ side tgt e2 ∧ n2 ∉ side tgt e1 ∧ n1 ∉ side tgt e2 ∧
      es' = (es.set id1 (setSide tgt e1 (replaceFirst (side tgt e1) n1 n2))).set id2
              (setSide tgt e2 (replaceFirst (side tgt e2) n2 n1)) := by
  unfold swapStep at h
  split at h
  · rename_i id1 id2 ds0
    split at h
    · rename_i e1 e2 he1 he2
      split at h
      · simp only [Except.ok.injEq, Prod.mk.injEq] at h
        exact Or.inl h.1.symm
      · rename_i hne
        split at h
        · simp at h
        · split at h
          · simp at h
          · rename_i c1 ds1
            split at h
            · simp at h
            · rename_i n1 hn1
              split at h
              · simp at h
              · split at h
                · simp at h
                · rename_i c2 ds2
                  split at h
                  · simp at h
                  · rename_i n2 hn2
                    simp only [Except.ok.injEq, Prod.mk.injEq] at h
                    obtain ⟨rfl, _⟩ := h
                    unfold swapNodes
                    split
                    · exact Or.inl rfl
                    · rename_i href
                      simp only [Bool.or_eq_true, List.contains_iff_mem, not_or] at href
                      exact Or.inr ⟨id1, id2, e1, e2, n1, n2, hne, he1, he2,
                        List.mem_of_getElem? hn1, List.mem_of_getElem? hn2, href.1, href.2, rfl⟩
    · simp at h
  · simp at h

/-- invariant of the two swap loops: sides stay duplicate-free, shapes are kept position by
position, the multisets of source stubs and of target stubs are unchanged -/
structure DInv (es es' : List DEdge) : Prop where
  nd : ∀ e ∈ es', e.1.Nodup ∧ e.2.Nodup
  shp : shapes es' = shapes es
  src : (srcStubs es').Perm (srcStubs es)
  tgt : (tgtStubs es').Perm (tgtStubs es)

theorem DInv.refl (es : List DEdge) (h : ∀ e ∈ es, e.1.Nodup ∧ e.2.Nodup) : DInv es es :=
  ⟨h, rfl, List.Perm.refl _, List.Perm.refl _⟩

theorem DInv.trans {a b c : List DEdge} (h1 : DInv a b) (h2 : DInv b c) : DInv a c :=
  ⟨h2.nd, h2.shp.trans h1.shp, h2.src.trans h1.src, h2.tgt.trans h1.tgt⟩

theorem swapStep_inv (tgt : Bool) (es : List DEdge) (ds : List Nat) (es' : List DEdge) (ds' : List Nat)
    (h : swapStep tgt es ds = .ok (es', ds')) (hnd : ∀ e ∈ es, e.1.Nodup ∧ e.2.Nodup) : DInv es es' := by
  rcases swapStep_spec tgt es ds es' ds' h with rfl | ⟨id1, id2, e1, e2, n1, n2, hne, he1, he2, m1, m2, r1, r2, rfl⟩
  · exact DInv.refl _ hnd
  · have nd1 := hnd e1 (List.mem_of_getElem? he1)
    have nd2 := hnd e2 (List.mem_of_getElem? he2)
    cases tgt
    · -- source phase
      simp only [side, setSide, Bool.false_eq_true, if_false] at m1 m2 r1 r2 ⊢
      refine ⟨?_, ?_, ?_, ?_⟩
      · exact forall_mem_set2 _ es id1 id2 _ _ hnd
          ⟨replaceFirst_nodup _ _ _ m1 r1 nd1.1, nd1.2⟩ ⟨replaceFirst_nodup _ _ _ m2 r2 nd2.1, nd2.2⟩
      · exact map_set2_same _ es id1 id2 e1 e2 _ _ he1 he2
          (by simp [replaceFirst_length]) (by simp [replaceFirst_length])
      · apply List.perm_iff_count.mpr
        intro x
        apply count_flatMap_set2 (fun e : DEdge => e.1) x es id1 id2 e1 e2 _ _ he1 he2
        · intro _
          have a1 := replaceFirst_count e1.1 n1 n2 x m1
          have a2 := replaceFirst_count e2.1 n2 n1 x m2
          simp only
          omega
        · intro hij; exact absurd hij hne
      · apply List.perm_iff_count.mpr
        intro x
        apply count_flatMap_set2 (fun e : DEdge => e.2) x es id1 id2 e1 e2 _ _ he1 he2
        · intro _; rfl
        · intro hij; exact absurd hij hne
    · -- target phase
      simp only [side, setSide, if_true] at m1 m2 r1 r2 ⊢
      refine ⟨?_, ?_, ?_, ?_⟩
      · exact forall_mem_set2 _ es id1 id2 _ _ hnd
          ⟨nd1.1, replaceFirst_nodup _ _ _ m1 r1 nd1.2⟩ ⟨nd2.1, replaceFirst_nodup _ _ _ m2 r2 nd2.2⟩
      · exact map_set2_same _ es id1 id2 e1 e2 _ _ he1 he2
          (by simp [replaceFirst_length]) (by simp [replaceFirst_length])
      · apply List.perm_iff_count.mpr
        intro x
        apply count_flatMap_set2 (fun e : DEdge => e.1) x es id1 id2 e1 e2 _ _ he1 he2
        · intro _; rfl
        · intro hij; exact absurd hij hne
      · apply List.perm_iff_count.mpr
        intro x
        apply count_flatMap_set2 (fun e : DEdge => e.2) x es id1 id2 e1 e2 _ _ he1 he2
        · intro _
          have a1 := replaceFirst_count e1.2 n1 n2 x m1
          have a2 := replaceFirst_count e2.2 n2 n1 x m2
          simp only
          omega
        · intro hij; exact absurd hij hne

theorem swapLoop_inv (tgt : Bool) (n : Nat) (es : List DEdge) (ds : List Nat) (es' : List DEdge)
    (ds' : List Nat) (h : swapLoop tgt n es ds = .ok (es', ds'))
    (hnd : ∀ e ∈ es, e.1.Nodup ∧ e.2.Nodup) : DInv es es' := by
  induction n generalizing es ds with
  | zero =>
    simp only [swapLoop, Except.ok.injEq, Prod.mk.injEq] at h
    obtain ⟨rfl, _⟩ := h
    exact DInv.refl _ hnd
  | succ n ih =>
    simp only [swapLoop] at h
    split at h
    · simp at h
    · rename_i es1 ds1 hs
      have i1 := swapStep_inv _ _ _ _ _ hs hnd
      exact i1.trans (ih es1 ds1 h i1.nd)

theorem outDeg_eq_count (es : List DEdge) (hnd : ∀ e ∈ es, e.1.Nodup) (n : Nat) :
    outDeg es n = List.count n (srcStubs es) := by
  induction es with
  | nil => simp [outDeg, srcStubs]
  | cons e t ih =>
    have ih' := ih (fun x hx => hnd x (List.mem_cons_of_mem _ hx))
    have he := hnd e List.mem_cons_self
    simp only [outDeg, srcStubs] at ih' ⊢
    rw [List.countP_cons, List.flatMap_cons, List.count_append, ih', he.count]
    by_cases hm : n ∈ e.1 <;> simp [hm] <;> omega

theorem inDeg_eq_count (es : List DEdge) (hnd : ∀ e ∈ es, e.2.Nodup) (n : Nat) :
    inDeg es n = List.count n (tgtStubs es) := by
  induction es with
  | nil => simp [inDeg, tgtStubs]
  | cons e t ih =>
    have ih' := ih (fun x hx => hnd x (List.mem_cons_of_mem _ hx))
    have he := hnd e List.mem_cons_self
    simp only [inDeg, tgtStubs] at ih' ⊢
    rw [List.countP_cons, List.flatMap_cons, List.count_append, ih', he.count]
    by_cases hm : n ∈ e.2 <;> simp [hm] <;> omega

theorem outDeg_map_sort (es : List DEdge) (n : Nat) : outDeg (es.map sortSides) n = outDeg es n := by
  simp only [outDeg, List.countP_map]
  congr 1
  funext e
  simp only [Function.comp_def, sortSides, sortNodes_contains]

theorem inDeg_map_sort (es : List DEdge) (n : Nat) : inDeg (es.map sortSides) n = inDeg es n := by
  simp only [inDeg, List.countP_map]
  congr 1
  funext e
  simp only [Function.comp_def, sortSides, sortNodes_contains]

theorem shapes_map_sort (es : List DEdge) : shapes (es.map sortSides) = shapes es := by
  simp [shapes, List.map_map, Function.comp_def, sortSides, sortNodes_length]

/-- everything the property claims about the directed model -/
structure DPreserved (es out : List DEdge) : Prop where
  distinct : out.Nodup
  sidesNodup : ∀ e ∈ out, e.1.Nodup ∧ e.2.Nodup
  sorted : ∀ e ∈ out, e.1.Pairwise (· < ·) ∧ e.2.Pairwise (· < ·)
  len_le : out.length ≤ es.length
  out_le : ∀ n, outDeg out n ≤ outDeg es n
  in_le : ∀ n, inDeg out n ≤ inDeg es n
  out_eq : out.length = es.length → ∀ n, outDeg out n = outDeg es n
  in_eq : out.length = es.length → ∀ n, inDeg out n = inDeg es n
  shapes_eq : out.length = es.length → (shapes out).Perm (shapes es)

theorem directedCM_preserved (es : List DEdge) (ds : List Nat) (out : List DEdge)
    (h : directedCM es ds = .ok out) (hnd : ∀ e ∈ es, e.1.Nodup ∧ e.2.Nodup) : DPreserved es out := by
  unfold directedCM at h
  split at h
  · simp at h
  · rename_i es1 ds1 h1
    split at h
    · simp at h
    · rename_i es2 ds2 h2
      simp only [Except.ok.injEq] at h
      subst h
      have i1 := swapLoop_inv _ _ _ _ _ _ h1 hnd
      have I := i1.trans (swapLoop_inv _ _ _ _ _ _ h2 i1.nd)
      have hlen : (es2.map sortSides).length = es.length := by
        have := congrArg List.length I.shp
        simpa [shapes] using this
      have hout : ∀ x, outDeg (es2.map sortSides) x = outDeg es x := by
        intro x
        rw [outDeg_map_sort, outDeg_eq_count es2 (fun e he => (I.nd e he).1),
          outDeg_eq_count es (fun e he => (hnd e he).1)]
        exact I.src.count_eq x
      have hin : ∀ x, inDeg (es2.map sortSides) x = inDeg es x := by
        intro x
        rw [inDeg_map_sort, inDeg_eq_count es2 (fun e he => (I.nd e he).2),
          inDeg_eq_count es (fun e he => (hnd e he).2)]
        exact I.tgt.count_eq x
      have hsub := dedup_sublist (es2.map sortSides)
      refine ⟨dedup_nodup _, ?_, ?_, ?_, ?_, ?_, ?_, ?_, ?_⟩
      · intro e he
        obtain ⟨e0, h0, rfl⟩ := List.mem_map.mp ((mem_dedup _ e).mp he)
        exact ⟨sortNodes_nodup (I.nd e0 h0).1, sortNodes_nodup (I.nd e0 h0).2⟩
      · intro e he
        obtain ⟨e0, h0, rfl⟩ := List.mem_map.mp ((mem_dedup _ e).mp he)
        exact ⟨sortNodes_strict (I.nd e0 h0).1, sortNodes_strict (I.nd e0 h0).2⟩
      · rw [← hlen]; exact hsub.length_le
      · intro x; rw [← hout x]; exact hsub.countP_le
      · intro x; rw [← hin x]; exact hsub.countP_le
      · intro hl x; rw [dedup_eq_of_length _ (hl.trans hlen.symm)]; exact hout x
      · intro hl x; rw [dedup_eq_of_length _ (hl.trans hlen.symm)]; exact hin x
      · intro hl; rw [dedup_eq_of_length _ (hl.trans hlen.symm), shapes_map_sort, I.shp]

/-! ## every input has returning runs (the `.ok` hypotheses are satisfiable for every input) -/

theorem strip_self (t : List Nat) (h : t.Nodup) : strip (t ++ t) t = [] := by
  induction t with
  | nil => simp [strip]
  | cons v t ih =>
    have hv : v ∉ t := (List.nodup_cons.mp h).1
    have e1 : ((v :: t) ++ (v :: t)).erase v = t ++ v :: t := by simp
    have e2 : (t ++ v :: t).erase v = t ++ t := by
      rw [List.erase_append_right _ hv]; simp
    simp only [strip, e1, e2]
    exact ih (List.nodup_cons.mp h).2

theorem inter_self (f : Edge) : inter f f = f :=
  List.filter_eq_self.mpr (fun a ha => by simpa using ha)

theorem reshuffle_self (f : Edge) (ds : List Draw) (h : f.Nodup) :
    reshuffle f f ds = .ok (sortNodes f, sortNodes f, ds) := by
  simp [reshuffle, inter_self, strip_self f h, deal]

/-- drawing the same index twice is always accepted and consumes no coin -/
theorem mhStep_diag (detailed : Bool) (es : List Edge) (i : Nat) (f : Edge) (ds : List Draw)
    (hi : es[i]? = some f) (h : f.Nodup) :
    mhStep detailed es (.idx i i :: ds)
      = .ok ((es.set i (sortNodes (sortNodes f))).set i (sortNodes (sortNodes f)), ds) := by
  have hne : es.isEmpty = false := by
    cases es with
    | nil => simp at hi
    | cons _ _ => rfl
  simp [mhStep, proposal, hne, pick, hi, admissible, reshuffle_self f ds h]

theorem chain_returns (detailed : Bool) (n : Nat) (es : List Edge) (ds : List Draw)
    (hne : es ≠ []) (hnd : ∀ e ∈ es, e.Nodup) :
    ∃ es', chain detailed n es (List.replicate n (.idx 0 0) ++ ds) = .ok (es', ds) := by
  induction n generalizing es with
  | zero => exact ⟨es, rfl⟩
  | succ n ih =>
    cases es with
    | nil => exact absurd rfl hne
    | cons f t =>
      have hs := mhStep_diag detailed (f :: t) 0 f (List.replicate n (.idx 0 0) ++ ds) rfl
        (hnd f List.mem_cons_self)
      have hnd1 := (mhStep_inv _ _ _ _ _ hs hnd).1
      obtain ⟨es', h'⟩ := ih _ (by simp) hnd1
      refine ⟨es', ?_⟩
      simp only [List.replicate_succ, List.cons_append, chain, hs]
      exact h'

theorem swapLoop_returns (tgt : Bool) (n : Nat) (es : List DEdge) (ds : List Nat) (hne : es ≠ []) :
    swapLoop tgt n es (List.replicate (2 * n) 0 ++ ds) = .ok (es, ds) := by
  induction n with
  | zero => rfl
  | succ n ih =>
    cases es with
    | nil => exact absurd rfl hne
    | cons e t =>
      have : 2 * (n + 1) = (2 * n + 1) + 1 := by omega
      rw [this, List.replicate_succ, List.replicate_succ]
      simp only [List.cons_append, swapLoop, swapStep, List.getElem?_cons_zero, if_true]
      exact ih

end C13
