import Hgxv.Proofs.C06Link
import Hgxv.Proofs.C01Ops
import Hgxv.Proofs.C01Query
/-! # C06 ↔ C01 (`Hypergraph`): the content-level `add_node` / `add_edge` of `Model/C06.lean` are the operations of
`C01.Spec`, and every reachable state of the full model is a well-formed C06 content.  Core Lean only. -/
namespace C06

theorem HKey_inj : ∀ a b : List Nat, HKey.mk a = HKey.mk b → a = b := fun _ _ h => by cases h; rfl

/-- the abstract state of the full `Hypergraph` model as a C06 content -/
def ofSpec01 (a : C01.Spec) : Content HKey := ofTables HKey.mk a.weighted a.hmeta a.nodes a.edges

theorem insertSorted01 (a : Nat) (l : List Nat) : C01.insertSorted a l = Wire.insertSorted a l := by
  induction l with
  | nil => rfl
  | cons b bs ih => simp [C01.insertSorted, Wire.insertSorted, ih]

theorem canon01 (l : List Nat) : C01.canon l = sort l := by
  unfold C01.canon sort Wire.sortNats
  induction l with
  | nil => rfl
  | cons a t ih => simp only [List.foldr_cons, ih, insertSorted01]

/-! ## the spec operations as table updates -/

theorem spec01_touchNode (a : C01.Spec) (n : Nat) :
    C01.Spec.touchNode a n = { a with nodes := tAddNode a.nodes n [] } := by
  unfold C01.Spec.touchNode tAddNode
  cases h : AL.get? a.nodes n with
  | none => simp
  | some old =>
    cases old with
    | nil => simp [AL_set_same a.nodes n [] h]
    | cons x xs => simp

theorem spec01_touchAll (e : List Nat) (a : C01.Spec) :
    e.foldl C01.Spec.touchNode a = { a with nodes := tTouchAll a.nodes e } := by
  unfold tTouchAll
  induction e generalizing a with
  | nil => rfl
  | cons n e ih => rw [List.foldl_cons, spec01_touchNode, ih]; rfl

theorem spec01_addNode (a : C01.Spec) (n : Nat) (md : Option C01.Meta) :
    C01.Spec.addNode a n md = { a with nodes := tAddNode a.nodes n (md.getD []) } := by
  unfold C01.Spec.addNode
  simp only [spec01_touchNode]
  unfold tAddNode
  cases h : AL.get? a.nodes n with
  | none => simp [AL_set_set]
  | some old =>
    cases old with
    | nil => simp [AL_set_same a.nodes n [] h, h]
    | cons x xs => simp [h]

theorem rejects01 (wtd : Bool) (w : Option Int) :
    (!wtd && w.isSome && w != some C01.one) = rejectsWeight wtd w := by
  cases w with
  | none => simp [rejectsWeight]
  | some q =>
    have : C01.one = unit := rfl
    cases wtd <;> simp [rejectsWeight, this, bne]

theorem spec01_addEdge (a : C01.Spec) (raw : List Nat) (w : Option Int) (md : Option C01.Meta) :
    C01.Spec.addEdge a raw w md =
      if rejectsWeight a.weighted w then (a, .rej)
      else ({ a with
                edges := AL.set a.edges (C01.canon raw)
                  (tEntry a.weighted (AL.get? a.edges (C01.canon raw)) (weightOrUnit w) (md.getD []))
                nodes := if (AL.get? a.edges (C01.canon raw)).isNone then tTouchAll a.nodes (C01.canon raw)
                         else a.nodes }, .ok) := by
  unfold C01.Spec.addEdge
  rw [rejects01]
  by_cases hr : rejectsWeight a.weighted w = true
  · simp [hr]
  · simp only [hr, Bool.false_eq_true, if_false]
    have hone : C01.one = unit := rfl
    have hw : w.getD C01.one = weightOrUnit w := by cases w <;> rfl
    have hw' : w.getD unit = weightOrUnit w := by cases w <;> rfl
    cases hg : AL.get? a.edges (C01.canon raw) with
    | none =>
      simp only [spec01_touchAll, tEntry, Option.isNone_none, if_true, hone, hw']
    | some old =>
      obtain ⟨w0, m0⟩ := old
      simp only [tEntry, Option.isNone_some, Bool.false_eq_true, if_false, hw]

/-! ## the link -/

/-- `add_node` of the spec is C06's `addNode` on the content -/
theorem link_addNode01 (a : C01.Spec) (n : Nat) (md : Option C01.Meta) :
    ofSpec01 (C01.Spec.addNode a n md) = addNode (ofSpec01 a) n (md.map decMeta) := by
  rw [spec01_addNode]; unfold ofSpec01; rw [addNode_ofTables]

/-- `add_edge` of the spec is C06's `addEdge` on the content, accepted and rejected alike -/
theorem link_addEdge01 (a : C01.Spec) (raw : List Nat) (w : Option Int) (md : Option C01.Meta) :
    addEdge (ofSpec01 a) ⟨raw⟩ w (md.map decMeta) =
      match C01.Spec.addEdge a raw w md with
      | (a', .ok) => some (ofSpec01 a')
      | (_, .rej) => none := by
  rw [spec01_addEdge]
  unfold ofSpec01
  rw [addEdge_ofTables HKey.mk HKey_inj a.weighted a.hmeta a.nodes a.edges ⟨raw⟩ (C01.canon raw)
    (by show (⟨sort raw⟩ : HKey) = ⟨C01.canon raw⟩; rw [canon01])]
  by_cases hr : rejectsWeight a.weighted w = true
  · simp [hr]
  · simp only [hr, Bool.false_eq_true, if_false]
    have : Kind.touchAlways HKey = false := rfl
    simp only [this, Bool.false_or]
    rfl

theorem link_new01 (w : Bool) (hm : C01.Meta) :
    ofSpec01 (C01.Spec.new w hm) = setHMeta (construct HKey w) (decMeta (C01.initHMeta w hm)) := rfl

theorem link_setHMeta01 (a : C01.Spec) (hm : C01.Meta) :
    ofSpec01 (C01.Spec.apply a (.setHMeta hm)).1 = setHMeta (ofSpec01 a) (decMeta hm) := rfl

/-- every content of a `Hypergraph` is the reading of a spec state -/
theorem ofSpec01_onto (c : Content HKey) : ∃ a : C01.Spec, ofSpec01 a = c :=
  ⟨{ weighted := c.weighted, hmeta := encMeta c.hmeta, nodes := mapKV id encMeta c.nodes,
     edges := mapKV HKey.nodes (fun v => (v.1, encMeta v.2)) c.edges },
   ofTables_enc HKey.mk HKey.nodes (fun _ => rfl) c⟩

/-! ## `load_hypergraph` replays the records on `C01.Spec` -/

/-- the spec's own entry points, as `load_hypergraph` uses them: `Hypergraph(weighted=w)` then
`set_hypergraph_metadata`, `add_node(n, md)`, `add_edge(nodes, weight, md)` -/
def specH : SpecOps HKey C01.Spec where
  of := ofSpec01
  new w hm := (C01.Spec.apply (C01.Spec.new w []) (.setHMeta hm)).1
  addNode a n md := (C01.Spec.apply a (.addNode n (some md))).1
  addEdge a k w md :=
    match C01.Spec.apply a (.addEdge k.nodes w (some md)) with
    | (a', .ok) => some a'
    | (_, .rej) => none
  okKey _ := True
  of_new w hm := rfl
  of_addNode a n md := link_addNode01 a n (some md)
  of_addEdge a k w md _ := by
    have h := link_addEdge01 a k.nodes w (some md)
    simp only [Option.map_some] at h
    rw [h]
    simp only [C01.Spec.apply]
    cases C01.Spec.addEdge a k.nodes w (some md) with
    | mk a' o => cases o <;> rfl

/-! ## reachable states of the full model are well-formed contents -/

theorem WF_ofSpec01_abs (s : C01.Store) (h : C01.Inv s) : WF (ofSpec01 (C01.abs s)) := by
  unfold ofSpec01
  apply WF_ofTables HKey.mk HKey_inj
  · rw [C01.nodes_keys h]; exact h.adj_nodup
  · rw [C01.abs_keys]; exact h.el_nodup
  · intro k hk
    rw [C01.abs_keys] at hk
    obtain ⟨id, hid⟩ := AL_get?_isSome_of_mem _ _ hk
    show (⟨sort k⟩ : HKey) = ⟨k⟩
    rw [← canon01, (h.key_canon k id hid).2]
  · intro k hk n hn
    rw [C01.abs_keys] at hk
    obtain ⟨id, hid⟩ := AL_get?_isSome_of_mem _ _ hk
    rw [C01.nodes_keys h]
    have := h.nodes_in id k (h.rev_of_edge _ _ hid) n hn
    apply Decidable.byContradiction
    intro hc
    rw [AL_get?_none_of_not_mem _ _ hc] at this
    cases this
  · intro hw e he
    simp only [C01.abs, List.mem_map] at he
    obtain ⟨p, hp, rfl⟩ := he
    have hid : AL.get? s.edgeList p.1 = some p.2 := AL_get?_of_mem_nodup _ _ _ h.el_nodup hp
    have hsome : (AL.get? s.weights p.2).isSome = true := by
      rw [h.w_dom, h.rev_of_edge _ _ hid]; rfl
    obtain ⟨w0, hw0⟩ := Option.isSome_iff_exists.mp hsome
    show (AL.get? s.weights p.2).getD 0 = unit
    rw [hw0]
    exact h.unw_one hw p.2 w0 hw0

/-- every slot after every history of well-formed public calls -/
theorem WF_ofSpec01_run (k : Nat) (cs : List C01.Cmd) (hwf : ∀ c ∈ cs, c.WF) (s : C01.Store)
    (hs : s ∈ C01.run (C01.init k) cs) : WF (ofSpec01 (C01.abs s)) :=
  WF_ofSpec01_abs s (C01.run_inv cs (C01.init k) hwf (C01.init_inv k) s hs)

/-! ## one step on the concrete store (`C01.sim_apply`) -/

/-- on a store satisfying the invariant, `add_node` of the id-indexed model shows as C06's `addNode` -/
theorem link_store_addNode01 (s : C01.Store) (h : C01.Inv s) (n : Nat) (md : Option C01.Meta) :
    ofSpec01 (C01.abs (C01.apply s (.addNode n md)).1) = addNode (ofSpec01 (C01.abs s)) n (md.map decMeta) := by
  have hs := (C01.sim_apply s (.addNode n md) trivial h).1
  rw [hs]
  exact link_addNode01 (C01.abs s) n md

/-- on a store satisfying the invariant, `add_edge` of the id-indexed model (a duplicate-free node tuple, the property's
"node set") shows as C06's `addEdge`, accepted and rejected alike -/
theorem link_store_addEdge01 (s : C01.Store) (h : C01.Inv s) (raw : List Nat) (hraw : raw.Nodup) (w : Option Int)
    (md : Option C01.Meta) :
    addEdge (ofSpec01 (C01.abs s)) ⟨raw⟩ w (md.map decMeta) =
      match C01.apply s (.addEdge raw w md) with
      | (s', .ok) => some (ofSpec01 (C01.abs s'))
      | (_, .rej) => none := by
  obtain ⟨h1, h2, _⟩ := C01.sim_apply s (.addEdge raw w md) hraw h
  rw [link_addEdge01]
  simp only [C01.Spec.apply] at h1 h2
  revert h1 h2
  generalize C01.apply s (.addEdge raw w md) = r
  generalize C01.Spec.addEdge (C01.abs s) raw w md = q
  obtain ⟨s', o⟩ := r
  obtain ⟨a', o'⟩ := q
  intro h1 h2
  simp only at h1 h2
  subst h1 h2
  cases o <;> rfl

/-! ## `load_hypergraph` builds an object of the id-indexed model -/

theorem match_outH {β : Type} (r : C01.Store × C01.Out) (g : C01.Store → β) :
    (match r with
      | (s', .ok) => some (g s')
      | (_, .rej) => none) = if r.2 = .ok then some (g r.1) else none := by
  obtain ⟨s', o⟩ := r
  cases o <;> simp

/-- objects of the full model: the tables together with their representation invariant -/
abbrev StoreH := { s : C01.Store // C01.Inv s }

/-- the id-indexed model's own constructor / `set_hypergraph_metadata` / `add_node` / `add_edge`; the link covers
hyperedges that are node sets (`C01.Op.WF`) -/
def storeH : SpecOps HKey StoreH where
  of s := ofSpec01 (C01.abs s.1)
  new w hm := ⟨(C01.apply (C01.Store.new w []) (.setHMeta hm)).1, C01.apply_inv _ (.setHMeta hm) trivial (C01.inv_new w [])⟩
  addNode s n md := ⟨(C01.apply s.1 (.addNode n (some md))).1, C01.apply_inv _ (.addNode n (some md)) trivial s.2⟩
  addEdge s k w md :=
    if hk : k.nodes.Nodup then
      if (C01.apply s.1 (.addEdge k.nodes w (some md))).2 = .ok then
        some ⟨(C01.apply s.1 (.addEdge k.nodes w (some md))).1, C01.apply_inv _ (.addEdge k.nodes w (some md)) hk s.2⟩
      else none
    else none
  okKey k := k.nodes.Nodup
  of_new w hm := rfl
  of_addNode s n md := link_store_addNode01 s.1 s.2 n (some md)
  of_addEdge s k w md hk := by
    have h := link_store_addEdge01 s.1 s.2 k.nodes hk w (some md)
    simp only [Option.map_some] at h
    rw [h]
    rw [match_outH]
    simp only [dif_pos hk]
    split <;> rfl

/-- the keys of a reachable object are node sets -/
theorem okKeys01 (s : C01.Store) (h : C01.Inv s) : ∀ e ∈ (ofSpec01 (C01.abs s)).edges, storeH.okKey e.1 := by
  intro e he
  obtain ⟨p, hp, rfl⟩ := (mem_mapKV HKey.mk decVal2 _ e).mp he
  have hk : p.1 ∈ AL.keys (C01.abs s).edges := List.mem_map.mpr ⟨p, hp, rfl⟩
  rw [C01.abs_keys] at hk
  obtain ⟨id, hid⟩ := AL_get?_isSome_of_mem _ _ hk
  exact (h.key_canon p.1 id hid).1

end C06
