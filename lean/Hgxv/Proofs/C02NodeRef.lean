import Hgxv.Proofs.C02Ord
/-! C02 helper lemmas, part 11: `remove_node` commutes with the abstraction; `Ord` for every operation; the final
simulation theorems `abs_applyOp`, `abs_run`. -/
namespace C02
open AL

/-- the id of a stored key -/
def idOf (s : Store) (k : Key) : Nat := (get? s.edgeList k).getD 0

theorem keys_sorted_by_id (s : Store) (h : Inv s) (o : Ord s) :
    (keys s.edgeList).Pairwise (fun a b => idOf s a < idOf s b) := by
  have h1 : s.edgeList.Pairwise (fun p q => p.2 < q.2) := List.pairwise_map.mp o.edge_sorted
  have h2 : s.edgeList.Pairwise (fun p q => idOf s p.1 < idOf s q.1) := by
    refine List.Pairwise.imp_of_mem ?_ h1
    intro p q hp hq hpq
    simp only [idOf, get?_of_mem _ _ _ h.nd_edge hp, get?_of_mem _ _ _ h.nd_edge hq, Option.getD_some]
    exact hpq
  exact List.pairwise_map.mpr h2

theorem listing_sorted_by_id (s : Store) (h : Inv s) (ids : List Nat) (hs : ids.Pairwise (· < ·)) :
    (ids.filterMap (get? s.rev)).Pairwise (fun a b => idOf s a < idOf s b) := by
  refine List.Pairwise.filterMap _ ?_ hs
  intro a a' haa' b hb b' hb'
  simp only [idOf, h.edge_of_rev _ _ hb, h.edge_of_rev _ _ hb', Option.getD_some]
  exact haa'

/-- with sorted id lists the source-role listing IS the filter of the key list -/
theorem Inv.sourceEdges_all {s : Store} (h : Inv s) (o : Ord s) (n : Node) (ids : List Nat)
    (hn : get? s.adjS n = some ids) :
    sourceEdges s n .all = some ((keys s.edgeList).filter (fun k => k.1.contains n)) := by
  rw [h.sourceEdges_eq n ids hn .all none rfl]
  congr 1
  have hp := h.sourceEdges_perm n ids hn none
  have e1 : ((keys s.edgeList).filter (fun k => k.1.contains n && passes none false k)) =
      (keys s.edgeList).filter (fun k => k.1.contains n) := by
    congr 1; funext k; simp [passes_none]
  rw [e1] at hp
  refine List.Perm.eq_of_pairwise (le := fun a b => idOf s a < idOf s b)
    (fun a b _ _ h1 h2 => absurd h1 (Nat.lt_asymm h2)) ?_ ?_ hp
  · exact (listing_sorted_by_id s h ids (o.adjS_sorted n ids hn)).filter _
  · exact (keys_sorted_by_id s h o).filter _

theorem Inv.targetEdges_all {s : Store} (h : Inv s) (o : Ord s) (n : Node) (ids : List Nat)
    (hn : get? s.adjT n = some ids) :
    targetEdges s n .all = some ((keys s.edgeList).filter (fun k => k.2.contains n)) := by
  rw [h.targetEdges_eq n ids hn .all none rfl]
  congr 1
  have hp := h.targetEdges_perm n ids hn none
  have e1 : ((keys s.edgeList).filter (fun k => k.2.contains n && passes none false k)) =
      (keys s.edgeList).filter (fun k => k.2.contains n) := by
    congr 1; funext k; simp [passes_none]
  rw [e1] at hp
  refine List.Perm.eq_of_pairwise (le := fun a b => idOf s a < idOf s b)
    (fun a b _ _ h1 h2 => absurd h1 (Nat.lt_asymm h2)) ?_ ?_ hp
  · exact (listing_sorted_by_id s h ids (o.adjT_sorted n ids hn)).filter _
  · exact (keys_sorted_by_id s h o).filter _

/-- the hyperedges `remove_node` works on -/
def incKeys (s : Store) (n : Node) : List Key :=
  (keys s.edgeList).filter (fun k => k.1.contains n) ++ (keys s.edgeList).filter (fun k => k.2.contains n)

theorem incKeys_wf (s : Store) (h : Inv s) (n : Node) : ∀ k ∈ incKeys s n, KeyWF k := by
  intro k hk
  have : k ∈ keys s.edgeList := by
    rcases List.mem_append.mp hk with h1 | h1 <;> exact (List.mem_filter.mp h1).1
  obtain ⟨id, hid⟩ := (h.mem_keys_iff k).mp this
  exact h.key_wf id k hid

/-- `remove_node` in closed form (present node, invariants) -/
theorem removeNode_eq (s : Store) (n : Node) (keep : Bool) (h : Inv s) (o : Ord s) (hn : has s.adjS n = true) :
    removeNode s n keep =
      (let r1 := if keep then reinsertAll s n (incKeys s n) else (s, .ok)
       match r1.2 with
       | .rej => r1
       | .ok =>
         let r2 := removeKeys r1.1 (incKeys s n)
         match r2.2 with
         | .rej => r2
         | .ok => (dropNode r2.1 n, .ok)) := by
  have hS : (get? s.adjS n).isSome := hn
  have hT : (get? s.adjT n).isSome := by rw [h.adj_same]; exact hS
  obtain ⟨idsS, hS'⟩ := Option.isSome_iff_exists.mp hS
  obtain ⟨idsT, hT'⟩ := Option.isSome_iff_exists.mp hT
  unfold removeNode
  have hT2 : has s.adjT n = true := hT
  simp only [hn, hT2, Bool.not_true, Bool.or_self, Bool.false_eq_true, if_false]
  rw [h.sourceEdges_all o n idsS hS', h.targetEdges_all o n idsT hT']
  rfl

theorem removeNode_ord (s : Store) (n : Node) (keep : Bool) (h : Inv s) (o : Ord s) : Ord (removeNode s n keep).1 := by
  by_cases hn : has s.adjS n = true
  · rw [removeNode_eq s n keep h o hn]
    simp only []
    have wf := incKeys_wf s h n
    have hr1 : Inv (if keep = true then reinsertAll s n (incKeys s n) else (s, Out.ok)).1 := by
      split
      · exact reinsertAll_inv s n _ wf h
      · exact h
    have or1 : Ord (if keep = true then reinsertAll s n (incKeys s n) else (s, Out.ok)).1 := by
      split
      · exact reinsertAll_ord s n _ wf h o
      · exact o
    generalize (if keep = true then reinsertAll s n (incKeys s n) else (s, Out.ok)) = r1 at hr1 or1
    split
    · exact or1
    · have hr2 := removeKeys_inv r1.1 (incKeys s n) hr1
      have or2 := removeKeys_ord r1.1 (incKeys s n) hr1 or1
      split
      · exact or2
      · exact dropNode_ord _ n hr2 or2
  · unfold removeNode
    have : has s.adjS n = false := by cases hq : has s.adjS n <;> simp_all
    simp only [this, Bool.not_false, Bool.true_or, if_true]
    exact o

theorem removeNodes_ord (s : Store) (keep : Bool) (ns : List Node) (h : Inv s) (o : Ord s) :
    Ord (removeNodes s keep ns).1 := by
  induction ns generalizing s with
  | nil => exact o
  | cons n ns ih =>
    simp only [removeNodes]
    split
    · exact removeNode_ord s n keep h o
    · exact ih _ (removeNode_inv s n keep h) (removeNode_ord s n keep h o)

theorem setters_frame (s : Store) :
    (∀ e w, (setWeight s e w).1.edgeList = s.edgeList ∧ (setWeight s e w).1.adjS = s.adjS ∧ (setWeight s e w).1.adjT = s.adjT) ∧
    (∀ n md, (setNodeMeta s n md).1.edgeList = s.edgeList ∧ (setNodeMeta s n md).1.adjS = s.adjS ∧ (setNodeMeta s n md).1.adjT = s.adjT) ∧
    (∀ e md, (setEdgeMeta s e md).1.edgeList = s.edgeList ∧ (setEdgeMeta s e md).1.adjS = s.adjS ∧ (setEdgeMeta s e md).1.adjT = s.adjT) ∧
    (∀ n a v, (setAttrNode s n a v).1.edgeList = s.edgeList ∧ (setAttrNode s n a v).1.adjS = s.adjS ∧ (setAttrNode s n a v).1.adjT = s.adjT) ∧
    (∀ e a v, (setAttrEdge s e a v).1.edgeList = s.edgeList ∧ (setAttrEdge s e a v).1.adjS = s.adjS ∧ (setAttrEdge s e a v).1.adjT = s.adjT) ∧
    (∀ n a, (delAttrNode s n a).1.edgeList = s.edgeList ∧ (delAttrNode s n a).1.adjS = s.adjS ∧ (delAttrNode s n a).1.adjT = s.adjT) ∧
    (∀ e a, (delAttrEdge s e a).1.edgeList = s.edgeList ∧ (delAttrEdge s e a).1.adjS = s.adjS ∧ (delAttrEdge s e a).1.adjT = s.adjT) := by
  refine ⟨?_, ?_, ?_, ?_, ?_, ?_, ?_⟩
  · intro e w; unfold setWeight; repeat' (first | exact ⟨rfl, rfl, rfl⟩ | split)
  · intro n md; unfold setNodeMeta; repeat' (first | exact ⟨rfl, rfl, rfl⟩ | split)
  · intro e md; unfold setEdgeMeta; repeat' (first | exact ⟨rfl, rfl, rfl⟩ | split)
  · intro n a v; unfold setAttrNode; repeat' (first | exact ⟨rfl, rfl, rfl⟩ | split)
  · intro e a v; unfold setAttrEdge; repeat' (first | exact ⟨rfl, rfl, rfl⟩ | split)
  · intro n a; unfold delAttrNode; repeat' (first | exact ⟨rfl, rfl, rfl⟩ | split)
  · intro e a; unfold delAttrEdge; repeat' (first | exact ⟨rfl, rfl, rfl⟩ | split)

theorem applyOp_ord (s : Store) (op : Op) (ho : op.WF) (h : Inv s) (o : Ord s) : Ord (applyOp s op).1 := by
  obtain ⟨f1, f2, f3, f4, f5, f6, f7⟩ := setters_frame s
  cases op with
  | addNode n md => exact addNode_ord s n md o
  | addNodes ns => exact addNodes_ord s ns o
  | addEdge e w md => exact addEdge_ord s e w md ho h o
  | addEdges es ws mds => exact addEdges_ord s es ws mds ho h o
  | removeEdge e => exact removeEdge_ord s e h o
  | removeEdges es => exact removeEdges_ord s es h o
  | removeNode n keep => exact removeNode_ord s n keep h o
  | removeNodes ns keep => exact removeNodes_ord s keep ns h o
  | setWeight e w => exact o.of_eq (f1 e w).1 (f1 e w).2.1 (f1 e w).2.2
  | setNodeMeta n md => exact o.of_eq (f2 n md).1 (f2 n md).2.1 (f2 n md).2.2
  | setEdgeMeta e md => exact o.of_eq (f3 e md).1 (f3 e md).2.1 (f3 e md).2.2
  | setHMeta md => exact o.of_eq rfl rfl rfl
  | setAttrH a v =>
    show Ord (setAttrHOp s a v).1
    unfold setAttrHOp
    split
    · exact o
    · exact o.of_eq rfl rfl rfl
  | setAttrNode n a v => exact o.of_eq (f4 n a v).1 (f4 n a v).2.1 (f4 n a v).2.2
  | setAttrEdge e a v => exact o.of_eq (f5 e a v).1 (f5 e a v).2.1 (f5 e a v).2.2
  | delAttrNode n a => exact o.of_eq (f6 n a).1 (f6 n a).2.1 (f6 n a).2.2
  | delAttrEdge e a => exact o.of_eq (f7 e a).1 (f7 e a).2.1 (f7 e a).2.2
  | clear => exact clear_ord s

/-! ### remove_node on the abstract object -/

theorem abs_reinsert (s : Store) (n : Node) (k : Key) (h : Inv s) :
    abs (reinsert s n k).1 = (Spec.reinsert (abs s) n k).1 ∧ (reinsert s n k).2 = (Spec.reinsert (abs s) n k).2 := by
  unfold reinsert Spec.reinsert
  simp only []
  split
  · exact ⟨rfl, rfl⟩
  · rw [abs_get_edge]
    cases hk : get? s.edgeList k with
    | none => simp [weightOfKey, metaOfKey, hk]
    | some id =>
      obtain ⟨w, hw⟩ := Option.isSome_iff_exists.mp (h.weights_of_edge k id hk)
      obtain ⟨m, hm⟩ := Option.isSome_iff_exists.mp (h.emeta_of_edge k id hk)
      simp only [weightOfKey, metaOfKey, hk, hw, hm, Option.map_some, Option.getD_some]
      exact abs_addEdge s _ _ _ h

theorem abs_reinsertAll (s : Store) (n : Node) (L : List Key) (hL : ∀ k ∈ L, KeyWF k) (h : Inv s) :
    abs (reinsertAll s n L).1 = (Spec.reinsertAll (abs s) n L).1 ∧
    (reinsertAll s n L).2 = (Spec.reinsertAll (abs s) n L).2 := by
  induction L generalizing s with
  | nil => exact ⟨rfl, rfl⟩
  | cons k ks ih =>
    simp only [reinsertAll, Spec.reinsertAll]
    obtain ⟨h1, h2⟩ := abs_reinsert s n k h
    cases ho : (reinsert s n k).2 with
    | rej =>
      have ho' := h2 ▸ ho
      simp only [ho']; exact ⟨h1, ho⟩
    | ok =>
      have ho' := h2 ▸ ho
      simp only [ho']; rw [← h1]
      exact ih _ (fun k' hk' => hL k' (List.mem_cons_of_mem _ hk')) (reinsert_inv s n k (hL k List.mem_cons_self) h)

theorem abs_removeKeys (s : Store) (L : List Key) (h : Inv s) :
    abs (removeKeys s L).1 = (Spec.removeKeys (abs s) L).1 ∧ (removeKeys s L).2 = (Spec.removeKeys (abs s) L).2 := by
  induction L generalizing s with
  | nil => exact ⟨rfl, rfl⟩
  | cons k ks ih =>
    simp only [removeKeys, Spec.removeKeys]
    obtain ⟨h1, h2⟩ := abs_removeEdge s (RawEdge.ofKey k) h
    cases ho : (removeEdge s (RawEdge.ofKey k)).2 with
    | rej =>
      have ho' := h2 ▸ ho
      simp only [ho']; exact ⟨h1, ho⟩
    | ok =>
      have ho' := h2 ▸ ho
      simp only [ho']; rw [← h1]
      exact ih _ (removeEdge_inv s _ h)

theorem abs_dropNode (s : Store) (n : Node) (h : Inv s) :
    abs (dropNode s n) = { abs s with nodes := AL.erase (abs s).nodes n } := by
  apply Spec.ext'
  · rfl
  · show absNodes (AL.erase s.adjS n) (AL.erase s.nmeta n) = AL.erase (absNodes s.adjS s.nmeta) n
    unfold absNodes
    rw [erase_keymap, keys_erase_perm]
    apply List.map_congr_left
    intro m hm
    have : m ≠ n := ((List.Nodup.mem_erase_iff h.nd_adjS).mp hm).1
    simp [get?_erase_ne _ _ _ (Ne.symm this)]
  · rfl
  · rfl

theorem abs_removeNode (s : Store) (n : Node) (keep : Bool) (h : Inv s) (o : Ord s) :
    abs (removeNode s n keep).1 = (Spec.removeNode (abs s) n keep).1 ∧
    (removeNode s n keep).2 = (Spec.removeNode (abs s) n keep).2 := by
  by_cases hn : has s.adjS n = true
  · rw [removeNode_eq s n keep h o hn]
    unfold Spec.removeNode
    rw [abs_has_node, hn]
    simp only [Bool.not_true, Bool.false_eq_true, if_false]
    have eL : Spec.incidentKeys (abs s) n = incKeys s n := by
      simp [Spec.incidentKeys, incKeys, abs_edges_keys]
    rw [eL]
    have wf := incKeys_wf s h n
    have a1 : abs (if keep = true then reinsertAll s n (incKeys s n) else (s, Out.ok)).1 =
        (if keep = true then Spec.reinsertAll (abs s) n (incKeys s n) else (abs s, Out.ok)).1 ∧
        (if keep = true then reinsertAll s n (incKeys s n) else (s, Out.ok)).2 =
        (if keep = true then Spec.reinsertAll (abs s) n (incKeys s n) else (abs s, Out.ok)).2 := by
      split
      · exact abs_reinsertAll s n _ wf h
      · exact ⟨rfl, rfl⟩
    have hr1 : Inv (if keep = true then reinsertAll s n (incKeys s n) else (s, Out.ok)).1 := by
      split
      · exact reinsertAll_inv s n _ wf h
      · exact h
    generalize (if keep = true then reinsertAll s n (incKeys s n) else (s, Out.ok)) = r1 at a1 hr1
    generalize (if keep = true then Spec.reinsertAll (abs s) n (incKeys s n) else (abs s, Out.ok)) = q1 at a1
    obtain ⟨a11, a12⟩ := a1
    cases ho : r1.2 with
    | rej =>
      have ho' : q1.2 = .rej := a12 ▸ ho
      simp only [ho']; exact ⟨a11, ho⟩
    | ok =>
      have ho' : q1.2 = .ok := a12 ▸ ho
      simp only [ho']
      obtain ⟨b1, b2⟩ := abs_removeKeys r1.1 (incKeys s n) hr1
      rw [← a11]
      have hr2 := removeKeys_inv r1.1 (incKeys s n) hr1
      cases ho2 : (removeKeys r1.1 (incKeys s n)).2 with
      | rej =>
        have ho2' := b2 ▸ ho2
        simp only [ho2']; exact ⟨b1, ho2⟩
      | ok =>
        have ho2' := b2 ▸ ho2
        simp only [ho2']
        rw [← b1]
        exact ⟨abs_dropNode _ n hr2, trivial⟩
  · have hn' : has s.adjS n = false := by cases hq : has s.adjS n <;> simp_all
    unfold removeNode Spec.removeNode
    rw [abs_has_node]
    simp only [hn', Bool.not_false, Bool.true_or, if_true]
    exact ⟨trivial, trivial⟩

theorem abs_removeNodes (s : Store) (keep : Bool) (ns : List Node) (h : Inv s) (o : Ord s) :
    abs (removeNodes s keep ns).1 = (Spec.removeNodes (abs s) keep ns).1 ∧
    (removeNodes s keep ns).2 = (Spec.removeNodes (abs s) keep ns).2 := by
  induction ns generalizing s with
  | nil => exact ⟨rfl, rfl⟩
  | cons n ns ih =>
    simp only [removeNodes, Spec.removeNodes]
    obtain ⟨h1, h2⟩ := abs_removeNode s n keep h o
    cases ho : (removeNode s n keep).2 with
    | rej =>
      have ho' := h2 ▸ ho
      simp only [ho']; exact ⟨h1, ho⟩
    | ok =>
      have ho' := h2 ▸ ho
      simp only [ho']; rw [← h1]
      exact ih _ (removeNode_inv s n keep h) (removeNode_ord s n keep h o)

/-! ### the simulation -/

theorem abs_applyOp (s : Store) (op : Op) (ho : op.WF) (h : Inv s) (o : Ord s) :
    abs (applyOp s op).1 = (Spec.applyOp (abs s) op).1 ∧ (applyOp s op).2 = (Spec.applyOp (abs s) op).2 := by
  cases op with
  | addNode n md => exact ⟨abs_addNode s n md h.nodeInv, rfl⟩
  | addNodes ns => exact ⟨abs_addNodes s ns h.nodeInv, rfl⟩
  | addEdge e w md => exact abs_addEdge s e w md h
  | addEdges es ws mds => exact abs_addEdges s es ws mds ho h
  | removeEdge e => exact abs_removeEdge s e h
  | removeEdges es => exact abs_removeEdges s es h
  | removeNode n keep => exact abs_removeNode s n keep h o
  | removeNodes ns keep => exact abs_removeNodes s keep ns h o
  | setWeight e w => exact abs_setWeight s e w h
  | setNodeMeta n md => exact abs_setNodeMeta s n md h
  | setEdgeMeta e md => exact abs_setEdgeMeta s e md h
  | setHMeta md => exact ⟨rfl, rfl⟩
  | setAttrH a v =>
    show abs (setAttrHOp s a v).1 = (Spec.setAttrHOp (abs s) a v).1 ∧ (setAttrHOp s a v).2 = (Spec.setAttrHOp (abs s) a v).2
    unfold setAttrHOp Spec.setAttrHOp
    have hh : (abs s).hmeta = s.hmeta := rfl
    rw [hh]
    split <;> exact ⟨rfl, rfl⟩
  | setAttrNode n a v => exact abs_setAttrNode s n a v h
  | setAttrEdge e a v => exact abs_setAttrEdge s e a v h
  | delAttrNode n a => exact abs_delAttrNode s n a h
  | delAttrEdge e a => exact abs_delAttrEdge s e a h
  | clear => exact ⟨abs_clear s, rfl⟩

/-- outputs of a run -/
def runOuts (s : Store) : List Op → List Out
  | [] => []
  | o :: os => (applyOp s o).2 :: runOuts (applyOp s o).1 os
def Spec.runOuts (s : Spec) : List Op → List Out
  | [] => []
  | o :: os => (Spec.applyOp s o).2 :: Spec.runOuts (Spec.applyOp s o).1 os

theorem abs_run (s : Store) (ops : List Op) (hops : ∀ o ∈ ops, o.WF) (h : Inv s) (o : Ord s) :
    abs (run s ops) = Spec.run (abs s) ops ∧ runOuts s ops = Spec.runOuts (abs s) ops ∧
    Inv (run s ops) ∧ Ord (run s ops) := by
  induction ops generalizing s with
  | nil => exact ⟨rfl, rfl, h, o⟩
  | cons op os ih =>
    have hw := hops op List.mem_cons_self
    obtain ⟨h1, h2⟩ := abs_applyOp s op hw h o
    simp only [run, Spec.run, runOuts, Spec.runOuts]
    rw [← h1, ← h2]
    obtain ⟨i1, i2, i3, i4⟩ := ih _ (fun o' ho' => hops o' (List.mem_cons_of_mem _ ho')) (applyOp_inv s op hw h)
      (applyOp_ord s op hw h o)
    exact ⟨i1, by rw [i2], i3, i4⟩

end C02

namespace C02
open AL

/-! ### several objects -/

theorem abs_addNodesMeta (s : Store) (l : List (Node × Meta)) (h : NodeInv s) :
    abs (addNodesMeta s l) = Spec.addNodesMeta (abs s) l := by
  induction l generalizing s with
  | nil => rfl
  | cons p r ih =>
    obtain ⟨n, md⟩ := p
    simp only [addNodesMeta, Spec.addNodesMeta]
    rw [ih _ (addNode_nodeInv s n (some md) h), abs_addNode s n (some md) h]

theorem addNodesMeta_ord (s : Store) (l : List (Node × Meta)) (o : Ord s) : Ord (addNodesMeta s l) := by
  induction l generalizing s with
  | nil => exact o
  | cons p r ih => obtain ⟨n, md⟩ := p; exact ih _ (addNode_ord s n (some md) o)

theorem abs_ctor (w : Bool) (hm : Option Meta) (nm : Option (List (Node × Meta))) (es : Option (List RawEdge))
    (ws : Option (List Int)) (mds : Option (List Meta)) (hes : ∀ e ∈ es.getD [], RawWF e) :
    abs (ctor w hm nm es ws mds).1 = (Spec.ctor w hm nm es ws mds).1 ∧
    (ctor w hm nm es ws mds).2 = (Spec.ctor w hm nm es ws mds).2 ∧ Ord (ctor w hm nm es ws mds).1 := by
  unfold ctor Spec.ctor
  simp only []
  have i0 := inv_init w (ctorHMeta hm w)
  have i1 := addNodesMeta_inv _ (nm.getD []) i0
  have o1 := addNodesMeta_ord _ (nm.getD []) (ord_init w (ctorHMeta hm w))
  have a1 : abs (addNodesMeta { weighted := w, hmeta := ctorHMeta hm w } (nm.getD [])) =
      Spec.addNodesMeta { weighted := w, hmeta := ctorHMeta hm w } (nm.getD []) :=
    abs_addNodesMeta _ _ i0.nodeInv
  cases es with
  | none => exact ⟨a1, rfl, o1⟩
  | some el =>
    simp only []
    split
    · exact ⟨a1, rfl, o1⟩
    · rw [← a1]
      have := abs_addEdges _ el ws mds hes i1
      exact ⟨this.1, this.2, addEdges_ord _ el ws mds hes i1 o1⟩

/-- abstraction of a state -/
def absState (st : State) : List (Nat × Spec) := st.map (fun p => (p.1, abs p.2))

theorem set_map_comm {α β γ : Type} [DecidableEq α] (l : List (α × β)) (F : β → γ) (k : α) (v : β) :
    AL.set (l.map (fun p => (p.1, F p.2))) k (F v) = (AL.set l k v).map (fun p => (p.1, F p.2)) := by
  induction l with
  | nil => simp [AL.set]
  | cons hd t ih =>
    obtain ⟨a, b⟩ := hd
    simp only [List.map_cons, AL.set]
    split <;> simp [ih]

/-- every object of a state satisfies `Ord` -/
def StateOrd (st : State) : Prop := ∀ slot s, get? st slot = some s → Ord s

theorem abs_step (st : State) (c : Cmd) (hc : c.WF) (h : StateInv st) (o : StateOrd st) :
    absState (step st c).1 = (Spec.step (absState st) c).1 ∧ (step st c).2 = (Spec.step (absState st) c).2 ∧
    StateOrd (step st c).1 := by
  have hget : ∀ sl, get? (absState st) sl = (get? st sl).map abs := fun sl => get?_map_val st abs sl
  cases c with
  | new slot w hm nm es ws mds =>
    obtain ⟨c1, c2, c3⟩ := abs_ctor w hm nm es ws mds hc
    simp only [step, Spec.step]
    cases hr : ctor w hm nm es ws mds with
    | mk s out =>
      cases hq : Spec.ctor w hm nm es ws mds with
      | mk sp out' =>
        rw [hr, hq] at c1 c2; rw [hr] at c3
        simp only at c1 c2 c3
        subst c2
        cases out with
        | rej => exact ⟨rfl, rfl, o⟩
        | ok =>
          simp only []
          refine ⟨?_, trivial, ?_⟩
          · rw [← c1]; exact (set_map_comm st abs slot s).symm
          · intro sl s' hs'
            simp only [get?_set] at hs'
            split at hs'
            · injection hs' with hs'; subst hs'; exact c3
            · exact o sl s' hs'
  | copy a b =>
    simp only [step, Spec.step, hget]
    cases ha : get? st a with
    | none => exact ⟨rfl, rfl, o⟩
    | some s =>
      simp only [Option.map_some]
      refine ⟨(set_map_comm st abs b s).symm, trivial, ?_⟩
      intro sl s' hs'
      simp only [get?_set] at hs'
      split at hs'
      · injection hs' with hs'; subst hs'; exact o a _ ha
      · exact o sl s' hs'
  | op slot op =>
    simp only [step, Spec.step, hget]
    cases ha : get? st slot with
    | none => exact ⟨rfl, rfl, o⟩
    | some s =>
      simp only [Option.map_some]
      obtain ⟨h1, h2⟩ := abs_applyOp s op hc (h slot s ha) (o slot s ha)
      refine ⟨?_, h2, ?_⟩
      · rw [← h1]; exact (set_map_comm st abs slot _).symm
      · intro sl s' hs'
        simp only [get?_set] at hs'
        split at hs'
        · injection hs' with hs'; subst hs'; exact applyOp_ord s op hc (h slot s ha) (o slot s ha)
        · exact o sl s' hs'

def Spec.runCmds (st : List (Nat × Spec)) : List Cmd → List (Nat × Spec)
  | [] => st
  | c :: cs => Spec.runCmds (Spec.step st c).1 cs

def outsCmds (st : State) : List Cmd → List Out
  | [] => []
  | c :: cs => (step st c).2 :: outsCmds (step st c).1 cs
def Spec.outsCmds (st : List (Nat × Spec)) : List Cmd → List Out
  | [] => []
  | c :: cs => (Spec.step st c).2 :: Spec.outsCmds (Spec.step st c).1 cs

theorem abs_runCmds (st : State) (cs : List Cmd) (hcs : ∀ c ∈ cs, c.WF) (h : StateInv st) (o : StateOrd st) :
    absState (runCmds st cs) = Spec.runCmds (absState st) cs ∧ outsCmds st cs = Spec.outsCmds (absState st) cs ∧
    StateOrd (runCmds st cs) := by
  induction cs generalizing st with
  | nil => exact ⟨rfl, rfl, o⟩
  | cons c cs ih =>
    have hw := hcs c List.mem_cons_self
    obtain ⟨h1, h2, h3⟩ := abs_step st c hw h o
    simp only [runCmds, Spec.runCmds, outsCmds, Spec.outsCmds]
    rw [← h1, ← h2]
    obtain ⟨i1, i2, i3⟩ := ih _ (fun c' hc' => hcs c' (List.mem_cons_of_mem _ hc')) (step_inv st c hw h) h3
    exact ⟨i1, by rw [i2], i3⟩

end C02
