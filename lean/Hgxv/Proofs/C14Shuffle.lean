import Hgxv.Proofs.C14Gen
/-! `random_shuffle` (repaired, D27), `random_shuffle_all_orders`, `add_random_edge(s)`: lemmas. -/
namespace C14

/-- invariants of the `Hypergraph` class (C01): hyperedge keys are distinct sorted tuples over existing nodes; an
    unweighted hypergraph stores weight `1` everywhere (`add_edge` / `set_weight` refuse anything else) -/
structure WF (h : HG) : Prop where
  nodupKeys : (keys h).Nodup
  sortedKeys : ∀ k ∈ keys h, sortE k = k
  nodesIn : ∀ k ∈ keys h, ∀ x ∈ k, x ∈ h.nodes
  unitW : h.weighted = false → ∀ r ∈ h.edges, r.2.1 = 1

/-- same abstract content: same flag, same node list, the same (hyperedge, weight, metadata) records up to order -/
def Equiv (h h' : HG) : Prop := h.weighted = h'.weighted ∧ h.nodes = h'.nodes ∧ h.edges.Perm h'.edges

theorem Equiv.refl (h : HG) : Equiv h h := ⟨rfl, rfl, List.Perm.refl _⟩
theorem Equiv.trans {a b c : HG} (h1 : Equiv a b) (h2 : Equiv b c) : Equiv a c :=
  ⟨h1.1.trans h2.1, h1.2.1.trans h2.2.1, h1.2.2.trans h2.2.2⟩

theorem Equiv.keys_perm {h h' : HG} (e : Equiv h h') : (keys h).Perm (keys h') := e.2.2.map _

theorem Equiv.wf {h h' : HG} (e : Equiv h h') (w : WF h) : WF h' where
  nodupKeys := e.keys_perm.nodup_iff.mp w.nodupKeys
  sortedKeys := fun k hk => w.sortedKeys k (e.keys_perm.mem_iff.mpr hk)
  nodesIn := fun k hk x hx => e.2.1 ▸ w.nodesIn k (e.keys_perm.mem_iff.mpr hk) x hx
  unitW := fun hw r hr => w.unitW (e.1.trans hw) r (e.2.2.mem_iff.mpr hr)

/-- equivalent hypergraphs answer every lookup identically -/
theorem Equiv.get? {h h' : HG} (e : Equiv h h') (w : WF h) (k : Edge) : AL.get? h.edges k = AL.get? h'.edges k :=
  AL.get?_perm e.2.2 w.nodupKeys k

/-! ### lookups in filtered tables -/

theorem AL.get?_filter_key {β : Type} (q : Edge → Bool) (l : List (Edge × β)) (k : Edge) :
    AL.get? (l.filter (fun r => q r.1)) k = if q k then AL.get? l k else none := by
  induction l with
  | nil => simp [AL.get?]
  | cons hd t ih =>
    obtain ⟨k', v⟩ := hd
    by_cases hq : q k'
    · simp only [List.filter_cons, hq, if_true, AL.get?]
      by_cases hk : k' = k
      · subst hk; simp [hq]
      · simp only [hk, if_false]; exact ih
    · simp only [List.filter_cons, hq, AL.get?]
      by_cases hk : k' = k
      · subst hk; simp [hq] at ih ⊢; exact ih
      · simp only [hk, if_false]; simpa using ih

theorem AL.mem_set {β : Type} (l : List (Edge × β)) (k : Edge) (v : β) (x : Edge × β) (hx : x ∈ AL.set l k v) :
    x ∈ l ∨ x = (k, v) := by
  induction l with
  | nil => simp [AL.set] at hx; exact Or.inr hx
  | cons hd t ih =>
    simp only [AL.set] at hx
    split at hx
    · rcases List.mem_cons.mp hx with h | h
      · exact Or.inr h
      · exact Or.inl (by simp [h])
    · rcases List.mem_cons.mp hx with h | h
      · exact Or.inl (by simp [h])
      · rcases ih h with h | h
        · exact Or.inl (by simp [h])
        · exact Or.inr h

/-! ### WF is preserved by add_edge over existing nodes -/

theorem unitW_addEdge (h : HG) (raw : List Nat) (w md : Nat) (hw : h.weighted = false)
    (hu : ∀ r ∈ h.edges, r.2.1 = 1) : ∀ r ∈ (addEdge h raw w md).edges, r.2.1 = 1 := by
  intro r hr
  unfold addEdge at hr
  split at hr
  · simp only [addEdgeNew, hw, List.mem_append, List.mem_singleton] at hr
    rcases hr with hr | hr
    · exact hu r hr
    · subst hr; simp
  · rename_i r0 hg
    simp only [addEdgeOld, hw] at hr
    rcases AL.mem_set _ _ _ _ hr with hr | hr
    · exact hu r hr
    · subst hr; simp; exact hu _ (AL.mem_of_get? _ _ _ hg)

theorem WF.addEdge {h : HG} (wf : WF h) (raw : List Nat) (w md : Nat) (hs : ∀ x ∈ raw, x ∈ h.nodes) :
    WF (addEdge h raw w md) where
  nodupKeys := by rw [keys_addEdge]; exact nodup_insNew wf.nodupKeys
  sortedKeys := by
    intro k hk; rw [keys_addEdge, mem_insNew] at hk
    rcases hk with hk | rfl
    · exact wf.sortedKeys k hk
    · simp
  nodesIn := by
    intro k hk x hx
    rw [nodes_addEdge_of_subset h raw w md hs]
    rw [keys_addEdge, mem_insNew] at hk
    rcases hk with hk | rfl
    · exact wf.nodesIn k hk x hx
    · exact hs x (by simpa using hx)
  unitW := by
    intro hw; rw [weighted_addEdge] at hw
    exact unitW_addEdge h raw w md hw (wf.unitW hw)

theorem WF.addMany (L : List (List Nat × Rec)) : ∀ {h : HG}, WF h → (∀ t ∈ L, ∀ x ∈ t.1, x ∈ h.nodes) →
    WF (addMany h L) := by
  induction L with
  | nil => intro h wf _; exact wf
  | cons t L ih =>
    intro h wf hs
    rw [addMany_cons]
    apply ih (wf.addEdge t.1 t.2.1 t.2.2 (hs t (by simp)))
    intro t' ht' x hx
    rw [nodes_addEdge_of_subset h t.1 t.2.1 t.2.2 (hs t (by simp))]
    exact hs t' (by simp [ht']) x hx

/-! ### the pieces of random_shuffle -/

theorem keys_edgesOfSize_sub (h : HG) (s : Nat) : ∀ r ∈ edgesOfSize h s, r ∈ h.edges ∧ r.1.length = s := by
  intro r hr
  simp only [edgesOfSize, List.mem_filter, beq_iff_eq] at hr
  exact hr

/-- removing all hyperedges of size `s` leaves exactly the records of the other sizes -/
theorem edges_removeSize (h : HG) (wf : WF h) (s : Nat) :
    (removeEdges h ((edgesOfSize h s).map (·.1))).edges = h.edges.filter (fun r => !(r.1.length == s)) := by
  rw [edges_removeEdges _ h wf.nodupKeys]
  · apply List.filter_congr
    intro r hr
    congr 1
    by_cases hl : r.1.length = s
    · have hm : r ∈ edgesOfSize h s := by simp [edgesOfSize, hr, hl]
      have : r.1 ∈ (edgesOfSize h s).map (·.1) := List.mem_map_of_mem (f := fun (x : Edge × Rec) => x.1) hm
      simp [hl, this]
    · have : r.1 ∉ (edgesOfSize h s).map (·.1) := by
        intro hm
        obtain ⟨r', hr', he⟩ := List.mem_map.mp hm
        exact hl (he ▸ (keys_edgesOfSize_sub h s r' hr').2)
      simp [hl, this]
  · intro k hk
    obtain ⟨r, hr, rfl⟩ := List.mem_map.mp hk
    exact wf.sortedKeys r.1 (List.mem_map_of_mem (f := (·.1)) (keys_edgesOfSize_sub h s r hr).1)

theorem selected_sub (cur : List (Edge × Rec)) (idx : List Nat) : ∀ (i : Nat), ∀ e ∈ selected cur idx i,
    ∃ r ∈ cur, r.1 = e := by
  induction cur with
  | nil => intro i e he; simp [selected] at he
  | cons r rest ih =>
    intro i e he
    simp only [selected] at he
    split at he
    · rcases List.mem_cons.mp he with rfl | he
      · exact ⟨r, by simp, rfl⟩
      · obtain ⟨r', hr', h'⟩ := ih (i + 1) e he; exact ⟨r', by simp [hr'], h'⟩
    · obtain ⟨r', hr', h'⟩ := ih (i + 1) e he; exact ⟨r', by simp [hr'], h'⟩

/-- `selected` lists exactly the hyperedges whose position was drawn -/
theorem mem_selected_iff (cur : List (Edge × Rec)) (idx : List Nat) : ∀ (i : Nat) (e : Edge),
    e ∈ selected cur idx i ↔ ∃ j, i + j ∈ idx ∧ (cur[j]?).map (·.1) = some e := by
  induction cur with
  | nil => intro i e; simp [selected]
  | cons r rest ih =>
    intro i e
    simp only [selected]
    constructor
    · intro he
      split at he
      · rename_i hi
        rcases List.mem_cons.mp he with rfl | he
        · exact ⟨0, by simpa using hi, by simp⟩
        · obtain ⟨j, hj, hc⟩ := (ih (i + 1) e).mp he
          exact ⟨j + 1, by rw [← Nat.add_assoc, Nat.add_right_comm]; exact hj, by simpa using hc⟩
      · obtain ⟨j, hj, hc⟩ := (ih (i + 1) e).mp he
        exact ⟨j + 1, by rw [← Nat.add_assoc, Nat.add_right_comm]; exact hj, by simpa using hc⟩
    · rintro ⟨j, hj, hc⟩
      cases j with
      | zero =>
        simp at hj hc
        simp [hj, hc]
      | succ j =>
        have : e ∈ selected rest idx (i + 1) :=
          (ih (i + 1) e).mpr ⟨j, by rw [Nat.add_assoc, Nat.add_comm 1 j]; exact hj, by simpa using hc⟩
        split
        · exact List.mem_cons_of_mem _ this
        · exact this

theorem mem_pool (cur : List (Edge × Rec)) (idx : List Nat) (x : Nat) :
    x ∈ pool cur idx ↔ ∃ e ∈ selected cur idx 0, x ∈ e := by
  simp only [pool, mem_dedup, List.mem_flatten]

/-- the hyperedges that are not selected, in order -/
def keptList (idx : List Nat) : List (Edge × Rec) → Nat → List (Edge × Rec)
  | [], _ => []
  | r :: rest, i => if i ∈ idx then keptList idx rest (i + 1) else r :: keptList idx rest (i + 1)

theorem keptList_sub (idx : List Nat) (cur : List (Edge × Rec)) : ∀ (i : Nat), ∀ r ∈ keptList idx cur i, r ∈ cur := by
  induction cur with
  | nil => intro i r hr; simp [keptList] at hr
  | cons r0 rest ih =>
    intro i r hr
    simp only [keptList] at hr
    split at hr
    · exact List.mem_cons_of_mem _ (ih (i + 1) r hr)
    · rcases List.mem_cons.mp hr with rfl | hr
      · simp
      · exact List.mem_cons_of_mem _ (ih (i + 1) r hr)

theorem mem_readdList (idx : List Nat) (cur : List (Edge × Rec)) : ∀ (i : Nat) (cs : List (List Nat)),
    ∀ t ∈ readdList idx cur i cs, t ∈ keptList idx cur i ∨ ∃ c ∈ cs, t = (c, (1, 0)) := by
  induction cur with
  | nil => intro i cs t ht; simp [readdList] at ht
  | cons r rest ih =>
    intro i cs t ht
    simp only [readdList] at ht
    simp only [keptList]
    split at ht
    · rename_i hi
      simp only [hi, if_true]
      cases cs with
      | nil => simp only at ht; rcases ih (i + 1) [] t ht with h | ⟨c, hc, _⟩
               · exact Or.inl h
               · simp at hc
      | cons c cs' =>
        simp only at ht
        rcases List.mem_cons.mp ht with rfl | ht
        · exact Or.inr ⟨c, by simp, rfl⟩
        · rcases ih (i + 1) cs' t ht with h | ⟨c', hc', he⟩
          · exact Or.inl h
          · exact Or.inr ⟨c', by simp [hc'], he⟩
    · rename_i hi
      simp only [hi, if_false]
      rcases List.mem_cons.mp ht with rfl | ht
      · exact Or.inl (by simp)
      · rcases ih (i + 1) cs t ht with h | h
        · exact Or.inl (List.mem_cons_of_mem _ h)
        · exact Or.inr h

theorem readdList_nil_idx (cur : List (Edge × Rec)) : ∀ (i : Nat) (cs : List (List Nat)), readdList [] cur i cs = cur := by
  induction cur with
  | nil => intro i cs; rfl
  | cons r rest ih => intro i cs; simp [readdList, ih]

/-- the draws of `random_shuffle`: every `np.random.choice(pool, size, replace=False)` returns `size` distinct members
    of the pool built from the selected hyperedges -/
def ShuffleDrawsOK (h : HG) (s : Nat) (idx : List Nat) (choices : List (List Nat)) : Prop :=
  ∀ c ∈ choices, IsSample (pool (edgesOfSize h s) idx) s c

theorem pool_sub_nodes (h : HG) (wf : WF h) (s : Nat) (idx : List Nat) :
    ∀ x ∈ pool (edgesOfSize h s) idx, x ∈ h.nodes := by
  intro x hx
  obtain ⟨e, he, hxe⟩ := (mem_pool _ _ _).mp hx
  obtain ⟨r, hr, rfl⟩ := selected_sub _ _ 0 e he
  exact wf.nodesIn r.1 (List.mem_map_of_mem (f := (·.1)) (keys_edgesOfSize_sub h s r hr).1) x hxe

/-- every `add_edge` call of the re-insertion loop is over existing nodes and concerns a hyperedge of size `s` -/
theorem readd_entries (h : HG) (wf : WF h) (s : Nat) (idx : List Nat) (cs : List (List Nat))
    (hd : ShuffleDrawsOK h s idx cs) :
    ∀ t ∈ readdList idx (edgesOfSize h s) 0 cs, (∀ x ∈ t.1, x ∈ h.nodes) ∧ (sortE t.1).length = s := by
  intro t ht
  rcases mem_readdList idx _ 0 cs t ht with hk | ⟨c, hc, rfl⟩
  · have := keys_edgesOfSize_sub h s t (keptList_sub idx _ 0 t hk)
    exact ⟨wf.nodesIn t.1 (List.mem_map_of_mem (f := (·.1)) this.1), by simp [this.2]⟩
  · obtain ⟨_, h2, h3⟩ := hd c hc
    exact ⟨fun x hx => pool_sub_nodes h wf s idx x (h3 x hx), by simp [h2]⟩

theorem WF.removeSize {h : HG} (wf : WF h) (s : Nat) : WF (removeEdges h ((edgesOfSize h s).map (·.1))) := by
  have he := edges_removeSize h wf s
  have hsub : ∀ r ∈ (removeEdges h ((edgesOfSize h s).map (·.1))).edges, r ∈ h.edges := by
    intro r hr; rw [he] at hr; exact (List.mem_filter.mp hr).1
  have hk : ∀ k ∈ keys (removeEdges h ((edgesOfSize h s).map (·.1))), k ∈ keys h := by
    intro k hk
    obtain ⟨r, hr, rfl⟩ := List.mem_map.mp hk
    exact List.mem_map_of_mem (f := (·.1)) (hsub r hr)
  refine ⟨?_, fun k h' => wf.sortedKeys k (hk k h'), ?_, ?_⟩
  · unfold keys; rw [he]; exact nodup_keys_filter _ _ wf.nodupKeys
  · intro k h' x hx; rw [nodes_removeEdges]; exact wf.nodesIn k (hk k h') x hx
  · intro hw r hr; rw [weighted_removeEdges] at hw; exact wf.unitW hw r (hsub r hr)

structure ShuffleOut (h : HG) (s : Nat) (idx : List Nat) (r : HG) : Prop where
  wf : WF r
  nodes : r.nodes = h.nodes
  weighted : r.weighted = h.weighted
  /-- hyperedges of other sizes keep their weight and metadata, none appears or disappears -/
  other : ∀ k : Edge, k.length ≠ s → AL.get? r.edges k = AL.get? h.edges k
  /-- every hyperedge of the result has the shuffled size or is an untouched hyperedge of another size -/
  sizes : ∀ k ∈ keys r, k.length = s ∨ (k ∈ keys h ∧ k.length ≠ s)
  /-- a hyperedge of size `s` of the result is a kept one or consists of nodes of the selected hyperedges -/
  fromPool : ∀ k ∈ keys r, k.length = s →
    (∃ t ∈ keptList idx (edgesOfSize h s) 0, k = t.1) ∨ (k.Nodup ∧ ∀ x ∈ k, ∃ e ∈ selected (edgesOfSize h s) idx 0, x ∈ e)

theorem shuffleCore_spec (h : HG) (wf : WF h) (s : Nat) (idx : List Nat) (cs : List (List Nat))
    (hd : ShuffleDrawsOK h s idx cs) : ShuffleOut h s idx (shuffleCore h s idx cs) := by
  have hent := readd_entries h wf s idx cs hd
  have wf0 := wf.removeSize s
  have he0 := edges_removeSize h wf s
  have hkeys0 : ∀ k ∈ keys (removeEdges h ((edgesOfSize h s).map (·.1))), k ∈ keys h ∧ k.length ≠ s := by
    intro k hk
    obtain ⟨r, hr, rfl⟩ := List.mem_map.mp hk
    rw [he0] at hr
    have := List.mem_filter.mp hr
    exact ⟨List.mem_map_of_mem (f := (·.1)) this.1, by simpa using this.2⟩
  have hkeys : ∀ k ∈ keys (shuffleCore h s idx cs),
      k ∈ keys (removeEdges h ((edgesOfSize h s).map (·.1))) ∨
      ∃ t ∈ readdList idx (edgesOfSize h s) 0 cs, k = sortE t.1 := by
    intro k hk
    simp only [shuffleCore, keys_addMany, mem_insAll, List.mem_map] at hk
    rcases hk with hk | ⟨t, ht, rfl⟩
    · exact Or.inl hk
    · exact Or.inr ⟨t, ht, rfl⟩
  refine ⟨?_, ?_, by simp [shuffleCore], ?_, ?_, ?_⟩
  · exact WF.addMany _ wf0 (by intro t ht x hx; rw [nodes_removeEdges]; exact (hent t ht).1 x hx)
  · simp only [shuffleCore]
    rw [nodes_addMany_of_subset _ _ (by intro t ht x hx; rw [nodes_removeEdges]; exact (hent t ht).1 x hx)]
    simp
  · intro k hk
    simp only [shuffleCore]
    rw [get?_addMany_of_not_mem _ k _ (by intro t ht he; exact hk (he ▸ (hent t ht).2)), he0]
    rw [AL.get?_filter_key (fun e => !(e.length == s)) h.edges k]; simp [hk]
  · intro k hk
    rcases hkeys k hk with h0 | ⟨t, ht, rfl⟩
    · exact Or.inr (hkeys0 k h0)
    · exact Or.inl (hent t ht).2
  · intro k hk hl
    rcases hkeys k hk with h0 | ⟨t, ht, rfl⟩
    · exact absurd hl (hkeys0 k h0).2
    · rcases mem_readdList idx _ 0 cs t ht with hkept | ⟨c, hc, rfl⟩
      · refine Or.inl ⟨t, hkept, ?_⟩
        have := keys_edgesOfSize_sub h s t (keptList_sub idx _ 0 t hkept)
        exact wf.sortedKeys t.1 (List.mem_map_of_mem (f := (·.1)) this.1)
      · obtain ⟨h1, _, h3⟩ := hd c hc
        refine Or.inr ⟨by simpa using h1, ?_⟩
        intro x hx
        exact (mem_pool _ _ _).mp (h3 x (by simpa using hx))

/-- `p = 0`: nothing is selected, every hyperedge comes back with its weight and metadata -/
theorem shuffleCore_p0 (h : HG) (wf : WF h) (s : Nat) (cs : List (List Nat)) : Equiv (shuffleCore h s [] cs) h := by
  have he0 := edges_removeSize h wf s
  have hcur : ∀ t ∈ edgesOfSize h s, t ∈ h.edges ∧ t.1.length = s := keys_edgesOfSize_sub h s
  have hsorted : ∀ t ∈ edgesOfSize h s, sortE t.1 = t.1 :=
    fun t ht => wf.sortedKeys t.1 (List.mem_map_of_mem (f := (·.1)) (hcur t ht).1)
  have hmapk : (edgesOfSize h s).map (fun t => sortE t.1) = (edgesOfSize h s).map (·.1) :=
    List.map_congr_left hsorted
  refine ⟨by simp [shuffleCore], ?_, ?_⟩
  · simp only [shuffleCore, readdList_nil_idx]
    rw [nodes_addMany_of_subset]
    · simp
    · intro t ht x hx; rw [nodes_removeEdges]
      exact wf.nodesIn t.1 (List.mem_map_of_mem (f := (·.1)) (hcur t ht).1) x hx
  · simp only [shuffleCore, readdList_nil_idx]
    rw [edges_addMany_fresh]
    · rw [he0, weighted_removeEdges]
      have hmap : (edgesOfSize h s).map (fun t => (sortE t.1, ((if h.weighted then t.2.1 else 1), t.2.2)))
          = edgesOfSize h s := by
        conv => rhs; rw [← List.map_id (edgesOfSize h s)]
        apply List.map_congr_left
        intro t ht
        rw [hsorted t ht]
        by_cases hw : h.weighted
        · simp [hw]
        · have := wf.unitW (by simpa using hw) t (hcur t ht).1
          simp only [hw]
          rw [← this]; rfl
      rw [hmap]
      have := List.filter_append_perm (fun r : Edge × Rec => r.1.length == s) h.edges
      exact List.perm_append_comm.trans this
    · rw [hmapk]
      exact List.Nodup.sublist (List.Sublist.map _ List.filter_sublist) wf.nodupKeys
    · intro t ht hk
      rw [hsorted t ht] at hk
      obtain ⟨r, hr, hrk⟩ := List.mem_map.mp hk
      rw [he0] at hr
      have := (List.mem_filter.mp hr).2
      rw [hrk] at this
      simp [(hcur t ht).2] at this

end C14

namespace C14

/-- the draws of `random_shuffle_all_orders`: at each size the choices respect the pool of the *current* hypergraph -/
def ShuffleAllOK : HG → List Nat → List (List Nat × List (List Nat)) → Prop
  | h, s :: sizes, d :: ds => ShuffleDrawsOK h s d.1 d.2 ∧ ShuffleAllOK (shuffleCore h s d.1 d.2) sizes ds
  | _, _, _ => True

theorem shuffleAllLoop_spec : ∀ (sizes : List Nat) (ds : List (List Nat × List (List Nat))) (h : HG),
    WF h → ShuffleAllOK h sizes ds →
    WF (shuffleAllLoop h sizes ds) ∧ (shuffleAllLoop h sizes ds).nodes = h.nodes ∧
    (shuffleAllLoop h sizes ds).weighted = h.weighted ∧
    (∀ k : Edge, k.length ∉ sizes → AL.get? (shuffleAllLoop h sizes ds).edges k = AL.get? h.edges k) ∧
    (∀ k ∈ keys (shuffleAllLoop h sizes ds), k ∈ keys h ∨ k.length ∈ sizes) := by
  intro sizes
  induction sizes with
  | nil => intro ds h wf _; simp [shuffleAllLoop, wf]
  | cons s sizes ih =>
    intro ds h wf hok
    cases ds with
    | nil => simp [shuffleAllLoop, wf]; intro k hk; exact Or.inl hk
    | cons d ds =>
      simp only [ShuffleAllOK] at hok
      have h1 := shuffleCore_spec h wf s d.1 d.2 hok.1
      obtain ⟨i1, i2, i3, i4, i5⟩ := ih ds _ h1.wf hok.2
      simp only [shuffleAllLoop]
      refine ⟨i1, i2.trans h1.nodes, i3.trans h1.weighted, ?_, ?_⟩
      · intro k hk
        simp only [List.mem_cons, not_or] at hk
        rw [i4 k hk.2, h1.other k hk.1]
      · intro k hk
        rcases i5 k hk with h' | h'
        · rcases h1.sizes k h' with h'' | h''
          · exact Or.inr (by simp [h''])
          · exact Or.inl h''.1
        · exact Or.inr (by simp [h'])

theorem shuffleAllLoop_p0 : ∀ (sizes : List Nat) (ds : List (List Nat × List (List Nat))) (h : HG),
    WF h → (∀ d ∈ ds, d.1 = []) → Equiv (shuffleAllLoop h sizes ds) h := by
  intro sizes
  induction sizes with
  | nil => intro ds h _ _; simp only [shuffleAllLoop]; exact Equiv.refl h
  | cons s sizes ih =>
    intro ds h wf hnil
    cases ds with
    | nil => simp only [shuffleAllLoop]; exact Equiv.refl h
    | cons d ds =>
      simp only [shuffleAllLoop]
      have hd : d.1 = [] := hnil d (by simp)
      rw [hd]
      have e1 := shuffleCore_p0 h wf s d.2
      exact (ih ds _ (Equiv.wf (show Equiv h (shuffleCore h s [] d.2) from
        ⟨e1.1.symm, e1.2.1.symm, e1.2.2.symm⟩) wf) (fun d' hd' => hnil d' (by simp [hd']))).trans e1

theorem numToRandomize_zero (pd m : Nat) : numToRandomize 0 pd m = 0 := by simp [numToRandomize]

end C14
