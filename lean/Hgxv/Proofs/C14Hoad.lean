import Hgxv.Proofs.C14
/-! `HOADmodel`: every emitted record is well-formed, for every recording the model accepts. -/
namespace C14

/-- a well-formed hyperlink of order `order` at time `t` -/
def GoodLink (N order : Nat) (r : Nat × Edge) : Prop :=
  r.2.length = order + 1 ∧ r.2.Nodup ∧ ∀ x ∈ r.2, x < N

theorem hoadEmit_spec (N order t i : Nat) (s : List Nat) (hi : i < N) (hs : sampleOK N order s = true) :
    ∀ r ∈ hoadEmit t i s, r.1 = t ∧ GoodLink N order r := by
  intro r hr
  simp only [sampleOK, Bool.and_eq_true, beq_iff_eq, List.all_eq_true, decide_eq_true_eq] at hs
  unfold hoadEmit at hr
  split at hr
  · rename_i hnd
    simp only [List.mem_singleton] at hr
    subst hr
    refine ⟨rfl, by simp [hs.1], by simpa using hnd, ?_⟩
    intro x hx
    simp only [mem_sortE, List.mem_append, List.mem_singleton] at hx
    rcases hx with hx | rfl
    · exact hs.2 x hx
    · exact hi
  · simp at hr

theorem hoadNode_spec (N order : Nat) (act : Rat) (t i : Nat) (d : HoadDraw) (out : List (Nat × Edge))
    (h : hoadNode N order act t i d = some out) (hi : i < N) : ∀ r ∈ out, r.1 = t ∧ GoodLink N order r := by
  unfold hoadNode at h
  split at h
  · split at h
    · rename_i hc
      simp only [Bool.and_eq_true] at hc
      cases h
      exact hoadEmit_spec N order t i d.sample hi hc.2
    · cases h
  · split at h
    · cases h
    · cases h; simp

theorem hoadNodes_spec (N order t : Nat) : ∀ (acts : List Rat) (i : Nat) (ds : List HoadDraw)
    (out : List (Nat × Edge)) (rest : List HoadDraw),
    hoadNodes N order t acts i ds = some (out, rest) → i + acts.length ≤ N →
    ∀ r ∈ out, r.1 = t ∧ GoodLink N order r := by
  intro acts
  induction acts with
  | nil => intro i ds out rest h _; simp [hoadNodes] at h; simp [h.1]
  | cons a acts ih =>
    intro i ds out rest h hlen
    cases ds with
    | nil => simp [hoadNodes] at h
    | cons d ds =>
      simp only [hoadNodes] at h
      split at h
      · cases h
      · rename_i o1 h1
        split at h
        · cases h
        · rename_i outs rest' h2
          cases h
          intro r hr
          simp only [List.length_cons] at hlen
          rcases List.mem_append.mp hr with hr | hr
          · exact hoadNode_spec N order a t i d o1 h1 (by omega) r hr
          · exact ih (i + 1) ds outs _ h2 (by omega) r hr

theorem hoadTimes_spec (N order : Nat) (acts : List Rat) (hlen : acts.length ≤ N) :
    ∀ (steps t : Nat) (ds : List HoadDraw) (out : List (Nat × Edge)) (rest : List HoadDraw),
    hoadTimes N order acts steps t ds = some (out, rest) →
    ∀ r ∈ out, t ≤ r.1 ∧ r.1 < t + steps ∧ GoodLink N order r := by
  intro steps
  induction steps with
  | zero => intro t ds out rest h; simp [hoadTimes] at h; simp [h.1]
  | succ steps ih =>
    intro t ds out rest h
    simp only [hoadTimes] at h
    split at h
    · cases h
    · rename_i o1 r1 h1
      split at h
      · cases h
      · rename_i outs rest' h2
        cases h
        intro r hr
        rcases List.mem_append.mp hr with hr | hr
        · have := hoadNodes_spec N order t acts 0 ds o1 r1 h1 (by omega) r hr
          exact ⟨by omega, by omega, this.2⟩
        · have := ih (t + 1) r1 outs _ h2 r hr
          exact ⟨by omega, by omega, this.2.2⟩

theorem hoadOrders_spec (N time : Nat) : ∀ (acts : List (Nat × List Rat)) (ds : List HoadDraw)
    (out : List (Nat × Edge)) (rest : List HoadDraw),
    (∀ oa ∈ acts, oa.2.length = N) → hoadOrders N time acts ds = some (out, rest) →
    ∀ r ∈ out, r.1 < time ∧ ∃ oa ∈ acts, GoodLink N oa.1 r := by
  intro acts
  induction acts with
  | nil => intro ds out rest _ h; simp [hoadOrders] at h; simp [h.1]
  | cons oa acts ih =>
    intro ds out rest hl h
    obtain ⟨order, av⟩ := oa
    simp only [hoadOrders] at h
    split at h
    · cases h
    · rename_i o1 r1 h1
      split at h
      · cases h
      · rename_i outs rest' h2
        cases h
        intro r hr
        rcases List.mem_append.mp hr with hr | hr
        · have := hoadTimes_spec N order av (by rw [hl (order, av) (by simp)]; exact Nat.le_refl _) time 0 ds o1 r1 h1 r hr
          exact ⟨by omega, (order, av), by simp, this.2.2⟩
        · obtain ⟨h3, oa', hoa', h4⟩ := ih r1 outs _ (fun oa' h' => hl oa' (by simp [h'])) h2 r hr
          exact ⟨h3, oa', by simp [hoa'], h4⟩

end C14
