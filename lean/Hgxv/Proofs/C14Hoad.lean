import Hgxv.Proofs.C14
/-! `HOADmodel`: every emitted record is well-formed, for every recording on which the model returns, WHATEVER the
lengths of the activity vectors; entries of a vector beyond position `N` are never read; a vector shorter than `N`
never yields a result (the routine raises); vectors of length `≥ N` and orders `≤ N` never raise. -/
namespace C14

/-- a well-formed hyperlink of order `order` at time `t` -/
def GoodLink (N order : Nat) (r : Nat × Edge) : Prop :=
  r.2.length = order + 1 ∧ r.2.Nodup ∧ ∀ x ∈ r.2, x < N

theorem hoadEmit_spec (N order t i : Nat) (s : List Nat) (hi : i < N) (hs : sampleOK N order s = true) :
    ∀ r ∈ hoadEmit t i s, r.1 = t ∧ GoodLink N order r := by
  intro r hr
  simp only [sampleOK, Bool.and_eq_true, beq_iff_eq, List.all_eq_true, decide_eq_true_eq] at hs
  unfold hoadEmit at hr
  split at hr
  · rename_i hnd
    simp only [List.mem_singleton] at hr
    subst hr
    refine ⟨rfl, by simp [hs.1], by simpa using hnd, ?_⟩
    intro x hx
    simp only [mem_sortE, List.mem_append, List.mem_singleton] at hx
    rcases hx with hx | rfl
    · exact hs.2 x hx
    · exact hi
  · simp at hr

theorem hoadNode_spec (N order : Nat) (act : Rat) (t i : Nat) (d : HoadDraw) (ds : List HoadDraw)
    (out : List (Nat × Edge))
    (h : hoadNode N order act t i d ds = .done out) (hi : i < N) : ∀ r ∈ out, r.1 = t ∧ GoodLink N order r := by
  unfold hoadNode at h
  split at h
  · split at h
    · split at h <;> cases h
    · split at h
      · rename_i hc
        simp only [Bool.and_eq_true] at hc
        cases h
        exact hoadEmit_spec N order t i d.sample hi hc.2
      · cases h
  · split at h
    · cases h
    · cases h; simp

/-- a node raises only when its order exceeds `N` -/
theorem hoadNode_raised (N order : Nat) (act : Rat) (t i : Nat) (d : HoadDraw) (ds r : List HoadDraw)
    (h : hoadNode N order act t i d ds = .raised r) : N < order := by
  unfold hoadNode at h
  split at h
  · split at h
    · assumption
    · split at h <;> cases h
  · split at h <;> cases h

theorem hoadNodes_spec (N order t : Nat) (acts : List Rat) : ∀ (k i : Nat) (ds : List HoadDraw)
    (out : List (Nat × Edge)) (rest : List HoadDraw),
    hoadNodes N order t acts k i ds = .done (out, rest) → i + k ≤ N →
    ∀ r ∈ out, r.1 = t ∧ GoodLink N order r := by
  intro k
  induction k with
  | zero => intro i ds out rest h _; simp only [hoadNodes, Run.done.injEq, Prod.mk.injEq] at h; simp [← h.1]
  | succ k ih =>
    intro i ds out rest h hlen
    simp only [hoadNodes] at h
    split at h
    · cases h
    · rename_i a ha
      split at h
      · cases h
      · rename_i d ds'
        split at h
        · cases h
        · cases h
        · rename_i o1 h1
          split at h
          · rename_i outs rest' h2
            cases h
            intro r hr
            rcases List.mem_append.mp hr with hr | hr
            · exact hoadNode_spec N order a t i d ds' o1 h1 (by omega) r hr
            · exact ih (i + 1) ds' outs _ h2 (by omega) r hr
          · cases h
          · cases h

theorem hoadTimes_spec (N order : Nat) (acts : List Rat) :
    ∀ (steps t : Nat) (ds : List HoadDraw) (out : List (Nat × Edge)) (rest : List HoadDraw),
    hoadTimes N order acts steps t ds = .done (out, rest) →
    ∀ r ∈ out, t ≤ r.1 ∧ r.1 < t + steps ∧ GoodLink N order r := by
  intro steps
  induction steps with
  | zero => intro t ds out rest h; simp only [hoadTimes, Run.done.injEq, Prod.mk.injEq] at h; simp [← h.1]
  | succ steps ih =>
    intro t ds out rest h
    simp only [hoadTimes] at h
    split at h
    · cases h
    · cases h
    · rename_i o1 r1 h1
      split at h
      · rename_i outs rest' h2
        cases h
        intro r hr
        rcases List.mem_append.mp hr with hr | hr
        · have := hoadNodes_spec N order t acts N 0 ds o1 r1 h1 (by omega) r hr
          exact ⟨by omega, by omega, this.2⟩
        · have := ih (t + 1) r1 outs _ h2 r hr
          exact ⟨by omega, by omega, this.2.2⟩
      · cases h
      · cases h

theorem hoadOrders_spec (N time : Nat) : ∀ (acts : List (Nat × List Rat)) (ds : List HoadDraw)
    (out : List (Nat × Edge)) (rest : List HoadDraw),
    hoadOrders N time acts ds = .done (out, rest) →
    ∀ r ∈ out, r.1 < time ∧ ∃ oa ∈ acts, GoodLink N oa.1 r := by
  intro acts
  induction acts with
  | nil => intro ds out rest h; simp only [hoadOrders, Run.done.injEq, Prod.mk.injEq] at h; simp [← h.1]
  | cons oa acts ih =>
    intro ds out rest h
    obtain ⟨order, av⟩ := oa
    simp only [hoadOrders] at h
    split at h
    · cases h
    · cases h
    · rename_i o1 r1 h1
      split at h
      · rename_i outs rest' h2
        cases h
        intro r hr
        rcases List.mem_append.mp hr with hr | hr
        · have := hoadTimes_spec N order av time 0 ds o1 r1 h1 r hr
          exact ⟨by omega, (order, av), by simp, this.2.2⟩
        · obtain ⟨h3, oa', hoa', h4⟩ := ih r1 outs _ h2 r hr
          exact ⟨h3, oa', by simp [hoa'], h4⟩
      · cases h
      · cases h

/-! ### entries beyond position `N` are never read -/

theorem hoadNodes_take (N order t : Nat) (acts : List Rat) : ∀ (k i : Nat) (ds : List HoadDraw), i + k ≤ N →
    hoadNodes N order t (acts.take N) k i ds = hoadNodes N order t acts k i ds := by
  intro k
  induction k with
  | zero => intro i ds _; simp [hoadNodes]
  | succ k ih =>
    intro i ds hlen
    have hget : (acts.take N)[i]? = acts[i]? := by
      rw [List.getElem?_take]; simp; omega
    simp only [hoadNodes, hget]
    cases acts[i]? with
    | none => rfl
    | some a =>
      cases ds with
      | nil => rfl
      | cons d ds => simp only [ih (i + 1) ds (by omega)]

theorem hoadTimes_take (N order : Nat) (acts : List Rat) : ∀ (steps t : Nat) (ds : List HoadDraw),
    hoadTimes N order (acts.take N) steps t ds = hoadTimes N order acts steps t ds := by
  intro steps
  induction steps with
  | zero => intro t ds; simp [hoadTimes]
  | succ steps ih =>
    intro t ds
    simp only [hoadTimes, hoadNodes_take N order t acts N 0 ds (by omega)]
    cases hoadNodes N order t acts N 0 ds with
    | stuck => rfl
    | raised r => rfl
    | done p => obtain ⟨out, rest⟩ := p; simp only [ih]

theorem hoadOrders_take (N time : Nat) : ∀ (acts : List (Nat × List Rat)) (ds : List HoadDraw),
    hoadOrders N time (acts.map (fun oa => (oa.1, oa.2.take N))) ds = hoadOrders N time acts ds := by
  intro acts
  induction acts with
  | nil => intro ds; simp [hoadOrders]
  | cons oa acts ih =>
    intro ds
    obtain ⟨order, av⟩ := oa
    simp only [List.map_cons, hoadOrders, hoadTimes_take]
    cases hoadTimes N order av time 0 ds with
    | stuck => rfl
    | raised r => rfl
    | done p => obtain ⟨out, rest⟩ := p; simp only [ih]

/-! ### a vector shorter than `N` never yields a result; long enough vectors never raise -/

theorem hoadNodes_short (N order t : Nat) (acts : List Rat) : ∀ (k i : Nat) (ds : List HoadDraw),
    i ≤ acts.length → acts.length < i + k → ∀ p, hoadNodes N order t acts k i ds ≠ .done p := by
  intro k
  induction k with
  | zero => intro i ds h1 h2; omega
  | succ k ih =>
    intro i ds h1 h2 p h
    simp only [hoadNodes] at h
    split at h
    · cases h
    · rename_i a ha
      have hi : i < acts.length := by
        apply Decidable.byContradiction; intro hc
        have : acts[i]? = none := List.getElem?_eq_none (by omega)
        rw [this] at ha; cases ha
      split at h
      · cases h
      · rename_i d ds'
        split at h
        · cases h
        · cases h
        · split at h
          · rename_i outs rest' h2'
            exact ih (i + 1) ds' (by omega) (by omega) _ h2'
          · cases h
          · cases h

theorem hoadTimes_short (N order : Nat) (acts : List Rat) (hlen : acts.length < N) :
    ∀ (steps t : Nat) (ds : List HoadDraw), 0 < steps → ∀ p, hoadTimes N order acts steps t ds ≠ .done p := by
  intro steps t ds hs p h
  cases steps with
  | zero => omega
  | succ steps =>
    simp only [hoadTimes] at h
    split at h
    · cases h
    · cases h
    · rename_i o1 r1 h1
      exact hoadNodes_short N order t acts N 0 ds (by omega) (by omega) _ h1

theorem hoadOrders_short (N time : Nat) (ht : 0 < time) : ∀ (acts : List (Nat × List Rat)) (ds : List HoadDraw),
    (∃ oa ∈ acts, oa.2.length < N) → ∀ p, hoadOrders N time acts ds ≠ .done p := by
  intro acts
  induction acts with
  | nil => intro ds h; simp at h
  | cons oa acts ih =>
    intro ds hex p h
    obtain ⟨order, av⟩ := oa
    simp only [hoadOrders] at h
    split at h
    · cases h
    · cases h
    · rename_i o1 r1 h1
      split at h
      · rename_i outs rest' h2
        obtain ⟨oa', hoa', hl⟩ := hex
        rcases List.mem_cons.mp hoa' with rfl | hm
        · exact hoadTimes_short N order av hl time 0 ds ht _ h1
        · exact ih r1 ⟨oa', hm, hl⟩ _ h2
      · cases h
      · cases h

theorem hoadNodes_no_raise (N order t : Nat) (acts : List Rat) (hlen : N ≤ acts.length) (ho : order ≤ N) :
    ∀ (k i : Nat) (ds : List HoadDraw), i + k ≤ N → ∀ r, hoadNodes N order t acts k i ds ≠ .raised r := by
  intro k
  induction k with
  | zero => intro i ds _ r h; simp [hoadNodes] at h
  | succ k ih =>
    intro i ds hik r h
    simp only [hoadNodes] at h
    split at h
    · rename_i hn
      have : i < acts.length := by omega
      rw [List.getElem?_eq_getElem this] at hn; cases hn
    · split at h
      · cases h
      · rename_i d ds'
        split at h
        · cases h
        · rename_i r' h1
          have := hoadNode_raised N order _ t i d ds' r' h1
          omega
        · split at h
          · cases h
          · rename_i r' h2
            exact ih (i + 1) ds' (by omega) r' h2
          · cases h

theorem hoadTimes_no_raise (N order : Nat) (acts : List Rat) (hlen : N ≤ acts.length) (ho : order ≤ N) :
    ∀ (steps t : Nat) (ds : List HoadDraw) r, hoadTimes N order acts steps t ds ≠ .raised r := by
  intro steps
  induction steps with
  | zero => intro t ds r h; simp [hoadTimes] at h
  | succ steps ih =>
    intro t ds r h
    simp only [hoadTimes] at h
    split at h
    · cases h
    · rename_i r' h1
      exact hoadNodes_no_raise N order t acts hlen ho N 0 ds (by omega) r' h1
    · split at h
      · cases h
      · rename_i r' h2
        exact ih _ _ r' h2
      · cases h

theorem hoadOrders_no_raise (N time : Nat) : ∀ (acts : List (Nat × List Rat)) (ds : List HoadDraw),
    (∀ oa ∈ acts, N ≤ oa.2.length ∧ oa.1 ≤ N) → ∀ r, hoadOrders N time acts ds ≠ .raised r := by
  intro acts
  induction acts with
  | nil => intro ds _ r h; simp [hoadOrders] at h
  | cons oa acts ih =>
    intro ds hall r h
    obtain ⟨order, av⟩ := oa
    simp only [hoadOrders] at h
    have h0 := hall (order, av) (by simp)
    split at h
    · cases h
    · rename_i r' h1
      exact hoadTimes_no_raise N order av h0.1 h0.2 time 0 ds r' h1
    · split at h
      · cases h
      · rename_i r' h2
        exact ih _ (fun oa' h' => hall oa' (by simp [h'])) r' h2
      · cases h

end C14
