import Hgxv.Proofs.C17Ext
import Mathlib.Data.Finset.Card
import Mathlib.Algebra.BigOperators.Ring.Finset
set_option linter.unusedSectionVars false
/-! Extension round: the normalised hypergraph Laplacian of `HySC._extract_laplacian` annihilates the vector
`sqrt(degree)` - the reason why `extract_eigenvectors` drops the first eigenvector (`sorted_indices[1:K]`). -/
namespace C17
open Finset

variable {α : Type} [Field α] [LinearOrder α] [IsStrictOrderedRing α]

/-- hyperedges as the library stores them (columns of the incidence matrix): no repeated node, node indices below `N`,
not empty -/
structure EdgesOk (c : Cfg α) : Prop where
  nodup : ∀ e, e < c.E → (c.edge e).Nodup
  nodes : ∀ e, e < c.E → ∀ i ∈ c.edge e, i < c.N
  nonempty : ∀ e, e < c.E → c.edge e ≠ []

theorem ofN_cast : ∀ n : Nat, (ofN n : α) = (n : α)
  | 0 => by simp [ofN]
  | n + 1 => by simp [ofN, ofN_cast n]

theorem map_getD_range {β : Type} (l : List β) (d : β) : (List.range l.length).map (fun e => l.getD e d) = l := by
  apply List.ext_getElem
  · simp
  · intro n h1 h2
    rw [List.getElem_map, List.getElem_range, getD_lt _ _ _ h2]

theorem sumR_edges (c : Cfg α) (g : List Nat → α) : sumR c.E (fun e => g (c.edge e)) = (c.edges.map g).sum := by
  unfold sumR Cfg.E Cfg.edge
  have : (List.range c.edges.length).map (fun e => g (c.edges.getD e [])) =
      ((List.range c.edges.length).map (fun e => c.edges.getD e [])).map g := by
    rw [List.map_map]; rfl
  rw [this, map_getD_range]

theorem sum_ind_filter (l : List (List Nat)) (p : List Nat → Bool) :
    (l.map (fun e => if p e then (1 : α) else 0)).sum = ((l.filter p).length : α) := by
  induction l with
  | nil => simp
  | cons a l ih =>
    rw [List.map_cons, List.sum_cons, ih, List.filter_cons]
    by_cases h : p a = true
    · simp only [h, if_true, List.length_cons]; push_cast; ring
    · simp only [h, if_false]; simp

/-- `sum_e H[i, e] = node_degree[i]` -/
theorem sum_hEnt_edges (c : Cfg α) (i : Nat) : sumR c.E (fun e => hEnt c false i e) = (degN c i : α) := by
  have := sumR_edges c (fun e => if e.contains i then (1 : α) else 0)
  unfold degN
  rw [← sum_ind_filter, ← this]
  apply sumR_congr; intro e _
  unfold hEnt; simp

/-- `sum_j H[j, e] = hye_size[e]` -/
theorem sum_hEnt_nodes (c : Cfg α) (hE : EdgesOk c) (e : Nat) (he : e < c.E) :
    sumR c.N (fun j => hEnt c false j e) = ((c.edge e).length : α) := by
  rw [sumR_eq]
  have h1 : ∀ j ∈ range c.N, hEnt c false j e = if j ∈ (c.edge e).toFinset then (1 : α) else 0 := by
    intro j _; unfold hEnt; simp
  rw [Finset.sum_congr rfl h1, Finset.sum_ite, Finset.sum_const_zero, add_zero, Finset.sum_const, nsmul_eq_mul, mul_one]
  congr 1
  rw [← List.toFinset_card_of_nodup (hE.nodup e he)]
  congr 1
  ext j
  simp only [Finset.mem_filter, Finset.mem_range, List.mem_toFinset]
  exact ⟨fun h => h.2, fun h => ⟨hE.nodes e he j h, h⟩⟩

theorem invSize_mul (c : Cfg α) (hE : EdgesOk c) (e : Nat) (he : e < c.E) :
    invSize c e * ((c.edge e).length : α) = 1 := by
  have hl : (c.edge e).length ≠ 0 := by
    intro h; exact hE.nonempty e he (List.eq_nil_of_length_eq_zero h)
  unfold invSize
  rw [if_neg hl, ofN_cast]
  have : ((c.edge e).length : α) ≠ 0 := Nat.cast_ne_zero.mpr hl
  field_simp

/-- row sums of `H De^{-1} H^T` are the node degrees -/
theorem lapM_rowsum (c : Cfg α) (hE : EdgesOk c) (i : Nat) : sumR c.N (fun j => lapM c false i j) = (degN c i : α) := by
  rw [← sum_hEnt_edges c i]
  unfold lapM
  rw [sumR_eq]
  simp_rw [sumR_eq]
  rw [Finset.sum_comm]
  apply Finset.sum_congr rfl
  intro e he
  have he' : e < c.E := by simpa using he
  rw [← Finset.mul_sum, ← sumR_eq, sum_hEnt_nodes c hE e he', mul_assoc, invSize_mul c hE e he', mul_one]

theorem lapM_isolated (c : Cfg α) (i j : Nat) (h0 : degN c j = 0) : lapM c false i j = 0 := by
  unfold lapM
  rw [sumR_eq]
  apply Finset.sum_eq_zero
  intro e he
  have he' : e < c.E := by simpa using he
  have : hEnt c false j e = 0 := by
    unfold hEnt
    have hm := edge_mem c e he'
    unfold degN at h0
    have hf : c.edges.filter (fun e => e.contains j) = [] := List.eq_nil_of_length_eq_zero h0
    rw [List.filter_eq_nil_iff] at hf
    rw [if_neg (hf _ hm)]
  rw [this]; ring

theorem invS_sq (c : Cfg α) (sq : α → α) (hsq : ∀ x, 0 ≤ x → sq x * sq x = x) (j : Nat) :
    invS c sq j * ((degN c j : α) * invS c sq j) = if degN c j = 0 then 0 else 1 := by
  unfold invS
  by_cases h : degN c j = 0
  · simp [h]
  · rw [if_neg h, if_neg h, ofN_cast]
    have hd : (degN c j : α) ≠ 0 := Nat.cast_ne_zero.mpr h
    have hp : (0 : α) ≤ 1 / (degN c j : α) := by positivity
    calc sq (1 / (degN c j : α)) * ((degN c j : α) * sq (1 / (degN c j : α)))
        = (degN c j : α) * (sq (1 / (degN c j : α)) * sq (1 / (degN c j : α))) := by ring
      _ = (degN c j : α) * (1 / (degN c j : α)) := by rw [hsq _ hp]
      _ = 1 := by field_simp

/-- `L @ sqrt(degree) = 0` -/
theorem lap_kernel (c : Cfg α) (hE : EdgesOk c) (sq : α → α) (hsq : ∀ x, 0 ≤ x → sq x * sq x = x) (i : Nat)
    (hi : i < c.N) :
    sumR c.N (fun j => at2 (lap c sq false) i j * ((degN c j : α) * invS c sq j)) = 0 := by
  have h1 : ∀ j, j < c.N → at2 (lap c sq false) i j * ((degN c j : α) * invS c sq j) =
      (if i = j then (degN c j : α) * invS c sq j else 0) - invS c sq i * lapM c false i j := by
    intro j hj
    rw [lap_at c sq false i j hi hj]
    have hk := invS_sq c sq hsq j
    by_cases h0 : degN c j = 0
    · rw [lapM_isolated c i j h0]; simp [h0]
    · rw [if_neg h0] at hk
      calc ((if i = j then 1 else 0) - invS c sq i * lapM c false i j * invS c sq j) * ((degN c j : α) * invS c sq j)
          = (if i = j then 1 else 0) * ((degN c j : α) * invS c sq j)
            - invS c sq i * lapM c false i j * (invS c sq j * ((degN c j : α) * invS c sq j)) := by ring
        _ = _ := by rw [hk]; split <;> ring
  rw [sumR_congr c.N _ _ h1, sumR_eq, Finset.sum_sub_distrib, Finset.sum_ite_eq, ← Finset.mul_sum, ← sumR_eq,
    lapM_rowsum c hE i]
  simp only [Finset.mem_range, hi, if_true]
  ring

end C17
