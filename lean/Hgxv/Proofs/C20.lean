import Hgxv.Model.C20
/-! Helper lemmas for the C20 glue theorems (core Lean only). -/
namespace C20
open AL

section Dict
variable {K κ : Type} [DecidableEq K] [DecidableEq κ]

theorem set_append_of_not_mem (acc : List (κ × Rat)) (k : κ) (v : Rat) (h : k ∉ keys acc) :
    AL.set acc k v = acc ++ [(k, v)] := by
  induction acc with
  | nil => simp [AL.set]
  | cons hd t ih => grind [AL.set, keys]

theorem foldl_set_of_nodup (items acc : List (κ × Rat)) (h : (keys acc ++ keys items).Nodup) :
    items.foldl (fun d p => AL.set d p.1 p.2) acc = acc ++ items := by
  induction items generalizing acc with
  | nil => simp
  | cons p t ih =>
    have hp : p.1 ∉ keys acc := by
      simp only [keys, List.map_cons] at h
      grind [List.nodup_append, keys]
    simp only [List.foldl_cons]
    rw [set_append_of_not_mem acc p.1 p.2 hp, ih]
    · simp
    · simp only [keys, List.map_append, List.map_cons, List.map_nil] at h ⊢
      grind [List.nodup_append, List.nodup_cons]

/-- a dict comprehension over items with pairwise different keys keeps every item, in order -/
theorem dictOf_of_nodup (items : List (κ × Rat)) (h : (keys items).Nodup) : dictOf items = items := by
  have := foldl_set_of_nodup items [] (by simpa [keys] using h)
  simpa [dictOf] using this

theorem get?_zip_range' {β : Type} (l : List β) (a i : Nat) :
    AL.get? ((List.range' a l.length).zip l) (a + i) = l[i]? := by
  induction l generalizing a i with
  | nil => simp [AL.get?]
  | cons x t ih =>
    simp only [List.length_cons, List.range'_succ, List.zip_cons_cons, AL.get?]
    cases i with
    | zero => simp
    | succ j =>
      have : a ≠ a + (j + 1) := by omega
      simp only [this, if_false, List.getElem?_cons_succ]
      have := ih (a + 1) j
      rw [← this]; congr 1; omega

theorem get?_zip_range {β : Type} (l : List β) (i : Nat) :
    AL.get? ((List.range l.length).zip l) i = l[i]? := by
  have := get?_zip_range' l 0 i
  simpa [List.range_eq_range'] using this

/-- looking the items `(key i, c i)`, `i = a, a+1, …`, up in a table that sends `key (a+i)` to `l[i]` -/
theorem lookupItems_range' (tab : List (K × κ)) (key : Nat → K) (c : Nat → Rat) (l : List κ) (a : Nat)
    (h : ∀ i, (hi : i < l.length) → AL.get? tab (key (a + i)) = some l[i]) :
    lookupItems tab ((List.range' a l.length).map fun i => (key i, c i))
      = some ((l.zipIdx a).map fun p => (p.1, c p.2)) := by
  induction l generalizing a with
  | nil => simp [lookupItems]
  | cons x t ih =>
    have h0 := h 0 (by simp)
    have ht : ∀ i, (hi : i < t.length) → AL.get? tab (key (a + 1 + i)) = some t[i] := by
      intro i hi
      have := h (i + 1) (by simp; omega)
      simpa [Nat.add_assoc, Nat.add_comm 1 i] using this
    have := ih (a + 1) ht
    simp only [lookupItems] at this ⊢
    simp only [List.length_cons, List.range'_succ, List.map_cons, List.mapM_cons, List.zipIdx_cons]
    simp only [Nat.add_zero] at h0
    simp [h0, this]

theorem keys_zipIdx_map {β : Type} (l : List κ) (a : Nat) (c : Nat → β) :
    ((l.zipIdx a).map fun p => (p.1, c p.2)).map (·.1) = l := by
  induction l generalizing a with
  | nil => simp
  | cons x t ih => simp [List.zipIdx_cons, ih]

end Dict
/-! ### vertex names of the bipartite projection -/
theorem toString_digits (i : Nat) : ∀ c ∈ (toString i).toList, c.isDigit = true := by
  intro c hc
  simp only [Nat.toString_eq_repr, Nat.toList_repr] at hc
  exact Nat.isDigit_of_mem_toDigits (by decide) (by decide) hc

theorem toString_inj {i j : Nat} (h : toString i = toString j) : i = j := by
  have h2 : (toString i).toList = (toString j).toList := by rw [h]
  simp only [Nat.toString_eq_repr, Nat.toList_repr] at h2
  have := congrArg (fun l => Nat.ofDigitChars 10 l 0) h2
  simpa using this

theorem E_not_digit : ('E' : Char).isDigit = false := by decide

theorem isNodeName_nameN (i : Nat) : isNodeName (nameN i) = true := by
  simp only [isNodeName, nameN, String.toList_append, Bool.not_eq_true', List.contains_eq_mem, decide_eq_false_iff_not, List.mem_append, not_or]
  constructor
  · decide
  · intro h
    have := toString_digits i _ h
    simp [E_not_digit] at this

theorem isNodeName_nameE (j : Nat) : isNodeName (nameE j) = false := by
  simp [isNodeName, nameE, String.toList_append]

theorem nameN_inj {i j : Nat} (h : nameN i = nameN j) : i = j := by
  apply toString_inj
  have h2 : (nameN i).toList = (nameN j).toList := by rw [h]
  simp only [nameN, String.toList_append, List.append_cancel_left_eq] at h2
  exact String.toList_inj.mp h2

theorem nameE_inj {i j : Nat} (h : nameE i = nameE j) : i = j := by
  apply toString_inj
  have h2 : (nameE i).toList = (nameE j).toList := by rw [h]
  simp only [nameE, String.toList_append, List.append_cancel_left_eq] at h2
  exact String.toList_inj.mp h2

theorem nameN_ne_nameE (i j : Nat) : nameN i ≠ nameE j := by
  intro h
  have h1 := isNodeName_nameN i
  rw [h, isNodeName_nameE] at h1
  exact Bool.noConfusion h1

/-! ### each hyperedge / node exactly once -/
section Once
variable {α : Type} [DecidableEq α]

theorem get?_append_of_some {K κ : Type} [DecidableEq K] (A B : List (K × κ)) (k : K) (v : κ)
    (h : AL.get? A k = some v) : AL.get? (A ++ B) k = some v := by
  induction A with
  | nil => simp [AL.get?] at h
  | cons hd t ih => grind [AL.get?]

theorem get?_map_inj {K K' κ κ' : Type} [DecidableEq K] [DecidableEq K'] (f : K → K') (g : κ → κ')
    (hf : ∀ a b, f a = f b → a = b) (L : List (K × κ)) (k : K) :
    AL.get? (L.map fun p => (f p.1, g p.2)) (f k) = (AL.get? L k).map g := by
  induction L with
  | nil => simp [AL.get?]
  | cons hd t ih =>
    simp only [List.map_cons, AL.get?]
    by_cases h : hd.1 = k
    · simp [h]
    · have : f hd.1 ≠ f k := fun e => h (hf _ _ e)
      simp [h, this, ih]

/-- the value of `s_betweenness` / `s_closeness`: hyperedge number `i` (key `srt e_i`) gets `cent (lineGraph) i` -/
def edgeItems (cent : Graph Nat → Nat → Rat) (srt : List α → List α) (H : HG α) (s : Nat) : List (List α × Rat) :=
  ((H.edges.map srt).zipIdx).map fun p => (p.1, cent (lineGraph srt H s) p.2)

theorem sEdgesItems_eq (cent : Graph Nat → Nat → Rat) (srt : List α → List α) (H : HG α) (s : Nat) :
    sEdgesItems cent srt H s = some (edgeItems cent srt H s) := by
  have h := lookupItems_range' (idTable srt H.edges) id (cent (lineGraph srt H s)) (H.edges.map srt) 0
    (by
      intro i hi
      have := get?_zip_range (H.edges.map srt) i
      simp only [List.length_map] at this
      simp only [idTable, Nat.zero_add, id]
      rw [this]; simp [List.getElem?_eq_getElem hi])
  simp only [List.length_map, id] at h
  simpa [sEdgesItems, centDict, lineGraph, edgeItems, List.range_eq_range'] using h

theorem keys_edgeItems (cent : Graph Nat → Nat → Rat) (srt : List α → List α) (H : HG α) (s : Nat) :
    keys (edgeItems cent srt H s) = H.edges.map srt := by
  simpa [keys, edgeItems] using keys_zipIdx_map (H.edges.map srt) 0 (cent (lineGraph srt H s))

/-- the value of `s_betweenness_nodes` / `s_closeness_nodes`: node number `i` gets `cent (bipGraph) "N<i>"` -/
def nodeItems (cent : Graph String → String → Rat) (srt : List α → List α) (H : HG α) : List (Obj α × Rat) :=
  ((H.nodes.map Sum.inl).zipIdx).map fun p => (p.1, cent (bipGraph srt H) (nameN p.2))

theorem filter_names {β : Type} (A B : List Nat) (c : String → β) :
    (((A.map nameN ++ B.map nameE).map fun v => (v, c v)).filter fun p => isNodeName p.1)
      = A.map fun i => (nameN i, c (nameN i)) := by
  simp only [List.map_append, List.filter_append, List.map_map]
  have h1 : (A.map ((fun v => (v, c v)) ∘ nameN)).filter (fun p => isNodeName p.1)
      = A.map ((fun v => (v, c v)) ∘ nameN) := by
    apply List.filter_eq_self.mpr
    intro p hp
    simp only [List.mem_map, Function.comp] at hp
    obtain ⟨i, _, rfl⟩ := hp
    exact isNodeName_nameN i
  have h2 : (B.map ((fun v => (v, c v)) ∘ nameE)).filter (fun p => isNodeName p.1) = [] := by
    apply List.filter_eq_nil_iff.mpr
    intro p hp
    simp only [List.mem_map, Function.comp] at hp
    obtain ⟨j, _, rfl⟩ := hp
    simp [isNodeName_nameE]
  rw [h1, h2]; simp [Function.comp]

theorem get?_bipTable_node (srt : List α → List α) (H : HG α) (i : Nat) (hi : i < H.nodes.length) :
    AL.get? (bipTable srt H) (nameN i) = some (Sum.inl H.nodes[i]) := by
  apply get?_append_of_some
  rw [get?_map_inj nameN Sum.inl (fun a b => nameN_inj), get?_zip_range]
  simp [List.getElem?_eq_getElem hi]

theorem sNodesItems_eq (cent : Graph String → String → Rat) (srt : List α → List α) (H : HG α) :
    sNodesItems cent srt H = some (nodeItems cent srt H) := by
  have h := lookupItems_range' (bipTable srt H) nameN (fun i => cent (bipGraph srt H) (nameN i))
    (H.nodes.map Sum.inl) 0
    (by
      intro i hi
      simp only [List.length_map] at hi
      simp only [Nat.zero_add]
      rw [get?_bipTable_node srt H i hi]; simp)
  simp only [List.length_map] at h
  simp only [sNodesItems, centDict, nodeItems]
  rw [show (bipGraph srt H).verts = (List.range H.nodes.length).map nameN ++ (List.range H.edges.length).map nameE from rfl,
    filter_names]
  simpa [List.range_eq_range'] using h

theorem keys_nodeItems (cent : Graph String → String → Rat) (srt : List α → List α) (H : HG α) :
    keys (nodeItems cent srt H) = H.nodes.map Sum.inl := by
  simpa [keys, nodeItems] using keys_zipIdx_map (H.nodes.map Sum.inl) 0 (fun i => cent (bipGraph srt H) (nameN i))

end Once
/-! ### accumulation over the snapshots -/
section Averaged
variable {κ : Type} [DecidableEq κ]

theorem mem_keys_iff_get? (l : List (κ × Rat)) (k : κ) : k ∈ keys l ↔ (AL.get? l k).isSome = true := by
  have := AL.get?_eq_none_iff l k
  cases h : AL.get? l k <;> simp_all

theorem keys_set_nodup (l : List (κ × Rat)) (k : κ) (v : Rat) (h : (keys l).Nodup) : (keys (AL.set l k v)).Nodup := by
  cases hk : AL.get? l k with
  | none =>
    rw [AL.keys_set_of_not_mem l k v hk]
    have := (AL.get?_eq_none_iff l k).mp hk
    grind [List.nodup_append]
  | some w => rw [AL.keys_set_of_mem l k v (by simp [hk])]; exact h

theorem keys_accumulate_nodup (res items : List (κ × Rat)) (h : (keys res).Nodup) :
    (keys (accumulate res items)).Nodup := by
  induction items generalizing res with
  | nil => simpa [accumulate] using h
  | cons p t ih =>
    simp only [accumulate, List.foldl_cons]
    exact ih _ (keys_set_nodup res p.1 _ h)

theorem get?_accumulate (res items : List (κ × Rat)) (k : κ) (h : (keys items).Nodup) :
    AL.get? (accumulate res items) k =
      if k ∈ keys items then some ((AL.get? res k).getD 0 + (AL.get? items k).getD 0) else AL.get? res k := by
  induction items generalizing res with
  | nil => simp [accumulate, keys]
  | cons p t ih =>
    have hp : p.1 ∉ keys t := by simp only [keys, List.map_cons, List.nodup_cons] at h; exact h.1
    have ht : (keys t).Nodup := by simp only [keys, List.map_cons, List.nodup_cons] at h; exact h.2
    have := ih (AL.set res p.1 ((AL.get? res p.1).getD 0 + p.2)) ht
    simp only [accumulate, List.foldl_cons] at this ⊢
    rw [this]
    have hnone : k = p.1 → AL.get? t k = none := by
      intro e; subst e; exact (AL.get?_eq_none_iff t _).mpr hp
    by_cases hk : p.1 = k
    · subst hk
      have hm : p.1 ∈ keys (p :: t) := by simp [keys]
      rw [if_neg hp, AL.get?_set_self, if_pos hm]
      simp [AL.get?]
    · have hk' : ¬ k = p.1 := fun e => hk e.symm
      simp only [keys, List.map_cons, List.mem_cons, AL.get?, AL.get?_set, hk, hk', if_false, false_or]

/-- sum over the snapshots of the value of `k`, absent keys contributing 0 -/
def total (lists : List (List (κ × Rat))) (k : κ) : Rat := (lists.map fun l => (AL.get? l k).getD 0).sum

theorem get?_foldl_accumulate (lists : List (List (κ × Rat))) (acc : List (κ × Rat)) (k : κ)
    (h : ∀ l ∈ lists, (keys l).Nodup) :
    AL.get? (lists.foldl accumulate acc) k =
      if k ∈ keys acc ∨ ∃ l ∈ lists, k ∈ keys l then some ((AL.get? acc k).getD 0 + total lists k) else none := by
  induction lists generalizing acc with
  | nil =>
    simp only [List.foldl_nil, total, List.map_nil, List.sum_nil, List.not_mem_nil, false_and, exists_false, or_false]
    cases hk : AL.get? acc k with
    | none => have := (AL.get?_eq_none_iff acc k).mp hk; simp [this]
    | some v =>
      have : k ∈ keys acc := by
        apply Decidable.byContradiction; intro hn
        have := (AL.get?_eq_none_iff acc k).mpr hn; simp [hk] at this
      simp [this, Rat.add_zero]
  | cons l t ih =>
    have hl := h l (by simp)
    have := ih (accumulate acc l) (fun l' hl' => h l' (by simp [hl']))
    simp only [List.foldl_cons]
    rw [this, get?_accumulate acc l k hl]
    have hkeys : k ∈ keys (accumulate acc l) ↔ k ∈ keys acc ∨ k ∈ keys l := by
      rw [mem_keys_iff_get?, get?_accumulate acc l k hl, mem_keys_iff_get? acc]
      by_cases hk : k ∈ keys l <;> simp [hk]
    simp only [hkeys, total, List.map_cons, List.sum_cons, List.mem_cons, exists_eq_or_imp]
    by_cases hk : k ∈ keys l
    · simp only [hk, or_true, true_or, if_true, Option.getD_some]
      congr 1; grind
    · have hn : AL.get? l k = none := (AL.get?_eq_none_iff l k).mpr hk
      simp only [hk, or_false, false_or, if_false, hn, Option.getD_none]
      split
      · congr 1; grind
      · rfl

theorem keys_foldl_accumulate_nodup (lists : List (List (κ × Rat))) (acc : List (κ × Rat)) (h : (keys acc).Nodup) :
    (keys (lists.foldl accumulate acc)).Nodup := by
  induction lists generalizing acc with
  | nil => simpa using h
  | cons l t ih => simp only [List.foldl_cons]; exact ih _ (keys_accumulate_nodup acc l h)

theorem get?_map_div (res : List (κ × Rat)) (T : Rat) (k : κ) :
    AL.get? (res.map fun p => (p.1, p.2 / T)) k = (AL.get? res k).map (· / T) := by
  induction res with
  | nil => simp [AL.get?]
  | cons hd t ih => simp only [List.map_cons, AL.get?]; split <;> simp [ih]

theorem keys_map_div (res : List (κ × Rat)) (T : Rat) : keys (res.map fun p => (p.1, p.2 / T)) = keys res := by
  simp [keys]

end Averaged
/-! ### snapshots -/
section Snap
variable {α : Type} [DecidableEq α]

theorem foldl_addNew_nodup {β : Type} [DecidableEq β] (l acc : List β) (h : acc.Nodup) : (l.foldl addNew acc).Nodup := by
  induction l generalizing acc with
  | nil => simpa using h
  | cons x t ih =>
    simp only [List.foldl_cons]
    apply ih
    unfold addNew
    split
    · exact h
    · grind [List.nodup_append]

theorem nodesOf_nodup (es : List (List α)) : (nodesOf es).Nodup := foldl_addNew_nodup _ _ List.nodup_nil

theorem nodup_map_snd_of_fst_const {β : Type} (t : Nat) (l : List (Nat × β)) (h : l.Nodup) (hc : ∀ p ∈ l, p.1 = t) :
    (l.map (·.2)).Nodup := by
  induction l with
  | nil => simp
  | cons p r ih =>
    simp only [List.nodup_cons, List.map_cons, List.mem_map] at h ⊢
    refine ⟨?_, ih h.2 (fun q hq => hc q (by simp [hq]))⟩
    rintro ⟨q, hq, e⟩
    have h1 := hc p (by simp)
    have h2 := hc q (by simp [hq])
    have : q = p := by cases p; cases q; simp_all
    exact h.1 (this ▸ hq)

theorem snapshot_edges (srt : List α → List α) (T : THG α) (t : Nat) (hcanon : ∀ p ∈ T.edges, srt p.2 = p.2) :
    (snapshot srt T t).edges = (T.edges.filter fun p => p.1 = t).map (·.2) := by
  simp only [snapshot]
  apply List.map_congr_left
  intro p hp
  exact hcanon p (List.mem_filter.mp hp).1

theorem snapshot_edges_nodup (srt : List α → List α) (T : THG α) (t : Nat) (hT : T.edges.Nodup)
    (hcanon : ∀ p ∈ T.edges, srt p.2 = p.2) : ((snapshot srt T t).edges.map srt).Nodup := by
  have he := snapshot_edges srt T t hcanon
  have h2 : (snapshot srt T t).edges.map srt = (snapshot srt T t).edges := by
    rw [he, List.map_map]
    apply List.map_congr_left
    intro p hp
    exact hcanon p (List.mem_filter.mp hp).1
  rw [h2, he]
  apply nodup_map_snd_of_fst_const t
  · exact hT.filter _
  · intro p hp; simpa using (List.mem_filter.mp hp).2

theorem snapshot_nodes_nodup (srt : List α → List α) (T : THG α) (t : Nat) : (snapshot srt T t).nodes.Nodup :=
  nodesOf_nodup _

theorem nodup_map_inl (l : List α) : (l.map (Sum.inl : α → Obj α)).Nodup ↔ l.Nodup := by
  simp [List.Nodup, List.pairwise_map]

theorem mapM_eq_some_map {β γ : Type} (f : β → Option γ) (g : β → γ) (l : List β) (h : ∀ x ∈ l, f x = some (g x)) :
    l.mapM f = some (l.map g) := by
  induction l with
  | nil => simp
  | cons x t ih =>
    simp [List.mapM_cons, h x (by simp), ih (fun y hy => h y (by simp [hy]))]

theorem get?_zipIdx_map {κ : Type} [DecidableEq κ] (l : List κ) (a : Nat) (c : Nat → Rat) (h : l.Nodup) (i : Nat) (hi : i < l.length) :
    AL.get? ((l.zipIdx a).map fun p => (p.1, c p.2)) l[i] = some (c (a + i)) := by
  induction l generalizing a i with
  | nil => simp at hi
  | cons x t ih =>
    simp only [List.zipIdx_cons, List.map_cons, AL.get?]
    cases i with
    | zero => simp
    | succ j =>
      simp only [List.getElem_cons_succ]
      have hx : x ≠ t[j]'(by simpa using hi) := by
        intro e
        have : x ∈ t := e ▸ List.getElem_mem _
        exact (List.nodup_cons.mp h).1 this
      simp only [hx, if_false]
      rw [ih (a + 1) (List.nodup_cons.mp h).2 j]
      congr 2; omega
end Snap
/-! ### relabelling -/
section Relabel
variable {α β : Type} [DecidableEq α] [DecidableEq β]

theorem inter_perm_left {a a' : List α} (b : List α) (h : a.Perm a') : inter a b = inter a' b := by
  simp only [inter]; exact (h.filter _).length_eq

theorem inter_perm_right (a : List α) {b b' : List α} (h : b.Perm b') : inter a b = inter a b' := by
  simp only [inter]
  congr 1
  apply List.filter_congr
  intro x _
  simp [h.mem_iff]

theorem mem_map_inj {f : α → β} (hf : Function.Injective f) (x : α) (b : List α) : f x ∈ b.map f ↔ x ∈ b := by
  constructor
  · intro h
    obtain ⟨y, hy, e⟩ := List.mem_map.mp h
    exact hf e ▸ hy
  · exact List.mem_map_of_mem

theorem inter_map {f : α → β} (hf : Function.Injective f) (a b : List α) : inter (a.map f) (b.map f) = inter a b := by
  simp only [inter, List.filter_map, List.length_map]
  congr 1
  apply List.filter_congr
  intro x _
  have := mem_map_inj hf x b
  simp only [Function.comp, this]

/-- relabelled key: `tuple(sorted(f(x) for x in e))` -/
def relKey (f : α → β) (srt' : List β → List β) (e : List α) : List β := srt' (e.map f)

theorem inter_relKey {f : α → β} (hf : Function.Injective f) (srt' : List β → List β) (hs' : ∀ l, (srt' l).Perm l)
    (a b : List α) : inter (relKey f srt' a) (relKey f srt' b) = inter a b := by
  simp only [relKey]
  rw [inter_perm_left _ (hs' _), inter_perm_right _ (hs' _), inter_map hf]

theorem lineEdges_map (s : Nat) (g : List α → List β) (tab : List (Nat × List α))
    (h : ∀ p ∈ tab, ∀ q ∈ tab, inter (g p.2) (g q.2) = inter p.2 q.2) :
    lineEdges s (tab.map fun p => (p.1, g p.2)) = lineEdges s tab := by
  induction tab with
  | nil => simp [lineEdges]
  | cons p t ih =>
    simp only [List.map_cons, lineEdges]
    rw [ih (fun a ha b hb => h a (by simp [ha]) b (by simp [hb]))]
    congr 1
    rw [List.filter_map, List.map_map]
    have : (t.filter ((fun q : Nat × List β => linked s (g p.2) q.2) ∘ fun p => (p.1, g p.2)))
        = t.filter (fun q => linked s p.2 q.2) := by
      apply List.filter_congr
      intro q hq
      simp only [Function.comp, linked]
      rw [h p (by simp) q (by simp [hq])]
    rw [this]
    simp [Function.comp]

theorem idxOf_map_inj {f : α → β} (hf : Function.Injective f) (x : α) (l : List α) :
    (l.map f).idxOf (f x) = l.idxOf x := by
  induction l with
  | nil => simp
  | cons y t ih =>
    simp only [List.map_cons, List.idxOf_cons]
    by_cases h : y = x
    · simp [h]
    · have h1 : (f y == f x) = false := by simpa using fun e => h (hf e)
      have h2 : (y == x) = false := by simpa using h
      simp [h1, h2, ih]

theorem perm_flatMap_congr {γ δ : Type} (l : List γ) (f g : γ → List δ) (h : ∀ a ∈ l, (f a).Perm (g a)) :
    (l.flatMap f).Perm (l.flatMap g) := by
  induction l with
  | nil => simp
  | cons a t ih =>
    simp only [List.flatMap_cons]
    exact (h a (by simp)).append (ih fun b hb => h b (by simp [hb]))

/-- hypotheses on the two `sorted`: a permutation of the argument; the stored keys are sorted -/
structure RelabelHyp (f : α → β) (srt : List α → List α) (srt' : List β → List β) (H : HG α) : Prop where
  inj : Function.Injective f
  perm : ∀ l, (srt l).Perm l
  perm' : ∀ l, (srt' l).Perm l
  idem' : ∀ l, srt' (srt' l) = srt' l
  canon : ∀ e ∈ H.edges, srt e = e

variable {f : α → β} {srt : List α → List α} {srt' : List β → List β} {H : HG α}

theorem map_srt_canon (h : RelabelHyp f srt srt' H) : List.map srt H.edges = H.edges := by
  conv => rhs; rw [← List.map_id H.edges]
  apply List.map_congr_left; intro e he; simp [h.canon e he]

theorem map_srt'_relKey (h : RelabelHyp f srt srt' H) :
    (H.relabel f (relKey f srt')).edges.map srt' = H.edges.map (relKey f srt') := by
  simp only [HG.relabel, List.map_map]
  apply List.map_congr_left; intro e _; simp [relKey, h.idem']

theorem idTable_relabel (h : RelabelHyp f srt srt' H) :
    idTable srt' (H.relabel f (relKey f srt')).edges
      = (idTable srt H.edges).map fun p => (p.1, relKey f srt' p.2) := by
  simp only [idTable]
  rw [map_srt'_relKey h, map_srt_canon h, List.zip_map_right]
  simp only [HG.relabel, List.length_map]
  apply List.map_congr_left; intro p _; rfl

theorem lineGraph_relabel (h : RelabelHyp f srt srt' H) (s : Nat) :
    lineGraph srt' (H.relabel f (relKey f srt')) s = lineGraph srt H s := by
  simp only [lineGraph]
  rw [idTable_relabel h, lineEdges_map s (relKey f srt') _ (fun p _ q _ => inter_relKey h.inj srt' h.perm' p.2 q.2)]
  simp [HG.relabel]

theorem edgeItems_relabel (h : RelabelHyp f srt srt' H) (cent : Graph Nat → Nat → Rat) (s : Nat) :
    edgeItems cent srt' (H.relabel f (relKey f srt')) s
      = (edgeItems cent srt H s).map fun p => (relKey f srt' p.1, p.2) := by
  simp only [edgeItems]
  rw [lineGraph_relabel h, map_srt'_relKey h, map_srt_canon h, List.zipIdx_map, List.map_map, List.map_map]
  apply List.map_congr_left; intro p _; rfl

/-! bipartite projection -/
theorem bipGraph_relabel_verts (srt : List α → List α) (srt' : List β → List β) (g : List α → List β) (H : HG α) :
    (bipGraph srt' (H.relabel f g)).verts = (bipGraph srt H).verts := by
  simp [bipGraph, HG.relabel]

theorem bipGraph_relabel_edges (h : RelabelHyp f srt srt' H) :
    (bipGraph srt' (H.relabel f (relKey f srt'))).edges.Perm (bipGraph srt H).edges := by
  simp only [bipGraph, bipEdges, HG.relabel, List.length_map]
  rw [List.zip_map_right, List.flatMap_map]
  apply perm_flatMap_congr
  intro p hp
  have hp2 : p.2 ∈ H.edges := (List.of_mem_zip hp).2
  simp only [Prod.map, id]
  have e1 : srt' (relKey f srt' p.2) = srt' (p.2.map f) := by simp [relKey, h.idem']
  rw [e1, h.canon p.2 hp2]
  refine ((h.perm' _).map _).trans ?_
  rw [List.map_map]
  apply List.Perm.of_eq
  apply List.map_congr_left
  intro x _
  simp [Function.comp, idxOf_map_inj h.inj]

theorem nodeItems_relabel (h : RelabelHyp f srt srt' H) (cent : Graph String → String → Rat)
    (hcent : ∀ g g' : Graph String, g.verts = g'.verts → g.edges.Perm g'.edges → cent g = cent g') :
    nodeItems cent srt' (H.relabel f (relKey f srt'))
      = (nodeItems cent srt H).map fun p => (Sum.map f (relKey f srt') p.1, p.2) := by
  simp only [nodeItems]
  rw [hcent _ _ (bipGraph_relabel_verts srt srt' _ H) (bipGraph_relabel_edges h)]
  simp only [HG.relabel, List.map_map]
  rw [show (Sum.inl ∘ f : α → Obj β) = (Sum.map f (relKey f srt')) ∘ Sum.inl from rfl, ← List.map_map, List.zipIdx_map,
    List.map_map]
  apply List.map_congr_left; intro p _; rfl
end Relabel
end C20
