import Hgxv.Proofs.C05Spec
/-! `WF` is an invariant of every history of public mutators; slots of the state array are independent
(core Lean only). -/
namespace C05AL
open AL
variable {α β : Type} [DecidableEq α]

theorem mem_set (l : List (α × β)) (k : α) (v : β) (e : α × β) (h : e ∈ AL.set l k v) : e = (k, v) ∨ e ∈ l := by
  induction l with
  | nil => simp [AL.set] at h; exact .inl h
  | cons hd t ih => grind [AL.set]

end C05AL

namespace C05
variable {κ : Type} [DecidableEq κ] [Keyed κ]
set_option linter.unusedSectionVars false

theorem wf_empty (w : Bool) : WF (empty w : Content κ) :=
  ⟨by simp [nodesOf, empty, AL.keys], by simp [keysOf, empty, AL.keys],
   by intro k hk; simp [keysOf, empty, AL.keys] at hk, by intro _ e he; simp [empty] at he⟩

theorem subset_keys_addNodeL (l : List (Node × Meta)) (n : Node) (md : Meta) (m : Node) (h : m ∈ AL.keys l) :
    m ∈ AL.keys (addNodeL l n md) := by
  rw [keys_addNodeL]; split
  · exact h
  · exact List.mem_append_left _ h

theorem nodup_keys_addNodeL (l : List (Node × Meta)) (n : Node) (md : Meta) (h : (AL.keys l).Nodup) :
    (AL.keys (addNodeL l n md)).Nodup := by
  rw [keys_addNodeL]; split
  · exact h
  · next hn =>
    rw [List.nodup_append]
    refine ⟨h, by simp, ?_⟩
    intro a ha b hb
    simp only [List.mem_singleton] at hb
    subst hb
    intro e; subst e; exact hn ha

theorem wf_addNode (c : Content κ) (n : Node) (md : Meta) (h : WF c) : WF (addNode c n md) :=
  ⟨nodup_keys_addNodeL _ _ _ h.nodes_nodup, h.keys_nodup,
   fun k hk m hm => subset_keys_addNodeL _ _ _ _ (h.members_in k hk m hm), h.unit⟩

/-- replacing the value of a present key keeps `WF` as long as an unweighted object keeps weight `1` -/
theorem wf_setEdge (c : Content κ) (k : κ) (v : W × Meta) (h : WF c) (hk : k ∈ keysOf c)
    (hu : c.weighted = false → v.1 = unitW) : WF { c with edges := AL.set c.edges k v } := by
  have hkeys : AL.keys (AL.set c.edges k v) = AL.keys c.edges :=
    AL.keys_set_of_mem _ _ _ ((C05AL.mem_keys_iff _ _).1 hk)
  refine ⟨h.nodes_nodup, ?_, ?_, ?_⟩
  · simp only [keysOf, hkeys]; exact h.keys_nodup
  · intro k' hk'; simp only [keysOf, hkeys] at hk'; exact h.members_in k' hk'
  · intro hw e he
    rcases C05AL.mem_set _ _ _ _ he with h1 | h1
    · subst h1; exact hu hw
    · exact h.unit hw e h1

theorem wf_setNode (c : Content κ) (n : Node) (md : Meta) (h : WF c) (hn : n ∈ nodesOf c) :
    WF { c with nodes := AL.set c.nodes n md } := by
  have hkeys : AL.keys (AL.set c.nodes n md) = AL.keys c.nodes :=
    AL.keys_set_of_mem _ _ _ ((C05AL.mem_keys_iff _ _).1 hn)
  refine ⟨?_, h.keys_nodup, ?_, h.unit⟩
  · simp only [nodesOf, hkeys]; exact h.nodes_nodup
  · intro k hk m hm; simp only [nodesOf, hkeys]; exact h.members_in k hk m hm

theorem wf_addEdgeCore (c : Content κ) (k : κ) (w : W) (md : Meta) (h : WF c) : WF (addEdgeCore c k w md) := by
  unfold addEdgeCore
  cases hg : AL.get? c.edges k with
  | none =>
    have hk : k ∉ AL.keys c.edges := (AL.get?_eq_none_iff _ _).1 hg
    simp only [addEdgeNew, touchAll]
    refine ⟨nodup_keys_touchL _ _ h.nodes_nodup, ?_, ?_, ?_⟩
    · simp only [keysOf, C05AL.keys_append, List.nodup_append]
      refine ⟨h.keys_nodup, by simp [AL.keys], ?_⟩
      intro a ha b hb
      simp only [AL.keys, List.map_cons, List.map_nil, List.mem_singleton] at hb
      subst hb; intro e; subst e; exact hk ha
    · intro k' hk' m hm
      simp only [nodesOf, mem_keys_touchL]
      simp only [keysOf, C05AL.keys_append, List.mem_append] at hk'
      rcases hk' with h1 | h1
      · exact .inl (h.members_in k' h1 m hm)
      · simp only [AL.keys, List.map_cons, List.map_nil, List.mem_singleton] at h1
        subst h1; exact .inr hm
    · intro hw e he
      simp only [List.mem_append, List.mem_singleton] at he
      rcases he with h1 | h1
      · exact h.unit hw e h1
      · subst h1; simp only at hw; simp [hw]
  | some v =>
    simp only [addEdgeOld]
    apply wf_setEdge c k _ h ((C05AL.mem_keys_iff _ _).2 (by simp [hg]))
    intro hw
    simp only [hw, Bool.false_eq_true, ↓reduceIte]
    exact h.unit hw (k, v) (C05AL.mem_of_get? _ _ _ hg)

/-- `WF` speaks of the weighted flag, the nodes and the hyperedges only -/
theorem wf_aux (c c' : Content κ) (h : WF c) (hw : c'.weighted = c.weighted) (hn : c'.nodes = c.nodes)
    (he : c'.edges = c.edges) : WF c' := by
  refine ⟨?_, ?_, ?_, ?_⟩
  · simp only [nodesOf, hn]; exact h.nodes_nodup
  · simp only [keysOf, he]; exact h.keys_nodup
  · intro k hk m hm
    simp only [keysOf, he] at hk
    simp only [nodesOf, hn]
    exact h.members_in k hk m hm
  · intro hw' e hee
    rw [hw] at hw'; rw [he] at hee
    exact h.unit hw' e hee

/-! ## the state array -/

theorem get?_mutateSlot (sl : Slots κ) (i j : Nat) (op : Op κ) :
    AL.get? (mutateSlot sl i op) j = if i = j then (AL.get? sl i).map (fun c => step c op) else AL.get? sl j := by
  unfold mutateSlot
  cases h : AL.get? sl i with
  | none =>
    by_cases e : i = j
    · subst e; simp [h]
    · simp [e]
  | some c => simp only [AL.get?_set, Option.map_some]

theorem get?_extractInto_ne (sl : Slots κ) (i j m : Nat) (f : Content κ → Option (Content κ)) (h : j ≠ m) :
    AL.get? (extractInto sl i j f) m = AL.get? sl m := by
  unfold extractInto
  cases hi : AL.get? sl i with
  | none => rfl
  | some c =>
    simp only
    cases hf : f c with
    | none => rfl
    | some r => exact AL.get?_set_ne _ _ _ _ h

theorem get?_extractInto_self (sl : Slots κ) (i j : Nat) (f : Content κ → Option (Content κ)) (c r : Content κ)
    (hc : AL.get? sl i = some c) (hr : f c = some r) : AL.get? (extractInto sl i j f) j = some r := by
  simp [extractInto, hc, hr]

theorem get?_runSlots (ops : List (Nat × Op κ)) (sl : Slots κ) (i : Nat) :
    AL.get? (runSlots sl ops) i = (AL.get? sl i).map (fun c => run c (opsFor i ops)) := by
  induction ops generalizing sl with
  | nil => simp [runSlots, opsFor, run]
  | cons t ops ih =>
    have : runSlots sl (t :: ops) = runSlots (mutateSlot sl t.1 t.2) ops := rfl
    rw [this, ih, get?_mutateSlot]
    by_cases e : t.1 = i
    · subst e
      cases AL.get? sl t.1 <;> simp [opsFor, run]
    · simp [e, opsFor]

end C05
