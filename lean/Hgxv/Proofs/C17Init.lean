import Hgxv.Proofs.C17Inv
set_option linter.unusedSectionVars false
set_option linter.unusedVariables false
/-! The state after `_initialize_psiOmega` + `_initial_update_u_psi` satisfies the invariant. -/
namespace C17
variable {α : Type} [Field α] [LinearOrder α] [IsStrictOrderedRing α]

theorem binom_one : ∀ n : Nat, binom n 1 = n
  | 0 => rfl
  | n + 1 => by simp [binom, binom_one n]

theorem npow_zero_succ (n : Nat) : npow (0 : α) (n + 1) = 0 := by simp [npow]

theorem getD_lt {β : Type} (l : List β) (k : Nat) (a : β) (h : k < l.length) : l.getD k a = l[k] := by
  simp [List.getD, h]
theorem getD_ge {β : Type} (l : List β) (k : Nat) (a : β) (h : l.length ≤ k) : l.getD k a = a := by
  simp [List.getD, h]

theorem at1_nonneg (l : List α) (h : ∀ x ∈ l, 0 ≤ x) (k : Nat) : 0 ≤ at1 l k := by
  unfold at1
  by_cases hk : k < l.length
  · rw [getD_lt _ _ _ hk]; exact h _ (List.getElem_mem hk)
  · rw [getD_ge _ _ _ (by omega)]

theorem dummyRow_nonneg (uk : List α) (h : ∀ x ∈ uk, 0 ≤ x) : ∀ x ∈ dummyRow uk, 0 ≤ x := by
  unfold dummyRow
  simp only
  split
  · intro x hx
    simp only [List.mem_map] at hx
    obtain ⟨y, hy, rfl⟩ := hx
    exact div_nonneg (h y hy) (le_of_lt ‹_›)
  · exact h

theorem tab_const (n : Nat) (a : α) : tab n (fun _ => a) = List.replicate n a := by
  unfold tab; simp

/-- `_initialize_psiOmega`: the closed form is the table of the matrix with `N` equal rows -/
theorem psiInit_spec (c : Cfg α) (x : List α) (d k : Nat) (hd : d < c.D) (hk : k < c.K) :
    at2 (psiInit c x) d k = esymm (d + 1) (col c.N (tab2 c.N c.K (fun _ k => at1 x k)) k) := by
  have hcol : col c.N (tab2 c.N c.K (fun _ k => at1 x k)) k = List.replicate c.N (at1 x k) := by
    rw [← tab_const]; unfold col; apply tab_congr; intro j hj; exact at2_tab2 _ _ _ _ _ hj hk
  rw [hcol, esymm_replicate]
  unfold psiInit
  rw [at2_tab2 _ _ _ _ _ hd hk]
  cases d with
  | zero => simp [npow, binom_one]; ring
  | succ d' =>
    simp only
    by_cases h0 : at1 x k = 0
    · rw [h0, npow_zero_succ]; simp
    · have : (decide (0 < at1 x k) || decide (at1 x k < 0)) = true := by
        rcases lt_or_gt_of_ne h0 with h | h <;> simp [h]
      rw [this]; simp

theorem at2_mapmap (g : α → α) (hg : g 0 = 0) (m : Mat α) (d k : Nat) :
    at2 (m.map (fun r => r.map g)) d k = g (at2 m d k) := by
  unfold at2
  simp only [List.getD_eq_getElem?_getD, List.getElem?_map]
  cases m[d]? with
  | none => simp [hg]
  | some r =>
    simp only [Option.map_some, Option.getD_some, List.getElem?_map]
    cases r[k]? with
    | none => simp [hg]
    | some x => simp

theorem at2_psiRepairAbs (c : Cfg α) (m : Mat α) (d k : Nat) (h : 0 ≤ at2 m d k) :
    at2 (psiRepairAbs c m) d k = at2 m d k := by
  unfold psiRepairAbs
  rw [at2_mapmap _ (by simp [isNeg]) m d k]
  simp [isNeg, not_lt.mpr h]

theorem initRow_thr (c : Cfg α) (u0 : Mat α) (i k : Nat) :
    initRow c u0 i k = 0 ∨ c.minv ≤ initRow c u0 i k := by
  unfold initRow; split
  · left; rfl
  · rcases clampLow_cases c (at2 u0 i k / sumR c.K fun k' => at2 u0 i k') with h | ⟨h, h'⟩
    · left; exact h
    · right; rw [h]; exact h'

theorem initRow_nonneg (c : Cfg α) (hc : CfgOk c) (u0 : Mat α) (i k : Nat) : 0 ≤ initRow c u0 i k := by
  rcases initRow_thr c u0 i k with h | h
  · rw [h]
  · exact le_trans hc.minv h

/-- one pass of the loop of `_initial_update_u_psi` keeps the table exact -/
theorem initNode_inv0 (c : Cfg α) (hc : CfgOk c) (r0 : Bool) (u0 : Mat α) (s : St α) (hs : Inv0 c s) (i : Nat)
    (hi : i < c.N) : Inv0 c (initNode c r0 u0 s i) := by
  have h := inv_step0 c hc s hs i hi (fun _ => true) (initRow c u0 i) (fun k hk => by simp at hk)
    (fun k => initRow_nonneg c hc u0 i k) s.lams s.rho
  unfold initNode
  cases r0
  · exact h
  · refine ⟨?_, h.unn, h.bar⟩
    intro d k hd hk
    simp only [if_true]
    rw [at2_psiRepairAbs]
    · exact h.psi d k hd hk
    · have := h.psi d k hd hk
      simp only at this
      rw [this]
      exact esymm_nonneg _ _ (tab_nonneg _ _ (fun j => h.unn j k))

theorem initNode_u (c : Cfg α) (r0 : Bool) (u0 : Mat α) (s : St α) (i : Nat) :
    (initNode c r0 u0 s i).u = setRow c s.u i (initRow c u0 i) := by
  unfold initNode; rfl

/-- the state after the initialisation of a realisation satisfies the invariant (for non-negative draws `uk`) -/
theorem initState_inv (c : Cfg α) (hc : CfgOk c) (r0 : Bool) (uk : List α) (huk : ∀ x ∈ uk, 0 ≤ x)
    (u0 w0 : Mat α) (lams : List α) : Inv c (initState c r0 uk u0 w0 lams) := by
  unfold initState
  simp only
  set x := dummyRow uk with hx
  set s0 : St α := { u := tab2 c.N c.K (fun _ k => at1 x k), w := w0, psi := psiInit c x,
                     bar := tab2 c.D c.K (fun _ _ => 0), rho := [], lams := lams } with hs0
  have hx0 : ∀ k, 0 ≤ at1 x k := fun k => at1_nonneg _ (dummyRow_nonneg uk huk) k
  have h0 : Inv0 c s0 := by
    refine ⟨fun d k hd hk => psiInit_spec c x d k hd hk, ?_, ?_⟩
    · intro i k; exact at2_tab2_nonneg _ _ _ (fun _ k _ _ => hx0 k) i k
    · intro d k; exact at2_tab2_nonneg _ _ _ (fun _ _ _ _ => le_refl 0) d k
  have key : ∀ n, n ≤ c.N →
      Inv0 c ((List.range n).foldl (initNode c r0 u0) s0) ∧
      ∀ j k, (j < n ∨ c.N ≤ j) →
        (at2 ((List.range n).foldl (initNode c r0 u0) s0).u j k = 0
          ∨ c.minv ≤ at2 ((List.range n).foldl (initNode c r0 u0) s0).u j k) := by
    intro n
    induction n with
    | zero =>
      intro _
      refine ⟨by simpa using h0, ?_⟩
      intro j k hj
      rcases hj with hj | hj
      · omega
      · left; simp only [List.range_zero, List.foldl_nil, hs0]; exact at2_tab2_of_ge _ _ _ _ _ hj
    | succ n ih =>
      intro hn
      obtain ⟨ih0, iht⟩ := ih (by omega)
      rw [List.range_succ, List.foldl_append]
      simp only [List.foldl_cons, List.foldl_nil]
      refine ⟨initNode_inv0 c hc r0 u0 _ ih0 n (by omega), ?_⟩
      intro j k hj
      rw [initNode_u]
      apply thr_step c hc _ ih0 n (by omega) (initRow c u0 n) (fun k => initRow_nonneg c hc u0 n k)
        (fun k => initRow_thr c u0 n k) j k
      intro hjn
      apply iht j k
      rcases hj with hj | hj
      · left; omega
      · right; exact hj
  obtain ⟨k0, kt⟩ := key c.N (le_refl _)
  refine ⟨⟨k0.psi, k0.unn, k0.bar⟩, ?_⟩
  intro j k
  exact kt j k (by omega)


/-- after the initialisation row `j` of `u` is `initRow j` (and `0` outside the `K` columns) -/
theorem initState_u (c : Cfg α) (r0 : Bool) (uk : List α) (u0 w0 : Mat α) (lams : List α) (j k : Nat) (hj : j < c.N) :
    at2 (initState c r0 uk u0 w0 lams).u j k = if k < c.K then initRow c u0 j k else 0 := by
  unfold initState
  simp only
  generalize ({ u := tab2 c.N c.K (fun _ k => at1 (dummyRow uk) k), w := w0, psi := psiInit c (dummyRow uk),
                bar := tab2 c.D c.K (fun _ _ => 0), rho := [], lams := lams } : St α) = s0
  have key : ∀ n, n ≤ c.N → ∀ j k, j < n →
      at2 ((List.range n).foldl (initNode c r0 u0) s0).u j k = if k < c.K then initRow c u0 j k else 0 := by
    intro n
    induction n with
    | zero => intro _ j k hj; omega
    | succ n ih =>
      intro hn j k hj
      rw [List.range_succ, List.foldl_append]
      simp only [List.foldl_cons, List.foldl_nil]
      rw [initNode_u]
      by_cases hk : k < c.K
      · unfold setRow
        rw [at2_tab2 _ _ _ _ _ (by omega) hk]
        by_cases hjn : j = n
        · simp [hjn, hk]
        · simp only [hjn, if_false]
          exact ih (by omega) j k (by omega)
      · simp only [hk, if_false]
        exact at2_tab2_of_ge_col _ _ _ _ _ (by omega)
  exact key c.N (le_refl _) j k hj

/-- every state reached from the initialisation of a realisation by any number of `_update_em` sweeps, with any
node orders, any Lagrange multipliers, any `min_value_par ≥ 0` -/
def reach (c : Cfg α) (r0 : Bool) (uk : List α) (u0 w0 : Mat α) (lams : List α) (perms : List (List Nat)) : St α :=
  perms.foldl (emSweep c) (initState c r0 uk u0 w0 lams)

theorem reach_inv (c : Cfg α) (hc : CfgOk c) (r0 : Bool) (uk : List α) (huk : ∀ x ∈ uk, 0 ≤ x) (u0 w0 : Mat α)
    (lams : List α) (perms : List (List Nat)) (hp : ∀ p ∈ perms, ∀ i ∈ p, i < c.N) :
    Inv c (reach c r0 uk u0 w0 lams perms) := by
  unfold reach
  have h0 := initState_inv c hc r0 uk huk u0 w0 lams
  generalize initState c r0 uk u0 w0 lams = s at h0
  induction perms generalizing s with
  | nil => exact h0
  | cons p ps ih =>
    simp only [List.foldl_cons]
    exact ih (fun q hq => hp q (by simp [hq])) _ (emSweep_inv c hc p (hp p (by simp)) s h0)


end C17
