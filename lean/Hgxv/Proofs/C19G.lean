import Hgxv.Proofs.C19F
import Hgxv.Proofs.C19C
import Mathlib.Data.Finset.Powerset
import Mathlib.Data.Fintype.Basic
import Mathlib.Combinatorics.Enumerative.DoubleCounting
/-! C19 extension round: strictly increasing tuples - sublist = subset, at most `C(|V|, n)` of them over `|V|` nodes;
hence the number of tests of a table never exceeds the number of possible hyperedges the Bonferroni unit divides by,
and a validated p-value is below `alpha` itself. -/
namespace C19

/-- for strictly increasing tuples "sublist" is "subset" -/
theorem sublist_of_subset_sorted (e b : List Nat) (he : e.Pairwise (· < ·)) (hb : b.Pairwise (· < ·))
    (hsub : ∀ i ∈ e, i ∈ b) : e.Sublist b := by
  induction b generalizing e with
  | nil =>
    cases e with
    | nil => exact List.Sublist.slnil
    | cons x xs => exact absurd (hsub x List.mem_cons_self) (by simp)
  | cons y ys ih =>
    cases e with
    | nil => exact List.nil_sublist _
    | cons x xs =>
      have hy := List.pairwise_cons.mp hb
      have hx := List.pairwise_cons.mp he
      by_cases hxy : x = y
      · subst hxy
        refine (ih xs hx.2 hy.2 ?_).cons_cons x
        intro i hi
        rcases List.mem_cons.mp (hsub i (List.mem_cons_of_mem _ hi)) with h | h
        · have := hx.1 i hi; omega
        · exact h
      · have hxin : x ∈ ys := by
          rcases List.mem_cons.mp (hsub x List.mem_cons_self) with h | h
          · exact absurd h hxy
          · exact h
        have hgt : y < x := hy.1 x hxin
        refine (ih (x :: xs) he hy.2 ?_).cons y
        intro i hi
        rcases List.mem_cons.mp (hsub i hi) with h | h
        · rcases List.mem_cons.mp hi with h2 | h2
          · omega
          · have := hx.1 i h2; omega
        · exact h

theorem isSublist_eq_all (e b : List Nat) (he : e.Pairwise (· < ·)) (hb : b.Pairwise (· < ·)) :
    e.isSublist b = e.all (fun i => b.contains i) := by
  rw [Bool.eq_iff_iff, List.isSublist_iff_sublist]
  simp only [List.all_eq_true, List.contains_iff_mem]
  exact ⟨fun h i hi => h.subset hi, sublist_of_subset_sorted e b he hb⟩

/-- the count of `get_svc` is the co-occurrence count of `get_svh` taken over ALL occurrences -/
theorem countOf_eq_n12 (occ : List (List Nat)) (hs : ∀ b ∈ occ, b.Pairwise (· < ·)) (g : List Nat)
    (hg : g.Pairwise (· < ·)) : countOf occ g.length g = n12 occ g := by
  rw [countOf_eq occ (fun b hb => (hs b hb).imp (fun h => Nat.ne_of_lt h)) g.length g rfl]
  unfold n12
  congr 1
  apply List.filter_congr
  intro b hb
  exact isSublist_eq_all g b hg (hs b hb)

/-- at most `C(|V|, n)` strictly increasing `n`-tuples over a node list `V` -/
theorem sorted_tuples_le_choose (T : List (List Nat)) (hT : T.Nodup) (V : List Nat) (hV : V.Nodup) (n : Nat)
    (h : ∀ e ∈ T, e.Pairwise (· < ·) ∧ e.length = n ∧ ∀ i ∈ e, i ∈ V) : T.length ≤ V.length.choose n := by
  have hcard : T.length = (T.toFinset).card := (List.toFinset_card_of_nodup hT).symm
  have hVc : V.length = V.toFinset.card := (List.toFinset_card_of_nodup hV).symm
  rw [hcard, hVc, ← Finset.card_powersetCard]
  apply Finset.card_le_card_of_injOn (fun e => e.toFinset)
  · intro e he
    have := h e (List.mem_toFinset.mp he)
    rw [Finset.mem_coe, Finset.mem_powersetCard]
    refine ⟨fun i hi => List.mem_toFinset.mpr (this.2.2 i (List.mem_toFinset.mp hi)), ?_⟩
    rw [List.toFinset_card_of_nodup (this.1.imp (fun h => Nat.ne_of_lt h))]; exact this.2.1
  · intro e he f hf hef
    have h1 := h e (List.mem_toFinset.mp he)
    have h2 := h f (List.mem_toFinset.mp hf)
    have hsub : ∀ i ∈ e, i ∈ f := fun i hi => by
      have : i ∈ f.toFinset := by rw [← show e.toFinset = f.toFinset from hef]; exact List.mem_toFinset.mpr hi
      exact List.mem_toFinset.mp this
    exact (sorted_eq_of_subset h1.1 h2.1 (by omega) hsub).symm


/-- a p-value validated among `m ≤ C` tests with `bonf = alpha / C` is below `alpha` -/
theorem validated_lt_alpha (ps : List Rat) (alpha : Rat) (C : Nat) (h0 : 0 ≤ alpha) (hm : ps.length ≤ C) (p : Rat)
    (hp : p ∈ ps) (hv : validated ps (alpha / (C : Rat)) p = true) : p < alpha := by
  have hC : 0 < C := by
    have : 0 < ps.length := List.length_pos_of_mem hp
    omega
  have hCq : (0 : Rat) < (C : Rat) := by exact_mod_cast hC
  have hb : 0 ≤ alpha / (C : Rat) := div_nonneg h0 (le_of_lt hCq)
  have h1 : p < (ps.length : Rat) * (alpha / (C : Rat)) := by
    simp only [validated, decide_eq_true_eq] at hv
    exact lt_of_lt_of_le hv (threshold_le_all ps _ hb)
  have h2 : (ps.length : Rat) * (alpha / (C : Rat)) ≤ (C : Rat) * (alpha / (C : Rat)) :=
    mul_le_mul_of_nonneg_right (by exact_mod_cast hm) hb
  have h3 : (C : Rat) * (alpha / (C : Rat)) = alpha := by rw [mul_comm, div_mul_cancel₀ alpha (ne_of_gt hCq)]
  linarith

theorem svh_rows_le_choose (sf : Nat → Nat → Rat → Rat) (occ : List (List Nat)) (hs : ∀ b ∈ occ, b.Pairwise (· < ·))
    (n : Nat) : (rowsOf sf occ n).length ≤ (numNodes occ n).choose n := by
  simp only [rowsOf, List.length_map, numNodes]
  apply sorted_tuples_le_choose _ (tuplesOf_nodup occ n) _ (dedup_nodup _) n
  intro e he
  have hm := (mem_tuplesOf occ n e).mp he
  refine ⟨hs e hm.1, hm.2, fun i hi => ?_⟩
  rw [mem_dedup, List.mem_flatten]
  exact ⟨e, he, hi⟩

theorem svc_rows_le_choose (sf : Nat → Nat → Rat → Rat) (occ sg : List (List Nat))
    (hs : ∀ b ∈ occ, b.Pairwise (· < ·)) (k : Nat) : (coreRows sf occ sg k).length ≤ (nodesAll occ).choose k := by
  simp only [coreRows, List.length_map, nodesAll]
  apply sorted_tuples_le_choose _ (groupsOf_nodup occ sg k) _ (dedup_nodup _) k
  intro g hg
  obtain ⟨hl, ⟨b, hb, hsub⟩, _⟩ := (mem_groupsOf occ sg k g).mp hg
  refine ⟨(hs b hb).sublist hsub, hl, fun i hi => ?_⟩
  rw [mem_dedup, List.mem_flatten]
  exact ⟨b, hb, hsub.subset hi⟩
end C19
