import Hgxv.Model.C18
import Mathlib.Algebra.Order.Field.Rat
import Mathlib.Tactic.Linarith
/-! Helper lemmas for C18, contagion part: the attempt loops, one node, one sweep, the run. -/
namespace C18

/-! ### adjacent elements of a list -/

theorem adj_single {α} (R : α → α → Prop) (a : α) : Adj R [a] := by
  intro t x y _ h2; simp at h2

theorem adj_cons {α} (R : α → α → Prop) (a b : α) (l : List α) (h : R a b) (hl : Adj R (b :: l)) :
    Adj R (a :: b :: l) := by
  intro t x y h1 h2
  cases t with
  | zero => simp at h1 h2; subst h1; subst h2; exact h
  | succ t => exact hl t x y (by simpa using h1) (by simpa using h2)

theorem adj_replicate {α} (R : α → α → Prop) (c : α) (h : R c c) (n : Nat) : Adj R (List.replicate n c) := by
  intro t a b h1 h2
  rw [List.getElem?_replicate] at h1 h2
  split at h1 <;> split at h2 <;> simp_all

theorem adj_map {α β} (R : β → β → Prop) (g : α → β) (l : List α) (h : Adj (fun a b => R (g a) (g b)) l) :
    Adj R (l.map g) := by
  intro t a b h1 h2
  rw [List.getElem?_map] at h1 h2
  cases ha : l[t]? with
  | none => rw [ha] at h1; cases h1
  | some a' =>
    cases hb : l[t + 1]? with
    | none => rw [hb] at h2; cases h2
    | some b' =>
      rw [ha] at h1; rw [hb] at h2
      simp at h1 h2; subst h1; subst h2
      exact h t a' b' ha hb

/-! ### the attempt loop -/

/-- `k` attempts at most, stop at the first success -/
def tries (f : Nat → Rat) (rate : Rat) : Nat → Nat → Bool × Nat
  | 0, p => (false, p)
  | k + 1, p => if f p < rate then (true, p + 1) else tries f rate k (p + 1)

/-- the loop only depends on how many conditions hold, not on their order -/
theorem loopHits_eq_tries (f : Nat → Rat) (rate : Rat) (cs : List Bool) (p : Nat) :
    loopHits f rate cs p = tries f rate (cs.count true) p := by
  induction cs generalizing p with
  | nil => simp [loopHits, tries]
  | cons c cs ih =>
    cases c with
    | true => simp only [loopHits, if_true, List.count_cons_self, tries, ih]
    | false => simpa [loopHits] using ih p

theorem tries_fail (f : Nat → Rat) (rate : Rat) (h : ∀ n, ¬ f n < rate) (k p : Nat) :
    (tries f rate k p).1 = false := by
  induction k generalizing p with
  | zero => rfl
  | succ k ih => simp [tries, h p, ih]

theorem tries_succeed (f : Nat → Rat) (rate : Rat) (h : ∀ n, f n < rate) (k p : Nat) :
    (tries f rate k p).1 = decide (0 < k) := by
  cases k with
  | zero => rfl
  | succ k => simp [tries, h p]

theorem loopHits_fail (f : Nat → Rat) (rate : Rat) (h : ∀ n, ¬ f n < rate) (cs : List Bool) (p : Nat) :
    (loopHits f rate cs p).1 = false := by
  rw [loopHits_eq_tries]; exact tries_fail f rate h _ p

theorem loopHits_succeed (f : Nat → Rat) (rate : Rat) (h : ∀ n, f n < rate) (cs : List Bool) (p : Nat) :
    (loopHits f rate cs p).1 = cs.any id := by
  rw [loopHits_eq_tries, tries_succeed f rate h]
  rw [Bool.eq_iff_iff]
  simp [List.count_pos_iff]

/-! ### one node -/

/-- new value of node `v` and new stream position when the sweep reaches `v` at position `p` -/
def newVal (es : List Edge) (nodes : List Nat) (r : Rates) (f : Nat → Rat) (I : Nat → Bool) (v p : Nat) : Bool × Nat :=
  if I v = false then infect es nodes r f I v p else recover r f p

theorem nodeStep_eq (es : List Edge) (nodes : List Nat) (r : Rates) (f : Nat → Rat) (Iold : Nat → Bool)
    (st : (Nat → Bool) × Nat) (v : Nat) (h : st.1 v = Iold v) :
    nodeStep es nodes r f Iold st v
      = (setI st.1 v (newVal es nodes r f Iold v st.2).1, (newVal es nodes r f Iold v st.2).2) := by
  unfold nodeStep newVal
  by_cases hI : Iold v = false
  · simp only [hI, if_true, infect]
    cases ha : (loopHits f r.beta (List.map Iold (pairNbrs es nodes v)) st.2).1 with
    | true => simp [setI]
    | false =>
      have hv : st.1 v = false := by rw [h, hI]
      simp only [Bool.false_eq_true, if_false, hv]
      cases hb : (loopHits f r.betaD (List.map (triHit Iold v) (triplets es v)) (loopHits f r.beta (List.map Iold (pairNbrs es nodes v)) st.2).2).1 with
      | true => simp
      | false =>
        simp only [Bool.false_eq_true, if_false, Prod.mk.injEq, and_true]
        funext u; unfold setI; split
        · next hu => subst hu; exact hv
        · rfl
  · have hI' : Iold v = true := by simpa using hI
    simp only [hI', Bool.true_eq_false, if_false, recover]
    by_cases hm : f st.2 < r.mu
    · simp [hm]
    · simp only [hm, if_false, decide_false, Bool.not_false, Prod.mk.injEq, and_true]
      funext u; unfold setI; split
      · next hu => subst hu; rw [h, hI']
      · rfl

/-! ### one sweep -/

theorem fold_spec (es : List Edge) (nodes : List Nat) (r : Rates) (f : Nat → Rat) (Iold : Nat → Bool) :
    ∀ (l : List Nat) (st : (Nat → Bool) × Nat), l.Nodup → (∀ v ∈ l, st.1 v = Iold v) →
      (∀ u, u ∉ l → (l.foldl (nodeStep es nodes r f Iold) st).1 u = st.1 u) ∧
      (∀ v, v ∈ l → ∃ q, (l.foldl (nodeStep es nodes r f Iold) st).1 v = (newVal es nodes r f Iold v q).1) := by
  intro l
  induction l with
  | nil => intro st _ _; simp
  | cons v l ih =>
    intro st hnd hst
    have hvl : v ∉ l := (List.nodup_cons.mp hnd).1
    have hl : l.Nodup := (List.nodup_cons.mp hnd).2
    rw [List.foldl_cons, nodeStep_eq es nodes r f Iold st v (hst v List.mem_cons_self)]
    set st' : (Nat → Bool) × Nat :=
      (setI st.1 v (newVal es nodes r f Iold v st.2).1, (newVal es nodes r f Iold v st.2).2) with hst'
    have hst'l : ∀ w ∈ l, st'.1 w = Iold w := by
      intro w hw
      have : w ≠ v := fun e => hvl (e ▸ hw)
      simp [hst', setI, this, hst w (List.mem_cons_of_mem _ hw)]
    obtain ⟨h1, h2⟩ := ih st' hl hst'l
    constructor
    · intro u hu
      have huv : u ≠ v := fun e => hu (e ▸ List.mem_cons_self)
      have hul : u ∉ l := fun m => hu (List.mem_cons_of_mem _ m)
      rw [h1 u hul]; simp [hst', setI, huv]
    · intro w hw
      rcases List.mem_cons.mp hw with rfl | hw
      · refine ⟨st.2, ?_⟩
        rw [h1 w hvl]; simp [hst', setI]
      · exact h2 w hw

/-- every node of `nodes` is decided once, from the old state, at some stream position; all other keys
keep their value -/
theorem step_spec (es : List Edge) (nodes : List Nat) (hnd : nodes.Nodup) (r : Rates) (f : Nat → Rat)
    (I : Nat → Bool) (p : Nat) :
    (∀ u, u ∉ nodes → (step es nodes r f I p).1 u = I u) ∧
    (∀ v, v ∈ nodes → ∃ q, (step es nodes r f I p).1 v = (newVal es nodes r f I v q).1) :=
  fold_spec es nodes r f I nodes (I, p) hnd (fun _ _ => rfl)

theorem newVal_mu0 (es : List Edge) (nodes : List Nat) (r : Rates) (f : Nat → Rat) (hf : ∀ n, 0 ≤ f n)
    (hmu : r.mu = 0) (I : Nat → Bool) (v q : Nat) (hI : I v = true) : (newVal es nodes r f I v q).1 = true := by
  have : ¬ f q < 0 := not_lt.mpr (hf q)
  simp [newVal, hI, recover, hmu, this]

theorem newVal_beta0 (es : List Edge) (nodes : List Nat) (r : Rates) (f : Nat → Rat) (hf : ∀ n, 0 ≤ f n)
    (hb : r.beta = 0) (hbd : r.betaD = 0) (I : Nat → Bool) (v q : Nat) (hI : I v = false) :
    (newVal es nodes r f I v q).1 = false := by
  have h0 : ∀ n, ¬ f n < 0 := fun n => not_lt.mpr (hf n)
  simp only [newVal, hI, if_true, infect, hb, hbd, loopHits_fail f 0 h0]
  exact loopHits_fail f 0 h0 _ _

theorem newVal_det (es : List Edge) (nodes : List Nat) (r : Rates) (f : Nat → Rat) (hf : UnitDraws f)
    (hb : r.beta = 0 ∨ r.beta = 1) (hbd : r.betaD = 0 ∨ r.betaD = 1) (hmu : r.mu = 0 ∨ r.mu = 1)
    (I : Nat → Bool) (v q : Nat) :
    (newVal es nodes r f I v q).1 =
      if I v = false then
        (decide (r.beta = 1) && (pairNbrs es nodes v).any I)
          || (decide (r.betaD = 1) && (triplets es v).any (triHit I v))
      else decide (r.mu ≠ 1) := by
  have h0 : ∀ n, ¬ f n < 0 := fun n => not_lt.mpr (hf n).1
  have h1 : ∀ n, f n < 1 := fun n => (hf n).2
  have e0 : ∀ cs p, (loopHits f 0 cs p).1 = false := loopHits_fail f 0 h0
  have e1 : ∀ cs p, (loopHits f 1 cs p).1 = cs.any id := loopHits_succeed f 1 h1
  unfold newVal
  by_cases hI : I v = false
  · simp only [hI, if_true, infect]
    have key : ∀ (c : Bool) (x : Nat) (L : Bool × Nat), (if c = true then (true, x) else L).1 = (c || L.1) := by
      intro c x L; cases c <;> simp
    rw [key]
    rcases hb with hb | hb <;> rcases hbd with hbd | hbd <;>
      simp [hb, hbd, e0, e1, List.any_map]
  · have hI' : I v = true := by simpa using hI
    simp only [hI', Bool.true_eq_false, if_false, recover]
    rcases hmu with hmu | hmu
    · simp [hmu, h0]
    · simp [hmu, h1]

theorem step_det (es : List Edge) (nodes : List Nat) (hnd : nodes.Nodup) (r : Rates) (f : Nat → Rat) (hf : UnitDraws f)
    (hb : r.beta = 0 ∨ r.beta = 1) (hbd : r.betaD = 0 ∨ r.betaD = 1) (hmu : r.mu = 0 ∨ r.mu = 1)
    (I : Nat → Bool) (p : Nat) : (step es nodes r f I p).1 = spread es nodes r I := by
  obtain ⟨h1, h2⟩ := step_spec es nodes hnd r f I p
  funext v
  unfold spread
  by_cases hv : v ∈ nodes
  · obtain ⟨q, hq⟩ := h2 v hv
    rw [hq, newVal_det es nodes r f hf hb hbd hmu]
    simp [hv]
  · rw [h1 v hv]; simp [hv]

theorem step_mu0 (es : List Edge) (nodes : List Nat) (hnd : nodes.Nodup) (r : Rates) (f : Nat → Rat)
    (hf : ∀ n, 0 ≤ f n) (hmu : r.mu = 0) (I : Nat → Bool) (p v : Nat) (hI : I v = true) :
    (step es nodes r f I p).1 v = true := by
  obtain ⟨h1, h2⟩ := step_spec es nodes hnd r f I p
  by_cases hv : v ∈ nodes
  · obtain ⟨q, hq⟩ := h2 v hv
    rw [hq]; exact newVal_mu0 es nodes r f hf hmu I v q hI
  · rw [h1 v hv]; exact hI

theorem step_beta0 (es : List Edge) (nodes : List Nat) (hnd : nodes.Nodup) (r : Rates) (f : Nat → Rat)
    (hf : ∀ n, 0 ≤ f n) (hb : r.beta = 0) (hbd : r.betaD = 0) (I : Nat → Bool) (p v : Nat)
    (hI : (step es nodes r f I p).1 v = true) : I v = true := by
  obtain ⟨h1, h2⟩ := step_spec es nodes hnd r f I p
  by_cases hv : v ∈ nodes
  · obtain ⟨q, hq⟩ := h2 v hv
    cases hIv : I v with
    | true => rfl
    | false => rw [hq, newVal_beta0 es nodes r f hf hb hbd I v q hIv] at hI; exact absurd hI (by simp)
  · rw [h1 v hv] at hI; exact hI

theorem infected_mono (keys : List Nat) (I J : Nat → Bool) (h : ∀ v, I v = true → J v = true) :
    infected keys I ≤ infected keys J := by
  unfold infected
  rw [← List.countP_eq_length_filter, ← List.countP_eq_length_filter]
  exact List.countP_mono_left (fun v _ => h v)

theorem infected_le (keys : List Nat) (I : Nat → Bool) : infected keys I ≤ keys.length := by
  unfold infected; exact List.length_filter_le _ _

theorem runStates_length (es : List Edge) (nodes keys : List Nat) (r : Rates) (f : Nat → Rat) :
    ∀ (n : Nat) (I : Nat → Bool) (p : Nat), (runStates es nodes keys r f n I p).length = n := by
  intro n
  induction n with
  | zero => intro I p; rfl
  | succ n ih =>
    intro I p
    unfold runStates
    split
    · simp
    · simp [ih]

/-- a relation that holds across every sweep (and between `0` and `0`) holds along the whole trajectory -/
theorem run_adj (es : List Edge) (nodes keys : List Nat) (r : Rates) (f : Nat → Rat) (R : Nat → Nat → Prop)
    (h0 : R 0 0) (hstep : ∀ I p, R (infected keys I) (infected keys (step es nodes r f I p).1)) :
    ∀ (n : Nat) (I : Nat → Bool) (p : Nat),
      Adj R (infected keys I :: (runStates es nodes keys r f n I p).map (fun s => infected keys s.1)) := by
  intro n
  induction n with
  | zero => intro I p; exact adj_single R _
  | succ n ih =>
    intro I p
    unfold runStates
    split
    · next hz =>
      rw [List.map_replicate, hz]
      exact adj_replicate R 0 h0 (n + 2)
    · rw [List.map_cons]
      exact adj_cons R _ _ _ (hstep I p) (ih _ _)

theorem run_det (es : List Edge) (nodes keys : List Nat) (hnd : nodes.Nodup) (r : Rates) (f : Nat → Rat) (hf : UnitDraws f)
    (hb : r.beta = 0 ∨ r.beta = 1) (hbd : r.betaD = 0 ∨ r.betaD = 1) (hmu : r.mu = 0 ∨ r.mu = 1) :
    ∀ (n : Nat) (I : Nat → Bool) (p : Nat),
      (runStates es nodes keys r f n I p).map (fun s => infected keys s.1) = spreadCounts es nodes keys r n I := by
  intro n
  induction n with
  | zero => intro I p; rfl
  | succ n ih =>
    intro I p
    unfold runStates spreadCounts
    split
    · next hz => rw [List.map_replicate, hz]
    · rw [List.map_cons, ih, step_det es nodes hnd r f hf hb hbd hmu]

end C18
