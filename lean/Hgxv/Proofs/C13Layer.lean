import Hgxv.Proofs.C13Ext
/-! # C13, round f — degenerate layers of the `size=` / `order=` variant (core Lean only)

The requested layer is EMPTY (no hyperedge of the requested size) or holds ONE hyperedge. -/
namespace C13

theorem cmMCMC_nil (label : Label) (detailed : Bool) (n : Nat) (ds : List Draw) :
    cmMCMC label detailed n [] ds = if n = 0 then .ok [] else .error .raise := by
  cases n with
  | zero => cases label <;> rfl
  | succ n => cases label <;> rfl

/-- EMPTY layer: with `n_steps = 0` the call returns the input listing itself (nothing is drawn, nothing is
reordered), with `n_steps > 0` it raises (`np.random.randint(0, 0, 2)`) – for both spellings of the request -/
theorem cmCall_empty_layer (label : Label) (detailed : Bool) (order size : Option Nat) (s n : Nat)
    (es : List Edge) (ds : List Draw) (hres : resolveSize order size = .ok (some s))
    (hempty : ∀ e ∈ es, e.length ≠ s) (hdist : es.Nodup) :
    cmCall label detailed order size n es ds = if n = 0 then .ok es else .error .raise := by
  have h1 : es.filter (fun e => e.length == s) = [] :=
    List.filter_eq_nil_iff.mpr (fun e he => by simpa using hempty e he)
  have h2 : es.filter (fun e => e.length != s) = es :=
    List.filter_eq_self.mpr (fun e he => by simpa using hempty e he)
  have h3 : es.foldl addEdge [] = es := by
    rw [foldl_addEdge es [] hdist (fun _ _ h => by cases h)]; rfl
  simp only [cmCall, hres, configurationModel, h1, h2, cmMCMC_nil]
  by_cases hn : n = 0 <;> simp [hn, h3]

theorem nodup_of_strict {e : Edge} (h : e.Pairwise (· < ·)) : e.Nodup :=
  h.imp (fun hab => Nat.ne_of_lt hab)

theorem mhStep_single (detailed : Bool) (f : Edge) (ds : List Draw) (es' : List Edge) (ds' : List Draw)
    (hf : f.Pairwise (· < ·)) (h : mhStep detailed [f] ds = .ok (es', ds')) : es' = [f] := by
  cases ds with
  | nil => simp [mhStep, proposal, pick] at h
  | cons d rest =>
    cases d with
    | coin b => simp [mhStep, proposal, pick] at h
    | idx i j =>
      cases i with
      | succ i => simp [mhStep, proposal, pick] at h
      | zero =>
        cases j with
        | succ j => simp [mhStep, proposal, pick] at h
        | zero =>
          rw [mhStep_diag detailed [f] 0 f rest rfl (nodup_of_strict hf)] at h
          have hs : sortNodes (sortNodes f) = f := by
            rw [sortNodes_of_sorted hf, sortNodes_of_sorted hf]
          simp only [hs, Except.ok.injEq, Prod.mk.injEq] at h
          rw [← h.1]; rfl

theorem chain_single (detailed : Bool) (n : Nat) (f : Edge) (ds : List Draw) (es' : List Edge)
    (ds' : List Draw) (hf : f.Pairwise (· < ·)) (h : chain detailed n [f] ds = .ok (es', ds')) :
    es' = [f] := by
  induction n generalizing ds with
  | zero => simp only [chain, Except.ok.injEq, Prod.mk.injEq] at h; exact h.1.symm
  | succ n ih =>
    simp only [chain] at h
    split at h
    · cases h
    · next es1 ds1 h1 =>
      rw [mhStep_single detailed f ds es1 ds1 hf h1] at h
      exact ih ds1 h

/-- layer of ONE hyperedge `f`: every run that returns (whatever `n_steps` and the draws are) returns `f` and
all other hyperedges intact – the only proposal is the pair `(f, f)`, whose reshuffle is `f` -/
theorem cmCall_singleton_layer (label : Label) (detailed : Bool) (order size : Option Nat) (s n : Nat)
    (es : List Edge) (ds : List Draw) (f : Edge) (out : List Edge)
    (hres : resolveSize order size = .ok (some s))
    (hsel : es.filter (fun e => e.length == s) = [f]) (hf : f.Pairwise (· < ·)) (hdist : es.Nodup)
    (h : cmCall label detailed order size n es ds = .ok out) :
    out = f :: es.filter (fun e => e.length != s) ∧ out.Perm es := by
  have hfs : f.length = s := by
    have : f ∈ es.filter (fun e => e.length == s) := by rw [hsel]; exact List.mem_cons_self
    simpa using (List.mem_filter.mp this).2
  have hfold : (es.filter (fun e => e.length != s)).foldl addEdge [f] = [f] ++ es.filter (fun e => e.length != s) := by
    apply foldl_addEdge
    · exact hdist.sublist List.filter_sublist
    · intro e he hmem
      have h1 := (List.mem_filter.mp he).2
      have : e = f := by simpa using hmem
      subst this
      simp [hfs] at h1
  have hperm := filter_split_perm (fun e : Edge => e.length == s) es
  rw [hsel] at hperm
  have hout : out = f :: es.filter (fun e => e.length != s) := by
    simp only [cmCall, hres, configurationModel, hsel] at h
    have hc : ∀ r, stubEdgeMH detailed n [f] ds = .ok r → r = [f] := by
      intro r hr
      simp only [stubEdgeMH] at hr
      split at hr
      · cases hr
      · next es1 ds1 h1 =>
        rw [chain_single detailed n f ds es1 ds1 hf h1] at hr
        simp only [List.map_cons, List.map_nil, sortNodes_of_sorted hf, Except.ok.injEq] at hr
        rw [← hr]; rfl
    cases label <;> simp only [cmMCMC] at h <;>
    · split at h
      · cases h
      · next r hr =>
        rw [hc r hr, hfold] at h
        simp only [Except.ok.injEq] at h
        exact h.symm
  exact ⟨hout, hout ▸ hperm⟩

end C13
