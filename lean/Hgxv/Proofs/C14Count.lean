import Hgxv.Proofs.C14Trace
import Mathlib.Data.List.Sublists
import Mathlib.Data.List.Sort
/-! How many distinct hyperedges a rejection loop can ever collect: at most `C(n, size)` (uses `List.sublistsLen`). -/
namespace C14

/-- a sorted sample of `s` distinct nodes below `n` is one of the `C(n, s)` increasing lists of length `s` -/
theorem sorted_sample_mem (n s : Nat) (d : List Nat) (h : IsSample (List.range n) s d) :
    sortE d ∈ List.sublistsLen s (List.range n) := by
  obtain ⟨hnd, hlen, hsub⟩ := h
  have hperm := sortE_perm d
  have hnd' : (sortE d).Nodup := hperm.nodup_iff.mpr hnd
  have hsub' : sortE d ⊆ List.range n := fun x hx => hsub x (hperm.mem_iff.mp hx)
  have hsl : List.Sublist (sortE d) (List.range n) :=
    List.sublist_of_subperm_of_pairwise (r := (· ≤ ·)) (List.subperm_of_subset hnd' hsub') (sortE_sorted d)
      (List.pairwise_lt_range.imp (fun h => Nat.le_of_lt h))
  have := List.mem_sublistsLen_self hsl
  rwa [hperm.length_eq, hlen] at this

/-- whatever the draws: the distinct hyperedges among valid samples of size `s` over `n` nodes number at most `C(n, s)` -/
theorem distinct_le_choose (n s : Nat) (ds : List (List Nat)) (h : ∀ d ∈ ds, IsSample (List.range n) s d) :
    (dedup (ds.map sortE)).length ≤ n.choose s := by
  have hsub : dedup (ds.map sortE) ⊆ List.sublistsLen s (List.range n) := by
    intro e he
    rw [mem_dedup, List.mem_map] at he
    obtain ⟨d, hd, rfl⟩ := he
    exact sorted_sample_mem n s d (h d hd)
  have := List.Nodup.length_le_of_subset (nodup_dedup _) hsub
  rwa [List.length_sublistsLen, List.length_range] at this

end C14

namespace C14

theorem groupsOK_forall {P : Nat → Nat → List (List Nat) → Prop} :
    ∀ (req : List (Nat × Nat)) (gs : List (List (List Nat))), GroupsOK P req gs → ∀ sc ∈ req, ∃ g, P sc.1 sc.2 g := by
  intro req
  induction req with
  | nil => intro gs _ sc hsc; simp at hsc
  | cons sc0 req ih =>
    intro gs h sc hsc
    cases gs with
    | nil => exact absurd h (by simp [GroupsOK])
    | cons g gs =>
      simp only [GroupsOK] at h
      rcases List.mem_cons.mp hsc with rfl | hsc
      · exact ⟨g, h.1⟩
      · exact ih gs h.2 sc hsc

/-- a rejection loop that returned was asked for at most `C(n, s)` hyperedges -/
theorem returning_feasible (n s k : Nat) (ds : List (List Nat)) (hs : ∀ d ∈ ds, IsSample (List.range n) s d)
    (hc : consumedExactly k [] ds = true) : k ≤ n.choose s := by
  have h1 := consumed_distinct k ds [] hc (by simp)
  have h2 := distinct_le_choose n s ds hs
  unfold dedup at h2
  omega

end C14
