import Hgxv.Proofs.C16Chain
/-! Helper lemmas for C16, part 2: `_extract_hye`, `_match_sequences`.  Core Lean only. -/
namespace C16

/-- residual degree of node `n` (0 outside the node range) -/
def rd (resid : List Nat) (n : Nat) : Nat := (resid[n]?).getD 0

theorem mem_bucket {resid : List Nat} {d n : Nat} : n ∈ bucket resid d ↔ resid[n]? = some d := by
  simp only [bucket, List.mem_filter, List.mem_range, beq_iff_eq]
  constructor
  · exact fun h => h.2
  · intro h
    exact ⟨(List.getElem?_eq_some_iff.mp h).1, h⟩

theorem nodup_bucket (resid : List Nat) (d : Nat) : (bucket resid d).Nodup :=
  List.nodup_range.filter _

theorem posDegs_spec (keys : List Nat) : (posDegs keys).Nodup ∧ ∀ d ∈ posDegs keys, 0 < d := by
  unfold posDegs
  have hrev : ∀ k, ((List.range k).reverse).Nodup := by
    intro k
    rw [List.Nodup, List.pairwise_reverse]
    exact (List.nodup_range (n := k)).imp (fun h => Ne.symm h)
  refine ⟨(hrev _).filter _, ?_⟩
  intro d hd
  have := (List.mem_filter.mp hd).2
  simp only [Bool.and_eq_true, decide_eq_true_eq] at this
  exact this.1

/-! ## the descending-degree loop -/

theorem pickLoop_spec {resid : List Nat} {degs : List Nat} {need : Nat} {picks : List (List Nat)}
    {chosen visited : List Nat} {need' : Nat} {picks' : List (List Nat)} (hd : degs.Nodup)
    (h : pickLoop resid degs need picks = some (chosen, visited, need', picks')) :
    chosen.Nodup ∧ (∀ c ∈ chosen, ∃ d ∈ degs, resid[c]? = some d) ∧ chosen.length + need' = need := by
  induction degs generalizing need picks chosen visited need' picks' with
  | nil =>
    cases need with
    | zero => simp [pickLoop] at h; obtain ⟨rfl, _, rfl, _⟩ := h; simp
    | succ k => simp [pickLoop] at h; obtain ⟨rfl, _, rfl, _⟩ := h; simp
  | cons d ds ih =>
    cases need with
    | zero => simp [pickLoop] at h; obtain ⟨rfl, _, rfl, _⟩ := h; simp
    | succ k =>
      cases picks with
      | nil => simp [pickLoop] at h
      | cons p ps =>
        simp only [pickLoop] at h
        split at h
        · rename_i hv
          obtain ⟨hlen, hsub, hnd⟩ := validPick_spec hv
          cases hr : pickLoop resid ds (k + 1 - p.length) ps with
          | none => simp [hr] at h
          | some r =>
            obtain ⟨c', vs, nd, rr⟩ := r
            simp only [hr, Option.map_some, Option.some.injEq, Prod.mk.injEq] at h
            obtain ⟨rfl, _, rfl, rfl⟩ := h
            have hdn := List.nodup_cons.mp hd
            obtain ⟨i1, i2, i3⟩ := ih hdn.2 hr
            refine ⟨?_, ?_, ?_⟩
            · rw [List.nodup_append]
              refine ⟨hnd, i1, ?_⟩
              intro x hx y hy hxy
              subst hxy
              have e1 := mem_bucket.mp (hsub x hx)
              obtain ⟨d', hd', e2⟩ := i2 x hy
              rw [e1] at e2
              simp only [Option.some.injEq] at e2
              exact hdn.1 (e2 ▸ hd')
            · intro c hc
              rcases List.mem_append.mp hc with hc | hc
              · exact ⟨d, List.mem_cons_self, mem_bucket.mp (hsub c hc)⟩
              · obtain ⟨d', hd', e2⟩ := i2 c hc
                exact ⟨d', List.mem_cons_of_mem _ hd', e2⟩
            · simp only [List.length_append]
              have : p.length ≤ k + 1 := by rw [hlen]; exact Nat.min_le_right _ _
              omega
        · exact absurd h (by simp)

/-! ## lowering degrees -/

theorem getElem?_decOne (resid : List Nat) (c n : Nat) :
    (decOne resid c)[n]? = if c = n then (resid[n]?).map (· - 1) else resid[n]? := by
  unfold decOne
  rw [List.getElem?_modify]
  by_cases hcn : c = n
  · simp [hcn]
  · simp only [hcn, if_false]
    cases resid[n]? <;> simp

theorem sum_decOne {resid : List Nat} {c r : Nat} (h : resid[c]? = some (r + 1)) :
    (decOne resid c).sum + 1 = resid.sum := by
  unfold decOne
  induction resid generalizing c with
  | nil => simp at h
  | cons x xs ih =>
    cases c with
    | zero =>
      simp only [List.getElem?_cons_zero, Option.some.injEq] at h
      subst h
      simp [List.modify_cons]
      omega
    | succ c =>
      simp only [List.getElem?_cons_succ] at h
      have := ih h
      simp only [List.modify_succ_cons, List.sum_cons]
      omega

theorem decResid_spec {resid : List Nat} {chosen : List Nat} (hn : chosen.Nodup)
    (hp : ∀ c ∈ chosen, ∃ r, resid[c]? = some (r + 1)) :
    (decResid resid chosen).length = resid.length ∧
      (∀ n, (decResid resid chosen)[n]? = if n ∈ chosen then (resid[n]?).map (· - 1) else resid[n]?) ∧
      (decResid resid chosen).sum + chosen.length = resid.sum := by
  induction chosen generalizing resid with
  | nil => simp [decResid]
  | cons c cs ih =>
    have hcn := List.nodup_cons.mp hn
    have hp' : ∀ c' ∈ cs, ∃ r, (decOne resid c)[c']? = some (r + 1) := by
      intro c' hc'
      have hne : c ≠ c' := fun e => hcn.1 (e ▸ hc')
      rw [getElem?_decOne]
      simp only [hne, if_false]
      exact hp c' (List.mem_cons_of_mem _ hc')
    obtain ⟨i1, i2, i3⟩ := ih hcn.2 hp'
    have hfold : decResid resid (c :: cs) = decResid (decOne resid c) cs := by simp [decResid]
    obtain ⟨r, hr⟩ := hp c List.mem_cons_self
    rw [hfold]
    refine ⟨?_, ?_, ?_⟩
    · rw [i1]; simp [decOne]
    · intro n
      rw [i2 n, getElem?_decOne]
      by_cases hnc : c = n
      · subst hnc
        simp [hcn.1]
      · have hnc' : n ≠ c := fun e => hnc e.symm
        simp [hnc, hnc']
    · have := sum_decOne hr
      simp only [List.length_cons]
      omega

/-! ## `_extract_hye` -/

theorem extractHye_spec {keys resid : List Nat} {size : Nat} {fd fm : Bool} {picks : List (List Nat)}
    {o : ExtractOut} (h : extractHye keys resid size fd fm picks = some o) :
    o.resid.length = resid.length ∧ o.hye.Nodup ∧ (∀ x ∈ o.hye, x < resid.length) ∧
      (o.exhausted = false → o.hye.length = size ∧
        (∀ n, o.hye.count n + rd o.resid n = rd resid n) ∧ o.resid.sum + size = resid.sum) ∧
      ((fm || !fd) = true → o.hye.length = size) := by
  unfold extractHye at h
  split at h
  · exact absurd h (by simp)
  · split at h
    · exact absurd h (by simp)
    · -- the loop filled the hyperedge
      rename_i chosen visited picks' hl
      obtain ⟨c1, c2, c3⟩ := pickLoop_spec (posDegs_spec keys).1 hl
      have hp : ∀ c ∈ chosen, ∃ r, resid[c]? = some (r + 1) := by
        intro c hc
        obtain ⟨d, hd, e⟩ := c2 c hc
        have := (posDegs_spec keys).2 d hd
        exact ⟨d - 1, by rw [e]; congr; omega⟩
      obtain ⟨d1, d2, d3⟩ := decResid_spec c1 hp
      simp only [Option.some.injEq] at h
      subst h
      have hlt : ∀ x ∈ chosen, x < resid.length := by
        intro x hx
        obtain ⟨r, hr⟩ := hp x hx
        exact (List.getElem?_eq_some_iff.mp hr).1
      have hlen : chosen.length = size := by omega
      refine ⟨d1, c1, hlt, ?_, fun _ => hlen⟩
      intro _
      refine ⟨hlen, ?_, by simp only; omega⟩
      intro n
      simp only [rd, d2 n, count01 c1]
      by_cases hn : n ∈ chosen
      · obtain ⟨r, hr⟩ := hp n hn
        simp [hn, hr]; omega
      · simp [hn]
    · -- degrees exhausted
      rename_i chosen visited need picks' hl
      obtain ⟨c1, c2, c3⟩ := pickLoop_spec (posDegs_spec keys).1 hl
      have hp : ∀ c ∈ chosen, ∃ r, resid[c]? = some (r + 1) := by
        intro c hc
        obtain ⟨d, hd, e⟩ := c2 c hc
        have := (posDegs_spec keys).2 d hd
        exact ⟨d - 1, by rw [e]; congr; omega⟩
      obtain ⟨d1, d2, d3⟩ := decResid_spec c1 hp
      have hlt : ∀ x ∈ chosen, x < resid.length := by
        intro x hx
        obtain ⟨r, hr⟩ := hp x hx
        exact (List.getElem?_eq_some_iff.mp hr).1
      split at h
      · -- top up with nodes of degree 0
        rename_i htop
        unfold extractTopUp at h
        split at h
        case isFalse => exact absurd h (by simp)
        split at h
        · exact absurd h (by simp)
        · rename_i p ps
          split at h
          · rename_i hv
            obtain ⟨hlen, hsub, hnd⟩ := validPick_spec hv
            simp only [Option.some.injEq] at h
            subst h
            refine ⟨d1, ?_, ?_, by simp, ?_⟩
            · rw [List.nodup_append]
              refine ⟨c1, hnd, ?_⟩
              intro x hx y hy hxy
              subst hxy
              obtain ⟨r, hr⟩ := hp x hx
              have := mem_bucket.mp (hsub x hy)
              rw [hr] at this
              simp at this
            · intro x hx
              rcases List.mem_append.mp hx with hx | hx
              · exact hlt x hx
              · exact (List.getElem?_eq_some_iff.mp (mem_bucket.mp (hsub x hx))).1
            · intro _
              simp only [List.length_append, hlen]
              omega
          · exact absurd h (by simp)
      · -- shrink
        rename_i htop
        unfold extractShrink at h
        split at h
        · exact absurd h (by simp)
        · split at h
          · simp only [Option.some.injEq] at h
            subst h
            exact ⟨rfl, by simp, by simp, by simp, fun ht => absurd ht htop⟩
          · simp only [Option.some.injEq] at h
            subst h
            exact ⟨d1, c1, hlt, by simp, fun ht => absurd ht htop⟩

/-! ## `_match_sequences` -/

/-- what every state of the construction satisfies -/
structure MBasic (N : Nat) (st : MState) : Prop where
  len : st.resid.length = N
  edges : ∀ e ∈ st.cfg, e.Nodup ∧ 2 ≤ e.length ∧ ∀ x ∈ e, x < N

/-- what holds as long as `matching_sequences` has not been set to `False` -/
def MUse (degSeq : List Nat) (st : MState) : Prop :=
  st.flag = true → (∀ n, degOf n st.cfg + rd st.resid n = rd degSeq n) ∧
    st.resid.sum + (st.cfg.map List.length).sum = degSeq.sum

theorem degOf_snoc (n : Nat) (cfg : Config) (e : Hye) : degOf n (cfg ++ [e]) = degOf n cfg + e.count n := by
  rw [degOf_append]; simp [degOf]

theorem extractInto_spec {N : Nat} {degSeq : List Nat} {size : Nat} {fd fm : Bool} {st st' : MState}
    (hb : MBasic N st) (h : extractInto size fd fm st = some st') :
    MBasic N st' ∧
      ((fm || !fd) = true → st'.cfg.map List.length = st.cfg.map List.length ++ sizesOf size 1) ∧
      (2 ≤ size → MUse degSeq st → MUse degSeq st') := by
  unfold extractInto at h
  cases he : extractHye st.keys st.resid size fd fm st.picks with
  | none => simp [he] at h
  | some o =>
    simp only [he, Option.map_some, Option.some.injEq] at h
    obtain ⟨e1, e2, e3, e4, e5⟩ := extractHye_spec he
    subst h
    refine ⟨⟨by simpa [hb.len] using e1, ?_⟩, ?_, ?_⟩
    · intro e hmem
      simp only at hmem
      split at hmem
      · rename_i hlen
        rcases List.mem_append.mp hmem with hmem | hmem
        · exact hb.edges e hmem
        · simp only [List.mem_singleton] at hmem
          subst hmem
          exact ⟨e2, hlen, fun x hx => hb.len ▸ e3 x hx⟩
      · exact hb.edges e hmem
    · intro ht
      have hl := e5 ht
      simp only [sizesOf]
      by_cases h2 : 2 ≤ size
      · have h1 : 1 < size := by omega
        simp [h1, h2, hl]
      · have : ¬ 1 < o.hye.length := by omega
        simp [this, h2]
    · intro h2 hu hflag
      simp only [Bool.and_eq_true, Bool.not_eq_true'] at hflag
      obtain ⟨hf, hex⟩ := hflag
      obtain ⟨u1, u2⟩ := hu hf
      obtain ⟨f1, f2, f3⟩ := e4 hex
      have : 1 < o.hye.length := by omega
      simp only [this, if_true]
      constructor
      · intro n
        rw [degOf_snoc]
        have := f2 n
        have := u1 n
        omega
      · simp only [List.map_append, List.map_cons, List.map_nil, List.sum_append_nat, List.sum_cons,
          List.sum_nil]
        omega

theorem extractMany_spec {N : Nat} {degSeq : List Nat} {size : Nat} {fd fm : Bool} {k : Nat}
    {st st' : MState} (hb : MBasic N st) (h : extractMany size fd fm k st = some st') :
    MBasic N st' ∧
      ((fm || !fd) = true → st'.cfg.map List.length = st.cfg.map List.length ++ sizesOf size k) ∧
      (2 ≤ size → MUse degSeq st → MUse degSeq st') := by
  induction k generalizing st with
  | zero =>
    simp only [extractMany, Option.some.injEq] at h
    subst h
    exact ⟨hb, fun _ => by simp [sizesOf], fun _ hu => hu⟩
  | succ k ih =>
    simp only [extractMany] at h
    cases h1 : extractInto size fd fm st with
    | none => simp [h1] at h
    | some s1 =>
      simp only [h1, Option.bind_some] at h
      obtain ⟨a1, a2, a3⟩ := extractInto_spec (degSeq := degSeq) hb h1
      obtain ⟨b1, b2, b3⟩ := ih a1 h
      refine ⟨b1, ?_, fun h2 hu => b3 h2 (a3 h2 hu)⟩
      intro ht
      rw [b2 ht, a2 ht, List.append_assoc]
      congr 1
      simp only [sizesOf]
      split
      · simp [List.replicate_succ]
      · simp

theorem matchLoop_spec {N : Nat} {degSeq : List Nat} {fd fm : Bool} {dimSeq : List (Nat × Nat)}
    {st st' : MState} (hb : MBasic N st) (h : matchLoop fd fm dimSeq st = some st') :
    MBasic N st' ∧
      ((fm || !fd) = true → st'.cfg.map List.length = st.cfg.map List.length ++ sizesOfSeq dimSeq) ∧
      ((∀ p ∈ dimSeq, 2 ≤ p.1) → MUse degSeq st → MUse degSeq st') := by
  induction dimSeq generalizing st with
  | nil =>
    simp only [matchLoop, Option.some.injEq] at h
    subst h
    exact ⟨hb, fun _ => by simp [sizesOfSeq], fun _ hu => hu⟩
  | cons p rest ih =>
    obtain ⟨size, cnt⟩ := p
    simp only [matchLoop] at h
    cases h1 : extractMany size fd fm cnt st with
    | none => simp [h1] at h
    | some s1 =>
      simp only [h1, Option.bind_some] at h
      obtain ⟨a1, a2, a3⟩ := extractMany_spec (degSeq := degSeq) hb h1
      obtain ⟨b1, b2, b3⟩ := ih a1 h
      refine ⟨b1, ?_, ?_⟩
      · intro ht
        rw [b2 ht, a2 ht, List.append_assoc]
        simp [sizesOfSeq]
      · intro hall hu
        exact b3 (fun q hq => hall q (List.mem_cons_of_mem _ hq))
          (a3 (hall (size, cnt) List.mem_cons_self) hu)

/-! ## totals -/

theorem sum_sizesOfSeq {dimSeq : List (Nat × Nat)} (hall : ∀ p ∈ dimSeq, 2 ≤ p.1) :
    (sizesOfSeq dimSeq).sum = (dimSeq.map (fun p => p.1 * p.2)).sum := by
  induction dimSeq with
  | nil => simp [sizesOfSeq]
  | cons p rest ih =>
    have h2 := hall p List.mem_cons_self
    have := ih (fun q hq => hall q (List.mem_cons_of_mem _ hq))
    simp only [sizesOfSeq, List.flatMap_cons, List.sum_append_nat, List.map_cons, List.sum_cons] at this ⊢
    rw [this]
    simp only [sizesOf, h2, if_true]
    congr 1
    generalize p.2 = k
    induction k with
    | zero => simp
    | succ k ihk => simp [List.replicate_succ, ihk, Nat.mul_succ]; omega

theorem count_sizesOfSeq (dimSeq : List (Nat × Nat)) (s : Nat) (hs : 2 ≤ s) :
    (sizesOfSeq dimSeq).count s = dimCount dimSeq s := by
  induction dimSeq with
  | nil => simp [sizesOfSeq, dimCount]
  | cons p rest ih =>
    simp only [sizesOfSeq, List.flatMap_cons, List.count_append, dimCount] at ih ⊢
    rw [ih]
    simp only [sizesOf, List.filter_cons]
    by_cases hp : p.1 = s
    · have : 2 ≤ p.1 := by omega
      simp [hp, this, List.count_replicate]
      simp [← hp, this]
    · have hne : (p.1 == s) = false := by simpa using hp
      simp only [hne]
      split
      · simp [List.count_replicate, hp]
      · simp

theorem all_zero_of_sum_zero {l : List Nat} (h : l.sum = 0) (n : Nat) : rd l n = 0 := by
  unfold rd
  cases hn : l[n]? with
  | none => rfl
  | some v =>
    have := List.sum_eq_zero_iff_forall_eq_nat.mp h v (List.mem_of_getElem? hn)
    simpa using this

end C16

namespace C16

/-! ## `_deg_seq_to_dict` is the bucket index of the degree map -/

def dictStep (d : List (Nat × List Nat)) (p : Nat × Nat) : List (Nat × List Nat) :=
  AL.set d p.1 (((AL.get? d p.1).getD []) ++ [p.2])

theorem degToDict_eq (s : List Nat) : degToDict s = s.zipIdx.foldl dictStep [] := rfl

theorem foldl_dictStep_get (l : List (Nat × Nat)) (D : List (Nat × List Nat)) (d : Nat) :
    (AL.get? (l.foldl dictStep D) d).getD [] =
      (AL.get? D d).getD [] ++ (l.filter (fun p => p.1 == d)).map (·.2) := by
  induction l generalizing D with
  | nil => simp
  | cons p ps ih =>
    simp only [List.foldl_cons, ih, List.filter_cons]
    by_cases hp : p.1 = d
    · subst hp
      simp [dictStep, AL.get?_set]
    · have hne : (p.1 == d) = false := by simpa using hp
      simp [dictStep, AL.get?_set, hp, hne]

theorem foldl_dictStep_keys (l : List (Nat × Nat)) (D : List (Nat × List Nat)) (hD : (AL.keys D).Nodup) :
    (AL.keys (l.foldl dictStep D)).Nodup := by
  induction l generalizing D with
  | nil => exact hD
  | cons p ps ih =>
    apply ih
    unfold dictStep
    cases hg : AL.get? D p.1 with
    | none =>
      rw [AL.keys_set_of_not_mem _ _ _ hg, List.nodup_append]
      refine ⟨hD, by simp, ?_⟩
      intro a ha b hb hab
      simp at hb
      subst hb
      exact ((AL.get?_eq_none_iff D p.1).mp hg) (hab ▸ ha)
    | some v =>
      rw [AL.keys_set_of_mem _ _ _ (by simp [hg])]
      exact hD

end C16
