import Hgxv.Model.C14
/-! Helper lemmas for C14 (core Lean only). -/
namespace C14

/-! ## sorting -/

theorem insertSorted_perm (a : Nat) (l : List Nat) : (insertSorted a l).Perm (a :: l) := by
  induction l with
  | nil => simp [insertSorted]
  | cons b l ih =>
    simp only [insertSorted]; split
    · exact List.Perm.refl _
    · exact (List.Perm.cons b ih).trans (List.Perm.swap a b l)

theorem sortE_perm (e : List Nat) : (sortE e).Perm e := by
  induction e with
  | nil => exact List.Perm.refl _
  | cons a l ih => exact (insertSorted_perm a _).trans (List.Perm.cons a ih)

@[simp] theorem mem_sortE {e : List Nat} {x : Nat} : x ∈ sortE e ↔ x ∈ e := (sortE_perm e).mem_iff
@[simp] theorem length_sortE (e : List Nat) : (sortE e).length = e.length := (sortE_perm e).length_eq
@[simp] theorem nodup_sortE {e : List Nat} : (sortE e).Nodup ↔ e.Nodup := (sortE_perm e).nodup_iff

theorem insertSorted_sorted (a : Nat) (l : List Nat) (h : l.Pairwise (· ≤ ·)) :
    (insertSorted a l).Pairwise (· ≤ ·) := by
  induction l with
  | nil => simp [insertSorted]
  | cons b l ih =>
    rw [List.pairwise_cons] at h
    simp only [insertSorted]; split
    · rename_i hab
      rw [List.pairwise_cons]
      refine ⟨?_, List.pairwise_cons.mpr h⟩
      intro x hx
      rcases List.mem_cons.mp hx with rfl | hx
      · exact hab
      · exact Nat.le_trans hab (h.1 x hx)
    · rename_i hab
      rw [List.pairwise_cons]
      refine ⟨?_, ih h.2⟩
      intro x hx
      rcases List.mem_cons.mp ((insertSorted_perm a l).mem_iff.mp hx) with rfl | hx
      · omega
      · exact h.1 x hx

theorem sortE_sorted (e : List Nat) : (sortE e).Pairwise (· ≤ ·) := by
  induction e with
  | nil => simp [sortE]
  | cons a l ih => exact insertSorted_sorted a _ ih

theorem sortE_of_sorted (e : List Nat) (h : e.Pairwise (· ≤ ·)) : sortE e = e := by
  induction e with
  | nil => rfl
  | cons a l ih =>
    rw [List.pairwise_cons] at h
    show insertSorted a (sortE l) = a :: l
    rw [ih h.2]
    cases l with
    | nil => rfl
    | cons b l => simp [insertSorted, h.1 b (by simp)]

@[simp] theorem sortE_sortE (e : List Nat) : sortE (sortE e) = sortE e := sortE_of_sorted _ (sortE_sorted e)

/-! ## insNew / insAll / dedup -/
section ins
variable {α : Type} [DecidableEq α]

theorem mem_insNew {acc : List α} {x y : α} : y ∈ insNew acc x ↔ y ∈ acc ∨ y = x := by
  unfold insNew; split <;> simp_all

theorem nodup_insNew {acc : List α} {x : α} (h : acc.Nodup) : (insNew acc x).Nodup := by
  unfold insNew; split
  · exact h
  · rw [List.nodup_append]; simp_all
    intro a ha he; subst he; contradiction

theorem length_insNew_le (acc : List α) (x : α) : (insNew acc x).length ≤ acc.length + 1 := by
  unfold insNew; split <;> simp

theorem le_length_insNew (acc : List α) (x : α) : acc.length ≤ (insNew acc x).length := by
  unfold insNew; split <;> simp

theorem insNew_of_mem {acc : List α} {x : α} (h : x ∈ acc) : insNew acc x = acc := by
  unfold insNew; simp [h]

theorem insNew_of_not_mem {acc : List α} {x : α} (h : x ∉ acc) : insNew acc x = acc ++ [x] := by
  unfold insNew; simp [h]

@[simp] theorem insAll_nil (acc : List α) : insAll acc [] = acc := rfl
@[simp] theorem insAll_cons (acc : List α) (x : α) (l : List α) : insAll acc (x :: l) = insAll (insNew acc x) l := rfl

theorem insAll_append (acc l l' : List α) : insAll acc (l ++ l') = insAll (insAll acc l) l' := by
  unfold insAll; exact List.foldl_append

theorem mem_insAll {l : List α} : ∀ {acc : List α} {y : α}, y ∈ insAll acc l ↔ y ∈ acc ∨ y ∈ l := by
  induction l with
  | nil => simp
  | cons x l ih => intro acc y; rw [insAll_cons, ih, mem_insNew]; simp; grind

theorem nodup_insAll {l : List α} : ∀ {acc : List α}, acc.Nodup → (insAll acc l).Nodup := by
  induction l with
  | nil => simp
  | cons x l ih => intro acc h; exact ih (nodup_insNew h)

theorem length_insAll_le (l : List α) : ∀ (acc : List α), (insAll acc l).length ≤ acc.length + l.length := by
  induction l with
  | nil => simp
  | cons x l ih => intro acc; have := ih (insNew acc x); have := length_insNew_le acc x; simp; omega

theorem le_length_insAll (l : List α) : ∀ (acc : List α), acc.length ≤ (insAll acc l).length := by
  induction l with
  | nil => simp
  | cons x l ih => intro acc; have := ih (insNew acc x); have := le_length_insNew acc x; simp; omega

theorem insAll_of_subset {l : List α} : ∀ {acc : List α}, (∀ x ∈ l, x ∈ acc) → insAll acc l = acc := by
  induction l with
  | nil => simp
  | cons x l ih =>
    intro acc h
    rw [insAll_cons, insNew_of_mem (h x (by simp))]
    exact ih (fun y hy => h y (by simp [hy]))

/-- fresh, pairwise different elements are appended in order -/
theorem insAll_fresh {l : List α} : ∀ {acc : List α}, l.Nodup → (∀ x ∈ l, x ∉ acc) → insAll acc l = acc ++ l := by
  induction l with
  | nil => simp
  | cons x l ih =>
    intro acc hnd hfresh
    rw [insAll_cons, insNew_of_not_mem (hfresh x (by simp))]
    rw [List.nodup_cons] at hnd
    rw [ih hnd.2]
    · simp
    · intro y hy; simp; exact ⟨hfresh y (by simp [hy]), fun h => hnd.1 (h ▸ hy)⟩

theorem filter_insNew_of_not (p : α → Bool) (acc : List α) (x : α) (h : p x = false) :
    (insNew acc x).filter p = acc.filter p := by
  unfold insNew; split <;> simp [h]

theorem filter_insAll_of_not (p : α → Bool) {l : List α} : ∀ (acc : List α), (∀ x ∈ l, p x = false) →
    (insAll acc l).filter p = acc.filter p := by
  induction l with
  | nil => simp
  | cons x l ih =>
    intro acc h
    rw [insAll_cons, ih _ (fun y hy => h y (by simp [hy])), filter_insNew_of_not p acc x (h x (by simp))]

theorem mem_dedup {l : List α} {y : α} : y ∈ dedup l ↔ y ∈ l := by simp [dedup, mem_insAll]
theorem nodup_dedup (l : List α) : (dedup l).Nodup := nodup_insAll List.nodup_nil
theorem length_dedup_le (l : List α) : (dedup l).length ≤ l.length := by
  have := length_insAll_le l []; simpa [dedup] using this
theorem length_dedup_pos {l : List α} (h : l ≠ []) : 1 ≤ (dedup l).length := by
  obtain ⟨x, hx⟩ := List.exists_mem_of_ne_nil l h
  have : x ∈ dedup l := mem_dedup.mpr hx
  exact List.length_pos_of_mem this

end ins

/-! ## association lists -/
section al
variable {β : Type}

theorem AL.get?_append_single (l : List (Edge × β)) (k k2 : Edge) (v : β) :
    AL.get? (l ++ [(k, v)]) k2 = match AL.get? l k2 with
      | some x => some x
      | none => if k = k2 then some v else none := by
  induction l with
  | nil => simp [AL.get?]
  | cons hd t ih => grind [AL.get?]

theorem AL.keys_set (l : List (Edge × β)) (k : Edge) (v : β) : AL.keys (AL.set l k v) = insNew (AL.keys l) k := by
  by_cases h : k ∈ AL.keys l
  · rw [insNew_of_mem h]
    apply AL.keys_set_of_mem
    cases hg : AL.get? l k with
    | none => exact absurd h ((AL.get?_eq_none_iff l k).mp hg)
    | some x => rfl
  · rw [insNew_of_not_mem h]
    exact AL.keys_set_of_not_mem l k v ((AL.get?_eq_none_iff l k).mpr h)

theorem AL.erase_eq_filter (l : List (Edge × β)) (k : Edge) (h : (AL.keys l).Nodup) :
    AL.erase l k = l.filter (fun r => !(r.1 == k)) := by
  induction l with
  | nil => simp [AL.erase]
  | cons hd t ih =>
    simp only [AL.keys, List.map_cons, List.nodup_cons] at h
    by_cases hk : hd.1 = k
    · simp only [AL.erase, hk, if_true, List.filter_cons, beq_self_eq_true, Bool.not_true]
      symm; simp only [Bool.false_eq_true, if_false]
      rw [List.filter_eq_self]
      intro r hr
      have : r.1 ≠ k := by
        intro he; apply h.1; rw [hk, ← he]; exact List.mem_map_of_mem hr
      simp [this]
    · simp only [AL.erase, hk, if_false, List.filter_cons]
      have : (!(hd.1 == k)) = true := by simp [hk]
      simp only [this, if_true]
      rw [ih (by simpa [AL.keys] using h.2)]

theorem AL.mem_keys_iff (l : List (Edge × β)) (k : Edge) : k ∈ AL.keys l ↔ ∃ v, (k, v) ∈ l := by
  simp [AL.keys]

theorem AL.get?_of_mem (l : List (Edge × β)) (h : (AL.keys l).Nodup) (k : Edge) (v : β) (hm : (k, v) ∈ l) :
    AL.get? l k = some v := by
  induction l with
  | nil => simp at hm
  | cons hd t ih =>
    simp only [AL.keys, List.map_cons, List.nodup_cons] at h
    rcases List.mem_cons.mp hm with rfl | hm'
    · simp [AL.get?]
    · have hne : hd.1 ≠ k := by
        intro he; apply h.1; rw [he]; exact List.mem_map_of_mem (f := Prod.fst) hm'
      obtain ⟨k', v'⟩ := hd
      simp only [AL.get?]
      simp only at hne
      simp only [hne, if_false]
      exact ih (by simpa [AL.keys] using h.2) hm'

theorem AL.mem_of_get? (l : List (Edge × β)) (k : Edge) (v : β) (h : AL.get? l k = some v) : (k, v) ∈ l := by
  induction l with
  | nil => simp [AL.get?] at h
  | cons hd t ih => grind [AL.get?]

/-- lookup is invariant under permutations when the keys are distinct -/
theorem AL.get?_perm {l l' : List (Edge × β)} (hp : l.Perm l') (h : (AL.keys l).Nodup) (k : Edge) :
    AL.get? l k = AL.get? l' k := by
  have h' : (AL.keys l').Nodup := (hp.map Prod.fst).nodup_iff.mp h
  cases hg : AL.get? l k with
  | some v => exact (AL.get?_of_mem l' h' k v (hp.mem_iff.mp (AL.mem_of_get? l k v hg))).symm
  | none =>
    cases hg' : AL.get? l' k with
    | none => rfl
    | some v =>
      have := AL.get?_of_mem l h k v (hp.mem_iff.mpr (AL.mem_of_get? l' k v hg'))
      rw [hg] at this; cases this

end al

end C14
