import Hgxv.Proofs.C15Sum
/-! # C15 — the updates `_w_update`, `_u_update`: linear forms, signs, symmetry -/
open Finset
namespace C15

/-- `ĉ_{S,ab} = ½ Σ_{i≠j∈S} u_ia u_jb`: coefficient of `w_ab` in the Poisson parameter of the node set `S` -/
def chat (u : Mat) (S : Finset ℕ) (a b : ℕ) : ℚ := half * ∑ p ∈ S.offDiag, u p.1 a * u p.2 b

theorem half_pos : (0 : ℚ) < half := by unfold half; norm_num

theorem chat_nonneg (u : Mat) (hu : ∀ i a, 0 ≤ u i a) (S : Finset ℕ) (a b : ℕ) : 0 ≤ chat u S a b :=
  mul_nonneg half_pos.le (Finset.sum_nonneg fun _ _ => mul_nonneg (hu _ _) (hu _ _))

theorem sum_rot {ι : Type} (P : Finset ι) (A B : Finset ℕ) (F : ι → ℕ → ℕ → ℚ) :
    ∑ p ∈ P, ∑ b ∈ B, ∑ a ∈ A, F p b a = ∑ a ∈ A, ∑ b ∈ B, ∑ p ∈ P, F p b a := by
  rw [Finset.sum_comm]
  have h : ∀ b ∈ B, ∑ p ∈ P, ∑ a ∈ A, F p b a = ∑ a ∈ A, ∑ p ∈ P, F p b a := fun b _ => Finset.sum_comm
  rw [Finset.sum_congr rfl h, Finset.sum_comm]

theorem lin_form (K : ℕ) (u w : Mat) (S : Finset ℕ) :
    half * ∑ p ∈ S.offDiag, aij K u w p.1 p.2
      = ∑ a ∈ range K, ∑ b ∈ range K, chat u S a b * w a b := by
  unfold chat
  simp only [aij, bf_eq, Finset.mul_sum, Finset.sum_mul]
  rw [sum_rot]
  apply Finset.sum_congr rfl; intro a _
  apply Finset.sum_congr rfl; intro b _
  apply Finset.sum_congr rfl; intro p _
  ring

/-- the Poisson parameter is linear in `w` with the non-negative coefficients `ĉ` (any `w`) -/
theorem poisson_lin (N K : ℕ) (u w : Mat) (e : List ℕ) :
    poisson N K u w e = ∑ a ∈ range K, ∑ b ∈ range K, chat u (nodesOf N e) a b * w a b := by
  rw [poisson_eq_offDiag, lin_form]

theorem bfSum_lin (N K : ℕ) (u w : Mat) :
    bfSum N K u w = ∑ a ∈ range K, ∑ b ∈ range K, chat u (range N) a b * w a b := by
  rw [bfSum_eq_offDiag, lin_form]

theorem prod_sub_diag (S : Finset ℕ) (x y : ℕ → ℚ) :
    (∑ i ∈ S, x i) * (∑ j ∈ S, y j) - ∑ i ∈ S, x i * y i = ∑ p ∈ S.offDiag, x p.1 * y p.2 := by
  rw [Finset.sum_mul_sum, sum_sum_sub_diag S (fun i j => x i * y j)]

/-! ### the guarded division (`np.divide(.., out=zeros, where=denominator > 0)`) -/

theorem safeDiv_of_pos (x y : ℚ) (hy : 0 < y) : safeDiv x y = x / y := by
  unfold safeDiv; rw [if_pos hy]

theorem safeDiv_of_not_pos (x y : ℚ) (hy : ¬ 0 < y) : safeDiv x y = 0 := by
  unfold safeDiv; rw [if_neg hy]

/-- for a non-negative denominator the guarded division is the quotient in `ℚ` (where `x / 0 = 0`) -/
theorem safeDiv_of_nonneg (x y : ℚ) (hy : 0 ≤ y) : safeDiv x y = x / y := by
  rcases hy.lt_or_eq with h | h
  · exact safeDiv_of_pos x y h
  · rw [safeDiv_of_not_pos x y (by rw [← h]; exact lt_irrefl 0), ← h, div_zero]

theorem safeDiv_nonneg (x y : ℚ) (hx : 0 ≤ x) : 0 ≤ safeDiv x y := by
  unfold safeDiv; split
  · rename_i h; exact div_nonneg hx h.le
  · exact le_refl 0

theorem safeDiv_zero_left (y : ℚ) : safeDiv 0 y = 0 := by
  unfold safeDiv; split <;> simp

/-- the coefficients grow with the node set (`u ≥ 0`): a hyperedge's pairs are among all pairs of nodes -/
theorem chat_mono (u : Mat) (hu : ∀ i a, 0 ≤ u i a) (S T : Finset ℕ) (h : S ⊆ T) (a b : ℕ) :
    chat u S a b ≤ chat u T a b := by
  unfold chat
  exact mul_le_mul_of_nonneg_left
    (Finset.sum_le_sum_of_subset_of_nonneg (Finset.offDiag_mono h) fun _ _ _ => mul_nonneg (hu _ _) (hu _ _))
    half_pos.le

theorem nodesOf_subset (N : ℕ) (e : List ℕ) : nodesOf N e ⊆ range N := Finset.filter_subset _ _

theorem wDen_eq (N : ℕ) (u : Mat) (a b : ℕ) : wDen N u a b = chat u (range N) a b := by
  unfold wDen chat colSum
  simp only [sumTo_eq]
  rw [prod_sub_diag]

theorem inc_sum' (N : ℕ) (e : List ℕ) (f : ℕ → ℚ) :
    ∑ i ∈ range N, inc e i * f i = ∑ i ∈ nodesOf N e, f i := by
  rw [← sumTo_eq, inc_sum]

theorem wNum_eq (d : Data) (u w : Mat) (a b : ℕ) :
    wNum d u w a b
      = w a b * ∑ e ∈ range d.E, mult d u w e * chat u (nodesOf d.N (d.edge e)) a b := by
  unfold wNum
  simp only [sumTo_eq]
  have h2 : ∑ i ∈ range d.N, u i a * (u i b * ∑ e ∈ range d.E, weighting d u w i e)
      = ∑ e ∈ range d.E, mult d u w e * ∑ i ∈ nodesOf d.N (d.edge e), u i a * u i b := by
    simp only [Finset.mul_sum]
    rw [Finset.sum_comm]
    apply Finset.sum_congr rfl; intro e _
    rw [← inc_sum']
    apply Finset.sum_congr rfl; intro i _
    unfold weighting; ring
  have h1 : ∑ e ∈ range d.E, edgeSum d.N u (d.edge e) a * (edgeSum d.N u (d.edge e) b * mult d u w e)
      = ∑ e ∈ range d.E, mult d u w e * ((∑ i ∈ nodesOf d.N (d.edge e), u i a) * ∑ j ∈ nodesOf d.N (d.edge e), u j b) := by
    apply Finset.sum_congr rfl; intro e _
    rw [edgeSum_eq]; ring
  rw [h1, h2, ← Finset.sum_sub_distrib]
  unfold chat
  rw [Finset.mul_sum, Finset.mul_sum]
  apply Finset.sum_congr rfl; intro e _
  rw [← prod_sub_diag (nodesOf d.N (d.edge e)) (fun i => u i a) (fun j => u j b)]; ring

/-- `_w_update` in terms of the coefficients: the guarded quotient of `w_ab · Σ_e A_e ĉ_{e,ab} / λ_e` and `b_ab + r_ab` -/
theorem wUpdate_def (d : Data) (u w r : Mat) (a b : ℕ) :
    wUpdate d u w r a b
      = safeDiv (w a b * (∑ e ∈ range d.E, d.A e * chat u (nodesOf d.N (d.edge e)) a b / poisson d.N d.K u w (d.edge e)))
          (chat u (range d.N) a b + r a b) := by
  unfold wUpdate
  rw [wNum_eq, wDen_eq]
  have h : ∑ e ∈ range d.E, mult d u w e * chat u (nodesOf d.N (d.edge e)) a b
      = ∑ e ∈ range d.E, d.A e * chat u (nodesOf d.N (d.edge e)) a b / poisson d.N d.K u w (d.edge e) := by
    apply Finset.sum_congr rfl; intro e _
    unfold mult; ring
  rw [h]

/-- `_w_update` as the multiplicative MM step `w_ab · (Σ_e A_e ĉ_{e,ab} / λ_e) / (b_ab + r_ab)`
(`u, r ≥ 0`: the denominator is `≥ 0`; where it vanishes both sides are 0) -/
theorem wUpdate_eq (d : Data) (u w r : Mat) (hu : ∀ i a, 0 ≤ u i a) (hr : ∀ a b, 0 ≤ r a b) (a b : ℕ) :
    wUpdate d u w r a b
      = w a b * (∑ e ∈ range d.E, d.A e * chat u (nodesOf d.N (d.edge e)) a b / poisson d.N d.K u w (d.edge e))
          / (chat u (range d.N) a b + r a b) := by
  rw [wUpdate_def, safeDiv_of_nonneg _ _ (add_nonneg (chat_nonneg u hu _ _ _) (hr a b))]

theorem poisson_nonneg (N K : ℕ) (u w : Mat) (hu : ∀ i a, 0 ≤ u i a) (hw : ∀ a b, 0 ≤ w a b) (e : List ℕ) :
    0 ≤ poisson N K u w e := by
  rw [poisson_lin]
  exact Finset.sum_nonneg fun a _ => Finset.sum_nonneg fun b _ => mul_nonneg (chat_nonneg u hu _ _ _) (hw _ _)

theorem mult_nonneg (d : Data) (u w : Mat) (hu : ∀ i a, 0 ≤ u i a) (hw : ∀ a b, 0 ≤ w a b)
    (hA : ∀ e < d.E, 0 ≤ d.A e) (e : ℕ) (he : e < d.E) : 0 ≤ mult d u w e :=
  div_nonneg (hA e he) (poisson_nonneg _ _ u w hu hw _)

theorem wUpdate_nonneg (d : Data) (u w r : Mat) (hu : ∀ i a, 0 ≤ u i a) (hw : ∀ a b, 0 ≤ w a b)
    (hA : ∀ e < d.E, 0 ≤ d.A e) (a b : ℕ) : 0 ≤ wUpdate d u w r a b := by
  unfold wUpdate
  rw [wNum_eq]
  apply safeDiv_nonneg
  exact mul_nonneg (hw a b) (Finset.sum_nonneg fun e he =>
    mul_nonneg (mult_nonneg d u w hu hw hA e (mem_range.mp he)) (chat_nonneg u hu _ _ _))

theorem wNum_symm (d : Data) (u w : Mat) (a b : ℕ) (h : w a b = w b a) :
    wNum d u w a b = wNum d u w b a := by
  unfold wNum
  simp only [sumTo_eq]
  rw [h]
  congr 2
  · apply Finset.sum_congr rfl; intro e _; ring
  · apply Finset.sum_congr rfl; intro i _; ring

theorem wDen_symm (N : ℕ) (u : Mat) (a b : ℕ) : wDen N u a b = wDen N u b a := by
  unfold wDen
  simp only [sumTo_eq]
  congr 1
  rw [mul_comm]
  congr 1
  apply Finset.sum_congr rfl; intro i _; ring

theorem wUpdate_symm (d : Data) (u w r : Mat) (a b : ℕ) (hw : w a b = w b a) (hr : r a b = r b a) :
    wUpdate d u w r a b = wUpdate d u w r b a := by
  unfold wUpdate
  rw [wNum_symm d u w a b hw, wDen_symm, hr]

theorem wUpdate_zero (d : Data) (u w r : Mat) (a b : ℕ) (hw : w a b = 0) : wUpdate d u w r a b = 0 := by
  unfold wUpdate wNum
  rw [hw]; simp [safeDiv_zero_left]

/-- **the branch of the repair**: where the denominator of `_w_update` is not positive (`u, r ≥ 0`: it is 0, no two
different nodes carry the communities `a` and `b`) the numerator vanishes as well - the entry was `0 / 0`, it does
not occur in any Poisson parameter (`poisson_lin`: its coefficients `ĉ` are 0), and the update sets it to 0 -/
theorem wNum_zero_of_den (d : Data) (u w r : Mat) (hu : ∀ i a, 0 ≤ u i a) (hr : ∀ a b, 0 ≤ r a b) (a b : ℕ)
    (h : ¬ 0 < wDen d.N u a b + r a b) :
    wNum d u w a b = 0 ∧ (∀ e, chat u (nodesOf d.N (d.edge e)) a b = 0) ∧ r a b = 0 := by
  rw [wDen_eq] at h
  have h0 : chat u (range d.N) a b = 0 := by
    have := chat_nonneg u hu (range d.N) a b; have := hr a b; linarith [not_lt.mp h]
  have hr0 : r a b = 0 := by
    have := chat_nonneg u hu (range d.N) a b; have := hr a b; linarith [not_lt.mp h]
  have hc : ∀ e, chat u (nodesOf d.N (d.edge e)) a b = 0 := fun e =>
    le_antisymm (h0 ▸ chat_mono u hu _ _ (nodesOf_subset _ _) a b) (chat_nonneg u hu _ a b)
  refine ⟨?_, hc, hr0⟩
  rw [wNum_eq]
  simp [hc]

theorem allTo_iff (n : ℕ) (p : ℕ → Bool) : allTo n p = true ↔ ∀ i < n, p i = true := by
  simp [allTo]

/-! ## `_u_update` -/

theorem edgeSum_ge (N : ℕ) (u : Mat) (hu : ∀ i a, 0 ≤ u i a) (e : List ℕ) (i : ℕ) (hi : i < N) (hie : i ∈ e)
    (c : ℕ) : u i c ≤ edgeSum N u e c := by
  rw [edgeSum_eq]
  exact Finset.single_le_sum (f := fun j => u j c) (fun j _ => hu j c)
    (by simp [nodesOf, hi, hie] : i ∈ nodesOf N e)

theorem colSum_ge (N : ℕ) (u : Mat) (hu : ∀ i a, 0 ≤ u i a) (i : ℕ) (hi : i < N) (c : ℕ) :
    u i c ≤ colSum N u c := by
  rw [colSum_eq]
  exact Finset.single_le_sum (f := fun j => u j c) (fun j _ => hu j c) (mem_range.mpr hi)

theorem uNum_nonneg (d : Data) (u w : Mat) (hu : ∀ i a, 0 ≤ u i a) (hw : ∀ a b, 0 ≤ w a b)
    (hA : ∀ e < d.E, 0 ≤ d.A e) (i : ℕ) (hi : i < d.N) (a : ℕ) : 0 ≤ uNum d u w i a := by
  unfold uNum
  simp only [sumTo_eq]
  apply mul_nonneg (hu i a)
  apply Finset.sum_nonneg; intro c _
  apply mul_nonneg _ (hw c a)
  rw [Finset.sum_mul, ← Finset.sum_sub_distrib]
  apply Finset.sum_nonneg; intro e he
  rw [← mul_sub]
  unfold weighting inc
  split
  · rename_i hie
    have := edgeSum_ge d.N u hu (d.edge e) i hi hie c
    have hm := mult_nonneg d u w hu hw hA e (mem_range.mp he)
    rw [one_mul]
    exact mul_nonneg hm (by linarith)
  · simp

theorem uDen_nonneg (d : Data) (u w : Mat) (hu : ∀ i a, 0 ≤ u i a) (hw : ∀ a b, 0 ≤ w a b)
    (hsym : ∀ a < d.K, ∀ b < d.K, w a b = w b a) (i : ℕ) (hi : i < d.N) (a : ℕ) (ha : a < d.K) :
    0 ≤ uDen d u w i a := by
  unfold uDen
  simp only [sumTo_eq]
  rw [← Finset.sum_sub_distrib]
  apply Finset.sum_nonneg; intro c hc
  rw [hsym a ha c (mem_range.mp hc), mul_comm (u i c), ← mul_sub]
  exact mul_nonneg (hw c a) (by have := colSum_ge d.N u hu i hi c; linarith)

theorem uUpdate_nonneg (d : Data) (u w r : Mat) (hu : ∀ i a, 0 ≤ u i a) (hw : ∀ a b, 0 ≤ w a b)
    (hA : ∀ e < d.E, 0 ≤ d.A e) (i : ℕ) (hi : i < d.N) (a : ℕ) : 0 ≤ uUpdate d u w r i a := by
  unfold uUpdate
  exact safeDiv_nonneg _ _ (uNum_nonneg d u w hu hw hA i hi a)

theorem edgeSum_le_colSum (N : ℕ) (u : Mat) (hu : ∀ i a, 0 ≤ u i a) (e : List ℕ) (c : ℕ) :
    edgeSum N u e c ≤ colSum N u c := by
  rw [edgeSum_eq, colSum_eq]
  exact Finset.sum_le_sum_of_subset_of_nonneg (nodesOf_subset N e) fun j _ _ => hu j c

/-- **the branch of the repair in `_u_update`**: where the denominator is not positive (`u, w, r ≥ 0`, `w` symmetric: it
is 0 - community `a` has no affinity with the memberships of the nodes other than `i`) the numerator vanishes as
well: the entry was `0 / 0` and the update sets it to 0 -/
theorem uNum_zero_of_den (d : Data) (u w r : Mat) (hu : ∀ i a, 0 ≤ u i a) (hw : ∀ a b, 0 ≤ w a b)
    (hsym : ∀ a < d.K, ∀ b < d.K, w a b = w b a) (hr : ∀ i a, 0 ≤ r i a)
    (i : ℕ) (hi : i < d.N) (a : ℕ) (ha : a < d.K) (h : ¬ 0 < uDen d u w i a + r i a) : uNum d u w i a = 0 := by
  have hden : uDen d u w i a = 0 := by
    have := uDen_nonneg d u w hu hw hsym i hi a ha; have := hr i a; linarith [not_lt.mp h]
  -- every summand `w_ca (Σ_j u_jc − u_ic)` of the denominator vanishes
  have hterm : ∀ c ∈ range d.K, w c a * (colSum d.N u c - u i c) = 0 := by
    have hnn : ∀ c ∈ range d.K, 0 ≤ w c a * (colSum d.N u c - u i c) := fun c _ =>
      mul_nonneg (hw c a) (by have := colSum_ge d.N u hu i hi c; linarith)
    have hsum : ∑ c ∈ range d.K, w c a * (colSum d.N u c - u i c) = 0 := by
      rw [← hden]; unfold uDen
      simp only [sumTo_eq]
      rw [← Finset.sum_sub_distrib]
      apply Finset.sum_congr rfl; intro c hc
      rw [hsym a ha c (mem_range.mp hc)]; ring
    exact (Finset.sum_eq_zero_iff_of_nonneg hnn).mp hsum
  unfold uNum
  simp only [sumTo_eq]
  apply mul_eq_zero_of_right
  apply Finset.sum_eq_zero; intro c hc
  rcases mul_eq_zero.mp (hterm c hc) with h0 | h0
  · rw [h0, mul_zero]
  · apply mul_eq_zero_of_left
    rw [Finset.sum_mul, ← Finset.sum_sub_distrib]
    apply Finset.sum_eq_zero; intro e _
    rw [← mul_sub]
    unfold weighting inc
    split
    · rename_i hie
      have h1 := edgeSum_ge d.N u hu (d.edge e) i hi hie c
      have h2 := edgeSum_le_colSum d.N u hu (d.edge e) c
      have : edgeSum d.N u (d.edge e) c - u i c = 0 := by linarith
      rw [this, mul_zero]
    · simp

end C15
