import Hgxv.Proofs.C15Sum
/-! # C15 — the updates `_w_update`, `_u_update`: linear forms, signs, symmetry -/
open Finset
namespace C15

/-- `ĉ_{S,ab} = ½ Σ_{i≠j∈S} u_ia u_jb`: coefficient of `w_ab` in the Poisson parameter of the node set `S` -/
def chat (u : Mat) (S : Finset ℕ) (a b : ℕ) : ℚ := half * ∑ p ∈ S.offDiag, u p.1 a * u p.2 b

theorem half_pos : (0 : ℚ) < half := by unfold half; norm_num

theorem chat_nonneg (u : Mat) (hu : ∀ i a, 0 ≤ u i a) (S : Finset ℕ) (a b : ℕ) : 0 ≤ chat u S a b :=
  mul_nonneg half_pos.le (Finset.sum_nonneg fun _ _ => mul_nonneg (hu _ _) (hu _ _))

theorem sum_rot {ι : Type} (P : Finset ι) (A B : Finset ℕ) (F : ι → ℕ → ℕ → ℚ) :
    ∑ p ∈ P, ∑ b ∈ B, ∑ a ∈ A, F p b a = ∑ a ∈ A, ∑ b ∈ B, ∑ p ∈ P, F p b a := by
  rw [Finset.sum_comm]
  have h : ∀ b ∈ B, ∑ p ∈ P, ∑ a ∈ A, F p b a = ∑ a ∈ A, ∑ p ∈ P, F p b a := fun b _ => Finset.sum_comm
  rw [Finset.sum_congr rfl h, Finset.sum_comm]

theorem lin_form (K : ℕ) (u w : Mat) (S : Finset ℕ) :
    half * ∑ p ∈ S.offDiag, aij K u w p.1 p.2
      = ∑ a ∈ range K, ∑ b ∈ range K, chat u S a b * w a b := by
  unfold chat
  simp only [aij, bf_eq, Finset.mul_sum, Finset.sum_mul]
  rw [sum_rot]
  apply Finset.sum_congr rfl; intro a _
  apply Finset.sum_congr rfl; intro b _
  apply Finset.sum_congr rfl; intro p _
  ring

/-- the Poisson parameter is linear in `w` with the non-negative coefficients `ĉ` (any `w`) -/
theorem poisson_lin (N K : ℕ) (u w : Mat) (e : List ℕ) :
    poisson N K u w e = ∑ a ∈ range K, ∑ b ∈ range K, chat u (nodesOf N e) a b * w a b := by
  rw [poisson_eq_offDiag, lin_form]

theorem bfSum_lin (N K : ℕ) (u w : Mat) :
    bfSum N K u w = ∑ a ∈ range K, ∑ b ∈ range K, chat u (range N) a b * w a b := by
  rw [bfSum_eq_offDiag, lin_form]

theorem prod_sub_diag (S : Finset ℕ) (x y : ℕ → ℚ) :
    (∑ i ∈ S, x i) * (∑ j ∈ S, y j) - ∑ i ∈ S, x i * y i = ∑ p ∈ S.offDiag, x p.1 * y p.2 := by
  rw [Finset.sum_mul_sum, sum_sum_sub_diag S (fun i j => x i * y j)]

theorem wDen_eq (N : ℕ) (u : Mat) (a b : ℕ) : wDen N u a b = chat u (range N) a b := by
  unfold wDen chat colSum
  simp only [sumTo_eq]
  rw [prod_sub_diag]

theorem inc_sum' (N : ℕ) (e : List ℕ) (f : ℕ → ℚ) :
    ∑ i ∈ range N, inc e i * f i = ∑ i ∈ nodesOf N e, f i := by
  rw [← sumTo_eq, inc_sum]

theorem wNum_eq (d : Data) (u w : Mat) (a b : ℕ) :
    wNum d u w a b
      = w a b * ∑ e ∈ range d.E, mult d u w e * chat u (nodesOf d.N (d.edge e)) a b := by
  unfold wNum
  simp only [sumTo_eq]
  have h2 : ∑ i ∈ range d.N, u i a * (u i b * ∑ e ∈ range d.E, weighting d u w i e)
      = ∑ e ∈ range d.E, mult d u w e * ∑ i ∈ nodesOf d.N (d.edge e), u i a * u i b := by
    simp only [Finset.mul_sum]
    rw [Finset.sum_comm]
    apply Finset.sum_congr rfl; intro e _
    rw [← inc_sum']
    apply Finset.sum_congr rfl; intro i _
    unfold weighting; ring
  have h1 : ∑ e ∈ range d.E, edgeSum d.N u (d.edge e) a * (edgeSum d.N u (d.edge e) b * mult d u w e)
      = ∑ e ∈ range d.E, mult d u w e * ((∑ i ∈ nodesOf d.N (d.edge e), u i a) * ∑ j ∈ nodesOf d.N (d.edge e), u j b) := by
    apply Finset.sum_congr rfl; intro e _
    rw [edgeSum_eq]; ring
  rw [h1, h2, ← Finset.sum_sub_distrib]
  unfold chat
  rw [Finset.mul_sum, Finset.mul_sum]
  apply Finset.sum_congr rfl; intro e _
  rw [← prod_sub_diag (nodesOf d.N (d.edge e)) (fun i => u i a) (fun j => u j b)]; ring

/-- `_w_update` as the multiplicative MM step `w_ab · (Σ_e A_e ĉ_{e,ab} / λ_e) / (b_ab + r_ab)` -/
theorem wUpdate_eq (d : Data) (u w r : Mat) (a b : ℕ) :
    wUpdate d u w r a b
      = w a b * (∑ e ∈ range d.E, d.A e * chat u (nodesOf d.N (d.edge e)) a b / poisson d.N d.K u w (d.edge e))
          / (chat u (range d.N) a b + r a b) := by
  unfold wUpdate
  rw [wNum_eq, wDen_eq]
  congr 2
  apply Finset.sum_congr rfl; intro e _
  unfold mult; ring

theorem poisson_nonneg (N K : ℕ) (u w : Mat) (hu : ∀ i a, 0 ≤ u i a) (hw : ∀ a b, 0 ≤ w a b) (e : List ℕ) :
    0 ≤ poisson N K u w e := by
  rw [poisson_lin]
  exact Finset.sum_nonneg fun a _ => Finset.sum_nonneg fun b _ => mul_nonneg (chat_nonneg u hu _ _ _) (hw _ _)

theorem mult_nonneg (d : Data) (u w : Mat) (hu : ∀ i a, 0 ≤ u i a) (hw : ∀ a b, 0 ≤ w a b)
    (hA : ∀ e < d.E, 0 ≤ d.A e) (e : ℕ) (he : e < d.E) : 0 ≤ mult d u w e :=
  div_nonneg (hA e he) (poisson_nonneg _ _ u w hu hw _)

theorem wUpdate_nonneg (d : Data) (u w r : Mat) (hu : ∀ i a, 0 ≤ u i a) (hw : ∀ a b, 0 ≤ w a b)
    (hA : ∀ e < d.E, 0 ≤ d.A e) (hr : ∀ a b, 0 ≤ r a b) (a b : ℕ) : 0 ≤ wUpdate d u w r a b := by
  unfold wUpdate
  rw [wNum_eq, wDen_eq]
  apply div_nonneg
  · exact mul_nonneg (hw a b) (Finset.sum_nonneg fun e he =>
      mul_nonneg (mult_nonneg d u w hu hw hA e (mem_range.mp he)) (chat_nonneg u hu _ _ _))
  · exact add_nonneg (chat_nonneg u hu _ _ _) (hr a b)

theorem wNum_symm (d : Data) (u w : Mat) (a b : ℕ) (h : w a b = w b a) :
    wNum d u w a b = wNum d u w b a := by
  unfold wNum
  simp only [sumTo_eq]
  rw [h]
  congr 2
  · apply Finset.sum_congr rfl; intro e _; ring
  · apply Finset.sum_congr rfl; intro i _; ring

theorem wDen_symm (N : ℕ) (u : Mat) (a b : ℕ) : wDen N u a b = wDen N u b a := by
  unfold wDen
  simp only [sumTo_eq]
  congr 1
  rw [mul_comm]
  congr 1
  apply Finset.sum_congr rfl; intro i _; ring

theorem wUpdate_symm (d : Data) (u w r : Mat) (a b : ℕ) (hw : w a b = w b a) (hr : r a b = r b a) :
    wUpdate d u w r a b = wUpdate d u w r b a := by
  unfold wUpdate
  rw [wNum_symm d u w a b hw, wDen_symm, hr]

theorem wUpdate_zero (d : Data) (u w r : Mat) (a b : ℕ) (hw : w a b = 0) : wUpdate d u w r a b = 0 := by
  unfold wUpdate wNum
  rw [hw]; simp

theorem allTo_iff (n : ℕ) (p : ℕ → Bool) : allTo n p = true ↔ ∀ i < n, p i = true := by
  simp [allTo]

/-! ## `_u_update` -/

theorem edgeSum_ge (N : ℕ) (u : Mat) (hu : ∀ i a, 0 ≤ u i a) (e : List ℕ) (i : ℕ) (hi : i < N) (hie : i ∈ e)
    (c : ℕ) : u i c ≤ edgeSum N u e c := by
  rw [edgeSum_eq]
  exact Finset.single_le_sum (f := fun j => u j c) (fun j _ => hu j c)
    (by simp [nodesOf, hi, hie] : i ∈ nodesOf N e)

theorem colSum_ge (N : ℕ) (u : Mat) (hu : ∀ i a, 0 ≤ u i a) (i : ℕ) (hi : i < N) (c : ℕ) :
    u i c ≤ colSum N u c := by
  rw [colSum_eq]
  exact Finset.single_le_sum (f := fun j => u j c) (fun j _ => hu j c) (mem_range.mpr hi)

theorem uNum_nonneg (d : Data) (u w : Mat) (hu : ∀ i a, 0 ≤ u i a) (hw : ∀ a b, 0 ≤ w a b)
    (hA : ∀ e < d.E, 0 ≤ d.A e) (i : ℕ) (hi : i < d.N) (a : ℕ) : 0 ≤ uNum d u w i a := by
  unfold uNum
  simp only [sumTo_eq]
  apply mul_nonneg (hu i a)
  apply Finset.sum_nonneg; intro c _
  apply mul_nonneg _ (hw c a)
  rw [Finset.sum_mul, ← Finset.sum_sub_distrib]
  apply Finset.sum_nonneg; intro e he
  rw [← mul_sub]
  unfold weighting inc
  split
  · rename_i hie
    have := edgeSum_ge d.N u hu (d.edge e) i hi hie c
    have hm := mult_nonneg d u w hu hw hA e (mem_range.mp he)
    rw [one_mul]
    exact mul_nonneg hm (by linarith)
  · simp

theorem uDen_nonneg (d : Data) (u w : Mat) (hu : ∀ i a, 0 ≤ u i a) (hw : ∀ a b, 0 ≤ w a b)
    (hsym : ∀ a < d.K, ∀ b < d.K, w a b = w b a) (i : ℕ) (hi : i < d.N) (a : ℕ) (ha : a < d.K) :
    0 ≤ uDen d u w i a := by
  unfold uDen
  simp only [sumTo_eq]
  rw [← Finset.sum_sub_distrib]
  apply Finset.sum_nonneg; intro c hc
  rw [hsym a ha c (mem_range.mp hc), mul_comm (u i c), ← mul_sub]
  exact mul_nonneg (hw c a) (by have := colSum_ge d.N u hu i hi c; linarith)

theorem uUpdate_nonneg (d : Data) (u w r : Mat) (hu : ∀ i a, 0 ≤ u i a) (hw : ∀ a b, 0 ≤ w a b)
    (hsym : ∀ a < d.K, ∀ b < d.K, w a b = w b a) (hA : ∀ e < d.E, 0 ≤ d.A e) (hr : ∀ i a, 0 ≤ r i a)
    (i : ℕ) (hi : i < d.N) (a : ℕ) (ha : a < d.K) : 0 ≤ uUpdate d u w r i a := by
  unfold uUpdate
  exact div_nonneg (uNum_nonneg d u w hu hw hA i hi a)
    (add_nonneg (uDen_nonneg d u w hu hw hsym i hi a ha) (hr i a))

end C15
