import Hgxv.Model.C03Raw
import Hgxv.Proofs.C03Ext
/-! C03, second extension round - raw setters: an echo changes nothing.  Core Lean only. -/
namespace C03
open AL

theorem rstep_echo (st : FState) (op : ROp) (h : op.echo st = true) :
    (rstep st op).1 = match op with | .x o => (xstep st o).1 | _ => st := by
  cases op with
  | x o => rfl
  | setEdgeList i t =>
    simp only [rstep, rawOn]
    cases hg : AL.get? st i with
    | none => rfl
    | some o =>
      simp only [ROp.echo, hg, decide_eq_true_eq] at h
      subst h
      exact set_self_of_get? st i o hg
  | setAdjDict i t =>
    simp only [rstep, rawOn]
    cases hg : AL.get? st i with
    | none => rfl
    | some o =>
      simp only [ROp.echo, hg, decide_eq_true_eq] at h
      subst h
      exact set_self_of_get? st i o hg

theorem rrun_echo (ops : List ROp) : ∀ st, echoes st ops = true → rrun st ops = xrun st (pubOps ops) := by
  induction ops with
  | nil => intro st _; rfl
  | cons op ops ih =>
    intro st h
    simp only [echoes, Bool.and_eq_true] at h
    have e := rstep_echo st op h.1
    have ih' := ih _ h.2
    cases op with
    | x o =>
      have e2 : (rstep st (ROp.x o)).1 = (xstep st o).1 := rfl
      rw [e2] at ih'
      simpa [rrun, xrun, pubOps, e2] using ih'
    | setEdgeList i t =>
      simp only at e
      rw [e] at ih'
      simpa [rrun, pubOps, e] using ih'
    | setAdjDict i t =>
      simp only at e
      rw [e] at ih'
      simpa [rrun, pubOps, e] using ih'

end C03
