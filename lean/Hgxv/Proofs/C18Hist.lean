import Hgxv.Model.C18
import Hgxv.Proofs.C18Cont
/-! # C18 — the listing order of the hyperedges is irrelevant

`Hypergraph.get_edges()` lists the stored hyperedges in the order of the internal dictionary, which depends on the
history of the object (removal + re-insertion moves a hyperedge to the end, a loaded / copied / rebuilt object may
list them differently).  Every quantity of the model is invariant under a permutation of the hyperedge list, so the
results depend on the *content* of the hypergraph only. -/
namespace C18

theorem tEntry_perm {es es' : List Edge} (h : es.Perm es') : tEntry es = tEntry es' := by
  funext i j
  unfold tEntry
  exact (h.map _).sum_nat

theorem rowSum_perm {es es' : List Edge} (h : es.Perm es') : rowSum es = rowSum es' := by
  funext N i
  unfold rowSum
  rw [tEntry_perm h]

theorem kEntry_perm {es es' : List Edge} (h : es.Perm es') : kEntry es = kEntry es' := by
  funext N i j
  unfold kEntry
  rw [tEntry_perm h, rowSum_perm h]

theorem share_perm {es es' : List Edge} (h : es.Perm es') : share es = share es' := by
  funext i j
  unfold share
  exact h.any_eq

theorem grow_perm {es es' : List Edge} (h : es.Perm es') : grow es = grow es' := by
  funext N S
  unfold grow
  rw [share_perm h]

theorem growN_perm {es es' : List Edge} (h : es.Perm es') (N k : Nat) (S : List Nat) :
    growN es N k S = growN es' N k S := by
  induction k generalizing S with
  | zero => rfl
  | succ k ih => simp only [growN]; rw [grow_perm h, ih]

theorem connectedB_perm {es es' : List Edge} (h : es.Perm es') : connectedB es = connectedB es' := by
  funext N
  unfold connectedB
  rw [growN_perm h]

theorem rowsPositive_perm {es es' : List Edge} (h : es.Perm es') : rowsPositive es = rowsPositive es' := by
  funext N
  unfold rowsPositive
  rw [rowSum_perm h]

theorem transitionMatrix_perm {es es' : List Edge} (h : es.Perm es') : transitionMatrix es = transitionMatrix es' := by
  funext N
  unfold transitionMatrix
  rw [connectedB_perm h, kEntry_perm h]

theorem stationary_perm {es es' : List Edge} (h : es.Perm es') : stationary es = stationary es' := by
  funext N
  unfold stationary piEntry
  rw [connectedB_perm h, rowSum_perm h]

theorem densityNext_perm {es es' : List Edge} (h : es.Perm es') : densityNext es = densityNext es' := by
  funext N v
  unfold densityNext densityStep
  rw [kEntry_perm h]

theorem densityList_perm {es es' : List Edge} (h : es.Perm es') (N t : Nat) (v : List Rat) :
    densityList es N t v = densityList es' N t v := by
  induction t generalizing v with
  | zero => rfl
  | succ t ih => simp only [densityList]; rw [densityNext_perm h, ih]

theorem validChoice_perm {es es' : List Edge} (h : es.Perm es') : validChoice es = validChoice es' := by
  funext N cur c
  unfold validChoice
  rw [kEntry_perm h]

theorem walk_perm {es es' : List Edge} (h : es.Perm es') (N cur : Nat) (cs : List Nat) :
    walk es N cur cs = walk es' N cur cs := by
  induction cs generalizing cur with
  | nil => rfl
  | cons c cs ih => simp only [walk]; rw [validChoice_perm h, ih]

theorem pairNbrs_perm {es es' : List Edge} (h : es.Perm es') : pairNbrs es = pairNbrs es' := by
  funext nodes v
  unfold pairNbrs
  congr 1
  funext u
  rw [h.any_eq]

theorem triplets_perm {es es' : List Edge} (h : es.Perm es') (v : Nat) : (triplets es v).Perm (triplets es' v) :=
  h.filter _

theorem loopHits_perm (f : Nat → Rat) (rate : Rat) {l l' : List Bool} (h : l.Perm l') (p : Nat) :
    loopHits f rate l p = loopHits f rate l' p := by
  rw [loopHits_eq_tries, loopHits_eq_tries, h.count_eq]

theorem nodeStep_perm {es es' : List Edge} (h : es.Perm es') : nodeStep es = nodeStep es' := by
  funext nodes r f Iold st v
  unfold nodeStep
  rw [pairNbrs_perm h]
  have ht : ∀ p, loopHits f r.betaD ((triplets es v).map (triHit Iold v)) p
      = loopHits f r.betaD ((triplets es' v).map (triHit Iold v)) p :=
    fun p => loopHits_perm f r.betaD ((triplets_perm h v).map _) p
  simp only [ht]

theorem step_perm {es es' : List Edge} (h : es.Perm es') : step es = step es' := by
  funext nodes r f I p
  unfold step
  rw [nodeStep_perm h]

theorem runStates_perm {es es' : List Edge} (h : es.Perm es') (nodes keys : List Nat) (r : Rates) (f : Nat → Rat)
    (n : Nat) (I : Nat → Bool) (p : Nat) :
    runStates es nodes keys r f n I p = runStates es' nodes keys r f n I p := by
  induction n generalizing I p with
  | zero => rfl
  | succ n ih => simp only [runStates]; rw [step_perm h]; split <;> simp [ih]

theorem spread_perm {es es' : List Edge} (h : es.Perm es') : spread es = spread es' := by
  funext nodes r I v
  unfold spread
  rw [pairNbrs_perm h, (triplets_perm h v).any_eq]

theorem spreadCounts_perm {es es' : List Edge} (h : es.Perm es') (nodes keys : List Nat) (r : Rates)
    (n : Nat) (I : Nat → Bool) : spreadCounts es nodes keys r n I = spreadCounts es' nodes keys r n I := by
  induction n generalizing I with
  | zero => rfl
  | succ n ih => simp only [spreadCounts]; rw [spread_perm h]; split <;> simp [ih]

end C18
