import Hgxv.Model.C02
/-! C02 helper lemmas, part 1: association lists, `sortNodes`, field-preservation and lookup
characterisations of the building blocks of `Hgxv/Model/C02.lean` (core Lean only). -/

namespace AL
variable {α β : Type} [DecidableEq α]

theorem isSome_get?_iff (l : List (α × β)) (k : α) : (get? l k).isSome ↔ k ∈ keys l := by
  cases h : get? l k with
  | none => simp [(get?_eq_none_iff l k).mp h]
  | some v =>
    simp
    apply Decidable.byContradiction; intro hc
    rw [(get?_eq_none_iff l k).mpr hc] at h; cases h

theorem has_iff (l : List (α × β)) (k : α) : has l k = true ↔ k ∈ keys l := by
  unfold has; exact isSome_get?_iff l k

theorem has_false_iff (l : List (α × β)) (k : α) : has l k = false ↔ get? l k = none := by
  unfold has; cases get? l k <;> simp

theorem keys_set_nodup (l : List (α × β)) (k : α) (v : β) (h : (keys l).Nodup) : (keys (set l k v)).Nodup := by
  cases hg : get? l k with
  | none =>
    rw [keys_set_of_not_mem _ _ _ hg]
    refine List.nodup_append.mpr ⟨h, by simp, ?_⟩
    intro a ha b hb hab; simp at hb
    rw [hab, hb] at ha
    exact ((get?_eq_none_iff l k).mp hg) ha
  | some v0 => rw [keys_set_of_mem _ _ _ (by simp [hg])]; exact h

theorem keys_erase_nodup (l : List (α × β)) (k : α) (h : (keys l).Nodup) : (keys (erase l k)).Nodup := by
  rw [keys_erase_perm]; exact h.erase k

theorem get?_erase (l : List (α × β)) (k k2 : α) (hnd : (keys l).Nodup) :
    get? (erase l k) k2 = if k = k2 then none else get? l k2 := by
  by_cases h : k = k2
  · subst h; simp [get?_erase_self l k hnd]
  · simp [h, get?_erase_ne l k k2 h]

theorem mem_keys_erase (l : List (α × β)) (k k2 : α) (hnd : (keys l).Nodup) :
    k2 ∈ keys (erase l k) ↔ k2 ≠ k ∧ k2 ∈ keys l := by
  rw [keys_erase_perm]; exact List.Nodup.mem_erase_iff hnd

theorem mem_keys_set (l : List (α × β)) (k k2 : α) (v : β) :
    k2 ∈ keys (set l k v) ↔ k2 = k ∨ k2 ∈ keys l := by
  rw [← isSome_get?_iff, ← isSome_get?_iff, get?_set]
  by_cases h : k = k2
  · subst h; simp
  · simp [h]; intro h2; exact absurd h2.symm h

/-- looking a key up in a table of (key, value) pairs whose keys are distinct -/
theorem get?_of_mem (l : List (α × β)) (k : α) (v : β) (hnd : (keys l).Nodup) (h : (k, v) ∈ l) :
    get? l k = some v := by
  induction l with
  | nil => cases h
  | cons hd t ih =>
    obtain ⟨k', v'⟩ := hd
    simp only [keys, List.map_cons, List.nodup_cons] at hnd
    simp only [get?]
    rcases List.mem_cons.mp h with h1 | h1
    · cases h1; simp
    · have : k' ≠ k := by
        intro hk; subst hk
        exact hnd.1 (List.mem_map.mpr ⟨(k', v), h1, rfl⟩)
      simp [this]; exact ih hnd.2 h1

theorem mem_of_get? (l : List (α × β)) (k : α) (v : β) (h : get? l k = some v) : (k, v) ∈ l := by
  induction l with
  | nil => cases h
  | cons hd t ih =>
    obtain ⟨k', v'⟩ := hd
    simp only [get?] at h
    by_cases hk : k' = k
    · subst hk; simp at h; subst h; simp
    · simp [hk] at h; exact List.mem_cons_of_mem _ (ih h)

end AL

namespace C02
open AL

/-! ### sorting -/

theorem insertSorted_perm (a : Nat) (l : List Nat) : (insertSorted a l).Perm (a :: l) := by
  induction l with
  | nil => simp [insertSorted]
  | cons b bs ih =>
    simp only [insertSorted]; split
    · exact List.Perm.refl _
    · exact (List.Perm.cons b ih).trans (List.Perm.swap a b bs)

theorem sortNodes_perm (l : List Nat) : (sortNodes l).Perm l := by
  induction l with
  | nil => simp [sortNodes]
  | cons a l ih =>
    have : sortNodes (a :: l) = insertSorted a (sortNodes l) := rfl
    rw [this]; exact (insertSorted_perm a _).trans (List.Perm.cons a ih)

theorem mem_sortNodes {l : List Nat} {n : Nat} : n ∈ sortNodes l ↔ n ∈ l := (sortNodes_perm l).mem_iff
theorem sortNodes_nodup {l : List Nat} (h : l.Nodup) : (sortNodes l).Nodup := (sortNodes_perm l).nodup_iff.mpr h
theorem sortNodes_length (l : List Nat) : (sortNodes l).length = l.length := (sortNodes_perm l).length_eq

theorem insertSorted_sorted (a : Nat) (l : List Nat) (h : l.Pairwise (· ≤ ·)) :
    (insertSorted a l).Pairwise (· ≤ ·) := by
  induction l with
  | nil => simp [insertSorted]
  | cons b bs ih =>
    simp only [insertSorted]; split
    · rename_i hab
      refine List.pairwise_cons.mpr ⟨?_, h⟩
      intro x hx
      rcases List.mem_cons.mp hx with hx | hx
      · omega
      · have := (List.pairwise_cons.mp h).1 x hx; omega
    · rename_i hab
      have hb := List.pairwise_cons.mp h
      refine List.pairwise_cons.mpr ⟨?_, ih hb.2⟩
      intro x hx
      rcases List.mem_cons.mp ((insertSorted_perm a bs).mem_iff.mp hx) with hx | hx
      · omega
      · exact hb.1 x hx

theorem sortNodes_sorted (l : List Nat) : (sortNodes l).Pairwise (· ≤ ·) := by
  induction l with
  | nil => simp [sortNodes]
  | cons a l ih => exact insertSorted_sorted a _ ih

/-- the canonical form only depends on the set of listed nodes, not on the listing order -/
theorem sortNodes_eq_of_perm {l l' : List Nat} (h : l.Perm l') : sortNodes l = sortNodes l' :=
  List.Perm.eq_of_pairwise (le := (· ≤ ·)) (fun _ _ _ _ h1 h2 => Nat.le_antisymm h1 h2)
    (sortNodes_sorted l) (sortNodes_sorted l') ((sortNodes_perm l).trans (h.trans (sortNodes_perm l').symm))

theorem sortNodes_of_sorted {l : List Nat} (h : l.Pairwise (· ≤ ·)) : sortNodes l = l :=
  List.Perm.eq_of_pairwise (le := (· ≤ ·)) (fun _ _ _ _ h1 h2 => Nat.le_antisymm h1 h2)
    (sortNodes_sorted l) h (sortNodes_perm l)

theorem sortNodes_idem (l : List Nat) : sortNodes (sortNodes l) = sortNodes l :=
  sortNodes_of_sorted (sortNodes_sorted l)

/-! ### node sets -/

theorem mem_insertUniq (a x : Nat) (l : List Nat) : x ∈ insertUniq a l ↔ x = a ∨ x ∈ l := by
  induction l with
  | nil => simp [insertUniq]
  | cons b bs ih =>
    simp only [insertUniq]
    split
    · simp
    · split
      · rename_i h; subst h; simp
      · simp [ih]; grind

theorem mem_nodeSet {l : List Nat} {x : Nat} : x ∈ nodeSet l ↔ x ∈ l := by
  induction l with
  | nil => simp [nodeSet]
  | cons a l ih =>
    have : nodeSet (a :: l) = insertUniq a (nodeSet l) := rfl
    rw [this, mem_insertUniq, ih]; simp

theorem insertUniq_sorted (a : Nat) (l : List Nat) (h : l.Pairwise (· < ·)) : (insertUniq a l).Pairwise (· < ·) := by
  induction l with
  | nil => simp [insertUniq]
  | cons b bs ih =>
    have hb := List.pairwise_cons.mp h
    simp only [insertUniq]
    split
    · rename_i hab
      refine List.pairwise_cons.mpr ⟨?_, h⟩
      intro x hx
      rcases List.mem_cons.mp hx with hx | hx
      · omega
      · have := hb.1 x hx; omega
    · split
      · exact h
      · rename_i h1 h2
        refine List.pairwise_cons.mpr ⟨?_, ih hb.2⟩
        intro x hx
        rcases (mem_insertUniq a x bs).mp hx with hx | hx
        · omega
        · exact hb.1 x hx

theorem nodeSet_sorted (l : List Nat) : (nodeSet l).Pairwise (· < ·) := by
  induction l with
  | nil => simp [nodeSet]
  | cons a l ih => exact insertUniq_sorted a _ ih

/-- the node set only depends on which nodes occur -/
theorem nodeSet_eq_of_mem {l l' : List Nat} (h : ∀ x, x ∈ l ↔ x ∈ l') : nodeSet l = nodeSet l' := by
  have nd : ∀ m : List Nat, (nodeSet m).Nodup := fun m =>
    (nodeSet_sorted m).imp (fun hab => Nat.ne_of_lt hab)
  have hp : (nodeSet l).Perm (nodeSet l') := by
    rw [List.perm_ext_iff_of_nodup (nd l) (nd l')]
    intro x; rw [mem_nodeSet, mem_nodeSet]; exact h x
  exact List.Perm.eq_of_pairwise (le := (· < ·)) (fun a b _ _ h1 h2 => absurd h1 (Nat.lt_asymm h2))
    (nodeSet_sorted l) (nodeSet_sorted l') hp

end C02
