import Hgxv.Proofs.C16Chain
/-! Helper lemmas for C16, part 3: the output stage of `sample`.  Core Lean only. -/
namespace C16

/-! ## `tuple(sorted(hye))` -/

theorem insertSorted_perm (a : Nat) (l : List Nat) : (insertSorted a l).Perm (a :: l) := by
  induction l with
  | nil => simp [insertSorted]
  | cons b bs ih =>
    simp only [insertSorted]
    split
    · exact List.Perm.refl _
    · exact (List.Perm.cons b ih).trans (List.Perm.swap a b bs)

theorem insertSorted_sorted (a : Nat) (l : List Nat) (h : l.Pairwise (· ≤ ·)) :
    (insertSorted a l).Pairwise (· ≤ ·) := by
  induction l with
  | nil => simp [insertSorted]
  | cons b bs ih =>
    simp only [insertSorted]
    rw [List.pairwise_cons] at h
    split
    · rename_i hab
      rw [List.pairwise_cons]
      refine ⟨?_, List.pairwise_cons.mpr h⟩
      intro y hy
      rcases List.mem_cons.mp hy with hy | hy
      · omega
      · have := h.1 y hy; omega
    · rename_i hab
      rw [List.pairwise_cons]
      refine ⟨?_, ih h.2⟩
      intro y hy
      rcases List.mem_cons.mp ((insertSorted_perm a bs).mem_iff.mp hy) with hy | hy
      · omega
      · exact h.1 y hy

theorem canon_perm (e : Hye) : (canon e).Perm e := by
  unfold canon
  induction e with
  | nil => simp
  | cons x xs ih => exact (insertSorted_perm x _).trans (List.Perm.cons x ih)

theorem canon_sorted (e : Hye) : (canon e).Pairwise (· ≤ ·) := by
  unfold canon
  induction e with
  | nil => simp
  | cons x xs ih => exact insertSorted_sorted x _ ih

theorem canon_nodup {e : Hye} (h : e.Nodup) : (canon e).Nodup := (canon_perm e).nodup_iff.mpr h

theorem canon_length (e : Hye) : (canon e).length = e.length := (canon_perm e).length_eq
theorem canon_count (e : Hye) (n : Nat) : (canon e).count n = e.count n := (canon_perm e).count_eq n
theorem mem_canon {e : Hye} {x : Nat} : x ∈ canon e ↔ x ∈ e := (canon_perm e).mem_iff

/-- a sorted duplicate-free list is strictly increasing: the canonical representative of its set -/
theorem strict_of_sorted_nodup {l : List Nat} (hs : l.Pairwise (· ≤ ·)) (hn : l.Nodup) :
    l.Pairwise (· < ·) := by
  induction l with
  | nil => simp
  | cons x xs ih =>
    rw [List.pairwise_cons] at hs ⊢
    have hn' := List.nodup_cons.mp hn
    refine ⟨?_, ih hs.2 hn'.2⟩
    intro y hy
    have := hs.1 y hy
    have : x ≠ y := fun e => hn'.1 (e ▸ hy)
    omega

theorem canon_strict {e : Hye} (h : e.Nodup) : (canon e).Pairwise (· < ·) :=
  strict_of_sorted_nodup (canon_sorted e) (canon_nodup h)

/-! ## sums of a per-hyperedge quantity -/

def sumBy (f : Hye → Nat) (l : List Hye) : Nat := (l.map f).sum

theorem degOf_eq_sumBy (n : Nat) (cfg : Config) : degOf n cfg = sumBy (fun e => e.count n) cfg := rfl

theorem sizeCount_eq_sumBy (s : Nat) (cfg : Config) :
    sizeCount s cfg = sumBy (fun e => if e.length = s then 1 else 0) cfg := by
  unfold sizeCount sumBy
  induction cfg with
  | nil => simp
  | cons e es ih =>
    simp only [List.map_cons, List.count_cons, ih, List.sum_cons]
    by_cases h : e.length = s <;> simp [h] <;> omega

theorem sumBy_sublist {f : Hye → Nat} {l1 l2 : List Hye} (h : l1.Sublist l2) : sumBy f l1 ≤ sumBy f l2 := by
  unfold sumBy
  induction h with
  | slnil => simp
  | cons a _ ih => simp only [List.map_cons, List.sum_cons]; omega
  | cons_cons a _ ih => simp only [List.map_cons, List.sum_cons]; omega

/-! ## dictionary keys while merging -/

/-- how the key list of a dict changes by `d[k] = ...` -/
def addKey (ks : List Hye) (k : Hye) : List Hye := if k ∈ ks then ks else ks ++ [k]

theorem keys_set (d : List (Hye × Nat)) (k : Hye) (v : Nat) :
    AL.keys (AL.set d k v) = addKey (AL.keys d) k := by
  unfold addKey
  by_cases h : k ∈ AL.keys d
  · simp only [h, if_true]
    apply AL.keys_set_of_mem
    cases hg : AL.get? d k with
    | none => exact absurd h ((AL.get?_eq_none_iff d k).mp hg)
    | some _ => rfl
  · simp only [h, if_false]
    exact AL.keys_set_of_not_mem d k v ((AL.get?_eq_none_iff d k).mpr h)

def mergeStep (d : List (Hye × Nat)) (p : Hye × Nat) : List (Hye × Nat) :=
  AL.set d p.1 ((AL.get? d p.1).getD 0 + p.2)

theorem mergeDup_eq (l : List (Hye × Nat)) : mergeDup l = l.foldl mergeStep [] := rfl

theorem keys_foldl (l d : List (Hye × Nat)) :
    AL.keys (l.foldl mergeStep d) = (l.map (·.1)).foldl addKey (AL.keys d) := by
  induction l generalizing d with
  | nil => rfl
  | cons p ps ih => simp only [List.foldl_cons, List.map_cons, ih, mergeStep, keys_set]

theorem foldl_addKey_nodup (xs ks : List Hye) (h : ks.Nodup) : (xs.foldl addKey ks).Nodup := by
  induction xs generalizing ks with
  | nil => exact h
  | cons x xs ih =>
    apply ih
    unfold addKey
    split
    · exact h
    · rename_i hx
      rw [List.nodup_append]
      exact ⟨h, by simp, fun a ha b hb hab => by simp at hb; subst hb; exact hx (hab ▸ ha)⟩

theorem foldl_addKey_mem (xs ks : List Hye) (k : Hye) : k ∈ xs.foldl addKey ks ↔ k ∈ ks ∨ k ∈ xs := by
  induction xs generalizing ks with
  | nil => simp
  | cons x xs ih =>
    simp only [List.foldl_cons, ih, List.mem_cons]
    unfold addKey
    split
    · rename_i hx
      constructor
      · rintro (h | h)
        · exact Or.inl h
        · exact Or.inr (Or.inr h)
      · rintro (h | h | h)
        · exact Or.inl h
        · exact Or.inl (h ▸ hx)
        · exact Or.inr h
    · simp only [List.mem_append, List.mem_singleton]
      constructor
      · rintro ((h | h) | h)
        · exact Or.inl h
        · exact Or.inr (Or.inl h)
        · exact Or.inr (Or.inr h)
      · rintro (h | h | h)
        · exact Or.inl (Or.inl h)
        · exact Or.inl (Or.inr h)
        · exact Or.inr h

theorem foldl_addKey_sum (f : Hye → Nat) (xs ks : List Hye) :
    sumBy f (xs.foldl addKey ks) ≤ sumBy f ks + sumBy f xs := by
  induction xs generalizing ks with
  | nil => simp [sumBy]
  | cons x xs ih =>
    simp only [List.foldl_cons]
    have := ih (addKey ks x)
    have h2 : sumBy f (addKey ks x) ≤ sumBy f ks + f x := by
      unfold addKey sumBy
      split
      · omega
      · simp
    have h3 : sumBy f (x :: xs) = f x + sumBy f xs := by simp [sumBy]
    omega

theorem foldl_addKey_of_nodup (xs ks : List Hye) (h : (ks ++ xs).Nodup) : xs.foldl addKey ks = ks ++ xs := by
  induction xs generalizing ks with
  | nil => simp
  | cons x xs ih =>
    simp only [List.foldl_cons]
    have hx : x ∉ ks := by
      intro hx
      have := (List.nodup_append.mp h).2.2 x hx x List.mem_cons_self
      exact this rfl
    have e : addKey ks x = ks ++ [x] := by simp [addKey, hx]
    rw [e, ih _ (by simpa [List.append_assoc] using h)]
    simp

/-! ## values while merging -/

theorem mem_set {d : List (Hye × Nat)} {k : Hye} {v : Nat} {q : Hye × Nat} (h : q ∈ AL.set d k v) :
    q ∈ d ∨ q = (k, v) := by
  induction d with
  | nil => simp [AL.set] at h; exact Or.inr h
  | cons hd t ih =>
    obtain ⟨k', v'⟩ := hd
    simp only [AL.set] at h
    split at h
    · rcases List.mem_cons.mp h with h | h
      · exact Or.inr h
      · exact Or.inl (List.mem_cons_of_mem _ h)
    · rcases List.mem_cons.mp h with h | h
      · exact Or.inl (h ▸ List.mem_cons_self)
      · rcases ih h with h | h
        · exact Or.inl (List.mem_cons_of_mem _ h)
        · exact Or.inr h

theorem foldl_mergeStep_pos (l d : List (Hye × Nat)) (hd : ∀ q ∈ d, 0 < q.2) (hl : ∀ p ∈ l, 0 < p.2) :
    ∀ q ∈ l.foldl mergeStep d, 0 < q.2 := by
  induction l generalizing d with
  | nil => exact hd
  | cons p ps ih =>
    simp only [List.foldl_cons]
    apply ih
    · intro q hq
      rcases mem_set hq with hq | hq
      · exact hd q hq
      · have := hl p List.mem_cons_self
        rw [hq]; simp only; omega
    · exact fun p' hp' => hl p' (List.mem_cons_of_mem _ hp')

/-- the merged dictionary: distinct keys, exactly the keys that occur, positive values -/
theorem mergeDup_spec (l : List (Hye × Nat)) (hl : ∀ p ∈ l, 0 < p.2) :
    ((mergeDup l).map (·.1)).Nodup ∧ (∀ k, k ∈ (mergeDup l).map (·.1) ↔ k ∈ l.map (·.1)) ∧
      (∀ q ∈ mergeDup l, 0 < q.2) ∧
      (∀ f, sumBy f ((mergeDup l).map (·.1)) ≤ sumBy f (l.map (·.1))) ∧
      ((l.map (·.1)).Nodup → (mergeDup l).map (·.1) = l.map (·.1)) := by
  have hk : (mergeDup l).map (·.1) = (l.map (·.1)).foldl addKey [] := by
    rw [mergeDup_eq]; exact keys_foldl l []
  refine ⟨?_, ?_, ?_, ?_, ?_⟩
  · rw [hk]; exact foldl_addKey_nodup _ _ (by simp)
  · intro k; rw [hk, foldl_addKey_mem]; simp
  · rw [mergeDup_eq]; exact foldl_mergeStep_pos l [] (by simp) hl
  · intro f; rw [hk]; have := foldl_addKey_sum f (l.map (·.1)) []; simpa [sumBy] using this
  · intro hn; rw [hk, foldl_addKey_of_nodup _ _ (by simpa using hn)]; simp

/-! ## total weight -/

def valSum (d : List (Hye × Nat)) : Nat := (d.map (·.2)).sum

theorem valSum_set (d : List (Hye × Nat)) (k : Hye) (w : Nat) :
    valSum (AL.set d k ((AL.get? d k).getD 0 + w)) = valSum d + w := by
  induction d with
  | nil => simp [AL.set, AL.get?, valSum]
  | cons hd t ih =>
    obtain ⟨k', v'⟩ := hd
    by_cases hk : k' = k
    · simp [AL.set, AL.get?, hk, valSum]; omega
    · simp only [AL.set, AL.get?, hk, if_false, valSum, List.map_cons, List.sum_cons] at ih ⊢
      omega

theorem valSum_foldl (l d : List (Hye × Nat)) : valSum (l.foldl mergeStep d) = valSum d + valSum l := by
  induction l generalizing d with
  | nil => simp [valSum]
  | cons p ps ih =>
    simp only [List.foldl_cons, ih, mergeStep, valSum_set]
    simp [valSum]; omega

theorem mergeDup_valSum (l : List (Hye × Nat)) : valSum (mergeDup l) = valSum l := by
  rw [mergeDup_eq, valSum_foldl]; simp [valSum]

theorem valSum_filter_pos (l : List (Hye × Nat)) : valSum (l.filter (fun p => decide (0 < p.2))) = valSum l := by
  unfold valSum
  induction l with
  | nil => simp
  | cons p ps ih =>
    simp only [List.filter_cons]
    by_cases hp : 0 < p.2
    · simp [hp, ih]
    · simp only [hp, decide_false, Bool.false_eq_true, if_false, ih, List.map_cons, List.sum_cons]
      omega

theorem dropZeros_valSum (cfg : Config) (ws : List Nat) (h : ws.length = cfg.length) :
    valSum (dropZeros cfg ws) = ws.sum := by
  unfold dropZeros
  rw [valSum_filter_pos]
  unfold valSum
  rw [List.map_snd_zip]; omega

/-! ## dropping zero weights -/

theorem dropZeros_keys_sublist (cfg : Config) (ws : List Nat) (h : ws.length = cfg.length) :
    ((dropZeros cfg ws).map (·.1)).Sublist cfg := by
  unfold dropZeros
  have h1 : (((cfg.zip ws).filter (fun p => decide (0 < p.2))).map (·.1)).Sublist ((cfg.zip ws).map (·.1)) :=
    (List.filter_sublist).map _
  have h2 : (cfg.zip ws).map (·.1) = cfg := by
    rw [List.map_fst_zip]; omega
  rw [h2] at h1
  exact h1

theorem dropZeros_pos (cfg : Config) (ws : List Nat) : ∀ p ∈ dropZeros cfg ws, 0 < p.2 := by
  intro p hp
  simpa using (List.mem_filter.mp hp).2

theorem dropZeros_all (cfg : Config) (ws : List Nat) (h : ws.length = cfg.length) (hpos : ∀ w ∈ ws, 0 < w) :
    (dropZeros cfg ws).map (·.1) = cfg := by
  unfold dropZeros
  rw [List.filter_eq_self.mpr]
  · rw [List.map_fst_zip]; omega
  · intro p hp
    have := (List.of_mem_zip hp).2
    simpa using hpos _ this

/-! ## inverse node mapping -/

/-- index ↦ label, total version used only where `relabel` succeeded -/
def lab (ls : List Nat) (i : Nat) : Nat := (ls[i]?).getD 0

theorem relabel_spec {ls : List Nat} {e e' : Hye} (h : relabel ls e = some e') :
    e' = e.map (lab ls) ∧ ∀ i ∈ e, i < ls.length := by
  unfold relabel at h
  induction e generalizing e' with
  | nil => simp at h; subst h; simp
  | cons x xs ih =>
    rw [List.mapM_cons] at h
    cases hx : ls[x]? with
    | none => simp [hx] at h
    | some v =>
      cases hr : xs.mapM (fun i => ls[i]?) with
      | none => simp [hx, hr] at h
      | some r =>
        simp [hx, hr] at h
        obtain ⟨i1, i2⟩ := ih hr
        subst h
        refine ⟨by simp [lab, hx, i1], ?_⟩
        intro i hi
        rcases List.mem_cons.mp hi with hi | hi
        · subst hi; exact (List.getElem?_eq_some_iff.mp hx).1
        · exact i2 i hi

theorem relabelAll_spec {ls : List Nat} {l Y : List (Hye × Nat)} (h : relabelAll (some ls) l = some Y) :
    Y = l.map (fun p => (p.1.map (lab ls), p.2)) ∧ ∀ p ∈ l, ∀ i ∈ p.1, i < ls.length := by
  simp only [relabelAll] at h
  induction l generalizing Y with
  | nil => simp at h; subst h; simp
  | cons p ps ih =>
    rw [List.mapM_cons] at h
    cases hp : relabel ls p.1 with
    | none => simp [hp] at h
    | some e' =>
      cases hr : ps.mapM (fun p => (relabel ls p.1).map (fun e => (e, p.2))) with
      | none => simp [hp, hr] at h
      | some r =>
        simp [hp, hr] at h
        obtain ⟨i1, i2⟩ := ih hr
        obtain ⟨j1, j2⟩ := relabel_spec hp
        subst h
        refine ⟨by simp [i1, j1], ?_⟩
        intro q hq
        rcases List.mem_cons.mp hq with hq | hq
        · subst hq; exact j2
        · exact i2 q hq

theorem lab_inj {ls : List Nat} (hn : ls.Nodup) {i j : Nat} (hi : i < ls.length) (hj : j < ls.length)
    (h : lab ls i = lab ls j) : i = j := by
  unfold lab at h
  rw [List.getElem?_eq_getElem hi, List.getElem?_eq_getElem hj] at h
  simp only [Option.getD_some] at h
  exact (List.getElem_inj hn).mp h

theorem map_lab_inj {ls : List Nat} (hn : ls.Nodup) {a b : Hye} (ha : ∀ i ∈ a, i < ls.length)
    (hb : ∀ i ∈ b, i < ls.length) (h : a.map (lab ls) = b.map (lab ls)) : a = b := by
  induction a generalizing b with
  | nil => cases b <;> simp_all
  | cons x xs ih =>
    cases b with
    | nil => simp at h
    | cons y ys =>
      simp only [List.map_cons, List.cons.injEq] at h
      have e := lab_inj hn (ha x List.mem_cons_self) (hb y List.mem_cons_self) h.1
      rw [e, ih (fun i hi => ha i (List.mem_cons_of_mem _ hi)) (fun i hi => hb i (List.mem_cons_of_mem _ hi)) h.2]

theorem count_map_lab {ls : List Nat} (hn : ls.Nodup) {e : Hye} (he : ∀ i ∈ e, i < ls.length) {i : Nat}
    (hi : i < ls.length) : (e.map (lab ls)).count (lab ls i) = e.count i := by
  induction e with
  | nil => simp
  | cons x xs ih =>
    have hx := he x List.mem_cons_self
    have := ih (fun j hj => he j (List.mem_cons_of_mem _ hj))
    simp only [List.map_cons, List.count_cons, this]
    by_cases hxi : x = i
    · simp [hxi]
    · have : lab ls x ≠ lab ls i := fun e => hxi (lab_inj hn hx hi e)
      simp [hxi, this]

theorem lab_mem {ls : List Nat} {i : Nat} (hi : i < ls.length) : lab ls i ∈ ls := by
  unfold lab
  rw [List.getElem?_eq_getElem hi]
  exact List.getElem_mem hi

theorem lab_strict {ls : List Nat} (hs : ls.Pairwise (· < ·)) {e : Hye} (he : ∀ i ∈ e, i < ls.length)
    (hp : e.Pairwise (· < ·)) : (e.map (lab ls)).Pairwise (· < ·) := by
  rw [List.pairwise_map]
  refine hp.imp_of_mem ?_
  intro a b ha hb hab
  unfold lab
  rw [List.getElem?_eq_getElem (he a ha), List.getElem?_eq_getElem (he b hb)]
  simp only [Option.getD_some]
  exact List.pairwise_iff_getElem.mp hs a b (he a ha) (he b hb) hab

end C16
