import Hgxv.Proofs.C18RW
/-! C18: the executable connectivity test `connectedB` decides declarative connectivity
(every node `< N` is joined to node `0` by a chain of nodes sharing hyperedges). -/
namespace C18

theorem growN_succ' (es : List Edge) (N k : Nat) (S : List Nat) :
    growN es N (k + 1) S = grow es N (growN es N k S) := by
  induction k generalizing S with
  | zero => rfl
  | succ k ih => rw [growN, ih (grow es N S)]; rfl

theorem filter_eq_of_countP_eq {α} (p q : α → Bool) (l : List α) (h : ∀ x ∈ l, p x = true → q x = true)
    (hc : l.countP p = l.countP q) : l.filter p = l.filter q := by
  induction l with
  | nil => rfl
  | cons x l ih =>
    have hl : ∀ y ∈ l, p y = true → q y = true := fun y hy => h y (List.mem_cons_of_mem _ hy)
    have hle := List.countP_mono_left (l := l) hl
    cases hp : p x <;> cases hq : q x
    · simp only [List.countP_cons, hp, hq] at hc; simp [hp, hq, ih hl (by simpa using hc)]
    · simp only [List.countP_cons, hp, hq] at hc; simp at hc; omega
    · have := h x List.mem_cons_self hp; rw [hq] at this; cases this
    · simp only [List.countP_cons, hp, hq] at hc; simp [hp, hq, ih hl (by simpa using hc)]

/-- the sets after `k + 1` rounds -/
def layer (es : List Edge) (N k : Nat) : List Nat := growN es N (k + 1) [0]

theorem layer_succ (es : List Edge) (N k : Nat) : layer es N (k + 1) = grow es N (layer es N k) :=
  growN_succ' es N (k + 1) [0]

theorem mem_layer_lt (es : List Edge) (N k v : Nat) (h : v ∈ layer es N k) : v < N := by
  unfold layer at h; rw [growN_succ'] at h; exact ((mem_grow es N _ v).mp h).1

theorem layer_mono (es : List Edge) (N k v : Nat) (h : v ∈ layer es N k) : v ∈ layer es N (k + 1) := by
  rw [layer_succ, mem_grow]; exact ⟨mem_layer_lt es N k v h, Or.inl h⟩

theorem zero_mem_layer (es : List Edge) (N : Nat) (hN : 0 < N) (k : Nat) : 0 ∈ layer es N k := by
  induction k with
  | zero => unfold layer growN growN; rw [mem_grow]; exact ⟨hN, Or.inl (by simp)⟩
  | succ k ih => exact layer_mono es N k 0 ih

theorem layer_length_le (es : List Edge) (N k : Nat) : (layer es N k).length ≤ N := by
  unfold layer; rw [growN_succ']; unfold grow
  calc _ ≤ (List.range N).length := List.length_filter_le _ _
    _ = N := List.length_range

theorem layer_eq (es : List Edge) (N k : Nat) : layer es N k = grow es N (growN es N k [0]) :=
  growN_succ' es N k [0]

theorem grow_pred_mono (es : List Edge) (N : Nat) (S : List Nat) (j : Nat) (hj : j ∈ List.range N)
    (hp : (S.contains j || S.any (fun i => share es i j)) = true) :
    ((grow es N S).contains j || (grow es N S).any (fun i => share es i j)) = true := by
  have : j ∈ grow es N S := by unfold grow; exact List.mem_filter.mpr ⟨hj, hp⟩
  simp only [Bool.or_eq_true, List.contains_iff_mem]
  exact Or.inl this

theorem grow_length_mono (es : List Edge) (N : Nat) (S : List Nat) :
    (grow es N S).length ≤ (grow es N (grow es N S)).length := by
  conv => lhs; unfold grow
  conv => rhs; unfold grow
  rw [← List.countP_eq_length_filter, ← List.countP_eq_length_filter]
  exact List.countP_mono_left (fun j hj hp => grow_pred_mono es N S j hj hp)

theorem grow_eq_of_length_eq (es : List Edge) (N : Nat) (S : List Nat)
    (h : (grow es N S).length = (grow es N (grow es N S)).length) : grow es N S = grow es N (grow es N S) := by
  conv at h => lhs; unfold grow
  conv at h => rhs; unfold grow
  rw [← List.countP_eq_length_filter, ← List.countP_eq_length_filter] at h
  conv => lhs; unfold grow
  conv => rhs; unfold grow
  exact filter_eq_of_countP_eq _ _ _ (fun j hj hp => grow_pred_mono es N S j hj hp) h

theorem layer_length_mono (es : List Edge) (N k : Nat) : (layer es N k).length ≤ (layer es N (k + 1)).length := by
  rw [layer_succ, layer_eq es N k]; exact grow_length_mono es N _

theorem layer_eq_of_length_eq (es : List Edge) (N k : Nat)
    (h : (layer es N k).length = (layer es N (k + 1)).length) : layer es N k = layer es N (k + 1) := by
  rw [layer_succ, layer_eq es N k] at h ⊢; exact grow_eq_of_length_eq es N _ h

theorem layer_grows (es : List Edge) (N : Nat) (hN : 0 < N) :
    ∀ k, (∀ i, i < k → layer es N i ≠ layer es N (i + 1)) → k + 1 ≤ (layer es N k).length := by
  intro k
  induction k with
  | zero =>
    intro _
    exact List.length_pos_iff.mpr (List.ne_nil_of_mem (zero_mem_layer es N hN 0))
  | succ k ih =>
    intro h
    have h1 := ih (fun i hi => h i (by omega))
    have h2 := layer_length_mono es N k
    have h3 : (layer es N k).length ≠ (layer es N (k + 1)).length :=
      fun e => h k (by omega) (layer_eq_of_length_eq es N k e)
    omega

theorem layer_stable (es : List Edge) (N i : Nat) (h : layer es N i = layer es N (i + 1)) :
    ∀ m, layer es N (i + m) = layer es N i := by
  intro m
  induction m with
  | zero => rfl
  | succ m ih => rw [← Nat.add_assoc, layer_succ, ih, ← layer_succ, ← h]

/-- after `N` rounds the set is closed: one more round adds nothing -/
theorem growN_fixpoint (es : List Edge) (N : Nat) (hN : 0 < N) :
    grow es N (growN es N N [0]) = growN es N N [0] := by
  have hex : ∃ i, i < N ∧ layer es N i = layer es N (i + 1) := by
    apply Classical.byContradiction
    intro hno
    have := layer_grows es N hN N (fun i hi e => hno ⟨i, hi, e⟩)
    have := layer_length_le es N N
    omega
  obtain ⟨i, hi, he⟩ := hex
  have h1 := layer_stable es N i he (N - i)
  have h2 := layer_stable es N i he (N - 1 - i)
  have e1 : i + (N - i) = N := by omega
  have e2 : i + (N - 1 - i) = N - 1 := by omega
  rw [e1] at h1; rw [e2] at h2
  have hl : layer es N (N - 1) = growN es N N [0] := by
    unfold layer; congr 1; omega
  rw [← layer_eq, h1, ← h2, hl]

theorem reach_mem (es : List Edge) (N : Nat) (hN : 0 < N) (v : Nat) (h : Reach es N v) :
    v ∈ growN es N N [0] := by
  induction h with
  | zero =>
    have := zero_mem_layer es N hN (N - 1)
    unfold layer at this
    have e : N - 1 + 1 = N := by omega
    rwa [e] at this
  | step a b _ hb hs ih =>
    rw [← growN_fixpoint es N hN, mem_grow]
    exact ⟨hb, Or.inr ⟨a, ih, hs⟩⟩

/-- the executable test decides connectivity -/
theorem connectedB_iff (es : List Edge) (N : Nat) (hN : 0 < N) : connectedB es N = true ↔ Connected es N := by
  constructor
  · intro hc v hv
    exact connected_induct es N hc hN (Reach es N) Reach.zero
      (fun a b _ hb ha hs => Reach.step a b ha hb hs) v hv
  · intro h
    unfold connectedB
    rw [List.all_eq_true]
    intro v hv
    rw [List.contains_iff_mem]
    exact reach_mem es N hN v (h v (List.mem_range.mp hv))

end C18
