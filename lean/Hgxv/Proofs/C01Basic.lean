import Hgxv.Model.C01
/-! C01 helper lemmas, part 1: association lists (`del`, `set`), `canon`, characterisation of
`touchNode / linkNodes / unlinkNodes`, `seqOps`.  Core Lean only. -/
namespace C01
open AL

section alist
variable {α β : Type} [DecidableEq α]

theorem get?_del (l : List (α × β)) (k k2 : α) :
    get? (del l k) k2 = if k = k2 then none else get? l k2 := by
  induction l with
  | nil => simp [del, get?]
  | cons hd t ih =>
    simp only [del] at ih ⊢
    by_cases h : hd.1 = k
    · by_cases h2 : k = k2 <;> simp_all [get?]
    · by_cases h2 : k = k2
      · simp_all [get?]
      · by_cases h3 : hd.1 = k2 <;> simp_all [get?]

theorem keys_del (l : List (α × β)) (k : α) : keys (del l k) = (keys l).filter (fun x => x ≠ k) := by
  induction l with
  | nil => simp [del, keys]
  | cons hd t ih =>
    simp only [del, keys] at ih ⊢
    by_cases h : hd.1 = k <;> simp_all

theorem del_sublist (l : List (α × β)) (k : α) : (del l k).Sublist l := List.filter_sublist

theorem mem_keys_iff (l : List (α × β)) (k : α) : k ∈ keys l ↔ (get? l k).isSome := by
  have := get?_eq_none_iff l k
  cases h : get? l k <;> simp_all

theorem get?_of_mem {l : List (α × β)} (hnd : (keys l).Nodup) {k : α} {v : β} (h : (k, v) ∈ l) :
    get? l k = some v := by
  induction l with
  | nil => simp at h
  | cons hd t ih =>
    obtain ⟨k', v'⟩ := hd
    simp only [keys, List.map_cons, List.nodup_cons] at hnd
    rcases List.mem_cons.mp h with h | h
    · cases h; simp [get?]
    · have : k' ≠ k := by
        intro hk; subst hk; exact hnd.1 (List.mem_map.mpr ⟨(k', v), h, rfl⟩)
      simp [get?, this]; exact ih hnd.2 h

theorem mem_of_get? {l : List (α × β)} {k : α} {v : β} (h : get? l k = some v) : (k, v) ∈ l := by
  induction l with
  | nil => simp [get?] at h
  | cons hd t ih =>
    obtain ⟨k', v'⟩ := hd
    by_cases hk : k' = k
    · subst hk; simp [get?] at h; subst h; simp
    · simp [get?, hk] at h; exact List.mem_cons_of_mem _ (ih h)

theorem keys_set_nodup (l : List (α × β)) (k : α) (v : β) (h : (keys l).Nodup) : (keys (AL.set l k v)).Nodup := by
  cases hg : get? l k with
  | some v0 => rw [keys_set_of_mem l k v (by simp [hg])]; exact h
  | none =>
    rw [keys_set_of_not_mem l k v hg]
    refine List.nodup_append.mpr ⟨h, by simp, ?_⟩
    intro a ha b hb hab; simp at hb; subst hb; subst hab
    exact ((get?_eq_none_iff l a).mp hg) ha

theorem set_of_not_mem (l : List (α × β)) (k : α) (v : β) (h : get? l k = none) : AL.set l k v = l ++ [(k, v)] := by
  induction l with
  | nil => simp [AL.set]
  | cons hd t ih => grind [AL.set, get?]

theorem isSome_set (l : List (α × β)) (k k2 : α) (v : β) :
    (get? (AL.set l k v) k2).isSome = (decide (k = k2) || (get? l k2).isSome) := by
  rw [get?_set]; by_cases h : k = k2 <;> simp [h]

/-- assigning the value a key already has changes nothing -/
theorem set_same (l : List (α × β)) (k : α) (v : β) (h : get? l k = some v) : AL.set l k v = l := by
  induction l with
  | nil => simp [get?] at h
  | cons hd t ih => grind [AL.set, get?]

end alist

/-! ### canon -/

theorem insertSorted_perm (a : Nat) (l : List Nat) : (insertSorted a l).Perm (a :: l) := by
  induction l with
  | nil => simp [insertSorted]
  | cons b bs ih =>
    simp only [insertSorted]; split
    · exact List.Perm.refl _
    · exact (List.Perm.cons b ih).trans (List.Perm.swap a b bs)

theorem canon_perm (l : List Nat) : (canon l).Perm l := by
  induction l with
  | nil => simp [canon]
  | cons a l ih =>
    have : canon (a :: l) = insertSorted a (canon l) := rfl
    rw [this]; exact (insertSorted_perm a _).trans (List.Perm.cons a ih)

theorem canon_nodup {l : List Nat} (h : l.Nodup) : (canon l).Nodup := (canon_perm l).nodup_iff.mpr h
theorem mem_canon {l : List Nat} {n : Nat} : n ∈ canon l ↔ n ∈ l := (canon_perm l).mem_iff

theorem insertSorted_sorted (a : Nat) (l : List Nat) (h : l.Pairwise (· ≤ ·)) :
    (insertSorted a l).Pairwise (· ≤ ·) := by
  induction l with
  | nil => simp [insertSorted]
  | cons b bs ih =>
    simp only [insertSorted]; split
    · rename_i hab
      refine List.Pairwise.cons ?_ h
      intro x hx
      rcases List.mem_cons.mp hx with hx | hx
      · omega
      · have := (List.pairwise_cons.mp h).1 x hx; omega
    · rename_i hab
      have h' := List.pairwise_cons.mp h
      refine List.Pairwise.cons ?_ (ih h'.2)
      intro x hx
      rcases List.mem_cons.mp ((insertSorted_perm a bs).mem_iff.mp hx) with hx | hx
      · omega
      · exact h'.1 x hx

theorem canon_sorted (l : List Nat) : (canon l).Pairwise (· ≤ ·) := by
  induction l with
  | nil => simp [canon]
  | cons a l ih =>
    have : canon (a :: l) = insertSorted a (canon l) := rfl
    rw [this]; exact insertSorted_sorted a _ ih

/-- the canonical key depends on the node *set* only: any listing order gives the same key -/
theorem canon_eq_of_perm {l1 l2 : List Nat} (h : l1.Perm l2) : canon l1 = canon l2 := by
  apply List.Perm.eq_of_pairwise (le := (· ≤ ·)) _ (canon_sorted l1) (canon_sorted l2)
  · exact ((canon_perm l1).trans h).trans (canon_perm l2).symm
  · intro a b _ _ h1 h2; omega

theorem canon_of_sorted {l : List Nat} (h : l.Pairwise (· ≤ ·)) : canon l = l := by
  apply List.Perm.eq_of_pairwise (le := (· ≤ ·)) _ (canon_sorted l) h (canon_perm l)
  intro a b _ _ h1 h2; omega

theorem canon_idem (l : List Nat) : canon (canon l) = canon l := canon_of_sorted (canon_sorted l)

theorem canon_filter_of_canon {e : Edge} (h : canon e = e) (p : Nat → Bool) : canon (e.filter p) = e.filter p := by
  apply canon_of_sorted
  have : e.Pairwise (· ≤ ·) := by rw [← h]; exact canon_sorted e
  exact this.filter p

/-! ### seqOps -/

theorem seqOps_ok_of_all {α σ : Type} (f : σ → α → σ × Out) (P : σ → List α → Prop)
    (hstep : ∀ s a as, P s (a :: as) → (f s a).2 = .ok ∧ P (f s a).1 as) :
    ∀ (as : List α) (s : σ), P s as → (seqOps f s as).2 = .ok := by
  intro as
  induction as with
  | nil => intro s _; rfl
  | cons a as ih =>
    intro s hP
    obtain ⟨h1, h2⟩ := hstep s a as hP
    simp only [seqOps]
    generalize hfa : f s a = r at h1 h2
    obtain ⟨s', o⟩ := r
    simp only at h1 h2; subst h1
    exact ih s' h2

/-- an accepted sequence is the fold of the single steps -/
theorem seqOps_eq_foldl {α σ : Type} (f : σ → α → σ × Out) :
    ∀ (as : List α) (s : σ), (seqOps f s as).2 = .ok → (seqOps f s as).1 = as.foldl (fun s a => (f s a).1) s := by
  intro as
  induction as with
  | nil => intro s _; rfl
  | cons a as ih =>
    intro s h
    simp only [seqOps, List.foldl_cons] at h ⊢
    generalize hfa : f s a = r at h ⊢
    obtain ⟨s', o⟩ := r
    cases o with
    | ok => exact ih s' h
    | rej => simp at h

/-- invariant-style reasoning over `seqOps` -/
theorem seqOps_inv {α σ : Type} (f : σ → α → σ × Out) (I : σ → Prop) (Q : α → Prop)
    (hstep : ∀ s a, I s → Q a → I (f s a).1) :
    ∀ (as : List α) (s : σ), I s → (∀ a ∈ as, Q a) → I (seqOps f s as).1 := by
  intro as
  induction as with
  | nil => intro s h _; exact h
  | cons a as ih =>
    intro s h hq
    simp only [seqOps]
    have h1 := hstep s a h (hq a List.mem_cons_self)
    generalize hfa : f s a = r at h1
    obtain ⟨s', o⟩ := r
    cases o with
    | ok => exact ih s' h1 (fun x hx => hq x (List.mem_cons_of_mem _ hx))
    | rej => exact h1

/-! ### nodes -/

theorem touchNode_adj (s : Store) (m n : Node) :
    get? (touchNode s m).adj n = if n = m then some ((get? s.adj m).getD []) else get? s.adj n := by
  unfold touchNode
  cases h : get? s.adj m with
  | none => grind [get?_set]
  | some ids => grind

theorem touchNode_nmeta (s : Store) (m n : Node) (hk : keys s.nmeta = keys s.adj) :
    get? (touchNode s m).nmeta n = if n = m then some ((get? s.nmeta m).getD []) else get? s.nmeta n := by
  unfold touchNode
  cases h : get? s.adj m with
  | none =>
    have : get? s.nmeta m = none := by
      rw [get?_eq_none_iff, hk, ← get?_eq_none_iff]; exact h
    grind [get?_set]
  | some ids =>
    have : (get? s.nmeta m).isSome := by
      rw [← mem_keys_iff, hk, mem_keys_iff]; simp [h]
    obtain ⟨md, hmd⟩ := Option.isSome_iff_exists.mp this
    by_cases hnm : n = m
    · subst hnm; simp [hmd]
    · simp [hnm]

theorem touchNode_fields (s : Store) (m : Node) :
    (touchNode s m).edgeList = s.edgeList ∧ (touchNode s m).rev = s.rev ∧
    (touchNode s m).weights = s.weights ∧ (touchNode s m).emeta = s.emeta ∧
    (touchNode s m).nextId = s.nextId ∧ (touchNode s m).weighted = s.weighted ∧
    (touchNode s m).hmeta = s.hmeta := by
  unfold touchNode; split <;> simp

theorem touchNode_keys (s : Store) (m : Node) (hk : keys s.nmeta = keys s.adj) :
    keys (touchNode s m).nmeta = keys (touchNode s m).adj ∧
    keys (touchNode s m).adj = (if (get? s.adj m).isSome then keys s.adj else keys s.adj ++ [m]) := by
  unfold touchNode
  cases h : get? s.adj m with
  | none =>
    have h2 : get? s.nmeta m = none := by
      rw [get?_eq_none_iff, hk, ← get?_eq_none_iff]; exact h
    simp [keys_set_of_not_mem _ _ _ h, keys_set_of_not_mem _ _ _ h2, hk]
  | some ids => simp [hk]

theorem linkNodes_fields (s : Store) (id : Nat) (ns : List Node) :
    (linkNodes s id ns).edgeList = s.edgeList ∧ (linkNodes s id ns).rev = s.rev ∧
    (linkNodes s id ns).weights = s.weights ∧ (linkNodes s id ns).emeta = s.emeta ∧
    (linkNodes s id ns).nextId = s.nextId ∧ (linkNodes s id ns).weighted = s.weighted ∧
    (linkNodes s id ns).hmeta = s.hmeta := by
  induction ns generalizing s with
  | nil => simp [linkNodes]
  | cons n ns ih =>
    simp only [linkNodes]
    have h1 := ih ({ touchNode s n with adj := AL.set (touchNode s n).adj n (((get? (touchNode s n).adj n).getD []) ++ [id]) })
    have h2 := touchNode_fields s n
    simp only at h1
    grind

theorem linkNodes_adj (s : Store) (id : Nat) (ns : List Node) (hnd : ns.Nodup) (n : Node) :
    get? (linkNodes s id ns).adj n =
      if n ∈ ns then some (((get? s.adj n).getD []) ++ [id]) else get? s.adj n := by
  induction ns generalizing s with
  | nil => simp [linkNodes]
  | cons m ns ih =>
    simp only [linkNodes]
    have hnd' : ns.Nodup := (List.nodup_cons.mp hnd).2
    have hm : m ∉ ns := (List.nodup_cons.mp hnd).1
    rw [ih _ hnd']
    simp only [get?_set, touchNode_adj]
    grind

/-- the node tables after linking: same keys in both, old keys first, metadata of old nodes untouched -/
theorem linkNodes_nodes (s : Store) (id : Nat) (ns : List Node) (hk : keys s.nmeta = keys s.adj)
    (hnd : (keys s.adj).Nodup) :
    keys (linkNodes s id ns).nmeta = keys (linkNodes s id ns).adj ∧ (keys (linkNodes s id ns).adj).Nodup ∧
    (∀ n, get? (linkNodes s id ns).nmeta n =
       if (get? s.nmeta n).isSome then get? s.nmeta n else if n ∈ ns then some [] else none) := by
  induction ns generalizing s with
  | nil => simp [linkNodes, hk, hnd]
  | cons m ns ih =>
    simp only [linkNodes]
    have ht := touchNode_keys s m hk
    have hset : (get? (touchNode s m).adj m).isSome := by rw [touchNode_adj]; simp
    have hk' : keys ({ touchNode s m with adj := AL.set (touchNode s m).adj m (((get? (touchNode s m).adj m).getD []) ++ [id]) } : Store).nmeta
        = keys ({ touchNode s m with adj := AL.set (touchNode s m).adj m (((get? (touchNode s m).adj m).getD []) ++ [id]) } : Store).adj := by
      simp only [keys_set_of_mem _ _ _ hset]; exact ht.1
    have hnd' : (keys ({ touchNode s m with adj := AL.set (touchNode s m).adj m (((get? (touchNode s m).adj m).getD []) ++ [id]) } : Store).adj).Nodup := by
      simp only [keys_set_of_mem _ _ _ hset]
      rw [ht.2]; split
      · exact hnd
      · rename_i hn
        refine List.nodup_append.mpr ⟨hnd, by simp, ?_⟩
        intro a ha b hb hab; simp at hb; subst hb; subst hab
        exact hn ((mem_keys_iff _ _).mp ha)
    obtain ⟨h1, h2, h3⟩ := ih _ hk' hnd'
    refine ⟨h1, h2, ?_⟩
    intro n
    rw [h3 n]
    simp only [touchNode_nmeta s m _ hk]
    by_cases hnm : n = m
    · subst hnm
      cases hg : get? s.nmeta n <;> simp [hg]
    · simp [hnm]

/-! ### unlinkNodes -/

theorem unlinkNodes_keys (adj : List (Node × List Nat)) (id : Nat) (ns : List Node) :
    keys (unlinkNodes adj id ns) = keys adj := by
  induction ns generalizing adj with
  | nil => rfl
  | cons n ns ih =>
    simp only [unlinkNodes]
    cases h : get? adj n with
    | none => simp [ih]
    | some ids => simp only [ih]; exact keys_set_of_mem _ _ _ (by simp [h])

theorem unlinkNodes_get (adj : List (Node × List Nat)) (id : Nat) (ns : List Node) (hnd : ns.Nodup) (n : Node) :
    get? (unlinkNodes adj id ns) n = if n ∈ ns then (get? adj n).map (fun ids => ids.erase id) else get? adj n := by
  induction ns generalizing adj with
  | nil => simp [unlinkNodes]
  | cons m ns ih =>
    simp only [unlinkNodes]
    have hnd' : ns.Nodup := (List.nodup_cons.mp hnd).2
    have hm : m ∉ ns := (List.nodup_cons.mp hnd).1
    rw [ih _ hnd']
    cases h : get? adj m with
    | none => grind
    | some ids => simp only [get?_set]; grind

end C01
