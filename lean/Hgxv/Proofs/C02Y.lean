import Hgxv.Model.C02Y
import Hgxv.Proofs.C02X
/-! C02 helper lemmas, second extension round: constructor as public calls, raw setters / populate, mapping. -/
namespace C02
open AL

/-! ### constructor -/

theorem run_append (s : Store) (a b : List Op) : run s (a ++ b) = run (run s a) b := by
  induction a generalizing s with
  | nil => rfl
  | cons o os ih => simp only [List.cons_append, run]; exact ih _

theorem run_nodeCalls (s : Store) (l : List (Node × Meta)) :
    run s (l.map (fun p => Op.addNode p.1 (some p.2))) = addNodesMeta s l := by
  induction l generalizing s with
  | nil => rfl
  | cons p r ih => obtain ⟨n, md⟩ := p; simp only [List.map_cons, run, applyOp, addNodesMeta]; exact ih _

theorem runOk_nodeCalls (s : Store) (l : List (Node × Meta)) (rest : List Op) :
    runOk s (l.map (fun p => Op.addNode p.1 (some p.2)) ++ rest) = runOk (addNodesMeta s l) rest := by
  induction l generalizing s with
  | nil => rfl
  | cons p r ih => obtain ⟨n, md⟩ := p; simp only [List.map_cons, List.cons_append, runOk, applyOp, addNodesMeta]; exact ih _

/-- the constructor's own length test is subsumed by the one of `add_edges` -/
theorem addEdges_rej_of_own (s : Store) (el : List RawEdge) (ws : Option (List Int)) (mds : Option (List Meta))
    (h : (ws.isSome && decide (el.length ≠ (ws.getD []).length)) = true) : (addEdges s el ws mds).2 = .rej := by
  cases ws with
  | none => simp at h
  | some l =>
    simp at h
    simp [addEdges, h]

/-- the constructor IS the run of its public calls; accepted iff every call is -/
theorem ctor_as_calls (w : Bool) (hm : Option Meta) (nm : Option (List (Node × Meta))) (es : Option (List RawEdge))
    (ws : Option (List Int)) (mds : Option (List Meta)) :
    ((ctor w hm nm es ws mds).2 = .ok ↔ (runOk (ctorInit w hm) (ctorCalls nm es ws mds)).isSome = true) ∧
    ((ctor w hm nm es ws mds).2 = .ok →
      runOk (ctorInit w hm) (ctorCalls nm es ws mds) = some (ctor w hm nm es ws mds).1 ∧
      (ctor w hm nm es ws mds).1 = run (ctorInit w hm) (ctorCalls nm es ws mds)) := by
  unfold ctor ctorCalls ctorNodeCalls ctorInit
  cases es with
  | none =>
    simp only [List.append_nil]
    have h1 := runOk_nodeCalls { weighted := w, hmeta := ctorHMeta hm w } (nm.getD []) []
    simp only [List.append_nil] at h1
    rw [h1, run_nodeCalls]
    simp [runOk]
  | some el =>
    simp only []
    rw [runOk_nodeCalls, run_append, run_nodeCalls]
    simp only [runOk, run, applyOp]
    by_cases hown : (w && ws.isSome && decide (el.length ≠ (ws.getD []).length)) = true
    · have hr := addEdges_rej_of_own (addNodesMeta { weighted := w, hmeta := ctorHMeta hm w } (nm.getD [])) el ws mds
        (by cases w <;> simp_all)
      simp only [hown, if_true, hr]
      simp
    · simp only [hown]
      cases hr : (addEdges (addNodesMeta { weighted := w, hmeta := ctorHMeta hm w } (nm.getD [])) el ws mds).2 <;> simp [hr]

/-! rejection of `add_edges` read off the arguments -/

theorem addNode_weighted (s : Store) (n : Node) (md : Option Meta) : (addNode s n md).weighted = s.weighted := by
  have h1 : (ensureNode s n).weighted = s.weighted := by unfold ensureNode; split <;> rfl
  unfold addNode
  simp only []
  split <;> simp [h1]

theorem addEdgeKey_weighted (s : Store) (k : Key) (w : Option Int) (md : Option Meta) :
    (addEdgeKey s k w md).1.weighted = s.weighted := by
  unfold addEdgeKey
  split
  · rfl
  · split
    · simp only [addEdgeNew]
      have hS : ∀ (t : Store) (id : Nat) (l : List Node), (linkSrc t id l).weighted = t.weighted := by
        intro t id l
        induction l generalizing t with
        | nil => rfl
        | cons n ns ih => simp only [linkSrc]; rw [ih]; exact addNode_weighted t n none
      have hT : ∀ (t : Store) (id : Nat) (l : List Node), (linkTgt t id l).weighted = t.weighted := by
        intro t id l
        induction l generalizing t with
        | nil => rfl
        | cons n ns ih => simp only [linkTgt]; rw [ih]; exact addNode_weighted t n none
      simp only [hT, hS]
    · rfl

theorem addEdgeKey_ok_of (s : Store) (k : Key) (w : Option Int) (md : Option Meta) (h : s.weighted = true ∨ w = none) :
    (addEdgeKey s k w md).2 = .ok := by
  unfold addEdgeKey
  rcases h with h | h
  · simp only [h]; simp; split <;> rfl
  · subst h; simp; split <;> rfl

theorem addEdgesLoop_rej_iff (s : Store) (es : List RawEdge) (ws : Option (List Int)) (mds : Option (List Meta))
    (h : s.weighted = true ∨ ws = none) :
    (addEdgesLoop s es ws mds).2 = .rej ↔
      ((∃ l, ws = some l ∧ l.length < es.length) ∨ (∃ m, mds = some m ∧ m.length < es.length)) := by
  induction es generalizing s ws mds with
  | nil => simp [addEdgesLoop]
  | cons e es ih =>
    unfold addEdgesLoop
    cases mds with
    | some m =>
      cases m with
      | nil => simp
      | cons m0 mr =>
        cases ws with
        | some l =>
          cases l with
          | nil => simp
          | cons l0 lr =>
            have hw : s.weighted = true := by simpa using h
            have hok := addEdgeKey_ok_of s (canonAdd e) (some l0) (some m0) (Or.inl hw)
            simp only [Option.bind, List.head?, addEdge, hok, Option.map, List.tail]
            rw [ih _ _ _ (Or.inl (by rw [addEdgeKey_weighted]; exact hw))]
            simp
        | none =>
          have hok := addEdgeKey_ok_of s (canonAdd e) none (some m0) (Or.inr rfl)
          simp only [Option.bind, List.head?, addEdge, hok, Option.map, List.tail]
          rw [ih _ _ _ (Or.inr rfl)]
          simp
    | none =>
      cases ws with
      | some l =>
        cases l with
        | nil => simp
        | cons l0 lr =>
          have hw : s.weighted = true := by simpa using h
          have hok := addEdgeKey_ok_of s (canonAdd e) (some l0) none (Or.inl hw)
          simp only [Option.bind, List.head?, addEdge, hok, Option.map, List.tail]
          rw [ih _ _ _ (Or.inl (by rw [addEdgeKey_weighted]; exact hw))]
          simp
      | none =>
        have hok := addEdgeKey_ok_of s (canonAdd e) none none (Or.inr rfl)
        simp only [Option.bind, addEdge, hok, Option.map]
        rw [ih _ _ _ (Or.inr rfl)]
        simp

theorem addEdges_rej_iff (s : Store) (el : List RawEdge) (ws : Option (List Int)) (mds : Option (List Meta)) :
    (addEdges s el ws mds).2 = .rej ↔ ctorRejArgs (some el) ws mds = true := by
  unfold addEdges ctorRejArgs
  cases ws with
  | some l =>
    simp only [Option.isSome_some, Bool.true_and]
    by_cases hl : el.length = l.length
    · rw [if_neg (by simp [hl])]
      simp only [hl, ne_eq, not_true_eq_false, decide_false, Bool.false_or]
      rw [addEdgesLoop_rej_iff _ _ _ _ (Or.inl (by cases hw : s.weighted <;> simp [hw]))]
      cases l with
      | nil =>
        have h0 : el.length = 0 := by simpa using hl
        cases mds with
        | none => simp [truthy]
        | some m => cases m <;> simp [truthy, h0]
      | cons l0 lr =>
        have h0 : el.length = lr.length + 1 := by simpa using hl
        cases mds with
        | none => simp [truthy, h0]
        | some m => cases m <;> simp [truthy, h0]
    · simp [hl]
  | none =>
    simp only [Option.isSome_none, Bool.false_and, Bool.false_eq_true, if_false, Bool.false_or]
    rw [addEdgesLoop_rej_iff _ _ _ _ (Or.inr rfl)]
    cases mds with
    | none => simp [truthy]
    | some m => cases m <;> simp [truthy]

theorem ctor_rej_iff (w : Bool) (hm : Option Meta) (nm : Option (List (Node × Meta))) (es : Option (List RawEdge))
    (ws : Option (List Int)) (mds : Option (List Meta)) :
    (ctor w hm nm es ws mds).2 = .rej ↔ ctorRejArgs es ws mds = true := by
  cases es with
  | none => simp [ctor, ctorRejArgs]
  | some el =>
    unfold ctor
    simp only []
    by_cases hown : (w && ws.isSome && decide (el.length ≠ (ws.getD []).length)) = true
    · simp only [hown, if_true, true_iff]
      rw [← addEdges_rej_iff (addNodesMeta { weighted := w, hmeta := ctorHMeta hm w } (nm.getD [])) el ws mds]
      exact addEdges_rej_of_own _ el ws mds (by cases w <;> simp_all)
    · simp only [hown]
      exact addEdges_rej_iff _ el ws mds

theorem ctorCalls_WF (nm : Option (List (Node × Meta))) (es : Option (List RawEdge)) (ws : Option (List Int))
    (mds : Option (List Meta)) (hes : ∀ e ∈ es.getD [], RawWF e) : ∀ o ∈ ctorCalls nm es ws mds, o.WF := by
  intro o ho
  unfold ctorCalls ctorNodeCalls at ho
  rcases List.mem_append.mp ho with h | h
  · obtain ⟨p, _, rfl⟩ := List.mem_map.mp h; trivial
  · cases es with
    | none => simp at h
    | some el => simp at h; subst h; exact hes

/-! ### raw setters / populate -/

theorem populate_expose (s : Store) : populate (expose s) = s := by cases s; rfl
theorem expose_populate (t : Tables) : expose (populate t) = t := by cases t; rfl

theorem echo_step (x : Full) (o : RawOp) (h : o.echo x = true) : rawStep x o = pubRun x (pubOps [o]) := by
  cases o with
  | pub o => rfl
  | setEL el =>
    have : el = x.base.edgeList := by simpa [RawOp.echo, getEdgeList] using h
    subst this; rfl
  | setAdj b adj =>
    have : adj = getAdjDict x.base b := by simpa [RawOp.echo] using h
    subst this
    cases b <;> rfl
  | pop t =>
    have : t = expose x.base := by simpa [RawOp.echo] using h
    subst this
    simp only [rawStep, Full.populate, populate_expose, pubOps, pubRun, pubStep, Option.getD]

theorem pubOps_cons (o : RawOp) (os : List RawOp) : pubOps (o :: os) = pubOps [o] ++ pubOps os := by
  cases o <;> rfl

theorem pubRun_append (x : Full) (a b : List PubStep) : pubRun x (a ++ b) = pubRun (pubRun x a) b := by
  induction a generalizing x with
  | nil => rfl
  | cons o os ih => simp only [List.cons_append, pubRun]; exact ih _

theorem rawRun_echo (x : Full) (ops : List RawOp) (h : echoes x ops = true) : rawRun x ops = pubRun x (pubOps ops) := by
  induction ops generalizing x with
  | nil => rfl
  | cons o os ih =>
    simp only [echoes, Bool.and_eq_true] at h
    rw [pubOps_cons, pubRun_append, ← echo_step x o h.1]
    exact ih _ h.2

theorem pubStep_base_of_echo (x : Full) (o : RawOp) (h : o.echo x = true) :
    (rawStep x o).base = run x.base (baseOps [o]) := by
  rw [echo_step x o h]
  cases o with
  | pub o => cases o <;> rfl
  | setEL el => rfl
  | setAdj b adj => rfl
  | pop t => rfl

theorem baseOps_cons (o : RawOp) (os : List RawOp) : baseOps (o :: os) = baseOps [o] ++ baseOps os := by
  cases o with
  | pub o => cases o <;> rfl
  | setEL el => rfl
  | setAdj b adj => rfl
  | pop t => rfl

theorem rawRun_base (x : Full) (ops : List RawOp) (h : echoes x ops = true) :
    (rawRun x ops).base = run x.base (baseOps ops) := by
  induction ops generalizing x with
  | nil => rfl
  | cons o os ih =>
    simp only [echoes, Bool.and_eq_true] at h
    rw [baseOps_cons, run_append, ← pubStep_base_of_echo x o h.1]
    exact ih _ h.2

def RawOp.WF : RawOp → Prop
  | .pub o => o.WF
  | _ => True

theorem baseOps_WF (ops : List RawOp) (h : ∀ o ∈ ops, o.WF) : ∀ o ∈ baseOps ops, o.WF := by
  induction ops with
  | nil => intro o ho; simp [baseOps] at ho
  | cons a os ih =>
    intro o ho
    rw [baseOps_cons] at ho
    rcases List.mem_append.mp ho with h1 | h1
    · have ha := h a List.mem_cons_self
      cases a with
      | pub f =>
        cases f with
        | base b => simp [baseOps] at h1; subst h1; exact ha
        | setInc e n md => simp [baseOps] at h1
      | setEL el => simp [baseOps] at h1
      | setAdj b adj => simp [baseOps] at h1
      | pop t => simp [baseOps] at h1
    · exact ih (fun o' ho' => h o' (List.mem_cons_of_mem _ ho')) o h1

/-! ### mapping -/

theorem sorted_lt_of_nodup {l : List Nat} (h : l.Pairwise (· ≤ ·)) (nd : l.Nodup) : l.Pairwise (· < ·) := by
  induction l with
  | nil => exact List.Pairwise.nil
  | cons a l ih =>
    rw [List.pairwise_cons] at h ⊢
    rw [List.nodup_cons] at nd
    refine ⟨fun b hb => ?_, ih h.2 nd.2⟩
    have := h.1 b hb
    have hne : a ≠ b := fun e => nd.1 (e ▸ hb)
    omega

theorem indexFrom_of_get (n : Node) (l : List Node) (nd : l.Nodup) (i k : Nat) (h : l[i]? = some n) :
    indexFrom n l k = some (k + i) := by
  induction l generalizing i k with
  | nil => simp at h
  | cons a l ih =>
    rw [List.nodup_cons] at nd
    cases i with
    | zero =>
      have : a = n := by simpa using h
      simp [indexFrom, this]
    | succ i =>
      have h' : l[i]? = some n := by simpa using h
      have hm : n ∈ l := List.mem_of_getElem? h'
      have hne : a ≠ n := fun e => nd.1 (e ▸ hm)
      simp only [indexFrom, hne, if_false]
      rw [ih nd.2 i (k + 1) h']
      congr 1; omega

theorem indexFrom_some (n : Node) (l : List Node) (k j : Nat) (h : indexFrom n l k = some j) :
    ∃ i, j = k + i ∧ l[i]? = some n := by
  induction l generalizing k with
  | nil => simp [indexFrom] at h
  | cons a l ih =>
    simp only [indexFrom] at h
    split at h
    · rename_i e
      injection h with h
      exact ⟨0, by omega, by simp [e]⟩
    · obtain ⟨i, h1, h2⟩ := ih (k + 1) h
      exact ⟨i + 1, by omega, by simpa using h2⟩

theorem indexFrom_none (n : Node) (l : List Node) (k : Nat) : indexFrom n l k = none ↔ n ∉ l := by
  induction l generalizing k with
  | nil => simp [indexFrom]
  | cons a l ih =>
    simp only [indexFrom]
    split
    · rename_i e; simp [e]
    · rename_i e
      rw [ih]
      simp [List.mem_cons, Ne.symm e]

theorem mapping_props (s : Store) (h : Inv s) :
    (mapping s).Pairwise (· < ·) ∧ (∀ n, n ∈ mapping s ↔ checkNode s n = true) ∧
    (mapping s).length = numNodes s := by
  refine ⟨sorted_lt_of_nodup (sortNodes_sorted _) (sortNodes_nodup h.nd_adjS), fun n => ?_, sortNodes_length _⟩
  unfold mapping checkNode nodes
  rw [(sortNodes_perm _).mem_iff, has_iff]

end C02
