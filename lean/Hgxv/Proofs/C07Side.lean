import Hgxv.Model.C07Side
/-! # C07: the side tables never reach the hashing tables (core Lean only) -/
namespace C07
open AL

variable {κ : Type} [Kind κ] [SideKind κ]

theorem setInc_base (o : Obj κ) (raw : κ) (n : Nat) (md : JTree) : (setInc o raw n md).1.base = o.base := by
  unfold setInc; split <;> rfl

theorem addEmpty_base (o : Obj κ) (name : String) (md : JTree) : (addEmpty o name md).1.base = o.base := by
  unfold addEmpty; split <;> rfl

theorem ostep_base (o : Obj κ) (op : OOp κ) :
    (ostep o op).1.base = match op.toBase? with | some b => (step o.base b).1 | none => o.base := by
  cases op with
  | base b => rfl
  | setInc raw n md => exact setInc_base o raw n md
  | addEmpty name md => exact addEmpty_base o name md

/-- the hashing tables after a history are the hashing tables after the history with the side-table calls left out -/
theorem orun_base (o : Obj κ) (ops : List (OOp κ)) : (orun o ops).base = run o.base (ops.filterMap OOp.toBase?) := by
  induction ops generalizing o with
  | nil => rfl
  | cons op rest ih =>
    have h : orun o (op :: rest) = orun (ostep o op).1 rest := rfl
    rw [h, ih, ostep_base]
    cases op with
    | base b => rfl
    | setInc raw n md => rfl
    | addEmpty name md => rfl

/-- a call of the old API does the same to the hashing tables whatever the side tables hold -/
theorem ostep_base_indep (o o' : Obj κ) (h : o.base = o'.base) (b : Op κ) :
    (ostep o (.base b)).1.base = (ostep o' (.base b)).1.base ∧ (ostep o (.base b)).2 = (ostep o' (.base b)).2 := by
  simp only [ostep, h, and_self]

end C07
