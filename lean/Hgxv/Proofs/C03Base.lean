import Hgxv.Model.C03
/-! Helper lemmas for C03 (core Lean only): association lists, `canon`, `sortKeys`. -/
namespace AL
variable {α β : Type} [DecidableEq α]

theorem get?_isSome_of_mem_keys (l : List (α × β)) (k : α) (h : k ∈ keys l) : (get? l k).isSome := by
  cases hg : get? l k with
  | none => exact absurd h ((get?_eq_none_iff l k).mp hg)
  | some v => rfl

theorem mem_keys_iff (l : List (α × β)) (k : α) : k ∈ keys l ↔ (get? l k).isSome := by
  constructor
  · exact get?_isSome_of_mem_keys l k
  · intro h
    apply Decidable.byContradiction; intro hc
    rw [(get?_eq_none_iff l k).mpr hc] at h; cases h

theorem keys_set_nodup (l : List (α × β)) (k : α) (v : β) (h : (keys l).Nodup) : (keys (set l k v)).Nodup := by
  cases hg : get? l k with
  | none =>
    rw [keys_set_of_not_mem l k v hg]
    refine List.nodup_append.mpr ⟨h, by simp, ?_⟩
    intro a ha b hb hab; simp at hb; subst hb; subst hab
    exact ((get?_eq_none_iff l a).mp hg) ha
  | some x => rw [keys_set_of_mem l k v (by simp [hg])]; exact h

theorem keys_erase_nodup (l : List (α × β)) (k : α) (h : (keys l).Nodup) : (keys (erase l k)).Nodup := by
  rw [keys_erase_perm]; exact h.erase k

theorem get?_erase (l : List (α × β)) (k k2 : α) (hnd : (keys l).Nodup) :
    get? (erase l k) k2 = if k = k2 then none else get? l k2 := by
  by_cases h : k = k2
  · subst h; simp [get?_erase_self l k hnd]
  · simp [h, get?_erase_ne l k k2 h]

theorem mem_of_get? (l : List (α × β)) (k : α) (v : β) (h : get? l k = some v) : (k, v) ∈ l := by
  induction l with
  | nil => simp at h
  | cons hd t ih => grind [get?]

theorem get?_of_mem (l : List (α × β)) (k : α) (v : β) (hnd : (keys l).Nodup) (h : (k, v) ∈ l) : get? l k = some v := by
  induction l with
  | nil => simp at h
  | cons hd t ih =>
    obtain ⟨k', v'⟩ := hd
    simp only [keys, List.map_cons, List.nodup_cons] at hnd
    simp only [List.mem_cons] at h
    rcases h with h | h
    · cases h; simp [get?]
    · have : k' ≠ k := by
        intro hk; subst hk; exact hnd.1 (List.mem_map.mpr ⟨(k', v), h, rfl⟩)
      simp [get?, this]; exact ih hnd.2 h

end AL

namespace C03
open AL

theorem insertSorted_perm (a : Nat) (l : List Nat) : (insertSorted a l).Perm (a :: l) := by
  induction l with
  | nil => simp [insertSorted]
  | cons b bs ih =>
    simp only [insertSorted]; split
    · exact List.Perm.refl _
    · exact (List.Perm.cons b ih).trans (List.Perm.swap a b bs)

theorem canon_perm (l : List Nat) : (canon l).Perm l := by
  induction l with
  | nil => simp [canon]
  | cons a l ih =>
    have : canon (a :: l) = insertSorted a (canon l) := rfl
    rw [this]; exact (insertSorted_perm a _).trans (List.Perm.cons a ih)

theorem canon_nodup {l : List Nat} (h : l.Nodup) : (canon l).Nodup := (canon_perm l).nodup_iff.mpr h
theorem mem_canon {l : List Nat} {n : Nat} : n ∈ canon l ↔ n ∈ l := (canon_perm l).mem_iff

/-- sorted = pairwise `≤` -/
def Sorted (l : List Nat) : Prop := l.Pairwise (· ≤ ·)

theorem insertSorted_sorted (a : Nat) (l : List Nat) (h : Sorted l) : Sorted (insertSorted a l) := by
  induction l with
  | nil => simp [insertSorted, Sorted]
  | cons b bs ih =>
    unfold Sorted at *
    simp only [insertSorted]; split
    · rename_i hab
      refine List.pairwise_cons.mpr ⟨?_, h⟩
      intro x hx
      rcases List.mem_cons.mp hx with hx | hx
      · subst hx; exact hab
      · exact Nat.le_trans hab ((List.pairwise_cons.mp h).1 x hx)
    · rename_i hab
      refine List.pairwise_cons.mpr ⟨?_, ih (List.pairwise_cons.mp h).2⟩
      intro x hx
      rcases List.mem_cons.mp ((insertSorted_perm a bs).mem_iff.mp hx) with hx | hx
      · subst hx; omega
      · exact (List.pairwise_cons.mp h).1 x hx

theorem canon_sorted (l : List Nat) : Sorted (canon l) := by
  induction l with
  | nil => simp [canon, Sorted]
  | cons a l ih =>
    have : canon (a :: l) = insertSorted a (canon l) := rfl
    rw [this]; exact insertSorted_sorted a _ ih

theorem insertSorted_of_le (a : Nat) (l : List Nat) (h : ∀ x ∈ l, a ≤ x) : insertSorted a l = a :: l := by
  cases l with
  | nil => rfl
  | cons b bs => simp [insertSorted, h b (by simp)]

/-- `sorted` is idempotent: a sorted tuple is its own canonical form -/
theorem canon_of_sorted (l : List Nat) (h : Sorted l) : canon l = l := by
  induction l with
  | nil => rfl
  | cons a l ih =>
    have : canon (a :: l) = insertSorted a (canon l) := rfl
    unfold Sorted at h
    rw [this, ih (List.pairwise_cons.mp h).2]
    exact insertSorted_of_le a l (List.pairwise_cons.mp h).1

theorem canon_canon (l : List Nat) : canon (canon l) = canon l := canon_of_sorted _ (canon_sorted l)

theorem sorted_filter (l : List Nat) (p : Nat → Bool) (h : Sorted l) : Sorted (l.filter p) := by
  unfold Sorted at *; exact h.filter p

/-- two sorted duplicate-free lists with the same members are equal: the canonical form depends on the node SET only -/
theorem sorted_ext (l1 l2 : List Nat) (h1 : Sorted l1) (h2 : Sorted l2) (n1 : l1.Nodup) (n2 : l2.Nodup)
    (h : ∀ x, x ∈ l1 ↔ x ∈ l2) : l1 = l2 := by
  have hp : l1.Perm l2 := (List.perm_ext_iff_of_nodup n1 n2).mpr h
  unfold Sorted at *
  exact List.Perm.eq_of_pairwise (le := (· ≤ ·)) (fun a b _ _ hab hba => Nat.le_antisymm hab hba) h1 h2 hp

theorem canon_eq_of_perm (l1 l2 : List Nat) (h : l1.Perm l2) : canon l1 = canon l2 := by
  have hp : (canon l1).Perm (canon l2) := (canon_perm l1).trans (h.trans (canon_perm l2).symm)
  have h1 := canon_sorted l1
  have h2 := canon_sorted l2
  unfold Sorted at *
  exact List.Perm.eq_of_pairwise (le := (· ≤ ·)) (fun a b _ _ hab hba => Nat.le_antisymm hab hba) h1 h2 hp

/-! `sortKeys` -/
theorem insertKey_perm (a : Key) (l : List Key) : (insertKey a l).Perm (a :: l) := by
  induction l with
  | nil => simp [insertKey]
  | cons b bs ih =>
    simp only [insertKey]; split
    · exact List.Perm.refl _
    · exact (List.Perm.cons b ih).trans (List.Perm.swap a b bs)

theorem sortKeys_perm (l : List Key) : (sortKeys l).Perm l := by
  induction l with
  | nil => simp [sortKeys]
  | cons a l ih =>
    have : sortKeys (a :: l) = insertKey a (sortKeys l) := rfl
    rw [this]; exact (insertKey_perm a _).trans (List.Perm.cons a ih)

theorem mem_sortKeys {l : List Key} {k : Key} : k ∈ sortKeys l ↔ k ∈ l := (sortKeys_perm l).mem_iff

/-- times are non-decreasing along a list of records -/
def TimeSorted (l : List Key) : Prop := l.Pairwise (fun a b => a.1 ≤ b.1)

theorem keyLe_time {a b : Key} (h : keyLe a b = true) : a.1 ≤ b.1 := by
  unfold keyLe at h
  by_cases h1 : a.1 < b.1
  · omega
  · by_cases h2 : b.1 < a.1
    · simp [h1, h2] at h
    · omega

theorem not_keyLe_time {a b : Key} (h : ¬ keyLe a b = true) : b.1 ≤ a.1 := by
  unfold keyLe at h
  by_cases h1 : a.1 < b.1
  · simp [h1] at h
  · omega

theorem insertKey_timeSorted (a : Key) (l : List Key) (h : TimeSorted l) : TimeSorted (insertKey a l) := by
  induction l with
  | nil => simp [insertKey, TimeSorted]
  | cons b bs ih =>
    unfold TimeSorted at *
    simp only [insertKey]; split
    · rename_i hab
      refine List.pairwise_cons.mpr ⟨?_, h⟩
      intro x hx
      rcases List.mem_cons.mp hx with hx | hx
      · subst hx; exact keyLe_time hab
      · exact Nat.le_trans (keyLe_time hab) ((List.pairwise_cons.mp h).1 x hx)
    · rename_i hab
      refine List.pairwise_cons.mpr ⟨?_, ih (List.pairwise_cons.mp h).2⟩
      intro x hx
      rcases List.mem_cons.mp ((insertKey_perm a bs).mem_iff.mp hx) with hx | hx
      · subst hx; exact not_keyLe_time hab
      · exact (List.pairwise_cons.mp h).1 x hx

theorem sortKeys_timeSorted (l : List Key) : TimeSorted (sortKeys l) := by
  induction l with
  | nil => simp [sortKeys, TimeSorted]
  | cons a l ih =>
    have : sortKeys (a :: l) = insertKey a (sortKeys l) := rfl
    rw [this]; exact insertKey_timeSorted a _ ih

end C03
