import Hgxv.Model.C10
/-! Helper lemmas for C10: the networkx graph tables, `pairsOf`, folds of `addEdge`. Core Lean only. -/
namespace C10

section graph
variable {ν : Type} [DecidableEq ν]

@[simp] theorem adj_touch (g : Graph ν) (v : ν) : (g.touch v).adj = g.adj := by
  unfold Graph.touch; split <;> rfl

@[simp] theorem adj_addNode (g : Graph ν) (v : ν) (a : Option Nat) : (g.addNode v a).adj = g.adj := by
  unfold Graph.addNode; split <;> simp

theorem get_adj_addEdge (g : Graph ν) (u v : ν) (w : Option Rat) (x y : ν) :
    AL.get? (g.addEdge u v w).adj (x, y) =
      if (x, y) = (u, v) ∨ (x, y) = (v, u) then some w else AL.get? g.adj (x, y) := by
  simp only [Graph.addEdge, adj_touch, AL.get?_set]
  grind

theorem get_adj_addArc (g : Graph ν) (u v : ν) (w : Option Rat) (x y : ν) :
    AL.get? (g.addArc u v w).adj (x, y) = if (x, y) = (u, v) then some w else AL.get? g.adj (x, y) := by
  simp only [Graph.addArc, adj_touch, AL.get?_set]
  grind

theorem keys_touch (g : Graph ν) (v : ν) :
    AL.keys (g.touch v).nodes = if v ∈ AL.keys g.nodes then AL.keys g.nodes else AL.keys g.nodes ++ [v] := by
  unfold Graph.touch AL.has
  by_cases h : v ∈ AL.keys g.nodes
  · have : AL.get? g.nodes v ≠ none := by rw [Ne, AL.get?_eq_none_iff]; simpa using h
    have h2 : (AL.get? g.nodes v).isSome = true := by
      cases hh : AL.get? g.nodes v with
      | none => exact absurd hh this
      | some _ => rfl
    simp [h, h2]
  · have : AL.get? g.nodes v = none := (AL.get?_eq_none_iff _ _).2 h
    rw [if_neg h]; simp [this, AL.keys]

theorem touch_of_mem (g : Graph ν) (v : ν) (h : v ∈ AL.keys g.nodes) : g.touch v = g := by
  unfold Graph.touch AL.has
  have : AL.get? g.nodes v ≠ none := by rw [Ne, AL.get?_eq_none_iff]; simpa using h
  cases hh : AL.get? g.nodes v with
  | none => exact absurd hh this
  | some _ => simp

theorem mem_keys_touch (g : Graph ν) (v x : ν) :
    x ∈ AL.keys (g.touch v).nodes ↔ x = v ∨ x ∈ AL.keys g.nodes := by
  rw [keys_touch]; split <;> grind

theorem nodup_keys_touch (g : Graph ν) (v : ν) (h : (AL.keys g.nodes).Nodup) :
    (AL.keys (g.touch v).nodes).Nodup := by
  rw [keys_touch]; split
  · exact h
  · rename_i hv; exact List.nodup_append.2 ⟨h, by simp, by grind⟩

theorem mem_keys_addEdge (g : Graph ν) (u v : ν) (w : Option Rat) (x : ν) :
    x ∈ AL.keys (g.addEdge u v w).nodes ↔ x = u ∨ x = v ∨ x ∈ AL.keys g.nodes := by
  simp only [Graph.addEdge, mem_keys_touch]; grind

theorem nodup_keys_addEdge (g : Graph ν) (u v : ν) (w : Option Rat) (h : (AL.keys g.nodes).Nodup) :
    (AL.keys (g.addEdge u v w).nodes).Nodup := by
  simp only [Graph.addEdge]; exact nodup_keys_touch _ _ (nodup_keys_touch _ _ h)

theorem addEdge_nodes_of_mem (g : Graph ν) (u v : ν) (w : Option Rat)
    (hu : u ∈ AL.keys g.nodes) (hv : v ∈ AL.keys g.nodes) : (g.addEdge u v w).nodes = g.nodes := by
  simp only [Graph.addEdge, touch_of_mem g u hu, touch_of_mem g v hv]

theorem addArc_nodes_of_mem (g : Graph ν) (u v : ν) (w : Option Rat)
    (hu : u ∈ AL.keys g.nodes) (hv : v ∈ AL.keys g.nodes) : (g.addArc u v w).nodes = g.nodes := by
  simp only [Graph.addArc, touch_of_mem g u hu, touch_of_mem g v hv]

/-- a run of attribute-free `add_edge` calls -/
def addEdges (g : Graph ν) (ps : List (ν × ν)) : Graph ν := ps.foldl (fun g p => g.addEdge p.1 p.2 none) g

theorem get_adj_addEdges (ps : List (ν × ν)) (g : Graph ν) (x y : ν) :
    AL.get? (addEdges g ps).adj (x, y) =
      if (x, y) ∈ ps ∨ (y, x) ∈ ps then some none else AL.get? g.adj (x, y) := by
  induction ps generalizing g with
  | nil => simp [addEdges]
  | cons p ps ih =>
    have : addEdges g (p :: ps) = addEdges (g.addEdge p.1 p.2 none) ps := rfl
    rw [this, ih, get_adj_addEdge]
    obtain ⟨p1, p2⟩ := p
    grind

theorem mem_keys_addEdges (ps : List (ν × ν)) (g : Graph ν) (x : ν) :
    x ∈ AL.keys (addEdges g ps).nodes ↔ x ∈ AL.keys g.nodes ∨ ∃ p ∈ ps, x = p.1 ∨ x = p.2 := by
  induction ps generalizing g with
  | nil => simp [addEdges]
  | cons p ps ih =>
    have : addEdges g (p :: ps) = addEdges (g.addEdge p.1 p.2 none) ps := rfl
    rw [this, ih, mem_keys_addEdge]
    grind

theorem nodup_keys_addEdges (ps : List (ν × ν)) (g : Graph ν) (h : (AL.keys g.nodes).Nodup) :
    (AL.keys (addEdges g ps).nodes).Nodup := by
  induction ps generalizing g with
  | nil => simpa [addEdges]
  | cons p ps ih => exact ih _ (nodup_keys_addEdge _ _ _ _ h)

theorem addEdges_append (g : Graph ν) (ps qs : List (ν × ν)) :
    addEdges g (ps ++ qs) = addEdges (addEdges g ps) qs := by
  simp [addEdges, List.foldl_append]

end graph

/-! ### pairsOf -/
section pairs
variable {α : Type}

theorem mem_pairsOf_mem {l : List α} {x y : α} (h : (x, y) ∈ pairsOf l) : x ∈ l ∧ y ∈ l := by
  induction l with
  | nil => simp [pairsOf] at h
  | cons a t ih =>
    simp only [pairsOf, List.mem_append, List.mem_map] at h
    rcases h with ⟨b, hb, hp⟩ | h
    · grind
    · have := ih h; grind

theorem mem_pairsOf_ne {l : List α} (hnd : l.Nodup) {x y : α} (h : (x, y) ∈ pairsOf l) : x ≠ y := by
  induction l with
  | nil => simp [pairsOf] at h
  | cons a t ih =>
    simp only [pairsOf, List.mem_append, List.mem_map] at h
    rw [List.nodup_cons] at hnd
    rcases h with ⟨b, hb, hp⟩ | h
    · grind
    · exact ih hnd.2 h

theorem mem_pairsOf_of_mem {l : List α} {x y : α} (hx : x ∈ l) (hy : y ∈ l) (hne : x ≠ y) :
    (x, y) ∈ pairsOf l ∨ (y, x) ∈ pairsOf l := by
  induction l with
  | nil => simp at hx
  | cons a t ih =>
    simp only [pairsOf, List.mem_append, List.mem_map]
    rw [List.mem_cons] at hx hy
    rcases hx with rfl | hx <;> rcases hy with rfl | hy
    · exact absurd rfl hne
    · exact Or.inl (Or.inl ⟨y, hy, rfl⟩)
    · exact Or.inr (Or.inl ⟨x, hx, rfl⟩)
    · rcases ih hx hy with h | h
      · exact Or.inl (Or.inr h)
      · exact Or.inr (Or.inr h)

end pairs

/-! ### clique -/

theorem clique_eq (keepIso : Bool) (nodes : List Nat) (es : List Edge) :
    clique keepIso nodes es =
      addEdges (if keepIso then nodes.foldl (fun g n => g.addNode n none) {} else {}) (es.flatMap pairsOf) := by
  simp only [clique, addEdges, List.foldl_flatMap]; rfl

theorem addNodes_adj (nodes : List Nat) (g : Graph Nat) :
    (nodes.foldl (fun g n => g.addNode n none) g).adj = g.adj := by
  induction nodes generalizing g with
  | nil => rfl
  | cons a t ih => simp [List.foldl_cons, ih]

theorem addNodes_keys (nodes : List Nat) (g : Graph Nat) (x : Nat) :
    x ∈ AL.keys (nodes.foldl (fun g n => g.addNode n none) g).nodes ↔ x ∈ AL.keys g.nodes ∨ x ∈ nodes := by
  induction nodes generalizing g with
  | nil => simp
  | cons a t ih =>
    rw [List.foldl_cons, ih]
    simp only [Graph.addNode, mem_keys_touch, List.mem_cons]; grind

theorem addNodes_nodup (nodes : List Nat) (g : Graph Nat) (h : (AL.keys g.nodes).Nodup) :
    (AL.keys (nodes.foldl (fun g n => g.addNode n none) g).nodes).Nodup := by
  induction nodes generalizing g with
  | nil => simpa
  | cons a t ih => rw [List.foldl_cons]; exact ih _ (nodup_keys_touch _ _ h)

end C10
