import Hgxv.Proofs.C04Layers
/-! C04 - a rejected call leaves the store unchanged (every operation, batched ones included). -/
namespace C04
open AL

instance : DecidablePred Op.WF := fun op => by cases op <;> unfold Op.WF <;> infer_instance

theorem addNodes_rej (s : Store) (ns mds) (h : (addNodes s ns mds).2 = Out.rej) : (addNodes s ns mds).1 = s := by
  unfold addNodes at h ⊢
  cases mds with
  | none => simp at h
  | some d =>
    simp only [] at h ⊢
    by_cases hc : (ns.all fun n => (get? d n).isSome) = true
    · rw [if_pos hc] at h; simp at h
    · rw [if_neg hc]

theorem addEdge_rej (s : Store) (raw l w md) (h : (addEdge s raw l w md).2 = Out.rej) : (addEdge s raw l w md).1 = s := by
  unfold addEdge at h ⊢
  split at h
  · simp_all
  · simp at h

theorem addEdges_rej (s : Store) (raws ls ws mds) (h : (addEdges s raws ls ws mds).2 = Out.rej) :
    (addEdges s raws ls ws mds).1 = s := by
  unfold addEdges at h ⊢
  simp only [] at h ⊢
  split at h
  · simp_all
  · split at h
    · simp_all
    · split at h
      · split at h
        · simp_all
        · split at h
          · simp_all
          · simp at h
      · simp at h

theorem removeEdge_rej (s : Store) (raw l) (h : (removeEdge s raw l).2 = Out.rej) : (removeEdge s raw l).1 = s := by
  unfold removeEdge at h ⊢
  split at h
  · simp_all
  · simp at h

theorem removeNode_rej (s : Store) (n keep) (h : (removeNode s n keep).2 = Out.rej) : (removeNode s n keep).1 = s := by
  unfold removeNode at h ⊢
  split at h
  · simp_all
  · simp at h

theorem setWeight_rej (s : Store) (raw l w) (h : (setWeight s raw l w).2 = Out.rej) : (setWeight s raw l w).1 = s := by
  unfold setWeight at h ⊢
  split at h
  · simp_all
  · split at h
    · simp_all
    · simp at h

theorem setAttrNode_rej (s : Store) (n k v) (h : (setAttrNode s n k v).2 = Out.rej) : (setAttrNode s n k v).1 = s := by
  unfold setAttrNode at h ⊢
  split at h
  · simp_all
  · simp at h

theorem delAttrNode_rej (s : Store) (n k) (h : (delAttrNode s n k).2 = Out.rej) : (delAttrNode s n k).1 = s := by
  unfold delAttrNode at h ⊢
  split at h
  · simp_all
  · split at h
    · simp at h
    · simp_all

theorem setAttrEdge_rej (s : Store) (raw l k v) (h : (setAttrEdge s raw l k v).2 = Out.rej) :
    (setAttrEdge s raw l k v).1 = s := by
  unfold setAttrEdge at h ⊢
  split at h
  · simp_all
  · split at h
    · simp_all
    · simp at h

theorem delAttrEdge_rej (s : Store) (raw l k) (h : (delAttrEdge s raw l k).2 = Out.rej) : (delAttrEdge s raw l k).1 = s := by
  unfold delAttrEdge at h ⊢
  split at h
  · simp_all
  · split at h
    · simp_all
    · split at h
      · simp at h
      · simp_all

theorem step_rej (s : Store) (op : Op) (h : (step s op).2 = Out.rej) : (step s op).1 = s := by
  cases op with
  | addNode n md => simp [step] at h
  | addNodes ns mds => exact addNodes_rej s ns mds h
  | addEdge raw l w md => exact addEdge_rej s raw l w md h
  | addEdges raws ls ws mds => exact addEdges_rej s raws ls ws mds h
  | removeEdge raw l => exact removeEdge_rej s raw l h
  | removeNode n keep => exact removeNode_rej s n keep h
  | setWeight raw l w => exact setWeight_rej s raw l w h
  | setHMeta hm => simp [step] at h
  | setAttrH k v => simp [step] at h
  | setLayerMeta l v => simp [step] at h
  | setDatasetMeta v => simp [step] at h
  | setAttrNode n k v => exact setAttrNode_rej s n k v h
  | delAttrNode n k => exact delAttrNode_rej s n k h
  | setAttrEdge raw l k v => exact setAttrEdge_rej s raw l k v h
  | delAttrEdge raw l k => exact delAttrEdge_rej s raw l k h

end C04
