import Hgxv.Model.C17Ext
import Hgxv.Proofs.C17Sum
import Hgxv.Proofs.C17Init
import Hgxv.Proofs.C17Book
import Hgxv.Proofs.C17EM
set_option linter.unusedSectionVars false
/-! Extension round: lemmas about the initial values computed from raw draws, the clamps, the termination logic of `fit`
and the Laplacian of `HySC`. -/
namespace C17
open Finset

section field
variable {α : Type} [Field α] [LinearOrder α] [IsStrictOrderedRing α]

/-! ### `_randomize_w0` -/

theorem randW0_at (c : Cfg α) (dw : Mat α) (d k : Nat) (hd : d < c.D - 1) (hk : k < c.K) :
    at2 (randW0 c dw) d k = if sizePresent c d then at2 dw d k else 0 := by
  unfold randW0; rw [at2_tab2 _ _ _ _ _ hd hk]

theorem edge_mem (c : Cfg α) (e : Nat) (he : e < c.E) : c.edge e ∈ c.edges := by
  unfold Cfg.edge; unfold Cfg.E at he
  rw [getD_lt _ _ _ he]; exact List.getElem_mem he

theorem sizePresent_edge (c : Cfg α) (e : Nat) (he : e < c.E) (h2 : 2 ≤ (c.edge e).length) :
    sizePresent c ((c.edge e).length - 2) = true := by
  unfold sizePresent
  rw [List.any_eq_true]
  exact ⟨c.edge e, edge_mem c e he, by simp; omega⟩

theorem sizePresent_iff (c : Cfg α) (d : Nat) :
    sizePresent c d = true ↔ ∃ e, e < c.E ∧ (c.edge e).length = d + 2 := by
  unfold sizePresent
  rw [List.any_eq_true]
  constructor
  · rintro ⟨x, hx, hl⟩
    obtain ⟨n, hn, rfl⟩ := List.getElem_of_mem hx
    refine ⟨n, hn, ?_⟩
    unfold Cfg.edge; rw [getD_lt _ _ _ hn]; simpa using hl
  · rintro ⟨e, he, hl⟩
    exact ⟨c.edge e, edge_mem c e he, by simpa using hl⟩

theorem randW0_nonneg (c : Cfg α) (dw : Mat α) (h : ∀ d k, d < c.D - 1 → k < c.K → 0 ≤ at2 dw d k) (d k : Nat) :
    0 ≤ at2 (randW0 c dw) d k := by
  unfold randW0
  apply at2_tab2_nonneg
  intro d k hd hk
  split
  · exact h d k hd hk
  · exact le_refl 0

/-! ### `_randomize_u0` -/

theorem randU0_at (c : Cfg α) (du : Mat α) (i k : Nat) (hi : i < c.N) (hk : k < c.K) :
    at2 (randU0 c du) i k =
      if 0 < sumR c.K (fun k' => at2 du i k') then at2 du i k / sumR c.K (fun k' => at2 du i k') else at2 du i k := by
  unfold randU0; rw [at2_tab2 _ _ _ _ _ hi hk]

theorem sumR_nonneg (n : Nat) (f : Nat → α) (h : ∀ k, k < n → 0 ≤ f k) : 0 ≤ sumR n f := by
  rw [sumR_eq]; exact Finset.sum_nonneg (fun k hk => h k (by simpa using hk))

theorem sumR_pos (n : Nat) (f : Nat → α) (hn : 0 < n) (h : ∀ k, k < n → 0 < f k) : 0 < sumR n f := by
  rw [sumR_eq]
  exact Finset.sum_pos (fun k hk => h k (by simpa using hk)) ⟨0, by simpa using hn⟩

theorem randU0_pos (c : Cfg α) (du : Mat α) (h : ∀ i k, i < c.N → k < c.K → 0 < at2 du i k) (i k : Nat) (hi : i < c.N)
    (hk : k < c.K) : 0 < at2 (randU0 c du) i k := by
  rw [randU0_at c du i k hi hk]
  split
  · next hs => exact div_pos (h i k hi hk) hs
  · exact h i k hi hk

theorem randU0_nonneg (c : Cfg α) (du : Mat α) (h : ∀ i k, i < c.N → k < c.K → 0 ≤ at2 du i k) (i k : Nat) :
    0 ≤ at2 (randU0 c du) i k := by
  unfold randU0
  apply at2_tab2_nonneg
  intro i k hi hk
  split
  · next hs => exact div_nonneg (h i k hi hk) hs.le
  · exact h i k hi hk

theorem randU0_rowsum (c : Cfg α) (du : Mat α) (i : Nat) (hi : i < c.N)
    (hs : 0 < sumR c.K (fun k' => at2 du i k')) : sumR c.K (fun k => at2 (randU0 c du) i k) = 1 := by
  rw [sumR_congr c.K _ (fun k => at2 du i k / sumR c.K (fun k' => at2 du i k'))
    (fun k hk => by rw [randU0_at c du i k hi hk, if_pos hs])]
  rw [sumR_eq, ← Finset.sum_div, ← sumR_eq]
  exact div_self hs.ne'

/-! ### `np.max`, `_add_noise_input` -/

theorem le_maxOf_left (a b : α) : a ≤ maxOf a b := by
  unfold maxOf; split
  · next h => exact h.le
  · exact le_refl a

theorem le_maxOf_right (a b : α) : b ≤ maxOf a b := by
  unfold maxOf; split
  · exact le_refl b
  · next h => exact not_lt.mp h

theorem le_foldl_maxOf (xs : List α) : ∀ (x : α), x ≤ xs.foldl maxOf x ∧ ∀ y ∈ xs, y ≤ xs.foldl maxOf x := by
  induction xs with
  | nil => intro x; exact ⟨le_refl x, by simp⟩
  | cons a xs ih =>
    intro x
    obtain ⟨h1, h2⟩ := ih (maxOf x a)
    rw [List.foldl_cons]
    refine ⟨le_trans (le_maxOf_left x a) h1, ?_⟩
    intro y hy
    rcases List.mem_cons.mp hy with rfl | hy
    · exact le_trans (le_maxOf_right x y) h1
    · exact h2 y hy

theorem foldl_maxOf_mem (xs : List α) : ∀ (x : α), xs.foldl maxOf x = x ∨ xs.foldl maxOf x ∈ xs := by
  induction xs with
  | nil => intro x; exact Or.inl rfl
  | cons a xs ih =>
    intro x
    rw [List.foldl_cons]
    rcases ih (maxOf x a) with h | h
    · rw [h]; unfold maxOf; split
      · exact Or.inr (by simp)
      · exact Or.inl rfl
    · exact Or.inr (List.mem_cons_of_mem _ h)

theorem mem_flatten_tab2 (n m : Nat) (f : Nat → Nat → α) (i k : Nat) (hi : i < n) (hk : k < m) :
    f i k ∈ (tab2 n m f).flatten := by
  rw [List.mem_flatten]
  refine ⟨(List.range m).map (f i), ?_, ?_⟩
  · unfold tab2; exact List.mem_map.mpr ⟨i, by simpa using hi, rfl⟩
  · exact List.mem_map.mpr ⟨k, by simpa using hk, rfl⟩

/-- `np.max` is an upper bound of every entry -/
theorem le_matMax (n m : Nat) (X : Mat α) (i k : Nat) (hi : i < n) (hk : k < m) : at2 X i k ≤ matMax n m X := by
  have hmem := mem_flatten_tab2 n m (fun i k => at2 X i k) i k hi hk
  unfold matMax
  split
  · next h => rw [h] at hmem; simp at hmem
  · next x xs h =>
    rw [h] at hmem
    obtain ⟨h1, h2⟩ := le_foldl_maxOf xs x
    rcases List.mem_cons.mp hmem with hx | hx
    · rw [hx]; exact h1
    · exact h2 _ hx

/-- ... and it is one of the entries (or `0` for an empty matrix) -/
theorem matMax_nonneg (n m : Nat) (X : Mat α) (h : ∀ i k, 0 ≤ at2 X i k) : 0 ≤ matMax n m X := by
  unfold matMax
  split
  · exact le_refl 0
  · next x xs hx =>
    have hall : ∀ y ∈ x :: xs, 0 ≤ y := by
      intro y hy
      rw [← hx, List.mem_flatten] at hy
      obtain ⟨r, hr, hy⟩ := hy
      unfold tab2 at hr
      obtain ⟨i, _, rfl⟩ := List.mem_map.mp hr
      obtain ⟨k, _, rfl⟩ := List.mem_map.mp hy
      exact h i k
    rcases foldl_maxOf_mem xs x with h1 | h1
    · rw [h1]; exact hall x (by simp)
    · exact hall _ (List.mem_cons_of_mem _ h1)

theorem addNoise_at (n m : Nat) (noise : α) (X dr : Mat α) (i k : Nat) (hi : i < n) (hk : k < m) :
    at2 (addNoise n m noise X dr) i k = at2 X i k + matMax n m X * noise * at2 dr i k := by
  unfold addNoise; rw [at2_tab2 _ _ _ _ _ hi hk]

/-- the start around the spectral solution is strictly positive as soon as the 0/1 matrix has one positive entry -/
theorem addNoise_pos (n m : Nat) (noise : α) (hn : 0 < noise) (X dr : Mat α) (hX : ∀ i k, 0 ≤ at2 X i k)
    (hX1 : ∃ i k, i < n ∧ k < m ∧ 0 < at2 X i k) (hd : ∀ i k, i < n → k < m → 0 < at2 dr i k)
    (i k : Nat) (hi : i < n) (hk : k < m) : 0 < at2 (addNoise n m noise X dr) i k := by
  rw [addNoise_at n m noise X dr i k hi hk]
  obtain ⟨i0, k0, hi0, hk0, hp⟩ := hX1
  have hmax : 0 < matMax n m X := lt_of_lt_of_le hp (le_matMax n m X i0 k0 hi0 hk0)
  have := mul_pos (mul_pos hmax hn) (hd i k hi hk)
  have := hX i k
  linarith

/-- the noise never decreases an entry -/
theorem addNoise_ge (n m : Nat) (noise : α) (hn : 0 ≤ noise) (X dr : Mat α) (hX : ∀ i k, 0 ≤ at2 X i k)
    (hd : ∀ i k, i < n → k < m → 0 ≤ at2 dr i k) (i k : Nat) (hi : i < n) (hk : k < m) :
    at2 X i k ≤ at2 (addNoise n m noise X dr) i k := by
  rw [addNoise_at n m noise X dr i k hi hk]
  have := mul_nonneg (mul_nonneg (matMax_nonneg n m X hX) hn) (hd i k hi hk)
  linarith

/-! ### the clamps of `_update_u` as a function -/

/-- low clamp, then high clamp: what `_update_u` applies to every freshly computed entry -/
def clampU (c : Cfg α) (x : α) : α := clampHigh c (clampLow c x)

theorem clampLow_zero_or (c : Cfg α) (x : α) : clampLow c x = 0 ∨ (c.minv ≤ clampLow c x ∧ clampLow c x = x) := by
  unfold clampLow; split
  · exact Or.inl rfl
  · next h => exact Or.inr ⟨not_lt.mp h, rfl⟩

theorem clampLow_fix (c : Cfg α) (x : α) (h : x = 0 ∨ c.minv ≤ x) : clampLow c x = x := by
  unfold clampLow
  by_cases hl : x < c.minv
  · rw [if_pos hl]
    rcases h with h | h
    · exact h.symm
    · exact absurd hl (not_lt.mpr h)
  · rw [if_neg hl]

theorem clampU_zero_or (c : Cfg α) (hc : CfgOk c) (x : α) : clampU c x = 0 ∨ c.minv ≤ clampU c x := by
  unfold clampU clampHigh
  cases hm : c.maxv with
  | none => simp only; rcases clampLow_zero_or c x with h | h
            · exact Or.inl h
            · exact Or.inr h.1
  | some tv =>
    obtain ⟨t, v⟩ := tv
    simp only
    split
    · exact Or.inr (hc.maxv t v hm).2
    · rcases clampLow_zero_or c x with h | h
      · exact Or.inl h
      · exact Or.inr h.1

theorem clampU_idem (c : Cfg α) (hc : CfgOk c) (x : α) : clampU c (clampU c x) = clampU c x := by
  have hfix := clampLow_fix c (clampU c x) (clampU_zero_or c hc x)
  unfold clampU at hfix ⊢
  rw [hfix]
  unfold clampHigh
  cases hm : c.maxv with
  | none => rfl
  | some tv =>
    obtain ⟨t, v⟩ := tv
    simp only
    by_cases h1 : t < clampLow c x
    · simp only [h1, if_true]; split <;> rfl
    · simp only [h1, if_false]

theorem clampLow_mono (c : Cfg α) (hc : CfgOk c) (x y : α) (h : x ≤ y) : clampLow c x ≤ clampLow c y := by
  unfold clampLow
  split
  · split
    · exact le_refl 0
    · next hy => exact le_trans hc.minv (not_lt.mp hy)
  · next hx =>
    split
    · next hy => exact absurd (lt_of_le_of_lt h hy) hx
    · exact h

theorem clampHigh_mono (c : Cfg α) (hv : ∀ t v, c.maxv = some (t, v) → t ≤ v) (x y : α) (h : x ≤ y) :
    clampHigh c x ≤ clampHigh c y := by
  unfold clampHigh
  cases hm : c.maxv with
  | none => exact h
  | some tv =>
    obtain ⟨t, v⟩ := tv
    simp only
    split
    · next hx => rw [if_pos (lt_of_lt_of_le hx h)]
    · next hx =>
      split
      · exact le_trans (not_lt.mp hx) (hv t v hm)
      · exact h

theorem clampU_le (c : Cfg α) (t v : α) (hm : c.maxv = some (t, v)) (x : α) :
    clampU c x ≤ max t v := by
  unfold clampU clampHigh
  rw [hm]; simp only
  split
  · exact le_max_right t v
  · next h => exact le_trans (not_lt.mp h) (le_max_left t v)

/-! ### `HySC._extract_laplacian` -/

theorem lap_at (c : Cfg α) (sq : α → α) (wl : Bool) (i j : Nat) (hi : i < c.N) (hj : j < c.N) :
    at2 (lap c sq wl) i j = (if i = j then 1 else 0) - invS c sq i * lapM c wl i j * invS c sq j := by
  unfold lap; rw [at2_tab2 _ _ _ _ _ hi hj]

theorem lapM_symm (c : Cfg α) (wl : Bool) (i j : Nat) : lapM c wl i j = lapM c wl j i := by
  unfold lapM; apply sumR_congr; intro e _; ring

theorem lap_symm (c : Cfg α) (sq : α → α) (wl : Bool) (i j : Nat) : at2 (lap c sq wl) i j = at2 (lap c sq wl) j i := by
  by_cases hi : i < c.N
  · by_cases hj : j < c.N
    · rw [lap_at c sq wl i j hi hj, lap_at c sq wl j i hj hi, lapM_symm c wl i j]
      by_cases h : i = j
      · subst h; ring
      · rw [if_neg h, if_neg (Ne.symm h)]; ring
    · unfold lap; rw [at2_tab2_of_ge_col _ _ _ _ _ (by omega), at2_tab2_of_ge _ _ _ _ _ (by omega)]
  · unfold lap
    rw [at2_tab2_of_ge _ _ _ _ _ (by omega), at2_tab2_of_ge_col _ _ _ _ _ (by omega)]

theorem lap_isolated (c : Cfg α) (sq : α → α) (wl : Bool) (i j : Nat) (hi : i < c.N) (hj : j < c.N) (h0 : degN c i = 0) :
    at2 (lap c sq wl) i j = if i = j then 1 else 0 := by
  rw [lap_at c sq wl i j hi hj]
  have : invS c sq i = 0 := by unfold invS; rw [if_pos h0]
  rw [this]; ring

end field

/-! ### `_update_em` with `fix_w` / `fix_communities` -/

section fix
variable {c : Cfg ℝ} (hS : Setup c)
include hS

theorem emSweepFix_ff (s : St ℝ) (perm : List Nat) : emSweepFix c false false s perm = emSweep c s perm := rfl

/-- the `w` half keeps the hypotheses of the ascent theorem and does not decrease the log-likelihood -/
theorem wHalf_good (fixW : Bool) (s : St ℝ) (hI : Inv c s) (hP : Pos c s.u s.w) (hZ : IsoZero c s.u)
    (hrho : s.rho = rhoUpdate c s.u s.w) :
    LL c s.u s.w ≤ LL c (wHalf c fixW s).u (wHalf c fixW s).w ∧
    Inv c (wHalf c fixW s) ∧ Pos c (wHalf c fixW s).u (wHalf c fixW s).w ∧ IsoZero c (wHalf c fixW s).u ∧
    (wHalf c fixW s).rho = rhoUpdate c (wHalf c fixW s).u (wHalf c fixW s).w ∧ (wHalf c fixW s).u = s.u := by
  cases fixW with
  | true => exact ⟨le_refl _, hI, hP, hZ, hrho, rfl⟩
  | false =>
    have hR : RhoOk c s.rho := by rw [hrho]; exact rhoUpdate_ok hS hP
    obtain ⟨hPw, hFw⟩ := wstep hS hP hI.unn hR hI.psi
    have c1 : LL c s.u s.w = FQ c s.u s.w s.rho := by rw [hrho]; exact (FQ_eq_LL hS hP).symm
    have c2 : FQ c s.u (wUpdate c s.rho s.psi) s.rho ≤ LL c s.u (wUpdate c s.rho s.psi) := FQ_le_LL hS hPw hR
    refine ⟨?_, ⟨⟨hI.psi, hI.unn, hI.bar⟩, hI.thr⟩, hPw, hZ, rfl, rfl⟩
    show LL c s.u s.w ≤ LL c s.u (wUpdate c s.rho s.psi)
    linarith

/-- the `u` half keeps the hypotheses of the ascent theorem and does not decrease the log-likelihood -/
theorem uHalf_good (fixU : Bool) (s : St ℝ) (hI : Inv c s) (hP : Pos c s.u s.w) (hZ : IsoZero c s.u)
    (hrho : s.rho = rhoUpdate c s.u s.w) (perm : List Nat) (hp : ∀ i ∈ perm, i < c.N) :
    LL c s.u s.w ≤ LL c (uHalf c fixU s perm).u (uHalf c fixU s perm).w ∧
    Inv c (uHalf c fixU s perm) ∧ Pos c (uHalf c fixU s perm).u (uHalf c fixU s perm).w ∧
    IsoZero c (uHalf c fixU s perm).u ∧
    (uHalf c fixU s perm).rho = rhoUpdate c (uHalf c fixU s perm).u (uHalf c fixU s perm).w ∧
    (uHalf c fixU s perm).w = s.w := by
  cases fixU with
  | true => exact ⟨le_refl _, hI, hP, hZ, hrho, rfl⟩
  | false =>
    have hR : RhoOk c s.rho := by rw [hrho]; exact rhoUpdate_ok hS hP
    obtain ⟨hI2, hP2, hZ2, hw2, hr2, hF2⟩ := uSweep_good hS perm hp s hI hP hZ hR
    have c1 : LL c s.u s.w = FQ c s.u s.w s.rho := by rw [hrho]; exact (FQ_eq_LL hS hP).symm
    have hR2 : RhoOk c (uSweep c s perm).rho := by rw [hr2]; exact hR
    have c4 := FQ_le_LL hS hP2 hR2
    refine ⟨?_, ⟨⟨hI2.psi, hI2.unn, hI2.bar⟩, hI2.thr⟩, hP2, hZ2, rfl, hw2⟩
    show LL c s.u s.w ≤ LL c (uSweep c s perm).u (uSweep c s perm).w
    linarith

end fix

/-! ### termination of the EM loop -/

section conv
variable {α : Type} [Sub α] [Zero α] [LT α] [DecidableLT α]

/-- what holds of the loop state as long as the loop is running: the tolerance counter never exceeds the number of recorded
checks, that number never exceeds the number of sweeps, every recorded iteration is a multiple of `check_convergence_every`
below the current iteration, and the flag is set exactly when the counter exceeds the threshold -/
structure LoopInv (thr every : Nat) (s : Conv α) : Prop where
  tolRows : s.nTol ≤ s.rows.length
  rowsIt : s.rows.length ≤ s.it
  mult : ∀ r ∈ s.rows, r.1 % every = 0 ∧ r.1 < s.it
  flag : s.conv = true → thr < s.nTol

theorem convStep_inv (tol : α) (thr every : Nat) (s : Conv α) (L : α) (h : LoopInv thr every s) (hc : s.conv = false) :
    LoopInv thr every (convStep tol thr every s L) := by
  obtain ⟨h1, h2, h3, _⟩ := h
  unfold convStep
  by_cases hk : s.it % every = 0
  · refine ⟨?_, ?_, ?_, ?_⟩
    · simp only [hk, if_true]; split <;> simp <;> omega
    · simp only [hk, if_true, List.length_cons]; omega
    · simp only [hk, if_true]
      intro r hr
      rcases List.mem_cons.mp hr with rfl | hr
      · exact ⟨hk, Nat.lt_succ_self _⟩
      · exact ⟨(h3 r hr).1, Nat.lt_succ_of_lt (h3 r hr).2⟩
    · simp only [hk, if_true, hc]
      intro hh
      by_contra hq
      rw [if_neg hq] at hh
      cases hh
  · refine ⟨?_, ?_, ?_, ?_⟩
    · simp only [hk, if_false]; exact h1
    · simp only [hk, if_false]; omega
    · simp only [hk, if_false]
      intro r hr
      exact ⟨(h3 r hr).1, Nat.lt_succ_of_lt (h3 r hr).2⟩
    · simp only [hk, if_false, hc]
      intro hh
      by_contra hq
      rw [if_neg hq] at hh
      cases hh

theorem convStep_it (tol : α) (thr every : Nat) (s : Conv α) (L : α) : (convStep tol thr every s L).it = s.it + 1 := rfl

theorem go_spec (tol : α) (thr every : Nat) : ∀ (n : Nat) (Ls : List α) (s : Conv α), LoopInv thr every s →
    LoopInv thr every (runReal.go tol thr every n Ls s) ∧
    (runReal.go tol thr every n Ls s).it ≤ s.it + n ∧ (runReal.go tol thr every n Ls s).it ≤ s.it + Ls.length ∧
    s.it ≤ (runReal.go tol thr every n Ls s).it ∧
    ((runReal.go tol thr every n Ls s).conv = false → (runReal.go tol thr every n Ls s).it = s.it + min n Ls.length)
  | 0, _, s, h => by unfold runReal.go; exact ⟨h, by omega, by omega, by omega, fun _ => by simp⟩
  | _ + 1, [], s, h => by unfold runReal.go; exact ⟨h, by omega, by omega, by omega, fun _ => by simp⟩
  | n + 1, L :: Ls, s, h => by
    unfold runReal.go
    split
    · next hc => exact ⟨h, by omega, by omega, by omega, fun hf => by rw [hc] at hf; cases hf⟩
    · next hc =>
      have hc' : s.conv = false := by simpa using hc
      obtain ⟨a, b, c1, d, e⟩ := go_spec tol thr every n Ls _ (convStep_inv tol thr every s L h hc')
      rw [convStep_it] at b c1 d e
      refine ⟨a, by omega, by simp only [List.length_cons]; omega, by omega, ?_⟩
      intro hf
      rw [e hf]; simp only [List.length_cons]; omega

end conv

end C17
