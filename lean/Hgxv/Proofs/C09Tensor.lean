import Hgxv.Proofs.C09
/-! Helper lemmas for C09, part 5 (core Lean): permutations and index tuples of the adjacency tensor. -/
namespace C09

theorem mem_insertAll (a : Nat) (l p : List Nat) :
    p ∈ insertAll a l ↔ ∃ l1 l2, l = l1 ++ l2 ∧ p = l1 ++ a :: l2 := by
  induction l generalizing p with
  | nil =>
    simp only [insertAll, List.mem_singleton]
    constructor
    · rintro rfl; exact ⟨[], [], rfl, rfl⟩
    · rintro ⟨l1, l2, h, rfl⟩
      have h' := h.symm
      simp only [List.append_eq_nil_iff] at h'
      rw [h'.1, h'.2]; rfl
  | cons b l ih =>
    simp only [insertAll, List.mem_cons, List.mem_map]
    constructor
    · rintro (rfl | ⟨q, hq, rfl⟩)
      · exact ⟨[], b :: l, rfl, rfl⟩
      · obtain ⟨l1, l2, rfl, rfl⟩ := (ih q).1 hq
        exact ⟨b :: l1, l2, rfl, rfl⟩
    · rintro ⟨l1, l2, h, rfl⟩
      cases l1 with
      | nil => left; simp at h; subst h; rfl
      | cons c l1 =>
        right
        simp only [List.cons_append, List.cons.injEq] at h
        obtain ⟨rfl, rfl⟩ := h
        exact ⟨l1 ++ a :: l2, (ih _).2 ⟨l1, l2, rfl, rfl⟩, rfl⟩

theorem mem_perms (l p : List Nat) : p ∈ perms l ↔ p.Perm l := by
  induction l generalizing p with
  | nil => simp [perms]
  | cons a l ih =>
    simp only [perms, List.mem_flatMap]
    constructor
    · rintro ⟨q, hq, hp⟩
      obtain ⟨l1, l2, rfl, rfl⟩ := (mem_insertAll a q p).1 hp
      exact (List.perm_middle).trans (((ih _).1 hq).cons a)
    · intro hp
      have ha : a ∈ p := hp.symm.subset (List.mem_cons_self)
      obtain ⟨l1, l2, rfl⟩ := List.append_of_mem ha
      have h2 : (l1 ++ l2).Perm l := ((List.perm_middle).symm.trans hp).cons_inv
      exact ⟨l1 ++ l2, (ih _).2 h2, (mem_insertAll a _ _).2 ⟨l1, l2, rfl, rfl⟩⟩

theorem mem_tuples (N k : Nat) (p : List Nat) :
    p ∈ tuples N k ↔ p.length = k ∧ ∀ x ∈ p, x < N := by
  induction k generalizing p with
  | zero =>
    simp only [tuples, List.mem_singleton, List.length_eq_zero_iff]
    constructor
    · rintro rfl; simp
    · exact fun h => h.1
  | succ k ih =>
    simp only [tuples, List.mem_flatMap, List.mem_range, List.mem_map]
    constructor
    · rintro ⟨a, ha, q, hq, rfl⟩
      have := (ih q).1 hq
      refine ⟨by simp [this.1], ?_⟩
      intro x hx
      rcases List.mem_cons.1 hx with rfl | hx
      · exact ha
      · exact this.2 x hx
    · rintro ⟨hl, hx⟩
      cases p with
      | nil => simp at hl
      | cons a q =>
        refine ⟨a, hx a (List.mem_cons_self), q, (ih q).2 ⟨by simpa using hl, fun x h => hx x (List.mem_cons_of_mem _ h)⟩, rfl⟩

theorem uniformSize_eq_some (edges : List Edge) (k : Nat) :
    uniformSize edges = some k ↔ edges ≠ [] ∧ ∀ e ∈ edges, e.length = k := by
  cases edges with
  | nil => simp [uniformSize]
  | cons e es =>
    simp only [uniformSize]
    constructor
    · intro h
      split at h
      · rename_i hall
        simp only [Option.some.injEq] at h
        refine ⟨by simp, ?_⟩
        intro f hf
        rcases List.mem_cons.1 hf with rfl | hf
        · exact h
        · have := List.all_eq_true.1 hall f hf
          simp only [beq_iff_eq] at this
          omega
      · simp at h
    · rintro ⟨_, h⟩
      have he := h e List.mem_cons_self
      have : (es.all fun f => f.length == e.length) = true := by
        apply List.all_eq_true.2
        intro f hf
        simp only [beq_iff_eq]
        rw [h f (List.mem_cons_of_mem _ hf), he]
      rw [if_pos this, he]

theorem uniformSize_eq_none (edges : List Edge) :
    uniformSize edges = none ↔ edges = [] ∨ ∃ e ∈ edges, ∃ f ∈ edges, e.length ≠ f.length := by
  constructor
  · intro h
    apply Decidable.byContradiction
    intro hn
    have hne : edges ≠ [] := fun h0 => hn (Or.inl h0)
    obtain ⟨e, he⟩ := List.exists_mem_of_ne_nil _ hne
    have : uniformSize edges = some e.length := (uniformSize_eq_some edges e.length).2 ⟨hne, by
      intro f hf
      apply Decidable.byContradiction
      intro hfe
      exact hn (Or.inr ⟨f, hf, e, he, hfe⟩)⟩
    rw [h] at this
    cases this
  · rintro (rfl | ⟨e, he, f, hf, hne⟩)
    · rfl
    · cases h : uniformSize edges with
      | none => rfl
      | some k =>
        have := ((uniformSize_eq_some edges k).1 h).2
        exact absurd ((this e he).trans (this f hf).symm) hne

end C09
