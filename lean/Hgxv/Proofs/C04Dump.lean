import Hgxv.Model.C04Dump
/-! C04 - the serialisation dictionary: what is written is what is read (key names agree, nothing is dropped), and the
sum of `edge_overlap` does not depend on the order in which the set of layer names is walked. Core Lean only. -/
namespace C04

/-- `populate_from_dict(expose_data_structures())` rebuilds the same tables: every name written is the name read -/
theorem populate_expose (s : Store) : populate (expose s) = s := by
  cases s
  simp [populate, expose, lookup]

theorem loadDump_expose (s : Store) : loadDump (expose s) = some s := by
  have h : loadDump (expose s) = some (populate (expose s)) := by
    simp [loadDump, expose, lookup]
  rw [h, populate_expose]

theorem reload_eq (s : Store) : reload s = s := populate_expose s

theorem run_append (s : Store) (a b : List Op) : run s (a ++ b) = run (run s a) b := by
  unfold run
  rw [List.foldl_append]

theorem sum_perm {l l' : List Int} (h : l.Perm l') : l.sum = l'.sum := by
  induction h with
  | nil => rfl
  | cons x _ ih => simp only [List.sum_cons, ih]
  | swap x y l => simp only [List.sum_cons]; omega
  | trans _ _ ih1 ih2 => rw [ih1, ih2]

theorem overlapIn_perm (s : Store) (raw : List Node) (o o' : List Layer) (h : o.Perm o') :
    overlapIn s o raw = overlapIn s o' raw := by
  unfold overlapIn
  exact sum_perm (h.map _)

theorem overlapIn_layers (s : Store) (raw : List Node) : overlapIn s s.layers raw = overlap s raw := rfl

end C04
