import Hgxv.Proofs.C01Abs
/-! C01, part 6: one-step commutation `abs (apply s op) = Spec.apply (abs s) op` (with equal outcomes) for every
operation, every query answered from the abstraction, and the refinement for whole histories. -/
namespace C01
open AL

/-- one step of the concrete store is matched by the spec: same abstraction, same outcome, invariant kept -/
def Sim (s' : Store × Out) (a' : Spec × Out) : Prop := abs s'.1 = a'.1 ∧ s'.2 = a'.2 ∧ Inv s'.1

theorem seqOps_sim {α : Type} (f : Store → α → Store × Out) (g : Spec → α → Spec × Out) (Q : α → Prop)
    (hstep : ∀ s x, Inv s → Q x → Sim (f s x) (g (abs s) x)) :
    ∀ (xs : List α) (s : Store), Inv s → (∀ x ∈ xs, Q x) → Sim (seqOps f s xs) (seqOps g (abs s) xs) := by
  intro xs
  induction xs with
  | nil => intro s h _; exact ⟨rfl, rfl, h⟩
  | cons x xs ih =>
    intro s h hq
    obtain ⟨h1, h2, h3⟩ := hstep s x h (hq x List.mem_cons_self)
    simp only [seqOps]
    generalize f s x = r at h1 h2 h3
    generalize g (abs s) x = r' at h1 h2
    obtain ⟨s1, o1⟩ := r
    obtain ⟨a1, o2⟩ := r'
    simp only at h1 h2 h3
    subst h2; subst h1
    cases o1 with
    | ok => exact ih s1 h3 (fun y hy => hq y (List.mem_cons_of_mem _ hy))
    | rej => exact ⟨rfl, rfl, h3⟩

theorem foldl_sim {α : Type} (f : Store → α → Store) (g : Spec → α → Spec)
    (hstep : ∀ s x, Inv s → abs (f s x) = g (abs s) x ∧ Inv (f s x)) :
    ∀ (xs : List α) (s : Store), Inv s → abs (xs.foldl f s) = xs.foldl g (abs s) ∧ Inv (xs.foldl f s) := by
  intro xs
  induction xs with
  | nil => intro s h; exact ⟨rfl, h⟩
  | cons x xs ih =>
    intro s h
    obtain ⟨h1, h2⟩ := hstep s x h
    simp only [List.foldl_cons]
    rw [← h1]; exact ih _ h2

/-! ### operations -/

theorem sim_addEdge (s : Store) (raw : List Nat) (w : Option Int) (md : Option Meta) (h : Inv s) (hraw : raw.Nodup) :
    Sim (addEdge s raw w md) (Spec.addEdge (abs s) raw w md) := by
  refine ⟨?_, ?_, addEdge_inv s raw w md hraw h⟩
  · unfold addEdge Spec.addEdge
    have hw : (abs s).weighted = s.weighted := rfl
    rw [hw]
    split
    · rfl
    · simp only [abs_get]
      cases hg : get? s.edgeList (canon raw) with
      | none => simp only [Option.map_none]; rw [abs_addEdgeNew s raw _ _ h hg]; rfl
      | some id =>
        simp only [Option.map_some]
        rw [abs_addEdgeOld s (canon raw) id _ _ h hg]
        rfl
  · unfold addEdge Spec.addEdge
    have hw : (abs s).weighted = s.weighted := rfl
    rw [hw]
    split
    · rfl
    · simp only [abs_get]
      cases hg : get? s.edgeList (canon raw) <;> rfl

theorem sim_removeEdge (s : Store) (raw : List Nat) (h : Inv s) :
    Sim (removeEdge s raw) (Spec.removeEdge (abs s) raw) := by
  refine ⟨?_, ?_, removeEdge_inv s raw h⟩
  · unfold removeEdge Spec.removeEdge
    rw [abs_isSome]
    cases hg : get? s.edgeList (canon raw) with
    | none => rfl
    | some id => simp only [Option.isSome_some, if_true]; exact abs_removeEdgeId s _ id h hg
  · unfold removeEdge Spec.removeEdge
    rw [abs_isSome]
    cases hg : get? s.edgeList (canon raw) <;> rfl

theorem sim_addNodes (s : Store) (ns : List Node) (mds : Option (List (Node × Meta))) (h : Inv s) :
    Sim (addNodes s ns mds) (Spec.addNodes (abs s) ns mds) := by
  unfold addNodes Spec.addNodes
  cases mds with
  | none =>
    obtain ⟨h1, h2⟩ := foldl_sim (fun s n => addNode s n none) (fun a n => Spec.addNode a n none)
      (fun s n hs => ⟨abs_addNode s n none hs, addNode_inv s n none hs⟩) ns s h
    exact ⟨h1, rfl, h2⟩
  | some t =>
    simp only []
    split
    · obtain ⟨h1, h2⟩ := foldl_sim (fun s n => addNode s n (get? t n)) (fun a n => Spec.addNode a n (get? t n))
        (fun s n hs => ⟨abs_addNode s n _ hs, addNode_inv s n _ hs⟩) ns s h
      exact ⟨h1, rfl, h2⟩
    · exact ⟨rfl, rfl, h⟩

theorem sim_addEdges (s : Store) (raws : List (List Nat)) (ws : Option (List Int)) (mds : Option (List Meta))
    (h : Inv s) (hraw : ∀ r ∈ raws, r.Nodup) :
    Sim (addEdges s raws ws mds) (Spec.addEdges (abs s) raws ws mds) := by
  unfold addEdges Spec.addEdges addEdgesLoop
  split
  · exact seqOps_sim _ _ (fun x => x.1.Nodup)
      (fun s x hs hx => sim_addEdge s x.1 _ _ hs hx) _ _ (weighted_inv s _ h)
      (fun x hx => hraw _ (mem_zipArgs _ _ _ x hx))
  · exact ⟨rfl, rfl, h⟩

theorem all_congr' {α : Type} (l : List α) (p q : α → Bool) (h : ∀ x, p x = q x) : l.all p = l.all q := by
  have : p = q := funext h
  rw [this]

theorem sim_removeEdges (s : Store) (raws : List (List Nat)) (h : Inv s) :
    Sim (removeEdges s raws) (Spec.removeEdges (abs s) raws) := by
  unfold removeEdges Spec.removeEdges
  rw [all_congr' raws (fun r => (get? (abs s).edges (canon r)).isSome) (fun r => (get? s.edgeList (canon r)).isSome)
    (fun r => abs_isSome s (canon r))]
  split
  · exact seqOps_sim _ _ (fun _ => True) (fun s r hs _ => sim_removeEdge s r hs) raws s h (fun _ _ => trivial)
  · exact ⟨rfl, rfl, h⟩

theorem sim_shrinkInto (n : Node) (s : Store) (e : Edge) (h : Inv s) (he : e.Nodup) :
    Sim (shrinkInto n s e) (Spec.shrinkInto n (abs s) e) := by
  unfold shrinkInto Spec.shrinkInto
  rw [abs_weightOf, abs_emetaOf]
  exact sim_addEdge s _ _ _ h ((List.filter_sublist).nodup he)

theorem sim_removeNode (s : Store) (n : Node) (keep : Bool) (h : Inv s) :
    Sim (removeNode s n keep) (Spec.removeNode (abs s) n keep) := by
  refine ⟨?_, ?_, removeNode_inv s n keep h⟩ <;>
  · unfold removeNode Spec.removeNode
    have hag : (get? (abs s).nodes n).isSome = (get? s.adj n).isSome := h.node_agree n
    rw [hag]
    cases hn : (get? s.adj n).isSome with
    | false => rfl
    | true =>
      simp only [Bool.not_true, Bool.false_eq_true, if_false]
      have hes : Spec.incidentKeys (abs s) n = incidentKeys s n := by
        rw [h.incidentKeys_eq n hn]; simp only [Spec.incidentKeys, abs_keys]
      rw [hes]
      have hnd : ∀ x ∈ incidentKeys s n, x.Nodup := by
        intro x hx
        obtain ⟨id, hid⟩ := Option.isSome_iff_exists.mp (((h.incidentKeys_spec n hn).2 x).mp hx).1
        exact (h.key_canon x id hid).1
      have hphase1 : Sim (if keep then seqOps (shrinkInto n) s (incidentKeys s n) else (s, Out.ok))
          (if keep then seqOps (Spec.shrinkInto n) (abs s) (incidentKeys s n) else (abs s, Out.ok)) := by
        cases keep with
        | false => exact ⟨rfl, rfl, h⟩
        | true =>
          simp only [if_true]
          exact seqOps_sim _ _ (fun x => x.Nodup) (fun s x hs hx => sim_shrinkInto n s x hs hx) _ s h hnd
      generalize (if keep then seqOps (shrinkInto n) s (incidentKeys s n) else (s, Out.ok)) = r1 at hphase1
      generalize (if keep then seqOps (Spec.shrinkInto n) (abs s) (incidentKeys s n) else (abs s, Out.ok)) = r1' at hphase1
      obtain ⟨s1, o1⟩ := r1
      obtain ⟨a1, o1'⟩ := r1'
      obtain ⟨e1, e2, e3⟩ := hphase1
      simp only at e1 e2 e3
      subst e2; subst e1
      cases o1 with
      | rej => rfl
      | ok =>
        simp only []
        have hphase2 := sim_removeEdges s1 (incidentKeys s n) e3
        generalize removeEdges s1 (incidentKeys s n) = r2 at hphase2
        generalize Spec.removeEdges (abs s1) (incidentKeys s n) = r2' at hphase2
        obtain ⟨s2, o2⟩ := r2
        obtain ⟨a2, o2'⟩ := r2'
        obtain ⟨g1, g2, g3⟩ := hphase2
        simp only at g1 g2 g3
        subst g2; subst g1
        cases o2 <;> rfl

theorem sim_removeNodes (s : Store) (ns : List Node) (keep : Bool) (h : Inv s) :
    Sim (removeNodes s ns keep) (Spec.removeNodes (abs s) ns keep) := by
  unfold removeNodes Spec.removeNodes
  rw [all_congr' ns (fun n => (get? (abs s).nodes n).isSome) (fun n => (get? s.adj n).isSome) (fun n => h.node_agree n)]
  split
  · exact seqOps_sim _ _ (fun _ => True) (fun s n hs _ => sim_removeNode s n keep hs) ns s h (fun _ _ => trivial)
  · exact ⟨rfl, rfl, h⟩

theorem sim_setWeight (s : Store) (raw : List Nat) (w : Int) (h : Inv s) :
    Sim (setWeight s raw w) (Spec.setWeight (abs s) raw w) := by
  refine ⟨?_, ?_, setWeight_inv s raw w h⟩ <;>
  · unfold setWeight Spec.setWeight
    have hw : (abs s).weighted = s.weighted := rfl
    rw [hw]
    split
    · rfl
    · simp only [abs_get]
      cases hg : get? s.edgeList (canon raw) with
      | none => rfl
      | some id =>
        simp only [Option.map_some]
        all_goals first
        | rfl
        | (rw [abs_tables s { s with weights := AL.set s.weights id w } (canon raw) id h hg rfl rfl rfl rfl
              (fun j hj => by simp [wm, get?_set_ne _ _ _ _ (Ne.symm hj)])] <;>
           first | rfl | (simp [wm] <;> rfl) | simp [wm])

theorem sim_setEdgeMeta (s : Store) (raw : List Nat) (md : Meta) (h : Inv s) :
    Sim (setEdgeMeta s raw md) (Spec.setEdgeMeta (abs s) raw md) := by
  refine ⟨?_, ?_, setEdgeMeta_inv s raw md h⟩ <;>
  · unfold setEdgeMeta Spec.setEdgeMeta
    simp only [abs_get]
    cases hg : get? s.edgeList (canon raw) with
    | none => rfl
    | some id =>
      simp only [Option.map_some]
      all_goals first
      | rfl
      | (rw [abs_tables s { s with emeta := AL.set s.emeta id md } (canon raw) id h hg rfl rfl rfl rfl
            (fun j hj => by simp [wm, get?_set_ne _ _ _ _ (Ne.symm hj)])] <;>
         first | rfl | (simp [wm] <;> rfl) | simp [wm])

theorem sim_setAttrEdge (s : Store) (raw : List Nat) (k v : Nat) (h : Inv s) :
    Sim (setAttrEdge s raw k v) (Spec.setAttrEdge (abs s) raw k v) := by
  refine ⟨?_, ?_, setAttrEdge_inv s raw k v h⟩ <;>
  · unfold setAttrEdge Spec.setAttrEdge
    simp only [abs_get]
    cases hg : get? s.edgeList (canon raw) with
    | none => rfl
    | some id =>
      simp only [Option.map_some]
      all_goals first
      | rfl
      | (rw [abs_tables s { s with emeta := AL.set s.emeta id (AL.set ((get? s.emeta id).getD []) k v) } (canon raw) id h hg
            rfl rfl rfl rfl (fun j hj => by simp [wm, get?_set_ne _ _ _ _ (Ne.symm hj)])] <;>
         first | rfl | (simp [wm] <;> rfl) | simp [wm])

theorem sim_delAttrEdge (s : Store) (raw : List Nat) (k : Nat) (h : Inv s) :
    Sim (delAttrEdge s raw k) (Spec.delAttrEdge (abs s) raw k) := by
  refine ⟨?_, ?_, delAttrEdge_inv s raw k h⟩ <;>
  · unfold delAttrEdge Spec.delAttrEdge
    simp only [abs_get]
    cases hg : get? s.edgeList (canon raw) with
    | none => rfl
    | some id =>
      simp only [Option.map_some, wm]
      split
      · first
        | rfl
        | (rw [abs_tables s { s with emeta := AL.set s.emeta id (del ((get? s.emeta id).getD []) k) } (canon raw) id h hg
              rfl rfl rfl rfl (fun j hj => by simp [wm, get?_set_ne _ _ _ _ (Ne.symm hj)])] <;>
           first | rfl | (simp [wm] <;> rfl) | simp [wm])
      · rfl

theorem sim_setNodeMeta (s : Store) (n : Node) (md : Meta) (h : Inv s) :
    Sim (setNodeMeta s n md) (Spec.setNodeMeta (abs s) n md) := by
  refine ⟨?_, ?_, setNodeMeta_inv s n md h⟩ <;>
  · unfold setNodeMeta Spec.setNodeMeta
    have hag : (get? (abs s).nodes n).isSome = (get? s.adj n).isSome := h.node_agree n
    rw [hag]
    split <;> rfl

theorem sim_setAttrNode (s : Store) (n : Node) (k v : Nat) (h : Inv s) :
    Sim (setAttrNode s n k v) (Spec.setAttrNode (abs s) n k v) := by
  refine ⟨?_, ?_, setAttrNode_inv s n k v h⟩ <;>
  · unfold setAttrNode Spec.setAttrNode
    have : (abs s).nodes = s.nmeta := rfl
    rw [this]
    split <;> rfl

theorem sim_delAttrNode (s : Store) (n : Node) (k : Nat) (h : Inv s) :
    Sim (delAttrNode s n k) (Spec.delAttrNode (abs s) n k) := by
  refine ⟨?_, ?_, delAttrNode_inv s n k h⟩ <;>
  · unfold delAttrNode Spec.delAttrNode
    have : (abs s).nodes = s.nmeta := rfl
    rw [this]
    split
    · rfl
    · split <;> rfl

theorem sim_apply (s : Store) (op : Op) (hwf : op.WF) (h : Inv s) : Sim (apply s op) (Spec.apply (abs s) op) := by
  cases op with
  | addNode n md => exact ⟨abs_addNode s n md h, rfl, addNode_inv s n md h⟩
  | addNodes ns mds => exact sim_addNodes s ns mds h
  | addEdge raw w md => exact sim_addEdge s raw w md h hwf
  | addEdges raws ws mds => exact sim_addEdges s raws ws mds h hwf
  | removeEdge raw => exact sim_removeEdge s raw h
  | removeEdges raws => exact sim_removeEdges s raws h
  | removeNode n keep => exact sim_removeNode s n keep h
  | removeNodes ns keep => exact sim_removeNodes s ns keep h
  | setWeight raw w => exact sim_setWeight s raw w h
  | setNodeMeta n md => exact sim_setNodeMeta s n md h
  | setEdgeMeta raw md => exact sim_setEdgeMeta s raw md h
  | setHMeta md => exact ⟨rfl, rfl, hmeta_inv s md h⟩
  | setAttrH k v => exact ⟨rfl, rfl, hmeta_inv s _ h⟩
  | setAttrNode n k v => exact sim_setAttrNode s n k v h
  | setAttrEdge raw k v => exact sim_setAttrEdge s raw k v h
  | delAttrNode n k => exact sim_delAttrNode s n k h
  | delAttrEdge raw k => exact sim_delAttrEdge s raw k h
  | clear => exact ⟨rfl, rfl, clear_inv s⟩

end C01
