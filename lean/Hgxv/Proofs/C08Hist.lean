import Hgxv.Model.C08Hist
import Hgxv.Proofs.C08
/-! # C08 history model: every object reachable through a program satisfies the hypotheses of the C08 theorems -/
namespace C08
namespace Hist

/-! ## sorting -/

theorem mem_insSorted (a y : Nat) (l : List Nat) : y ∈ insSorted a l ↔ y = a ∨ y ∈ l := by
  induction l with
  | nil => simp [insSorted]
  | cons b t ih => unfold insSorted; split <;> grind

theorem mem_sortL (y : Nat) (l : List Nat) : y ∈ sortL l ↔ y ∈ l := by
  induction l with
  | nil => simp [sortL]
  | cons a t ih =>
    have : sortL (a :: t) = insSorted a (sortL t) := rfl
    rw [this, mem_insSorted, ih]; simp

theorem sorted_insSorted (a : Nat) (l : List Nat) (hl : l.Pairwise (· < ·)) (ha : a ∉ l) :
    (insSorted a l).Pairwise (· < ·) := by
  induction l with
  | nil => simp [insSorted]
  | cons b t ih =>
    rw [List.pairwise_cons] at hl
    have hab : a ≠ b := fun h => ha (h ▸ List.mem_cons_self)
    have hat : a ∉ t := fun h => ha (List.mem_cons_of_mem _ h)
    unfold insSorted
    split
    · rename_i hle
      refine List.pairwise_cons.mpr ⟨?_, List.pairwise_cons.mpr hl⟩
      intro y hy
      rcases List.mem_cons.mp hy with h | h
      · omega
      · have := hl.1 y h; omega
    · rename_i hle
      refine List.pairwise_cons.mpr ⟨?_, ih hl.2 hat⟩
      intro y hy
      rcases (mem_insSorted a y t).mp hy with h | h
      · omega
      · exact hl.1 y h

theorem sorted_sortL (l : List Nat) (hl : l.Nodup) : (sortL l).Pairwise (· < ·) := by
  induction l with
  | nil => simp [sortL]
  | cons a t ih =>
    have : sortL (a :: t) = insSorted a (sortL t) := rfl
    rw [this]
    rw [List.nodup_cons] at hl
    exact sorted_insSorted a _ (ih hl.2) (fun h => hl.1 ((mem_sortL a t).mp h))

theorem nodup_of_sorted (l : List Nat) (h : l.Pairwise (· < ·)) : l.Nodup :=
  List.Pairwise.imp (fun hab => Nat.ne_of_lt hab) h

/-! ## the invariant: what `get_nodes()` / `get_edges()` of a reachable object look like -/

structure Inv (c : Content) : Prop where
  nodes_nodup : c.nodes.Nodup
  es_nodup : c.es.Nodup
  sorted : ∀ e ∈ c.es, e.Pairwise (· < ·)
  wf : ∀ e ∈ c.es, ∀ x ∈ e, x ∈ c.nodes

theorem inv_empty : Inv {} := ⟨List.nodup_nil, List.nodup_nil, by simp, by simp⟩

theorem es_addNode (c : Content) (x : Nat) : (addNode c x).es = c.es := by
  unfold addNode; split <;> rfl

theorem mem_nodes_addNode (c : Content) (x y : Nat) : y ∈ (addNode c x).nodes ↔ y ∈ c.nodes ∨ y = x := by
  unfold addNode; split <;> grind

theorem nodup_addNode (c : Content) (x : Nat) (h : c.nodes.Nodup) : (addNode c x).nodes.Nodup := by
  unfold addNode
  split
  · exact h
  · rename_i hx
    show (c.nodes ++ [x]).Nodup
    rw [List.nodup_append]
    refine ⟨h, by simp, ?_⟩
    intro a ha b hb
    simp at hb
    subst hb
    exact fun hab => hx (hab ▸ ha)

theorem es_addNodes (xs : List Nat) : ∀ c : Content, (addNodes c xs).es = c.es := by
  induction xs with
  | nil => intro c; rfl
  | cons a t ih => intro c; show (addNodes (addNode c a) t).es = c.es; rw [ih, es_addNode]

theorem mem_nodes_addNodes (xs : List Nat) : ∀ (c : Content) (y : Nat),
    y ∈ (addNodes c xs).nodes ↔ y ∈ c.nodes ∨ y ∈ xs := by
  induction xs with
  | nil => intro c y; simp [addNodes]
  | cons a t ih =>
    intro c y
    show y ∈ (addNodes (addNode c a) t).nodes ↔ _
    rw [ih, mem_nodes_addNode]; simp only [List.mem_cons]; grind

theorem nodup_addNodes (xs : List Nat) : ∀ c : Content, c.nodes.Nodup → (addNodes c xs).nodes.Nodup := by
  induction xs with
  | nil => intro c h; exact h
  | cons a t ih => intro c h; exact ih (addNode c a) (nodup_addNode c a h)

theorem inv_addNode (c : Content) (x : Nat) (h : Inv c) : Inv (addNode c x) where
  nodes_nodup := nodup_addNode c x h.nodes_nodup
  es_nodup := by rw [es_addNode]; exact h.es_nodup
  sorted := by rw [es_addNode]; exact h.sorted
  wf := by
    rw [es_addNode]
    intro e he y hy
    exact (mem_nodes_addNode c x y).mpr (Or.inl (h.wf e he y hy))

/-- the hyperedges after `add_edge` -/
theorem es_addEdge (c : Content) (e : Edge) :
    (addEdge c e).es = if sortL e ∈ c.es then c.es else c.es ++ [sortL e] := by
  unfold addEdge
  split
  · rfl
  · rw [es_addNodes]

theorem mem_nodes_addEdge (c : Content) (e : Edge) (y : Nat) (h : y ∈ c.nodes) : y ∈ (addEdge c e).nodes := by
  unfold addEdge
  split
  · exact h
  · exact (mem_nodes_addNodes _ _ y).mpr (Or.inl h)

theorem inv_addEdge (c : Content) (e : Edge) (he : e.Nodup) (h : Inv c) : Inv (addEdge c e) := by
  unfold addEdge
  split
  · exact h
  · rename_i hnew
    refine ⟨?_, ?_, ?_, ?_⟩
    · exact nodup_addNodes _ _ h.nodes_nodup
    · rw [es_addNodes]
      show (c.es ++ [sortL e]).Nodup
      rw [List.nodup_append]
      refine ⟨h.es_nodup, by simp, ?_⟩
      intro a ha b hb
      simp at hb
      subst hb
      exact fun hab => hnew (hab ▸ ha)
    · rw [es_addNodes]
      intro e' he'
      rcases List.mem_append.mp he' with h1 | h1
      · exact h.sorted e' h1
      · simp at h1; subst h1; exact sorted_sortL e he
    · rw [es_addNodes]
      intro e' he' y hy
      apply (mem_nodes_addNodes _ _ y).mpr
      rcases List.mem_append.mp he' with h1 | h1
      · exact Or.inl (h.wf e' h1 y hy)
      · simp at h1; subst h1; exact Or.inr hy

theorem inv_removeEdge (c c' : Content) (e : Edge) (h : Inv c) (hr : removeEdge c e = some c') : Inv c' := by
  unfold removeEdge at hr
  split at hr
  · injection hr with hr
    subst hr
    exact ⟨h.nodes_nodup, (List.filter_sublist).nodup h.es_nodup,
      fun e' he' => h.sorted e' (List.mem_filter.mp he').1,
      fun e' he' => h.wf e' (List.mem_filter.mp he').1⟩
  · exact absurd hr (by simp)

theorem sorted_dropNode (x : Nat) (e : Edge) (h : e.Pairwise (· < ·)) : (dropNode x e).Pairwise (· < ·) :=
  List.Pairwise.sublist List.filter_sublist h

theorem inv_keepLoop (x : Nat) (inc : List Edge) : ∀ c : Content, Inv c → (∀ e ∈ inc, e.Pairwise (· < ·)) →
    Inv (inc.foldl (fun c e => addEdge c (dropNode x e)) c) := by
  induction inc with
  | nil => intro c h _; exact h
  | cons a t ih =>
    intro c h hs
    exact ih _ (inv_addEdge c _ (nodup_of_sorted _ (sorted_dropNode x a (hs a List.mem_cons_self))) h)
      (fun e he => hs e (List.mem_cons_of_mem _ he))

theorem inv_dropIncident (c : Content) (x : Nat) (h : Inv c) :
    Inv { nodes := c.nodes.filter (fun y => y != x), es := c.es.filter (fun e => !decide (x ∈ e)) } where
  nodes_nodup := (List.filter_sublist).nodup h.nodes_nodup
  es_nodup := (List.filter_sublist).nodup h.es_nodup
  sorted := fun e he => h.sorted e (List.mem_filter.mp he).1
  wf := by
    intro e he y hy
    obtain ⟨he1, he2⟩ := List.mem_filter.mp he
    apply List.mem_filter.mpr
    refine ⟨h.wf e he1 y hy, ?_⟩
    have hx : x ∉ e := by simpa using he2
    have : y ≠ x := fun hyx => hx (hyx ▸ hy)
    simpa using this

theorem inv_removeNode (c c' : Content) (x : Nat) (keep : Bool) (h : Inv c)
    (hr : removeNode c x keep = some c') : Inv c' := by
  unfold removeNode at hr
  split at hr
  · injection hr with hr
    subst hr
    cases keep
    · exact inv_dropIncident c x h
    · exact inv_dropIncident _ x
        (inv_keepLoop x _ c h (fun e he => h.sorted e (List.mem_filter.mp he).1))
  · exact absurd hr (by simp)

theorem inv_sub (c : Content) (ns : List Nat) (h : Inv c) : Inv (sub c ns) where
  nodes_nodup := nodup_addNodes ns {} List.nodup_nil
  es_nodup := (List.filter_sublist).nodup h.es_nodup
  sorted := fun e he => h.sorted e (List.mem_filter.mp he).1
  wf := by
    intro e he y hy
    obtain ⟨_, he2⟩ := List.mem_filter.mp he
    apply (mem_nodes_addNodes ns {} y).mpr
    right
    have := List.all_eq_true.mp he2 y hy
    simpa using this

/-! ## programs -/

theorem inv_modifyAt (st st' : List Content) (i : Nat) (f : Content → Option Content)
    (hf : ∀ c c', Inv c → f c = some c' → Inv c') (h : ∀ c ∈ st, Inv c) (hm : modifyAt st i f = some st') :
    ∀ c ∈ st', Inv c := by
  unfold modifyAt at hm
  split at hm
  · rename_i c hc
    cases hfc : f c with
    | none => simp [hfc] at hm
    | some c' =>
      simp [hfc] at hm
      subst hm
      intro d hd
      rcases List.mem_or_eq_of_mem_set hd with h1 | h1
      · exact h d h1
      · subst h1; exact hf c _ (h c (List.mem_of_getElem? hc)) hfc
  · exact absurd hm (by simp)

/-- the precondition of the operations: `add_edge` is given a duplicate-free node tuple; a listing that enters the program
from outside (`load`: loader / generator / filter product, `put`: listing taken after a raised call) is well-formed - the
harness checks exactly this on every such listing (distinct nodes, distinct sorted hyperedges over listed nodes) -/
def Op.Valid : Op → Prop
  | .addEdge _ e => e.Nodup
  | .load c => Inv c
  | .put _ c => Inv c
  | _ => True

theorem inv_step (st st' : List Content) (op : Op) (hv : op.Valid) (h : ∀ c ∈ st, Inv c)
    (hs : step st op = some st') : ∀ c ∈ st', Inv c := by
  cases op with
  | addNode i x =>
    exact inv_modifyAt st st' i _ (fun c c' hc he => by injection he with he; subst he; exact inv_addNode c x hc) h hs
  | addEdge i e =>
    exact inv_modifyAt st st' i _ (fun c c' hc he => by injection he with he; subst he; exact inv_addEdge c e hv hc) h hs
  | removeEdge i e => exact inv_modifyAt st st' i _ (fun c c' hc he => inv_removeEdge c c' e hc he) h hs
  | removeNode i x keep => exact inv_modifyAt st st' i _ (fun c c' hc he => inv_removeNode c c' x keep hc he) h hs
  | clear i =>
    exact inv_modifyAt st st' i _ (fun c c' _ he => by injection he with he; subst he; exact inv_empty) h hs
  | copy i =>
    simp only [step] at hs
    cases hc : st[i]? with
    | none => simp [hc] at hs
    | some c =>
      simp [hc] at hs
      subst hs
      intro d hd
      rcases List.mem_append.mp hd with h1 | h1
      · exact h d h1
      · simp at h1; rw [h1]; exact h c (List.mem_of_getElem? hc)
  | sub i ns =>
    simp only [step] at hs
    cases hc : st[i]? with
    | none => simp [hc] at hs
    | some c =>
      simp [hc] at hs
      subst hs
      intro d hd
      rcases List.mem_append.mp hd with h1 | h1
      · exact h d h1
      · simp at h1; rw [h1]; exact inv_sub c ns (h c (List.mem_of_getElem? hc))
  | restore i src =>
    simp only [step] at hs
    cases hc : st[src]? with
    | none => simp [hc] at hs
    | some c =>
      simp only [hc] at hs
      exact inv_modifyAt st st' i _
        (fun _ c' _ he => by injection he with he; subst he; exact h c (List.mem_of_getElem? hc)) h hs
  | load c =>
    simp only [step] at hs
    injection hs with hs
    subst hs
    intro d hd
    rcases List.mem_append.mp hd with h1 | h1
    · exact h d h1
    · simp at h1; rw [h1]; exact hv
  | put i c =>
    exact inv_modifyAt st st' i _ (fun _ c' _ he => by injection he with he; subst he; exact hv) h hs

theorem inv_run (ops : List Op) : ∀ (st st' : List Content), (∀ op ∈ ops, op.Valid) → (∀ c ∈ st, Inv c) →
    run st ops = some st' → ∀ c ∈ st', Inv c := by
  induction ops with
  | nil => intro st st' _ h hr; simp [run] at hr; subst hr; exact h
  | cons op t ih =>
    intro st st' hv h hr
    unfold run at hr
    split at hr
    · rename_i st1 hs
      exact ih st1 st' (fun o ho => hv o (List.mem_cons_of_mem _ ho))
        (inv_step st st1 op (hv op List.mem_cons_self) h hs) hr
    · exact absurd hr (by simp)

/-! ## frame: an operation on object `i` leaves every other object as it is -/

/-- the object an operation is applied to (`copy` / `sub` change no existing object) -/
def Op.target : Op → Option Nat
  | .addNode i _ | .addEdge i _ | .removeEdge i _ | .removeNode i _ _ | .clear i | .restore i _ | .put i _ => some i
  | .copy _ | .sub _ _ | .load _ => none

theorem frame_modifyAt (st st' : List Content) (i j : Nat) (f : Content → Option Content) (hij : j ≠ i)
    (hm : modifyAt st i f = some st') : st'[j]? = st[j]? := by
  unfold modifyAt at hm
  split at hm
  · rename_i c hc
    cases hfc : f c with
    | none => simp [hfc] at hm
    | some c' =>
      simp [hfc] at hm
      subst hm
      exact List.getElem?_set_ne (Ne.symm hij)
  · exact absurd hm (by simp)

theorem frame_step (st st' : List Content) (op : Op) (j : Nat) (hj : j < st.length) (ht : op.target ≠ some j)
    (hs : step st op = some st') : st'[j]? = st[j]? := by
  cases op with
  | addNode i x => exact frame_modifyAt st st' i j _ (fun h => ht (by simp [Op.target, h])) hs
  | addEdge i e => exact frame_modifyAt st st' i j _ (fun h => ht (by simp [Op.target, h])) hs
  | removeEdge i e => exact frame_modifyAt st st' i j _ (fun h => ht (by simp [Op.target, h])) hs
  | removeNode i x keep => exact frame_modifyAt st st' i j _ (fun h => ht (by simp [Op.target, h])) hs
  | clear i => exact frame_modifyAt st st' i j _ (fun h => ht (by simp [Op.target, h])) hs
  | copy i =>
    simp only [step] at hs
    cases hc : st[i]? with
    | none => simp [hc] at hs
    | some c => simp [hc] at hs; subst hs; exact List.getElem?_append_left hj
  | sub i ns =>
    simp only [step] at hs
    cases hc : st[i]? with
    | none => simp [hc] at hs
    | some c => simp [hc] at hs; subst hs; exact List.getElem?_append_left hj
  | restore i src =>
    simp only [step] at hs
    cases hc : st[src]? with
    | none => simp [hc] at hs
    | some c =>
      simp only [hc] at hs
      exact frame_modifyAt st st' i j _ (fun h => ht (by simp [Op.target, h])) hs
  | load c =>
    simp only [step] at hs
    injection hs with hs
    subst hs
    exact List.getElem?_append_left hj
  | put i c => exact frame_modifyAt st st' i j _ (fun h => ht (by simp [Op.target, h])) hs

/-- `copy` yields an object with the content of its source at that moment -/
theorem copy_step (st st' : List Content) (i : Nat) (hs : step st (.copy i) = some st') :
    st'[st.length]? = st[i]? ∧ st'.length = st.length + 1 := by
  simp only [step] at hs
  cases hc : st[i]? with
  | none => simp [hc] at hs
  | some c => simp [hc] at hs; subst hs; simp

/-! ## rejected calls inside a program -/

theorem inv_stepSkip (st : List Content) (op : Op) (hv : op.Valid) (h : ∀ c ∈ st, Inv c) :
    ∀ c ∈ stepSkip st op, Inv c := by
  unfold stepSkip
  cases hs : step st op with
  | none => simpa using h
  | some st' => simpa using inv_step st st' op hv h hs

theorem inv_runSkip (ops : List Op) : ∀ (st : List Content), (∀ op ∈ ops, op.Valid) → (∀ c ∈ st, Inv c) →
    ∀ c ∈ runSkip st ops, Inv c := by
  induction ops with
  | nil => intro st _ h; simpa [runSkip] using h
  | cons op t ih =>
    intro st hv h
    have := ih (stepSkip st op) (fun o ho => hv o (List.mem_cons_of_mem _ ho))
      (inv_stepSkip st op (hv op List.mem_cons_self) h)
    simpa [runSkip] using this

/-- a rejected call leaves the whole program state as it was; an accepted one is the step -/
theorem stepSkip_eq (st : List Content) (op : Op) :
    (step st op = none → stepSkip st op = st) ∧ (∀ st', step st op = some st' → stepSkip st op = st') := by
  unfold stepSkip
  constructor
  · intro h; simp [h]
  · intro st' h; simp [h]

/-- without rejected calls `runSkip` is `run` -/
theorem runSkip_of_run (ops : List Op) : ∀ (st st' : List Content), run st ops = some st' → runSkip st ops = st' := by
  induction ops with
  | nil => intro st st' h; simp [run] at h; simp [runSkip, h]
  | cons op t ih =>
    intro st st' h
    unfold run at h
    split at h
    · rename_i st1 hs
      have := ih st1 st' h
      simpa [runSkip, stepSkip, hs] using this
    · exact absurd h (by simp)

end Hist
end C08
