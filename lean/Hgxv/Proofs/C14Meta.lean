import Hgxv.Proofs.C14Shuffle
import Hgxv.Model.C14Meta
/-! The metadata tables next to the content: the generator calls refine the content-level model and leave node,
hypergraph-level and incidence metadata as they were (core Lean only). -/
namespace C14

theorem touchNode_of_mem {nm : List (Nat × Nat)} {x : Nat} (h : x ∈ nm.map (·.1)) : touchNode nm x = nm := by
  simp only [touchNode, h, if_true]

theorem foldl_touch_of_subset (e : List Nat) : ∀ (nm : List (Nat × Nat)), (∀ x ∈ e, x ∈ nm.map (·.1)) →
    e.foldl touchNode nm = nm := by
  induction e with
  | nil => intro nm _; rfl
  | cons a e ih =>
    intro nm h
    simp only [List.foldl_cons]
    rw [touchNode_of_mem (h a (by simp))]
    exact ih nm (fun x hx => h x (by simp [hx]))

@[simp] theorem addEdgeM_core (m : HGM) (raw : List Nat) (w md : Nat) :
    (addEdgeM m raw w md).core = addEdge m.core raw w md := rfl
@[simp] theorem addEdgeM_hmeta (m : HGM) (raw : List Nat) (w md : Nat) : (addEdgeM m raw w md).hmeta = m.hmeta := rfl
@[simp] theorem addEdgeM_imeta (m : HGM) (raw : List Nat) (w md : Nat) : (addEdgeM m raw w md).imeta = m.imeta := rfl

theorem addEdgeM_nmeta (m : HGM) (raw : List Nat) (w md : Nat) (h : ∀ x ∈ raw, x ∈ m.nmeta.map (·.1)) :
    (addEdgeM m raw w md).nmeta = m.nmeta := by
  unfold addEdgeM
  simp only
  split
  · apply foldl_touch_of_subset
    intro x hx
    exact h x (by simpa using hx)
  · rfl

theorem addManyM_core (L : List (List Nat × Rec)) : ∀ (m : HGM), (addManyM m L).core = addMany m.core L := by
  induction L with
  | nil => intro m; rfl
  | cons t L ih =>
    intro m
    simp only [addManyM, addMany, List.foldl_cons]
    exact ih (addEdgeM m t.1 t.2.1 t.2.2)

theorem addManyM_meta (L : List (List Nat × Rec)) : ∀ (m : HGM), (∀ t ∈ L, ∀ x ∈ t.1, x ∈ m.nmeta.map (·.1)) →
    (addManyM m L).nmeta = m.nmeta ∧ (addManyM m L).hmeta = m.hmeta ∧ (addManyM m L).imeta = m.imeta := by
  induction L with
  | nil => intro m _; exact ⟨rfl, rfl, rfl⟩
  | cons t L ih =>
    intro m h
    have h1 := addEdgeM_nmeta m t.1 t.2.1 t.2.2 (h t (by simp))
    have h2 := ih (addEdgeM m t.1 t.2.1 t.2.2) (by rw [h1]; intro t' ht'; exact h t' (by simp [ht']))
    simp only [addManyM, List.foldl_cons] at h2 ⊢
    exact ⟨h2.1.trans h1, h2.2.1, h2.2.2⟩

theorem removeEdgesM_spec (es : List Edge) : ∀ (m : HGM),
    (removeEdgesM m es).core = removeEdges m.core es ∧ (removeEdgesM m es).nmeta = m.nmeta ∧
    (removeEdgesM m es).hmeta = m.hmeta ∧ (removeEdgesM m es).imeta = m.imeta := by
  induction es with
  | nil => intro m; exact ⟨rfl, rfl, rfl, rfl⟩
  | cons e es ih =>
    intro m
    have := ih (removeEdgeM m e)
    simp only [removeEdgesM, removeEdges, List.foldl_cons] at this ⊢
    exact this

theorem shuffleCoreM_core (m : HGM) (s : Nat) (idx : List Nat) (cs : List (List Nat)) :
    (shuffleCoreM m s idx cs).core = shuffleCore m.core s idx cs := by
  unfold shuffleCoreM shuffleCore
  rw [addManyM_core, (removeEdgesM_spec _ m).1]

theorem shuffleCoreM_meta (m : HGM) (wf : WF m.core) (hn : ∀ x ∈ m.core.nodes, x ∈ m.nmeta.map (·.1))
    (s : Nat) (idx : List Nat) (cs : List (List Nat)) (hd : ShuffleDrawsOK m.core s idx cs) :
    (shuffleCoreM m s idx cs).nmeta = m.nmeta ∧ (shuffleCoreM m s idx cs).hmeta = m.hmeta ∧
    (shuffleCoreM m s idx cs).imeta = m.imeta := by
  obtain ⟨_, r2, r3, r4⟩ := removeEdgesM_spec ((edgesOfSize m.core s).map (·.1)) m
  have hent := readd_entries m.core wf s idx cs hd
  have := addManyM_meta (readdList idx (edgesOfSize m.core s) 0 cs) (removeEdgesM m ((edgesOfSize m.core s).map (·.1)))
    (by rw [r2]; intro t ht x hx; exact hn x ((hent t ht).1 x hx))
  unfold shuffleCoreM
  exact ⟨this.1.trans r2, this.2.1.trans r3, this.2.2.trans r4⟩

theorem shuffleAllLoopM_core : ∀ (sizes : List Nat) (ds : List (List Nat × List (List Nat))) (m : HGM),
    (shuffleAllLoopM m sizes ds).core = shuffleAllLoop m.core sizes ds := by
  intro sizes
  induction sizes with
  | nil => intro ds m; simp [shuffleAllLoopM, shuffleAllLoop]
  | cons s sizes ih =>
    intro ds m
    cases ds with
    | nil => simp [shuffleAllLoopM, shuffleAllLoop]
    | cons d ds =>
      simp only [shuffleAllLoopM, shuffleAllLoop]
      rw [ih ds _, shuffleCoreM_core]

theorem shuffleAllLoopM_meta : ∀ (sizes : List Nat) (ds : List (List Nat × List (List Nat))) (m : HGM),
    WF m.core → (∀ x ∈ m.core.nodes, x ∈ m.nmeta.map (·.1)) → ShuffleAllOK m.core sizes ds →
    (shuffleAllLoopM m sizes ds).nmeta = m.nmeta ∧ (shuffleAllLoopM m sizes ds).hmeta = m.hmeta ∧
    (shuffleAllLoopM m sizes ds).imeta = m.imeta := by
  intro sizes
  induction sizes with
  | nil => intro ds m _ _ _; simp [shuffleAllLoopM]
  | cons s sizes ih =>
    intro ds m wf hn hok
    cases ds with
    | nil => simp [shuffleAllLoopM]
    | cons d ds =>
      simp only [ShuffleAllOK] at hok
      have h1 := shuffleCore_spec m.core wf s d.1 d.2 hok.1
      have hm := shuffleCoreM_meta m wf hn s d.1 d.2 hok.1
      have hc := shuffleCoreM_core m s d.1 d.2
      have := ih ds (shuffleCoreM m s d.1 d.2) (by rw [hc]; exact h1.wf)
        (by rw [hc, h1.nodes, hm.1]; exact hn) (by rw [hc]; exact hok.2)
      simp only [shuffleAllLoopM]
      exact ⟨this.1.trans hm.1, this.2.1.trans hm.2.1, this.2.2.trans hm.2.2⟩

/-- forget the metadata tables of a call result -/
def CallResultM.proj (r : CallResultM) : CallResult := { arg := r.arg.core, ret := r.ret.map (·.core) }

end C14
