import Hgxv.Proofs.C04Agg
/-! C04 - the layer registry and the independence of layers. Core Lean only. -/
namespace C04
open AL

/-! ## independence on the abstract map -/

theorem Spec.touchNodes_edges (sp : Spec) (ns : List Node) : (Spec.touchNodes sp ns).edges = sp.edges ∧
    (Spec.touchNodes sp ns).weighted = sp.weighted ∧ (Spec.touchNodes sp ns).layers = sp.layers := by
  induction ns generalizing sp with
  | nil => exact ⟨rfl, rfl, rfl⟩
  | cons n ns ih =>
    simp only [Spec.touchNodes, List.foldl_cons] at ih ⊢
    obtain ⟨h1, h2, h3⟩ := ih (Spec.addNode sp n none)
    rw [h1, h2, h3]
    unfold Spec.addNode; split <;> exact ⟨rfl, rfl, rfl⟩

/-- the entry of every key other than the inserted one is untouched -/
theorem Spec.addEdge_other (sp : Spec) (raw : List Node) (l : Layer) (w : Option Int) (md : Option Meta) (k : Key)
    (hk : k ≠ (canon raw, l)) : get? (Spec.addEdge sp raw l w md).1.edges k = get? sp.edges k := by
  unfold Spec.addEdge
  split
  · rfl
  · simp only [Spec.addEdgeCore, (Spec.touchNodes_edges _ _).1]
    rw [get?_set_ne]
    exact fun h => hk h.symm

theorem Spec.addEdge_weighted (sp : Spec) (raw : List Node) (l : Layer) (w : Option Int) (md : Option Meta) :
    (Spec.addEdge sp raw l w md).1.weighted = sp.weighted := by
  unfold Spec.addEdge
  split
  · rfl
  · simp only [Spec.addEdgeCore, (Spec.touchNodes_edges _ _).2.1]

/-- the inserted key itself, in a weighted hypergraph: weights add up, metadata is replaced -/
theorem Spec.addEdge_self (sp : Spec) (raw : List Node) (l : Layer) (w : Int) (md : Option Meta) (hw : sp.weighted = true) :
    get? (Spec.addEdge sp raw l (some w) md).1.edges (canon raw, l) =
      some (Spec.mergeEntry true (get? sp.edges (canon raw, l)) w (md.getD [])) := by
  unfold Spec.addEdge
  simp only [hw, Bool.not_true, Bool.false_and, Bool.false_eq_true, if_false, Option.getD_some]
  simp only [Spec.addEdgeCore, (Spec.touchNodes_edges _ _).1, get?_set_self, hw]

theorem Spec.addEdgesLoop_other (sp : Spec) (es : List (List Node × Layer)) (ws : List (Option Int)) (mds : List (Option Meta))
    (k : Key) (hk : ∀ p ∈ es, k ≠ (canon p.1, p.2)) : get? (Spec.addEdgesLoop sp es ws mds).edges k = get? sp.edges k := by
  induction es generalizing sp ws mds with
  | nil => unfold Spec.addEdgesLoop; rfl
  | cons p es ih =>
    obtain ⟨raw, l⟩ := p
    cases ws with
    | nil => unfold Spec.addEdgesLoop; rfl
    | cons w ws =>
      cases mds with
      | nil => unfold Spec.addEdgesLoop; rfl
      | cons md mds =>
        unfold Spec.addEdgesLoop
        rw [ih _ _ _ (fun p hp => hk p (List.mem_cons_of_mem _ hp)),
          Spec.addEdge_other _ _ _ _ _ _ (hk (raw, l) List.mem_cons_self)]

/-! ## the same statements on the concrete store -/

theorem addEdge_other_weight (s : Store) (raw raw' : List Node) (l l' : Layer) (w : Option Int) (md : Option Meta)
    (h : Inv s) (hraw : raw.Nodup) (hk : (canon raw', l') ≠ (canon raw, l)) :
    getWeight (addEdge s raw l w md).1 raw' l' = getWeight s raw' l' ∧
    getEdgeMeta (addEdge s raw l w md).1 raw' l' = getEdgeMeta s raw' l' := by
  have h1 := addEdge_inv s raw l w md h hraw
  rw [getWeight_abs _ _ _ h1, getWeight_abs _ _ _ h, getEdgeMeta_abs _ _ _ h1, getEdgeMeta_abs _ _ _ h,
    (abs_addEdge s raw l w md h).1]
  unfold Spec.getWeight Spec.getEdgeMeta
  rw [Spec.addEdge_other _ _ _ _ _ _ hk]
  exact ⟨rfl, rfl⟩

theorem addEdges_other_weight (s : Store) (raws : List (List Node)) (ls : List Layer) (ws : Option (List Int))
    (mds : Option (List Meta)) (raw' : List Node) (l' : Layer) (h : Inv s) (hr : ∀ r ∈ raws, r.Nodup)
    (hk : ∀ p ∈ raws.zip ls, (canon raw', l') ≠ (canon p.1, p.2)) :
    getWeight (addEdges s raws ls ws mds).1 raw' l' = getWeight s raw' l' ∧
    getEdgeMeta (addEdges s raws ls ws mds).1 raw' l' = getEdgeMeta s raw' l' := by
  have h1 := addEdges_inv s raws ls ws mds h hr
  rw [getWeight_abs _ _ _ h1, getWeight_abs _ _ _ h, getEdgeMeta_abs _ _ _ h1, getEdgeMeta_abs _ _ _ h,
    (abs_addEdges s raws ls ws mds h hr).1]
  have key : get? (Spec.addEdges (abs s) raws ls ws mds).1.edges (canon raw', l') = get? (abs s).edges (canon raw', l') := by
    unfold Spec.addEdges
    simp only []
    split
    · rfl
    · split
      · rfl
      · split
        · split
          · rfl
          · split
            · rfl
            · exact Spec.addEdgesLoop_other _ _ _ _ _ hk
        · exact Spec.addEdgesLoop_other _ _ _ _ _ hk
  unfold Spec.getWeight Spec.getEdgeMeta
  rw [key]
  exact ⟨rfl, rfl⟩

/-- a weighted batch that holds the same node set in two different layers is accepted and both records get
their own weight -/
theorem Spec.batch_two_layers (sp : Spec) (r r' : List Node) (l1 l2 : Layer) (w1 w2 : Int) (hl : l1 ≠ l2)
    (hrr : canon r = canon r') :
    (Spec.addEdges sp [r, r'] [l1, l2] (some [w1, w2]) none).2 = Out.ok ∧
    get? (Spec.addEdges sp [r, r'] [l1, l2] (some [w1, w2]) none).1.edges (canon r, l1) =
      some (Spec.mergeEntry true (get? sp.edges (canon r, l1)) w1 []) ∧
    get? (Spec.addEdges sp [r, r'] [l1, l2] (some [w1, w2]) none).1.edges (canon r, l2) =
      some (Spec.mergeEntry true (get? sp.edges (canon r, l2)) w2 []) := by
  have hnd : [(r, l1), (r', l2)].Nodup := by
    simp only [List.nodup_cons, List.mem_cons, List.not_mem_nil, or_false,
      List.nodup_nil, and_true, not_false_eq_true]
    intro h; exact hl (Prod.mk.inj h).2
  unfold Spec.addEdges
  simp only [List.length_cons, List.length_nil, Nat.lt_irrefl, if_false, mdsLenOK, Bool.not_true, Bool.false_eq_true,
    ne_eq, List.zip_cons_cons, List.zip_nil_right, List.map_cons, List.map_nil,
    List.replicate, not_true_eq_false]
  rw [if_neg (fun hc => hc hnd)]
  unfold Spec.addEdgesLoop Spec.addEdgesLoop Spec.addEdgesLoop
  refine ⟨rfl, ?_, ?_⟩
  · rw [Spec.addEdge_other _ _ _ _ _ _ (by rw [← hrr]; intro h; exact hl (Prod.mk.inj h).2)]
    rw [Spec.addEdge_self _ _ _ _ _ rfl]; rfl
  · rw [hrr, Spec.addEdge_self _ _ _ _ _ (by rw [Spec.addEdge_weighted])]
    rw [Spec.addEdge_other _ _ _ _ _ _ (by rw [← hrr]; intro h; exact hl (Prod.mk.inj h).2.symm)]; rfl

/-! ## the registry = layers of the accepted insertions -/

theorem addEdgeCore_layers (s : Store) (raw : List Node) (l : Layer) (w : Int) (md : Meta) :
    (addEdgeCore s raw l w md).layers = addLayer s.layers l ∧ (addEdgeCore s raw l w md).weighted = s.weighted := by
  unfold addEdgeCore
  split
  · obtain ⟨_, _, _, _, _, f6, _, f8, _⟩ := addEdgeNew_fields { s with layers := addLayer s.layers l } (canon raw, l) w md
    exact ⟨f8, f6⟩
  · simp only [addEdgeOld]
    obtain ⟨_, _, _, _, _, f6, _, f8⟩ := touchNodes_fields (bumpRecord { s with layers := addLayer s.layers l } _ w md) (canon raw)
    exact ⟨f8, f6⟩

theorem addEdge_layers (s : Store) (raw : List Node) (l : Layer) (w : Option Int) (md : Option Meta) :
    (addEdge s raw l w md).1.layers = (if (addEdge s raw l w md).2 = Out.ok then addLayer s.layers l else s.layers) ∧
    (addEdge s raw l w md).1.weighted = s.weighted := by
  unfold addEdge
  by_cases hc : (!s.weighted && w.getD one != one) = true
  · rw [if_pos hc]; exact ⟨by simp, rfl⟩
  · rw [if_neg hc]; exact ⟨by simp [(addEdgeCore_layers s raw l _ _).1], (addEdgeCore_layers s raw l _ _).2⟩

theorem removeEdge_layers (s : Store) (raw : List Node) (l : Layer) : (removeEdge s raw l).1.layers = s.layers := by
  unfold removeEdge; split <;> rfl

theorem dropRecord_layers (s : Store) (id : Nat) : (dropRecord s id).layers = s.layers := by
  unfold dropRecord; split
  · rfl
  · exact removeEdge_layers s _ _

theorem shrinkRecord_layers (s : Store) (n : Node) (id : Nat) (h : Inv s) : (shrinkRecord s n id).layers = s.layers := by
  unfold shrinkRecord; split
  · rfl
  · rename_i e l hr
    have hl : l ∈ s.layers := h.id.reg _ _ hr
    simp only []
    split
    · exact removeEdge_layers s _ _
    · rw [(addEdge_layers _ _ _ _ _).1, removeEdge_layers]
      split
      · unfold addLayer; simp [hl]
      · rfl

theorem foldl_layers (f : Store → Nat → Store) (hf : ∀ s id, Inv s → Inv (f s id) ∧ (f s id).layers = s.layers)
    (ids : List Nat) (s : Store) (h : Inv s) : (ids.foldl f s).layers = s.layers := by
  induction ids generalizing s with
  | nil => rfl
  | cons id rest ih =>
    simp only [List.foldl_cons]
    rw [ih _ (hf s id h).1]; exact (hf s id h).2

theorem removeLoop_layers (s : Store) (n : Node) (keep : Bool) (ids : List Nat) (h : Inv s) :
    (ids.foldl (fun s id => if keep then shrinkRecord s n id else dropRecord s id) s).layers = s.layers := by
  apply foldl_layers _ _ ids s h
  intro s id hs
  cases keep with
  | true => exact ⟨shrinkRecord_inv s n id hs, shrinkRecord_layers s n id hs⟩
  | false => exact ⟨dropRecord_inv s id hs, dropRecord_layers s id⟩

theorem removeNode_layers (s : Store) (n : Node) (keep : Bool) (h : Inv s) : (removeNode s n keep).1.layers = s.layers := by
  unfold removeNode; split
  · rfl
  · exact removeLoop_layers s n keep _ h

theorem addEdgesLoop_layers (s : Store) (es : List (List Node × Layer)) (ws : List (Option Int)) (mds : List (Option Meta))
    (h1 : es.length ≤ ws.length) (h2 : es.length ≤ mds.length) (hacc : ∀ w ∈ ws, s.weighted = true ∨ w = none) (l : Layer) :
    l ∈ (addEdgesLoop s es ws mds).layers ↔ l ∈ s.layers ∨ ∃ p ∈ es, p.2 = l := by
  induction es generalizing s ws mds with
  | nil => unfold addEdgesLoop; simp
  | cons p es ih =>
    obtain ⟨raw, l0⟩ := p
    cases ws with
    | nil => simp at h1
    | cons w ws =>
      cases mds with
      | nil => simp at h2
      | cons md mds =>
        unfold addEdgesLoop
        have hok : (addEdge s raw l0 w md).2 = Out.ok := by
          unfold addEdge
          rcases hacc w List.mem_cons_self with hw | hw
          · simp [hw]
          · subst hw; simp
        obtain ⟨f1, f2⟩ := addEdge_layers s raw l0 w md
        rw [ih (addEdge s raw l0 w md).1 ws mds (by simpa using h1) (by simpa using h2)
          (fun w' hw' => by rw [f2]; exact hacc w' (List.mem_cons_of_mem _ hw')), f1, if_pos hok, mem_addLayer]
        simp only [List.mem_cons, exists_eq_or_imp]
        constructor
        · rintro ((h | h) | h)
          · exact Or.inr (Or.inl h.symm)
          · exact Or.inl h
          · exact Or.inr (Or.inr h)
        · rintro (h | h | h)
          · exact Or.inl (Or.inr h)
          · exact Or.inl (Or.inl h.symm)
          · exact Or.inr h

theorem addEdges_layers (s : Store) (raws : List (List Node)) (ls : List Layer) (ws : Option (List Int))
    (mds : Option (List Meta)) (l : Layer) :
    l ∈ (addEdges s raws ls ws mds).1.layers ↔
      l ∈ s.layers ∨ ((addEdges s raws ls ws mds).2 = Out.ok ∧ ∃ p ∈ raws.zip ls, p.2 = l) := by
  unfold addEdges
  simp only []
  by_cases h1 : ls.length < raws.length
  · rw [if_pos h1]; simp
  · rw [if_neg h1]
    by_cases h2 : (!mdsLenOK mds raws.length) = true
    · rw [if_pos h2]; simp
    · rw [if_neg h2]
      have hz : (raws.zip ls).length = raws.length := by rw [List.length_zip]; omega
      have hm : (raws.zip ls).length ≤ (match mds with | some m => m.map some | none => List.replicate raws.length none).length := by
        rw [hz]
        cases mds with
        | none => simp
        | some m => simp [mdsLenOK] at h2; simpa using h2
      cases ws with
      | none =>
        simp only [true_and]
        exact addEdgesLoop_layers s _ _ _ (by rw [hz]; simp) hm (fun w hw => Or.inr (List.eq_of_mem_replicate hw)) l
      | some wl =>
        simp only []
        by_cases h3 : ¬ (raws.zip ls).Nodup
        · rw [if_pos h3]; simp
        · rw [if_neg h3]
          by_cases h4 : wl.length ≠ raws.length
          · rw [if_pos h4]; simp
          · rw [if_neg h4]
            simp only [true_and]
            exact addEdgesLoop_layers { s with weighted := true } _ _ _ (by rw [hz]; simp; omega) hm
              (fun w hw => Or.inl rfl) l

/-- layers newly registered by one call: those of an accepted insertion, nothing otherwise -/
def insertedLayers (s : Store) (op : Op) : List Layer :=
  match op with
  | .addEdge raw l w md => if (addEdge s raw l w md).2 = Out.ok then [l] else []
  | .addEdges raws ls ws mds => if (addEdges s raws ls ws mds).2 = Out.ok then (raws.zip ls).map (·.2) else []
  | _ => []

theorem step_layers (s : Store) (op : Op) (h : Inv s) (l : Layer) :
    l ∈ (step s op).1.layers ↔ l ∈ s.layers ∨ l ∈ insertedLayers s op := by
  cases op with
  | addEdge raw l0 w md =>
    simp only [step, insertedLayers, (addEdge_layers s raw l0 w md).1]
    split
    · rw [mem_addLayer]; simp; exact or_comm
    · simp
  | addEdges raws ls ws mds =>
    simp only [step, insertedLayers]
    rw [addEdges_layers]
    split
    · rename_i hok; simp [hok]
    · rename_i hok; simp [hok]
  | removeNode n keep => simp only [step, insertedLayers, removeNode_layers s n keep h]; simp
  | removeEdge raw l0 => simp only [step, insertedLayers, removeEdge_layers]; simp
  | addNode n md => simp only [step, insertedLayers, (addNode_fields s n md).2.2.2.2.2.2.2]; simp
  | addNodes ns mds =>
    simp only [step, insertedLayers, List.not_mem_nil, or_false]
    have : (addNodes s ns mds).1.layers = s.layers := by
      have key : ∀ (f : Node → Option Meta) (ns : List Node) (s : Store),
          (ns.foldl (fun s n => addNode s n (f n)) s).layers = s.layers := by
        intro f ns
        induction ns with
        | nil => intro s; rfl
        | cons n ns ih => intro s; simp only [List.foldl_cons]; rw [ih, (addNode_fields s n _).2.2.2.2.2.2.2]
      unfold addNodes
      split
      · exact key (fun _ => none) ns s
      · split
        · rename_i d _; exact key (fun n => get? d n) ns s
        · rfl
    rw [this]
  | setWeight raw l0 w =>
    simp only [step, insertedLayers, List.not_mem_nil, or_false]
    have : (setWeight s raw l0 w).1.layers = s.layers := by unfold setWeight; split <;> (try split) <;> rfl
    rw [this]
  | setHMeta hm => simp [step, insertedLayers, setHMeta]
  | setAttrH k v => simp [step, insertedLayers, setAttrH]
  | setLayerMeta l0 v => simp [step, insertedLayers, setLayerMeta, setAttrH]
  | setDatasetMeta v => simp [step, insertedLayers, setDatasetMeta, setAttrH]
  | setAttrNode n k v =>
    simp only [step, insertedLayers, List.not_mem_nil, or_false]
    have : (setAttrNode s n k v).1.layers = s.layers := by unfold setAttrNode; split <;> rfl
    rw [this]
  | delAttrNode n k =>
    simp only [step, insertedLayers, List.not_mem_nil, or_false]
    have : (delAttrNode s n k).1.layers = s.layers := by unfold delAttrNode; split <;> (try split) <;> rfl
    rw [this]
  | setAttrEdge raw l0 k v =>
    simp only [step, insertedLayers, List.not_mem_nil, or_false]
    have : (setAttrEdge s raw l0 k v).1.layers = s.layers := by unfold setAttrEdge; split <;> (try split) <;> rfl
    rw [this]
  | delAttrEdge raw l0 k =>
    simp only [step, insertedLayers, List.not_mem_nil, or_false]
    have : (delAttrEdge s raw l0 k).1.layers = s.layers := by
      unfold delAttrEdge; split <;> (try split) <;> (try split) <;> rfl
    rw [this]

/-- all layers registered along a history -/
def insertedRun (s : Store) : List Op → List Layer
  | [] => []
  | op :: ops => insertedLayers s op ++ insertedRun (step s op).1 ops

theorem run_layers (s : Store) (ops : List Op) (h : Inv s) (hw : ∀ op ∈ ops, op.WF) (l : Layer) :
    l ∈ (run s ops).layers ↔ l ∈ s.layers ∨ l ∈ insertedRun s ops := by
  induction ops generalizing s with
  | nil => simp [run, insertedRun]
  | cons op ops ih =>
    have h1 := step_inv s op h (hw op List.mem_cons_self)
    have := ih (step s op).1 h1 (fun o ho => hw o (List.mem_cons_of_mem _ ho))
    simp only [run, List.foldl_cons, insertedRun, List.mem_append] at this ⊢
    rw [this, step_layers s op h l]
    exact or_assoc

end C04
