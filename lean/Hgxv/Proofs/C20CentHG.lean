import Hgxv.Proofs.C20Cent
import Hgxv.Proofs.C20Reads
import Hgxv.Proofs.C20
/-! `closeness` / `betweenness` (`Model/C20Cent.lean`) and the hypergraph (core Lean only): adjacency of the two projections in
terms of the hypergraph; both routines are carried along by an injective relabelling of the vertices of ANY graph. -/
namespace C20
variable {V : Type} [DecidableEq V]

theorem adjacent_iff (g : Graph V) (u v : V) : adjacent g u v = true ↔ (u, v) ∈ g.edges ∨ (v, u) ∈ g.edges := by
  unfold adjacent
  rw [List.any_eq_true]
  constructor
  · rintro ⟨⟨e1, e2⟩, he, h⟩
    simp only [decide_eq_true_eq] at h
    rcases h with ⟨rfl, rfl⟩ | ⟨rfl, rfl⟩
    · exact Or.inl he
    · exact Or.inr he
  · rintro (h | h)
    · exact ⟨(u, v), h, by simp⟩
    · exact ⟨(v, u), h, by simp⟩

/-- adjacency in the s-line graph in terms of the hypergraph: the vertices `i ≠ j` are neighbours iff the hyperedges number
`i` and `j` are `linked` (share at least `max(1, s)` nodes; the smaller index first, as `line_graph` evaluates it) -/
theorem mem_nbrs_lineGraph {α : Type} [DecidableEq α] (srt : List α → List α) (H : HG α) (s i j : Nat) :
    j ∈ nbrs (lineGraph srt H s) i ↔
      j < H.edges.length ∧ j ≠ i ∧ ∃ a b, (H.edges.map srt)[i]? = some a ∧ (H.edges.map srt)[j]? = some b ∧
        (if i < j then linked s a b else linked s b a) = true := by
  unfold nbrs
  rw [List.mem_filter]
  simp only [decide_eq_true_eq, adjacent_iff]
  show j ∈ List.range H.edges.length ∧ j ≠ i ∧ ((j, i) ∈ lineEdges s (idTable srt H.edges) ∨ (i, j) ∈ lineEdges s (idTable srt H.edges)) ↔ _
  rw [List.mem_range, mem_lineEdges_idTable, mem_lineEdges_idTable]
  constructor
  · rintro ⟨h1, h2, ⟨hlt, a, b, ha, hb, hl⟩ | ⟨hlt, a, b, ha, hb, hl⟩⟩
    · exact ⟨h1, h2, b, a, hb, ha, by rw [if_neg (by omega)]; exact hl⟩
    · exact ⟨h1, h2, a, b, ha, hb, by rw [if_pos hlt]; exact hl⟩
  · rintro ⟨h1, h2, a, b, ha, hb, hl⟩
    refine ⟨h1, h2, ?_⟩
    by_cases hlt : i < j
    · rw [if_pos hlt] at hl; exact Or.inr ⟨hlt, a, b, ha, hb, hl⟩
    · rw [if_neg hlt] at hl; exact Or.inl ⟨by omega, b, a, hb, ha, hl⟩
theorem mem_zip_range {β : Type} (l : List β) (j : Nat) (e : β) :
    (j, e) ∈ (List.range l.length).zip l ↔ l[j]? = some e := by
  constructor
  · intro h
    obtain ⟨i, hi⟩ := List.mem_iff_getElem?.mp h
    rw [List.getElem?_zip_eq_some] at hi
    obtain ⟨h1, h2⟩ := hi
    obtain ⟨hlt, he⟩ := List.getElem?_eq_some_iff.mp h1
    simp at he
    subst he
    exact h2
  · intro h
    apply List.mem_iff_getElem?.mpr
    refine ⟨j, ?_⟩
    rw [List.getElem?_zip_eq_some]
    have hlt := (List.getElem?_eq_some_iff.mp h).1
    exact ⟨by simp [hlt], h⟩

/-- adjacency in the bipartite projection in terms of the hypergraph: the hyperedge vertex `E<j>` is a neighbour of the node
vertex `N<i>` iff hyperedge number `j` has a member whose position in `get_nodes()` is `i` -/
theorem mem_nbrs_bipGraph {α : Type} [DecidableEq α] (srt : List α → List α) (H : HG α) (i j : Nat) :
    nameE j ∈ nbrs (bipGraph srt H) (nameN i) ↔
      ∃ e x, H.edges[j]? = some e ∧ x ∈ srt e ∧ H.nodes.idxOf x = i := by
  unfold nbrs
  rw [List.mem_filter]
  simp only [decide_eq_true_eq, adjacent_iff]
  have hedge : ∀ a b, (a, b) ∈ (bipGraph srt H).edges ↔
      ∃ q e x, H.edges[q]? = some e ∧ x ∈ srt e ∧ a = nameE q ∧ b = nameN (H.nodes.idxOf x) := by
    intro a b
    simp only [bipGraph, bipEdges, List.mem_flatMap, List.mem_map, Prod.mk.injEq]
    constructor
    · rintro ⟨⟨q, e⟩, hq, x, hx, rfl, rfl⟩
      exact ⟨q, e, x, (mem_zip_range H.edges q e).mp hq, hx, rfl, rfl⟩
    · rintro ⟨q, e, x, hq, hx, rfl, rfl⟩
      exact ⟨(q, e), (mem_zip_range H.edges q e).mpr hq, x, hx, rfl, rfl⟩
  rw [hedge, hedge]
  constructor
  · rintro ⟨_, _, ⟨q, e, x, hq, hx, h1, h2⟩ | ⟨q, e, x, hq, hx, h1, h2⟩⟩
    · rw [nameE_inj h1]; exact ⟨e, x, hq, hx, (nameN_inj h2).symm⟩
    · exact absurd h1 (nameN_ne_nameE i q)
  · rintro ⟨e, x, hq, hx, hi⟩
    have hlt := (List.getElem?_eq_some_iff.mp hq).1
    refine ⟨?_, fun h => nameN_ne_nameE i j h.symm, Or.inl ⟨j, e, x, hq, hx, rfl, by rw [hi]⟩⟩
    simp only [bipGraph, List.mem_append, List.mem_map, List.mem_range]
    exact Or.inr ⟨j, hlt, rfl⟩
/-- relabelling of a graph -/
def Graph.map {W : Type} (f : V → W) (g : Graph V) : Graph W :=
  { verts := g.verts.map f, edges := g.edges.map fun e => (f e.1, f e.2) }

section Relabel
variable {W : Type} [DecidableEq W] (f : V → W) (hf : Function.Injective f)
include hf

theorem adjacent_map (g : Graph V) (u v : V) : adjacent (g.map f) (f u) (f v) = adjacent g u v := by
  unfold adjacent Graph.map
  simp only [List.any_map]
  congr 1
  funext e
  simp only [Function.comp_def, hf.eq_iff]

theorem nbrs_map (g : Graph V) (v : V) : nbrs (g.map f) (f v) = (nbrs g v).map f := by
  unfold nbrs
  show (g.verts.map f).filter _ = _
  rw [List.filter_map]
  congr 1
  apply List.filter_congr
  intro u _
  simp only [Function.comp_def, adjacent_map f hf, hf.ne_iff]

theorem walkCount_map (g : Graph V) (s : V) (k : Nat) (v : V) :
    walkCount (g.map f) (f s) k (f v) = walkCount g s k v := by
  induction k generalizing v with
  | zero =>
    simp only [walkCount]
    have : f v ∈ (g.map f).verts ↔ v ∈ g.verts := mem_map_inj hf v g.verts
    simp only [hf.eq_iff, this]
  | succ k ih =>
    simp only [walkCount]
    have : f v ∈ (g.map f).verts ↔ v ∈ g.verts := mem_map_inj hf v g.verts
    simp only [this, nbrs_map f hf, List.map_map]
    congr 2
    apply List.map_congr_left
    intro u _
    exact ih u

theorem distSigma_map (g : Graph V) (s v : V) :
    distSigma (levels (g.map f) (f s)) (f v) = distSigma (levels g s) v := by
  rw [distSigma_levels, distSigma_levels]
  show (List.range (g.verts.map f).length).findSome? _ = _
  rw [List.length_map]
  congr 1
  funext k
  rw [walkCount_map f hf]

/-- closeness is carried along by an injective relabelling of the vertices -/
theorem closeness_map (g : Graph V) (v : V) : closeness (g.map f) (f v) = closeness g v := by
  unfold closeness
  have h1 : (g.map f).verts = g.verts.map f := rfl
  simp only [h1, List.filterMap_map, Function.comp_def, distSigma_map f hf, List.length_map]

theorem pairDep_map (g : Graph V) (s v t : V) :
    pairDep (levels (g.map f) (f s)) (levels (g.map f) (f v)) (f v) (f t) = pairDep (levels g s) (levels g v) v t := by
  unfold pairDep
  rw [distSigma_map f hf, distSigma_map f hf, distSigma_map f hf]

theorem filter_ne_map (l : List V) (v : V) : (l.map f).filter (· ≠ f v) = (l.filter (· ≠ v)).map f := by
  rw [List.filter_map]
  congr 1
  apply List.filter_congr
  intro u _
  simp only [Function.comp_def, hf.ne_iff]

/-- betweenness is carried along by an injective relabelling of the vertices -/
theorem betweenness_map (g : Graph V) (v : V) : betweenness (g.map f) (f v) = betweenness g v := by
  unfold betweenness
  have h1 : (g.map f).verts = g.verts.map f := rfl
  simp only [h1, filter_ne_map f hf, List.map_map, Function.comp_def, pairDep_map f hf, List.length_map]

end Relabel
end C20
