import Hgxv.Proofs.C08Hist
import Hgxv.Proofs.C01Shrink
/-! # C08's own history model ↔ C01's abstract `Spec` (core Lean only)

`Hgxv/Model/C08Hist.lean` has a small content model of its own (`Hist.Content` = node listing + hyperedge listing, set
semantics, no weights, no metadata, no ids).  `contentOf : C01.Spec → Hist.Content` forgets weights and metadata of the
abstract hypergraph of the full model.  Operation by operation, an ACCEPTED call of `C01.Spec` is the `Hist` operation on
the forgotten content - same listings, same listing ORDER:

* `add_node` (`addNode_content`), `add_edge` with any weight / metadata arguments (`addEdge_content`),
  `remove_edge` (`removeEdge_content`, rejected exactly when `Hist.removeEdge` is `none`), `clear`,
* `remove_node(n, keep_edges)` (`removeNode_content`): the verdict-threaded loops of `Spec.removeNode` (`seqOps`) are the
  plain folds of `Hist.removeNode`; under `SWF` (what every abstract state of a history satisfies, `C01.abs_swf`) the call
  is rejected exactly when `Hist.removeNode` is `none`.

Differences that remain (see notes/C08.md): `Hist.Op.copy` APPENDS an object while `C01.Cmd.copy i j` overwrites slot `j`;
`Hist.sub` (`subhypergraph`) builds a new object and has no single C01 operation; `Hist.run` ends at a rejected call
(`none`) while a rejected C01 call leaves the state as it is; C01 has batched calls, weights and metadata. -/
namespace C08
namespace Link
open AL

/-- forget weights and metadata: `get_nodes()` / `get_edges()` of the abstract hypergraph -/
def contentOf (a : C01.Spec) : Hist.Content := { nodes := keys a.nodes, es := keys a.edges }

theorem insSorted_eq (x : Nat) (l : List Nat) : Hist.insSorted x l = C01.insertSorted x l := by
  induction l with
  | nil => rfl
  | cons b t ih => simp only [Hist.insSorted, C01.insertSorted, ih]

theorem sortL_eq (l : List Nat) : Hist.sortL l = C01.canon l := by
  induction l with
  | nil => rfl
  | cons x t ih =>
    show Hist.insSorted x (Hist.sortL t) = C01.insertSorted x (C01.canon t)
    rw [ih, insSorted_eq]

theorem mem_keys_iff' {α β : Type} [DecidableEq α] (l : List (α × β)) (k : α) :
    k ∈ keys l ↔ (get? l k).isSome = true := C01.mem_keys_iff l k

/-! ## nodes -/

theorem touchNode_content (a : C01.Spec) (n : Nat) :
    contentOf (C01.Spec.touchNode a n) = Hist.addNode (contentOf a) n := by
  unfold C01.Spec.touchNode Hist.addNode
  by_cases hn : (get? a.nodes n).isSome = true
  · have : n ∈ (contentOf a).nodes := (mem_keys_iff' _ _).mpr hn
    simp only [hn, if_true, this]
  · have hnn : get? a.nodes n = none := by simpa using hn
    have : n ∉ (contentOf a).nodes := fun h => hn ((mem_keys_iff' _ _).mp h)
    simp only [hn, if_false, this, Bool.false_eq_true]
    simp only [contentOf, keys_set_of_not_mem _ _ _ hnn]

theorem keys_set_present {α β : Type} [DecidableEq α] (l : List (α × β)) (k : α) (v : β)
    (h : (get? l k).isSome = true) : keys (AL.set l k v) = keys l := keys_set_of_mem l k v h

/-- `add_node(n, metadata)` -/
theorem addNode_content (a : C01.Spec) (n : Nat) (md : Option C01.Meta) :
    contentOf (C01.Spec.addNode a n md) = Hist.addNode (contentOf a) n := by
  rw [← touchNode_content]
  unfold C01.Spec.addNode
  have hp : (get? (C01.Spec.touchNode a n).nodes n).isSome = true := by
    unfold C01.Spec.touchNode
    by_cases hn : (get? a.nodes n).isSome = true
    · simp only [hn, if_true]
    · simp only [hn, if_false, Bool.false_eq_true]; simp
  generalize C01.Spec.touchNode a n = b at hp
  simp only []
  split
  · simp only [contentOf, keys_set_present _ _ _ hp]
  · rfl

theorem foldl_touch_content (e : List Nat) : ∀ a : C01.Spec,
    contentOf (e.foldl C01.Spec.touchNode a) = Hist.addNodes (contentOf a) e := by
  induction e with
  | nil => intro a; rfl
  | cons x t ih =>
    intro a
    simp only [List.foldl_cons, Hist.addNodes]
    rw [ih, touchNode_content]
    rfl

/-! ## `add_edge`, `remove_edge`, `clear` -/

/-- an accepted `add_edge(raw, weight, metadata)` - whatever the two optional arguments are -/
theorem addEdge_content (a : C01.Spec) (raw : List Nat) (w : Option Int) (md : Option C01.Meta)
    (hok : (C01.Spec.addEdge a raw w md).2 = .ok) :
    contentOf (C01.Spec.addEdge a raw w md).1 = Hist.addEdge (contentOf a) raw := by
  unfold C01.Spec.addEdge at hok ⊢
  unfold Hist.addEdge
  rw [sortL_eq]
  by_cases hrej : (!a.weighted && w.isSome && w != some C01.one) = true
  · rw [if_pos hrej] at hok; cases hok
  · rw [if_neg hrej]
    cases hg : get? a.edges (C01.canon raw) with
    | none =>
      have hne : C01.canon raw ∉ (contentOf a).es := fun h => by
        have := (mem_keys_iff' _ _).mp h; rw [hg] at this; cases this
      simp only [hg, hne, if_false]
      rw [foldl_touch_content]
      simp only [contentOf, keys_set_of_not_mem _ _ _ hg]
    | some p =>
      obtain ⟨w0, md0⟩ := p
      have hin : C01.canon raw ∈ (contentOf a).es := (mem_keys_iff' _ _).mpr (by rw [hg]; rfl)
      simp only [hg, hin, if_true]
      simp only [contentOf, keys_set_present _ _ _ (show (get? a.edges (C01.canon raw)).isSome = true by rw [hg]; rfl)]

/-- an unweighted hypergraph accepts `add_edge(raw)` without a weight -/
theorem addEdge_ok (a : C01.Spec) (raw : List Nat) (md : Option C01.Meta) :
    (C01.Spec.addEdge a raw none md).2 = .ok := by
  unfold C01.Spec.addEdge
  simp only [Option.isSome_none, Bool.and_false, Bool.false_and, Bool.false_eq_true, if_false]
  split <;> rfl

/-- `remove_edge(raw)`: KeyError exactly when `Hist.removeEdge` is `none`, else the same listing -/
theorem removeEdge_content (a : C01.Spec) (raw : List Nat) :
    Hist.removeEdge (contentOf a) raw =
      if (C01.Spec.removeEdge a raw).2 = .ok then some (contentOf (C01.Spec.removeEdge a raw).1) else none := by
  unfold C01.Spec.removeEdge Hist.removeEdge
  rw [sortL_eq]
  by_cases hp : (get? a.edges (C01.canon raw)).isSome = true
  · have hin : C01.canon raw ∈ (contentOf a).es := (mem_keys_iff' _ _).mpr hp
    simp only [hp, if_true, hin]
    congr 1
    simp only [contentOf, C01.keys_del]
    congr 1
    apply List.filter_congr
    intro e _
    by_cases he : e = C01.canon raw <;> simp [he]
  · have hne : C01.canon raw ∉ (contentOf a).es := fun h => hp ((mem_keys_iff' _ _).mp h)
    simp [hp, hne]

theorem clear_content (a : C01.Spec) : contentOf (C01.Spec.apply a .clear).1 = Hist.clear (contentOf a) := rfl

/-! ## `remove_node` -/

/-- a verdict-threaded loop that was accepted is the plain fold on the content -/
theorem seqOps_content {α : Type} (f : C01.Spec → α → C01.Spec × C01.Out) (g : Hist.Content → α → Hist.Content)
    (hstep : ∀ a x, (f a x).2 = .ok → contentOf (f a x).1 = g (contentOf a) x) :
    ∀ (xs : List α) (a a' : C01.Spec), C01.seqOps f a xs = (a', .ok) → contentOf a' = xs.foldl g (contentOf a) := by
  intro xs
  induction xs with
  | nil =>
    intro a a' h
    simp only [C01.seqOps, Prod.mk.injEq, and_true] at h
    rw [h]; rfl
  | cons x t ih =>
    intro a a' h
    have hs := hstep a x
    simp only [C01.seqOps] at h
    generalize hr : f a x = r at h hs
    obtain ⟨a1, o⟩ := r
    cases o with
    | ok =>
      have hs' := hs rfl
      simp only at h hs'
      rw [List.foldl_cons, ← hs']
      exact ih a1 a' h
    | rej => simp at h

theorem shrinkInto_content (n : Nat) (a : C01.Spec) (e : List Nat) (hok : (C01.Spec.shrinkInto n a e).2 = .ok) :
    contentOf (C01.Spec.shrinkInto n a e).1 = Hist.addEdge (contentOf a) (Hist.dropNode n e) := by
  have hd : Hist.dropNode n e = e.filter (· ≠ n) := by
    unfold Hist.dropNode
    apply List.filter_congr
    intro y _
    by_cases hy : y = n <;> simp [hy]
  rw [hd]
  exact addEdge_content a _ _ _ hok

/-- the loop of `remove_edges` on the content: the listed keys go, nothing else moves -/
theorem foldl_dropKey (rs : List (List Nat)) : ∀ c : Hist.Content,
    rs.foldl (fun (c : Hist.Content) r => { c with es := c.es.filter (fun e' => e' != C01.canon r) }) c =
      { c with es := c.es.filter (fun e' => decide (e' ∉ rs.map C01.canon)) } := by
  induction rs with
  | nil =>
    intro c
    have : c.es.filter (fun e' => decide (e' ∉ ([] : List (List Nat)).map C01.canon)) = c.es :=
      List.filter_eq_self.mpr (by simp)
    simp only [List.foldl_nil]
    rw [this]
  | cons r t ih =>
    intro c
    simp only [List.foldl_cons, ih, List.filter_filter, List.map_cons, List.mem_cons, not_or]
    congr 1
    apply List.filter_congr
    intro e _
    by_cases h1 : e = C01.canon r <;> by_cases h2 : e ∈ t.map C01.canon <;> simp [h1, h2]

theorem removeEdge_step (a : C01.Spec) (r : List Nat) (hok : (C01.Spec.removeEdge a r).2 = .ok) :
    contentOf (C01.Spec.removeEdge a r).1 =
      { contentOf a with es := (contentOf a).es.filter (fun e' => e' != C01.canon r) } := by
  have := removeEdge_content a r
  rw [if_pos hok] at this
  unfold Hist.removeEdge at this
  rw [sortL_eq] at this
  split at this
  · exact (Option.some.inj this).symm
  · cases this

/-- the hyperedges after the re-insertion loop of `keep_edges=True`: the old ones and the shrunk ones -/
theorem mem_es_keepLoop (x : Nat) (inc : List Edge) : ∀ (c : Hist.Content) (e : Edge),
    e ∈ (inc.foldl (fun c e => Hist.addEdge c (Hist.dropNode x e)) c).es →
      e ∈ c.es ∨ ∃ e' ∈ inc, e = Hist.sortL (Hist.dropNode x e') := by
  induction inc with
  | nil => intro c e h; exact Or.inl h
  | cons a t ih =>
    intro c e h
    rcases ih _ e h with h1 | ⟨e', he', h1⟩
    · rw [Hist.es_addEdge] at h1
      split at h1
      · exact Or.inl h1
      · rcases List.mem_append.mp h1 with h2 | h2
        · exact Or.inl h2
        · exact Or.inr ⟨a, List.mem_cons_self, by simpa using h2⟩
    · exact Or.inr ⟨e', List.mem_cons_of_mem _ he', h1⟩

/-- **`remove_node(n, keep_edges)`, accepted**: the content of the result is `Hist.removeNode` of the content -/
theorem removeNode_content (a a' : C01.Spec) (ha : C01.SWF a) (n : Nat) (keep : Bool)
    (hok : C01.Spec.removeNode a n keep = (a', .ok)) :
    Hist.removeNode (contentOf a) n keep = some (contentOf a') := by
  unfold C01.Spec.removeNode at hok
  by_cases hn : (get? a.nodes n).isSome = true
  · simp only [hn, Bool.not_true, Bool.false_eq_true, if_false] at hok
    have hin : n ∈ (contentOf a).nodes := (mem_keys_iff' _ _).mpr hn
    -- phase 1: the re-insertion loop
    generalize h1 : (if keep = true then C01.seqOps (C01.Spec.shrinkInto n) a (C01.Spec.incidentKeys a n)
      else (a, C01.Out.ok)) = r1 at hok
    obtain ⟨a1, o1⟩ := r1
    cases o1 with
    | rej => simp at hok
    | ok =>
      simp only at hok
      generalize h2 : C01.Spec.removeEdges a1 (C01.Spec.incidentKeys a n) = r2 at hok
      obtain ⟨a2, o2⟩ := r2
      cases o2 with
      | rej => simp at hok
      | ok =>
        simp only [Prod.mk.injEq, and_true] at hok
        have hinc : C01.Spec.incidentKeys a n = (contentOf a).es.filter (fun e => decide (n ∈ e)) := rfl
        have hc1 : contentOf a1 = (if keep = true then
            ((contentOf a).es.filter (fun e => decide (n ∈ e))).foldl
              (fun c e => Hist.addEdge c (Hist.dropNode n e)) (contentOf a) else contentOf a) := by
          cases keep with
          | false => simp only [Bool.false_eq_true, if_false, Prod.mk.injEq, and_true] at h1 ⊢; rw [h1]
          | true =>
            simp only [if_true] at h1 ⊢
            rw [← hinc]
            exact seqOps_content (C01.Spec.shrinkInto n) _ (shrinkInto_content n) _ a a1 h1
        -- phase 2: the removal loop
        have hc2 : contentOf a2 = { contentOf a1 with
            es := (contentOf a1).es.filter (fun e' => decide (e' ∉ (C01.Spec.incidentKeys a n).map C01.canon)) } := by
          unfold C01.Spec.removeEdges at h2
          split at h2
          · rw [← foldl_dropKey]
            exact seqOps_content C01.Spec.removeEdge _ removeEdge_step _ a1 a2 h2
          · simp at h2
        have hcanon : (C01.Spec.incidentKeys a n).map C01.canon = C01.Spec.incidentKeys a n :=
          C01.map_canon_id _ (fun e he => (ha.key e ((C01.mem_spec_incidentKeys a n e).mp he).1).2.1)
        -- among the keys after phase 1, the incident keys of `a` are exactly those containing `n`
        have hmem : ∀ e ∈ (contentOf a1).es, (e ∈ C01.Spec.incidentKeys a n ↔ n ∈ e) := by
          intro e he
          constructor
          · intro h; exact ((C01.mem_spec_incidentKeys a n e).mp h).2
          · intro hne
            have hold : e ∈ (contentOf a).es := by
              rw [hc1] at he
              cases keep with
              | false => simpa using he
              | true =>
                simp only [if_true] at he
                rcases mem_es_keepLoop n _ _ e he with h | ⟨e', _, h⟩
                · exact h
                · exfalso
                  rw [h, Hist.mem_sortL] at hne
                  simp [Hist.dropNode] at hne
            exact (C01.mem_spec_incidentKeys a n e).mpr ⟨(mem_keys_iff' _ _).mp hold, hne⟩
        unfold Hist.removeNode
        rw [if_pos hin]
        congr 1
        rw [← hok]
        have hnodes : contentOf { a2 with nodes := C01.del a2.nodes n } =
            { nodes := (contentOf a2).nodes.filter (fun y => y != n), es := (contentOf a2).es } := by
          simp only [contentOf, C01.keys_del]
          congr 1
          apply List.filter_congr
          intro y _
          by_cases hy : y = n <;> simp [hy]
        rw [hnodes, hc2, hcanon, hc1]
        simp only []
        rw [Option.some.injEq, Hist.Content.mk.injEq]
        refine ⟨rfl, ?_⟩
        apply List.filter_congr
        intro e he
        have := hmem e (by rw [hc1]; exact he)
        by_cases hne : n ∈ e
        · simp [hne, this.mpr hne]
        · have hni : e ∉ C01.Spec.incidentKeys a n := fun h => hne (this.mp h)
          simp [hne, hni]
  · have hnf : (get? a.nodes n).isSome = false := by simpa using hn
    simp [hnf] at hok

/-- `remove_node` on an abstract state of a history: rejected exactly when `Hist.removeNode` is `none` (absent node) -/
theorem removeNode_verdict (a : C01.Spec) (ha : C01.SWF a) (n : Nat) (keep : Bool) :
    Hist.removeNode (contentOf a) n keep =
      if (C01.Spec.removeNode a n keep).2 = .ok then some (contentOf (C01.Spec.removeNode a n keep).1) else none := by
  by_cases hn : (get? a.nodes n).isSome = true
  · have hacc : ∃ a', C01.Spec.removeNode a n keep = (a', .ok) := by
      cases keep with
      | false => obtain ⟨a', h, _⟩ := C01.spec_removeNode_drop a ha n hn; exact ⟨a', h⟩
      | true => obtain ⟨a', h, _⟩ := C01.spec_removeNode_keep a ha n hn; exact ⟨a', h⟩
    obtain ⟨a', h⟩ := hacc
    rw [removeNode_content a a' ha n keep h, h]
    simp
  · have hnf : (get? a.nodes n).isSome = false := by simpa using hn
    have hne : n ∉ (contentOf a).nodes := fun h => hn ((mem_keys_iff' _ _).mp h)
    have : C01.Spec.removeNode a n keep = (a, .rej) := by unfold C01.Spec.removeNode; simp [hnf]
    rw [this]
    simp [Hist.removeNode, hne]

end Link
end C08
