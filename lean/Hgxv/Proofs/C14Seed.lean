import Hgxv.Proofs.C14Meta
import Hgxv.Model.C14Seed
import Hgxv.Proofs.C14Trace
/-! # C14 (second extension round): lemmas for the seeded programs and the object store with tables (core Lean) -/
namespace C14

/-- the draws of the loop never exceed the fuel -/
theorem drawUntil_length {σ} (g : RNG σ) (pop : List Nat) (size k : Nat) :
    ∀ (f : Nat) (acc : List Edge) (s : σ), (drawUntil g pop size k f acc s).1.length ≤ f := by
  intro f
  induction f with
  | zero => intro acc s; simp [drawUntil]
  | succ f ih =>
    intro acc s
    unfold drawUntil
    split
    · simp only [List.length_cons]
      have := ih (insNew acc (sortE (g.sample s pop size).1)) (g.sample s pop size).2
      omega
    · simp

/-- a run that returned within `f` draws is the same run with one more unit of fuel -/
theorem drawUntil_succ {σ} (g : RNG σ) (pop : List Nat) (size k : Nat) :
    ∀ (f : Nat) (acc : List Edge) (s : σ), consumedExactly k acc (drawUntil g pop size k f acc s).1 = true →
      drawUntil g pop size k (f + 1) acc s = drawUntil g pop size k f acc s := by
  intro f
  induction f with
  | zero =>
    intro acc s h
    simp only [drawUntil, consumedExactly, decide_eq_true_eq] at h
    have : ¬ acc.length < k := by omega
    simp [drawUntil, this]
  | succ f ih =>
    intro acc s h
    by_cases hlt : acc.length < k
    · rw [drawUntil.eq_def g pop size k (f + 1) acc s] at h
      simp only [hlt, if_true, consumedExactly, decide_true, Bool.true_and] at h
      have e := ih _ _ h
      rw [drawUntil.eq_def g pop size k (f + 1 + 1) acc s, drawUntil.eq_def g pop size k (f + 1) acc s]
      simp only [hlt, if_true]
      rw [e]
    · rw [drawUntil.eq_def g pop size k (f + 1 + 1) acc s, drawUntil.eq_def g pop size k (f + 1) acc s]
      simp [hlt]

theorem drawUntil_mono {σ} (g : RNG σ) (pop : List Nat) (size k : Nat) (f : Nat) (acc : List Edge) (s : σ)
    (h : consumedExactly k acc (drawUntil g pop size k f acc s).1 = true) :
    ∀ d, drawUntil g pop size k (f + d) acc s = drawUntil g pop size k f acc s := by
  intro d
  induction d with
  | zero => rfl
  | succ d ih =>
    have := drawUntil_succ g pop size k (f + d) acc s (by rw [ih]; exact h)
    rw [← Nat.add_assoc, this, ih]


/-- the draws of the loop are a prefix of the generator's stream: as many as the pure loop takes from it -/
theorem drawUntil_eq {σ} (g : RNG σ) (pop : List Nat) (size k : Nat) :
    ∀ (f : Nat) (acc : List Edge) (s : σ), (drawUntil g pop size k f acc s).1
      = (drawN g pop size f s).1.take (collectUsed k acc (drawN g pop size f s).1) := by
  intro f
  induction f with
  | zero => intro acc s; simp [drawUntil, drawN]
  | succ f ih =>
    intro acc s
    by_cases hlt : acc.length < k
    · rw [drawUntil.eq_def g pop size k (f + 1) acc s]
      simp only [hlt, if_true, drawN, collectUsed, List.take_succ_cons]
      rw [ih]
    · rw [drawUntil.eq_def g pop size k (f + 1) acc s]
      simp [hlt, drawN, collectUsed]

/-- `copy()` allocates an object id that is not in use -/
theorem freshIdM_not_mem (H : HeapM) : freshIdM H ∉ AL.keys H := by
  intro h
  have := (le_foldl_max (AL.keys H) 0).2 _ h
  unfold freshIdM at this
  omega

theorem get?_freshIdM (H : HeapM) : AL.get? H (freshIdM H) = none :=
  (AL.get?_eq_none_iff H _).mpr (freshIdM_not_mem H)

end C14
