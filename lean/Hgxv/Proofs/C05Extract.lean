import Hgxv.Proofs.C05
/-! The folds the extraction functions are made of (core Lean only). -/
namespace C05
variable {κ : Type} [DecidableEq κ] [Keyed κ]
set_option linter.unusedSectionVars false

theorem foldlM_some_cons {α β : Type} (f : β → α → Option β) (b b' : β) (a : α) (l : List α)
    (h : f b a = some b') : (a :: l).foldlM f b = l.foldlM f b' := by
  simp [List.foldlM_cons, h]

theorem foldlM_none_cons {α β : Type} (f : β → α → Option β) (b : β) (a : α) (l : List α)
    (h : f b a = none) : (a :: l).foldlM f b = none := by
  simp [List.foldlM_cons, h]

/-- an invariant of every accepted step is an invariant of an accepted fold -/
theorem foldlM_inv {α β : Type} (f : β → α → Option β) (P : β → Prop)
    (hf : ∀ b a b', f b a = some b' → P b → P b') :
    ∀ (l : List α) (b r : β), P b → l.foldlM f b = some r → P r := by
  intro l
  induction l with
  | nil => intro b r hb h; simp at h; exact h ▸ hb
  | cons a l ih =>
    intro b r hb h
    cases hfa : f b a with
    | none => rw [foldlM_none_cons f b a l hfa] at h; cases h
    | some b' =>
      rw [foldlM_some_cons f b b' a l hfa] at h
      exact ih b' r (hf b a b' hfa hb) h

/-- a step that is rejected whatever the state makes the whole fold rejected -/
theorem foldlM_none_of_mem {α β : Type} (f : β → α → Option β) (a : α) (hf : ∀ b, f b a = none) :
    ∀ (l : List α) (b : β), a ∈ l → l.foldlM f b = none := by
  intro l
  induction l with
  | nil => intro b h; simp at h
  | cons x l ih =>
    intro b h
    cases hx : f b x with
    | none => exact foldlM_none_cons f b x l hx
    | some b' =>
      rw [foldlM_some_cons f b b' x l hx]
      rcases List.mem_cons.1 h with e | e
      · subst e; rw [hf b] at hx; cases hx
      · exact ih b' e

/-! ## node metadata copied from the source -/

theorem copyNodeMeta_eq (src h : Content κ) (n : Node) (md : Meta)
    (hs : AL.get? src.nodes n = some md) (hh : n ∈ nodesOf h) :
    copyNodeMeta src h n = some { h with nodes := AL.set h.nodes n md } := by
  have : AL.has h.nodes n = true := (C05AL.has_iff _ _).2 hh
  simp [copyNodeMeta, getNodeMeta, hs, setNodeMeta, this]

theorem foldCopyNodeMeta (src : Content κ) :
    ∀ (ns : List Node) (h : Content κ), (∀ n ∈ ns, n ∈ nodesOf h ∧ n ∈ nodesOf src) →
      ∃ r, ns.foldlM (copyNodeMeta src) h = some r ∧ r.weighted = h.weighted ∧ r.edges = h.edges ∧
        nodesOf r = nodesOf h ∧
        ∀ m, AL.get? r.nodes m = if m ∈ ns then AL.get? src.nodes m else AL.get? h.nodes m := by
  intro ns
  induction ns with
  | nil => intro h _; exact ⟨h, by simp⟩
  | cons n ns ih =>
    intro h hall
    obtain ⟨hnh, hns⟩ := hall n (by simp)
    obtain ⟨md, hmd⟩ := Option.isSome_iff_exists.1 ((C05AL.mem_keys_iff _ _).1 hns)
    have hstep := copyNodeMeta_eq src h n md hmd hnh
    have hkeys : nodesOf ({ h with nodes := AL.set h.nodes n md } : Content κ) = nodesOf h := by
      simp only [nodesOf]
      exact AL.keys_set_of_mem _ _ _ ((C05AL.mem_keys_iff _ _).1 hnh)
    obtain ⟨r, hr, hw, he, hk, hg⟩ := ih { h with nodes := AL.set h.nodes n md } (by
      intro m hm
      rw [hkeys]
      exact hall m (by simp [hm]))
    refine ⟨r, ?_, hw, he, hk.trans hkeys, ?_⟩
    · rw [foldlM_some_cons _ _ _ _ _ hstep]; exact hr
    · intro m
      rw [hg m]
      simp only [AL.get?_set, List.mem_cons]
      by_cases e : n = m
      · subst e; simp [hmd]
      · have : ¬ m = n := fun h => e h.symm
        simp [e, this]

/-! ## re-insertion of selected hyperedges -/

theorem weightOk_reinsert (b : Bool) (w : W) : weightOk b (if b then some w else none) = true := by
  cases b <;> simp [weightOk]

theorem reinsert_eq (src h : Content κ) (k : κ) (w : W) (md : Meta)
    (hnd : (keysOf src).Nodup) (hmem : (k, (w, md)) ∈ src.edges) (hw : h.weighted = src.weighted)
    (hunit : src.weighted = false → w = unitW) (hk : k ∉ keysOf h) :
    reinsert src h k =
      some { h with edges := h.edges ++ [(k, (w, md))], nodes := touchL h.nodes (Keyed.members k) } := by
  have hg : AL.get? src.edges k = some (w, md) := C05AL.get?_of_mem_nodup _ _ _ hnd hmem
  have hn : AL.get? h.edges k = none := (AL.get?_eq_none_iff _ _).2 hk
  simp only [reinsert, getWeight, getEdgeMeta, hg, Option.map_some, Option.bind_eq_bind, Option.bind_some,
    addEdge, hw, weightOk_reinsert, ↓reduceIte, addEdgeCore, hn, addEdgeNew, touchAll]
  cases hs : src.weighted with
  | true => simp
  | false => simp [hunit hs]

theorem reinsertBare_eq (src h : Content κ) (k : κ) (w : W) (md : Meta)
    (hnd : (keysOf src).Nodup) (hmem : (k, (w, md)) ∈ src.edges) (hw : h.weighted = src.weighted)
    (hunit : src.weighted = false → w = unitW) (hk : k ∉ keysOf h) :
    reinsertBare src h k =
      some { h with edges := h.edges ++ [(k, (w, []))], nodes := touchL h.nodes (Keyed.members k) } := by
  have hg : AL.get? src.edges k = some (w, md) := C05AL.get?_of_mem_nodup _ _ _ hnd hmem
  have hn : AL.get? h.edges k = none := (AL.get?_eq_none_iff _ _).2 hk
  simp only [reinsertBare, getWeight, hg, Option.map_some, Option.bind_eq_bind, Option.bind_some,
    addEdge, hw, weightOk_reinsert, ↓reduceIte, addEdgeCore, hn, addEdgeNew, touchAll]
  cases hs : src.weighted with
  | true => simp
  | false => simp [hunit hs]

/-- the nodes a list of entries brings in, in the order `add_edge` meets them -/
def nodesIn (L : List (κ × (W × Meta))) : List Node := L.flatMap (fun e => Keyed.members e.1)

theorem foldReinsert (src : Content κ) (hnd : (keysOf src).Nodup)
    (hunit : src.weighted = false → ∀ e ∈ src.edges, e.2.1 = unitW) :
    ∀ (L : List (κ × (W × Meta))) (h : Content κ), (∀ e ∈ L, e ∈ src.edges) → (AL.keys L).Nodup →
      (∀ k ∈ AL.keys L, k ∉ keysOf h) → h.weighted = src.weighted →
      (AL.keys L).foldlM (reinsert src) h =
        some { h with edges := h.edges ++ L, nodes := touchL h.nodes (nodesIn L) } := by
  intro L
  induction L with
  | nil => intro h _ _ _ _; simp [AL.keys, nodesIn, touchL]
  | cons e L ih =>
    intro h hsub hnodup hdisj hw
    obtain ⟨k, w, md⟩ := e
    simp only [AL.keys, List.map_cons, List.nodup_cons] at hnodup
    have hstep := reinsert_eq src h k w md hnd (hsub _ (by simp)) hw
      (fun hs => hunit hs (k, (w, md)) (hsub _ (by simp))) (hdisj k (by simp [AL.keys]))
    simp only [AL.keys, List.map_cons]
    rw [foldlM_some_cons _ _ _ _ _ hstep]
    have := ih { h with edges := h.edges ++ [(k, (w, md))], nodes := touchL h.nodes (Keyed.members k) }
      (fun e he => hsub e (by simp [he])) hnodup.2 (by
        intro k' hk'
        simp only [keysOf, C05AL.keys_append, List.mem_append, not_or]
        refine ⟨hdisj k' (by simp only [AL.keys, List.map_cons, List.mem_cons]; right; exact hk'), ?_⟩
        simp only [AL.keys, List.map_cons, List.map_nil, List.mem_singleton]
        intro e; subst e; exact hnodup.1 hk') hw
    simp only [AL.keys] at this
    rw [this]
    simp [nodesIn, touchL_append]

theorem foldReinsertBare (src : Content κ) (hnd : (keysOf src).Nodup)
    (hunit : src.weighted = false → ∀ e ∈ src.edges, e.2.1 = unitW) :
    ∀ (L : List (κ × (W × Meta))) (h : Content κ), (∀ e ∈ L, e ∈ src.edges) → (AL.keys L).Nodup →
      (∀ k ∈ AL.keys L, k ∉ keysOf h) → h.weighted = src.weighted →
      (AL.keys L).foldlM (reinsertBare src) h =
        some { h with edges := h.edges ++ L.map (fun e => (e.1, (e.2.1, []))),
                      nodes := touchL h.nodes (nodesIn L) } := by
  intro L
  induction L with
  | nil => intro h _ _ _ _; simp [AL.keys, nodesIn, touchL]
  | cons e L ih =>
    intro h hsub hnodup hdisj hw
    obtain ⟨k, w, md⟩ := e
    simp only [AL.keys, List.map_cons, List.nodup_cons] at hnodup
    have hstep := reinsertBare_eq src h k w md hnd (hsub _ (by simp)) hw
      (fun hs => hunit hs (k, (w, md)) (hsub _ (by simp))) (hdisj k (by simp [AL.keys]))
    simp only [AL.keys, List.map_cons]
    rw [foldlM_some_cons _ _ _ _ _ hstep]
    have := ih { h with edges := h.edges ++ [(k, (w, []))], nodes := touchL h.nodes (Keyed.members k) }
      (fun e he => hsub e (by simp [he])) hnodup.2 (by
        intro k' hk'
        simp only [keysOf, C05AL.keys_append, List.mem_append, not_or]
        refine ⟨hdisj k' (by simp only [AL.keys, List.map_cons, List.mem_cons]; right; exact hk'), ?_⟩
        simp only [AL.keys, List.map_cons, List.map_nil, List.mem_singleton]
        intro e; subst e; exact hnodup.1 hk') hw
    simp only [AL.keys] at this
    rw [this]
    simp [nodesIn, touchL_append]

/-! ## hyperedge metadata copied from the source -/

theorem copyEdgeMeta_eq (src h : Content κ) (k : κ) (v s : W × Meta)
    (hs : AL.get? src.edges k = some s) (hh : AL.get? h.edges k = some v) :
    copyEdgeMeta src h k = some { h with edges := AL.set h.edges k (v.1, s.2) } := by
  simp [copyEdgeMeta, getEdgeMeta, hs, setEdgeMeta, hh]

theorem foldCopyEdgeMeta (src : Content κ) :
    ∀ (ks : List κ) (h : Content κ), (∀ k ∈ ks, k ∈ keysOf h ∧ k ∈ keysOf src) →
      ∃ r, ks.foldlM (copyEdgeMeta src) h = some r ∧ r.weighted = h.weighted ∧ r.nodes = h.nodes ∧
        keysOf r = keysOf h ∧
        ∀ k, AL.get? r.edges k =
          if k ∈ ks then (AL.get? h.edges k).bind (fun v => (AL.get? src.edges k).map (fun s => (v.1, s.2)))
          else AL.get? h.edges k := by
  intro ks
  induction ks with
  | nil => intro h _; exact ⟨h, by simp⟩
  | cons k ks ih =>
    intro h hall
    obtain ⟨hkh, hks⟩ := hall k (by simp)
    obtain ⟨v, hv⟩ := Option.isSome_iff_exists.1 ((C05AL.mem_keys_iff _ _).1 hkh)
    obtain ⟨s, hs⟩ := Option.isSome_iff_exists.1 ((C05AL.mem_keys_iff _ _).1 hks)
    have hstep := copyEdgeMeta_eq src h k v s hs hv
    have hkeys : keysOf ({ h with edges := AL.set h.edges k (v.1, s.2) } : Content κ) = keysOf h := by
      simp only [keysOf]
      exact AL.keys_set_of_mem _ _ _ ((C05AL.mem_keys_iff _ _).1 hkh)
    obtain ⟨r, hr, hw, hn, hk, hg⟩ := ih { h with edges := AL.set h.edges k (v.1, s.2) } (by
      intro m hm
      rw [hkeys]
      exact hall m (by simp [hm]))
    refine ⟨r, ?_, hw, hn, hk.trans hkeys, ?_⟩
    · rw [foldlM_some_cons _ _ _ _ _ hstep]; exact hr
    · intro m
      rw [hg m]
      simp only [AL.get?_set, List.mem_cons]
      by_cases e : k = m
      · subst e; simp [hv, hs]
      · have : ¬ m = k := fun h => e h.symm
        simp [e, this]

end C05
