import Hgxv.Proofs.C06Hif2
/-! C06, HIF reader, third part: incidence records and edge records.  Core Lean only. -/
set_option linter.unusedSectionVars false
namespace C06

/-! ## fourth loop: incidence records -/

theorem hifInc2_incid (s s' : HifSt) (q : Nat × Nat) (j : Nat) (h : hifInc2 s q j = some s') :
    ∃ eu nu l, AL.get? s.etab q.1 = some eu ∧ AL.get? s.ntab q.2 = some nu ∧ AL.get? s.tmp eu = some l ∧
      s'.incid = AL.set s.incid (sort l, nu) j := by
  unfold hifInc2 at h
  cases he : AL.get? s.etab q.1 with
  | none => simp [he] at h
  | some eu =>
    cases hn : AL.get? s.ntab q.2 with
    | none => simp [he, hn] at h
    | some nu =>
      simp only [he, hn] at h
      cases hg : AL.get? s.tmp eu with
      | none => simp [hg] at h
      | some l =>
        simp only [hg] at h
        refine ⟨eu, nu, l, rfl, rfl, hg, ?_⟩
        by_cases hin : sort l ∈ s.added
        · simp only [hin, if_true] at h; cases h; rfl
        · simp only [hin, if_false] at h
          cases h1 : addEdge s.c ⟨sort l⟩ none none with
          | none => simp [h1] at h
          | some c1 => simp only [h1] at h; cases h; rfl

theorem hifIncs2_append (s : HifSt) (j : Nat) (a b : List (Nat × Nat)) :
    hifIncs2 s j (a ++ b) = match hifIncs2 s j a with
      | none => none
      | some s1 => hifIncs2 s1 (j + a.length) b := by
  induction a generalizing s j with
  | nil => simp [hifIncs2]
  | cons x t ih =>
    simp only [List.cons_append, hifIncs2, List.length_cons]
    cases hifInc2 s x j with
    | none => rfl
    | some s1 => simp only; rw [ih]; cases hifIncs2 s1 (j + 1) t <;> simp [Nat.add_assoc, Nat.add_comm 1]

theorem hifIncs2_incid_keep (s s' : HifSt) (j : Nat) (post : List (Nat × Nat)) (key : List Nat × Nat) (v : Nat)
    (h : hifIncs2 s j post = some s') (hv : AL.get? s.incid key = some v)
    (hne : ∀ q ∈ post, ∀ eu nu l, AL.get? s.etab q.1 = some eu → AL.get? s.ntab q.2 = some nu →
      AL.get? s.tmp eu = some l → (sort l, nu) ≠ key) :
    AL.get? s'.incid key = some v := by
  induction post generalizing s j with
  | nil => simp [hifIncs2] at h; subst h; exact hv
  | cons q t ih =>
    simp only [hifIncs2] at h
    cases h1 : hifInc2 s q j with
    | none => simp [h1] at h
    | some s1 =>
      simp only [h1] at h
      obtain ⟨eu, nu, l, a1, a2, a3, a4⟩ := hifInc2_incid s s1 q j h1
      obtain ⟨f1, f2, f3, _, _, _⟩ := hifInc2_frame s s1 q j h1
      apply ih s1 (j + 1) h
      · rw [a4, AL.get?_set_ne _ _ _ _ (hne q (by simp) eu nu l a1 a2 a3)]; exact hv
      · intro q' hq' eu' nu' l' b1 b2 b3
        rw [f3] at b1; rw [f1] at b2; rw [f2] at b3
        exact hne q' (by simp [hq']) eu' nu' l' b1 b2 b3

/-- **incidence records**: the last record naming (a hyperedge with this key, this node) is attached
    to the pair (key, node id) -/
theorem hif_incidence_record (d : HifDoc) (r : HifResult) (h : readHif d = some r)
    (pre post : List (Nat × Nat)) (p : Nat × Nat) (eu nu : Nat) (l : List Nat)
    (hd : d.incidences = pre ++ p :: post)
    (he : AL.get? (hifPass1 d).etab p.1 = some eu) (hn : AL.get? (hifPass1 d).ntab p.2 = some nu)
    (hl : AL.get? (hifPass1 d).tmp eu = some l)
    (hlast : ∀ q ∈ post, q.2 = p.2 → ∀ eu' l', AL.get? (hifPass1 d).etab q.1 = some eu' →
      AL.get? (hifPass1 d).tmp eu' = some l' → sort l' ≠ sort l) :
    AL.get? r.incid (sort l, nu) = some (pre.length + 1) := by
  obtain ⟨s3, s4, h3, h4, rfl⟩ := readHif_stages d r h
  obtain ⟨n1, n2, n3⟩ := hifNodes_frame (hifPass1 d) 1 d.nodes
  obtain ⟨e1, e2, e3, _, _⟩ := hifEdges_frame _ s3 1 d.edges h3
  have inv3 := Inv2_edges _ _ _ _ _ 1 d.edges (Inv2_nodes _ _ _ _ 1 d.nodes (Inv2_of_Inv1 d)) h3
  have hE : Ext (hifPass1 d).etab s3.etab := by
    intro a u ha; apply e3; rw [n1]; exact ha
  have hN : Ext (hifPass1 d).ntab s3.ntab := by
    intro a u ha; rw [e1]; exact n3 a u ha
  have hT : s3.tmp = (hifPass1 d).tmp := e2.trans n2
  rw [hd, hifIncs2_append] at h4
  cases ha : hifIncs2 s3 1 pre with
  | none => simp [ha] at h4
  | some sa =>
    simp only [ha, hifIncs2] at h4
    cases hb : hifInc2 sa p (1 + pre.length) with
    | none => simp [hb] at h4
    | some sb =>
      simp only [hb] at h4
      obtain ⟨fa1, fa2, fa3, _, _, _⟩ := hifIncs2_frame s3 sa 1 pre ha
      obtain ⟨fb1, fb2, fb3, _, _, _⟩ := hifInc2_frame sa sb p _ hb
      obtain ⟨eu0, nu0, l0, a1, a2, a3, a4⟩ := hifInc2_incid sa sb p _ hb
      rw [fa3, hE _ _ he] at a1; cases a1
      rw [fa1, hN _ _ hn] at a2; cases a2
      rw [fa2, hT, hl] at a3; cases a3
      have hset : AL.get? sb.incid (sort l, nu) = some (pre.length + 1) := by
        rw [a4, AL.get?_set_self, Nat.add_comm]
      apply hifIncs2_incid_keep sb s4 _ post _ _ h4 hset
      intro q hq eu' nu' l' b1 b2 b3 hc
      rw [fb3, fa3] at b1; rw [fb1, fa1] at b2; rw [fb2, fa2, hT] at b3
      have hc1 : sort l' = sort l := congrArg Prod.fst hc
      have hc2 : nu' = nu := congrArg Prod.snd hc
      rw [hc2] at b2
      have hq2 : q.2 = p.2 := inv3.nok.1 _ _ _ b2 (hN _ _ hn)
      have hqin : q ∈ d.incidences := by rw [hd]; simp [hq]
      obtain ⟨eu'', _, l'', c1, _, c3⟩ := (Inv1_pass1 d).seenOk q hqin
      have : eu'' = eu' := by have := hE _ _ c1; rw [b1] at this; cases this; rfl
      subst this
      rw [b3] at c3; cases c3
      exact hlast q hq hq2 _ _ c1 b3 hc1

/-! ## third loop: edge records -/

theorem get?_setEdgeMeta_other (c : Content HKey) (k k' : HKey) (m : Meta) (hne : k ≠ k') :
    AL.get? (setEdgeMeta c k m).edges k' = AL.get? c.edges k' := by
  unfold setEdgeMeta
  cases AL.get? c.edges k with
  | none => rfl
  | some old => exact AL.get?_set_ne _ _ _ _ hne

theorem get?_setEdgeMeta_self (c : Content HKey) (k : HKey) (m : Meta) (old : Int × Meta)
    (h : AL.get? c.edges k = some old) : AL.get? (setEdgeMeta c k m).edges k = some (old.1, m) := by
  unfold setEdgeMeta; rw [h]; simp

theorem mem_markAdded (added : List (List Nat)) (k x : List Nat) (h : x ∈ added) : x ∈ markAdded added k := by
  unfold markAdded; split
  · exact h
  · simp [h]

theorem self_mem_markAdded (added : List (List Nat)) (k : List Nat) : k ∈ markAdded added k := by
  unfold markAdded; split
  · assumption
  · simp

theorem hifEdges_append (s : HifSt) (i : Nat) (a b : List Nat) :
    hifEdges s i (a ++ b) = match hifEdges s i a with
      | none => none
      | some s1 => hifEdges s1 (i + a.length) b := by
  induction a generalizing s i with
  | nil => simp [hifEdges]
  | cons x t ih =>
    simp only [List.cons_append, hifEdges, List.length_cons]
    cases hifEdge s x i with
    | none => rfl
    | some s1 => simp only; rw [ih]; cases hifEdges s1 (i + 1) t <;> simp [Nat.add_assoc, Nat.add_comm 1]

/-- what one edge record does to the hyperedge table -/
theorem hifEdge_cases (s s' : HifSt) (name i : Nat) (h : hifEdge s name i = some s') :
    (∃ l c1, AL.get? s.tmp (assign s.etab name).2 = some l ∧ addEdge s.c ⟨sort l⟩ none none = some c1 ∧
        s'.c = setEdgeMeta c1 ⟨sort l⟩ (recMeta i) ∧ s'.added = markAdded s.added (sort l)) ∨
    (AL.get? s.tmp (assign s.etab name).2 = none ∧ s'.c = s.c ∧ s'.added = s.added) := by
  unfold hifEdge at h
  cases hg : AL.get? s.tmp (assign s.etab name).2 with
  | some l =>
    simp only [hg] at h
    cases h1 : addEdge s.c ⟨sort l⟩ none none with
    | none => simp [h1] at h
    | some c1 => simp only [h1] at h; cases h; exact Or.inl ⟨l, c1, rfl, h1, rfl, rfl⟩
  | none =>
    simp only [hg] at h
    split at h
    · cases h
    · cases h; exact Or.inr ⟨rfl, rfl, rfl⟩

theorem hifEdges_keep (incs : List (Nat × Nat)) (T : List (Nat × List Nat)) (doneE : List Nat) (s s' : HifSt) (i : Nat)
    (post : List Nat) (E1 : List (Nat × Nat)) (l : List Nat) (v : Int × Meta)
    (inv : Inv2 incs T doneE s) (hext : Ext E1 s.etab) (h : hifEdges s i post = some s')
    (hin : sort l ∈ s.added) (hv : AL.get? s.c.edges ⟨sort l⟩ = some v)
    (hts1 : ∀ u l', AL.get? T u = some l' → ∃ p ∈ incs, AL.get? E1 p.1 = some u)
    (hlast : ∀ n' ∈ post, ∀ eu' l', AL.get? E1 n' = some eu' → AL.get? T eu' = some l' → sort l' ≠ sort l) :
    sort l ∈ s'.added ∧ AL.get? s'.c.edges ⟨sort l⟩ = some v := by
  induction post generalizing s i doneE with
  | nil => simp [hifEdges] at h; subst h; exact ⟨hin, hv⟩
  | cons n t ih =>
    simp only [hifEdges] at h
    cases h1 : hifEdge s n i with
    | none => simp [h1] at h
    | some s1 =>
      simp only [h1] at h
      have inv1 := Inv2_edge incs T doneE s s1 n i inv h1
      obtain ⟨_, _, fe, _, _⟩ := hifEdge_frame s s1 n i h1
      have hext1 : Ext E1 s1.etab := Ext_trans hext fe
      have hstep : sort l ∈ s1.added ∧ AL.get? s1.c.edges ⟨sort l⟩ = some v := by
        rcases hifEdge_cases s s1 n i h1 with ⟨l', c1, g1, g2, g3, g4⟩ | ⟨_, g2, g3⟩
        · rw [inv.tmpEq] at g1
          -- the key of this record differs from ours
          have hne : sort l' ≠ sort l := by
            obtain ⟨p, hp, hp'⟩ := hts1 _ l' g1
            have eok' := TabOK_assign s.etab n inv.eok
            have hpn : p.1 = n :=
              eok'.1 _ _ _ (assign_stable _ _ _ _ (hext _ _ hp')) (assign_get_self s.etab n)
            rw [hpn] at hp'
            exact hlast n (by simp) _ l' hp' g1
          have hk : Kind.canon (⟨sort l'⟩ : HKey) ≠ ⟨sort l⟩ := by
            rw [canonH, sort_idem]; intro hc; exact hne (congrArg HKey.nodes hc)
          refine ⟨by rw [g4]; exact mem_markAdded _ _ _ hin, ?_⟩
          rw [g3, get?_setEdgeMeta_other _ _ _ _ (by intro hc; exact hne (congrArg HKey.nodes hc)),
            addEdge_get_other s.c c1 _ none none g2 _ hk]
          exact hv
        · rw [g2, g3]; exact ⟨hin, hv⟩
      exact ih (doneE ++ [n]) s1 (i + 1) inv1 hext1 h hstep.1 hstep.2
        (fun n' hn' => hlast n' (by simp [hn']))

/-- **edge records**: the last edge record whose incidence set has this key is that hyperedge's
    metadata in the result (weight 1) -/
theorem hif_edge_record (d : HifDoc) (r : HifResult) (h : readHif d = some r)
    (pre post : List Nat) (name eu : Nat) (l : List Nat)
    (hd : d.edges = pre ++ name :: post)
    (he : AL.get? (hifPass1 d).etab name = some eu) (hl : AL.get? (hifPass1 d).tmp eu = some l)
    (hlast : ∀ n' ∈ post, ∀ eu' l', AL.get? (hifPass1 d).etab n' = some eu' →
      AL.get? (hifPass1 d).tmp eu' = some l' → sort l' ≠ sort l) :
    AL.get? r.c.edges ⟨sort l⟩ = some (unit, recMeta (pre.length + 1)) := by
  obtain ⟨s3, s4, h3, h4, rfl⟩ := readHif_stages d r h
  obtain ⟨n1, n2, _⟩ := hifNodes_frame (hifPass1 d) 1 d.nodes
  have inv2 := Inv2_nodes _ _ _ _ 1 d.nodes (Inv2_of_Inv1 d)
  rw [hd, hifEdges_append] at h3
  cases ha : hifEdges (hifNodes (hifPass1 d) 1 d.nodes) 1 pre with
  | none => simp [ha] at h3
  | some sa =>
    simp only [ha, hifEdges] at h3
    cases hb : hifEdge sa name (1 + pre.length) with
    | none => simp [hb] at h3
    | some sb =>
      simp only [hb] at h3
      have inva := Inv2_edges _ _ _ _ _ 1 pre inv2 ha
      have invb := Inv2_edge _ _ _ sa sb name _ inva hb
      obtain ⟨_, _, fa, _, _⟩ := hifEdges_frame _ sa 1 pre ha
      obtain ⟨_, _, fb, _, _⟩ := hifEdge_frame sa sb name _ hb
      have hEa : Ext (hifPass1 d).etab sa.etab := by intro a u hau; apply fa; rw [n1]; exact hau
      have hEb : Ext (hifPass1 d).etab sb.etab := Ext_trans hEa fb
      have hasg : assign sa.etab name = (sa.etab, eu) := assign_old _ _ _ (hEa _ _ he)
      have hsb : sort l ∈ sb.added ∧ AL.get? sb.c.edges ⟨sort l⟩ = some (unit, recMeta (pre.length + 1)) := by
        rcases hifEdge_cases sa sb name _ hb with ⟨l', c1, g1, g2, g3, g4⟩ | ⟨g1, _, _⟩
        · rw [hasg, inva.tmpEq, hl] at g1; cases g1
          refine ⟨by rw [g4]; exact self_mem_markAdded _ _, ?_⟩
          have hwf1 := WF_addEdge sa.c c1 _ none none inva.wf g2
          obtain ⟨hw1, _, _⟩ := addEdge_spec sa.c c1 ⟨sort l⟩ none none g2
          have hkin : (⟨sort l⟩ : HKey) ∈ AL.keys c1.edges :=
            (addEdge_keys_iff sa.c c1 _ none none g2 _).mpr (Or.inr (by rw [canonH, sort_idem]))
          obtain ⟨old, hold⟩ := AL_get?_isSome_of_mem _ _ hkin
          have hunit : old.1 = unit := hwf1.2.2.2.2 (hw1.trans inva.unw) _ (AL_get?_mem _ _ _ hold)
          rw [g3, get?_setEdgeMeta_self _ _ _ old hold, hunit, Nat.add_comm]
        · rw [hasg, inva.tmpEq, hl] at g1; cases g1
      obtain ⟨k1, k2⟩ := hifEdges_keep _ _ _ sb s3 _ post (hifPass1 d).etab l _ invb hEb h3 hsb.1 hsb.2
        (Inv1_pass1 d).tmpSound hlast
      obtain ⟨_, _, _, _, _, f6⟩ := hifIncs2_frame s3 s4 1 d.incidences h4
      exact (f6 _ _ k1 k2).2

end C06
