import Hgxv.Model.C08Visit
import Hgxv.Proofs.C08Bfs
/-! # C08 - `_bfs` / `_dfs` with `max_depth` (core Lean): soundness, the unbounded searches visit the reachability class,
the depth-limited BFS visits exactly the ball of that radius -/
namespace C08

/-- a walk of exactly `k` steps in the graph given by `nbrs` -/
inductive NPath (nbrs : Nat → List Nat) : Nat → Nat → Nat → Prop
  | zero (a : Nat) : NPath nbrs a 0 a
  | step {a b c : Nat} {k : Nat} : NPath nbrs a k b → c ∈ nbrs b → NPath nbrs a (k + 1) c

theorem NPath.reach {nbrs : Nat → List Nat} {a b k : Nat} (h : NPath nbrs a k b) : NReach nbrs a b := by
  induction h with
  | zero => exact NReach.refl _
  | step _ hc ih => exact NReach.step ih hc

theorem nreach_npath {nbrs : Nat → List Nat} {a b : Nat} (h : NReach nbrs a b) : ∃ k, NPath nbrs a k b := by
  induction h with
  | refl => exact ⟨0, NPath.zero _⟩
  | step _ hc ih => obtain ⟨k, hk⟩ := ih; exact ⟨k + 1, NPath.step hk hc⟩

theorem NPath.zero_eq {nbrs : Nat → List Nat} {a b : Nat} (h : NPath nbrs a 0 b) : b = a := by
  cases h; rfl

theorem NPath.succ_inv {nbrs : Nat → List Nat} {a c k : Nat} (h : NPath nbrs a (k + 1) c) :
    ∃ b, NPath nbrs a k b ∧ c ∈ nbrs b := by
  cases h with
  | step hp hc => exact ⟨_, hp, hc⟩

theorem within_mono (md : Option Int) {j k : Nat} (hjk : j ≤ k) (h : within md k = true) : within md j = true := by
  cases md with
  | none => rfl
  | some m => simp only [within, decide_eq_true_eq] at h ⊢; omega

/-- a walk length the depth bound allows: the start, or one step beyond a depth that is still expanded -/
def okLen (md : Option Int) : Nat → Prop
  | 0 => True
  | k + 1 => within md k = true

theorem okLen_of_within (md : Option Int) (k : Nat) (h : within md k = true) : okLen md k := by
  cases k with
  | zero => trivial
  | succ j => exact within_mono md (Nat.le_succ j) h

theorem mem_push (dfs : Bool) (q ext : List (Nat × Nat)) (p : Nat × Nat) : p ∈ push dfs q ext ↔ p ∈ q ∨ p ∈ ext := by
  cases dfs <;> simp [push, or_comm]

theorem mem_expand (nbrs : Nat → List Nat) (md : Option Int) (x d : Nat) (vis : List Nat) (p : Nat × Nat) :
    p ∈ expand nbrs md x d vis ↔ within md d = true ∧ p.2 = d + 1 ∧ p.1 ∈ nbrs x ∧ p.1 ∉ vis := by
  unfold expand
  by_cases hw : within md d = true
  · simp only [hw, if_true, List.mem_map, List.mem_filter, decide_eq_true_eq, true_and]
    constructor
    · rintro ⟨n, ⟨h1, h2⟩, rfl⟩; exact ⟨rfl, h1, h2⟩
    · rintro ⟨h0, h1, h2⟩; exact ⟨p.1, ⟨h1, h2⟩, by rw [← h0]⟩
  · simp [hw]

section Generic
variable (univ : List Nat) (nbrs : Nat → List Nat) (h : ∀ x, x ∉ univ → nbrs x = []) (md : Option Int) (dfs : Bool)

/-- the visited listing never repeats a node (it models a Python `set`) -/
theorem search_nodup : ∀ (work : List (Nat × Nat)) (visited : List Nat), visited.Nodup →
    (search univ nbrs h md dfs work visited).Nodup := by
  intro work visited
  induction work, visited using search.induct univ nbrs h md dfs with
  | case1 visited => intro hv; rw [search]; exact hv
  | case2 x d q visited hx ih => intro hv; rw [search]; simp only [hx, if_true]; exact ih hv
  | case3 x d q visited hx ih =>
    intro hv; rw [search]; simp only [hx, if_false]
    exact ih (List.nodup_cons.mpr ⟨hx, hv⟩)

/-- soundness: whatever is visited was reached by a walk from the source whose length the depth bound allows -/
theorem search_sound (s : Nat) :
    ∀ (work : List (Nat × Nat)) (visited : List Nat),
      (∀ p ∈ work, NPath nbrs s p.2 p.1 ∧ okLen md p.2) → (∀ y ∈ visited, ∃ k, NPath nbrs s k y ∧ okLen md k) →
      ∀ y ∈ search univ nbrs h md dfs work visited, ∃ k, NPath nbrs s k y ∧ okLen md k := by
  intro work visited
  induction work, visited using search.induct univ nbrs h md dfs with
  | case1 visited => intro _ hv y hy; rw [search] at hy; exact hv y hy
  | case2 x d q visited hx ih =>
    intro hq hv y hy; rw [search] at hy; simp only [hx, if_true] at hy
    exact ih (fun p hp => hq p (List.mem_cons_of_mem _ hp)) hv y hy
  | case3 x d q visited hx ih =>
    intro hq hv y hy; rw [search] at hy; simp only [hx, if_false] at hy
    have hxd := hq (x, d) List.mem_cons_self
    apply ih _ _ y hy
    · intro p hp
      rcases (mem_push dfs _ _ p).mp hp with h1 | h1
      · exact hq p (List.mem_cons_of_mem _ h1)
      · obtain ⟨hw, hd, hn, _⟩ := (mem_expand nbrs md x d _ p).mp h1
        rw [hd]
        exact ⟨NPath.step hxd.1 hn, hw⟩
    · intro z hz
      cases hz with
      | head => exact ⟨d, hxd⟩
      | tail _ h1 => exact hv z h1

/-- without a depth bound the result contains `visited` and the work list and is closed under `nbrs` -/
theorem search_closed (hmd : md = none) :
    ∀ (work : List (Nat × Nat)) (visited : List Nat),
      (∀ v ∈ visited, ∀ c ∈ nbrs v, c ∈ visited ∨ ∃ d, (c, d) ∈ work) →
      (∀ v ∈ visited, v ∈ search univ nbrs h md dfs work visited) ∧
      (∀ p ∈ work, p.1 ∈ search univ nbrs h md dfs work visited) ∧
      (∀ v ∈ search univ nbrs h md dfs work visited, ∀ c ∈ nbrs v, c ∈ search univ nbrs h md dfs work visited) := by
  intro work visited
  induction work, visited using search.induct univ nbrs h md dfs with
  | case1 visited =>
    intro hinv; rw [search]
    refine ⟨fun v hv => hv, fun p hp => ?_, fun v hv c hc => ?_⟩
    · cases hp
    · rcases hinv v hv c hc with h1 | ⟨_, h1⟩
      · exact h1
      · cases h1
  | case2 x d q visited hx ih =>
    intro hinv; rw [search]; simp only [hx, if_true]
    have := ih (by
      intro v hv c hc
      rcases hinv v hv c hc with h1 | ⟨d', h1⟩
      · exact Or.inl h1
      · cases h1 with
        | head => exact Or.inl hx
        | tail _ h1 => exact Or.inr ⟨d', h1⟩)
    refine ⟨this.1, ?_, this.2.2⟩
    intro p hp
    cases hp with
    | head => exact this.1 x hx
    | tail _ h1 => exact this.2.1 p h1
  | case3 x d q visited hx ih =>
    intro hinv; rw [search]; simp only [hx, if_false]
    have hw : within md d = true := by rw [hmd]; rfl
    have := ih (by
      intro v hv c hc
      cases hv with
      | head =>
        by_cases hcv : c ∈ x :: visited
        · exact Or.inl hcv
        · exact Or.inr ⟨d + 1, (mem_push dfs _ _ _).mpr (Or.inr ((mem_expand nbrs md x d _ _).mpr ⟨hw, rfl, hc, hcv⟩))⟩
      | tail _ hv' =>
        rcases hinv v hv' c hc with h1 | ⟨d', h1⟩
        · exact Or.inl (List.mem_cons_of_mem _ h1)
        · cases h1 with
          | head => exact Or.inl List.mem_cons_self
          | tail _ h1 => exact Or.inr ⟨d', (mem_push dfs _ _ _).mpr (Or.inl h1)⟩)
    refine ⟨fun v hv => this.1 v (List.mem_cons_of_mem _ hv), ?_, this.2.2⟩
    intro p hp
    cases hp with
    | head => exact this.1 x List.mem_cons_self
    | tail _ h1 => exact this.2.1 p ((mem_push dfs _ _ _).mpr (Or.inl h1))

/-- `_bfs` and `_dfs` without a depth bound visit exactly what is reachable -/
theorem search_unbounded (s y : Nat) : y ∈ search univ nbrs h none dfs [(s, 0)] [] ↔ NReach nbrs s y := by
  constructor
  · intro hy
    obtain ⟨k, hk, _⟩ := search_sound univ nbrs h none dfs s [(s, 0)] []
      (by intro p hp; simp at hp; subst hp; exact ⟨NPath.zero _, trivial⟩) (by simp) y hy
    exact hk.reach
  · intro hr
    have hc := search_closed univ nbrs h none dfs rfl [(s, 0)] [] (by simp)
    induction hr with
    | refl => exact hc.2.1 (s, 0) List.mem_cons_self
    | step _ hcb ih => exact hc.2.2 _ ih _ hcb

/-- with a depth bound: the start is visited, everything visited is within the bound -/
theorem search_bounded_sound (s y : Nat) (hy : y ∈ search univ nbrs h md dfs [(s, 0)] []) :
    ∃ k, NPath nbrs s k y ∧ okLen md k :=
  search_sound univ nbrs h md dfs s [(s, 0)] []
    (by intro p hp; simp at hp; subst hp; exact ⟨NPath.zero _, trivial⟩) (by simp) y hy

end Generic

/-! ## the depth-aware `_bfs` with `max_depth=None` is the `_bfs` of the component functions, list for list -/

theorem search_eq_bfs (univ : List Nat) (nbrs : Nat → List Nat) (h : ∀ x, x ∉ univ → nbrs x = []) :
    ∀ (work : List (Nat × Nat)) (visited : List Nat),
      search univ nbrs h none false work visited = bfs univ nbrs h (work.map (·.1)) visited := by
  intro work visited
  induction work, visited using search.induct univ nbrs h none false with
  | case1 visited => rw [search]; simp [bfs]
  | case2 x d q visited hx ih =>
    rw [search]; simp only [hx, if_true, List.map_cons]; rw [bfs]; simp only [hx, if_true]; exact ih
  | case3 x d q visited hx ih =>
    rw [search]; simp only [hx, if_false, List.map_cons]; rw [bfs]; simp only [hx, if_false]
    rw [ih]
    congr 1
    simp [push, expand, within, List.map_map, Function.comp_def]

/-! ## breadth-first search with a depth bound: exactly the ball -/

section Ball
variable (univ : List Nat) (nbrs : Nat → List Nat) (h : ∀ x, x ∉ univ → nbrs x = []) (md : Option Int) (s : Nat)

/-- the level invariant of the FIFO loop: the work list is `A ++ B`, `A` at depth `D`, `B` at depth `D + 1`; every node
nearer than `D` (within the bound) is visited; every visited node that the bound lets expand has each neighbour visited or
waiting at a depth not beyond the walk -/
structure BInv (D : Nat) (A B : List (Nat × Nat)) (visited : List Nat) : Prop where
  hA : ∀ p ∈ A, p.2 = D
  hB : ∀ p ∈ B, p.2 = D + 1
  hs : s ∈ visited ∨ (s, 0) ∈ A ++ B
  hC : ∀ y k, NPath nbrs s k y → k < D → okLen md k → y ∈ visited
  hE : ∀ v ∈ visited, ∀ k, NPath nbrs s k v → within md k = true → ∀ c ∈ nbrs v,
        c ∈ visited ∨ ∃ d, d ≤ k + 1 ∧ (c, d) ∈ A ++ B

/-- at the end of the loop everything within the bound is visited -/
theorem binv_final (visited : List Nat) (hs : s ∈ visited)
    (hE : ∀ v ∈ visited, ∀ k, NPath nbrs s k v → within md k = true → ∀ c ∈ nbrs v, c ∈ visited) :
    ∀ k y, NPath nbrs s k y → okLen md k → y ∈ visited := by
  intro k
  induction k with
  | zero => intro y hp _; rw [hp.zero_eq]; exact hs
  | succ j ih =>
    intro y hp hok
    obtain ⟨b, hb, hy⟩ := hp.succ_inv
    exact hE b (ih b hb (okLen_of_within md j hok)) j hb hok y hy

/-- when no entry of depth `D` is left, the invariant holds one level deeper -/
theorem binv_shift (D : Nat) (B : List (Nat × Nat)) (visited : List Nat) (hi : BInv nbrs md s D [] B visited) :
    BInv nbrs md s (D + 1) B [] visited := by
  refine ⟨hi.hB, by simp, by simpa using hi.hs, ?_, by simpa using hi.hE⟩
  intro y k hp hk hok
  by_cases hkD : k < D
  · exact hi.hC y k hp hkD hok
  · have hkD' : k = D := by omega
    subst hkD'
    cases k with
    | zero =>
      rw [hp.zero_eq]
      rcases hi.hs with h1 | h1
      · exact h1
      · have := hi.hB _ (by simpa using h1); simp at this
    | succ j =>
      obtain ⟨b, hb, hy⟩ := hp.succ_inv
      have hbv := hi.hC b j hb (by omega) (okLen_of_within md j hok)
      rcases hi.hE b hbv j hb hok y hy with h1 | ⟨d, hd, h1⟩
      · exact h1
      · have := hi.hB _ (by simpa using h1); simp at this; omega

/-- the head of a non-empty work list can be taken to be at the current level -/
theorem binv_head (D : Nat) (A B : List (Nat × Nat)) (visited : List Nat) (p : Nat × Nat) (q : List (Nat × Nat))
    (hq : A ++ B = p :: q) (hi : BInv nbrs md s D A B visited) :
    ∃ D' A' B', q = A' ++ B' ∧ BInv nbrs md s D' (p :: A') B' visited := by
  cases A with
  | nil =>
    simp only [List.nil_append] at hq
    subst hq
    exact ⟨D + 1, q, [], by simp, binv_shift nbrs md s D _ visited hi⟩
  | cons a A' =>
    simp only [List.cons_append, List.cons.injEq] at hq
    obtain ⟨rfl, rfl⟩ := hq
    exact ⟨D, A', B, rfl, hi⟩

/-- popping an already visited node keeps the invariant -/
theorem binv_skip (D : Nat) (x d : Nat) (A B : List (Nat × Nat)) (visited : List Nat) (hx : x ∈ visited)
    (hi : BInv nbrs md s D ((x, d) :: A) B visited) : BInv nbrs md s D A B visited := by
  refine ⟨fun p hp => hi.hA p (List.mem_cons_of_mem _ hp), hi.hB, ?_, hi.hC, ?_⟩
  · rcases hi.hs with h1 | h1
    · exact Or.inl h1
    · simp only [List.cons_append, List.mem_cons] at h1
      rcases h1 with h1 | h1
      · left; have : s = x := congrArg Prod.fst h1; rw [this]; exact hx
      · exact Or.inr h1
  · intro v hv k hp hw c hc
    rcases hi.hE v hv k hp hw c hc with h1 | ⟨d', hd', h1⟩
    · exact Or.inl h1
    · simp only [List.cons_append, List.mem_cons] at h1
      rcases h1 with h1 | h1
      · left; have : c = x := congrArg Prod.fst h1; rw [this]; exact hx
      · exact Or.inr ⟨d', hd', h1⟩

/-- visiting a new node keeps the invariant: it is popped at its distance, so the bound lets it expand whenever a walk to
it is short enough to matter -/
theorem binv_visit (D : Nat) (x d : Nat) (A B : List (Nat × Nat)) (visited : List Nat) (hx : x ∉ visited)
    (hi : BInv nbrs md s D ((x, d) :: A) B visited) :
    BInv nbrs md s D A (B ++ expand nbrs md x d (x :: visited)) (x :: visited) := by
  have hd : d = D := hi.hA (x, d) List.mem_cons_self
  subst hd
  refine ⟨fun p hp => hi.hA p (List.mem_cons_of_mem _ hp), ?_, ?_, ?_, ?_⟩
  · intro p hp
    rcases List.mem_append.mp hp with h1 | h1
    · exact hi.hB p h1
    · exact ((mem_expand nbrs md x d _ p).mp h1).2.1
  · rcases hi.hs with h1 | h1
    · exact Or.inl (List.mem_cons_of_mem _ h1)
    · simp only [List.cons_append, List.mem_cons] at h1
      rcases h1 with h1 | h1
      · left; have : s = x := congrArg Prod.fst h1; rw [this]; exact List.mem_cons_self
      · right
        rcases List.mem_append.mp h1 with h2 | h2
        · exact List.mem_append.mpr (Or.inl h2)
        · exact List.mem_append.mpr (Or.inr (List.mem_append.mpr (Or.inl h2)))
  · intro y k hp hk hok
    exact List.mem_cons_of_mem _ (hi.hC y k hp hk hok)
  · intro v hv k hp hw c hc
    cases hv with
    | head =>
      -- the popped node: a walk shorter than its depth would have made it visited already
      have hdk : d ≤ k := by
        apply Decidable.byContradiction
        intro hlt
        exact hx (hi.hC x k hp (by omega) (okLen_of_within md k hw))
      by_cases hcv : c ∈ x :: visited
      · exact Or.inl hcv
      · right
        refine ⟨d + 1, by omega, ?_⟩
        apply List.mem_append.mpr; right
        apply List.mem_append.mpr; right
        exact (mem_expand nbrs md x d _ _).mpr ⟨within_mono md hdk hw, rfl, hc, hcv⟩
    | tail _ hv' =>
      rcases hi.hE v hv' k hp hw c hc with h1 | ⟨d', hd', h1⟩
      · exact Or.inl (List.mem_cons_of_mem _ h1)
      · simp only [List.cons_append, List.mem_cons] at h1
        rcases h1 with h1 | h1
        · left; have : c = x := congrArg Prod.fst h1; rw [this]; exact List.mem_cons_self
        · right
          refine ⟨d', hd', ?_⟩
          rcases List.mem_append.mp h1 with h2 | h2
          · exact List.mem_append.mpr (Or.inl h2)
          · exact List.mem_append.mpr (Or.inr (List.mem_append.mpr (Or.inl h2)))

/-- completeness of the FIFO loop under the level invariant -/
theorem bfs_complete_inv :
    ∀ (work : List (Nat × Nat)) (visited : List Nat) (D : Nat) (A B : List (Nat × Nat)), work = A ++ B →
      BInv nbrs md s D A B visited →
      ∀ k y, NPath nbrs s k y → okLen md k → y ∈ search univ nbrs h md false work visited := by
  intro work visited
  induction work, visited using search.induct univ nbrs h md false with
  | case1 visited =>
    intro D A B hw hi k y hp hok
    rw [search]
    have hnil : A = [] ∧ B = [] := by simpa using hw.symm
    obtain ⟨rfl, rfl⟩ := hnil
    refine binv_final nbrs md s visited ?_ ?_ k y hp hok
    · rcases hi.hs with h1 | h1
      · exact h1
      · cases h1
    · intro v hv k hp hw c hc
      rcases hi.hE v hv k hp hw c hc with h1 | ⟨_, _, h1⟩
      · exact h1
      · cases h1
  | case2 x d q visited hx ih =>
    intro D A B hw hi k y hp hok
    rw [search]; simp only [hx, if_true]
    obtain ⟨D', A', B', hq, hi'⟩ := binv_head nbrs md s D A B visited (x, d) q hw.symm hi
    exact ih D' A' B' hq (binv_skip nbrs md s D' x d A' B' visited hx hi') k y hp hok
  | case3 x d q visited hx ih =>
    intro D A B hw hi k y hp hok
    rw [search]; simp only [hx, if_false]
    obtain ⟨D', A', B', hq, hi'⟩ := binv_head nbrs md s D A B visited (x, d) q hw.symm hi
    refine ih D' A' (B' ++ expand nbrs md x d (x :: visited)) ?_
      (binv_visit nbrs md s D' x d A' B' visited hx hi') k y hp hok
    simp [push, hq]

/-- `_bfs(start, max_depth)` visits exactly the nodes a walk of an allowed length reaches -/
theorem bfs_ball (y : Nat) : y ∈ search univ nbrs h md false [(s, 0)] [] ↔ ∃ k, NPath nbrs s k y ∧ okLen md k := by
  constructor
  · exact search_bounded_sound univ nbrs h md false s y
  · rintro ⟨k, hp, hok⟩
    refine bfs_complete_inv univ nbrs h md s [(s, 0)] [] 0 [(s, 0)] [] rfl ?_ k y hp hok
    refine ⟨by simp, by simp, Or.inr (by simp), ?_, by simp⟩
    intro y k _ hk; omega

end Ball

/-! ## the specification side: walks along filtered hyperedges -/

/-- `v` is reached from `u` by a walk of exactly `k` steps, each step inside one filtered hyperedge -/
inductive Walk (es : List Edge) (f : Filt) : Nat → Nat → Nat → Prop
  | zero (u : Nat) : Walk es f u 0 u
  | step {u v w : Nat} {k : Nat} : Walk es f u k v → Adj es f v w → Walk es f u (k + 1) w

theorem Walk.reach {es : List Edge} {f : Filt} {u v k : Nat} (h : Walk es f u k v) : Reach es f u v := by
  induction h with
  | zero => exact Reach.refl _
  | step _ ha ih => exact Reach.step ih ha

theorem reach_walk {es : List Edge} {f : Filt} {u v : Nat} (h : Reach es f u v) : ∃ k, Walk es f u k v := by
  induction h with
  | refl => exact ⟨0, Walk.zero _⟩
  | step _ ha ih => obtain ⟨k, hk⟩ := ih; exact ⟨k + 1, Walk.step hk ha⟩

theorem npath_walk {es : List Edge} {f : Filt} {u v k : Nat} (h : NPath (neighbors es f) u k v) : Walk es f u k v := by
  induction h with
  | zero => exact Walk.zero _
  | step _ hc ih =>
    obtain ⟨_, e, he, hp, hb, hcm⟩ := (mem_neighbors es f _ _).mp hc
    exact Walk.step ih ⟨e, he, hp, hb, hcm⟩

/-- a walk may stay where it is (`Adj` is reflexive on members of a hyperedge); dropping those steps gives a walk through
`get_neighbors` that is not longer -/
theorem walk_npath {es : List Edge} {f : Filt} {u v k : Nat} (h : Walk es f u k v) :
    ∃ j, j ≤ k ∧ NPath (neighbors es f) u j v := by
  induction h with
  | zero => exact ⟨0, Nat.le_refl _, NPath.zero _⟩
  | @step v w k _ ha ih =>
    obtain ⟨j, hj, hp⟩ := ih
    by_cases hvw : w = v
    · rw [hvw]; exact ⟨j, by omega, hp⟩
    · obtain ⟨e, he, hpz, hv, hw⟩ := ha
      exact ⟨j + 1, by omega, NPath.step hp ((mem_neighbors es f v w).mpr ⟨hvw, e, he, hpz, hv, hw⟩)⟩

theorem okLen_some (m : Int) (k : Nat) : okLen (some m) k ↔ (k : Int) ≤ max m 0 := by
  cases k with
  | zero => simp only [okLen, true_iff]; omega
  | succ j => simp only [okLen, within, decide_eq_true_eq]; omega

theorem okLen_mono (md : Option Int) {j k : Nat} (hjk : j ≤ k) (h : okLen md k) : okLen md j := by
  cases md with
  | none => cases j <;> simp [okLen, within]
  | some m => rw [okLen_some] at h ⊢; omega

theorem mem_visitH_bfs (es : List Edge) (f : Filt) (md : Option Int) (u v : Nat) :
    v ∈ visitH es f md false u ↔ ∃ k, Walk es f u k v ∧ okLen md k := by
  unfold visitH
  rw [bfs_ball]
  constructor
  · rintro ⟨k, hp, hok⟩; exact ⟨k, npath_walk hp, hok⟩
  · rintro ⟨k, hw, hok⟩
    obtain ⟨j, hj, hp⟩ := walk_npath hw
    exact ⟨j, hp, okLen_mono md hj hok⟩

theorem mem_visitH_sound (es : List Edge) (f : Filt) (md : Option Int) (dfs : Bool) (u v : Nat)
    (hv : v ∈ visitH es f md dfs u) : ∃ k, Walk es f u k v ∧ okLen md k := by
  obtain ⟨k, hp, hok⟩ := search_bounded_sound _ _ _ md dfs u v hv
  exact ⟨k, npath_walk hp, hok⟩

theorem mem_visitH_none (es : List Edge) (f : Filt) (dfs : Bool) (u v : Nat) :
    v ∈ visitH es f none dfs u ↔ Reach es f u v := by
  unfold visitH
  rw [search_unbounded, nreach_iff_reach]

theorem self_mem_visitH (es : List Edge) (f : Filt) (md : Option Int) (dfs : Bool) (u : Nat) :
    u ∈ visitH es f md dfs u := by
  unfold visitH
  rw [search]
  simp only [List.not_mem_nil, if_false]
  -- the start is in `visited` from the first step on
  have : ∀ (work : List (Nat × Nat)) (visited : List Nat), u ∈ visited →
      u ∈ search es.flatten (neighbors es f) (neighbors_nil_of_not_mem es f) md dfs work visited := by
    intro work visited
    induction work, visited using search.induct es.flatten (neighbors es f) (neighbors_nil_of_not_mem es f) md dfs with
    | case1 visited => intro hu; rw [search]; exact hu
    | case2 x d q visited hx ih => intro hu; rw [search]; simp only [hx, if_true]; exact ih hu
    | case3 x d q visited hx ih =>
      intro hu; rw [search]; simp only [hx, if_false]; exact ih (List.mem_cons_of_mem _ hu)
  exact this _ _ List.mem_cons_self

theorem visitH_nodup (es : List Edge) (f : Filt) (md : Option Int) (dfs : Bool) (u : Nat) :
    (visitH es f md dfs u).Nodup := by
  unfold visitH
  exact search_nodup _ _ _ _ _ _ _ List.nodup_nil

/-- the `_bfs` the component functions call is the depth-aware `_bfs` with `max_depth=None`, as lists -/
theorem visitH_eq_bfsH (es : List Edge) (f : Filt) (u : Nat) : visitH es f none false u = bfsH es f u := by
  unfold visitH bfsH
  rw [search_eq_bfs]; rfl

/-- the termination universe (and the proof that comes with it) does not influence the result -/
theorem search_indep (univ univ' : List Nat) (nbrs : Nat → List Nat) (h : ∀ x, x ∉ univ → nbrs x = [])
    (h' : ∀ x, x ∉ univ' → nbrs x = []) (md : Option Int) (dfs : Bool) :
    ∀ (work : List (Nat × Nat)) (visited : List Nat),
      search univ nbrs h md dfs work visited = search univ' nbrs h' md dfs work visited := by
  intro work visited
  induction work, visited using search.induct univ nbrs h md dfs with
  | case1 visited => rw [search, search]
  | case2 x d q visited hx ih => rw [search, search.eq_def univ']; simp only [hx, if_true]; exact ih
  | case3 x d q visited hx ih => rw [search, search.eq_def univ']; simp only [hx, if_false]; exact ih

theorem bfs_indep (univ univ' : List Nat) (nbrs : Nat → List Nat) (h : ∀ x, x ∉ univ → nbrs x = [])
    (h' : ∀ x, x ∉ univ' → nbrs x = []) :
    ∀ (queue visited : List Nat), bfs univ nbrs h queue visited = bfs univ' nbrs h' queue visited := by
  intro queue visited
  induction queue, visited using bfs.induct univ nbrs h with
  | case1 visited => rw [bfs, bfs]
  | case2 x q visited hx ih => rw [bfs, bfs.eq_def univ']; simp only [hx, if_true]; exact ih
  | case3 x q visited hx ih => rw [bfs, bfs.eq_def univ']; simp only [hx, if_false]; exact ih

/-- the searches over a recorded table of `get_neighbors` answers are the searches of the hypergraph when the table
records those answers (in the order the sets were iterated) -/
theorem visitTab_eq (es : List Edge) (f : Filt) (tab : List (Nat × List Nat)) (md : Option Int) (dfs : Bool) (u : Nat)
    (htab : ∀ x, nbrsTab tab x = neighbors es f x) : visitTab tab md dfs u = visitH es f md dfs u := by
  unfold visitTab visitH
  have : ∀ (nb : Nat → List Nat) (hnb : ∀ x, x ∉ tab.map (·.1) → nb x = []) (e : nb = neighbors es f),
      search (tab.map (·.1)) nb hnb md dfs [(u, 0)] [] =
        search es.flatten (neighbors es f) (neighbors_nil_of_not_mem es f) md dfs [(u, 0)] [] := by
    intro nb hnb e
    subst e
    exact search_indep _ _ _ _ _ _ _ _ _
  exact this _ _ (funext htab)

/-! ## every reachable node is reachable within `|nodes| - 1` steps (read off the unbounded search: a node popped at depth
`d` has at least `d` visited nodes before it) -/

theorem search_sound_len (univ : List Nat) (nbrs : Nat → List Nat) (h : ∀ x, x ∉ univ → nbrs x = []) (md : Option Int)
    (dfs : Bool) (s : Nat) :
    ∀ (work : List (Nat × Nat)) (visited : List Nat),
      (∀ p ∈ work, NPath nbrs s p.2 p.1 ∧ p.2 ≤ visited.length) →
      (∀ y ∈ visited, ∃ k, NPath nbrs s k y ∧ k < visited.length) →
      ∀ y ∈ search univ nbrs h md dfs work visited,
        ∃ k, NPath nbrs s k y ∧ k < (search univ nbrs h md dfs work visited).length := by
  intro work visited
  induction work, visited using search.induct univ nbrs h md dfs with
  | case1 visited => intro _ hv y hy; rw [search] at hy ⊢; exact hv y hy
  | case2 x d q visited hx ih =>
    intro hq hv y hy; rw [search] at hy ⊢; simp only [hx, if_true] at hy ⊢
    exact ih (fun p hp => hq p (List.mem_cons_of_mem _ hp)) hv y hy
  | case3 x d q visited hx ih =>
    intro hq hv y hy; rw [search] at hy ⊢; simp only [hx, if_false] at hy ⊢
    have hxd := hq (x, d) List.mem_cons_self
    apply ih _ _ y hy
    · intro p hp
      rcases (mem_push dfs _ _ p).mp hp with h1 | h1
      · have := hq p (List.mem_cons_of_mem _ h1)
        exact ⟨this.1, by simp only [List.length_cons]; omega⟩
      · obtain ⟨_, hd, hn, _⟩ := (mem_expand nbrs md x d _ p).mp h1
        rw [hd]
        exact ⟨NPath.step hxd.1 hn, by simp only [List.length_cons]; have := hxd.2; omega⟩
    · intro z hz
      cases hz with
      | head => exact ⟨d, hxd.1, by simp only [List.length_cons]; have := hxd.2; omega⟩
      | tail _ h1 =>
        obtain ⟨k, hk, hlt⟩ := hv z h1
        exact ⟨k, hk, by simp only [List.length_cons]; omega⟩

/-- in a hypergraph as the containers list it, whatever is reachable is reachable by a walk of fewer steps than there are nodes -/
theorem reach_short (nodes : List Nat) (es : List Edge) (f : Filt) (hwf : WF nodes es) (u v : Nat)
    (hu : u ∈ nodes) (hr : Reach es f u v) : ∃ k, k < nodes.length ∧ Walk es f u k v := by
  have hv : v ∈ visitH es f none false u := (mem_visitH_none es f false u v).mpr hr
  have hlen : (visitH es f none false u).length ≤ nodes.length := by
    apply List.Nodup.length_le_of_subset (visitH_nodup es f none false u)
    intro y hy
    exact ((mem_visitH_none es f false u y).mp hy).mem_nodes hwf hu
  unfold visitH at hv hlen
  obtain ⟨k, hk, hlt⟩ := search_sound_len _ _ _ none false u [(u, 0)] []
    (by intro p hp; simp at hp; subst hp; exact ⟨NPath.zero _, Nat.le_refl _⟩) (by simp) v hv
  exact ⟨k, by omega, npath_walk hk⟩

end C08
