import Hgxv.Proofs.C16Output
import Hgxv.Model.C16Deg
/-! Helper lemmas for C16, round f: degenerate hyperedges are dropped by the zero-weight filter.  Core Lean only. -/
namespace C16

theorem degenWeights_length (cfg : Config) (ws : List Nat) (h : ws.length = cfg.length) :
    (degenWeights cfg ws).length = cfg.length := by
  simp [degenWeights, h]

theorem proper_lengths (cfg : Config) (ws : List Nat) : (properWs cfg ws).length = (properCfg cfg ws).length := by
  simp [properWs, properCfg]

theorem dropZeros_cons (a : Hye) (c : Config) (w : Nat) (ws : List Nat) :
    dropZeros (a :: c) (w :: ws) = if 0 < w then (a, w) :: dropZeros c ws else dropZeros c ws := by
  simp only [dropZeros, List.zip_cons_cons, List.filter_cons]
  by_cases h : 0 < w <;> simp [h]

theorem degenWeights_cons (e : Hye) (cfg : Config) (w : Nat) (ws : List Nat) :
    degenWeights (e :: cfg) (w :: ws) = (if e.length < 2 then 0 else w) :: degenWeights cfg ws := by
  simp [degenWeights]

theorem properCfg_cons (e : Hye) (cfg : Config) (w : Nat) (ws : List Nat) :
    properCfg (e :: cfg) (w :: ws) = if 2 ≤ e.length then e :: properCfg cfg ws else properCfg cfg ws := by
  simp only [properCfg, properPairs, List.zip_cons_cons, List.filter_cons]
  by_cases h : 2 ≤ e.length <;> simp [h]

theorem properWs_cons (e : Hye) (cfg : Config) (w : Nat) (ws : List Nat) :
    properWs (e :: cfg) (w :: ws) = if 2 ≤ e.length then w :: properWs cfg ws else properWs cfg ws := by
  simp only [properWs, properPairs, List.zip_cons_cons, List.filter_cons]
  by_cases h : 2 ≤ e.length <;> simp [h]

/-- the zero-weight filter on the chain state = the zero-weight filter on its hyperedges of size >= 2 -/
theorem dropZeros_degen (cfg : Config) (ws : List Nat) :
    dropZeros (cfg.map canon) (degenWeights cfg ws) = dropZeros ((properCfg cfg ws).map canon) (properWs cfg ws) := by
  induction cfg generalizing ws with
  | nil => simp [degenWeights, properCfg, properWs, properPairs, dropZeros]
  | cons e cfg ih =>
    cases ws with
    | nil => simp [degenWeights, properCfg, properWs, properPairs, dropZeros]
    | cons w ws =>
      rw [degenWeights_cons, properCfg_cons, properWs_cons, List.map_cons, dropZeros_cons]
      by_cases he : e.length < 2
      · have h2 : ¬ (2 ≤ e.length) := by omega
        simp only [he, h2, if_true, if_false, Nat.lt_irrefl]
        exact ih ws
      · have h2 : 2 ≤ e.length := by omega
        simp only [he, h2, if_true, if_false, List.map_cons, dropZeros_cons]
        rw [ih ws]

theorem properCfg_mem {cfg : Config} {ws : List Nat} {e : Hye} (h : e ∈ properCfg cfg ws) : e ∈ cfg ∧ 2 ≤ e.length := by
  simp only [properCfg, properPairs, List.mem_map, List.mem_filter] at h
  obtain ⟨p, ⟨hp, hs⟩, rfl⟩ := h
  exact ⟨(List.of_mem_zip hp).1, by simpa using hs⟩

theorem properPairs_all (cfg : Config) (ws : List Nat) (h : ∀ e ∈ cfg, 2 ≤ e.length) :
    properPairs cfg ws = cfg.zip ws := by
  unfold properPairs
  rw [List.filter_eq_self]
  intro p hp
  simpa using h p.1 (List.of_mem_zip hp).1

theorem degenWeights_all (cfg : Config) (ws : List Nat) (hl : ws.length = cfg.length) (h : ∀ e ∈ cfg, 2 ≤ e.length) :
    degenWeights cfg ws = ws := by
  unfold degenWeights
  have : (cfg.zip ws).map (fun p => if p.1.length < 2 then 0 else p.2) = (cfg.zip ws).map (·.2) := by
    apply List.map_congr_left
    intro p hp
    have := h p.1 (List.of_mem_zip hp).1
    simp; omega
  rw [this, List.map_snd_zip]; omega

end C16
