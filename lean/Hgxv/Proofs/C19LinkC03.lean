import Hgxv.Proofs.C03Ref
import Hgxv.Proofs.C03Cor
import Hgxv.Proofs.C19LinkC01
/-! # C19 ↔ C03: `TemporalHypergraph`

`ofSpec03 : C03.Spec → Content Key Int` (a record key `(time, sorted nodes)` becomes `(sorted nodes, [time])`).  Under the
content invariant `Dyn opsT C03.one CanonT` (given by `C03.Inv`): `C03.Spec.removeNode` (record by record: remove, then
re-insert the shrunk record with the weight and metadata read before the removal, an emptied record is dropped) is
`C19.removeNode opsT`, `C03.Spec.removeEdge` is `C19.removeEdge`, with the same verdicts.  Core Lean only. -/
namespace C19
open AL
set_option linter.unusedSectionVars false
set_option linter.unusedSimpArgs false
set_option linter.unusedVariables false

def keyT (k : C03.Key) : Key := (k.2, [k.1])
theorem keyT_inj (a b : C03.Key) (h : keyT a = keyT b) : a = b := by
  obtain ⟨a1, a2⟩ := a
  obtain ⟨b1, b2⟩ := b
  simp only [keyT, Prod.mk.injEq, List.cons.injEq, and_true] at h
  rw [h.1, h.2]

/-- the content of an abstract `TemporalHypergraph` -/
def ofSpec03 (a : C03.Spec) : Content Key Int :=
  { weighted := a.weighted, nodes := mapKV (fun n => n) mdOf a.nodes, edges := mapKV keyT recOf a.recs }

abbrev Dyn03 (c : Content Key Int) : Prop := Dyn opsT C03.one CanonT c

theorem nodes03_get (a : C03.Spec) (n : Node) : get? (ofSpec03 a).nodes n = (get? a.nodes n).map mdOf :=
  get?_mapKV (fun n => n) mdOf (fun _ _ h => h) a.nodes n

theorem edges03_get (a : C03.Spec) (k : C03.Key) : get? (ofSpec03 a).edges (keyT k) = (get? a.recs k).map recOf :=
  get?_mapKV keyT recOf keyT_inj a.recs k

theorem touchTable03 (t : List (Node × C03.Meta)) (n : Node) :
    mapKV (fun n => n) mdOf (C03.touchTable t n) = touchNode (mapKV (fun n => n) mdOf t) n := by
  unfold C03.touchTable touchNode
  have hg : get? (mapKV (fun n => n) mdOf t) n = (get? t n).map mdOf :=
    get?_mapKV (fun n => n) mdOf (fun _ _ h => h) t n
  rw [hg]
  cases hgt : get? t n with
  | some v => simp
  | none =>
    simp only [Option.map_none, Option.isSome_none, Bool.false_eq_true, if_false]
    rw [al_set_of_none _ _ _ hgt, mapKV_append]
    rfl

theorem touchFold03 (ns : List Node) (t : List (Node × C03.Meta)) :
    mapKV (fun n => n) mdOf (ns.foldl C03.touchTable t) = touchNodes (mapKV (fun n => n) mdOf t) ns := by
  induction ns generalizing t with
  | nil => rfl
  | cons n ns ih =>
    simp only [List.foldl_cons, touchNodes] at ih ⊢
    rw [ih, touchTable03]

/-- map update of an insertion (`add_edge` after its argument checks) -/
theorem addKey03 (a : C03.Spec) (k : C03.Key) (wt : Int) (md : C03.Meta) (h : Dyn03 (ofSpec03 a)) :
    ofSpec03 (C03.Spec.addKey a k wt md) = addEdge opsT (ofSpec03 a) (keyT k) wt (mdOf md) := by
  unfold C03.Spec.addKey addEdge
  rw [edges03_get]
  cases hg : get? a.recs k with
  | none =>
    simp only [Option.map_none, addEdgeNew, ofSpec03, C03.Spec.recVal, al_set_of_none _ _ _ hg, mapKV_append,
      touchFold03]
    rfl
  | some v =>
    obtain ⟨w0, md0⟩ := v
    have hmem : (keyT k, recOf (w0, md0)) ∈ (ofSpec03 a).edges :=
      al_mem_of_get? (by rw [edges03_get, hg]; rfl)
    have hnoop : touchNodes (ofSpec03 a).nodes k.2 = (ofSpec03 a).nodes :=
      touchNodes_noop _ _ (fun m hm => h.wf.closed _ hmem m hm)
    simp only [Option.map_some, addEdgeOld, ofSpec03, C03.Spec.recVal, touchFold03]
    have h2 : touchNodes (mapKV (fun n => n) mdOf a.nodes) k.2 = mapKV (fun n => n) mdOf a.nodes := hnoop
    rw [h2]
    congr 1
    exact (set_mapKV keyT recOf keyT_inj a.recs k _).symm

theorem filter_bne_without (l : List Nat) (n : Nat) : l.filter (· != n) = without l n := by
  unfold without
  apply List.filter_congr
  intro x _
  by_cases hx : x = n <;> simp [hx]

theorem removeKey03 (a : C03.Spec) (k : C03.Key) :
    ((get? (ofSpec03 a).edges (keyT k)).isSome = true →
      (C03.Spec.removeKey a k).2 = .ok ∧ ofSpec03 (C03.Spec.removeKey a k).1 = removeEdge (ofSpec03 a) (keyT k)) ∧
    ((get? (ofSpec03 a).edges (keyT k)).isSome = false → C03.Spec.removeKey a k = (a, .rej)) := by
  rw [edges03_get, Option.isSome_map]
  unfold C03.Spec.removeKey
  constructor
  · intro hp
    rw [if_pos hp]
    refine ⟨rfl, ?_⟩
    simp only [removeEdge, ofSpec03]
    congr 1
    exact (erase_mapKV keyT recOf keyT_inj a.recs k).symm
  · intro hp
    rw [if_neg (by simp [hp])]

theorem al_erase_of_none {α β : Type} [DecidableEq α] (l : List (α × β)) (k : α) (h : get? l k = none) :
    erase l k = l := by
  induction l with
  | nil => rfl
  | cons hd t ih =>
    obtain ⟨k', v'⟩ := hd
    by_cases hk : k' = k
    · subst hk; simp [get?] at h
    · simp only [get?, hk, if_false] at h
      simp [erase, hk, ih h]

/-- one iteration of the loop of `remove_node` -/
theorem dropKey03 (a : C03.Spec) (n : Node) (keep : Bool) (k : C03.Key) (h : Dyn03 (ofSpec03 a)) :
    ofSpec03 (C03.Spec.dropKey a n keep k) =
      (if keep = true then shrinkOneK opsT n (ofSpec03 a) (keyT k) else removeEdge (ofSpec03 a) (keyT k)) := by
  unfold C03.Spec.dropKey shrinkOneK
  rw [edges03_get]
  cases hg : get? a.recs k with
  | none =>
    simp only [Option.map_none]
    cases keep with
    | true => rfl
    | false =>
      simp only [Bool.false_eq_true, if_false, removeEdge]
      rw [al_erase_of_none _ _ (by rw [edges03_get, hg]; rfl)]
  | some v =>
    obtain ⟨w0, md0⟩ := v
    have hc : get? (ofSpec03 a).edges (keyT k) = some (recOf (w0, md0)) := by rw [edges03_get, hg]; rfl
    have hmem : (keyT k, recOf (w0, md0)) ∈ (ofSpec03 a).edges := al_mem_of_get? hc
    have hrm : ofSpec03 { a with recs := erase a.recs k } = removeEdge (ofSpec03 a) (keyT k) := by
      simp only [removeEdge, ofSpec03]
      congr 1
      exact (erase_mapKV keyT recOf keyT_inj a.recs k).symm
    simp only [Option.map_some]
    cases keep with
    | false => simpa using hrm
    | true =>
      simp only [Bool.true_and, if_true, filter_bne_without]
      unfold shrinkOne
      simp only [opsT, keyT]
      by_cases hemp : without k.2 n = []
      · simp only [hemp, List.isEmpty_nil, Bool.not_true, Bool.false_eq_true, if_false, if_true]
        exact hrm
      · have hne : (without k.2 n).isEmpty = false := by
          cases hx : without k.2 n with
          | nil => exact absurd hx hemp
          | cons _ _ => rfl
        simp only [hemp, hne, Bool.not_false, if_true, if_false]
        have hd1 : Dyn03 (ofSpec03 { a with recs := erase a.recs k }) := by
          rw [hrm]; exact removeEdge_dyn opsT C03.one CanonT _ _ h
        have hw : a.weighted = false → w0 = C03.one := fun hwt => h.unitw hwt _ hmem
        have hsorted : SortedL (without k.2 n) := sortedL_without (h.canon _ hmem).1 n
        have hcan : C03.canon (without k.2 n) = without k.2 n := C03.canon_of_sorted _ hsorted
        have hcond : (!a.weighted && (some w0).isSome && (some w0 != some C03.one)) = false := by
          cases hwt : a.weighted with
          | true => rfl
          | false => simp [hw hwt]
        have hneg : ¬ ((k.1 : Int) < 0) := by omega
        unfold C03.Spec.addEdge
        simp only [hcond, Bool.false_eq_true, if_false, hneg, Int.toNat_natCast, hcan, Option.getD_some]
        rw [addKey03 _ _ _ _ hd1, hrm]
        rfl

theorem incident03 (a : C03.Spec) (n : Node) :
    (incident opsT (ofSpec03 a) n).map (·.1) =
      ((a.recs.filter (fun p => p.1.2.contains n)).map (·.1)).map keyT := by
  have h2 : (ofSpec03 a).edges.filter
      (fun e => !(opsT.first e.1).contains n && (opsT.nodesOf e.1).contains n) = [] := by
    apply List.filter_eq_nil_iff.mpr
    intro e _
    simp [opsT]
  unfold incident
  rw [h2, List.append_nil]
  simp only [ofSpec03, mapKV, List.filter_map, List.map_map]
  congr 1
  apply List.filter_congr
  intro p _
  simp [opsT, keyT, Function.comp_def]

/-- `remove_node(node, keep_edges)` of the abstract `TemporalHypergraph` is C19's `removeNode opsT` -/
theorem removeNode03 (a : C03.Spec) (h : Dyn03 (ofSpec03 a)) (n : Node) (keep : Bool) :
    ((get? a.nodes n).isSome = true →
      (C03.Spec.removeNode a n keep).2 = .ok ∧
      ofSpec03 (C03.Spec.removeNode a n keep).1 = removeNode opsT keep (ofSpec03 a) n) ∧
    ((get? a.nodes n).isSome = false → C03.Spec.removeNode a n keep = (a, .rej)) := by
  refine ⟨fun hn => ?_, fun hn => by unfold C03.Spec.removeNode; simp [hn]⟩
  have hkeys := incident03 a n
  have hrec := incident_rec opsT (ofSpec03 a) n h.wf.keysNodup
  have hinc_n : ∀ e ∈ incident opsT (ofSpec03 a) n, n ∈ opsT.nodesOf e.1 :=
    fun e he => ((mem_incident opsT _ n e).mp he).2
  have hdist := incident_keys_nodup opsT (ofSpec03 a) n h.wf.keysNodup
  obtain ⟨f1, f2⟩ := foldl_sim ofSpec03 (fun a k => C03.Spec.dropKey a n keep k)
    (fun c k => if keep = true then shrinkOneK opsT n c (keyT k) else removeEdge c (keyT k)) Dyn03
    (fun a' k hi => dropKey03 a' n keep k hi)
    (fun c k hi => by
      cases keep with
      | true => exact shrinkOneK_dyn opsT lawful_T C03.one CanonT canonShrink_T n c (keyT k) hi
      | false => exact removeEdge_dyn opsT C03.one CanonT c (keyT k) hi)
    ((a.recs.filter (fun p => p.1.2.contains n)).map (·.1)) a h
  unfold C03.Spec.removeNode
  simp only [hn, if_true]
  refine ⟨trivial, ?_⟩
  have hnodes : ∀ (sp1 : C03.Spec), ofSpec03 { sp1 with nodes := erase sp1.nodes n } = dropNode (ofSpec03 sp1) n := by
    intro sp1
    simp only [ofSpec03, dropNode]
    congr 1
    exact (erase_mapKV (fun n => n) mdOf (fun _ _ h => h) sp1.nodes n).symm
  rw [hnodes, f1]
  unfold removeNode keepLoop
  cases keep with
  | true =>
    simp only [if_true, show opsT.batch = false from rfl, Bool.false_eq_true, if_false]
    rw [← List.foldl_map (f := keyT) (g := shrinkOneK opsT n), ← hkeys]
    rw [foldl_shrinkOneK opsT lawful_T n _ _ hinc_n h.wf.keysNodup hdist hrec]
  | false =>
    simp only [Bool.false_eq_true, if_false]
    rw [← List.foldl_map (f := keyT) (g := removeEdge), ← hkeys, List.foldl_map]

/-! ### the concrete store -/

theorem dyn03_of_inv (s : C03.Store) (h : C03.Inv s) : Dyn03 (ofSpec03 (C03.abs s)) := by
  have hmem : ∀ e ∈ (ofSpec03 (C03.abs s)).edges, ∃ k id, get? s.edgeList k = some id ∧
      e = (keyT k, recOf (C03.valOf s id)) := by
    intro e he
    simp only [ofSpec03, mapKV, C03.abs, C03.records, List.map_map, List.mem_map] at he
    obtain ⟨p, hp, rfl⟩ := he
    exact ⟨p.1, p.2, al_get?_of_mem h.keysNodup hp, rfl⟩
  refine ⟨⟨?_, ?_, ?_⟩, ?_, ?_⟩
  · apply keys_mapKV_nodup (fun n => n) mdOf (fun _ _ e => e)
    exact h.nt.nmetaNodup
  · apply keys_mapKV_nodup keyT recOf keyT_inj
    show (keys (C03.records s)).Nodup
    rw [C03.keys_records]; exact h.keysNodup
  · intro e he m hm
    obtain ⟨k, id, hid, rfl⟩ := hmem e he
    have h1 := h.nodes_in k id hid m hm
    rw [h.nt.same] at h1
    simp only [ofSpec03, keys_mapKV, List.map_id']
    exact (al_isSome_iff_mem _ _).mp h1
  · intro hw e he
    obtain ⟨k, id, hid, rfl⟩ := hmem e he
    have hw1 : (get? s.weights id).isSome := by rw [h.wKeys]; simp [h.rev_of_edge _ _ hid]
    obtain ⟨w0, hw0⟩ := Option.isSome_iff_exists.mp hw1
    simp only [recOf, C03.valOf, hw0, Option.getD_some]
    exact h.unw hw id w0 hw0
  · intro e he
    obtain ⟨k, id, hid, rfl⟩ := hmem e he
    exact ⟨(h.keyCanon k id hid).1, k.1, rfl⟩

/-- `get_nodes(metadata=True)` / `get_edges(metadata=True)` of a `TemporalHypergraph` object -/
def view03 (s : C03.Store) : Content Key Int := ofSpec03 (C03.abs s)

def rmNode03 (keep : Bool) (s : C03.Store) (n : Node) : C03.Store × Bool :=
  ((C03.applyOp s (.removeNode n keep)).1, decide ((C03.applyOp s (.removeNode n keep)).2 = .ok))

/-- `remove_edge(nodes, time)` for a key `(nodes, [time])` as `get_edges` lists it -/
def rmEdge03 (s : C03.Store) (k : Key) : C03.Store × Bool :=
  match k.2 with
  | [t] => ((C03.applyOp s (.removeEdge k.1 (.int t))).1, decide ((C03.applyOp s (.removeEdge k.1 (.int t))).2 = .ok))
  | _ => (s, false)

theorem rmNode03_link (keep : Bool) (s : C03.Store) (n : Node) (h : C03.Inv s) :
    ((rmNode03 keep s n).2 = true ↔ (removeNode? opsT keep (view03 s) n).isSome) ∧
    ((rmNode03 keep s n).2 = true → C03.Inv (rmNode03 keep s n).1 ∧
      view03 (rmNode03 keep s n).1 = removeNode opsT keep (view03 s) n) := by
  obtain ⟨s1, s2⟩ := C03.applyOp_abs s h (.removeNode n keep) trivial
  have s3 := C03.applyOp_inv s h (.removeNode n keep) trivial
  obtain ⟨l1, l2⟩ := removeNode03 (C03.abs s) (dyn03_of_inv s h) n keep
  have hpres : (get? (view03 s).nodes n).isSome = (get? (C03.abs s).nodes n).isSome := by
    simp only [view03, nodes03_get, Option.isSome_map]
  simp only [rmNode03, view03, removeNode?, decide_eq_true_eq]
  rw [s1, s2]
  simp only [C03.Spec.applyOp]
  by_cases hn : (get? (C03.abs s).nodes n).isSome = true
  · have hn' : (get? (ofSpec03 (C03.abs s)).nodes n).isSome = true := by rw [← hn]; exact hpres
    obtain ⟨a1, a2⟩ := l1 hn
    simp only [hn', if_true, Option.isSome_some, a1, true_iff, forall_const]
    exact ⟨trivial, s3, a2⟩
  · have hnf : (get? (C03.abs s).nodes n).isSome = false := by simpa using hn
    have hn' : (get? (ofSpec03 (C03.abs s)).nodes n).isSome = false := by rw [← hnf]; exact hpres
    rw [l2 hnf]
    simp [hn']

theorem rmEdge03_link (s : C03.Store) (k : Key) (h : C03.Inv s) (hk : CanonT k) :
    ((rmEdge03 s k).2 = true ↔ (removeEdge? (view03 s) k).isSome) ∧
    ((rmEdge03 s k).2 = true → C03.Inv (rmEdge03 s k).1 ∧ view03 (rmEdge03 s k).1 = removeEdge (view03 s) k) := by
  obtain ⟨k1, k2⟩ := k
  obtain ⟨hsorted, t, ht⟩ := hk
  simp only at hsorted ht
  subst ht
  obtain ⟨s1, s2⟩ := C03.applyOp_abs s h (.removeEdge k1 (.int t)) trivial
  have s3 := C03.applyOp_inv s h (.removeEdge k1 (.int t)) trivial
  have hmk : C03.mkKey k1 (.int (t : Int)) = some (t, k1) := by
    simp [C03.mkKey, C03.validTime, C03.canon_of_sorted _ hsorted]
  obtain ⟨l1, l2⟩ := removeKey03 (C03.abs s) (t, k1)
  have hkk : keyT (t, k1) = (k1, [t]) := rfl
  rw [hkk] at l1 l2
  simp only [rmEdge03, view03, removeEdge?, decide_eq_true_eq]
  rw [s1, s2]
  simp only [C03.Spec.applyOp, C03.Spec.removeEdge, hmk]
  by_cases hp : (get? (ofSpec03 (C03.abs s)).edges (k1, [t])).isSome = true
  · obtain ⟨a1, a2⟩ := l1 hp
    simp only [hp, if_true, Option.isSome_some, a1, true_iff, forall_const]
    exact ⟨trivial, s3, a2⟩
  · have hp' : (get? (ofSpec03 (C03.abs s)).edges (k1, [t])).isSome = false := by simpa using hp
    rw [l2 hp']
    simp [hp']

/-- **`filter_hypergraph` on a `TemporalHypergraph` object** (same statement as `filter01`). -/
theorem filter03 (s : C03.Store) (h : C03.Inv s) (nc ec : Option Crit) (mode : Mode) (keep : Bool) :
    let r := filterVia view03 (rmNode03 keep) rmEdge03 s nc ec mode
    r.2 = true ∧ C03.Inv r.1 ∧ view03 r.1 = filterHg opsT (view03 s) nc ec mode keep :=
  filterVia_eq opsT lawful_T keep view03 (rmNode03 keep) rmEdge03 C03.Inv CanonT
    (fun s hs => (dyn03_of_inv s hs).wf) (fun s hs => (dyn03_of_inv s hs).canon)
    (fun s n hs => rmNode03_link keep s n hs) (fun s k hs hk => rmEdge03_link s k hs hk) s h nc ec mode

end C19
