import Hgxv.Model.C05Batch
import Hgxv.Proofs.C05Node
/-! Calls that raise half-way (`Model/C05Batch.lean`): `remove_node` as the code runs it on EVERY node, the removal batches.
Core Lean only. -/
namespace C05

set_option linter.unusedSectionVars false
variable {κ : Type} [DecidableEq κ] [Keyed κ]

/-- a nodup incident list means the node is on one side only -/
class KeyedLaws2 (κ : Type) [DecidableEq κ] [Keyed κ] : Prop where
  twice_of_nodup : ∀ (n : Node) (ks : List κ), (Keyed.incident n ks).Nodup → ∀ k ∈ ks, Keyed.twice n k = false

instance : KeyedLaws2 UKey where
  twice_of_nodup := fun _ _ _ _ _ => rfl

instance : KeyedLaws2 DKey where
  twice_of_nodup := by
    intro n ks hnd k hk
    simp only [Keyed.incident] at hnd
    have hd := (List.nodup_append.1 hnd).2.2
    cases h1 : decide (n ∈ k.1) with
    | false => simp [Keyed.twice, h1]
    | true =>
      cases h2 : decide (n ∈ k.2) with
      | false => simp [Keyed.twice, h2]
      | true =>
        exact absurd rfl (hd k (List.mem_filter.2 ⟨hk, h1⟩) k (List.mem_filter.2 ⟨hk, h2⟩))

theorem loopRaw_of_foldlM {α : Type} (g : Content κ → α → Option (Content κ)) : ∀ (xs : List α) (c c' : Content κ),
    xs.foldlM g c = some c' → loopRaw (fun h k => orSame h (g h k)) c xs = (c', true) := by
  intro xs
  induction xs with
  | nil => intro c c' e; simp at e; subst e; rfl
  | cons x xs ih =>
    intro c c' e
    cases hx : g c x with
    | none => simp [List.foldlM_cons, hx] at e
    | some c1 =>
      rw [foldlM_some_cons _ _ _ _ _ hx] at e
      simp only [loopRaw, hx, orSame, ↓reduceIte]
      exact ih c1 c' e

theorem loopRaw_inv {α : Type} (P : Content κ → Prop) (f : Content κ → α → Content κ × Bool)
    (hf : ∀ c x, P c → P (f c x).1) : ∀ (xs : List α) (c : Content κ), P c → P (loopRaw f c xs).1 := by
  intro xs
  induction xs with
  | nil => intro c h; exact h
  | cons x xs ih =>
    intro c h
    simp only [loopRaw]
    split
    · exact ih _ (hf c x h)
    · exact hf c x h

/-- a removal loop that comes through walked distinct hyperedges -/
theorem loop_remove_true : ∀ (xs : List κ) (h : Content κ), (keysOf h).Nodup →
    (loopRaw (fun h k => orSame h (removeEdge h k)) h xs).2 = true → xs.Nodup ∧ ∀ x ∈ xs, x ∈ keysOf h := by
  intro xs
  induction xs with
  | nil => intro h _ _; exact ⟨List.nodup_nil, by simp⟩
  | cons x xs ih =>
    intro h hnd e
    simp only [loopRaw] at e
    by_cases hh : AL.has h.edges x = true
    · simp only [removeEdge, hh, ↓reduceIte, orSame] at e
      have hnd' : (keysOf ({ h with edges := AL.erase h.edges x } : Content κ)).Nodup :=
        C05AL.keys_erase_nodup _ _ hnd
      obtain ⟨i1, i2⟩ := ih _ hnd' e
      have hx : x ∈ keysOf h := (C05AL.has_iff _ _).1 hh
      refine ⟨List.nodup_cons.2 ⟨?_, i1⟩, ?_⟩
      · intro hxs
        have := i2 x hxs
        simp only [keysOf, AL.keys_erase_perm] at this
        exact ((List.Nodup.mem_erase_iff hnd).1 this).1 rfl
      · intro y hy
        rcases List.mem_cons.1 hy with rfl | hy
        · exact hx
        · exact C05AL.mem_keys_erase _ _ _ (i2 y hy)
    · simp [removeEdge, hh, orSame] at e

/-- where the old model accepts `remove_node`, the literal run returns with the same object -/
theorem removeNodeRaw_of_some (c c' : Content κ) (n : Node) (keep : Bool) (e : removeNode c n keep = some c') :
    removeNodeRaw c n keep = (c', true) := by
  unfold removeNode at e
  unfold removeNodeRaw
  by_cases hh : AL.has c.nodes n = true
  · simp only [hh, Bool.not_true, Bool.false_eq_true, ↓reduceIte] at e ⊢
    split at e
    · cases e
    · cases keep with
      | false =>
        simp only [Bool.false_eq_true, ↓reduceIte, Option.bind_eq_bind, Option.bind_some] at e ⊢
        cases h2 : (Keyed.incident n (AL.keys c.edges)).foldlM removeEdge c with
        | none => simp [h2] at e
        | some c2 =>
          simp only [h2, Option.bind_some, Option.some.injEq] at e
          rw [loopRaw_of_foldlM removeEdge _ _ _ h2]
          simp [e]
      | true =>
        simp only [↓reduceIte, Option.bind_eq_bind] at e ⊢
        cases h1 : (Keyed.incident n (AL.keys c.edges)).foldlM (shrinkInto n) c with
        | none => simp [h1] at e
        | some c1 =>
          simp only [h1, Option.bind_some] at e
          cases h2 : (Keyed.incident n (AL.keys c.edges)).foldlM removeEdge c1 with
          | none => simp [h2] at e
          | some c2 =>
            simp only [h2, Option.bind_some, Option.some.injEq] at e
            rw [loopRaw_of_foldlM (shrinkInto n) _ _ _ h1]
            simp only [Bool.not_true, Bool.false_eq_true, ↓reduceIte]
            rw [loopRaw_of_foldlM removeEdge _ _ _ h2]
            simp [e]
  · simp [hh] at e

/-- what the loops of a failing `remove_node` keep -/
def Kept (c h : Content κ) : Prop :=
  WF h ∧ h.nodes = c.nodes ∧ h.weighted = c.weighted ∧ aux h = aux c

theorem kept_removeEdge [KeyedLaws κ] (c h : Content κ) (k : κ) (hk : Kept c h) :
    Kept c (orSame h (removeEdge h k)).1 := by
  cases e : removeEdge h k with
  | none => exact hk
  | some h' =>
    have hw : WF h' := wf_apply? h h' (.removeEdge k) hk.1 e
    simp only [removeEdge] at e
    split at e
    · cases e; exact ⟨hw, hk.2.1, hk.2.2.1, hk.2.2.2⟩
    · cases e

/-- `remove_node` as the code runs it, under `WF`: the three cases -/
theorem removeNodeRaw_spec [KeyedLaws κ] [KeyedLaws2 κ] (c : Content κ) (n : Node) (keep : Bool) (hwf : WF c) :
    (n ∉ nodesOf c → removeNodeRaw c n keep = (c, false)) ∧
    (n ∈ nodesOf c → onBothSides c n = false →
      ∃ c', removeNode c n keep = some c' ∧ removeNodeRaw c n keep = (c', true)) ∧
    (n ∈ nodesOf c → onBothSides c n = true →
      (removeNodeRaw c n keep).2 = false ∧ Kept c (removeNodeRaw c n keep).1) := by
  refine ⟨?_, ?_, ?_⟩
  · intro hn
    have : AL.has c.nodes n = false := by
      cases hh : AL.has c.nodes n with
      | false => rfl
      | true => exact absurd ((C05AL.has_iff _ _).1 hh) hn
    simp [removeNodeRaw, this]
  · intro hn htw
    obtain ⟨c1, _, _, e2⟩ := removeNode_spec c n keep hwf hn htw
    exact ⟨_, e2, removeNodeRaw_of_some c _ n keep e2⟩
  · intro hn htw
    have hhas : AL.has c.nodes n = true := (C05AL.has_iff _ _).2 hn
    have hin2 : ∀ k ∈ Keyed.incident n (keysOf c), k ∈ keysOf c ∧ n ∈ Keyed.members k :=
      fun k hk => (KeyedLaws.mem_incident n _ k).1 hk
    have hi0 : ShrinkInv n c c := ⟨hwf, fun _ hx => hx, fun _ hx => .inl hx, rfl, rfl, rfl⟩
    have hc1 : ∃ c1, (if keep then loopRaw (fun h k => orSame h (shrinkInto n h k)) c (Keyed.incident n (keysOf c))
        else (c, true)) = (c1, true) ∧ ShrinkInv n c c1 := by
      cases keep with
      | false => exact ⟨c, rfl, hi0⟩
      | true =>
        obtain ⟨r, e, hi⟩ := foldShrink n c _ c hin2 hi0
        exact ⟨r, by simpa using loopRaw_of_foldlM (shrinkInto n) _ _ _ e, hi⟩
    obtain ⟨c1, e1, hi1⟩ := hc1
    have hk1 : Kept c c1 := ⟨hi1.1, hi1.2.2.2.2.2, hi1.2.2.2.1, hi1.2.2.2.2.1⟩
    have hfail : (loopRaw (fun h k => orSame h (removeEdge h k)) c1 (Keyed.incident n (keysOf c))).2 = false := by
      cases hb : (loopRaw (fun h k => orSame h (removeEdge h k)) c1 (Keyed.incident n (keysOf c))).2 with
      | false => rfl
      | true =>
        obtain ⟨hnd, _⟩ := loop_remove_true _ c1 hi1.1.keys_nodup hb
        have := KeyedLaws2.twice_of_nodup n (keysOf c) hnd
        simp only [onBothSides, List.any_eq_true] at htw
        obtain ⟨k, hk, hkt⟩ := htw
        rw [this k hk] at hkt; cases hkt
    have hkept := loopRaw_inv (Kept c) (fun h k => orSame h (removeEdge h k)) (fun h k hk => kept_removeEdge c h k hk)
      (Keyed.incident n (keysOf c)) c1 hk1
    unfold removeNodeRaw
    simp only [hhas, Bool.not_true, Bool.false_eq_true, ↓reduceIte]
    simp only [keysOf] at e1 hfail hkept
    simp only [e1, Bool.not_true, Bool.false_eq_true, ↓reduceIte, hfail, Bool.not_false]
    exact ⟨trivial, hkept⟩

theorem wf_removeNodeRaw [KeyedLaws κ] [KeyedLaws2 κ] (c : Content κ) (n : Node) (keep : Bool) (hwf : WF c) :
    WF (removeNodeRaw c n keep).1 := by
  obtain ⟨h1, h2, h3⟩ := removeNodeRaw_spec c n keep hwf
  by_cases hn : n ∈ nodesOf c
  · cases htw : onBothSides c n with
    | false =>
      obtain ⟨c', e1, e2⟩ := h2 hn htw
      rw [e2]; exact wf_removeNode c c' n keep hwf e1
    | true => exact (h3 hn htw).2.1
  · rw [h1 hn]; exact hwf

theorem wf_removeEdgesB [KeyedLaws κ] [Batch κ] (c : Content κ) (ks : List κ) (hwf : WF c) :
    WF (removeEdgesB c ks).1 := by
  unfold removeEdgesB
  split
  · exact hwf
  · exact loopRaw_inv WF _ (fun h k hk => (kept_removeEdge h h k ⟨hk, rfl, rfl, rfl⟩).1) ks c hwf

theorem wf_removeNodesB [KeyedLaws κ] [KeyedLaws2 κ] [Batch κ] (c : Content κ) (ns : List Node) (keep : Bool)
    (hwf : WF c) : WF (removeNodesB c ns keep).1 := by
  unfold removeNodesB
  split
  · exact hwf
  · exact loopRaw_inv WF _ (fun h n hk => wf_removeNodeRaw h n keep hk) ns c hwf

theorem wf_stepX [KeyedLaws κ] [KeyedLaws2 κ] [Batch κ] (c : Content κ) (op : OpX κ) (hwf : WF c) :
    WF (stepX c op) := by
  cases op with
  | base op =>
    have := wf_step c op hwf
    unfold step at this
    show WF (orSame c (apply? c op)).1
    cases e : apply? c op with
    | none => exact hwf
    | some c' => simpa [e, orSame] using this
  | removeNodeRaw n keep => exact wf_removeNodeRaw c n keep hwf
  | removeEdges ks => exact wf_removeEdgesB c ks hwf
  | removeNodes ns keep => exact wf_removeNodesB c ns keep hwf

theorem wf_runX [KeyedLaws κ] [KeyedLaws2 κ] [Batch κ] (c : Content κ) (ops : List (OpX κ)) (hwf : WF c) :
    WF (runX c ops) := by
  induction ops generalizing c with
  | nil => exact hwf
  | cons op ops ih => exact ih (stepX c op) (wf_stepX c op hwf)

/-- `Hypergraph.remove_edges` (the validating class): all-or-nothing, and an accepted batch is ONE filter -/
theorem removeEdgesB_validating [Batch κ] (hv : Batch.validates κ = true) (c : Content κ) (ks : List κ) (hwf : WF c) :
    ((ks.all (fun k => AL.has c.edges k) && decide ks.Nodup) = true →
      removeEdgesB c ks = ({ c with edges := c.edges.filter (fun e => decide (e.1 ∉ ks)) }, true)) ∧
    ((ks.all (fun k => AL.has c.edges k) && decide ks.Nodup) = false → removeEdgesB c ks = (c, false)) := by
  constructor
  · intro h
    unfold removeEdgesB
    simp only [hv, h, Bool.not_true, Bool.and_false, Bool.false_eq_true, ↓reduceIte]
    simp only [Bool.and_eq_true, List.all_eq_true, decide_eq_true_eq] at h
    exact loopRaw_of_foldlM removeEdge _ _ _
      (foldRemove_eq ks c hwf.keys_nodup (fun k hk => (C05AL.has_iff _ _).1 (h.1 k hk)) h.2)
  · intro h
    unfold removeEdgesB
    simp [hv, h]

/-- a batch of distinct present nodes, none of which can be on both sides (`Hypergraph`): the loop comes through, and it
is the run of the single `remove_node` calls -/
theorem loop_removeNodes_valid [KeyedLaws κ] (htw : ∀ (c : Content κ) (n : Node), onBothSides c n = false) (keep : Bool) :
    ∀ (ns : List Node) (c : Content κ), WF c → (∀ n ∈ ns, n ∈ nodesOf c) → ns.Nodup →
    loopRaw (fun h n => removeNodeRaw h n keep) c ns =
      (ns.foldl (fun h n => step h (.removeNode n keep)) c, true) := by
  intro ns
  induction ns with
  | nil => intro c _ _ _; rfl
  | cons n ns ih =>
    intro c hwf hin hnd
    obtain ⟨c1, _, hi1, e2⟩ := removeNode_spec c n keep hwf (hin n List.mem_cons_self) (htw c n)
    obtain ⟨c', e2, hc'⟩ : ∃ c', removeNode c n keep = some c' ∧ c'.nodes = AL.erase c1.nodes n := ⟨_, e2, rfl⟩
    have hraw := removeNodeRaw_of_some c c' n keep e2
    have hstep : step c (.removeNode n keep) = c' := by
      show (removeNode c n keep).getD c = c'
      rw [e2]; rfl
    have hwf' := wf_removeNode c _ n keep hwf e2
    rw [List.nodup_cons] at hnd
    simp only [loopRaw, hraw, ↓reduceIte, List.foldl_cons, hstep]
    apply ih _ hwf' _ hnd.2
    intro m hm
    simp only [nodesOf, hc']
    have hm0 : m ∈ AL.keys c1.nodes := by rw [hi1.2.2.2.2.2]; exact hin m (List.mem_cons_of_mem _ hm)
    exact C05AL.mem_keys_erase_of_ne _ _ _ hm0 (fun e => hnd.1 (e ▸ hm))

/-- `Hypergraph.remove_nodes` (the validating class): all-or-nothing; an accepted batch is the run of the single calls -/
theorem removeNodesB_validating [KeyedLaws κ] [Batch κ] (hv : Batch.validates κ = true)
    (htw : ∀ (c : Content κ) (n : Node), onBothSides c n = false) (c : Content κ) (ns : List Node) (keep : Bool)
    (hwf : WF c) :
    ((ns.all (fun n => AL.has c.nodes n) && decide ns.Nodup) = true →
      removeNodesB c ns keep = (ns.foldl (fun h n => step h (.removeNode n keep)) c, true)) ∧
    ((ns.all (fun n => AL.has c.nodes n) && decide ns.Nodup) = false → removeNodesB c ns keep = (c, false)) := by
  constructor
  · intro h
    unfold removeNodesB
    simp only [hv, h, Bool.not_true, Bool.and_false, Bool.false_eq_true, ↓reduceIte]
    simp only [Bool.and_eq_true, List.all_eq_true, decide_eq_true_eq] at h
    exact loop_removeNodes_valid htw keep ns c hwf (fun n hn => (C05AL.has_iff _ _).1 (h.1 n hn)) h.2
  · intro h
    unfold removeNodesB
    simp [hv, h]

end C05
