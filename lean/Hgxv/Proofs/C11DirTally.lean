import Hgxv.Proofs.C11Dir
/-! # C11 - `dtally` (the `mapping[rappr] += 1` dict) in closed form; it only depends on the multiset of keys -/
namespace C11

/-- distinct keys in first-seen order, each with its number of occurrences -/
def dspec (keys : List (List DEdge)) : List (List DEdge × Nat) :=
  (dedup keys).map fun k => (k, keys.count k)

theorem bump_map (k : List DEdge) (g : List DEdge → Nat) (l : List (List DEdge)) (hl : l.Nodup) :
    bump k (l.map fun k' => (k', g k'))
      = if k ∈ l then l.map (fun k' => (k', if k' = k then g k' + 1 else g k'))
        else l.map (fun k' => (k', g k')) ++ [(k, 1)] := by
  induction l with
  | nil => simp [bump]
  | cons a l ih =>
    have hnd := List.nodup_cons.mp hl
    simp only [List.map_cons, bump]
    by_cases hak : a = k
    · subst hak
      simp only [beq_self_eq_true, if_true, List.mem_cons, true_or]
      congr 1
      apply List.map_congr_left
      intro k' hk'
      have : k' ≠ a := fun e => hnd.1 (e ▸ hk')
      simp [this]
    · have hb : (a == k) = false := by simpa using hak
      simp only [hb, Bool.false_eq_true, if_false, ih hnd.2, List.mem_cons]
      have hka : ¬ k = a := fun e => hak e.symm
      by_cases hkl : k ∈ l
      · simp [hkl, hak]
      · simp [hkl, hka]

theorem dedup_snoc {α} [BEq α] [LawfulBEq α] (P : List α) (k : α) :
    dedup (P ++ [k]) = if k ∈ P then dedup P else dedup P ++ [k] := by
  have h1 : dedup (P ++ [k]) = if (dedup P).contains k then dedup P else dedup P ++ [k] := by
    unfold dedup; rw [List.foldl_append]; rfl
  rw [h1]
  by_cases h : k ∈ P
  · have : (dedup P).contains k = true := List.contains_iff_mem.mpr (mem_dedup.mpr h)
    rw [this]; simp [h]
  · have : (dedup P).contains k = false :=
      Bool.eq_false_iff.mpr (fun hh => h (mem_dedup.mp (List.contains_iff_mem.mp hh)))
    rw [this]; simp [h]

theorem bump_dspec (P : List (List DEdge)) (k : List DEdge) : bump k (dspec P) = dspec (P ++ [k]) := by
  unfold dspec
  rw [bump_map k (fun k' => P.count k') (dedup P) (nodup_dedup P), dedup_snoc]
  by_cases h : k ∈ P
  · have hd : k ∈ dedup P := mem_dedup.mpr h
    simp only [hd, h, if_true]
    apply List.map_congr_left
    intro k' _
    rw [List.count_append, List.count_singleton]
    by_cases e : k' = k
    · subst e; simp
    · have : (k == k') = false := by simpa using fun e' => e e'.symm
      simp [e, this]
  · have hd : ¬ k ∈ dedup P := fun hh => h (mem_dedup.mp hh)
    simp only [hd, h, if_false, List.map_append, List.map_cons, List.map_nil]
    congr 1
    · apply List.map_congr_left
      intro k' hk'
      have hne : k' ≠ k := fun e => hd (e ▸ hk')
      have : (k == k') = false := by simpa using fun e' => hne e'.symm
      rw [List.count_append, List.count_singleton]
      simp [this]
    · rw [List.count_append, List.count_eq_zero_of_not_mem h]; simp

theorem dtally_aux (keys : List (List DEdge)) : ∀ P : List (List DEdge),
    keys.foldl (fun acc k => bump k acc) (dspec P) = dspec (P ++ keys) := by
  induction keys with
  | nil => intro P; simp
  | cons k keys ih =>
    intro P
    simp only [List.foldl_cons]
    rw [bump_dspec, ih]
    simp

theorem dtally_eq (keys : List (List DEdge)) : dtally keys = dspec keys := by
  have := dtally_aux keys []
  simpa [dtally, dspec, dedup] using this

/-- the tally only depends on the keys up to order -/
theorem dtally_perm {keys keys' : List (List DEdge)} (h : keys.Perm keys') :
    (dtally keys).Perm (dtally keys') := by
  rw [dtally_eq, dtally_eq]
  unfold dspec
  have hd : (dedup keys).Perm (dedup keys') :=
    (List.perm_ext_iff_of_nodup (nodup_dedup _) (nodup_dedup _)).mpr (fun x => by
      rw [mem_dedup, mem_dedup]; exact h.mem_iff)
  have hf : (dedup keys').map (fun k => (k, keys'.count k)) = (dedup keys').map (fun k => (k, keys.count k)) := by
    apply List.map_congr_left
    intro k _
    rw [h.count_eq]
  rw [hf]
  exact hd.map _

end C11
