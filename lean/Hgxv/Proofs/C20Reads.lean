import Hgxv.Model.C20Reads
import Hgxv.Proofs.C20
/-! Lemmas for `C20_line_reads` / `C20_edges_reads` (core Lean only): under `Coherent` the loops of `line_graph` over
the readings `get_incident_edges` / `len(h)` produce the line graph of the listing. -/
namespace C20
open AL

section Generic
variable {β : Type}

/-- `pairsLt l` holds exactly the pairs `(l[i], l[j])` with `i < j` -/
theorem mem_pairsLt (l : List β) (x y : β) :
    (x, y) ∈ pairsLt l ↔ ∃ i j : Nat, i < j ∧ l[i]? = some x ∧ l[j]? = some y := by
  induction l with
  | nil => simp [pairsLt]
  | cons a t ih =>
    simp only [pairsLt, List.mem_append, List.mem_map, Prod.mk.injEq, ih]
    constructor
    · rintro (⟨b, hb, rfl, rfl⟩ | ⟨i, j, hij, hi, hj⟩)
      · obtain ⟨j, hj⟩ := List.mem_iff_getElem?.mp hb
        exact ⟨0, j + 1, by omega, by simp, by simpa using hj⟩
      · exact ⟨i + 1, j + 1, by omega, by simpa using hi, by simpa using hj⟩
    · rintro ⟨i, j, hij, hi, hj⟩
      cases j with
      | zero => omega
      | succ j =>
        cases i with
        | zero =>
          left
          refine ⟨y, List.mem_iff_getElem?.mpr ⟨j, by simpa using hj⟩, ?_, rfl⟩
          simpa using hi
        | succ i =>
          right
          exact ⟨i, j, by omega, by simpa using hi, by simpa using hj⟩

theorem mem_of_mem_pairsLt {l : List β} {x y : β} (h : (x, y) ∈ pairsLt l) : x ∈ l ∧ y ∈ l := by
  obtain ⟨i, j, _, hi, hj⟩ := (mem_pairsLt l x y).mp h
  exact ⟨List.mem_iff_getElem?.mpr ⟨i, hi⟩, List.mem_iff_getElem?.mpr ⟨j, hj⟩⟩

theorem ne_of_mem_pairsLt {l : List β} (hl : l.Nodup) {x y : β} (h : (x, y) ∈ pairsLt l) : x ≠ y := by
  obtain ⟨i, j, hij, hi, hj⟩ := (mem_pairsLt l x y).mp h
  intro hxy
  subst hxy
  obtain ⟨hi', hxi⟩ := List.getElem?_eq_some_iff.mp hi
  obtain ⟨hj', hxj⟩ := List.getElem?_eq_some_iff.mp hj
  have := (List.getElem_inj hl).mp (hxi.trans hxj.symm)
  omega

theorem mem_pairsLt_of_ne {l : List β} {x y : β} (hx : x ∈ l) (hy : y ∈ l) (hne : x ≠ y) :
    (x, y) ∈ pairsLt l ∨ (y, x) ∈ pairsLt l := by
  obtain ⟨i, hi⟩ := List.mem_iff_getElem?.mp hx
  obtain ⟨j, hj⟩ := List.mem_iff_getElem?.mp hy
  have hij : i ≠ j := by
    intro h
    subst h
    rw [hi] at hj
    exact hne (Option.some.inj hj)
  by_cases h : i < j
  · exact Or.inl ((mem_pairsLt l x y).mpr ⟨i, j, h, hi, hj⟩)
  · exact Or.inr ((mem_pairsLt l y x).mpr ⟨j, i, by omega, hj, hi⟩)

theorem mem_foldl_addNew [DecidableEq β] (l acc : List β) (x : β) : x ∈ l.foldl addNew acc ↔ x ∈ acc ∨ x ∈ l := by
  induction l generalizing acc with
  | nil => simp
  | cons a t ih =>
    rw [List.foldl_cons, ih]
    unfold addNew
    by_cases ha : a ∈ acc
    · rw [if_pos ha]
      constructor
      · rintro (h | h)
        · exact Or.inl h
        · exact Or.inr (List.mem_cons_of_mem _ h)
      · rintro (h | h)
        · exact Or.inl h
        · rcases List.mem_cons.mp h with rfl | h
          · exact Or.inl ha
          · exact Or.inr h
    · rw [if_neg ha]
      simp only [List.mem_append, List.mem_cons, List.not_mem_nil, or_false, or_assoc]

theorem mem_dedupe [DecidableEq β] (l : List β) (x : β) : x ∈ dedupe l ↔ x ∈ l := by
  simp [dedupe, mem_foldl_addNew]

theorem dedupe_nodup [DecidableEq β] (l : List β) : (dedupe l).Nodup :=
  foldl_addNew_nodup l [] List.nodup_nil

end Generic

section Static
variable {α : Type} [DecidableEq α]

/-- the overlap of duplicate-free hyperedges does not depend on the order of the two -/
theorem inter_comm {a b : List α} (ha : a.Nodup) (hb : b.Nodup) : inter a b = inter b a := by
  unfold inter
  apply List.Perm.length_eq
  apply (List.perm_ext_iff_of_nodup (List.Nodup.sublist List.filter_sublist ha)
    (List.Nodup.sublist List.filter_sublist hb)).mpr
  intro x
  simp only [List.mem_filter, decide_eq_true_eq]
  exact And.comm

theorem one_le_inter {a b : List α} {x : α} (ha : x ∈ a) (hb : x ∈ b) : 1 ≤ inter a b := by
  unfold inter
  exact List.length_pos_of_mem (List.mem_filter.mpr ⟨ha, by simpa using hb⟩)

theorem exists_common_of_inter {a b : List α} (h : 1 ≤ inter a b) : ∃ x, x ∈ a ∧ x ∈ b := by
  unfold inter at h
  obtain ⟨x, hx⟩ := List.exists_mem_of_length_pos (by omega : 0 < (a.filter fun x => decide (x ∈ b)).length)
  obtain ⟨h1, h2⟩ := List.mem_filter.mp hx
  exact ⟨x, h1, by simpa using h2⟩

/-- `lineEdges` over ANY id table: the filtered position pairs -/
theorem lineEdges_eq_pairs (s : Nat) (tab : List (Nat × List α)) :
    lineEdges s tab = ((pairsLt tab).filter fun pq => linked s pq.1.2 pq.2.2).map fun pq => (pq.1.1, pq.2.1) := by
  induction tab with
  | nil => simp [lineEdges, pairsLt]
  | cons p t ih =>
    simp only [lineEdges, pairsLt, List.filter_append, List.map_append, ih, List.filter_map, List.map_map]
    congr 1

omit [DecidableEq α] in
theorem idTable_getElem? (srt : List α → List α) (es : List (List α)) (i : Nat) (p : Nat × List α) :
    (idTable srt es)[i]? = some p ↔ p.1 = i ∧ (es.map srt)[i]? = some p.2 := by
  unfold idTable
  rw [List.getElem?_zip_eq_some]
  constructor
  · rintro ⟨h1, h2⟩
    obtain ⟨hlt, heq⟩ := List.getElem?_eq_some_iff.mp h1
    simp at heq
    exact ⟨heq.symm, h2⟩
  · rintro ⟨rfl, h2⟩
    refine ⟨?_, h2⟩
    obtain ⟨hlt, _⟩ := List.getElem?_eq_some_iff.mp h2
    have hlt' : p.1 < es.length := by simpa using hlt
    simp [hlt']


/-- the listing-level line graph, by positions: `(i, j)` is an edge iff `i < j` and the hyperedges number `i`, `j` are linked -/
theorem mem_lineEdges_idTable (s : Nat) (srt : List α → List α) (es : List (List α)) (i j : Nat) :
    (i, j) ∈ lineEdges s (idTable srt es) ↔
      i < j ∧ ∃ a b, (es.map srt)[i]? = some a ∧ (es.map srt)[j]? = some b ∧ linked s a b = true := by
  rw [lineEdges_eq_pairs]
  simp only [List.mem_map, List.mem_filter, Prod.mk.injEq]
  constructor
  · rintro ⟨⟨p, q⟩, ⟨hpq, hl⟩, rfl, rfl⟩
    obtain ⟨i', j', hij, hi, hj⟩ := (mem_pairsLt _ p q).mp hpq
    obtain ⟨h1, h1'⟩ := (idTable_getElem? srt es i' p).mp hi
    obtain ⟨h2, h2'⟩ := (idTable_getElem? srt es j' q).mp hj
    refine ⟨by simp only; omega, p.2, q.2, ?_, ?_, hl⟩
    · simp only; rw [h1]; exact h1'
    · simp only; rw [h2]; exact h2'
  · rintro ⟨hij, a, b, ha, hb, hl⟩
    exact ⟨((i, a), (j, b)), ⟨(mem_pairsLt _ _ _).mpr ⟨i, j, hij, (idTable_getElem? srt es i (i, a)).mpr ⟨rfl, ha⟩,
      (idTable_getElem? srt es j (j, b)).mpr ⟨rfl, hb⟩⟩, hl⟩, rfl, rfl⟩

/-- what one pass of the inner loop yields when both keys are listed -/
def visitVal (s : Nat) (keys : List (List α)) (p : List α × List α) : (Nat × Nat) × Bool :=
  (normPair (keys.idxOf p.1) (keys.idxOf p.2), decide (s ≤ inter p.1 p.2))

theorem visit_eq (s : Nat) (keys : List (List α)) (p : List α × List α) (h1 : p.1 ∈ keys) (h2 : p.2 ∈ keys) :
    visit s keys p = some (visitVal s keys p) := by
  simp [visit, edgeId, h1, h2, visitVal]

/-- the edges the loops produce when no `KeyError` occurs -/
def edgesR (s : Nat) (srt : List α → List α) (R : Reads α) : List (Nat × Nat) :=
  dedupe ((((R.inc.flatMap fun p => pairsLt p.2).map (visitVal s (R.edges.map srt))).filter fun v => v.2).map fun v => v.1)

theorem lineEdgesR_eq (srt : List α → List α) (R : Reads α) (hc : Coherent srt R) (s : Nat) :
    lineEdgesR s srt R = some (edgesR s srt R) := by
  unfold lineEdgesR edgesR
  rw [mapM_eq_some_map (visit s (R.edges.map srt)) (visitVal s (R.edges.map srt))]
  · rfl
  · intro p hp
    obtain ⟨pr, hpr, hpp⟩ := List.mem_flatMap.mp hp
    obtain ⟨h1, h2⟩ := mem_of_mem_pairsLt (x := p.1) (y := p.2) hpp
    exact visit_eq s _ p ((hc.inc_mem pr hpr p.1).mp h1).1 ((hc.inc_mem pr hpr p.2).mp h2).1

theorem mem_edgesR (s : Nat) (srt : List α → List α) (R : Reads α) (i j : Nat) :
    (i, j) ∈ edgesR s srt R ↔ ∃ pr ∈ R.inc, ∃ a b, (a, b) ∈ pairsLt pr.2 ∧ s ≤ inter a b ∧
      normPair ((R.edges.map srt).idxOf a) ((R.edges.map srt).idxOf b) = (i, j) := by
  unfold edgesR
  rw [mem_dedupe]
  simp only [List.mem_map, List.mem_filter, List.mem_flatMap, visitVal]
  constructor
  · rintro ⟨v, ⟨⟨p, ⟨pr, hpr, hp⟩, rfl⟩, hv⟩, hij⟩
    exact ⟨pr, hpr, p.1, p.2, hp, by simpa using hv, hij⟩
  · rintro ⟨pr, hpr, a, b, hp, hs, hij⟩
    exact ⟨_, ⟨⟨(a, b), ⟨pr, hpr, hp⟩, rfl⟩, by simpa using hs⟩, hij⟩

theorem getElem?_idxOf_of_mem {γ : Type} [BEq γ] [LawfulBEq γ] {l : List γ} {a : γ} (h : a ∈ l) : l[l.idxOf a]? = some a := by
  rw [List.getElem?_eq_some_iff]
  exact ⟨List.idxOf_lt_length_of_mem h, List.getElem_idxOf _⟩

theorem idxOf_of_getElem? {γ : Type} [BEq γ] [LawfulBEq γ] {l : List γ} (hl : l.Nodup) {a : γ} {i : Nat} (h : l[i]? = some a) :
    l.idxOf a = i := by
  obtain ⟨hi, ha⟩ := List.getElem?_eq_some_iff.mp h
  have hm : a ∈ l := List.mem_iff_getElem?.mpr ⟨i, h⟩
  have h2 := List.getElem_idxOf (List.idxOf_lt_length_of_mem hm)
  exact (List.getElem_inj hl).mp (h2.trans ha.symm)

/-- under coherence the loops over `get_incident_edges` find exactly the edges of the listing-level line graph -/
theorem mem_edgesR_iff (srt : List α → List α) (R : Reads α) (hc : Coherent srt R) (s i j : Nat) :
    (i, j) ∈ edgesR s srt R ↔ (i, j) ∈ lineEdges s (idTable srt R.edges) := by
  rw [mem_edgesR, mem_lineEdges_idTable]
  constructor
  · rintro ⟨pr, hpr, a, b, hp, hs, hn⟩
    obtain ⟨ha, hb⟩ := mem_of_mem_pairsLt hp
    have hne : a ≠ b := ne_of_mem_pairsLt (hc.inc_nodup pr hpr) hp
    obtain ⟨hak, hxa⟩ := (hc.inc_mem pr hpr a).mp ha
    obtain ⟨hbk, hxb⟩ := (hc.inc_mem pr hpr b).mp hb
    have ga := getElem?_idxOf_of_mem hak
    have gb := getElem?_idxOf_of_mem hbk
    have hidx : (R.edges.map srt).idxOf a ≠ (R.edges.map srt).idxOf b := by
      intro h
      rw [h] at ga
      exact hne (Option.some.inj (ga.symm.trans gb))
    have h1 : 1 ≤ inter a b := one_le_inter hxa hxb
    unfold normPair at hn
    split at hn
    · obtain ⟨rfl, rfl⟩ := Prod.mk.inj hn
      exact ⟨by omega, a, b, ga, gb, by simp [linked, h1, hs]⟩
    · obtain ⟨rfl, rfl⟩ := Prod.mk.inj hn
      have hcomm := inter_comm (hc.key_nodup a hak) (hc.key_nodup b hbk)
      exact ⟨by omega, b, a, gb, ga, by simp [linked, ← hcomm, h1, hs]⟩
  · rintro ⟨hij, a, b, ha, hb, hl⟩
    have hak : a ∈ R.edges.map srt := List.mem_iff_getElem?.mpr ⟨i, ha⟩
    have hbk : b ∈ R.edges.map srt := List.mem_iff_getElem?.mpr ⟨j, hb⟩
    have hne : a ≠ b := by
      intro h
      subst h
      have := (idxOf_of_getElem? hc.keys_nodup ha).symm.trans (idxOf_of_getElem? hc.keys_nodup hb)
      omega
    have hl' : 1 ≤ inter a b ∧ s ≤ inter a b := by simpa [linked] using hl
    obtain ⟨x, hxa, hxb⟩ := exists_common_of_inter hl'.1
    obtain ⟨pr, hpr, rfl⟩ := hc.members a hak x hxa
    have hain : a ∈ pr.2 := (hc.inc_mem pr hpr a).mpr ⟨hak, hxa⟩
    have hbin : b ∈ pr.2 := (hc.inc_mem pr hpr b).mpr ⟨hbk, hxb⟩
    have ia := idxOf_of_getElem? hc.keys_nodup ha
    have ib := idxOf_of_getElem? hc.keys_nodup hb
    rcases mem_pairsLt_of_ne hain hbin hne with h | h
    · exact ⟨pr, hpr, a, b, h, hl'.2, by rw [ia, ib]; simp [normPair]; omega⟩
    · refine ⟨pr, hpr, b, a, h, ?_, ?_⟩
      · rw [inter_comm (hc.key_nodup b hbk) (hc.key_nodup a hak)]; exact hl'.2
      · rw [ia, ib]; unfold normPair; rw [if_neg (by omega)]

theorem edgesR_nodup (s : Nat) (srt : List α → List α) (R : Reads α) : (edgesR s srt R).Nodup := dedupe_nodup _

/-- the readings of a hypergraph given by a well-formed listing are coherent -/
theorem coherent_readsOf (srt : List α → List α) (H : HG α) (hk : (H.edges.map srt).Nodup)
    (hm : ∀ a ∈ H.edges.map srt, a.Nodup) (hn : ∀ a ∈ H.edges.map srt, ∀ x ∈ a, x ∈ H.nodes) :
    Coherent srt (readsOf srt H) where
  keys_nodup := hk
  key_nodup := hm
  len_eq := rfl
  inc_nodup := by
    intro p hp
    obtain ⟨x, _, rfl⟩ := List.mem_map.mp hp
    exact List.Nodup.sublist List.filter_sublist hk
  inc_mem := by
    intro p hp a
    obtain ⟨x, _, rfl⟩ := List.mem_map.mp hp
    simp [readsOf, List.mem_filter]
  members := by
    intro a ha x hx
    exact ⟨_, List.mem_map.mpr ⟨x, hn a ha x hx, rfl⟩, rfl⟩

end Static
end C20
