import Hgxv.Proofs.C19A
/-! Helper lemmas for C19 part A, `keep_edges=True` (shrink-merge), core Lean only. -/
namespace C19
open AL
set_option linter.unusedSectionVars false
set_option linter.unusedSimpArgs false

section al
variable {α β : Type} [DecidableEq α]

theorem al_get?_append (l m : List (α × β)) (k : α) :
    get? (l ++ m) k = match get? l k with | some v => some v | none => get? m k := by
  induction l with
  | nil => simp [get?]
  | cons hd t ih =>
    obtain ⟨k', v'⟩ := hd
    by_cases h : k' = k <;> simp [get?, h, ih]

theorem al_isSome_iff_mem (l : List (α × β)) (k : α) : (get? l k).isSome ↔ k ∈ keys l := by
  have := get?_eq_none_iff l k
  cases h : get? l k with
  | none => simp [this.mp h]
  | some v =>
    simp only [Option.isSome_some, true_iff]
    apply Decidable.byContradiction
    intro hn
    rw [this.mpr hn] at h; cases h

theorem al_keys_set_nodup (l : List (α × β)) (k : α) (v : β) (hnd : (keys l).Nodup) : (keys (set l k v)).Nodup := by
  cases h : get? l k with
  | some v0 => rw [keys_set_of_mem l k v (by simp [h])]; exact hnd
  | none =>
    rw [keys_set_of_not_mem l k v h, List.nodup_append]
    refine ⟨hnd, by simp, ?_⟩
    intro x hx y hy
    simp only [List.mem_singleton] at hy
    subst hy; intro hxy; subst hxy
    exact (get?_eq_none_iff l x).mp h hx

theorem al_keys_erase_nodup (l : List (α × β)) (k : α) (hnd : (keys l).Nodup) : (keys (erase l k)).Nodup := by
  rw [al_erase_eq_filter l k hnd]; exact al_keys_filter_nodup _ _ hnd

theorem al_mem_erase {l : List (α × β)} {k : α} (hnd : (keys l).Nodup) (e : α × β) :
    e ∈ erase l k ↔ e ∈ l ∧ e.1 ≠ k := by
  rw [al_erase_eq_filter l k hnd]; simp

end al

section keep
variable {κ ω : Type} [DecidableEq κ] [Add ω] (ops : KeyOps κ)

theorem touchNodes_noop (nodes : List (Node × Md)) (ns : List Node) (h : ∀ n ∈ ns, n ∈ keys nodes) :
    touchNodes nodes ns = nodes := by
  unfold touchNodes
  induction ns with
  | nil => rfl
  | cons n ns ih =>
    simp only [List.foldl_cons]
    have hn : touchNode nodes n = nodes := by
      unfold touchNode
      rw [if_pos ((al_isSome_iff_mem nodes n).mpr (h n List.mem_cons_self))]
    rw [hn]; exact ih (fun m hm => h m (List.mem_cons_of_mem _ hm))

@[simp] theorem addEdge_weighted (c : Content κ ω) (k : κ) (w : ω) (md : Md) :
    (addEdge ops c k w md).weighted = c.weighted := by
  unfold addEdge; split <;> rfl

theorem addEdge_nodes (c : Content κ ω) (k : κ) (w : ω) (md : Md) (h : ∀ n ∈ ops.nodesOf k, n ∈ keys c.nodes) :
    (addEdge ops c k w md).nodes = c.nodes := by
  unfold addEdge; split
  · rfl
  · simp only [addEdgeNew]; exact touchNodes_noop _ _ h

theorem addEdge_get? (c : Content κ ω) (k : κ) (w : ω) (md : Md) (k2 : κ) :
    get? (addEdge ops c k w md).edges k2 =
      if k = k2 then mergeInto c.weighted (get? c.edges k) (k, (w, md)) else get? c.edges k2 := by
  unfold addEdge
  cases h : get? c.edges k with
  | some v =>
    simp only [addEdgeOld, get?_set, mergeInto]
  | none =>
    simp only [addEdgeNew, al_get?_append, mergeInto]
    by_cases hk : k = k2
    · subst hk; simp [h, get?]
    · simp only [hk, if_false]
      cases h2 : get? c.edges k2 <;> simp [get?, hk]

theorem addEdge_keys_nodup (c : Content κ ω) (k : κ) (w : ω) (md : Md) (hnd : (keys c.edges).Nodup) :
    (keys (addEdge ops c k w md).edges).Nodup := by
  unfold addEdge
  cases h : get? c.edges k with
  | some v => exact al_keys_set_nodup _ _ _ hnd
  | none =>
    simp only [addEdgeNew, keys, List.map_append, List.map_cons, List.map_nil]
    rw [List.nodup_append]
    refine ⟨hnd, by simp, ?_⟩
    intro x hx y hy
    simp only [List.mem_singleton] at hy
    subst hy; intro hxy; subst hxy
    exact (get?_eq_none_iff c.edges x).mp h hx

/-- one loop iteration, seen at a key that does not contain `n` -/
theorem shrinkOne_get?_out (n : Node) (c : Content κ ω) (e : κ × (ω × Md)) (k2 : κ) (hk : k2 ≠ e.1) :
    get? (shrinkOne ops n c e).edges k2 =
      if ops.shrink e.1 n = some k2 then mergeInto c.weighted (get? c.edges k2) e else get? c.edges k2 := by
  unfold shrinkOne
  cases hs : ops.shrink e.1 n with
  | none => simp [removeEdge, get?_erase_ne _ _ _ (Ne.symm hk)]
  | some k' =>
    simp only [addEdge_get?, removeEdge]
    by_cases h : k' = k2
    · subst h
      simp [get?_erase_ne _ _ _ (Ne.symm hk), mergeInto]
    · have : ¬ (some k' = some k2) := fun hh => h (Option.some.inj hh)
      simp [h, this, get?_erase_ne _ _ _ (Ne.symm hk)]

@[simp] theorem shrinkOne_weighted (n : Node) (c : Content κ ω) (e : κ × (ω × Md)) :
    (shrinkOne ops n c e).weighted = c.weighted := by
  unfold shrinkOne; split <;> simp [removeEdge]

theorem shrinkOne_keys_nodup (n : Node) (c : Content κ ω) (e : κ × (ω × Md)) (hnd : (keys c.edges).Nodup) :
    (keys (shrinkOne ops n c e).edges).Nodup := by
  unfold shrinkOne; split
  · exact al_keys_erase_nodup _ _ hnd
  · exact addEdge_keys_nodup ops _ _ _ _ (al_keys_erase_nodup _ _ hnd)

theorem shrinkOne_nodes (n : Node) (c : Content κ ω) (e : κ × (ω × Md))
    (h : ∀ k', ops.shrink e.1 n = some k' → ∀ m ∈ ops.nodesOf k', m ∈ keys c.nodes) :
    (shrinkOne ops n c e).nodes = c.nodes := by
  unfold shrinkOne
  cases hs : ops.shrink e.1 n with
  | none => rfl
  | some k' => exact addEdge_nodes ops _ _ _ _ (h k' hs)

/-- one loop iteration, seen at a key that contains `n` -/
theorem shrinkOne_get?_in (hlaw : Lawful ops) (n : Node) (c : Content κ ω) (e : κ × (ω × Md)) (k2 : κ)
    (hk2 : n ∈ ops.nodesOf k2) (hnd : (keys c.edges).Nodup) :
    get? (shrinkOne ops n c e).edges k2 = if e.1 = k2 then none else get? c.edges k2 := by
  unfold shrinkOne
  have herase : get? (erase c.edges e.1) k2 = if e.1 = k2 then none else get? c.edges k2 := by
    by_cases h : e.1 = k2
    · subst h; simp [get?_erase_self _ _ hnd]
    · simp [h, get?_erase_ne _ _ _ h]
  cases hs : ops.shrink e.1 n with
  | none => simpa [removeEdge] using herase
  | some k' =>
    have hne : k' ≠ k2 := by
      intro h; subst h
      exact ((hlaw _ _ _ hs n).mp hk2).2 rfl
    simp only [addEdge_get?, removeEdge, hne, if_false]
    exact herase

/-- the whole `keep_edges=True` loop, seen at a key that does not contain `n` -/
theorem foldl_shrinkOne_get?_out (n : Node) (l : List (κ × (ω × Md))) (c : Content κ ω) (k2 : κ)
    (hl : ∀ e ∈ l, k2 ≠ e.1) :
    get? (l.foldl (shrinkOne ops n) c).edges k2 =
      (l.filter (fun e => decide (ops.shrink e.1 n = some k2))).foldl (mergeInto c.weighted) (get? c.edges k2) := by
  induction l generalizing c with
  | nil => simp
  | cons e l ih =>
    simp only [List.foldl_cons]
    rw [ih _ (fun e' he' => hl e' (List.mem_cons_of_mem _ he')), shrinkOne_weighted,
      shrinkOne_get?_out ops n c e k2 (hl e List.mem_cons_self)]
    by_cases h : ops.shrink e.1 n = some k2 <;> simp [List.filter_cons, h]

theorem foldl_shrinkOne_get?_in (hlaw : Lawful ops) (n : Node) (l : List (κ × (ω × Md))) (c : Content κ ω) (k2 : κ)
    (hk2 : n ∈ ops.nodesOf k2) (hnd : (keys c.edges).Nodup) :
    get? (l.foldl (shrinkOne ops n) c).edges k2 = if k2 ∈ l.map (·.1) then none else get? c.edges k2 := by
  induction l generalizing c with
  | nil => simp
  | cons e l ih =>
    simp only [List.foldl_cons]
    rw [ih _ (shrinkOne_keys_nodup ops n c e hnd), shrinkOne_get?_in ops hlaw n c e k2 hk2 hnd]
    by_cases h1 : e.1 = k2
    · subst h1; simp
    · have h1' : ¬ k2 = e.1 := fun h => h1 h.symm
      simp only [h1, if_false, List.map_cons, List.mem_cons, h1', false_or]

theorem foldl_shrinkOne_keys_nodup (n : Node) (l : List (κ × (ω × Md))) (c : Content κ ω)
    (hnd : (keys c.edges).Nodup) : (keys (l.foldl (shrinkOne ops n) c).edges).Nodup := by
  induction l generalizing c with
  | nil => exact hnd
  | cons e l ih => exact ih _ (shrinkOne_keys_nodup ops n c e hnd)

theorem foldl_shrinkOne_weighted (n : Node) (l : List (κ × (ω × Md))) (c : Content κ ω) :
    (l.foldl (shrinkOne ops n) c).weighted = c.weighted := by
  induction l generalizing c with
  | nil => rfl
  | cons e l ih => simp only [List.foldl_cons]; rw [ih, shrinkOne_weighted]

theorem foldl_shrinkOne_nodes (n : Node) (l : List (κ × (ω × Md))) (c : Content κ ω)
    (h : ∀ e ∈ l, ∀ k', ops.shrink e.1 n = some k' → ∀ m ∈ ops.nodesOf k', m ∈ keys c.nodes) :
    (l.foldl (shrinkOne ops n) c).nodes = c.nodes := by
  induction l generalizing c with
  | nil => rfl
  | cons e l ih =>
    simp only [List.foldl_cons]
    have h1 := shrinkOne_nodes ops n c e (h e List.mem_cons_self)
    rw [ih _ (fun e' he' k' hk' m hm => by rw [h1]; exact h e' (List.mem_cons_of_mem _ he') k' hk' m hm), h1]

/-! ### the two loop orders of `remove_node(keep_edges=True)` give the same content -/

theorem al_erase_set_comm {α β : Type} [DecidableEq α] (l : List (α × β)) (k k' : α) (v : β) (h : k ≠ k') :
    erase (AL.set l k' v) k = AL.set (erase l k) k' v := by
  induction l with
  | nil => simp [AL.set, erase, Ne.symm h]
  | cons hd t ih =>
    obtain ⟨a, b⟩ := hd
    by_cases h1 : a = k'
    · subst h1
      have : ¬ a = k := fun hh => h hh.symm
      simp [AL.set, erase, this]
    · by_cases h2 : a = k
      · subst h2; simp [AL.set, erase, h1]
      · simp [AL.set, erase, h1, h2, ih]

theorem al_erase_append_comm {α β : Type} [DecidableEq α] (l : List (α × β)) (k k' : α) (v : β) (h : k ≠ k') :
    erase (l ++ [(k', v)]) k = erase l k ++ [(k', v)] := by
  induction l with
  | nil => simp [erase, Ne.symm h]
  | cons hd t ih =>
    obtain ⟨a, b⟩ := hd
    by_cases h2 : a = k
    · subst h2; simp [erase]
    · simp [erase, h2, ih]

theorem al_erase_erase_comm {α β : Type} [DecidableEq α] (l : List (α × β)) (a b : α) :
    erase (erase l a) b = erase (erase l b) a := by
  induction l with
  | nil => simp [erase]
  | cons hd t ih =>
    obtain ⟨x, y⟩ := hd
    by_cases h1 : x = a
    · by_cases h2 : x = b
      · rw [← h1, ← h2]
      · subst h1
        simp only [erase, if_true, if_neg h2]
    · by_cases h2 : x = b
      · subst h2
        simp only [erase, if_true, if_neg h1]
      · simp only [erase, if_neg h1, if_neg h2, ih]

theorem removeEdge_addEdge_comm (c : Content κ ω) (k k' : κ) (w : ω) (md : Md) (h : k ≠ k') :
    removeEdge (addEdge ops c k' w md) k = addEdge ops (removeEdge c k) k' w md := by
  unfold addEdge
  have hg : get? (removeEdge c k).edges k' = get? c.edges k' := by
    simp only [removeEdge]; exact get?_erase_ne _ _ _ h
  rw [hg]
  cases get? c.edges k' with
  | some v =>
    simp only [addEdgeOld, removeEdge]
    rw [al_erase_set_comm _ _ _ _ h]
    rfl
  | none =>
    simp only [addEdgeNew, removeEdge]
    rw [al_erase_append_comm _ _ _ _ h]

theorem removeEdge_removeEdge_comm (c : Content κ ω) (a b : κ) :
    removeEdge (removeEdge c a) b = removeEdge (removeEdge c b) a := by
  simp only [removeEdge, al_erase_erase_comm]

theorem shrinkOne_eq (n : Node) (c : Content κ ω) (e : κ × (ω × Md))
    (h : ∀ k', ops.shrink e.1 n = some k' → e.1 ≠ k') :
    shrinkOne ops n c e = removeEdge (shrinkAdd ops n c e) e.1 := by
  unfold shrinkOne shrinkAdd
  cases hs : ops.shrink e.1 n with
  | none => rfl
  | some k' => exact (removeEdge_addEdge_comm ops c e.1 k' _ _ (h k' hs)).symm

theorem removeEdge_shrinkOne_comm (n : Node) (c : Content κ ω) (e : κ × (ω × Md)) (k : κ)
    (h : ∀ k', ops.shrink e.1 n = some k' → k ≠ k') :
    removeEdge (shrinkOne ops n c e) k = shrinkOne ops n (removeEdge c k) e := by
  unfold shrinkOne
  cases hs : ops.shrink e.1 n with
  | none => exact removeEdge_removeEdge_comm c e.1 k
  | some k' =>
    simp only []
    rw [removeEdge_addEdge_comm ops _ k k' _ _ (h k' hs), removeEdge_removeEdge_comm c e.1 k]

theorem foldl_shrinkOne_removeEdge_comm (n : Node) (l : List (κ × (ω × Md))) (c : Content κ ω) (k : κ)
    (h : ∀ e ∈ l, ∀ k', ops.shrink e.1 n = some k' → k ≠ k') :
    l.foldl (shrinkOne ops n) (removeEdge c k) = removeEdge (l.foldl (shrinkOne ops n) c) k := by
  induction l generalizing c with
  | nil => rfl
  | cons e l ih =>
    simp only [List.foldl_cons]
    rw [← removeEdge_shrinkOne_comm ops n c e k (h e List.mem_cons_self),
      ih _ (fun e' he' => h e' (List.mem_cons_of_mem _ he'))]

theorem foldl_removeEdge_comm (l : List (κ × (ω × Md))) (c : Content κ ω) (k : κ) :
    l.foldl (fun c e => removeEdge c e.1) (removeEdge c k) = removeEdge (l.foldl (fun c e => removeEdge c e.1) c) k := by
  induction l generalizing c with
  | nil => rfl
  | cons e l ih =>
    simp only [List.foldl_cons]
    rw [removeEdge_removeEdge_comm c k e.1, ih]

/-- record-by-record = all re-insertions, then all removals -/
theorem foldl_shrinkOne_eq_batch (n : Node) (l : List (κ × (ω × Md))) (c : Content κ ω)
    (h : ∀ e ∈ l, ∀ e' ∈ l, ∀ k', ops.shrink e'.1 n = some k' → e.1 ≠ k') :
    l.foldl (shrinkOne ops n) c = l.foldl (fun c e => removeEdge c e.1) (l.foldl (shrinkAdd ops n) c) := by
  induction l generalizing c with
  | nil => rfl
  | cons e l ih =>
    simp only [List.foldl_cons]
    rw [shrinkOne_eq ops n c e (fun k' hk' => h e List.mem_cons_self e List.mem_cons_self k' hk'),
      foldl_shrinkOne_removeEdge_comm ops n l _ e.1
        (fun e' he' k' hk' => h e List.mem_cons_self e' (List.mem_cons_of_mem _ he') k' hk'),
      ih _ (fun a ha b hb => h a (List.mem_cons_of_mem _ ha) b (List.mem_cons_of_mem _ hb)),
      foldl_removeEdge_comm]

/-! ### one `remove_node(n, keep_edges=True)` -/

theorem incident_nodup (c : Content κ ω) (n : Node) (h : c.edges.Nodup) : (incident ops c n).Nodup := by
  unfold incident
  rw [List.nodup_append]
  refine ⟨h.sublist List.filter_sublist, h.sublist List.filter_sublist, ?_⟩
  intro a ha b hb hab
  subst hab
  simp only [List.mem_filter, Bool.and_eq_true, Bool.not_eq_true'] at ha hb
  rw [ha.2.1] at hb
  exact Bool.noConfusion hb.2.1

theorem keepLoop_eq (hlaw : Lawful ops) (c : Content κ ω) (n : Node) :
    keepLoop ops n c (incident ops c n) = (incident ops c n).foldl (shrinkOne ops n) c := by
  unfold keepLoop
  split
  · symm
    apply foldl_shrinkOne_eq_batch
    intro e he e' _ k' hk' heq
    have hn := ((mem_incident ops c n e).mp he).2
    rw [heq] at hn
    exact ((hlaw _ _ _ hk' n).mp hn).2 rfl
  · rfl

theorem removeNode_keep_eq (hlaw : Lawful ops) (c : Content κ ω) (n : Node) :
    removeNode ops true c n = dropNode ((incident ops c n).foldl (shrinkOne ops n) c) n := by
  simp only [removeNode, if_true, keepLoop_eq ops hlaw]

theorem removeNode_keep_edges (hlaw : Lawful ops) (c : Content κ ω) (n : Node) :
    (removeNode ops true c n).edges = ((incident ops c n).foldl (shrinkOne ops n) c).edges := by
  rw [removeNode_keep_eq ops hlaw]; rfl

theorem removeNode_keep_get? (hlaw : Lawful ops) (c : Content κ ω) (hwf : WF ops c) (n : Node) (k2 : κ) :
    get? (removeNode ops true c n).edges k2 =
      if n ∈ ops.nodesOf k2 then none
      else ((incident ops c n).filter (fun e => decide (ops.shrink e.1 n = some k2))).foldl
            (mergeInto c.weighted) (get? c.edges k2) := by
  rw [removeNode_keep_edges ops hlaw]
  by_cases hk2 : n ∈ ops.nodesOf k2
  · rw [if_pos hk2, foldl_shrinkOne_get?_in ops hlaw n _ c k2 hk2 hwf.keysNodup]
    split
    · rfl
    · rename_i hnot
      cases h : get? c.edges k2 with
      | none => rfl
      | some v =>
        exfalso; apply hnot
        exact List.mem_map.mpr ⟨(k2, v), (mem_incident ops c n _).mpr ⟨al_mem_of_get? h, hk2⟩, rfl⟩
  · rw [if_neg hk2]
    apply foldl_shrinkOne_get?_out
    intro e he h
    exact hk2 (h ▸ ((mem_incident ops c n e).mp he).2)

theorem removeNode_keep_nodes (hlaw : Lawful ops) (c : Content κ ω) (hwf : WF ops c) (n : Node) :
    (removeNode ops true c n).nodes = erase c.nodes n := by
  rw [removeNode_keep_eq ops hlaw]
  simp only [dropNode]
  rw [foldl_shrinkOne_nodes]
  intro e he k' hk' m hm
  have he' := (mem_incident ops c n e).mp he
  exact hwf.closed e he'.1 m ((hlaw _ _ _ hk' m).mp hm).1

theorem removeNode_keep_weighted (hlaw : Lawful ops) (c : Content κ ω) (n : Node) :
    (removeNode ops true c n).weighted = c.weighted := by
  rw [removeNode_keep_eq ops hlaw]
  simp only [dropNode]
  exact foldl_shrinkOne_weighted ops n _ c

theorem mergeInto_isSome (wt : Bool) (acc : Option (ω × Md)) (e : κ × (ω × Md)) : (mergeInto wt acc e).isSome := by
  unfold mergeInto; split <;> rfl

theorem foldl_mergeInto_isSome (wt : Bool) (hits : List (κ × (ω × Md))) (acc : Option (ω × Md)) :
    (hits.foldl (mergeInto wt) acc).isSome ↔ acc.isSome ∨ hits ≠ [] := by
  induction hits generalizing acc with
  | nil => simp
  | cons e hits ih =>
    simp only [List.foldl_cons, ih, mergeInto_isSome, true_or, ne_eq, reduceCtorEq, not_false_eq_true, or_true]

/-- the metadata of a merged record is the metadata of one of the merged records -/
theorem foldl_mergeInto_md (wt : Bool) (hits : List (κ × (ω × Md))) (acc : Option (ω × Md)) (v : ω × Md)
    (h : hits.foldl (mergeInto wt) acc = some v) : (∃ e ∈ hits, v.2 = e.2.2) ∨ acc = some v := by
  induction hits generalizing acc with
  | nil => right; simpa using h
  | cons e hits ih =>
    simp only [List.foldl_cons] at h
    rcases ih _ h with ⟨e', he', hv⟩ | hacc
    · exact Or.inl ⟨e', List.mem_cons_of_mem _ he', hv⟩
    · left
      refine ⟨e, List.mem_cons_self, ?_⟩
      unfold mergeInto at hacc
      split at hacc <;> (cases hacc; rfl)

theorem stepKey_not_mem (hlaw : Lawful ops) (n : Node) (k k2 : κ) (h : stepKey ops n k = some k2) :
    n ∉ ops.nodesOf k2 := by
  unfold stepKey at h
  split at h
  · intro hn; exact ((hlaw _ _ _ h n).mp hn).2 rfl
  · rename_i hc
    cases h
    simpa using hc

theorem stepKey_nodes (hlaw : Lawful ops) (n : Node) (k k2 : κ) (h : stepKey ops n k = some k2) :
    ∀ m ∈ ops.nodesOf k2, m ∈ ops.nodesOf k := by
  unfold stepKey at h
  split at h
  · intro m hm; exact ((hlaw _ _ _ h m).mp hm).1
  · cases h; exact fun m hm => hm

/-- keys after one `remove_node(n, keep_edges=True)`: the images of the old keys -/
theorem removeNode_keep_keys (hlaw : Lawful ops) (c : Content κ ω) (hwf : WF ops c) (n : Node) (k2 : κ) :
    k2 ∈ keys (removeNode ops true c n).edges ↔ ∃ k ∈ keys c.edges, stepKey ops n k = some k2 := by
  rw [← al_isSome_iff_mem, removeNode_keep_get? ops hlaw c hwf n k2]
  constructor
  · intro h
    split at h
    · simp at h
    · rename_i hk2
      rcases (foldl_mergeInto_isSome _ _ _).mp h with h1 | h1
      · refine ⟨k2, (al_isSome_iff_mem _ _).mp h1, ?_⟩
        unfold stepKey
        rw [if_neg (by simpa using hk2)]
      · obtain ⟨e, he⟩ := List.exists_mem_of_ne_nil _ h1
        simp only [List.mem_filter, decide_eq_true_eq] at he
        have he' := (mem_incident ops c n e).mp he.1
        refine ⟨e.1, al_mem_keys_of_mem he'.1, ?_⟩
        unfold stepKey
        rw [if_pos (by simpa using he'.2)]; exact he.2
  · rintro ⟨k, hk, hs⟩
    have hk2 := stepKey_not_mem ops hlaw n k k2 hs
    rw [if_neg hk2, foldl_mergeInto_isSome]
    unfold stepKey at hs
    split at hs
    · rename_i hc
      right
      obtain ⟨v, hv⟩ := Option.isSome_iff_exists.mp ((al_isSome_iff_mem _ _).mpr hk)
      apply List.ne_nil_of_mem (a := (k, v))
      simp only [List.mem_filter, decide_eq_true_eq]
      exact ⟨(mem_incident ops c n _).mpr ⟨al_mem_of_get? hv, by simpa using hc⟩, hs⟩
    · cases hs; left; exact (al_isSome_iff_mem _ _).mpr hk

theorem removeNode_keep_wf (hlaw : Lawful ops) (c : Content κ ω) (hwf : WF ops c) (n : Node) :
    WF ops (removeNode ops true c n) := by
  refine ⟨?_, ?_, ?_⟩
  · rw [removeNode_keep_nodes ops hlaw c hwf n]; exact al_keys_erase_nodup _ _ hwf.nodesNodup
  · rw [removeNode_keep_edges ops hlaw]; exact foldl_shrinkOne_keys_nodup ops n _ c hwf.keysNodup
  · intro e he m hm
    obtain ⟨k, hk, hs⟩ := (removeNode_keep_keys ops hlaw c hwf n e.1).mp (al_mem_keys_of_mem he)
    have hm1 : m ∈ ops.nodesOf k := stepKey_nodes ops hlaw n k e.1 hs m hm
    have hmn : m ≠ n := fun h => stepKey_not_mem ops hlaw n k e.1 hs (h ▸ hm)
    obtain ⟨e0, he0, rfl⟩ := List.mem_map.mp hk
    have := hwf.closed e0 he0 m hm1
    rw [removeNode_keep_nodes ops hlaw c hwf n, keys_erase_perm]
    exact (List.mem_erase_of_ne hmn).mpr this

/-- the metadata of a record after one step is the metadata of an old record whose key is mapped to it -/
theorem removeNode_keep_md (hlaw : Lawful ops) (c : Content κ ω) (hwf : WF ops c) (n : Node)
    (e2 : κ × (ω × Md)) (he2 : e2 ∈ (removeNode ops true c n).edges) :
    ∃ e ∈ c.edges, stepKey ops n e.1 = some e2.1 ∧ e2.2.2 = e.2.2 := by
  have hwf2 := removeNode_keep_wf ops hlaw c hwf n
  have hg := al_get?_of_mem hwf2.keysNodup he2
  rw [removeNode_keep_get? ops hlaw c hwf n e2.1] at hg
  split at hg
  · cases hg
  · rename_i hk2
    rcases foldl_mergeInto_md _ _ _ _ hg with ⟨e, he, hv⟩ | hacc
    · simp only [List.mem_filter, decide_eq_true_eq] at he
      have he' := (mem_incident ops c n e).mp he.1
      refine ⟨e, he'.1, ?_, hv⟩
      unfold stepKey; rw [if_pos (by simpa using he'.2)]; exact he.2
    · refine ⟨(e2.1, e2.2), al_mem_of_get? hacc, ?_, rfl⟩
      unfold stepKey; rw [if_neg (by simpa using hk2)]

/-- a record that is the only one mapped to its new key keeps weight and metadata -/
theorem removeNode_keep_unique (hlaw : Lawful ops) (c : Content κ ω) (hwf : WF ops c) (n : Node)
    (e : κ × (ω × Md)) (he : e ∈ c.edges) (k2 : κ) (hs : stepKey ops n e.1 = some k2)
    (huniq : ∀ e' ∈ c.edges, stepKey ops n e'.1 = some k2 → e' = e) :
    (k2, e.2) ∈ (removeNode ops true c n).edges := by
  apply al_mem_of_get?
  have hk2 := stepKey_not_mem ops hlaw n e.1 k2 hs
  rw [removeNode_keep_get? ops hlaw c hwf n k2, if_neg hk2]
  have hhit : ∀ e' ∈ (incident ops c n).filter (fun e => decide (ops.shrink e.1 n = some k2)), e' = e := by
    intro e' he'
    simp only [List.mem_filter, decide_eq_true_eq] at he'
    have h1 := (mem_incident ops c n e').mp he'.1
    apply huniq e' h1.1
    unfold stepKey; rw [if_pos (by simpa using h1.2)]; exact he'.2
  by_cases hc : n ∈ ops.nodesOf e.1
  · -- e is incident: the only hit, and k2 is not an old key
    have hshr : ops.shrink e.1 n = some k2 := by
      unfold stepKey at hs; rwa [if_pos (by simpa using hc)] at hs
    have hnone : get? c.edges k2 = none := by
      cases h : get? c.edges k2 with
      | none => rfl
      | some v =>
        exfalso
        have hm := al_mem_of_get? h
        have : (k2, v) = e := huniq _ hm (by unfold stepKey; rw [if_neg (by simpa using hk2)])
        rw [← this] at hc; exact hk2 hc
    have hnd : ((incident ops c n).filter (fun e => decide (ops.shrink e.1 n = some k2))).Nodup := by
      have h1 : (c.edges.map (·.1)).Nodup := hwf.keysNodup
      have h2 : c.edges.Nodup :=
        List.Pairwise.of_map (·.1) (fun a b hab heq => hab (by rw [heq])) h1
      exact (incident_nodup ops c n h2).sublist List.filter_sublist
    have hmem : e ∈ (incident ops c n).filter (fun e => decide (ops.shrink e.1 n = some k2)) := by
      simp only [List.mem_filter, decide_eq_true_eq]
      exact ⟨(mem_incident ops c n e).mpr ⟨he, hc⟩, hshr⟩
    have hl : (incident ops c n).filter (fun e => decide (ops.shrink e.1 n = some k2)) = [e] := by
      generalize (incident ops c n).filter (fun e => decide (ops.shrink e.1 n = some k2)) = l at *
      match l, hhit, hnd, hmem with
      | [a], hh, _, _ => rw [hh a List.mem_cons_self]
      | a :: b :: t, hh, hn, _ =>
        exfalso
        have ha := hh a List.mem_cons_self
        have hb := hh b (List.mem_cons_of_mem _ List.mem_cons_self)
        simp only [List.nodup_cons, List.mem_cons] at hn
        exact hn.1 (Or.inl (ha.trans hb.symm))
    rw [hl, hnone]; rfl
  · -- e is not incident: no hit at all, the old value stays
    have hk : e.1 = k2 := by
      unfold stepKey at hs; rw [if_neg (by simpa using hc)] at hs; exact Option.some.inj hs
    have hl : (incident ops c n).filter (fun e => decide (ops.shrink e.1 n = some k2)) = [] := by
      rw [List.eq_nil_iff_forall_not_mem]
      intro e' he'
      have := hhit e' he'
      simp only [List.mem_filter] at he'
      have h1 := (mem_incident ops c n e').mp he'.1
      rw [this] at h1; exact hc h1.2
    rw [hl, ← hk]
    exact al_get?_of_mem hwf.keysNodup he

/-! ### the node phase with `keep_edges=True` -/

theorem shrinkAll_cons (n : Node) (R : List Node) (k : κ) :
    shrinkAll ops (n :: R) k = (stepKey ops n k).bind (shrinkAll ops R) := by
  unfold shrinkAll
  simp only [List.foldl_cons, Option.bind_some]
  cases stepKey ops n k with
  | some k1 => rfl
  | none =>
    simp only [Option.bind_none]
    induction R with
    | nil => rfl
    | cons m R ih => simpa using ih

theorem foldl_removeNode_keep (hlaw : Lawful ops) (R : List Node) (c : Content κ ω) (hwf : WF ops c) :
    let s := R.foldl (removeNode ops true) c
    WF ops s ∧ s.weighted = c.weighted ∧
    s.nodes = c.nodes.filter (fun x => !R.contains x.1) ∧
    (∀ k2, k2 ∈ keys s.edges ↔ ∃ k ∈ keys c.edges, shrinkAll ops R k = some k2) ∧
    (∀ e2 ∈ s.edges, ∃ e ∈ c.edges, shrinkAll ops R e.1 = some e2.1 ∧ e2.2.2 = e.2.2) ∧
    (∀ e ∈ c.edges, ∀ k2, shrinkAll ops R e.1 = some k2 →
        (∀ e' ∈ c.edges, shrinkAll ops R e'.1 = some k2 → e' = e) → (k2, e.2) ∈ s.edges) := by
  induction R generalizing c with
  | nil =>
    refine ⟨hwf, rfl, ?_, ?_, ?_, ?_⟩
    · simp only [List.foldl_nil, List.contains_nil, Bool.not_false]
      exact (List.filter_eq_self.mpr (fun _ _ => rfl)).symm
    · intro k2; simp [shrinkAll]
    · intro e2 he2; exact ⟨e2, he2, by simp [shrinkAll], rfl⟩
    · intro e he k2 hs _
      simp only [shrinkAll, List.foldl_nil, Option.some.injEq] at hs
      subst hs; exact he
  | cons n R ih =>
    have hwf1 := removeNode_keep_wf ops hlaw c hwf n
    obtain ⟨h1, h2, h3, h4, h5, h6⟩ := ih (removeNode ops true c n) hwf1
    simp only [List.foldl_cons]
    refine ⟨h1, ?_, ?_, ?_, ?_, ?_⟩
    · rw [h2, removeNode_keep_weighted ops hlaw]
    · rw [h3, removeNode_keep_nodes ops hlaw c hwf n, al_erase_eq_filter _ _ hwf.nodesNodup, List.filter_filter]
      apply List.filter_congr
      intro x _
      rw [Bool.eq_iff_iff]
      simp only [Bool.and_eq_true, Bool.not_eq_true', ← Bool.not_eq_true, List.contains_iff_mem, List.mem_cons,
        not_or, decide_eq_true_eq]
      exact And.comm
    · intro k2
      rw [h4 k2]
      constructor
      · rintro ⟨k1, hk1, hs⟩
        obtain ⟨k, hk, hs1⟩ := (removeNode_keep_keys ops hlaw c hwf n k1).mp hk1
        exact ⟨k, hk, by rw [shrinkAll_cons, hs1]; exact hs⟩
      · rintro ⟨k, hk, hs⟩
        rw [shrinkAll_cons] at hs
        cases hs1 : stepKey ops n k with
        | none => rw [hs1] at hs; cases hs
        | some k1 =>
          rw [hs1] at hs
          exact ⟨k1, (removeNode_keep_keys ops hlaw c hwf n k1).mpr ⟨k, hk, hs1⟩, hs⟩
    · intro e2 he2
      obtain ⟨e1, he1, hs, hmd⟩ := h5 e2 he2
      obtain ⟨e, he, hs1, hmd1⟩ := removeNode_keep_md ops hlaw c hwf n e1 he1
      exact ⟨e, he, by rw [shrinkAll_cons, hs1]; exact hs, hmd.trans hmd1⟩
    · intro e he k2 hs huniq
      rw [shrinkAll_cons] at hs
      cases hs1 : stepKey ops n e.1 with
      | none => rw [hs1] at hs; cases hs
      | some k1 =>
        rw [hs1] at hs
        have hu1 : ∀ e' ∈ c.edges, stepKey ops n e'.1 = some k1 → e' = e := by
          intro e' he' hs'
          exact huniq e' he' (by rw [shrinkAll_cons, hs']; exact hs)
        have hm1 := removeNode_keep_unique ops hlaw c hwf n e he k1 hs1 hu1
        apply h6 (k1, e.2) hm1 k2 hs
        intro e1 he1 hs'
        obtain ⟨k, hk, hsk⟩ := (removeNode_keep_keys ops hlaw c hwf n e1.1).mp (al_mem_keys_of_mem he1)
        obtain ⟨e0, he0, rfl⟩ := List.mem_map.mp hk
        have : e0 = e := huniq e0 he0 (by rw [shrinkAll_cons, hsk]; exact hs')
        subst this
        have hk1 : e1.1 = k1 := by rw [hs1] at hsk; exact (Option.some.inj hsk).symm
        exact al_entry_unique hwf1.keysNodup he1 hm1 hk1

/-! ### unweighted containers: weights are never combined -/

theorem foldl_mergeInto_w_unweighted (hits : List (κ × (ω × Md))) (acc : Option (ω × Md)) (v : ω × Md)
    (h : hits.foldl (mergeInto false) acc = some v) :
    (∃ e ∈ hits, v.1 = e.2.1) ∨ (∃ v0, acc = some v0 ∧ v.1 = v0.1) := by
  induction hits generalizing acc with
  | nil => right; exact ⟨v, by simpa using h, rfl⟩
  | cons e hits ih =>
    simp only [List.foldl_cons] at h
    rcases ih _ h with ⟨e', he', hv⟩ | ⟨v0, hacc, hv⟩
    · exact Or.inl ⟨e', List.mem_cons_of_mem _ he', hv⟩
    · cases acc with
      | none =>
        left
        refine ⟨e, List.mem_cons_self, ?_⟩
        simp only [mergeInto, Option.some.injEq] at hacc
        rw [hv, ← hacc]
      | some a =>
        right
        refine ⟨a, rfl, ?_⟩
        simp only [mergeInto, Bool.false_eq_true, if_false, Option.some.injEq] at hacc
        rw [hv, ← hacc]

theorem removeNode_keep_w_unweighted (hlaw : Lawful ops) (c : Content κ ω) (hwf : WF ops c) (hw : c.weighted = false)
    (n : Node) (e2 : κ × (ω × Md)) (he2 : e2 ∈ (removeNode ops true c n).edges) :
    ∃ e ∈ c.edges, stepKey ops n e.1 = some e2.1 ∧ e2.2.1 = e.2.1 := by
  have hwf2 := removeNode_keep_wf ops hlaw c hwf n
  have hg := al_get?_of_mem hwf2.keysNodup he2
  rw [removeNode_keep_get? ops hlaw c hwf n e2.1, hw] at hg
  split at hg
  · cases hg
  · rename_i hk2
    rcases foldl_mergeInto_w_unweighted _ _ _ hg with ⟨e, he, hv⟩ | ⟨v0, hacc, hv⟩
    · simp only [List.mem_filter, decide_eq_true_eq] at he
      have he' := (mem_incident ops c n e).mp he.1
      refine ⟨e, he'.1, ?_, hv⟩
      unfold stepKey; rw [if_pos (by simpa using he'.2)]; exact he.2
    · refine ⟨(e2.1, v0), al_mem_of_get? hacc, ?_, hv⟩
      unfold stepKey; rw [if_neg (by simpa using hk2)]

theorem foldl_removeNode_keep_w_unweighted (hlaw : Lawful ops) (R : List Node) (c : Content κ ω) (hwf : WF ops c)
    (hw : c.weighted = false) :
    ∀ e2 ∈ (R.foldl (removeNode ops true) c).edges, ∃ e ∈ c.edges, shrinkAll ops R e.1 = some e2.1 ∧ e2.2.1 = e.2.1 := by
  induction R generalizing c with
  | nil => intro e2 he2; exact ⟨e2, he2, by simp [shrinkAll], rfl⟩
  | cons n R ih =>
    intro e2 he2
    simp only [List.foldl_cons] at he2
    obtain ⟨e1, he1, hs, hv⟩ := ih _ (removeNode_keep_wf ops hlaw c hwf n)
      (by rw [removeNode_keep_weighted ops hlaw]; exact hw) e2 he2
    obtain ⟨e, he, hs1, hv1⟩ := removeNode_keep_w_unweighted ops hlaw c hwf hw n e1 he1
    exact ⟨e, he, by rw [shrinkAll_cons, hs1]; exact hs, hv.trans hv1⟩

/-! ### `filter_hypergraph` returns: every node / key it removes is present at that moment -/

theorem removeNode_drop_wf (c : Content κ ω) (hwf : WF ops c) (n : Node) : WF ops (removeNode ops false c n) := by
  rw [removeNode_drop ops c n hwf.nodesNodup hwf.keysNodup]
  refine ⟨al_keys_filter_nodup _ _ hwf.nodesNodup, al_keys_filter_nodup _ _ hwf.keysNodup, ?_⟩
  intro e he m hm
  simp only [List.mem_filter, Bool.not_eq_true', ← Bool.not_eq_true, List.contains_iff_mem] at he
  obtain ⟨x, hx, hxm⟩ := List.mem_map.mp (hwf.closed e he.1 m hm)
  refine List.mem_map.mpr ⟨x, ?_, hxm⟩
  simp only [List.mem_filter, Bool.not_eq_true', decide_eq_false_iff_not]
  refine ⟨hx, fun h => he.2 ?_⟩
  have : x.1 = m := hxm
  rw [← h, this]; exact hm

theorem removeNode_wf (hlaw : Lawful ops) (keep : Bool) (c : Content κ ω) (hwf : WF ops c) (n : Node) :
    WF ops (removeNode ops keep c n) := by
  cases keep
  · exact removeNode_drop_wf ops c hwf n
  · exact removeNode_keep_wf ops hlaw c hwf n

theorem removeNode_nodes (hlaw : Lawful ops) (keep : Bool) (c : Content κ ω) (hwf : WF ops c) (n : Node) :
    (removeNode ops keep c n).nodes = erase c.nodes n := by
  cases keep
  · rw [removeNode_drop ops c n hwf.nodesNodup hwf.keysNodup, al_erase_eq_filter _ _ hwf.nodesNodup]
  · exact removeNode_keep_nodes ops hlaw c hwf n

theorem foldlM_removeNode? (hlaw : Lawful ops) (keep : Bool) (R : List Node) (c : Content κ ω) (hwf : WF ops c)
    (hR : R.Nodup) (hmem : ∀ n ∈ R, n ∈ keys c.nodes) :
    R.foldlM (removeNode? ops keep) c = some (R.foldl (removeNode ops keep) c) := by
  induction R generalizing c with
  | nil => rfl
  | cons n R ih =>
    simp only [List.nodup_cons] at hR
    have h1 : removeNode? ops keep c n = some (removeNode ops keep c n) := by
      unfold removeNode?
      rw [if_pos ((al_isSome_iff_mem _ _).mpr (hmem n List.mem_cons_self))]
    rw [List.foldlM_cons, h1, List.foldl_cons]
    simp only [Option.bind_eq_bind, Option.bind_some]
    apply ih _ (removeNode_wf ops hlaw keep c hwf n) hR.2
    intro m hm
    rw [removeNode_nodes ops hlaw keep c hwf n, keys_erase_perm]
    exact (List.mem_erase_of_ne (fun (h : m = n) => hR.1 (h ▸ hm))).mpr (hmem m (List.mem_cons_of_mem _ hm))

theorem foldlM_removeEdge? (K : List κ) (c : Content κ ω) (hnd : (keys c.edges).Nodup) (hK : K.Nodup)
    (hmem : ∀ k ∈ K, k ∈ keys c.edges) :
    K.foldlM removeEdge? c = some (K.foldl removeEdge c) := by
  induction K generalizing c with
  | nil => rfl
  | cons k K ih =>
    simp only [List.nodup_cons] at hK
    have h1 : removeEdge? c k = some (removeEdge c k) := by
      unfold removeEdge?
      rw [if_pos ((al_isSome_iff_mem _ _).mpr (hmem k List.mem_cons_self))]
    rw [List.foldlM_cons, h1, List.foldl_cons]
    simp only [Option.bind_eq_bind, Option.bind_some]
    apply ih _ (al_keys_erase_nodup _ _ hnd) hK.2
    intro k' hk'
    simp only [removeEdge]
    rw [keys_erase_perm]
    exact (List.mem_erase_of_ne (fun (h : k' = k) => hK.1 (h ▸ hk'))).mpr (hmem k' (List.mem_cons_of_mem _ hk'))

theorem foldl_removeNode_wf (hlaw : Lawful ops) (keep : Bool) (R : List Node) (c : Content κ ω) (hwf : WF ops c) :
    WF ops (R.foldl (removeNode ops keep) c) := by
  induction R generalizing c with
  | nil => exact hwf
  | cons n R ih => exact ih _ (removeNode_wf ops hlaw keep c hwf n)

theorem nodePhase_wf (hlaw : Lawful ops) (c : Content κ ω) (hwf : WF ops c) (nc : Option Crit) (mode : Mode)
    (keep : Bool) : WF ops (nodePhase ops c nc mode keep) := by
  cases nc with
  | none => exact hwf
  | some cr => exact foldl_removeNode_wf ops hlaw keep _ c hwf

theorem map_fst_filter_nodup {α β : Type} [DecidableEq α] (l : List (α × β)) (p : α × β → Bool) (h : (keys l).Nodup) :
    ((l.filter p).map (·.1)).Nodup := al_keys_filter_nodup l p h

theorem filterHg?_eq (hlaw : Lawful ops) (c : Content κ ω) (hwf : WF ops c) (nc ec : Option Crit) (mode : Mode)
    (keep : Bool) : filterHg? ops c nc ec mode keep = some (filterHg ops c nc ec mode keep) := by
  have hn : nodePhase? ops c nc mode keep = some (nodePhase ops c nc mode keep) := by
    cases nc with
    | none => rfl
    | some cr =>
      simp only [nodePhase?, nodePhase]
      apply foldlM_removeNode? ops hlaw keep _ c hwf
      · exact map_fst_filter_nodup _ _ hwf.nodesNodup
      · intro n hn
        simp only [nodesToProcess, List.mem_map, List.mem_filter] at hn
        obtain ⟨x, ⟨hx, _⟩, rfl⟩ := hn
        exact al_mem_keys_of_mem hx
  have hwf1 := nodePhase_wf ops hlaw c hwf nc mode keep
  unfold filterHg? filterHg
  rw [hn, Option.bind_some]
  cases ec with
  | none => rfl
  | some cr =>
    simp only [edgePhase?, edgePhase]
    apply foldlM_removeEdge? _ _ hwf1.keysNodup
    · exact map_fst_filter_nodup _ _ hwf1.keysNodup
    · intro k hk
      simp only [edgesToProcess, List.mem_map, List.mem_filter] at hk
      obtain ⟨x, ⟨hx, _⟩, rfl⟩ := hk
      exact al_mem_keys_of_mem hx

end keep
end C19
