import Hgxv.Proofs.C06WF
import Hgxv.Proofs.C06Hgr
/-! # C06 ↔ the full container models, generic part (core Lean only)

The four container models (C01 … C04) keep metadata as association lists of `Nat` tokens (attribute token ↦ value
token).  C06's metadata vocabulary is structured (`Key` = the three reserved strings + user keys, `Val` = pool token /
weight / time / layer): `decKey`, `decVal` are a NUMBERING of that vocabulary by the containers' tokens (bijections, with
inverses `encKey`, `encVal`), so that a table of a container spec reads as a C06 table (`ofTables`) and every C06
content is such a reading (`ofTables_enc`).

`tAddNode`, `tTouchAll`, `tEntry` are `add_node` / `add_edge` on token tables in the shape the four `Spec`s use
(`AL.set` for new and old keys); `ofTables_tAddNode`, `addEdge_ofTables` say that C06's `addNode` / `addEdge` on the
reading are these table updates, with C06's accept / reject verdict.  `SpecOps` packages a container spec with its
constructor, `add_node`, `add_edge`; `load_eq_replay`: `load_hypergraph` on ANY record list is the replay of the records
through the spec's own operations. -/
set_option linter.unusedSectionVars false
namespace C06

/-- metadata of the container models: attribute token ↦ value token -/
abbrev TMeta := List (Nat × Nat)

/-! ## the numbering of C06's metadata vocabulary -/

def decKey : Nat → Key
  | 0 => .weight
  | 1 => .time
  | 2 => .layer
  | n + 3 => .user n

def encKey : Key → Nat
  | .weight => 0
  | .time => 1
  | .layer => 2
  | .user n => n + 3

theorem decKey_encKey (k : Key) : decKey (encKey k) = k := by cases k <;> rfl

theorem encKey_decKey (n : Nat) : encKey (decKey n) = n := by
  match n with
  | 0 => rfl
  | 1 => rfl
  | 2 => rfl
  | n + 3 => rfl

def decInt (m : Nat) : Int := if m % 2 = 0 then Int.ofNat (m / 2) else Int.negSucc (m / 2)

def encInt : Int → Nat
  | .ofNat k => 2 * k
  | .negSucc k => 2 * k + 1

theorem decInt_encInt (q : Int) : decInt (encInt q) = q := by
  cases q with
  | ofNat k =>
    have h2 : 2 * k / 2 = k := by omega
    simp [decInt, encInt, h2]
  | negSucc k =>
    have h2 : (2 * k + 1) / 2 = k := by omega
    simp [decInt, encInt, h2]

def decVal (n : Nat) : Val :=
  if n % 4 = 0 then .tok (n / 4)
  else if n % 4 = 1 then .tm (n / 4)
  else if n % 4 = 2 then .lay (n / 4)
  else .wq (decInt (n / 4))

def encVal : Val → Nat
  | .tok n => 4 * n
  | .tm t => 4 * t + 1
  | .lay l => 4 * l + 2
  | .wq q => 4 * encInt q + 3

theorem decVal_encVal (v : Val) : decVal (encVal v) = v := by
  cases v with
  | tok n =>
    have h1 : 4 * n % 4 = 0 := by omega
    have h2 : 4 * n / 4 = n := by omega
    simp [decVal, encVal, h1, h2]
  | tm t =>
    have h1 : (4 * t + 1) % 4 = 1 := by omega
    have h2 : (4 * t + 1) / 4 = t := by omega
    simp [decVal, encVal, h1, h2]
  | lay l =>
    have h1 : (4 * l + 2) % 4 = 2 := by omega
    have h2 : (4 * l + 2) / 4 = l := by omega
    simp [decVal, encVal, h1, h2]
  | wq q =>
    have h1 : (4 * encInt q + 3) % 4 = 3 := by omega
    have h2 : (4 * encInt q + 3) / 4 = encInt q := by omega
    simp [decVal, encVal, h1, h2, decInt_encInt]

/-- a token dict of a container model read as C06 metadata -/
def decMeta (m : TMeta) : Meta := m.map (fun p => (decKey p.1, decVal p.2))
def encMeta (m : Meta) : TMeta := m.map (fun p => (encKey p.1, encVal p.2))

theorem decMeta_encMeta (m : Meta) : decMeta (encMeta m) = m := by
  induction m with
  | nil => rfl
  | cons p t ih =>
    simp only [decMeta, encMeta, List.map_cons, List.map_map] at ih ⊢
    rw [ih]; simp [decKey_encKey, decVal_encVal]

theorem decMeta_eq_nil (m : TMeta) : decMeta m = [] ↔ m = [] := by
  cases m <;> simp [decMeta]

/-! ## association lists under a key / value translation -/
section mapkv
variable {α α' β β' : Type} [DecidableEq α] [DecidableEq α']

def mapKV (f : α → α') (g : β → β') (l : List (α × β)) : List (α' × β') := l.map (fun p => (f p.1, g p.2))

theorem get?_mapKV (f : α → α') (g : β → β') (hf : ∀ a b, f a = f b → a = b) (l : List (α × β)) (k : α) :
    AL.get? (mapKV f g l) (f k) = (AL.get? l k).map g := by
  induction l with
  | nil => rfl
  | cons hd t ih =>
    obtain ⟨k', v⟩ := hd
    simp only [mapKV, List.map_cons, AL.get?] at ih ⊢
    by_cases h : k' = k
    · subst h; simp
    · have : f k' ≠ f k := fun e => h (hf _ _ e)
      simp [h, this, ih]

theorem set_mapKV (f : α → α') (g : β → β') (hf : ∀ a b, f a = f b → a = b) (l : List (α × β)) (k : α) (v : β) :
    AL.set (mapKV f g l) (f k) (g v) = mapKV f g (AL.set l k v) := by
  induction l with
  | nil => rfl
  | cons hd t ih =>
    obtain ⟨k', v'⟩ := hd
    simp only [mapKV, List.map_cons, AL.set] at ih ⊢
    by_cases h : k' = k
    · subst h; simp
    · have : f k' ≠ f k := fun e => h (hf _ _ e)
      simp [h, this, ih]

theorem keys_mapKV (f : α → α') (g : β → β') (l : List (α × β)) : AL.keys (mapKV f g l) = (AL.keys l).map f := by
  simp [mapKV, AL.keys, Function.comp_def]

theorem mem_mapKV (f : α → α') (g : β → β') (l : List (α × β)) (e : α' × β') :
    e ∈ mapKV f g l ↔ ∃ p ∈ l, e = (f p.1, g p.2) := by
  simp only [mapKV, List.mem_map]
  constructor
  · rintro ⟨p, hp, rfl⟩; exact ⟨p, hp, rfl⟩
  · rintro ⟨p, hp, rfl⟩; exact ⟨p, hp, rfl⟩

end mapkv

theorem id_inj : ∀ a b : Nat, id a = id b → a = b := fun _ _ h => h

theorem AL_set_set {α β : Type} [DecidableEq α] (l : List (α × β)) (k : α) (v v' : β) :
    AL.set (AL.set l k v) k v' = AL.set l k v' := by
  induction l with
  | nil => simp [AL.set]
  | cons hd t ih => grind [AL.set]

/-- an accepted weight on an unweighted object is 1: the two ways of writing the weight of a new key agree -/
theorem accepted_weight (wtd : Bool) (w : Option Int) (h : ¬ rejectsWeight wtd w = true) :
    (if wtd then weightOrUnit w else unit) = weightOrUnit w := by
  cases wtd with
  | true => rfl
  | false =>
    cases w with
    | none => rfl
    | some q =>
      simp only [rejectsWeight, Bool.not_false, Bool.true_and, bne_iff_ne, ne_eq, Decidable.not_not] at h
      simp [weightOrUnit, h]

/-! ## `add_node` on token tables -/

/-- `add_node(n, md)` on a node table of a container spec: a new node gets `md`, an existing one only while its
metadata is `{}` -/
def tAddNode (t : List (Nat × TMeta)) (n : Nat) (md : TMeta) : List (Nat × TMeta) :=
  match AL.get? t n with
  | none => AL.set t n md
  | some [] => AL.set t n md
  | some _ => t

def tTouchAll (t : List (Nat × TMeta)) (l : List Nat) : List (Nat × TMeta) := l.foldl (fun t n => tAddNode t n []) t

def decNodes (t : List (Nat × TMeta)) : List (Nat × Meta) := mapKV id decMeta t

theorem decNodes_tAddNode (t : List (Nat × TMeta)) (n : Nat) (md : TMeta) :
    decNodes (tAddNode t n md) = touchNode (decNodes t) n (decMeta md) := by
  unfold tAddNode touchNode decNodes
  have hg := get?_mapKV id decMeta id_inj t n
  simp only [id] at hg
  rw [hg]
  have hs := set_mapKV id decMeta id_inj t n md
  simp only [id] at hs
  cases h : AL.get? t n with
  | none =>
    simp only [Option.map_none]
    rw [AL_set_new t n md h]
    simp [mapKV]
  | some old =>
    cases old with
    | nil =>
      simp only [Option.map_some]
      rw [if_pos (by rfl : decMeta [] = []), hs]
    | cons x xs =>
      simp only [Option.map_some]
      rw [if_neg (by simp [decMeta] : ¬ decMeta (x :: xs) = [])]

theorem decNodes_tTouchAll (t : List (Nat × TMeta)) (l : List Nat) :
    decNodes (tTouchAll t l) = touchAll (decNodes t) l := by
  unfold tTouchAll touchAll
  induction l generalizing t with
  | nil => rfl
  | cons a r ih =>
    simp only [List.foldl_cons]
    rw [ih, decNodes_tAddNode]; rfl

/-! ## contents read off the tables of a container spec -/

section tables
variable {κ κ' : Type} [DecidableEq κ] [DecidableEq κ'] [Kind κ]

def decVal2 (v : Int × TMeta) : Int × Meta := (v.1, decMeta v.2)

/-- the four tables of a container spec (keys translated by `f`) as a C06 content -/
def ofTables (f : κ' → κ) (wtd : Bool) (hm : TMeta) (ns : List (Nat × TMeta)) (es : List (κ' × (Int × TMeta))) :
    Content κ :=
  { weighted := wtd, hmeta := decMeta hm, nodes := decNodes ns, edges := mapKV f decVal2 es }

/-- the (weight, metadata) entry of a key after `add_edge`: new key = the given weight (1 when unweighted);
old key = weights add up when weighted; the metadata is replaced -/
def tEntry (wtd : Bool) (old : Option (Int × TMeta)) (w : Int) (md : TMeta) : Int × TMeta :=
  match old with
  | none => (if wtd then w else unit, md)
  | some o => (if wtd then o.1 + w else o.1, md)

/-- C06's `add_edge` on the reading of spec tables IS the table update the container specs perform
(`AL.set` of `tEntry`, nodes touched for a new key / always for temporal and multiplex), with the same verdict -/
theorem addEdge_ofTables (f : κ' → κ) (hf : ∀ a b, f a = f b → a = b) (wtd : Bool) (hm : TMeta)
    (ns : List (Nat × TMeta)) (es : List (κ' × (Int × TMeta))) (raw : κ) (k' : κ') (hk : Kind.canon raw = f k')
    (w : Option Int) (md : Option TMeta) :
    addEdge (ofTables f wtd hm ns es) raw w (md.map decMeta) =
      if rejectsWeight wtd w then none
      else some (ofTables f wtd hm
        (if Kind.touchAlways κ || (AL.get? es k').isNone then tTouchAll ns (Kind.members (f k')) else ns)
        (AL.set es k' (tEntry wtd (AL.get? es k') (weightOrUnit w) (md.getD [])))) := by
  unfold addEdge
  simp only [ofTables]
  by_cases hr : rejectsWeight wtd w = true
  · simp [hr]
  · simp only [hr, Bool.false_eq_true, if_false, hk]
    rw [get?_mapKV f decVal2 hf es k']
    have hmd : metaOrEmpty (md.map decMeta) = decMeta (md.getD []) := by cases md <;> rfl
    cases hg : AL.get? es k' with
    | none =>
      simp only [Option.map_none, addEdgeNew, Option.isNone_none, Bool.or_true, if_true, tEntry, hmd]
      rw [AL_set_new es k' _ hg, decNodes_tTouchAll]
      simp [mapKV, decVal2]
    | some old =>
      simp only [Option.map_some, addEdgeOld, Option.isNone_some, Bool.or_false, tEntry, hmd]
      rw [← set_mapKV f decVal2 hf es k']
      cases hta : Kind.touchAlways κ with
      | true => simp [decNodes_tTouchAll, decVal2]
      | false => simp [decVal2]

theorem addNode_ofTables (f : κ' → κ) (wtd : Bool) (hm : TMeta) (ns : List (Nat × TMeta))
    (es : List (κ' × (Int × TMeta))) (n : Nat) (md : Option TMeta) :
    addNode (ofTables f wtd hm ns es) n (md.map decMeta) = ofTables f wtd hm (tAddNode ns n (md.getD [])) es := by
  have hmd : metaOrEmpty (md.map decMeta) = decMeta (md.getD []) := by cases md <;> rfl
  simp [addNode, ofTables, decNodes_tAddNode, hmd]

/-- every C06 content is the reading of token tables -/
theorem ofTables_enc (f : κ' → κ) (g : κ → κ') (hfg : ∀ k, f (g k) = k) (c : Content κ) :
    ofTables f c.weighted (encMeta c.hmeta) (mapKV id encMeta c.nodes) (mapKV g (fun v => (v.1, encMeta v.2)) c.edges)
      = c := by
  obtain ⟨w, hm, ns, es⟩ := c
  simp only [ofTables, decNodes, mapKV, List.map_map, Function.comp_def, id, decMeta_encMeta, decVal2, hfg]
  simp

/-! ## well-formedness from table facts -/

theorem WF_ofTables (f : κ' → κ) (hf : ∀ a b, f a = f b → a = b) (wtd : Bool) (hm : TMeta)
    (ns : List (Nat × TMeta)) (es : List (κ' × (Int × TMeta)))
    (h1 : (AL.keys ns).Nodup) (h2 : (AL.keys es).Nodup)
    (h3 : ∀ k ∈ AL.keys es, Kind.canon (f k) = f k)
    (h4 : ∀ k ∈ AL.keys es, ∀ n ∈ Kind.members (f k), n ∈ AL.keys ns)
    (h5 : wtd = false → ∀ e ∈ es, e.2.1 = unit) : WF (ofTables f wtd hm ns es) := by
  refine ⟨?_, ?_, ?_, ?_, ?_⟩
  · show (AL.keys (mapKV id decMeta ns)).Nodup
    rw [keys_mapKV]; simpa using h1
  · show (AL.keys (mapKV f decVal2 es)).Nodup
    rw [keys_mapKV]; exact nodup_map_of_inj f hf _ h2
  · intro e he
    obtain ⟨p, hp, rfl⟩ := (mem_mapKV f decVal2 es e).mp he
    exact h3 p.1 (List.mem_map.mpr ⟨p, hp, rfl⟩)
  · intro e he n hn
    obtain ⟨p, hp, rfl⟩ := (mem_mapKV f decVal2 es e).mp he
    show n ∈ AL.keys (mapKV id decMeta ns)
    rw [keys_mapKV]; simpa using h4 p.1 (List.mem_map.mpr ⟨p, hp, rfl⟩) n hn
  · intro hw e he
    obtain ⟨p, hp, rfl⟩ := (mem_mapKV f decVal2 es e).mp he
    exact h5 hw p hp

end tables

/-! ## `load_hypergraph` = replay through a container spec -/

/-- a container model (its abstract spec, or its id-indexed store) seen through the three entry points
`load_hypergraph` uses -/
structure SpecOps (κ : Type) [DecidableEq κ] [Kind κ] (S : Type) where
  /-- the content the state shows -/
  of : S → Content κ
  /-- constructor with the weighted flag, then `set_hypergraph_metadata` -/
  new : Bool → TMeta → S
  addNode : S → Nat → TMeta → S
  /-- `none` = the model rejects the call -/
  addEdge : S → κ → Option Int → TMeta → Option S
  /-- the hyperedges for which the model's `add_edge` is linked: every key for the abstract specs, the model's
  quantifier (node *sets*) for the id-indexed stores -/
  okKey : κ → Prop
  of_new : ∀ w hm, of (new w hm) = setHMeta (construct κ w) (decMeta hm)
  of_addNode : ∀ a n md, of (addNode a n md) = C06.addNode (of a) n (some (decMeta md))
  of_addEdge : ∀ a k w md, okKey k → C06.addEdge (of a) k w (some (decMeta md)) = (addEdge a k w md).map of

section replay
variable {κ : Type} [DecidableEq κ] [Kind κ] {S : Type} (L : SpecOps κ S)

def SpecOps.replayNodes (a : S) (l : List (Nat × Meta)) : S := l.foldl (fun a p => L.addNode a p.1 (encMeta p.2)) a

/-- the edge records, one `add_edge` of the model each (key and weight read as `load` reads them) -/
def SpecOps.replayEdges (wtd : Bool) (a : S) : List (Inter × Meta) → Option S
  | [] => some a
  | r :: rest =>
    match Kind.readKey (κ := κ) r.1 r.2, readWeight wtd r.2 with
    | some k, some w =>
      match L.addEdge a k w (encMeta r.2) with
      | none => none
      | some a' => SpecOps.replayEdges wtd a' rest
    | _, _ => none

/-- `load_hypergraph` written with the model's operations -/
def SpecOps.replay (rs : List Record) : Option S :=
  match lastHeader rs none with
  | none => none
  | some (t, w, hm) =>
    if t = Kind.ty κ then L.replayEdges w (L.replayNodes (L.new w (encMeta hm)) (nodeRecs rs)) (edgeRecs rs)
    else none

/-- every readable key of the edge records is one the link covers -/
def SpecOps.okRecs (l : List (Inter × Meta)) : Prop :=
  ∀ r ∈ l, ∀ k, Kind.readKey (κ := κ) r.1 r.2 = some k → L.okKey k

theorem SpecOps.okRecs_of_all (h : ∀ k, L.okKey k) (l : List (Inter × Meta)) : L.okRecs l := fun _ _ k _ => h k

theorem SpecOps.of_replayNodes (a : S) (l : List (Nat × Meta)) :
    L.of (L.replayNodes a l) = loadNodes (L.of a) l := by
  unfold SpecOps.replayNodes loadNodes
  induction l generalizing a with
  | nil => rfl
  | cons p t ih =>
    simp only [List.foldl_cons]
    rw [ih, L.of_addNode, decMeta_encMeta]

theorem addNode_weighted (c : Content κ) (n : Nat) (m : Option Meta) : (addNode c n m).weighted = c.weighted := rfl

theorem loadNodes_weighted (c : Content κ) (l : List (Nat × Meta)) : (loadNodes c l).weighted = c.weighted := by
  unfold loadNodes
  induction l generalizing c with
  | nil => rfl
  | cons p t ih => simp only [List.foldl_cons]; rw [ih]; rfl

theorem SpecOps.of_replayEdges (wtd : Bool) (a : S) (hw : (L.of a).weighted = wtd) (l : List (Inter × Meta))
    (hl : L.okRecs l) :
    loadEdges (L.of a) l = (L.replayEdges wtd a l).map L.of := by
  induction l generalizing a with
  | nil => rfl
  | cons r rest ih =>
    simp only [loadEdges, loadEdge, SpecOps.replayEdges, hw]
    cases hk : Kind.readKey (κ := κ) r.1 r.2 with
    | none => simp
    | some k =>
      cases hwt : readWeight wtd r.2 with
      | none => simp
      | some w =>
        simp only []
        have h1 := L.of_addEdge a k w (encMeta r.2) (hl r List.mem_cons_self k hk)
        rw [decMeta_encMeta] at h1
        rw [h1]
        cases ha : L.addEdge a k w (encMeta r.2) with
        | none => simp
        | some a' =>
          simp only [Option.map_some]
          have hw' : (L.of a').weighted = wtd := by
            rw [ha] at h1
            rw [(addEdge_spec _ _ _ _ _ h1).1, hw]
          exact ih a' hw' (fun r' hr' => hl r' (List.mem_cons_of_mem _ hr'))

/-- **`load_hypergraph` is the replay of the records through the container model**, for every record list whose
hyperedges the link covers (all of them, for the abstract specs): same failures (missing / foreign header, unreadable key
or weight, a rejected `add_edge`), same object -/
theorem SpecOps.load_eq_replay (rs : List Record) (hl : L.okRecs (edgeRecs rs)) :
    load (κ := κ) rs = (L.replay rs).map L.of := by
  unfold load SpecOps.replay
  cases lastHeader rs none with
  | none => rfl
  | some p =>
    obtain ⟨t, w, hm⟩ := p
    simp only []
    by_cases ht : t = Kind.ty κ
    · simp only [ht, if_true]
      have h0 : setHMeta (construct κ w) hm = L.of (L.new w (encMeta hm)) := by rw [L.of_new, decMeta_encMeta]
      rw [h0, ← L.of_replayNodes]
      apply L.of_replayEdges
      · rw [L.of_replayNodes, loadNodes_weighted, L.of_new]; rfl
      · exact hl
    · simp [ht]

theorem edgeRecs_save (c : Content κ) : edgeRecs (save c) = c.edges.map (recOf c.weighted) := by
  simp only [save, edgeRecs, edgeRecs_nodes, edgeRecs_edges]

/-- the records `save` writes carry exactly the keys of the content -/
theorem SpecOps.okRecs_save [LawfulKind κ] (c : Content κ) (hk : ∀ e ∈ c.edges, L.okKey e.1) :
    L.okRecs (edgeRecs (save c)) := by
  intro r hr k hrk
  rw [edgeRecs_save] at hr
  obtain ⟨e, he, rfl⟩ := List.mem_map.mp hr
  simp only [recOf, LawfulKind.readKey_inter, Option.some.injEq] at hrk
  rw [← hrk]; exact hk e he

/-- the replay of the records `save` writes for a well-formed content succeeds on the model, and the state it
ends in shows the saved content with every hyperedge's metadata decorated by the reserved keys -/
theorem SpecOps.replay_save [LawfulKind κ] (c : Content κ) (h : WF c) (hk : ∀ e ∈ c.edges, L.okKey e.1) :
    ∃ a : S, L.replay (save c) = some a ∧ L.of a = { c with edges := c.edges.map (decorated c.weighted) } := by
  have h1 := L.load_eq_replay (save c) (L.okRecs_save c hk)
  rw [load_save c h] at h1
  cases hr : L.replay (save c) with
  | none => rw [hr] at h1; cases h1
  | some a =>
    rw [hr] at h1
    simp only [Option.map_some, Option.some.injEq] at h1
    exact ⟨a, rfl, h1.symm⟩

/-- … and that state shows the saved content itself once the reserved keys are erased, and is well-formed again -/
theorem SpecOps.reload [LawfulKind κ] (c : Content κ) (h : WF c) (hk : ∀ e ∈ c.edges, L.okKey e.1) :
    ∃ a : S, L.replay (save c) = some a ∧ (L.of a).erased = c.erased ∧ WF (L.of a) := by
  obtain ⟨a, h1, h2⟩ := L.replay_save c h hk
  exact ⟨a, h1, by rw [h2]; exact erased_decorated c, by rw [h2]; exact WF_decorated c h⟩

end replay

end C06
