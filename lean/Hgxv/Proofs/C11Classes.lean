import Hgxv.Proofs.C11Tables
/-! # C11 - the class tables in closed form (fast module on top of the kernel-checked certificates) -/
namespace C11

theorem classes_eq_reps {n : Nat} {cid : Nat → Nat} (C : Cert n cid) :
    classes n = (List.range (numMasks n)).filter (fun m => Nat.beq (cid m) m && !Nat.beq m 0) := by
  rw [classes_eq C]
  apply List.filter_congr
  intro m hm
  have hlt : m < numMasks n := List.mem_range.mp hm
  unfold isRep
  by_cases hfix : cid m = m
  · have hb : Nat.beq (cid m) m = true := by rw [hfix]; exact Nat.beq_refl m
    have hc := C.conn m hlt
    rw [hfix] at hc
    by_cases h0 : m = 0
    · have : connected n (masks n) m = false := by
        cases h : connected n (masks n) m with
        | false => rfl
        | true => exact absurd h0 (hc.mp h)
      subst h0
      simp [this]
    · have hne : Nat.beq m 0 = false := by
        cases h : Nat.beq m 0 with
        | false => rfl
        | true => exact absurd (Nat.eq_of_beq_eq_true h) h0
      simp [hc.mpr h0, hfix, hne]
  · have hb : Nat.beq (cid m) m = false := by
      cases h : Nat.beq (cid m) m with
      | false => rfl
      | true => exact absurd (Nat.eq_of_beq_eq_true h) hfix
    simp [hfix, hb]

theorem classes3_eq : classes 3 = cls3lit := by
  rw [classes_eq_reps cert3, numMasks3]; exact reps3

theorem classes4_eq : classes 4 = cls4lit := by
  rw [classes_eq_reps cert4, numMasks4]; exact reps4

theorem classes3_length : (classes 3).length = 6 := by rw [classes3_eq]; decide
set_option maxRecDepth 100000 in
theorem classes4_length : (classes 4).length = 171 := by rw [classes4_eq]; decide +kernel

/-- the certificate for the order at hand -/
def cidFor (n : Nat) : Nat → Nat := if n = 3 then cid3 else cid4

theorem certFor {n : Nat} (hn : n = 3 ∨ n = 4) : Cert n (cidFor n) := by
  rcases hn with h | h <;> subst h
  · exact cert3
  · exact cert4

end C11
