import Hgxv.Model.C07
/-! # C07 — a setter called again for the same key REPLACES what the earlier call stored

Table-level facts behind the "second / third call of one setter" histories of the harness (round e): Python's
`d[k] = a; d[k] = b` leaves exactly what `d[k] = b` alone leaves - position of the key included. -/
namespace C07
open AL

theorem set_set_same {α β : Type} [DecidableEq α] (l : List (α × β)) (k : α) (a b : β) :
    AL.set (AL.set l k a) k b = AL.set l k b := by
  induction l with
  | nil => simp [AL.set]
  | cons h t ih =>
    by_cases e : h.1 = k
    · simp [AL.set, e]
    · simp [AL.set, e, ih]

theorem has_set_same {α β : Type} [DecidableEq α] (l : List (α × β)) (k : α) (a : β) (n : α) (h : has l n = true) :
    has (AL.set l k a) n = true := by
  unfold has at *
  rw [get?_set]
  by_cases e : k = n <;> simp [e, h]

variable {κ : Type} [Kind κ]

theorem setHAttr_twice (t : Tables κ) (f : String) (a b : JTree) :
    (setHAttr (setHAttr t f a).1 f b).1 = (setHAttr t f b).1 := by
  unfold setHAttr
  cases h : t.hmeta <;> simp [JTree.setField, h, set_set_same]

theorem setHMeta_twice (t : Tables κ) (a b : JTree) :
    ({ ({ t with hmeta := a } : Tables κ) with hmeta := b } : Tables κ) = { t with hmeta := b } := rfl

theorem setNodeMeta_twice (t : Tables κ) (n : Nat) (a b : JTree) :
    (setNodeMeta (setNodeMeta t n a).1 n b).1 = (setNodeMeta t n b).1 := by
  unfold setNodeMeta
  by_cases h : nodeKnown t n = true
  · have h2 : nodeKnown ({ t with nodeMeta := set t.nodeMeta n a } : Tables κ) n = true := by
      unfold nodeKnown at *
      by_cases fl : (Kind.flags κ).addNodeTestsMeta = true
      · simp only [fl, if_true] at *
        exact has_set_same _ _ _ _ h
      · simpa [fl] using h
    simp [h, h2, set_set_same]
  · simp [h]

theorem setEdgeMeta_twice (t : Tables κ) (k : κ) (a b : JTree) :
    (setEdgeMeta (setEdgeMeta t k a).1 k b).1 = (setEdgeMeta t k b).1 := by
  unfold setEdgeMeta
  cases h : get? t.edgeList (Kind.canonK k) <;> simp [h, set_set_same]

end C07
