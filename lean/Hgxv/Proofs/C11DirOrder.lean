import Hgxv.Model.C11
import Hgxv.Proofs.C11Sets
/-! # C11 - the Python tuple order on directed patterns is a total order; sorting is canonical (core Lean only) -/
namespace C11

/-! ## `lexLt` on node tuples: a strict total order -/

theorem lexLt_irrefl (a : List Nat) : lexLt a a = false := by
  induction a with
  | nil => rfl
  | cons x xs ih => simp [lexLt, ih]

theorem lexLt_trans : ∀ {a b c : List Nat}, lexLt a b = true → lexLt b c = true → lexLt a c = true := by
  intro a
  induction a with
  | nil =>
    intro b c hab hbc
    cases b with
    | nil => simp [lexLt] at hab
    | cons y ys =>
      cases c with
      | nil => simp [lexLt] at hbc
      | cons z zs => rfl
  | cons x xs ih =>
    intro b c hab hbc
    cases b with
    | nil => simp [lexLt] at hab
    | cons y ys =>
      cases c with
      | nil => simp [lexLt] at hbc
      | cons z zs =>
        simp only [lexLt] at hab hbc ⊢
        by_cases hxy : x < y
        · by_cases hyz : y < z
          · have : x < z := by omega
            simp [this]
          · by_cases hzy : z < y
            · simp [hyz, hzy] at hbc
            · have : y = z := by omega
              subst this; simp [hxy]
        · by_cases hyx : y < x
          · simp [hxy, hyx] at hab
          · have hxy' : x = y := by omega
            subst hxy'
            simp only [hxy, if_false] at hab
            by_cases hyz : x < z
            · simp [hyz]
            · by_cases hzy : z < x
              · simp [hyz, hzy] at hbc
              · simp only [hyz, hzy, if_false] at hbc ⊢
                exact ih hab hbc

theorem lexLt_tri : ∀ (a b : List Nat), a = b ∨ lexLt a b = true ∨ lexLt b a = true := by
  intro a
  induction a with
  | nil => intro b; cases b with
    | nil => exact Or.inl rfl
    | cons y ys => exact Or.inr (Or.inl rfl)
  | cons x xs ih =>
    intro b
    cases b with
    | nil => exact Or.inr (Or.inr rfl)
    | cons y ys =>
      simp only [lexLt]
      by_cases hxy : x < y
      · simp [hxy]
      · by_cases hyx : y < x
        · simp [hyx]
        · have : x = y := by omega
          subst this
          simp only [hxy, if_false]
          rcases ih ys with h | h | h
          · exact Or.inl (by rw [h])
          · exact Or.inr (Or.inl h)
          · exact Or.inr (Or.inr h)

theorem lexLt_asymm {a b : List Nat} (h : lexLt a b = true) : lexLt b a = false := by
  cases h' : lexLt b a with
  | false => rfl
  | true => have := lexLt_trans h h'; rw [lexLt_irrefl] at this; exact absurd this (by simp)

/-! ## `dedgeLe` on directed hyperedges: a total order -/

theorem dedgeLe_total (a b : DEdge) : dedgeLe a b = true ∨ dedgeLe b a = true := by
  unfold dedgeLe
  rcases lexLt_tri a.1 b.1 with h | h | h
  · rcases lexLt_tri a.2 b.2 with h2 | h2 | h2
    · left; simp [h, h2, lexLt_irrefl]
    · left; simp [h, lexLt_asymm h2, lexLt_irrefl]
    · right; simp [h, lexLt_asymm h2, lexLt_irrefl]
  · left; simp [h]
  · right; simp [h]

theorem dedgeLe_antisymm {a b : DEdge} (h₁ : dedgeLe a b = true) (h₂ : dedgeLe b a = true) : a = b := by
  unfold dedgeLe at h₁ h₂
  simp only [Bool.or_eq_true, Bool.and_eq_true, beq_iff_eq, Bool.not_eq_true'] at h₁ h₂
  have h1eq : a.1 = b.1 := by
    rcases h₁ with h | h
    · rcases h₂ with h' | h'
      · have := lexLt_asymm h; rw [this] at h'; exact absurd h' (by simp)
      · rw [h'.1, lexLt_irrefl] at h; exact absurd h (by simp)
    · exact h.1
  have ha : lexLt b.2 a.2 = false := by
    rcases h₁ with h | h
    · rw [h1eq, lexLt_irrefl] at h; exact absurd h (by simp)
    · exact h.2
  have hb : lexLt a.2 b.2 = false := by
    rcases h₂ with h | h
    · rw [h1eq, lexLt_irrefl] at h; exact absurd h (by simp)
    · exact h.2
  have h2eq : a.2 = b.2 := by
    rcases lexLt_tri a.2 b.2 with h | h | h
    · exact h
    · rw [hb] at h; exact absurd h (by simp)
    · rw [ha] at h; exact absurd h (by simp)
  exact Prod.ext h1eq h2eq

theorem dedgeLe_refl (a : DEdge) : dedgeLe a a = true := by
  rcases dedgeLe_total a a with h | h <;> exact h

theorem dedgeLe_trans {a b c : DEdge} (h₁ : dedgeLe a b = true) (h₂ : dedgeLe b c = true) :
    dedgeLe a c = true := by
  unfold dedgeLe at h₁ h₂ ⊢
  simp only [Bool.or_eq_true, Bool.and_eq_true, beq_iff_eq, Bool.not_eq_true'] at h₁ h₂ ⊢
  rcases h₁ with h | ⟨he, hn⟩
  · rcases h₂ with h' | ⟨he', _⟩
    · exact Or.inl (lexLt_trans h h')
    · exact Or.inl (he' ▸ h)
  · rcases h₂ with h' | ⟨he', hn'⟩
    · exact Or.inl (he ▸ h')
    · refine Or.inr ⟨he.trans he', ?_⟩
      cases hca : lexLt c.2 a.2 with
      | false => rfl
      | true =>
        -- c.2 < a.2, and not b.2 < a.2, not c.2 < b.2
        rcases lexLt_tri a.2 b.2 with h | h | h
        · rw [← h] at hn'; rw [hn'] at hca; exact absurd hca (by simp)
        · have := lexLt_trans hca h; rw [hn'] at this; exact absurd this (by simp)
        · rw [hn] at h; exact absurd h (by simp)

/-! ## `dpatLe` on patterns: a total order -/

theorem dpatLe_total : ∀ (a b : List DEdge), dpatLe a b = true ∨ dpatLe b a = true := by
  intro a
  induction a with
  | nil => intro b; exact Or.inl (by cases b <;> rfl)
  | cons x xs ih =>
    intro b
    cases b with
    | nil => exact Or.inr rfl
    | cons y ys =>
      simp only [dpatLe]
      by_cases hxy : x = y
      · subst hxy; simp only [beq_self_eq_true, if_true]; exact ih ys
      · have h1 : (x == y) = false := by simpa using hxy
        have h2 : (y == x) = false := by simpa using fun h => hxy h.symm
        simp only [h1, h2]
        exact dedgeLe_total x y

theorem dpatLe_refl (a : List DEdge) : dpatLe a a = true := by
  rcases dpatLe_total a a with h | h <;> exact h

theorem dpatLe_antisymm : ∀ {a b : List DEdge}, dpatLe a b = true → dpatLe b a = true → a = b := by
  intro a
  induction a with
  | nil => intro b h₁ h₂; cases b with
    | nil => rfl
    | cons y ys => simp [dpatLe] at h₂
  | cons x xs ih =>
    intro b h₁ h₂
    cases b with
    | nil => simp [dpatLe] at h₁
    | cons y ys =>
      simp only [dpatLe] at h₁ h₂
      by_cases hxy : x = y
      · subst hxy
        simp only [beq_self_eq_true, if_true] at h₁ h₂
        rw [ih h₁ h₂]
      · have h1 : (x == y) = false := by simpa using hxy
        have h2 : (y == x) = false := by simpa using fun h => hxy h.symm
        simp only [h1, h2] at h₁ h₂
        exact absurd (dedgeLe_antisymm h₁ h₂) hxy

theorem dpatLe_trans : ∀ {a b c : List DEdge}, dpatLe a b = true → dpatLe b c = true → dpatLe a c = true := by
  intro a
  induction a with
  | nil => intro b c _ _; cases c <;> rfl
  | cons x xs ih =>
    intro b c h₁ h₂
    cases b with
    | nil => simp [dpatLe] at h₁
    | cons y ys =>
      cases c with
      | nil => simp [dpatLe] at h₂
      | cons z zs =>
        simp only [dpatLe] at h₁ h₂ ⊢
        by_cases hxy : x = y
        · subst hxy
          simp only [beq_self_eq_true, if_true] at h₁
          by_cases hxz : x = z
          · subst hxz
            simp only [beq_self_eq_true, if_true] at h₂ ⊢
            exact ih h₁ h₂
          · have h1 : (x == z) = false := by simpa using hxz
            simp only [h1] at h₂ ⊢
            exact h₂
        · have h1 : (x == y) = false := by simpa using hxy
          simp only [h1] at h₁
          by_cases hyz : y = z
          · subst hyz
            simp only [h1]
            exact h₁
          · have h2 : (y == z) = false := by simpa using hyz
            simp only [h2] at h₂
            have hxz := dedgeLe_trans h₁ h₂
            by_cases hxz' : x = z
            · subst hxz'
              exact absurd (dedgeLe_antisymm h₁ h₂) hxy
            · have h3 : (x == z) = false := by simpa using hxz'
              simp only [h3]
              exact hxz

/-! ## `minPat` picks a least element -/

theorem minPat_spec : ∀ (xs : List (List DEdge)) (best : List DEdge),
    minPat best xs ∈ best :: xs ∧ ∀ y ∈ best :: xs, dpatLe (minPat best xs) y = true := by
  intro xs
  induction xs with
  | nil => intro best; simp [minPat, dpatLe_refl]
  | cons x xs ih =>
    intro best
    simp only [minPat]
    by_cases hb : dpatLe best x = true
    · simp only [hb, if_true]
      obtain ⟨hm, hle⟩ := ih best
      refine ⟨?_, ?_⟩
      · rcases List.mem_cons.mp hm with h | h
        · rw [h]; simp
        · simp [h]
      · intro y hy
        rcases List.mem_cons.mp hy with h | h
        · subst h; exact hle y (by simp)
        · rcases List.mem_cons.mp h with h' | h'
          · subst h'; exact dpatLe_trans (hle best (by simp)) hb
          · exact hle y (by simp [h'])
    · have hb' : dpatLe best x = false := by simpa using hb
      simp only [hb', Bool.false_eq_true, if_false]
      obtain ⟨hm, hle⟩ := ih x
      have hxb : dpatLe x best = true := by
        rcases dpatLe_total best x with h | h
        · rw [hb'] at h; exact absurd h (by simp)
        · exact h
      refine ⟨?_, ?_⟩
      · rcases List.mem_cons.mp hm with h | h
        · rw [h]; simp
        · simp [h]
      · intro y hy
        rcases List.mem_cons.mp hy with h | h
        · subst h; exact dpatLe_trans (hle x (by simp)) hxb
        · rcases List.mem_cons.mp h with h' | h'
          · subst h'; exact hle y (by simp)
          · exact hle y (by simp [h'])

/-! ## sorting is canonical: permutations of a list sort to the same list -/

theorem insertSorted_perm (a : Nat) (l : List Nat) : (insertSorted a l).Perm (a :: l) := by
  induction l with
  | nil => exact List.Perm.refl _
  | cons b l ih =>
    unfold insertSorted
    split
    · exact List.Perm.refl _
    · exact (List.Perm.cons b ih).trans (List.Perm.swap a b l)

theorem isort_perm_self (l : List Nat) : (isort l).Perm l := by
  induction l with
  | nil => exact List.Perm.refl _
  | cons a l ih =>
    have : isort (a :: l) = insertSorted a (isort l) := rfl
    rw [this]
    exact (insertSorted_perm a (isort l)).trans (List.Perm.cons a ih)

theorem insertSorted_sorted_le {a : Nat} {l : List Nat} (h : l.Pairwise (· ≤ ·)) :
    (insertSorted a l).Pairwise (· ≤ ·) := by
  induction l with
  | nil => simp [insertSorted]
  | cons b l ih =>
    have hb := List.pairwise_cons.mp h
    unfold insertSorted
    split
    · rename_i hle
      refine List.pairwise_cons.mpr ⟨?_, h⟩
      intro x hx
      rcases List.mem_cons.mp hx with e | e
      · omega
      · have := hb.1 x e; omega
    · rename_i hle
      refine List.pairwise_cons.mpr ⟨?_, ih hb.2⟩
      intro x hx
      rcases mem_insertSorted.mp hx with e | e
      · omega
      · exact hb.1 x e

theorem isort_sorted_le (l : List Nat) : (isort l).Pairwise (· ≤ ·) := by
  induction l with
  | nil => simp [isort]
  | cons a l ih =>
    have : isort (a :: l) = insertSorted a (isort l) := rfl
    rw [this]; exact insertSorted_sorted_le ih

theorem isort_congr {l l' : List Nat} (h : l.Perm l') : isort l = isort l' := by
  apply List.Perm.eq_of_pairwise (le := (· ≤ ·)) (fun a b _ _ hab hba => by omega)
    (isort_sorted_le l) (isort_sorted_le l')
  exact (isort_perm_self l).trans (h.trans (isort_perm_self l').symm)

theorem mem_insertD {a x : DEdge} {l : List DEdge} : x ∈ insertD a l ↔ x = a ∨ x ∈ l := by
  induction l with
  | nil => simp [insertD]
  | cons b l ih =>
    unfold insertD
    split
    · simp
    · simp only [List.mem_cons, ih]
      constructor
      · rintro (h | h | h)
        · exact Or.inr (Or.inl h)
        · exact Or.inl h
        · exact Or.inr (Or.inr h)
      · rintro (h | h | h)
        · exact Or.inr (Or.inl h)
        · exact Or.inl h
        · exact Or.inr (Or.inr h)

theorem insertD_perm (a : DEdge) (l : List DEdge) : (insertD a l).Perm (a :: l) := by
  induction l with
  | nil => exact List.Perm.refl _
  | cons b l ih =>
    unfold insertD
    split
    · exact List.Perm.refl _
    · exact (List.Perm.cons b ih).trans (List.Perm.swap a b l)

theorem sortD_perm_self (l : List DEdge) : (sortD l).Perm l := by
  induction l with
  | nil => exact List.Perm.refl _
  | cons a l ih =>
    have : sortD (a :: l) = insertD a (sortD l) := rfl
    rw [this]
    exact (insertD_perm a (sortD l)).trans (List.Perm.cons a ih)

theorem insertD_sorted {a : DEdge} {l : List DEdge} (h : l.Pairwise (fun x y => dedgeLe x y = true)) :
    (insertD a l).Pairwise (fun x y => dedgeLe x y = true) := by
  induction l with
  | nil => simp [insertD]
  | cons b l ih =>
    have hb := List.pairwise_cons.mp h
    unfold insertD
    split
    · rename_i hle
      refine List.pairwise_cons.mpr ⟨?_, h⟩
      intro x hx
      rcases List.mem_cons.mp hx with e | e
      · subst e; exact hle
      · exact dedgeLe_trans hle (hb.1 x e)
    · rename_i hle
      have hba : dedgeLe b a = true := by
        rcases dedgeLe_total a b with h' | h'
        · exact absurd h' hle
        · exact h'
      refine List.pairwise_cons.mpr ⟨?_, ih hb.2⟩
      intro x hx
      rcases mem_insertD.mp hx with e | e
      · subst e; exact hba
      · exact hb.1 x e

theorem sortD_sorted (l : List DEdge) : (sortD l).Pairwise (fun x y => dedgeLe x y = true) := by
  induction l with
  | nil => simp [sortD]
  | cons a l ih =>
    have : sortD (a :: l) = insertD a (sortD l) := rfl
    rw [this]; exact insertD_sorted ih

theorem sortD_congr {l l' : List DEdge} (h : l.Perm l') : sortD l = sortD l' := by
  apply List.Perm.eq_of_pairwise (le := fun x y => dedgeLe x y = true)
    (fun a b _ _ hab hba => dedgeLe_antisymm hab hba) (sortD_sorted l) (sortD_sorted l')
  exact (sortD_perm_self l).trans (h.trans (sortD_perm_self l').symm)

theorem mem_sortD {x : DEdge} {l : List DEdge} : x ∈ sortD l ↔ x ∈ l := (sortD_perm_self l).mem_iff

end C11
