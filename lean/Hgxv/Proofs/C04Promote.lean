import Hgxv.Proofs.C04Layers
/-! C04 - promotion of an unweighted hypergraph by a weighted batch (`add_edges(..., weights=[...])`), and what a weighted
hypergraph does with a record that is inserted again. Core Lean only. -/
namespace C04
open AL

/-- a one-record weighted batch on ANY map (weighted or not): accepted, the map is weighted afterwards, the record holds
the given weight added to what it held before (an unweighted map holds `one`) -/
theorem Spec.promote_single (sp : Spec) (r : List Node) (l : Layer) (w : Int) :
    (Spec.addEdges sp [r] [l] (some [w]) none).2 = Out.ok ∧
    (Spec.addEdges sp [r] [l] (some [w]) none).1.weighted = true ∧
    get? (Spec.addEdges sp [r] [l] (some [w]) none).1.edges (canon r, l) =
      some (Spec.mergeEntry true (get? sp.edges (canon r, l)) w []) := by
  have hnd : [(r, l)].Nodup := by simp
  unfold Spec.addEdges
  simp only [List.length_cons, List.length_nil, Nat.lt_irrefl, if_false, mdsLenOK, Bool.not_true, Bool.false_eq_true,
    ne_eq, List.zip_cons_cons, List.zip_nil_right, List.map_cons, List.map_nil,
    List.replicate, not_true_eq_false]
  rw [if_neg (fun hc => hc hnd)]
  unfold Spec.addEdgesLoop Spec.addEdgesLoop
  refine ⟨rfl, ?_, ?_⟩
  · rw [Spec.addEdge_weighted]
  · rw [Spec.addEdge_self _ _ _ _ _ rfl]; rfl

/-- in a weighted map an insertion with a weight is always accepted -/
theorem Spec.addEdge_ok_weighted (sp : Spec) (raw : List Node) (l : Layer) (w : Option Int) (md : Option Meta)
    (hw : sp.weighted = true) : (Spec.addEdge sp raw l w md).2 = Out.ok := by
  unfold Spec.addEdge
  simp [hw]

theorem getWeight_unweighted (s : Store) (h : Inv s) (hu : s.weighted = false) (raw : List Node) (l : Layer) (w0 : Int)
    (hg : getWeight s raw l = some w0) : w0 = one := by
  unfold getWeight at hg
  split at hg
  · exact absurd hg (by simp)
  · exact h.id.unw hu _ _ hg

end C04
