import Hgxv.Proofs.C20Cent
import Hgxv.Proofs.C20
import Mathlib.Tactic.FieldSimp
import Mathlib.Tactic.Ring
import Mathlib.Tactic.Linarith
import Mathlib.Algebra.Order.Field.Rat
import Mathlib.Algebra.Order.Field.Basic
import Mathlib.Data.List.Nodup
/-! The rational-number half of the facts about `closeness` / `betweenness` (`Model/C20Cent.lean`): the pair dependencies of the
inner vertices of a pair add up to `distance - 1`, the sum of all betweenness values, ranges of the values. (Mathlib: `field_simp`,
order lemmas of fields.) -/
namespace C20
variable {V : Type} [DecidableEq V]

theorem distSigma_of_dist (g : Graph V) (s v : V) (d : Nat) (h : dist g s v = some d) :
    distSigma (levels g s) v = some (d, walkCount g s d v) := by
  obtain ⟨h1, h2, h3⟩ := (dist_spec g s v d).mp h
  exact (distSigma_spec g s v d _).mpr ⟨h1, h2, h3, rfl⟩

theorem dist_of_distSigma (g : Graph V) (s v : V) (d c : Nat) (h : distSigma (levels g s) v = some (d, c)) :
    dist g s v = some d ∧ c = walkCount g s d v := by
  obtain ⟨h1, h2, h3, h4⟩ := (distSigma_spec g s v d c).mp h
  exact ⟨(dist_spec g s v d).mpr ⟨h1, h2, h3⟩, h4⟩

/-- the pair dependency is `thru / σ_st` -/
theorem pairDep_eq (g : Graph V) (s t v : V) (d : Nat) (hd : dist g s t = some d) :
    pairDep (levels g s) (levels g v) v t = (thru g s t d v : Rat) / (walkCount g s d t : Rat) := by
  have h1 := distSigma_of_dist g s t d hd
  have hd' := (dist_spec g s t d).mp hd
  cases h2 : distSigma (levels g s) v with
  | none =>
    have : dist g s v = none := by unfold dist; rw [h2]; rfl
    simp only [pairDep, h1, h2, thru, this]
    simp
  | some p =>
    obtain ⟨a, c1⟩ := p
    obtain ⟨ha, hc1⟩ := dist_of_distSigma g s v a c1 h2
    cases h3 : distSigma (levels g v) t with
    | none =>
      have hz : walkCount g v (d - a) t = 0 :=
        walkCount_eq_zero g v t _ ((distSigma_none g v t).mp h3 (d - a) (by omega))
      simp only [pairDep, h1, h2, h3, thru, ha, hz]
      simp
    | some q =>
      obtain ⟨b, c2⟩ := q
      obtain ⟨hb, hc2⟩ := dist_of_distSigma g v t b c2 h3
      simp only [pairDep, h1, h2, h3, thru, ha]
      by_cases hab : a + b = d
      · have h4 : a ≤ d := by omega
        have h5 : d - a = b := by omega
        rw [if_pos hab, if_pos h4, h5, hc1, hc2]
      · rw [if_neg hab]
        have htri := dist_triangle g s v t a b d ha hb hd
        by_cases h4 : a ≤ d
        · have hz : walkCount g v (d - a) t = 0 :=
            walkCount_eq_zero g v t _ (((dist_spec g v t b).mp hb).2.2 (d - a) (by omega))
          rw [if_pos h4, hz]; simp
        · rw [if_neg h4]; simp

theorem qsum_div {β : Type} (l : List β) (f : β → Nat) (c : Rat) :
    (l.map fun v => (f v : Rat) / c).sum = (((l.map f).sum : Nat) : Rat) / c := by
  induction l with
  | nil => simp
  | cons a t ih => simp only [List.map_cons, List.sum_cons, ih, Nat.cast_add, add_div]

/-- **Sum identity.** For two different vertices `s`, `t` at distance `d` the pair dependencies `σ_st(v)/σ_st` of all OTHER
vertices add up to `d - 1` (every shortest path has `d - 1` inner vertices). -/
theorem pairDep_sum (g : Graph V) (hn : g.verts.Nodup) (s t : V) (hst : s ≠ t) (d : Nat) (hd : dist g s t = some d) :
    (((g.verts.filter (· ≠ s)).filter (· ≠ t)).map fun v => pairDep (levels g s) (levels g v) v t).sum
      = ((d - 1 : Nat) : Rat) := by
  have hpos : 0 < walkCount g s d t := (reachIn_iff_walkCount g s d t).mp ((dist_spec g s t d).mp hd).2.1
  have hne : ((walkCount g s d t : Nat) : Rat) ≠ 0 := by
    exact_mod_cast Nat.pos_iff_ne_zero.mp hpos
  have : (((g.verts.filter (· ≠ s)).filter (· ≠ t)).map fun v => pairDep (levels g s) (levels g v) v t)
      = (((g.verts.filter (· ≠ s)).filter (· ≠ t)).map fun v => (thru g s t d v : Rat) / (walkCount g s d t : Rat)) :=
    List.map_congr_left fun v _ => pairDep_eq g s t v d hd
  rw [this, qsum_div, thru_others g hn s t hst d hd, Nat.cast_mul]
  field_simp

/-- ... and when `t` is not reachable from `s` every pair dependency is 0 -/
theorem pairDep_unreachable (g : Graph V) (s t v : V) (hd : dist g s t = none) :
    pairDep (levels g s) (levels g v) v t = 0 := by
  have : distSigma (levels g s) t = none := by
    unfold dist at hd
    rwa [Option.map_eq_none_iff] at hd
  simp only [pairDep, this]

/-! ### the sum of all betweenness values -/

theorem qsum_filter {β : Type} (l : List β) (p : β → Prop) [DecidablePred p] (f : β → Rat) :
    ((l.filter fun x => decide (p x)).map f).sum = (l.map fun x => if p x then f x else 0).sum := by
  induction l with
  | nil => rfl
  | cons a t ih =>
    rw [List.filter_cons]
    by_cases h : p a
    · simp only [h, decide_true, if_true, List.map_cons, List.sum_cons, ih]
    · simp only [h, decide_false, Bool.false_eq_true, if_false, List.map_cons, List.sum_cons, ih, zero_add]

theorem qsum_congr {β : Type} (l : List β) (f g : β → Rat) (h : ∀ x, x ∈ l → f x = g x) :
    (l.map f).sum = (l.map g).sum := by
  rw [List.map_congr_left h]

theorem qsum_add {β : Type} (l : List β) (f g : β → Rat) :
    (l.map fun y => f y + g y).sum = (l.map f).sum + (l.map g).sum := by
  induction l with
  | nil => simp
  | cons a t ih => simp only [List.map_cons, List.sum_cons, ih]; ring

theorem qsum_comm {β γ : Type} (l1 : List β) (l2 : List γ) (F : β → γ → Rat) :
    (l1.map fun x => (l2.map fun y => F x y).sum).sum = (l2.map fun y => (l1.map fun x => F x y).sum).sum := by
  induction l1 with
  | nil => simp only [List.map_nil, List.sum_nil]; exact (ratsum_zero l2 _ fun _ _ => rfl).symm
  | cons a t ih =>
    simp only [List.map_cons, List.sum_cons, ih]
    rw [← qsum_add]

theorem qsum_div_const {β : Type} (l : List β) (f : β → Rat) (c : Rat) :
    (l.map fun v => f v / c).sum = (l.map f).sum / c := by
  induction l with
  | nil => simp
  | cons a t ih => simp only [List.map_cons, List.sum_cons, ih, add_div]

/-- the un-normalised betweenness of `v` -/
def rawBetweenness (g : Graph V) (v : V) : Rat :=
  ((g.verts.filter (· ≠ v)).map fun s =>
    (((g.verts.filter (· ≠ v)).filter (· ≠ s)).map fun t => pairDep (levels g s) (levels g v) v t).sum).sum

theorem betweenness_eq_raw (g : Graph V) (v : V) :
    betweenness g v = if 3 ≤ g.verts.length then rawBetweenness g v / (((g.verts.length - 1) * (g.verts.length - 2) : Nat) : Rat)
      else rawBetweenness g v := rfl

/-- contribution of the ordered pair `(s, t)` to the sum of all betweenness values: `d(s,t) - 1`, 0 when unreachable -/
def pairInner (g : Graph V) (s t : V) : Rat :=
  match dist g s t with
  | some d => ((d - 1 : Nat) : Rat)
  | none => 0

/-- the triple-indexed summand with its three side conditions -/
def depQ (g : Graph V) (s t v : V) : Rat :=
  if s ≠ v ∧ t ≠ v ∧ t ≠ s then pairDep (levels g s) (levels g v) v t else 0

theorem raw_eq_Q (g : Graph V) (v : V) :
    rawBetweenness g v = (g.verts.map fun s => (g.verts.map fun t => depQ g s t v).sum).sum := by
  unfold rawBetweenness
  rw [qsum_filter g.verts (· ≠ v)]
  apply qsum_congr
  intro s _
  by_cases hs : s ≠ v
  · rw [if_pos hs, qsum_filter (g.verts.filter (· ≠ v)) (· ≠ s), qsum_filter g.verts (· ≠ v)]
    apply qsum_congr
    intro t _
    unfold depQ
    by_cases h1 : t ≠ v <;> by_cases h2 : t ≠ s <;> simp [hs, h1, h2]
  · rw [if_neg hs]
    symm
    apply ratsum_zero
    intro t _
    unfold depQ
    rw [if_neg fun h => hs h.1]

theorem inner_eq_Q (g : Graph V) (hn : g.verts.Nodup) (s : V) :
    ((g.verts.filter (· ≠ s)).map fun t => pairInner g s t).sum
      = (g.verts.map fun t => (g.verts.map fun v => depQ g s t v).sum).sum := by
  rw [qsum_filter g.verts (· ≠ s)]
  apply qsum_congr
  intro t _
  by_cases ht : t ≠ s
  · rw [if_pos ht]
    have hsum : (((g.verts.filter (· ≠ s)).filter (· ≠ t)).map fun v => pairDep (levels g s) (levels g v) v t).sum
        = pairInner g s t := by
      unfold pairInner
      cases hd : dist g s t with
      | none => exact ratsum_zero _ _ fun v _ => pairDep_unreachable g s t v hd
      | some d => exact pairDep_sum g hn s t (fun h => ht h.symm) d hd
    rw [← hsum, qsum_filter (g.verts.filter (· ≠ s)) (· ≠ t), qsum_filter g.verts (· ≠ s)]
    apply qsum_congr
    intro v _
    unfold depQ
    by_cases h1 : v ≠ s
    · by_cases h2 : v ≠ t
      · rw [if_pos h1, if_pos h2, if_pos ⟨h1.symm, h2.symm, ht⟩]
      · rw [if_pos h1, if_neg h2, if_neg fun h => h2 fun e => h.2.1 e.symm]
    · rw [if_neg h1, if_neg fun h => h1 fun e => h.1 e.symm]
  · rw [if_neg ht]
    symm
    apply ratsum_zero
    intro v _
    unfold depQ
    rw [if_neg fun h => ht h.2.2]

/-- **Sum identity for betweenness.** The un-normalised betweenness values of all vertices add up to the sum over the ordered
pairs `s ≠ t` of connected vertices of `d(s,t) - 1`. -/
theorem rawBetweenness_sum (g : Graph V) (hn : g.verts.Nodup) :
    (g.verts.map (rawBetweenness g)).sum
      = (g.verts.map fun s => ((g.verts.filter (· ≠ s)).map fun t => pairInner g s t).sum).sum := by
  rw [qsum_congr _ _ _ fun v _ => raw_eq_Q g v, qsum_comm]
  apply qsum_congr
  intro s _
  rw [qsum_comm, inner_eq_Q g hn s]

theorem betweenness_sum (g : Graph V) (hn : g.verts.Nodup) :
    (g.verts.map (betweenness g)).sum =
      if 3 ≤ g.verts.length then
        (g.verts.map fun s => ((g.verts.filter (· ≠ s)).map fun t => pairInner g s t).sum).sum
          / (((g.verts.length - 1) * (g.verts.length - 2) : Nat) : Rat)
      else (g.verts.map fun s => ((g.verts.filter (· ≠ s)).map fun t => pairInner g s t).sum).sum := by
  rw [← rawBetweenness_sum g hn]
  by_cases h : 3 ≤ g.verts.length
  · rw [if_pos h, ← qsum_div_const]
    apply qsum_congr
    intro v _
    rw [betweenness_eq_raw, if_pos h]
  · rw [if_neg h]
    apply qsum_congr
    intro v _
    rw [betweenness_eq_raw, if_neg h]

/-! ### ranges of the values; the vertex lists of both projections are duplicate-free -/

theorem qsum_nonneg {β : Type} (l : List β) (f : β → Rat) (h : ∀ x, x ∈ l → 0 ≤ f x) : 0 ≤ (l.map f).sum := by
  induction l with
  | nil => simp
  | cons a t ih =>
    simp only [List.map_cons, List.sum_cons]
    exact add_nonneg (h a List.mem_cons_self) (ih fun x hx => h x (List.mem_cons_of_mem _ hx))

theorem pairDep_nonneg (ls lvv : List (List (V × Nat))) (v t : V) : 0 ≤ pairDep ls lvv v t := by
  unfold pairDep
  split
  · split
    · exact div_nonneg (Nat.cast_nonneg _) (Nat.cast_nonneg _)
    · exact le_refl _
  · exact le_refl _

theorem betweenness_nonneg (g : Graph V) (v : V) : 0 ≤ betweenness g v := by
  have hr : 0 ≤ rawBetweenness g v :=
    qsum_nonneg _ _ fun s _ => qsum_nonneg _ _ fun t _ => pairDep_nonneg _ _ v t
  rw [betweenness_eq_raw]
  split
  · exact div_nonneg hr (Nat.cast_nonneg _)
  · exact hr

theorem closeness_nonneg (g : Graph V) (v : V) : 0 ≤ closeness g v := by
  rw [closeness_formula]
  split
  · exact mul_nonneg (div_nonneg (Nat.cast_nonneg _) (Nat.cast_nonneg _)) (div_nonneg (Nat.cast_nonneg _) (Nat.cast_nonneg _))
  · exact le_refl _

omit [DecidableEq V] in
theorem length_le_sum_of_pos (l : List V) (f : V → Option Nat) (h : ∀ u, u ∈ l → f u ≠ some 0) :
    (l.filterMap f).length ≤ (l.filterMap f).sum := by
  induction l with
  | nil => simp
  | cons a t ih =>
    have iht := ih fun u hu => h u (List.mem_cons_of_mem _ hu)
    rw [List.filterMap_cons]
    cases hfa : f a with
    | none => simpa using iht
    | some d =>
      have : d ≠ 0 := fun hd => h a List.mem_cons_self (by rw [hfa, hd])
      simp only [List.length_cons, List.sum_cons]
      omega

theorem length_le_sum_succ (l : List V) (hl : l.Nodup) (f : V → Option Nat) (v : V) (h : ∀ u, f u = some 0 → u = v) :
    (l.filterMap f).length ≤ (l.filterMap f).sum + 1 := by
  induction l with
  | nil => simp
  | cons a t ih =>
    rw [List.nodup_cons] at hl
    rw [List.filterMap_cons]
    cases hfa : f a with
    | none => simpa using ih hl.2
    | some d =>
      simp only [List.length_cons, List.sum_cons]
      cases d with
      | zero =>
        have hav : a = v := h a hfa
        have := length_le_sum_of_pos t f fun u hu h0 => hl.1 (by rw [hav, ← h u h0]; exact hu)
        omega
      | succ d => have := ih hl.2; omega

/-- closeness lies in `[0, 1]` (vertex list duplicate-free, as in every networkx graph) -/
theorem closeness_le_one (g : Graph V) (hn : g.verts.Nodup) (v : V) : closeness g v ≤ 1 := by
  rw [closeness_formula]
  split
  · rename_i h
    have h1 : (g.verts.filterMap (dist g v)).length ≤ (g.verts.filterMap (dist g v)).sum + 1 :=
      length_le_sum_succ g.verts hn (dist g v) v fun u hu => ((dist_spec g v u 0).mp hu).2.1.1
    have h2 : (g.verts.filterMap (dist g v)).length ≤ g.verts.length := List.length_filterMap_le _ _
    have ha : ((((g.verts.filterMap (dist g v)).length - 1 : Nat) : Rat) / (((g.verts.filterMap (dist g v)).sum : Nat) : Rat)) ≤ 1 := by
      rw [div_le_one (by exact_mod_cast h.1)]
      exact_mod_cast (by omega : (g.verts.filterMap (dist g v)).length - 1 ≤ (g.verts.filterMap (dist g v)).sum)
    have hb : ((((g.verts.filterMap (dist g v)).length - 1 : Nat) : Rat) / ((g.verts.length - 1 : Nat) : Rat)) ≤ 1 := by
      rw [div_le_one (by exact_mod_cast (by omega : 0 < g.verts.length - 1))]
      exact_mod_cast (by omega : (g.verts.filterMap (dist g v)).length - 1 ≤ g.verts.length - 1)
    exact mul_le_one₀ ha (div_nonneg (Nat.cast_nonneg _) (Nat.cast_nonneg _)) hb
  · exact zero_le_one

theorem lineGraph_verts_nodup {α : Type} [DecidableEq α] (srt : List α → List α) (H : HG α) (s : Nat) :
    (lineGraph srt H s).verts.Nodup := List.nodup_range

theorem bipGraph_verts_nodup {α : Type} [DecidableEq α] (srt : List α → List α) (H : HG α) :
    (bipGraph srt H).verts.Nodup := by
  unfold bipGraph
  simp only
  rw [List.nodup_append]
  refine ⟨List.Nodup.map (fun _ _ h => nameN_inj h) List.nodup_range,
    List.Nodup.map (fun _ _ h => nameE_inj h) List.nodup_range, ?_⟩
  intro a ha b hb hab
  obtain ⟨i, _, rfl⟩ := List.mem_map.mp ha
  obtain ⟨j, _, rfl⟩ := List.mem_map.mp hb
  exact nameN_ne_nameE i j hab

end C20
