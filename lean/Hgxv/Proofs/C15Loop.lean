import Hgxv.Proofs.C15Ascent
/-! # C15 — the training loop of `fit` with supplied memberships -/
open Finset
namespace C15

theorem emLoop_u_fixed (d : Data) (fw : Bool) (ru rw : Mat) (n : Nat) (p : Params) :
    (emLoop d true fw ru rw n p).u = p.u := by
  induction n with
  | zero => rfl
  | succ n ih => simp [emLoop, emStep, ih]

theorem emLoop_w_fixed (d : Data) (fu : Bool) (ru rw : Mat) (n : Nat) (p : Params) :
    (emLoop d fu true ru rw n p).w = p.w := by
  induction n with
  | zero => rfl
  | succ n ih => simp [emLoop, emStep, ih]

theorem matOf_toRows (n m : ℕ) (f : Mat) (i a : ℕ) :
    matOf (toRows n m f) i a = if i < n ∧ a < m then f i a else 0 := by
  unfold matOf toRows
  by_cases hi : i < n
  · by_cases ha : a < m
    · simp [List.getD_eq_getElem?_getD, hi, ha]
    · simp [List.getD_eq_getElem?_getD, hi, ha]
  · simp [List.getD_eq_getElem?_getD, hi]

theorem matOf_toRows_in (n m : ℕ) (f : Mat) (i a : ℕ) (hi : i < n) (ha : a < m) :
    matOf (toRows n m f) i a = f i a := by
  rw [matOf_toRows, if_pos ⟨hi, ha⟩]

theorem matOf_toRows_nonneg (n m : ℕ) (f : Mat) (hf : ∀ i a, 0 ≤ f i a) (i a : ℕ) :
    0 ≤ matOf (toRows n m f) i a := by
  rw [matOf_toRows]; split
  · exact hf i a
  · exact le_refl 0

theorem dsum_congr (K : ℕ) (g w w' : Mat) (h : ∀ a < K, ∀ b < K, w a b = w' a b) :
    ∑ a ∈ range K, ∑ b ∈ range K, g a b * w a b = ∑ a ∈ range K, ∑ b ∈ range K, g a b * w' a b := by
  apply Finset.sum_congr rfl; intro a ha
  apply Finset.sum_congr rfl; intro b hb
  rw [h a (mem_range.mp ha) b (mem_range.mp hb)]

theorem poisson_congr (N K : ℕ) (u w w' : Mat) (h : ∀ a < K, ∀ b < K, w a b = w' a b) (e : List ℕ) :
    poisson N K u w e = poisson N K u w' e := by
  rw [poisson_lin, poisson_lin, dsum_congr K _ w w' h]

theorem bfSum_congr (N K : ℕ) (u w w' : Mat) (h : ∀ a < K, ∀ b < K, w a b = w' a b) :
    bfSum N K u w = bfSum N K u w' := by
  rw [bfSum_lin, bfSum_lin, dsum_congr K _ w w' h]

theorem penLik_congr (d : Data) (u r w w' : Mat) (h : ∀ a < d.K, ∀ b < d.K, w a b = w' a b) :
    penLik d u r w = penLik d u r w' := by
  unfold penLik
  rw [bfSum_congr d.N d.K u w w' h, dsum_congr d.K r w w' h]
  congr 1
  apply Finset.sum_congr rfl; intro e _
  rw [poisson_congr d.N d.K u w w' h]

theorem wUpdate_congr (d : Data) (u w w' r : Mat) (h : ∀ a < d.K, ∀ b < d.K, w a b = w' a b)
    (a b : ℕ) (ha : a < d.K) (hb : b < d.K) : wUpdate d u w r a b = wUpdate d u w' r a b := by
  rw [wUpdate_def, wUpdate_def, h a ha b hb]
  have hs : ∀ e ∈ range d.E, d.A e * chat u (nodesOf d.N (d.edge e)) a b / poisson d.N d.K u w (d.edge e)
      = d.A e * chat u (nodesOf d.N (d.edge e)) a b / poisson d.N d.K u w' (d.edge e) := by
    intro e _; rw [poisson_congr d.N d.K u w w' h]
  rw [Finset.sum_congr rfl hs]

/-- the affinity array after `n` passes of the loop when the memberships `us` are supplied -/
def wAfter (d : Data) (us w0 : List (List Rat)) (ru rw : Mat) (n : ℕ) : List (List Rat) :=
  (emLoop d true false ru rw n { u := us, w := w0 }).w

theorem wAfter_succ (d : Data) (us w0 : List (List Rat)) (ru rw : Mat) (n : ℕ) :
    wAfter d us w0 ru rw (n + 1)
      = toRows d.K d.K (wUpdate d (matOf us) (matOf (wAfter d us w0 ru rw n)) rw) := by
  unfold wAfter
  simp [emLoop, emStep, emLoop_u_fixed]

/-- the hypotheses of `ascent_step` hold along the whole loop -/
theorem loop_inv (d : Data) (us w0 : List (List Rat)) (ru rw : Mat)
    (hu : ∀ i a, 0 ≤ matOf us i a) (hw0 : ∀ a b, 0 ≤ matOf w0 a b) (hA : ∀ e < d.E, 0 < d.A e)
    (hr : ∀ a b, 0 ≤ rw a b)
    (hlam : ∀ e < d.E, 0 < poisson d.N d.K (matOf us) (matOf w0) (d.edge e)) (n : ℕ) :
    (∀ a b, 0 ≤ matOf (wAfter d us w0 ru rw n) a b) ∧
    (∀ e < d.E, 0 < poisson d.N d.K (matOf us) (matOf (wAfter d us w0 ru rw n)) (d.edge e)) := by
  induction n with
  | zero => exact ⟨hw0, hlam⟩
  | succ n ih =>
    obtain ⟨h1, h2⟩ := ih
    rw [wAfter_succ]
    constructor
    · exact matOf_toRows_nonneg _ _ _ (wUpdate_nonneg d _ _ rw hu h1 (fun e he => (hA e he).le))
    · intro e he
      rw [poisson_congr d.N d.K (matOf us) _ (wUpdate d (matOf us) (matOf (wAfter d us w0 ru rw n)) rw)
        (fun a ha b hb => matOf_toRows_in _ _ _ a b ha hb)]
      exact poisson_pos_after d _ _ rw hu h1 hA hr h2 e he

theorem loop_ascent (d : Data) (us w0 : List (List Rat)) (ru rw : Mat)
    (hu : ∀ i a, 0 ≤ matOf us i a) (hw0 : ∀ a b, 0 ≤ matOf w0 a b) (hA : ∀ e < d.E, 0 < d.A e)
    (hr : ∀ a b, 0 ≤ rw a b)
    (hlam : ∀ e < d.E, 0 < poisson d.N d.K (matOf us) (matOf w0) (d.edge e)) (n : ℕ) :
    penLik d (matOf us) rw (matOf (wAfter d us w0 ru rw n))
      ≤ penLik d (matOf us) rw (matOf (wAfter d us w0 ru rw (n + 1))) := by
  obtain ⟨h1, h2⟩ := loop_inv d us w0 ru rw hu hw0 hA hr hlam n
  rw [wAfter_succ, penLik_congr d (matOf us) rw _
    (wUpdate d (matOf us) (matOf (wAfter d us w0 ru rw n)) rw)
    (fun a ha b hb => matOf_toRows_in _ _ _ a b ha hb)]
  exact ascent_step d _ _ rw hu h1 hA hr h2

end C15
