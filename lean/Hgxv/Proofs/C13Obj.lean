import Hgxv.Proofs.C13Layer
import Hgxv.Model.C13Obj
/-! # C13, second extension round — lemmas for `Model/C13Obj.lean` (core Lean only) -/
namespace C13

theorem inLayer_cast (s : Nat) (e : Edge) : inLayer (s : Int) e = (e.length == s) := by
  unfold inLayer
  by_cases h : e.length = s
  · subst h; simp
  · have h' : (e.length : Int) ≠ (s : Int) := by omega
    rw [beq_eq_false_iff_ne.mpr h', beq_eq_false_iff_ne.mpr h]

theorem inLayer_neg (s : Int) (hs : s < 0) (e : Edge) : inLayer s e = false := by
  unfold inLayer
  have h' : (e.length : Int) ≠ s := by omega
  simp [h']

theorem mem_le_maxSize (es : List Edge) (e : Edge) (h : e ∈ es) : e.length ≤ maxSize es := by
  obtain ⟨i, hi⟩ := List.getElem?_of_mem h
  exact le_maxSize es i e hi

/-- every integer size selects the layer of SOME natural size (a negative one: of a size no hyperedge has) -/
theorem layer_nat (s : Int) (es : List Edge) :
    ∃ k : Nat, (0 ≤ s → s = k) ∧ ∀ e ∈ es, inLayer s e = (e.length == k) := by
  by_cases hs : 0 ≤ s
  · obtain ⟨k, rfl⟩ : ∃ k : Nat, s = k := ⟨s.toNat, by omega⟩
    exact ⟨k, fun _ => rfl, fun e _ => inLayer_cast k e⟩
  · refine ⟨maxSize es + 1, fun h => absurd h hs, fun e he => ?_⟩
    rw [inLayer_neg s (by omega)]
    have := mem_le_maxSize es e he
    have h' : e.length ≠ maxSize es + 1 := by omega
    simp [h']

theorem chain_nil (detailed : Bool) (n : Nat) (ds : List Draw) :
    chain detailed n [] ds = if n = 0 then .ok ([], ds) else .error .raise := by
  cases n with
  | zero => rfl
  | succ n => rfl

theorem resolveSizeI_cast (order size : Option Nat) :
    resolveSizeI (order.map Int.ofNat) (size.map Int.ofNat)
      = (resolveSize order size).map (Option.map Int.ofNat) := by
  cases order <;> cases size <;> rfl

/-- known label, the requested integer size selects the same hyperedges as the natural size `k`: the integer entry
point is the model `configurationModel` (plus the unconsumed draws) -/
theorem cmCallI_known_of_filters (l : Label) (d : Bool) (order size : Option Int) (n : Int) (es : List Edge)
    (ds : List Draw) (s : Int) (k : Nat) (hres : resolveSizeI order size = .ok (some s))
    (hk : ∀ e ∈ es, inLayer s e = (e.length == k)) :
    (cmCallI (.known l) d order size n es ds).map (·.1)
      = (configurationModel l d (some k) n.toNat es ds).map some := by
  have h1 : es.filter (inLayer s) = es.filter (fun e => e.length == k) :=
    List.filter_congr hk
  have h2 : es.filter (fun e => !inLayer s e) = es.filter (fun e => e.length != k) :=
    List.filter_congr (fun e he => by rw [hk e he]; rfl)
  simp only [cmCallI, hres, selectedI, othersI, h1, h2, mcmcX, configurationModel]
  cases l <;> simp only [cmMCMC, stubEdgeMH] <;>
    cases chain d n.toNat (es.filter (fun e => e.length == k)) ds <;> rfl

theorem cmCallI_known_plain (l : Label) (d : Bool) (order size : Option Int) (n : Int) (es : List Edge)
    (ds : List Draw) (hres : resolveSizeI order size = .ok none) :
    (cmCallI (.known l) d order size n es ds).map (·.1)
      = (configurationModel l d none n.toNat es ds).map some := by
  simp only [cmCallI, hres, selectedI, mcmcX, configurationModel]
  cases l <;> simp only [cmMCMC, stubEdgeMH] <;> cases chain d n.toNat es ds <;> rfl

/-- every answer of the integer entry point (known label) is an answer of `configurationModel` for some natural size -/
theorem cmCallI_known (l : Label) (d : Bool) (order size : Option Int) (n : Int) (es : List Edge)
    (ds : List Draw) :
    (∃ o s, order = some o ∧ size = some s ∧ cmCallI (.known l) d order size n es ds = .error .raise) ∨
    ∃ szN : Option Nat,
      (∀ sz, resolveSizeI order size = .ok sz → (sz = none ↔ szN = none) ∧ ∀ s : Int, sz = some s → 0 ≤ s → szN = some s.toNat) ∧
      (cmCallI (.known l) d order size n es ds).map (·.1)
        = (configurationModel l d szN n.toNat es ds).map some := by
  cases hres : resolveSizeI order size with
  | error e =>
    left
    cases order <;> cases size <;> simp [resolveSizeI] at hres
    next o s => exact ⟨o, s, rfl, rfl, by simp [cmCallI, resolveSizeI]⟩
  | ok sz =>
    right
    cases sz with
    | none =>
      refine ⟨none, fun sz h => ?_, cmCallI_known_plain l d order size n es ds hres⟩
      cases h; exact ⟨by simp, fun s h => by cases h⟩
    | some s =>
      obtain ⟨k, hk0, hk⟩ := layer_nat s es
      refine ⟨some k, fun sz h => ?_, cmCallI_known_of_filters l d order size n es ds s k hres hk⟩
      cases h
      refine ⟨by simp, fun s' h hs => ?_⟩
      cases h
      have := hk0 hs
      congr 1; omega

/-- a negative requested size: the layer is empty -/
theorem cmCallI_negative (l : Label) (d : Bool) (order size : Option Int) (n : Int) (es : List Edge)
    (ds : List Draw) (s : Int) (hres : resolveSizeI order size = .ok (some s)) (hs : s < 0)
    (hdist : es.Nodup) :
    cmCallI (.known l) d order size n es ds = if n ≤ 0 then .ok (some es, ds) else .error .raise := by
  have h1 : es.filter (inLayer s) = [] :=
    List.filter_eq_nil_iff.mpr (fun e _ => by simp [inLayer_neg s hs e])
  have h2 : es.filter (fun e => !inLayer s e) = es :=
    List.filter_eq_self.mpr (fun e _ => by simp [inLayer_neg s hs e])
  have h3 : es.foldl addEdge [] = es := by
    rw [foldl_addEdge es [] hdist (fun _ _ h => by cases h)]; rfl
  simp only [cmCallI, hres, selectedI, othersI, h1, h2, mcmcX, chain_nil]
  by_cases hn : n ≤ 0
  · have : n.toNat = 0 := by omega
    simp [hn, this, readdI, dedup, h3]
  · have : n.toNat ≠ 0 := by omega
    simp [hn, this]

theorem others_isEmpty (s : Int) (es : List Edge) :
    (es.filter (fun e => !inLayer s e)).isEmpty = es.all (inLayer s) := by
  induction es with
  | nil => rfl
  | cons e t ih =>
    by_cases h : inLayer s e
    · simp [h, ih]
    · simp [h]

/-- unknown label: what the call answers, for every input, every integer argument and every draw list -/
theorem cmCallI_other (d : Bool) (order size : Option Int) (n : Int) (es : List Edge) (ds : List Draw) :
    cmCallI .other d order size n es ds =
      match resolveSizeI order size with
      | .error e => .error e
      | .ok none => .ok (none, ds)
      | .ok (some s) => if es.all (inLayer s) then .ok (none, ds) else .error .raise := by
  cases hres : resolveSizeI order size with
  | error e => simp [cmCallI, hres]
  | ok sz =>
    cases sz with
    | none => simp [cmCallI, hres, mcmcX]
    | some s =>
      simp only [cmCallI, hres, mcmcX, readdI, othersI, others_isEmpty]
      cases es.all (inLayer s) <;> rfl

/-! ## the object -/

theorem bare_listing (out : List Edge) : (bare out).listing = out := by
  simp [bare, Obj.listing, List.map_map, Function.comp_def]

theorem bare_nodes (out : List Edge) : (bare out).nodeMeta.map (·.1) = nodesOf out := by
  simp [bare, List.map_map, Function.comp_def]

theorem bare_carries_nothing (out : List Edge) :
    (bare out).weighted = false ∧ (bare out).hmeta = 0 ∧
    (∀ x ∈ (bare out).items, x.2.1 = 1 ∧ x.2.2 = 0) ∧ (∀ x ∈ (bare out).nodeMeta, x.2 = 0) := by
  refine ⟨rfl, rfl, fun x hx => ?_, fun x hx => ?_⟩
  · simp only [bare, List.mem_map] at hx
    obtain ⟨e, _, rfl⟩ := hx
    exact ⟨rfl, rfl⟩
  · simp only [bare, List.mem_map] at hx
    obtain ⟨e, _, rfl⟩ := hx
    rfl

theorem cmObj_ok (label : LabelX) (d : Bool) (order size : Option Int) (n : Int) (h : Obj) (ds : List Draw)
    (r : Option Obj) (ds' : List Draw) (hr : cmObj label d order size n h ds = .ok (r, ds')) :
    ∃ r0, cmCallI label d order size n h.listing ds = .ok (r0, ds') ∧ r = r0.map bare := by
  simp only [cmObj] at hr
  split at hr
  · cases hr
  · next r0 ds0 h0 =>
    simp only [Except.ok.injEq, Prod.mk.injEq] at hr
    exact ⟨r0, by rw [h0, hr.2], hr.1.symm⟩

theorem cmObj_listing_only (label : LabelX) (d : Bool) (order size : Option Int) (n : Int) (h h' : Obj)
    (ds : List Draw) (hl : h.listing = h'.listing) :
    cmObj label d order size n h ds = cmObj label d order size n h' ds := by
  simp only [cmObj, hl]

end C13
