import Hgxv.Proofs.C05WF
/-! `add_nodes`, `remove_node`, `clear` on contents: the laws of the two key types, the fold of removals as a filter,
`WF` is preserved, what `remove_node` leaves (core Lean only). -/
namespace C05AL
open AL
variable {α β : Type} [DecidableEq α]

theorem erase_eq_filter (l : List (α × β)) (k : α) (h : (keys l).Nodup) :
    erase l k = l.filter (fun p => decide (p.1 ≠ k)) := by
  induction l with
  | nil => rfl
  | cons hd t ih =>
    obtain ⟨k', v'⟩ := hd
    simp only [AL.keys, List.map_cons, List.nodup_cons] at h
    by_cases e : k' = k
    · subst e
      have : t.filter (fun p => decide (p.1 ≠ k')) = t := by
        apply List.filter_eq_self.2
        intro p hp
        simp only [ne_eq, decide_not, Bool.not_eq_eq_eq_not, Bool.not_true, decide_eq_false_iff_not]
        intro e2
        exact h.1 (List.mem_map.2 ⟨p, hp, e2⟩)
      simp only [AL.erase, ↓reduceIte, ne_eq, not_true_eq_false, decide_false, Bool.false_eq_true, not_false_eq_true,
        List.filter_cons_of_neg]
      simp only [ne_eq] at this
      exact this.symm
    · have ih' := ih (by simpa [AL.keys] using h.2)
      simp only [ne_eq, decide_not] at ih' ⊢
      simp [AL.erase, e, ih']

theorem mem_keys_erase_of_ne (l : List (α × β)) (k m : α) (hm : m ∈ keys l) (hne : k ≠ m) : m ∈ keys (erase l k) := by
  rw [mem_keys_iff] at hm ⊢
  rw [AL.get?_erase_ne l k m hne]; exact hm

theorem mem_keys_erase (l : List (α × β)) (k m : α) (hm : m ∈ keys (erase l k)) : m ∈ keys l := by
  rw [AL.keys_erase_perm] at hm
  exact List.mem_of_mem_erase hm

end C05AL

namespace C05
variable {κ : Type} [DecidableEq κ] [Keyed κ]
set_option linter.unusedSectionVars false

/-! ## the laws `remove_node` relies on, for both key types -/

/-- what `without / incident / twice` mean in terms of the nodes of a key -/
class KeyedLaws (κ : Type) [DecidableEq κ] [Keyed κ] : Prop where
  without_not_mem : ∀ (n : Node) (k k' : κ), Keyed.without n k = some k' → n ∉ Keyed.members k'
  without_sub : ∀ (n : Node) (k k' : κ), Keyed.without n k = some k' → ∀ m ∈ Keyed.members k', m ∈ Keyed.members k
  mem_incident : ∀ (n : Node) (ks : List κ) (k : κ), k ∈ Keyed.incident n ks ↔ k ∈ ks ∧ n ∈ Keyed.members k
  nodup_incident : ∀ (n : Node) (ks : List κ), ks.Nodup → (∀ k ∈ ks, Keyed.twice n k = false) →
    (Keyed.incident n ks).Nodup

theorem mem_insertSorted (a x : Nat) (l : List Nat) : x ∈ insertSorted a l ↔ x = a ∨ x ∈ l := by
  induction l with
  | nil => simp [insertSorted]
  | cons b bs ih =>
    unfold insertSorted
    split
    · simp
    · simp only [List.mem_cons, ih]
      constructor
      · rintro (h | h | h)
        · exact .inr (.inl h)
        · exact .inl h
        · exact .inr (.inr h)
      · rintro (h | h | h)
        · exact .inr (.inl h)
        · exact .inl h
        · exact .inr (.inr h)

theorem mem_canonU (x : Nat) (l : List Nat) : x ∈ canonU l ↔ x ∈ l := by
  induction l with
  | nil => simp [canonU]
  | cons a l ih =>
    have : canonU (a :: l) = insertSorted a (canonU l) := rfl
    rw [this, mem_insertSorted, ih]; simp

instance : KeyedLaws UKey where
  without_not_mem := by
    intro n k k' h
    simp only [Keyed.without, Option.some.injEq] at h
    subst h
    simp only [Keyed.members, mem_canonU, List.mem_filter]
    intro hh; simp at hh
  without_sub := by
    intro n k k' h m hm
    simp only [Keyed.without, Option.some.injEq] at h
    subst h
    simp only [Keyed.members, mem_canonU, List.mem_filter] at hm
    exact hm.1
  mem_incident := by
    intro n ks k
    simp [Keyed.incident, Keyed.members, List.mem_filter]
  nodup_incident := by
    intro n ks h _
    exact (List.filter_sublist).nodup h

instance : KeyedLaws DKey where
  without_not_mem := by
    intro n k k' h
    simp only [Keyed.without] at h
    split at h
    · cases h
    · simp only [Option.some.injEq] at h
      subst h
      simp only [Keyed.members, canonD, List.mem_append, mem_canonU, List.mem_filter]
      intro hh; rcases hh with hh | hh <;> simp at hh
  without_sub := by
    intro n k k' h m hm
    simp only [Keyed.without] at h
    split at h
    · cases h
    · simp only [Option.some.injEq] at h
      subst h
      simp only [Keyed.members, canonD, List.mem_append, mem_canonU, List.mem_filter] at hm ⊢
      rcases hm with hm | hm
      · exact .inl hm.1
      · exact .inr hm.1
  mem_incident := by
    intro n ks k
    simp only [Keyed.incident, Keyed.members, List.mem_append, List.mem_filter, decide_eq_true_eq]
    constructor
    · rintro (⟨h1, h2⟩ | ⟨h1, h2⟩)
      · exact ⟨h1, .inl h2⟩
      · exact ⟨h1, .inr h2⟩
    · rintro ⟨h1, h2 | h2⟩
      · exact .inl ⟨h1, h2⟩
      · exact .inr ⟨h1, h2⟩
  nodup_incident := by
    intro n ks h htw
    simp only [Keyed.incident]
    rw [List.nodup_append]
    refine ⟨(List.filter_sublist).nodup h, (List.filter_sublist).nodup h, ?_⟩
    intro a ha b hb e
    subst e
    simp only [List.mem_filter, decide_eq_true_eq] at ha hb
    have := htw a ha.1
    simp [Keyed.twice, ha.2, hb.2] at this

/-! ## `WF` under the pieces of `remove_node` / `add_nodes` / `clear` -/

theorem wf_filterEdges (c : Content κ) (p : κ → Bool) (h : WF c) :
    WF { c with edges := c.edges.filter (fun e => p e.1) } := by
  refine ⟨h.nodes_nodup, ?_, ?_, ?_⟩
  · simp only [keysOf, keys_filter]; exact (List.filter_sublist).nodup h.keys_nodup
  · intro k hk
    simp only [keysOf, keys_filter, List.mem_filter] at hk
    exact h.members_in k hk.1
  · intro hw e he
    exact h.unit hw e (List.mem_filter.1 he).1

theorem wf_touchAll (c : Content κ) (ns : List Node) (h : WF c) : WF (touchAll c ns) :=
  ⟨nodup_keys_touchL _ _ h.nodes_nodup, h.keys_nodup,
   fun k hk m hm => by
     simp only [touchAll, nodesOf, mem_keys_touchL]
     exact .inl (h.members_in k hk m hm), h.unit⟩

theorem wf_clear (c : Content κ) : WF (clear c) :=
  ⟨by simp [nodesOf, clear, AL.keys], by simp [keysOf, clear, AL.keys],
   by intro k hk; simp [keysOf, clear, AL.keys] at hk, by intro _ e he; simp [clear] at he⟩

/-- the removal loop of `remove_node` / `remove_edges`: removing distinct present keys one by one is one filter -/
theorem foldRemove_eq (es : List κ) : ∀ (c : Content κ), (keysOf c).Nodup → (∀ k ∈ es, k ∈ keysOf c) → es.Nodup →
    es.foldlM removeEdge c = some { c with edges := c.edges.filter (fun e => decide (e.1 ∉ es)) } := by
  induction es with
  | nil =>
    intro c _ _ _
    have : c.edges.filter (fun e => decide (e.1 ∉ ([] : List κ))) = c.edges := by
      apply List.filter_eq_self.2; intro a _; simp
    rw [this]; rfl
  | cons a es ih =>
    intro c hnd hin hes
    have ha : a ∈ keysOf c := hin a List.mem_cons_self
    have hstep : removeEdge c a = some { c with edges := AL.erase c.edges a } := by
      simp [removeEdge, (C05AL.has_iff _ _).2 ha]
    rw [foldlM_some_cons _ _ _ _ _ hstep]
    rw [List.nodup_cons] at hes
    have hnd' : (keysOf ({ c with edges := AL.erase c.edges a } : Content κ)).Nodup :=
      C05AL.keys_erase_nodup _ _ hnd
    have hin' : ∀ k ∈ es, k ∈ keysOf ({ c with edges := AL.erase c.edges a } : Content κ) := by
      intro k hk
      apply C05AL.mem_keys_erase_of_ne _ _ _ (hin k (List.mem_cons_of_mem _ hk))
      intro e; subst e; exact hes.1 hk
    rw [ih _ hnd' hin' hes.2]
    have he : AL.erase c.edges a = c.edges.filter (fun p => decide (p.1 ≠ a)) := C05AL.erase_eq_filter _ _ hnd
    simp only [he, List.filter_filter]
    congr 2
    apply List.filter_congr
    intro e _
    simp only [List.mem_cons, not_or, ne_eq, decide_not, Bool.decide_and]
    rw [Bool.and_comm]

/-- the keys after `add_edge` are the old ones and possibly the new one -/
theorem addEdge_keys (h h' : Content κ) (k : κ) (w : Option W) (md : Meta) (e : addEdge h k w md = some h') :
    (∀ x ∈ keysOf h', x = k ∨ x ∈ keysOf h) ∧ (∀ x ∈ keysOf h, x ∈ keysOf h') ∧ k ∈ keysOf h' := by
  unfold addEdge at e
  split at e
  · cases e
    unfold addEdgeCore
    cases hg : AL.get? h.edges k with
    | none =>
      simp only [addEdgeNew, touchAll, keysOf, C05AL.keys_append, List.mem_append]
      refine ⟨?_, fun x hx => .inl hx, .inr (by simp [AL.keys])⟩
      intro x hx
      rcases hx with hx | hx
      · exact .inr hx
      · simp only [AL.keys, List.map_cons, List.map_nil, List.mem_singleton] at hx
        exact .inl hx
    | some v =>
      have hk : AL.keys (AL.set h.edges k (if h.weighted = true then v.1 + w.getD unitW else v.1, md)) = AL.keys h.edges :=
        AL.keys_set_of_mem _ _ _ (by simp [hg])
      simp only [addEdgeOld, keysOf, hk]
      exact ⟨fun x hx => .inr hx, fun x hx => hx, (C05AL.mem_keys_iff _ _).2 (by simp [hg])⟩
  · cases e

theorem wf_addEdge (h h' : Content κ) (k : κ) (w : Option W) (md : Meta) (hwf : WF h) (e : addEdge h k w md = some h') :
    WF h' := by
  unfold addEdge at e
  split at e
  · cases e; exact wf_addEdgeCore h k _ md hwf
  · cases e

/-- the invariant of the `keep_edges=True` loop: well-formed, the keys of the start are still there, and every key that
holds the node is one of the start -/
def ShrinkInv (n : Node) (c h : Content κ) : Prop :=
  WF h ∧ (∀ x ∈ keysOf c, x ∈ keysOf h) ∧
  (∀ x ∈ keysOf h, x ∈ keysOf c ∨ ∃ k0 ∈ keysOf c, n ∈ Keyed.members k0 ∧ Keyed.without n k0 = some x) ∧
  h.weighted = c.weighted ∧ aux h = aux c ∧ h.nodes = c.nodes

theorem ShrinkInv.of_mem [KeyedLaws κ] {n : Node} {c h : Content κ} (hi : ShrinkInv n c h) (x : κ) (hx : x ∈ keysOf h)
    (hn : n ∈ Keyed.members x) : x ∈ keysOf c := by
  rcases hi.2.2.1 x hx with h1 | ⟨k0, _, _, h3⟩
  · exact h1
  · exact absurd hn (KeyedLaws.without_not_mem n k0 x h3)

theorem addEdge_nodes (h h' : Content κ) (k : κ) (w : Option W) (md : Meta) (e : addEdge h k w md = some h')
    (hm : ∀ m ∈ Keyed.members k, m ∈ nodesOf h) : h'.nodes = h.nodes := by
  unfold addEdge at e
  split at e
  · cases e
    unfold addEdgeCore
    split
    · simp only [addEdgeNew, touchAll]
      exact touchL_present _ _ hm
    · rfl
  · cases e

theorem shrinkInto_inv [KeyedLaws κ] (n : Node) (c h h' : Content κ) (k : κ) (e : shrinkInto n h k = some h')
    (hk : k ∈ keysOf c ∧ n ∈ Keyed.members k) (hi : ShrinkInv n c h) : ShrinkInv n c h' := by
  unfold shrinkInto at e
  cases hw : Keyed.without n k with
  | none => simp only [hw, Option.some.injEq] at e; subst e; exact hi
  | some k' =>
    simp only [hw] at e
    cases h1 : getWeight h k with
    | none => simp [h1] at e
    | some w =>
      cases h2 : getEdgeMeta h k with
      | none => simp [h1, h2] at e
      | some md =>
        simp only [h1, h2, Option.bind_eq_bind, Option.bind_some] at e
        obtain ⟨ha, hb, _⟩ := addEdge_keys h h' k' _ md e
        have hnodes : h'.nodes = h.nodes := by
          apply addEdge_nodes h h' k' _ md e
          intro m hm
          exact hi.1.members_in k (hi.2.1 k hk.1) m (KeyedLaws.without_sub n k k' hw m hm)
        refine ⟨wf_addEdge h h' k' _ md hi.1 e, fun x hx => hb x (hi.2.1 x hx), ?_,
          (addEdge_weighted h h' k' _ md e).trans hi.2.2.2.1, (addEdge_aux h h' k' _ md e).trans hi.2.2.2.2.1,
          hnodes.trans hi.2.2.2.2.2⟩
        intro x hx
        rcases ha x hx with h3 | h3
        · subst h3; exact .inr ⟨k, hk.1, hk.2, hw⟩
        · exact hi.2.2.1 x h3

/-- a step of the loop on a key of the start is accepted -/
theorem shrinkInto_returns (n : Node) (c h : Content κ) (k : κ) (hk : k ∈ keysOf c) (hi : ShrinkInv n c h) :
    ∃ h', shrinkInto n h k = some h' := by
  unfold shrinkInto
  cases hw : Keyed.without n k with
  | none => exact ⟨h, rfl⟩
  | some k' =>
    have hkh : k ∈ keysOf h := hi.2.1 k hk
    have hs : (AL.get? h.edges k).isSome := (C05AL.mem_keys_iff _ _).1 hkh
    obtain ⟨v, hv⟩ := Option.isSome_iff_exists.1 hs
    have hok : weightOk h.weighted (some v.1) = true := by
      cases hwt : h.weighted with
      | true => simp [weightOk]
      | false =>
        have := hi.1.unit hwt (k, v) (C05AL.mem_of_get? _ _ _ hv)
        simp only at this
        simp [weightOk, this]
    simp only [getWeight, getEdgeMeta, hv, Option.map_some, Option.bind_eq_bind, Option.bind_some, addEdge, hok, ↓reduceIte]
    exact ⟨_, rfl⟩

theorem foldShrink [KeyedLaws κ] (n : Node) (c : Content κ) (es : List κ) : ∀ (h : Content κ),
    (∀ k ∈ es, k ∈ keysOf c ∧ n ∈ Keyed.members k) → ShrinkInv n c h →
    ∃ r, es.foldlM (shrinkInto n) h = some r ∧ ShrinkInv n c r := by
  induction es with
  | nil => intro h _ hi; exact ⟨h, by simp, hi⟩
  | cons a es ih =>
    intro h hin hi
    obtain ⟨h', e⟩ := shrinkInto_returns n c h a (hin a List.mem_cons_self).1 hi
    rw [foldlM_some_cons _ _ _ _ _ e]
    exact ih h' (fun k hk => hin k (List.mem_cons_of_mem _ hk)) (shrinkInto_inv n c h h' a e (hin a List.mem_cons_self) hi)

/-- the loop never loses a key, and the shrunk version of every walked key is a key afterwards -/
theorem foldShrink_has (n : Node) (es : List κ) : ∀ (h r : Content κ), es.foldlM (shrinkInto n) h = some r →
    (∀ x ∈ keysOf h, x ∈ keysOf r) ∧ (∀ k0 ∈ es, ∀ k, Keyed.without n k0 = some k → k ∈ keysOf r) := by
  induction es with
  | nil => intro h r e; simp at e; subst e; exact ⟨fun _ hx => hx, by simp⟩
  | cons a es ih =>
    intro h r e
    cases hfa : shrinkInto n h a with
    | none => rw [foldlM_none_cons _ _ _ _ hfa] at e; cases e
    | some h' =>
      rw [foldlM_some_cons _ _ _ _ _ hfa] at e
      obtain ⟨i1, i2⟩ := ih h' r e
      have hstep : (∀ x ∈ keysOf h, x ∈ keysOf h') ∧ (∀ k, Keyed.without n a = some k → k ∈ keysOf h') := by
        unfold shrinkInto at hfa
        cases hw : Keyed.without n a with
        | none => simp only [hw, Option.some.injEq] at hfa; subst hfa; exact ⟨fun _ hx => hx, by simp⟩
        | some k' =>
          simp only [hw] at hfa
          cases h1 : getWeight h a with
          | none => simp [h1] at hfa
          | some w =>
            cases h2 : getEdgeMeta h a with
            | none => simp [h1, h2] at hfa
            | some md =>
              simp only [h1, h2, Option.bind_eq_bind, Option.bind_some] at hfa
              obtain ⟨_, hb, hc⟩ := addEdge_keys h h' k' _ md hfa
              refine ⟨hb, ?_⟩
              intro k hk; simp only [Option.some.injEq] at hk; subst hk; exact hc
      refine ⟨fun x hx => i1 x (hstep.1 x hx), ?_⟩
      intro k0 hk0 k hk
      rcases List.mem_cons.1 hk0 with h0 | h0
      · subst h0; exact i1 k (hstep.2 k hk)
      · exact i2 k0 h0 k hk

/-- `remove_node` on a present node that is not on both sides of a hyperedge: accepted, and the result is the state
`c1` after the (optional) re-insertion loop, without the hyperedges that hold the node, without the node -/
theorem removeNode_spec [KeyedLaws κ] (c : Content κ) (n : Node) (keep : Bool) (hwf : WF c) (hn : n ∈ nodesOf c)
    (htw : onBothSides c n = false) :
    ∃ c1, (if keep then (Keyed.incident n (keysOf c)).foldlM (shrinkInto n) c else some c) = some c1 ∧
      ShrinkInv n c c1 ∧
      removeNode c n keep = some { c1 with edges := c1.edges.filter (fun e => decide (n ∉ Keyed.members e.1)),
                                           nodes := AL.erase c1.nodes n } := by
  have hin2 : ∀ k ∈ Keyed.incident n (keysOf c), k ∈ keysOf c ∧ n ∈ Keyed.members k :=
    fun k hk => (KeyedLaws.mem_incident n _ k).1 hk
  have hin : ∀ k ∈ Keyed.incident n (keysOf c), k ∈ keysOf c := fun k hk => (hin2 k hk).1
  have hi0 : ShrinkInv n c c := ⟨hwf, fun _ hx => hx, fun _ hx => .inl hx, rfl, rfl, rfl⟩
  have hc1 : ∃ c1, (if keep then (Keyed.incident n (keysOf c)).foldlM (shrinkInto n) c else some c) = some c1 ∧
      ShrinkInv n c c1 := by
    cases keep with
    | false => exact ⟨c, rfl, hi0⟩
    | true => simpa using foldShrink n c _ c hin2 hi0
  obtain ⟨c1, e1, hi1⟩ := hc1
  refine ⟨c1, e1, hi1, ?_⟩
  have hnd : (Keyed.incident n (keysOf c)).Nodup := by
    apply KeyedLaws.nodup_incident n _ hwf.keys_nodup
    intro k hk
    simp only [onBothSides, List.any_eq_false] at htw
    have := htw k hk
    simpa using this
  have e2 := foldRemove_eq (Keyed.incident n (keysOf c)) c1 hi1.1.keys_nodup (fun k hk => hi1.2.1 k (hin k hk)) hnd
  have hfilter : c1.edges.filter (fun e => decide (e.1 ∉ Keyed.incident n (keysOf c))) =
      c1.edges.filter (fun e => decide (n ∉ Keyed.members e.1)) := by
    apply List.filter_congr
    intro e he
    have hek : e.1 ∈ keysOf c1 := mem_keys_of_mem _ e he
    rw [decide_eq_decide]
    constructor
    · intro h1 h2
      exact h1 ((KeyedLaws.mem_incident n _ e.1).2 ⟨hi1.of_mem e.1 hek h2, h2⟩)
    · intro h1 h2
      exact h1 ((KeyedLaws.mem_incident n _ e.1).1 h2).2
  rw [hfilter] at e2
  have hhas : AL.has c.nodes n = true := (C05AL.has_iff _ _).2 hn
  unfold removeNode
  simp only [hhas, Bool.not_true, Bool.false_eq_true, ↓reduceIte, htw]
  simp only [keysOf] at e1 e2
  cases keep with
  | false =>
    simp only [Bool.false_eq_true, ↓reduceIte, Option.some.injEq] at e1
    subst e1
    simp only [Bool.false_eq_true, ↓reduceIte, e2, Option.bind_eq_bind, Option.bind_some]
  | true =>
    simp only [↓reduceIte] at e1
    simp only [↓reduceIte, e1, e2, Option.bind_eq_bind, Option.bind_some]

/-- `remove_node` keeps `WF` (whatever the verdict) -/
theorem wf_removeNode [KeyedLaws κ] (c c' : Content κ) (n : Node) (keep : Bool) (hwf : WF c)
    (e : removeNode c n keep = some c') : WF c' := by
  have hn : n ∈ nodesOf c := by
    apply Decidable.byContradiction; intro hn
    have : AL.has c.nodes n = false := by
      cases hh : AL.has c.nodes n with
      | false => rfl
      | true => exact absurd ((C05AL.has_iff _ _).1 hh) hn
    simp [removeNode, this] at e
  have htw : onBothSides c n = false := by
    cases hh : onBothSides c n with
    | false => rfl
    | true => simp [removeNode, (C05AL.has_iff _ _).2 hn, hh] at e
  obtain ⟨c1, _, hi1, e2⟩ := removeNode_spec c n keep hwf hn htw
  rw [e2] at e
  cases e
  have hf := wf_filterEdges c1 (fun k => decide (n ∉ Keyed.members k)) hi1.1
  refine ⟨C05AL.keys_erase_nodup _ _ hi1.1.nodes_nodup, hf.keys_nodup, ?_, hf.unit⟩
  intro k hk m hm
  have hk' : k ∈ (keysOf c1).filter (fun k => decide (n ∉ Keyed.members k)) := by
    have h0 := keys_filter c1.edges (fun k => decide (n ∉ Keyed.members k))
    simp only [keysOf] at hk ⊢
    rw [← h0]; exact hk
  rw [List.mem_filter] at hk'
  have hne : n ≠ m := by
    intro e; subst e
    exact (of_decide_eq_true hk'.2) hm
  exact C05AL.mem_keys_erase_of_ne _ _ _ (hi1.1.members_in k hk'.1 m hm) hne

theorem wf_foldAddNode (ns : List Node) (f : Node → Meta) : ∀ (c : Content κ), WF c →
    WF (ns.foldl (fun h n => addNode h n (f n)) c) := by
  induction ns with
  | nil => intro c h; exact h
  | cons a ns ih => intro c h; exact ih _ (wf_addNode c a _ h)

theorem wf_addNodes (c c' : Content κ) (ns : List Node) (tbl : Option (List (Node × Meta))) (hwf : WF c)
    (e : addNodes c ns tbl = some c') : WF c' := by
  unfold addNodes at e
  cases tbl with
  | none => simp only [Option.some.injEq] at e; subst e; exact wf_touchAll c ns hwf
  | some t =>
    simp only at e
    split at e
    · cases e; exact wf_foldAddNode ns (fun n => (AL.get? t n).getD []) c hwf
    · cases e

/-! ## `WF` is an invariant of every history -/

theorem wf_apply? [KeyedLaws κ] (c c' : Content κ) (op : Op κ) (h : WF c) (e : apply? c op = some c') : WF c' := by
  cases op with
  | addNode n md => simp only [apply?, Option.some.injEq] at e; subst e; exact wf_addNode c n md h
  | addEdge k w md =>
    simp only [apply?, addEdge] at e
    split at e
    · cases e; exact wf_addEdgeCore c k _ md h
    · cases e
  | removeEdge k =>
    simp only [apply?, removeEdge] at e
    split at e
    · cases e
      refine ⟨h.nodes_nodup, C05AL.keys_erase_nodup _ _ h.keys_nodup, ?_, ?_⟩
      · intro k' hk'
        simp only [keysOf, AL.keys_erase_perm] at hk'
        exact h.members_in k' (List.mem_of_mem_erase hk')
      · intro hw e he; exact h.unit hw e (C05AL.mem_erase _ _ _ he)
    · cases e
  | setWeight k w =>
    simp only [apply?, setWeight] at e
    split at e
    · cases e
    · next hok =>
      cases hg : AL.get? c.edges k with
      | none => simp [hg] at e
      | some v =>
        simp only [hg, Option.some.injEq] at e; subst e
        apply wf_setEdge c k _ h ((C05AL.mem_keys_iff _ _).2 (by simp [hg]))
        intro hw
        simp only [hw, Bool.not_false, Bool.true_and, bne_iff_ne, ne_eq, Decidable.not_not] at hok
        exact hok
  | setNodeMeta n md =>
    simp only [apply?, setNodeMeta] at e
    split at e
    · next hh => cases e; exact wf_setNode c n md h ((C05AL.has_iff _ _).1 hh)
    · cases e
  | setEdgeMeta k md =>
    simp only [apply?, setEdgeMeta] at e
    cases hg : AL.get? c.edges k with
    | none => simp [hg] at e
    | some v =>
      simp only [hg, Option.some.injEq] at e; subst e
      apply wf_setEdge c k _ h ((C05AL.mem_keys_iff _ _).2 (by simp [hg]))
      intro hw; exact h.unit hw (k, v) (C05AL.mem_of_get? _ _ _ hg)
  | setNodeAttr n a v =>
    simp only [apply?, setNodeAttr] at e
    cases hg : AL.get? c.nodes n with
    | none => simp [hg] at e
    | some md =>
      simp only [hg, Option.some.injEq] at e; subst e
      exact wf_setNode c n _ h ((C05AL.mem_keys_iff _ _).2 (by simp [hg]))
  | setEdgeAttr k a v =>
    simp only [apply?, setEdgeAttr] at e
    cases hg : AL.get? c.edges k with
    | none => simp [hg] at e
    | some x =>
      simp only [hg, Option.some.injEq] at e; subst e
      apply wf_setEdge c k _ h ((C05AL.mem_keys_iff _ _).2 (by simp [hg]))
      intro hw; exact h.unit hw (k, x) (C05AL.mem_of_get? _ _ _ hg)
  | setIncMeta k st n md =>
    simp only [apply?, setIncMeta] at e
    split at e
    · cases e; exact wf_aux c _ h rfl rfl rfl
    · cases e
  | setIncAttr k st n a v =>
    simp only [apply?, setIncAttr] at e
    split at e
    · cases e
    · cases e; exact wf_aux c _ h rfl rfl rfl
  | addEmptyEdge name md =>
    simp only [apply?, addEmptyEdge] at e
    split at e
    · cases e
    · cases e; exact wf_aux c _ h rfl rfl rfl
  | setHyperMeta md => simp only [apply?, Option.some.injEq] at e; subst e; exact wf_aux c _ h rfl rfl rfl
  | setHyperAttr a v => simp only [apply?, Option.some.injEq] at e; subst e; exact wf_aux c _ h rfl rfl rfl
  | addNodes ns tbl => exact wf_addNodes c c' ns tbl h e
  | removeNode n keep => exact wf_removeNode c c' n keep h e
  | clear => simp only [apply?, Option.some.injEq] at e; subst e; exact wf_clear c

theorem wf_step [KeyedLaws κ] (c : Content κ) (op : Op κ) (h : WF c) : WF (step c op) := by
  unfold step
  cases e : apply? c op with
  | none => exact h
  | some c' => exact wf_apply? c c' op h e

theorem wf_run [KeyedLaws κ] (c : Content κ) (ops : List (Op κ)) (h : WF c) : WF (run c ops) := by
  induction ops generalizing c with
  | nil => exact h
  | cons op ops ih => exact ih (step c op) (wf_step c op h)


end C05
