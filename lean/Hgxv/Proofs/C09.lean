import Hgxv.Model.C09
/-! Helper lemmas for C09, part 1 (core Lean): the label encoder. -/
namespace C09

theorem mem_insertSorted (a x : Nat) (l : List Nat) : x ∈ insertSorted a l ↔ x = a ∨ x ∈ l := by
  induction l with
  | nil => simp [insertSorted]
  | cons b bs ih => grind [insertSorted]

theorem sorted_insertSorted (a : Nat) (l : List Nat) (h : l.Pairwise (· < ·)) :
    (insertSorted a l).Pairwise (· < ·) := by
  induction l with
  | nil => simp [insertSorted]
  | cons b bs ih =>
    unfold insertSorted
    split
    · exact List.pairwise_cons.2 ⟨by
        intro x hx
        rcases List.mem_cons.1 hx with rfl | hx
        · assumption
        · have := (List.pairwise_cons.1 h).1 x hx; omega, h⟩
    · split
      · exact h
      · refine List.pairwise_cons.2 ⟨?_, ih (List.pairwise_cons.1 h).2⟩
        intro x hx
        rcases (mem_insertSorted a x bs).1 hx with rfl | hx
        · omega
        · exact (List.pairwise_cons.1 h).1 x hx

theorem mem_classes (x : Nat) (l : List Nat) : x ∈ classes l ↔ x ∈ l := by
  induction l with
  | nil => simp [classes]
  | cons a l ih =>
    have : classes (a :: l) = insertSorted a (classes l) := rfl
    rw [this, mem_insertSorted, ih]; simp

theorem classes_sorted (l : List Nat) : (classes l).Pairwise (· < ·) := by
  induction l with
  | nil => simp [classes]
  | cons a l ih => exact sorted_insertSorted a _ ih

theorem classes_nodup (l : List Nat) : (classes l).Nodup :=
  (classes_sorted l).imp (fun h => Nat.ne_of_lt h)

theorem classes_perm (l : List Nat) (h : l.Nodup) : (classes l).Perm l :=
  (List.perm_ext_iff_of_nodup (classes_nodup l) h).2 (fun a => mem_classes a l)

theorem classes_length (l : List Nat) (h : l.Nodup) : (classes l).length = l.length :=
  (classes_perm l h).length_eq

theorem classes_idem (l : List Nat) : classes (classes l) = classes l := by
  have h1 := classes_sorted (classes l)
  have h2 := classes_sorted l
  have hp : (classes (classes l)).Perm (classes l) := classes_perm _ (classes_nodup l)
  exact hp.eq_of_pairwise (le := (· < ·)) (fun a b _ _ h1 h2 => by omega) h1 h2

theorem encode_getElem (cls : List Nat) (hn : cls.Nodup) (i : Nat) (h : i < cls.length) :
    encode cls cls[i] = i := hn.idxOf_getElem i h

theorem encode_lt (cls : List Nat) (x : Nat) (h : x ∈ cls) : encode cls x < cls.length :=
  List.idxOf_lt_length_iff.2 h

theorem getElem_encode (cls : List Nat) (x : Nat) (h : x ∈ cls) :
    cls[encode cls x]'(encode_lt cls x h) = x := List.getElem_idxOf _

theorem map_encode (cls : List Nat) (hn : cls.Nodup) : cls.map (encode cls) = List.range cls.length := by
  apply List.ext_getElem
  · simp
  · intro i h1 h2
    simp [encode_getElem cls hn i (by simpa using h1)]

theorem mapping_eq (nodes : List Nat) :
    mapping nodes = (List.range (classes nodes).length).zip (classes nodes) := by
  simp [mapping, map_encode _ (classes_nodup nodes)]

/-- the fitted encoder depends on the SET of labels only, not on the order in which `get_nodes()` lists them
(the listing order is what a history of removals and re-insertions changes) -/
theorem classes_congr (l l' : List Nat) (h : ∀ x, x ∈ l ↔ x ∈ l') : classes l = classes l' := by
  have hp : (classes l).Perm (classes l') :=
    (List.perm_ext_iff_of_nodup (classes_nodup l) (classes_nodup l')).2
      (fun a => by rw [mem_classes, mem_classes]; exact h a)
  exact hp.eq_of_pairwise (le := (· < ·)) (fun a b _ _ h1 h2 => by omega) (classes_sorted l) (classes_sorted l')

theorem classes_perm_congr (l l' : List Nat) (h : l.Perm l') : classes l = classes l' :=
  classes_congr l l' (fun _ => h.mem_iff)

end C09
