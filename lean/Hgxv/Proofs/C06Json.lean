import Hgxv.Model.C06Json
import Hgxv.Proofs.C06Str
import Hgxv.Proofs.C06Text
/-! helper lemmas for the character level of the `.json` format (`Model/C06Json.lean`) -/
namespace C06
namespace Num

theorem natDigits_ne_nil (n : Nat) : natDigits n ≠ [] := by
  rw [natDigits]; split <;> simp

theorem natDigits_all (n : Nat) : ∀ d ∈ natDigits n, 48 ≤ d ∧ d ≤ 57 := by
  induction n using natDigits.induct with
  | case1 n h => rw [natDigits]; simp [h]; omega
  | case2 n h ih =>
    rw [natDigits]; simp only [h, if_false]
    intro d hd
    rcases List.mem_append.mp hd with hd | hd
    · exact ih d hd
    · simp at hd; omega

theorem natDigits_head (n : Nat) (h0 : 0 < n) : (natDigits n).head? ≠ some 48 := by
  induction n using natDigits.induct with
  | case1 n h => rw [natDigits]; simp [h]; omega
  | case2 n h ih =>
    rw [natDigits]; simp only [h, if_false]
    have hne := natDigits_ne_nil (n / 10)
    have ih' := ih (by omega)
    cases hq : natDigits (n / 10) with
    | nil => exact absurd hq hne
    | cons a as => rw [hq] at ih'; simpa using ih'

theorem natDigits_len (n : Nat) (h : (natDigits n).head? = some 48) : (natDigits n).length = 1 := by
  have : ¬ 0 < n := fun h0 => natDigits_head n h0 h
  have : n = 0 := by omega
  subst this; rw [natDigits]; simp

theorem digitsVal_append (a : List Nat) (d : Nat) : digitsVal (a ++ [d]) = 10 * digitsVal a + (d - 48) := by
  simp [digitsVal, List.foldl_append]

theorem digitsVal_natDigits (n : Nat) : digitsVal (natDigits n) = n := by
  induction n using natDigits.induct with
  | case1 n h => rw [natDigits]; simp [h, digitsVal]
  | case2 n h ih =>
    rw [natDigits]; simp only [h, if_false]
    rw [digitsVal_append, ih]; omega

theorem decNat_natDigits (n : Nat) : decNat (natDigits n) = some n := by
  unfold decNat
  have h1 := natDigits_ne_nil n
  have h2 : (natDigits n).all isDigit = true := by
    rw [List.all_eq_true]; intro d hd
    have := natDigits_all n d hd
    simp [isDigit]; omega
  have h3 : (natDigits n).head? ≠ some 48 ∨ (natDigits n).length = 1 := by
    by_cases h : (natDigits n).head? = some 48
    · exact Or.inr (natDigits_len n h)
    · exact Or.inl h
  rw [if_pos ⟨h1, h2, h3⟩, digitsVal_natDigits]

theorem natDigits_head_ne_minus (n : Nat) : (natDigits n).head? ≠ some 45 := by
  intro h
  have hm : 45 ∈ natDigits n := List.mem_of_head? h
  have := natDigits_all n 45 hm
  omega

theorem decInt_encInt (i : Int) : decInt (encInt i) = some i := by
  cases i with
  | ofNat n =>
    show decInt (natDigits n) = _
    unfold decInt
    rw [if_neg (natDigits_head_ne_minus n), decNat_natDigits]; rfl
  | negSucc n =>
    show decInt (45 :: natDigits (n + 1)) = _
    unfold decInt
    simp only [List.head?_cons, List.tail_cons, if_true]
    rw [decNat_natDigits]
    rfl

theorem encInt_chars (i : Int) : ∀ u ∈ encInt i, u = 45 ∨ (48 ≤ u ∧ u ≤ 57) := by
  cases i with
  | ofNat n => intro u hu; exact Or.inr (natDigits_all n u hu)
  | negSucc n =>
    intro u hu
    simp only [encInt, List.mem_cons] at hu
    rcases hu with hu | hu
    · exact Or.inl hu
    · exact Or.inr (natDigits_all _ u hu)

end Num

namespace Json
open Str

section emit
variable {F : Type} (repr : F → List Nat)

def Pr (u : Nat) : Prop := 32 ≤ u ∧ u ≤ 126

theorem pr_append {a b : List Nat} (ha : ∀ u ∈ a, Pr u) (hb : ∀ u ∈ b, Pr u) : ∀ u ∈ a ++ b, Pr u := by
  intro u hu
  rcases List.mem_append.mp hu with h | h
  · exact ha u h
  · exact hb u h

theorem pr_cons {c : Nat} {b : List Nat} (hc : Pr c) (hb : ∀ u ∈ b, Pr u) : ∀ u ∈ c :: b, Pr u := by
  intro u hu
  rcases List.mem_cons.mp hu with h | h
  · exact h ▸ hc
  · exact hb u h

theorem pr_nil : ∀ u ∈ ([] : List Nat), Pr u := by intro u hu; cases hu

theorem pr_encInt (i : Int) : ∀ u ∈ Num.encInt i, Pr u := by
  intro u hu
  rcases Num.encInt_chars i u hu with h | h <;> unfold Pr <;> omega

theorem emit_ne_nil (h0 : ∀ f, repr f ≠ []) (j : J F) : J.emit repr j ≠ [] := by
  cases j with
  | null => simp [J.emit]
  | bool b => cases b <;> simp [J.emit]
  | int i => cases i <;> simp [J.emit, Num.encInt, Num.natDigits_ne_nil]
  | flt f => simpa [J.emit] using h0 f
  | str s => simp [J.emit, Str.encode]
  | arr xs => cases xs <;> simp [J.emit]
  | obj kv => cases kv <;> simp [J.emit]

mutual
theorem emit_pr (hr : ∀ f, ∀ u ∈ repr f, Pr u) : (j : J F) → ∀ u ∈ J.emit repr j, Pr u
  | .null => by simp [J.emit, Pr]
  | .bool true => by simp [J.emit, Pr]
  | .bool false => by simp [J.emit, Pr]
  | .int i => by simp only [J.emit]; exact pr_encInt i
  | .flt f => by simp only [J.emit]; exact hr f
  | .str s => by simp only [J.emit]; exact encode_printable s
  | .arr .nil => by simp [J.emit, Pr]
  | .arr (.cons x xs) => by
    simp only [J.emit]
    exact pr_cons (by unfold Pr; omega)
      (pr_append (emit_pr hr x) (pr_append (emitTailL_pr hr xs) (pr_cons (by unfold Pr; omega) pr_nil)))
  | .obj .nil => by simp [J.emit, Pr]
  | .obj (.cons k v kv) => by
    simp only [J.emit]
    exact pr_cons (by unfold Pr; omega)
      (pr_append (encode_printable k) (pr_cons (by unfold Pr; omega)
        (pr_append (emit_pr hr v) (pr_append (emitTailO_pr hr kv) (pr_cons (by unfold Pr; omega) pr_nil)))))
theorem emitTailL_pr (hr : ∀ f, ∀ u ∈ repr f, Pr u) : (xs : JL F) → ∀ u ∈ JL.emitTail repr xs, Pr u
  | .nil => by simp [JL.emitTail]
  | .cons x xs => by
    simp only [JL.emitTail]
    exact pr_cons (by unfold Pr; omega) (pr_append (emit_pr hr x) (emitTailL_pr hr xs))
theorem emitTailO_pr (hr : ∀ f, ∀ u ∈ repr f, Pr u) : (kv : JO F) → ∀ u ∈ JO.emitTail repr kv, Pr u
  | .nil => by simp [JO.emitTail]
  | .cons k v kv => by
    simp only [JO.emitTail]
    exact pr_cons (by unfold Pr; omega)
      (pr_append (encode_printable k) (pr_cons (by unfold Pr; omega) (pr_append (emit_pr hr v) (emitTailO_pr hr kv))))
end

end emit

section file
variable {α : Type}

theorem splitLF_ne_nil (l : List Nat) : splitLF l ≠ [] := by
  induction l with
  | nil => simp [splitLF]
  | cons c cs ih =>
    simp only [splitLF]
    split
    · simp
    · split <;> simp

theorem splitLF_noLF (a : List Nat) (h : 10 ∉ a) : splitLF a = [a] := by
  induction a with
  | nil => rfl
  | cons c cs ih =>
    have hc : c ≠ 10 := fun e => h (e ▸ List.mem_cons_self)
    have hcs : 10 ∉ cs := fun m => h (List.mem_cons_of_mem _ m)
    simp only [splitLF, if_neg hc, ih hcs]

theorem splitLF_append (a b : List Nat) (h : 10 ∉ a) : splitLF (a ++ 10 :: b) = a :: splitLF b := by
  induction a with
  | nil => simp [splitLF]
  | cons c cs ih =>
    have hc : c ≠ 10 := fun e => h (e ▸ List.mem_cons_self)
    have hcs : 10 ∉ cs := fun m => h (List.mem_cons_of_mem _ m)
    simp only [List.cons_append, splitLF, if_neg hc, ih hcs]

/-- the lines of a file: one record per line -/
theorem splitLF_body (enc : α → List Nat) (r : α) (rs : List α) (hn : ∀ x ∈ r :: rs, 10 ∉ enc x) :
    splitLF (enc r ++ body enc rs) = recLines enc r rs := by
  induction rs generalizing r with
  | nil =>
    simp only [body, recLines]
    rw [splitLF_append _ _ (hn r List.mem_cons_self)]
    rfl
  | cons r' rs ih =>
    simp only [body, recLines]
    have h1 : enc r ++ 44 :: 10 :: (enc r' ++ body enc rs) = (enc r ++ [44]) ++ 10 :: (enc r' ++ body enc rs) := by
      simp
    have h2 : 10 ∉ enc r ++ [44] := by
      intro m
      rcases List.mem_append.mp m with m | m
      · exact hn r List.mem_cons_self m
      · simp at m
    rw [h1, splitLF_append _ _ h2, ih r' (fun x hx => hn x (List.mem_cons_of_mem _ hx))]

theorem splitLF_fileText (enc : α → List Nat) (r : α) (rs : List α) (hn : ∀ x ∈ r :: rs, 10 ∉ enc x) :
    splitLF (fileText enc (r :: rs)) = [91] :: recLines enc r rs := by
  have h : fileText enc (r :: rs) = [91] ++ 10 :: (enc r ++ body enc rs) := rfl
  rw [h, splitLF_append _ _ (by simp), splitLF_body enc r rs hn]

theorem recLines_ne (enc : α → List Nat) (r : α) (rs : List α) : recLines enc r rs ≠ [[93]] := by
  cases rs with
  | nil => simp [recLines]
  | cons r' rs => cases rs <;> simp [recLines]

theorem unComma_append (l : List Nat) : unComma (l ++ [44]) = some l := by
  simp [unComma]

theorem readRecLines_recLines (enc : α → List Nat) (dec : List Nat → Option α)
    (r : α) (rs : List α) (hd : ∀ x ∈ r :: rs, dec (enc x) = some x) :
    readRecLines dec (recLines enc r rs) = some (r :: rs) := by
  induction rs generalizing r with
  | nil => simp [recLines, readRecLines, hd r List.mem_cons_self]
  | cons r' rs ih =>
    simp only [recLines, readRecLines]
    rw [if_neg (recLines_ne enc r' rs), unComma_append]
    simp only [hd r List.mem_cons_self, ih r' (fun x hx => hd x (List.mem_cons_of_mem _ hx))]

theorem readFile_fileText (enc : α → List Nat) (dec : List Nat → Option α) (r : α) (rs : List α)
    (h0 : enc r ≠ []) (hn : ∀ x ∈ r :: rs, 10 ∉ enc x) (hd : ∀ x ∈ r :: rs, dec (enc x) = some x) :
    readFile dec (fileText enc (r :: rs)) = some (r :: rs) := by
  unfold readFile
  rw [splitLF_fileText enc r rs hn]
  have hne : ([91] :: recLines enc r rs) ≠ [[91], [], [93]] := by
    cases rs with
    | nil => simp [recLines, h0]
    | cons r' rs => simp [recLines]
  rw [if_neg hne]
  exact readRecLines_recLines enc dec r rs hd

theorem readFile_fileText_nil (enc : α → List Nat) (dec : List Nat → Option α) :
    readFile dec (fileText enc []) = some [] := by
  simp [readFile, fileText, splitLF]

/-- the pieces of `writeText`, as characters, are `fileText` -/
theorem render_body (enc : α → List Nat) (rs : List α) :
    render enc ((rs.flatMap (fun r => [Piece.sep, Piece.item r])) ++ [Piece.cls]) = body enc rs := by
  induction rs with
  | nil => simp [render, renderPiece, body]
  | cons r rs ih =>
    simp only [render] at ih
    simp [render, renderPiece, body, ih]

theorem intersperse_cons' {β : Type} (s a : β) (l : List β) :
    (a :: l).intersperse s = a :: l.flatMap (fun x => [s, x]) := by
  induction l generalizing a with
  | nil => simp
  | cons b l ih => simp [ih]

theorem render_writeText (enc : α → List Nat) (r : α) (rs : List α) :
    render enc (writeText (r :: rs)) = fileText enc (r :: rs) := by
  rw [writeText_framed]
  simp only [framed, List.map_cons]
  rw [intersperse_cons']
  have h := render_body enc rs
  simp only [render] at h
  simp only [render, fileText, List.flatMap_cons, renderPiece, List.cons_append, List.nil_append, List.flatMap_map]
  rw [← h]

theorem render_writeText_nil (enc : α → List Nat) : render enc (writeText ([] : List α)) = fileText enc [] := by
  simp [writeText, Writer.start, Writer.finish, render, renderPiece, fileText]

end file
end Json
end C06
