import Hgxv.Model.C19
import Mathlib.Data.Nat.Choose.Sum
import Mathlib.Algebra.BigOperators.Intervals
import Mathlib.Algebra.Order.Field.Rat
/-! C19 part B: the model's executable binomial tail is the textbook sum (Mathlib vocabulary). -/
namespace C19
open Finset

theorem fact_eq (n : Nat) : fact n = n.factorial := by
  induction n with
  | zero => rfl
  | succ n ih => simp [fact, Nat.factorial_succ, ih]

theorem choose_eq (n k : Nat) : choose n k = n.choose k := by
  unfold choose
  split
  · rename_i h
    rw [fact_eq, fact_eq, fact_eq, Nat.choose_eq_factorial_div_factorial h]
  · rename_i h
    exact (Nat.choose_eq_zero_of_lt (by omega)).symm

theorem foldl_add_eq_sum (l : List ℚ) (a : ℚ) : l.foldl (· + ·) a = a + l.sum := by
  induction l generalizing a with
  | nil => simp
  | cons x xs ih => simp [ih, add_assoc]

theorem foldl_mul_eq_prod (l : List ℚ) (a : ℚ) : l.foldl (· * ·) a = a * l.prod := by
  induction l generalizing a with
  | nil => simp
  | cons x xs ih => simp [ih, mul_assoc]

theorem list_range_map_sum (f : Nat → ℚ) (n : Nat) : ((List.range n).map f).sum = ∑ i ∈ range n, f i := by
  induction n with
  | zero => simp
  | succ n ih => simp [List.range_succ, Finset.sum_range_succ, ih]

theorem tail_eq_sum (w N : Nat) (p : ℚ) :
    tail w N p = ∑ j ∈ Ico w (N + 1), (N.choose j : ℚ) * p ^ j * (1 - p) ^ (N - j) := by
  unfold tail
  rw [foldl_add_eq_sum, zero_add, list_range_map_sum, Finset.sum_Ico_eq_sum_range]
  apply Finset.sum_congr rfl
  intro i _
  simp [pmf, choose_eq]

/-- the law sums to one -/
theorem tail_zero (N : Nat) (p : ℚ) : tail 0 N p = 1 := by
  rw [tail_eq_sum, Nat.Ico_zero_eq_range]
  have := (add_pow p (1 - p) N).symm
  rw [show p + (1 - p) = 1 by ring, one_pow] at this
  refine Eq.trans ?_ this
  apply Finset.sum_congr rfl
  intro i _
  ring

theorem prodRatio_eq (ks : List Nat) (N : Nat) :
    prodRatio ks N = (ks.map (fun (k : Nat) => (k : ℚ) / (N : ℚ))).prod := by
  unfold prodRatio
  rw [foldl_mul_eq_prod, one_mul]

end C19
