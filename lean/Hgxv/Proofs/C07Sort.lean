import Hgxv.Model.C07
/-! # C07 helper lemmas: sorting, `ser`, laws of the four key kinds (core Lean only) -/
namespace C07
open AL

/-! ## `sortBy` -/
section sort
variable {α : Type}

theorem insertBy_perm (le : α → α → Bool) (a : α) (l : List α) : (insertBy le a l).Perm (a :: l) := by
  induction l with
  | nil => simp [insertBy]
  | cons b bs ih =>
    unfold insertBy
    split
    · exact List.Perm.refl _
    · exact (List.Perm.cons b ih).trans (List.Perm.swap a b bs)

theorem sortBy_perm (le : α → α → Bool) (l : List α) : (sortBy le l).Perm l := by
  induction l with
  | nil => simp [sortBy]
  | cons a t ih =>
    have : sortBy le (a :: t) = insertBy le a (sortBy le t) := rfl
    rw [this]
    exact (insertBy_perm le a _).trans (List.Perm.cons a ih)

theorem mem_sortBy {le : α → α → Bool} {l : List α} {x : α} : x ∈ sortBy le l ↔ x ∈ l :=
  (sortBy_perm le l).mem_iff

theorem length_sortBy (le : α → α → Bool) (l : List α) : (sortBy le l).length = l.length :=
  (sortBy_perm le l).length_eq

theorem insertBy_pairwise {le : α → α → Bool}
    (total : ∀ a b, (le a b || le b a) = true) (trans : ∀ a b c, le a b = true → le b c = true → le a c = true)
    (a : α) (l : List α) (h : l.Pairwise (fun x y => le x y = true)) :
    (insertBy le a l).Pairwise (fun x y => le x y = true) := by
  induction l with
  | nil => simp [insertBy]
  | cons b bs ih =>
    unfold insertBy
    rw [List.pairwise_cons] at h
    split
    · rename_i hab
      rw [List.pairwise_cons]
      refine ⟨?_, List.pairwise_cons.mpr h⟩
      intro y hy
      rcases List.mem_cons.mp hy with rfl | hy
      · exact hab
      · exact trans _ _ _ hab (h.1 y hy)
    · rename_i hab
      have hba : le b a = true := by
        have := total a b
        simp only [Bool.or_eq_true] at this
        rcases this with h1 | h1
        · exact absurd h1 hab
        · exact h1
      rw [List.pairwise_cons]
      refine ⟨?_, ih h.2⟩
      intro y hy
      rcases List.mem_cons.mp ((insertBy_perm le a bs).mem_iff.mp hy) with rfl | hy
      · exact hba
      · exact h.1 y hy

theorem sortBy_pairwise {le : α → α → Bool}
    (total : ∀ a b, (le a b || le b a) = true) (trans : ∀ a b c, le a b = true → le b c = true → le a c = true)
    (l : List α) : (sortBy le l).Pairwise (fun x y => le x y = true) := by
  induction l with
  | nil => simp [sortBy]
  | cons a t ih =>
    have : sortBy le (a :: t) = insertBy le a (sortBy le t) := rfl
    rw [this]
    exact insertBy_pairwise total trans a _ ih

/-- two listings of the same items sort to the same list, provided `le` is antisymmetric on the items -/
theorem sortBy_eq_of_perm {le : α → α → Bool}
    (total : ∀ a b, (le a b || le b a) = true) (trans : ∀ a b c, le a b = true → le b c = true → le a c = true)
    {l₁ l₂ : List α} (hp : l₁.Perm l₂)
    (anti : ∀ a b, a ∈ l₁ → b ∈ l₁ → le a b = true → le b a = true → a = b) :
    sortBy le l₁ = sortBy le l₂ := by
  apply List.Perm.eq_of_pairwise (le := fun x y => le x y = true)
  · intro a b ha hb hab hba
    exact anti a b (mem_sortBy.mp ha) (hp.mem_iff.mpr (mem_sortBy.mp hb)) hab hba
  · exact sortBy_pairwise total trans l₁
  · exact sortBy_pairwise total trans l₂
  · exact (sortBy_perm le l₁).trans (hp.trans (sortBy_perm le l₂).symm)

theorem insertBy_map {β : Type} (le : α → α → Bool) (le' : β → β → Bool) (f : α → β)
    (h : ∀ a b, le' (f a) (f b) = le a b) (a : α) (l : List α) :
    insertBy le' (f a) (l.map f) = (insertBy le a l).map f := by
  induction l with
  | nil => simp [insertBy]
  | cons b bs ih =>
    simp only [List.map_cons, insertBy, h]
    split
    · simp
    · simp [ih]

/-- sorting commutes with a map that preserves the order -/
theorem sortBy_map {β : Type} (le : α → α → Bool) (le' : β → β → Bool) (f : α → β)
    (h : ∀ a b, le' (f a) (f b) = le a b) (l : List α) :
    sortBy le' (l.map f) = (sortBy le l).map f := by
  induction l with
  | nil => simp [sortBy]
  | cons a t ih =>
    have e1 : sortBy le' ((a :: t).map f) = insertBy le' (f a) (sortBy le' (t.map f)) := rfl
    have e2 : sortBy le (a :: t) = insertBy le a (sortBy le t) := rfl
    rw [e1, e2, ih, insertBy_map le le' f h]

/-- a sorted list is left unchanged -/
theorem sortBy_of_pairwise {le : α → α → Bool} (l : List α) (h : l.Pairwise (fun x y => le x y = true)) :
    sortBy le l = l := by
  induction l with
  | nil => simp [sortBy]
  | cons a t ih =>
    rw [List.pairwise_cons] at h
    have e2 : sortBy le (a :: t) = insertBy le a (sortBy le t) := rfl
    rw [e2, ih h.2]
    cases t with
    | nil => simp [insertBy]
    | cons b bs => simp [insertBy, h.1 b (List.mem_cons_self ..)]

end sort

theorem eq_of_nodup_map {α β : Type} (f : α → β) {l : List α} (hnd : (l.map f).Nodup) {a b : α}
    (ha : a ∈ l) (hb : b ∈ l) (h : f a = f b) : a = b := by
  induction l with
  | nil => cases ha
  | cons x xs ih =>
    simp only [List.map_cons, List.nodup_cons, List.mem_map, not_exists, not_and] at hnd
    rcases List.mem_cons.mp ha with rfl | ha' <;> rcases List.mem_cons.mp hb with rfl | hb'
    · rfl
    · exact absurd h.symm (hnd.1 b hb')
    · exact absurd h (hnd.1 a ha')
    · exact ih hnd.2 ha' hb'

/-- sorting by a key, items with pairwise different keys: same items ⇒ same sorted list -/
theorem sortBy_key_eq_of_perm {α κ : Type} [KeyOrd κ] (key : α → κ) {l₁ l₂ : List α} (hp : l₁.Perm l₂)
    (hnd : (l₁.map key).Nodup) :
    sortBy (fun a b => KeyOrd.le (key a) (key b)) l₁ = sortBy (fun a b => KeyOrd.le (key a) (key b)) l₂ := by
  apply sortBy_eq_of_perm (fun a b => KeyOrd.total (key a) (key b))
    (fun a b c => KeyOrd.trans (key a) (key b) (key c)) hp
  intro a b ha hb hab hba
  have hk : key a = key b := KeyOrd.antisymm _ _ hab hba
  exact eq_of_nodup_map key hnd ha hb hk

theorem sortNat_perm (l : List Nat) : (sortNat l).Perm l := sortBy_perm _ l

theorem sortNat_eq_of_perm {l₁ l₂ : List Nat} (hp : l₁.Perm l₂) : sortNat l₁ = sortNat l₂ :=
  sortBy_eq_of_perm (fun a b => KeyOrd.total a b) (fun a b c => KeyOrd.trans a b c) hp
    (fun a b _ _ hab hba => KeyOrd.antisymm a b hab hba)

theorem sortNat_idem (l : List Nat) : sortNat (sortNat l) = sortNat l :=
  sortBy_of_pairwise _ (sortBy_pairwise (fun a b => KeyOrd.total a b) (fun a b c => KeyOrd.trans a b c) l)

/-! ## `ser` -/

theorem serList_eq (l : List JTree) : serList l = l.map ser := by
  induction l with
  | nil => simp [serList]
  | cons a t ih => simp [serList, ih]

theorem serFields_eq (l : List (String × JTree)) : serFields l = l.map (fun p => (p.1, ser p.2)) := by
  induction l with
  | nil => simp [serFields]
  | cons a t ih => obtain ⟨k, v⟩ := a; simp [serFields, ih]

theorem ser_natTree (n : Nat) : ser (natTree n) = natTree n := by simp [natTree, ser]

theorem ser_natsTree (l : List Nat) : ser (natsTree l) = natsTree l := by
  have h : ∀ l : List Nat, (l.map natTree).map ser = l.map natTree := by
    intro l
    induction l with
    | nil => rfl
    | cons a t ih => simp only [List.map_cons, ser_natTree, ih]
  simp only [natsTree, ser, serList_eq, h]

theorem natTree_inj {a b : Nat} (h : natTree a = natTree b) : a = b := by
  simp only [natTree, JTree.num.injEq, Num.int.injEq] at h
  omega

theorem natsTree_inj {a b : List Nat} (h : natsTree a = natsTree b) : a = b := by
  simp only [natsTree, JTree.arr.injEq] at h
  induction a generalizing b with
  | nil => cases b with
    | nil => rfl
    | cons y ys => simp at h
  | cons x xs ih => cases b with
    | nil => simp at h
    | cons y ys =>
      simp only [List.map_cons, List.cons.injEq] at h
      rw [natTree_inj h.1, ih h.2]

theorem ser_topTree (tag : String) (w : Bool) (hm : JTree) (es ns : List JTree) :
    ser (topTree tag w hm es ns) =
      .obj [("edges", .arr (es.map ser)), ("hypergraph_metadata", ser hm), ("nodes", .arr (ns.map ser)),
            ("type", .str tag), ("weighted", .bool w)] := by
  simp [ser, serFields, serList_eq, topTree, sortBy, insertBy, fieldLe, KeyOrd.le]

/-! ## laws of the key kinds -/

class LawfulKind (κ : Type) [Kind κ] : Prop where
  canonK_idem : ∀ k : κ, Kind.canonK (Kind.canonK k) = Kind.canonK k
  keyTree_inj : ∀ a b : κ, Kind.keyTree a = Kind.keyTree b → a = b
  ser_keyTree : ∀ k : κ, ser (Kind.keyTree k) = Kind.keyTree k

instance : LawfulKind KH where
  canonK_idem k := sortNat_idem k
  keyTree_inj _ _ h := natsTree_inj h
  ser_keyTree k := ser_natsTree k

instance : LawfulKind KD where
  canonK_idem k := by simp [Kind.canonK, sortNat_idem]
  keyTree_inj a b h := by
    simp only [Kind.keyTree, JTree.arr.injEq, List.cons.injEq, and_true] at h
    exact Prod.ext (natsTree_inj h.1) (natsTree_inj h.2)
  ser_keyTree k := by simp [Kind.keyTree, ser, serList, ser_natsTree]

instance : LawfulKind KT where
  canonK_idem k := by simp [Kind.canonK, sortNat_idem]
  keyTree_inj a b h := by
    simp only [Kind.keyTree, JTree.arr.injEq, List.cons.injEq, and_true] at h
    exact Prod.ext (natTree_inj h.1) (natsTree_inj h.2)
  ser_keyTree k := by simp [Kind.keyTree, ser, serList, ser_natsTree, ser_natTree]

instance : LawfulKind KM where
  canonK_idem k := by simp [Kind.canonK, sortNat_idem]
  keyTree_inj a b h := by
    simp only [Kind.keyTree, JTree.arr.injEq, List.cons.injEq, and_true] at h
    exact Prod.ext (natsTree_inj h.1) (natTree_inj h.2)
  ser_keyTree k := by simp [Kind.keyTree, ser, serList, ser_natsTree, ser_natTree]

/-- listing the nodes of a hyperedge in another order gives the same key (`tuple(sorted(edge))`) -/
theorem canonK_perm_H {a b : KH} (h : a.Perm b) : Kind.canonK a = Kind.canonK b := sortNat_eq_of_perm h
theorem canonK_perm_D {a b : KD} (h1 : a.1.Perm b.1) (h2 : a.2.Perm b.2) : Kind.canonK a = Kind.canonK b := by
  simp [Kind.canonK, sortNat_eq_of_perm h1, sortNat_eq_of_perm h2]
theorem canonK_perm_T {a b : KT} (h1 : a.1 = b.1) (h2 : a.2.Perm b.2) : Kind.canonK a = Kind.canonK b := by
  simp [Kind.canonK, h1, sortNat_eq_of_perm h2]
theorem canonK_perm_M {a b : KM} (h1 : a.1.Perm b.1) (h2 : a.2 = b.2) : Kind.canonK a = Kind.canonK b := by
  simp [Kind.canonK, h2, sortNat_eq_of_perm h1]

end C07
