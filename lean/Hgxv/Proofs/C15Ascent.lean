import Hgxv.Proofs.C15Update
import Hgxv.Proofs.C15MM
/-! # C15 — one `_w_update` is an MM step: the penalised log-likelihood does not decrease -/
open Finset
namespace C15

/-- the support of `w` inside the `K × K` index range -/
def supp (K : ℕ) (w : Mat) : Finset (ℕ × ℕ) := (range K ×ˢ range K).filter (fun k => 0 < w k.1 k.2)

/-- a double index sum against a matrix that vanishes off the support of `w` is a sum over the support -/
theorem sum_supp (K : ℕ) (w v g : Mat) (hv : ∀ a b, ¬ 0 < w a b → v a b = 0) :
    ∑ a ∈ range K, ∑ b ∈ range K, g a b * v a b = ∑ k ∈ supp K w, g k.1 k.2 * v k.1 k.2 := by
  unfold supp
  rw [← Finset.sum_product' (range K) (range K) (fun a b => g a b * v a b), Finset.sum_filter]
  apply Finset.sum_congr rfl
  intro k _
  split
  · rfl
  · rename_i h; rw [hv _ _ h]; ring

theorem poisson_supp (N K : ℕ) (u w v : Mat) (hv : ∀ a b, ¬ 0 < w a b → v a b = 0) (e : List ℕ) :
    poisson N K u v e = ∑ k ∈ supp K w, chat u (nodesOf N e) k.1 k.2 * v k.1 k.2 := by
  rw [poisson_lin, sum_supp K w v _ hv]

theorem self_supp (w : Mat) (hw : ∀ a b, 0 ≤ w a b) : ∀ a b, ¬ 0 < w a b → w a b = 0 :=
  fun a b h => le_antisymm (not_lt.mp h) (hw a b)

theorem upd_supp (d : Data) (u w r : Mat) (hw : ∀ a b, 0 ≤ w a b) :
    ∀ a b, ¬ 0 < w a b → wUpdate d u w r a b = 0 :=
  fun a b h => wUpdate_zero d u w r a b (self_supp w hw a b h)

/-- a hyperedge with positive Poisson parameter has a positive coefficient on the support -/
theorem exists_coeff (N K : ℕ) (u w : Mat) (hu : ∀ i a, 0 ≤ u i a) (hw : ∀ a b, 0 ≤ w a b) (e : List ℕ)
    (h : 0 < poisson N K u w e) : ∃ k ∈ supp K w, 0 < chat u (nodesOf N e) k.1 k.2 := by
  rw [poisson_supp N K u w w (self_supp w hw)] at h
  apply Decidable.byContradiction
  intro hne
  have : ∑ k ∈ supp K w, chat u (nodesOf N e) k.1 k.2 * w k.1 k.2 ≤ 0 := by
    apply Finset.sum_nonpos
    intro k hk
    have h0 : chat u (nodesOf N e) k.1 k.2 = 0 :=
      le_antisymm (not_lt.mp fun hp => hne ⟨k, hk, hp⟩) (chat_nonneg u hu _ _ _)
    rw [h0]; simp
  linarith

/-- a pair of communities that occurs in the Poisson parameter of a hyperedge has a positive denominator in
`_w_update` (the hyperedge's node pairs are among all node pairs) -/
theorem den_pos_of_coeff (d : Data) (u r : Mat) (hu : ∀ i a, 0 ≤ u i a) (hr : ∀ a b, 0 ≤ r a b) (e a b : ℕ)
    (h : 0 < chat u (nodesOf d.N (d.edge e)) a b) : 0 < chat u (range d.N) a b + r a b := by
  have := chat_mono u hu _ _ (nodesOf_subset d.N (d.edge e)) a b
  have := hr a b
  linarith

/-- the community pairs that take part in the w-step: `w_ab > 0` (zeros stay zeros) and a positive denominator
`b_ab + r_ab`.  The other pairs of the support occur in no Poisson parameter and carry no penalty
(`wNum_zero_of_den`): the objective does not depend on them, the repaired update sets them to 0. -/
def suppD (d : Data) (u w r : Mat) : Finset (ℕ × ℕ) :=
  (supp d.K w).filter (fun k => 0 < chat u (range d.N) k.1 k.2 + r k.1 k.2)

theorem sum_suppD (d : Data) (u w r : Mat) (f : ℕ × ℕ → ℝ)
    (hf : ∀ k ∈ supp d.K w, ¬ 0 < chat u (range d.N) k.1 k.2 + r k.1 k.2 → f k = 0) :
    ∑ k ∈ supp d.K w, f k = ∑ k ∈ suppD d u w r, f k := by
  unfold suppD
  rw [Finset.sum_filter]
  apply Finset.sum_congr rfl
  intro k hk
  split
  · rfl
  · rename_i h; exact hf k hk h

theorem coeff_zero_of_den (d : Data) (u r : Mat) (hu : ∀ i a, 0 ≤ u i a) (hr : ∀ a b, 0 ≤ r a b) (a b : ℕ)
    (h : ¬ 0 < chat u (range d.N) a b + r a b) :
    (∀ e, chat u (nodesOf d.N (d.edge e)) a b = 0) ∧ chat u (range d.N) a b + r a b = 0 := by
  constructor
  · intro e
    apply le_antisymm _ (chat_nonneg u hu _ a b)
    apply not_lt.mp
    intro hp
    exact h (den_pos_of_coeff d u r hu hr e a b hp)
  · exact le_antisymm (not_lt.mp h) (add_nonneg (chat_nonneg u hu _ _ _) (hr a b))

/-- the invariants of the iteration survive one update -/
theorem poisson_pos_after (d : Data) (u w r : Mat) (hu : ∀ i a, 0 ≤ u i a) (hw : ∀ a b, 0 ≤ w a b)
    (hA : ∀ e < d.E, 0 < d.A e) (hr : ∀ a b, 0 ≤ r a b)
    (hlam : ∀ e < d.E, 0 < poisson d.N d.K u w (d.edge e)) :
    ∀ e < d.E, 0 < poisson d.N d.K u (wUpdate d u w r) (d.edge e) := by
  intro e he
  obtain ⟨k, hk, hck⟩ := exists_coeff d.N d.K u w hu hw (d.edge e) (hlam e he)
  have hk' := hk
  unfold supp at hk'
  rw [mem_filter, mem_product, mem_range, mem_range] at hk'
  obtain ⟨_, hwk⟩ := hk'
  have hw' : ∀ a b, 0 ≤ wUpdate d u w r a b :=
    wUpdate_nonneg d u w r hu hw (fun e he => (hA e he).le)
  have hpos : 0 < wUpdate d u w r k.1 k.2 := by
    rw [wUpdate_eq d u w r hu hr]
    apply div_pos
    · apply mul_pos hwk
      apply Finset.sum_pos'
      · intro e' he'
        exact div_nonneg (mul_nonneg (hA e' (mem_range.mp he')).le (chat_nonneg u hu _ _ _)) (poisson_nonneg _ _ u w hu hw _)
      · exact ⟨e, mem_range.mpr he, div_pos (mul_pos (hA e he) hck) (hlam e he)⟩
    · exact den_pos_of_coeff d u r hu hr e k.1 k.2 hck
  rw [poisson_supp d.N d.K u w _ (upd_supp d u w r hw)]
  apply Finset.sum_pos'
  · intro k' _; exact mul_nonneg (chat_nonneg u hu _ _ _) (hw' _ _)
  · exact ⟨k, hk, mul_pos hck hpos⟩

/-- objective of the w-step, as a real number:
`Σ_e A_e log λ_e(w) − Σ_{i<j} u_iᵀ w u_j − Σ_{ab} r_ab w_ab`  (`r = 0`: the log-likelihood up to constants) -/
noncomputable def penLik (d : Data) (u r w : Mat) : ℝ :=
  ∑ e ∈ range d.E, ((d.A e : ℚ) : ℝ) * Real.log ((poisson d.N d.K u w (d.edge e) : ℚ) : ℝ)
    - (((bfSum d.N d.K u w + ∑ a ∈ range d.K, ∑ b ∈ range d.K, r a b * w a b : ℚ)) : ℝ)

/-- `penLik` of a matrix that vanishes off the support of `w`, in the shape `MM_ascent` wants -/
theorem penLik_supp (d : Data) (u r w v : Mat) (hv : ∀ a b, ¬ 0 < w a b → v a b = 0) :
    penLik d u r v
      = ∑ e ∈ range d.E, ((d.A e : ℚ) : ℝ) *
            Real.log (∑ k ∈ supp d.K w, ((chat u (nodesOf d.N (d.edge e)) k.1 k.2 : ℚ) : ℝ) * ((v k.1 k.2 : ℚ) : ℝ))
        - ∑ k ∈ supp d.K w, ((chat u (range d.N) k.1 k.2 + r k.1 k.2 : ℚ) : ℝ) * ((v k.1 k.2 : ℚ) : ℝ) := by
  unfold penLik
  congr 1
  · apply Finset.sum_congr rfl; intro e _
    rw [poisson_supp d.N d.K u w v hv]
    push_cast; rfl
  · rw [bfSum_lin, ← Finset.sum_add_distrib]
    have : ∀ a ∈ range d.K, (∑ b ∈ range d.K, chat u (range d.N) a b * v a b) + ∑ b ∈ range d.K, r a b * v a b
        = ∑ b ∈ range d.K, (chat u (range d.N) a b + r a b) * v a b := by
      intro a _; rw [← Finset.sum_add_distrib]; apply Finset.sum_congr rfl; intro b _; ring
    rw [Finset.sum_congr rfl this, sum_supp d.K w v (fun a b => chat u (range d.N) a b + r a b) hv]
    push_cast; rfl

/-- `penLik` over the pairs that take part in the w-step -/
theorem penLik_suppD (d : Data) (u r w v : Mat) (hu : ∀ i a, 0 ≤ u i a) (hr : ∀ a b, 0 ≤ r a b)
    (hv : ∀ a b, ¬ 0 < w a b → v a b = 0) :
    penLik d u r v
      = ∑ e ∈ range d.E, ((d.A e : ℚ) : ℝ) *
            Real.log (∑ k ∈ suppD d u w r, ((chat u (nodesOf d.N (d.edge e)) k.1 k.2 : ℚ) : ℝ) * ((v k.1 k.2 : ℚ) : ℝ))
        - ∑ k ∈ suppD d u w r, ((chat u (range d.N) k.1 k.2 + r k.1 k.2 : ℚ) : ℝ) * ((v k.1 k.2 : ℚ) : ℝ) := by
  rw [penLik_supp d u r w v hv]
  congr 1
  · apply Finset.sum_congr rfl; intro e _
    congr 2
    apply sum_suppD
    intro k _ h
    rw [(coeff_zero_of_den d u r hu hr k.1 k.2 h).1 e]; simp
  · apply sum_suppD
    intro k _ h
    rw [(coeff_zero_of_den d u r hu hr k.1 k.2 h).2]; simp

/-- **one `_w_update` does not decrease the penalised log-likelihood** (instance of `MM_ascent`,
`k` ranging over the community pairs in the support of `w` with a positive denominator; the entries with a
vanishing denominator - set to 0 by the update - do not occur in the objective) -/
theorem ascent_step (d : Data) (u w r : Mat) (hu : ∀ i a, 0 ≤ u i a) (hw : ∀ a b, 0 ≤ w a b)
    (hA : ∀ e < d.E, 0 < d.A e) (hr : ∀ a b, 0 ≤ r a b)
    (hlam : ∀ e < d.E, 0 < poisson d.N d.K u w (d.edge e)) :
    penLik d u r w ≤ penLik d u r (wUpdate d u w r) := by
  rw [penLik_suppD d u r w w hu hr (self_supp w hw), penLik_suppD d u r w _ hu hr (upd_supp d u w r hw)]
  have key := MM_ascent (range d.E) (suppD d u w r)
    (fun e => ((d.A e : ℚ) : ℝ))
    (fun e k => ((chat u (nodesOf d.N (d.edge e)) k.1 k.2 : ℚ) : ℝ))
    (fun k => ((chat u (range d.N) k.1 k.2 + r k.1 k.2 : ℚ) : ℝ))
    (fun k => ((w k.1 k.2 : ℚ) : ℝ))
    (fun e he => by exact_mod_cast (hA e (mem_range.mp he)).le)
    (fun e _ k _ => by exact_mod_cast chat_nonneg u hu _ _ _)
    (fun k hk => by
      unfold suppD at hk
      rw [mem_filter] at hk
      exact_mod_cast hk.2)
    (fun k hk => by
      unfold suppD supp at hk
      rw [mem_filter, mem_filter] at hk
      exact_mod_cast hk.1.2)
    (fun e he _ => by
      obtain ⟨k, hk, hck⟩ := exists_coeff d.N d.K u w hu hw (d.edge e) (hlam e (mem_range.mp he))
      refine ⟨k, ?_, by exact_mod_cast hck⟩
      unfold suppD
      rw [mem_filter]
      exact ⟨hk, den_pos_of_coeff d u r hu hr e k.1 k.2 hck⟩)
    (fun y e => ∑ k ∈ suppD d u w r, ((chat u (nodesOf d.N (d.edge e)) k.1 k.2 : ℚ) : ℝ) * y k)
    (fun _ _ => rfl)
    (fun k => ((wUpdate d u w r k.1 k.2 : ℚ) : ℝ))
    (fun k => by
      rw [wUpdate_eq d u w r hu hr]
      push_cast
      congr 2
      apply Finset.sum_congr rfl; intro e _
      rw [poisson_supp d.N d.K u w w (self_supp w hw)]
      push_cast
      rw [sum_suppD d u w r (fun k => ((chat u (nodesOf d.N (d.edge e)) k.1 k.2 : ℚ) : ℝ) * ((w k.1 k.2 : ℚ) : ℝ))
        (fun k _ h => by rw [(coeff_zero_of_den d u r hu hr k.1 k.2 h).1 e]; simp)])
    (fun y => ∑ e ∈ range d.E, ((d.A e : ℚ) : ℝ) *
        Real.log (∑ k ∈ suppD d u w r, ((chat u (nodesOf d.N (d.edge e)) k.1 k.2 : ℚ) : ℝ) * y k)
      - ∑ k ∈ suppD d u w r, ((chat u (range d.N) k.1 k.2 + r k.1 k.2 : ℚ) : ℝ) * y k)
    (fun _ => rfl)
  exact key

end C15
