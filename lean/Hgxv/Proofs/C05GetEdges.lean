import Hgxv.Proofs.C05Spec
import Hgxv.Model.C05GetEdges
/-! helper lemmas for `C05_get_edges_flags` -/
namespace C05

variable {κ : Type} [DecidableEq κ] [Keyed κ]

omit [Keyed κ] in
/-- the listing with metadata over entries that are found under their keys -/
theorem listingMd_of_entries (src : Content κ) (es : List (κ × (W × Meta)))
    (h : ∀ e ∈ es, AL.get? src.edges e.1 = some e.2) :
    listingMd src (es.map (·.1)) = some (es.map (fun e => (e.1, e.2.2))) := by
  induction es with
  | nil => rfl
  | cons e rest ih =>
    have he : AL.get? src.edges e.1 = some e.2 := h e List.mem_cons_self
    have ih' := ih (fun x hx => h x (List.mem_cons_of_mem _ hx))
    unfold listingMd at ih' ⊢
    rw [List.map_cons, List.mapM_cons, ih']
    simp [getEdgeMeta, he]

theorem keysOf_filter (src : Content κ) (p : κ → Bool) :
    (keysOf src).filter p = (src.edges.filter (fun e => p e.1)).map (·.1) := by
  have h := keys_filter src.edges p
  unfold AL.keys at h
  unfold keysOf AL.keys
  exact h.symm

theorem listingMd_filter (src : Content κ) (p : κ → Bool) (hwf : WF src) :
    listingMd src ((keysOf src).filter p) =
      some ((src.edges.filter (fun e => p e.1)).map (fun e => (e.1, e.2.2))) := by
  rw [keysOf_filter]
  apply listingMd_of_entries
  intro e he
  have hm : e ∈ src.edges := (List.mem_filter.1 he).1
  exact C05AL.get?_of_mem_nodup _ _ _ hwf.keys_nodup hm

end C05
