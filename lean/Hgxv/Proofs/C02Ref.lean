import Hgxv.Proofs.C02Ops
/-! C02 helper lemmas, part 6: role listings computed through ids = filters of the key list; metadata of present
nodes is not touched by add_edge; decidable well-formedness checks for the examples. -/
namespace C02
open AL

/-- keys listed through an id list on which the reverse table is injective -/
theorem filterMap_rev_nodup (s : Store) (h : Inv s) (ids : List Nat) (hids : ids.Nodup) :
    (ids.filterMap (get? s.rev)).Nodup := by
  have hinj : ∀ a b k, get? s.rev a = some k → get? s.rev b = some k → a = b := by
    intro a b k ha hb
    have h1 := h.edge_of_rev k a ha
    have h2 := h.edge_of_rev k b hb
    rw [h1] at h2; exact Option.some.inj h2
  induction ids with
  | nil => simp
  | cons a t ih =>
    have hnd := List.nodup_cons.mp hids
    simp only [List.filterMap_cons]
    cases ha : get? s.rev a with
    | none => exact ih hnd.2
    | some k =>
      simp only []
      refine List.nodup_cons.mpr ⟨?_, ih hnd.2⟩
      intro hmem
      obtain ⟨b, hb, hbk⟩ := List.mem_filterMap.mp hmem
      have := hinj a b k ha hbk
      exact hnd.1 (this ▸ hb)

theorem Inv.mem_keys_iff {s : Store} (h : Inv s) (k : Key) : k ∈ keys s.edgeList ↔ ∃ id, get? s.rev id = some k := by
  constructor
  · intro hk
    have := (isSome_get?_iff s.edgeList k).mpr hk
    obtain ⟨id, hid⟩ := Option.isSome_iff_exists.mp this
    exact ⟨id, h.rev_of_edge k id hid⟩
  · rintro ⟨id, hid⟩
    exact (isSome_get?_iff s.edgeList k).mp (by simp [h.edge_of_rev k id hid])

/-- **source role**: the listing through `_adj_source` and `_reverse_edge_list` is, as a multiset, the filter of
    the key list by "`n` is a source and the size filter holds": every such hyperedge exactly once, no other -/
theorem Inv.sourceEdges_perm {s : Store} (h : Inv s) (n : Node) (ids : List Nat) (hn : get? s.adjS n = some ids)
    (t : Option Nat) :
    ((ids.filterMap (get? s.rev)).filter (passes t false)).Perm
      ((keys s.edgeList).filter (fun k => k.1.contains n && passes t false k)) := by
  have hnd1 : ((ids.filterMap (get? s.rev)).filter (passes t false)).Nodup :=
    (filterMap_rev_nodup s h ids (h.adjS_nodup n ids hn)).filter _
  have hnd2 : ((keys s.edgeList).filter (fun k => k.1.contains n && passes t false k)).Nodup := h.nd_edge.filter _
  rw [List.perm_ext_iff_of_nodup hnd1 hnd2]
  intro k
  simp only [List.mem_filter, List.mem_filterMap, Bool.and_eq_true, List.contains_iff_mem, h.mem_keys_iff]
  constructor
  · rintro ⟨⟨id, hid, hrev⟩, hp⟩
    obtain ⟨k', hk', hn'⟩ := (h.adjS_iff n ids hn id).mp hid
    rw [hrev] at hk'; cases hk'
    exact ⟨⟨id, hrev⟩, hn', hp⟩
  · rintro ⟨⟨id, hrev⟩, hn', hp⟩
    exact ⟨⟨id, (h.adjS_iff n ids hn id).mpr ⟨k, hrev, hn'⟩, hrev⟩, hp⟩

/-- **target role** -/
theorem Inv.targetEdges_perm {s : Store} (h : Inv s) (n : Node) (ids : List Nat) (hn : get? s.adjT n = some ids)
    (t : Option Nat) :
    ((ids.filterMap (get? s.rev)).filter (passes t false)).Perm
      ((keys s.edgeList).filter (fun k => k.2.contains n && passes t false k)) := by
  have hnd1 : ((ids.filterMap (get? s.rev)).filter (passes t false)).Nodup :=
    (filterMap_rev_nodup s h ids (h.adjT_nodup n ids hn)).filter _
  have hnd2 : ((keys s.edgeList).filter (fun k => k.2.contains n && passes t false k)).Nodup := h.nd_edge.filter _
  rw [List.perm_ext_iff_of_nodup hnd1 hnd2]
  intro k
  simp only [List.mem_filter, List.mem_filterMap, Bool.and_eq_true, List.contains_iff_mem, h.mem_keys_iff]
  constructor
  · rintro ⟨⟨id, hid, hrev⟩, hp⟩
    obtain ⟨k', hk', hn'⟩ := (h.adjT_iff n ids hn id).mp hid
    rw [hrev] at hk'; cases hk'
    exact ⟨⟨id, hrev⟩, hn', hp⟩
  · rintro ⟨⟨id, hrev⟩, hn', hp⟩
    exact ⟨⟨id, (h.adjT_iff n ids hn id).mpr ⟨k, hrev, hn'⟩, hrev⟩, hp⟩

/-! ### node metadata and add_edge -/

theorem addNode_present (s : Store) (n : Node) (md : Option Meta) (m : Node) (hm : (get? s.adjS m).isSome) :
    (get? (addNode s n md).adjS m).isSome := by
  rw [addNode_adjS]; split
  · simp
  · exact hm

theorem linkSrc_present (s : Store) (id : Nat) (ns : List Node) (m : Node) (hm : (get? s.adjS m).isSome) :
    (get? (linkSrc s id ns).adjS m).isSome := by
  induction ns generalizing s with
  | nil => exact hm
  | cons n ns ih =>
    simp only [linkSrc]
    apply ih
    simp only [pushId_get]
    split
    · simp
    · exact addNode_present s n none m hm

theorem linkTgt_present (s : Store) (id : Nat) (ns : List Node) (m : Node) (hm : (get? s.adjS m).isSome) :
    (get? (linkTgt s id ns).adjS m).isSome := by
  induction ns generalizing s with
  | nil => exact hm
  | cons n ns ih =>
    simp only [linkTgt]
    apply ih
    exact addNode_present s n none m hm

theorem link_node (s1 : Store) (id : Nat) (k : Key) (m : Node) (hm : (get? s1.adjS m).isSome) :
    (get? (linkTgt (linkSrc s1 id k.1) id k.2).adjS m).isSome ∧
    get? (linkTgt (linkSrc s1 id k.1) id k.2).nmeta m = get? s1.nmeta m := by
  refine ⟨linkTgt_present _ _ _ m (linkSrc_present _ _ _ m hm), ?_⟩
  rw [linkTgt_nmeta_present _ _ _ m (linkSrc_present _ _ _ m hm), linkSrc_nmeta_present _ _ _ m hm]

/-- a node that is present stays present with the same metadata when a hyperedge is inserted -/
theorem addEdgeKey_node (s : Store) (k : Key) (w : Option Int) (md : Option Meta) (m : Node)
    (hm : (get? s.adjS m).isSome) :
    (get? (addEdgeKey s k w md).1.adjS m).isSome ∧ get? (addEdgeKey s k w md).1.nmeta m = get? s.nmeta m := by
  unfold addEdgeKey
  split
  · exact ⟨hm, rfl⟩
  · split
    · simp only [addEdgeNew]
      exact link_node _ _ _ m hm
    · exact ⟨hm, rfl⟩

theorem addEdgesLoop_node (s : Store) (es : List RawEdge) (ws : Option (List Int)) (mds : Option (List Meta)) (m : Node)
    (hm : (get? s.adjS m).isSome) :
    (get? (addEdgesLoop s es ws mds).1.adjS m).isSome ∧ get? (addEdgesLoop s es ws mds).1.nmeta m = get? s.nmeta m := by
  induction es generalizing s ws mds with
  | nil => exact ⟨hm, rfl⟩
  | cons e es ih =>
    have h1 : ∀ w md, _ := fun w md => addEdgeKey_node s (canonAdd e) w md m hm
    unfold addEdgesLoop
    split
    · exact ⟨hm, rfl⟩
    · split
      · exact ⟨hm, rfl⟩
      · simp only []
        split
        · exact h1 _ _
        · have h2 := ih (addEdge s e (ws.bind List.head?) (mds.bind List.head?)).1 (ws.map List.tail) (mds.map List.tail)
            (h1 _ _).1
          exact ⟨h2.1, h2.2.trans (h1 _ _).2⟩

/-! ### decidable well-formedness (for concrete examples) -/

def RawEdge.ok (e : RawEdge) : Bool :=
  decide e.src.toList.Nodup && decide e.tgt.toList.Nodup &&
  e.src.toList.all (fun n => !e.tgt.toList.contains n) && !e.src.toList.isEmpty && !e.tgt.toList.isEmpty

theorem RawWF_of_ok (e : RawEdge) (h : e.ok = true) : RawWF e := by
  simp only [RawEdge.ok, Bool.and_eq_true, decide_eq_true_eq, List.all_eq_true, Bool.not_eq_true',
    List.isEmpty_eq_false_iff] at h
  obtain ⟨⟨⟨⟨h1, h2⟩, h3⟩, h4⟩, h5⟩ := h
  refine ⟨h1, h2, ?_, h4, h5⟩
  intro n hn hc
  have := h3 n hn
  simp [List.contains_iff_mem, hc] at this

def Op.ok : Op → Bool
  | .addEdge e _ _ => e.ok
  | .addEdges es _ _ => es.all RawEdge.ok
  | _ => true

theorem Op.WF_of_ok (o : Op) (h : o.ok = true) : o.WF := by
  cases o <;> simp only [Op.ok, Op.WF, List.all_eq_true] at h ⊢
  · exact RawWF_of_ok _ h
  · exact fun e he => RawWF_of_ok _ (h e he)

def Cmd.ok : Cmd → Bool
  | .new _ _ _ _ es _ _ => (es.getD []).all RawEdge.ok
  | .copy _ _ => true
  | .op _ o => o.ok

theorem Cmd.WF_of_ok (c : Cmd) (h : c.ok = true) : c.WF := by
  cases c <;> simp only [Cmd.ok, Cmd.WF, List.all_eq_true] at h ⊢
  · exact fun e he => RawWF_of_ok _ (h e he)
  · exact Op.WF_of_ok _ h

theorem cmds_WF_of_ok (cs : List Cmd) (h : cs.all Cmd.ok = true) : ∀ c ∈ cs, c.WF := by
  intro c hc
  exact Cmd.WF_of_ok c (List.all_eq_true.mp h c hc)

/-! ### what the queries answer about a node that is gone -/

theorem sourceEdges_some (s : Store) (n : Node) (f : Filt) (L : List Key) (h : sourceEdges s n f = some L) :
    ∃ ids t, get? s.adjS n = some ids ∧ f.target = some t := by
  unfold sourceEdges at h
  cases ha : get? s.adjS n with
  | none => rw [ha] at h; cases h
  | some ids =>
    cases ht : f.target with
    | none => rw [ha, ht] at h; cases h
    | some t => exact ⟨ids, t, rfl, rfl⟩

theorem targetEdges_some (s : Store) (n : Node) (f : Filt) (L : List Key) (h : targetEdges s n f = some L) :
    ∃ ids t, get? s.adjT n = some ids ∧ f.target = some t := by
  unfold targetEdges at h
  cases ha : get? s.adjT n with
  | none => rw [ha] at h; cases h
  | some ids =>
    cases ht : f.target with
    | none => rw [ha, ht] at h; cases h
    | some t => exact ⟨ids, t, rfl, rfl⟩

/-- every hyperedge listed for a role is a key of the reverse table -/
theorem Inv.sourceEdges_mem {s : Store} (h : Inv s) (m : Node) (f : Filt) (L : List Key)
    (hL : sourceEdges s m f = some L) (k : Key) (hk : k ∈ L) : (∃ id, get? s.rev id = some k) ∧ m ∈ k.1 := by
  obtain ⟨ids, t, ha, ht⟩ := sourceEdges_some s m f L hL
  rw [h.sourceEdges_eq m ids ha f t ht] at hL
  injection hL with hL; subst hL
  obtain ⟨h1, _⟩ := List.mem_filter.mp hk
  obtain ⟨id, hid, hrev⟩ := List.mem_filterMap.mp h1
  obtain ⟨k', hk', hn⟩ := (h.adjS_iff m ids ha id).mp hid
  rw [hrev] at hk'; cases hk'
  exact ⟨⟨id, hrev⟩, hn⟩

theorem Inv.targetEdges_mem {s : Store} (h : Inv s) (m : Node) (f : Filt) (L : List Key)
    (hL : targetEdges s m f = some L) (k : Key) (hk : k ∈ L) : (∃ id, get? s.rev id = some k) ∧ m ∈ k.2 := by
  obtain ⟨ids, t, ha, ht⟩ := targetEdges_some s m f L hL
  rw [h.targetEdges_eq m ids ha f t ht] at hL
  injection hL with hL; subst hL
  obtain ⟨h1, _⟩ := List.mem_filter.mp hk
  obtain ⟨id, hid, hrev⟩ := List.mem_filterMap.mp h1
  obtain ⟨k', hk', hn⟩ := (h.adjT_iff m ids ha id).mp hid
  rw [hrev] at hk'; cases hk'
  exact ⟨⟨id, hrev⟩, hn⟩

theorem incident_some (s : Store) (m : Node) (f : Filt) (L : List Key) (h : incident s m f = some L) :
    ∃ a b, sourceEdges s m f = some a ∧ targetEdges s m f = some b ∧ L = a ++ b := by
  unfold incident at h
  cases ha : sourceEdges s m f with
  | none => rw [ha] at h; cases h
  | some a =>
    cases hb : targetEdges s m f with
    | none => rw [ha, hb] at h; cases h
    | some b => rw [ha, hb] at h; injection h with h; exact ⟨a, b, rfl, rfl, h.symm⟩

/-- the listings of a store in which node `n` is gone -/
theorem gone_queries {s : Store} (h : Inv s) (n : Node) (g : Gone s n) :
    n ∉ nodes s ∧ checkNode s n = false ∧ nodeMeta s n = none ∧
    (∀ k ∈ keys s.edgeList, n ∉ k.1 ∧ n ∉ k.2) ∧
    (∀ f up L, edges s f up = some L → ∀ k ∈ L, n ∉ k.1 ∧ n ∉ k.2) ∧
    (∀ S ∈ sources s, n ∉ S) ∧ (∀ T ∈ targets s, n ∉ T) ∧
    (∀ m f L, sourceEdges s m f = some L → ∀ k ∈ L, n ∉ k.1 ∧ n ∉ k.2) ∧
    (∀ m f L, targetEdges s m f = some L → ∀ k ∈ L, n ∉ k.1 ∧ n ∉ k.2) ∧
    (∀ m f L, incident s m f = some L → ∀ k ∈ L, n ∉ k.1 ∧ n ∉ k.2) ∧
    (∀ m f L, neighbors s m f = some L → n ∉ L) ∧
    (∀ f, sourceEdges s n f = none ∧ targetEdges s n f = none ∧ incident s n f = none ∧ neighbors s n f = none) := by
  have hkeys : ∀ k ∈ keys s.edgeList, n ∉ k.1 ∧ n ∉ k.2 := by
    intro k hk
    obtain ⟨id, hid⟩ := (h.mem_keys_iff k).mp hk
    exact g.keys id k hid
  have hsrc : ∀ m f L, sourceEdges s m f = some L → ∀ k ∈ L, n ∉ k.1 ∧ n ∉ k.2 := by
    intro m f L hL k hk
    obtain ⟨⟨id, hid⟩, _⟩ := h.sourceEdges_mem m f L hL k hk
    exact g.keys id k hid
  have htgt : ∀ m f L, targetEdges s m f = some L → ∀ k ∈ L, n ∉ k.1 ∧ n ∉ k.2 := by
    intro m f L hL k hk
    obtain ⟨⟨id, hid⟩, _⟩ := h.targetEdges_mem m f L hL k hk
    exact g.keys id k hid
  have hinc : ∀ m f L, incident s m f = some L → ∀ k ∈ L, n ∉ k.1 ∧ n ∉ k.2 := by
    intro m f L hL k hk
    obtain ⟨a, b, ha, hb, hab⟩ := incident_some s m f L hL
    rw [hab, List.mem_append] at hk
    rcases hk with hk | hk
    · exact hsrc m f a ha k hk
    · exact htgt m f b hb k hk
  have hS : ∀ f, sourceEdges s n f = none := by
    intro f; unfold sourceEdges; rw [g.adjS]
  have hT : ∀ f, targetEdges s n f = none := by
    intro f; unfold targetEdges; rw [g.adjT]
  refine ⟨?_, ?_, ?_, hkeys, ?_, ?_, ?_, hsrc, htgt, hinc, ?_, ?_⟩
  · exact (get?_eq_none_iff s.adjS n).mp g.adjS
  · simp [checkNode, has, g.adjS]
  · simp [nodeMeta, has, g.adjS]
  · intro f up L hL k hk
    unfold edges at hL
    cases ht : f.target with
    | none => rw [ht] at hL; cases hL
    | some t =>
      rw [ht] at hL; simp only [Option.map_some] at hL
      injection hL with hL; subst hL
      exact hkeys k (List.mem_filter.mp hk).1
  · intro S hS'
    obtain ⟨k, hk, hkS⟩ := List.mem_map.mp hS'
    subst hkS; exact (hkeys k hk).1
  · intro T hT'
    obtain ⟨k, hk, hkT⟩ := List.mem_map.mp hT'
    subst hkT; exact (hkeys k hk).2
  · intro m f L hL hn
    unfold neighbors at hL
    split at hL
    · cases hL
    · cases hi : incident s m f with
      | none => rw [hi] at hL; cases hL
      | some ks =>
        rw [hi] at hL; simp only [Option.map_some] at hL
        injection hL with hL; subst hL
        rw [mem_nodeSet, List.mem_filter, List.mem_flatMap] at hn
        obtain ⟨⟨k, hk, hnk⟩, _⟩ := hn
        have := hinc m f ks hi k hk
        rcases List.mem_append.mp hnk with h1 | h1
        · exact this.1 h1
        · exact this.2 h1
  · intro f
    refine ⟨hS f, hT f, ?_, ?_⟩
    · unfold incident; rw [hS f]
    · unfold neighbors; simp [has, g.adjS]

theorem addEdgeKey_has_other (s : Store) (k : Key) (w : Option Int) (md : Option Meta) (k' : Key) (hne : k' ≠ k) :
    has (addEdgeKey s k w md).1.edgeList k' = has s.edgeList k' := by
  unfold addEdgeKey
  split
  · rfl
  · split
    · simp only [has]
      rw [(addEdgeNew_fields s k _ _).1, get?_set_ne _ _ _ _ (Ne.symm hne)]
    · rfl

end C02
