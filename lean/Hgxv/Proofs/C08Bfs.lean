import Hgxv.Proofs.C08
/-! # C08 - BFS = reachability, the component loop yields the partition into reachability classes (core Lean) -/
namespace C08

/-! ## generic BFS over a neighbour function -/

/-- reachability in the graph given by `nbrs` -/
inductive NReach (nbrs : Nat → List Nat) : Nat → Nat → Prop
  | refl (a : Nat) : NReach nbrs a a
  | step {a b c : Nat} : NReach nbrs a b → c ∈ nbrs b → NReach nbrs a c

section BfsGeneric
variable (univ : List Nat) (nbrs : Nat → List Nat) (h : ∀ x, x ∉ univ → nbrs x = [])

/-- soundness: everything BFS returns is reachable from the source -/
theorem bfs_sound (s : Nat) :
    ∀ (queue visited : List Nat), (∀ x ∈ queue, NReach nbrs s x) → (∀ x ∈ visited, NReach nbrs s x) →
      ∀ y ∈ bfs univ nbrs h queue visited, NReach nbrs s y := by
  intro queue visited
  induction queue, visited using bfs.induct univ nbrs h with
  | case1 visited => intro _ hv y hy; rw [bfs] at hy; exact hv y hy
  | case2 x q visited hx ih =>
    intro hq hv y hy; rw [bfs] at hy; simp only [hx, if_true] at hy
    exact ih (fun z hz => hq z (List.mem_cons_of_mem _ hz)) hv y hy
  | case3 x q visited hx ih =>
    intro hq hv y hy; rw [bfs] at hy; simp only [hx, if_false] at hy
    apply ih _ _ y hy
    · intro z hz
      rcases List.mem_append.mp hz with h1 | h1
      · exact hq z (List.mem_cons_of_mem _ h1)
      · exact NReach.step (hq x List.mem_cons_self) (List.mem_filter.mp h1).1
    · intro z hz
      cases hz with
      | head => exact hq x List.mem_cons_self
      | tail _ h1 => exact hv z h1

/-- completeness: the result contains `visited` and the queue and is closed under `nbrs` -/
theorem bfs_closed :
    ∀ (queue visited : List Nat),
      (∀ v ∈ visited, ∀ c ∈ nbrs v, c ∈ visited ∨ c ∈ queue) →
      (∀ v ∈ visited, v ∈ bfs univ nbrs h queue visited) ∧ (∀ x ∈ queue, x ∈ bfs univ nbrs h queue visited) ∧
      (∀ v ∈ bfs univ nbrs h queue visited, ∀ c ∈ nbrs v, c ∈ bfs univ nbrs h queue visited) := by
  intro queue visited
  induction queue, visited using bfs.induct univ nbrs h with
  | case1 visited =>
    intro hinv; rw [bfs]
    refine ⟨fun v hv => hv, fun x hx => ?_, fun v hv c hc => ?_⟩
    · cases hx
    · rcases hinv v hv c hc with h1 | h1
      · exact h1
      · cases h1
  | case2 x q visited hx ih =>
    intro hinv; rw [bfs]; simp only [hx, if_true]
    have := ih (by
      intro v hv c hc
      rcases hinv v hv c hc with h1 | h1
      · exact Or.inl h1
      · cases h1 with
        | head => exact Or.inl hx
        | tail _ h1 => exact Or.inr h1)
    refine ⟨this.1, ?_, this.2.2⟩
    intro z hz
    cases hz with
    | head => exact this.1 x hx
    | tail _ h1 => exact this.2.1 z h1
  | case3 x q visited hx ih =>
    intro hinv; rw [bfs]; simp only [hx, if_false]
    have := ih (by
      intro v hv c hc
      cases hv with
      | head =>
        by_cases hcv : c ∈ x :: visited
        · exact Or.inl hcv
        · exact Or.inr (List.mem_append.mpr (Or.inr (List.mem_filter.mpr ⟨hc, by simpa using hcv⟩)))
      | tail _ hv' =>
        rcases hinv v hv' c hc with h1 | h1
        · exact Or.inl (List.mem_cons_of_mem _ h1)
        · cases h1 with
          | head => exact Or.inl List.mem_cons_self
          | tail _ h1 => exact Or.inr (List.mem_append.mpr (Or.inl h1)))
    refine ⟨fun v hv => this.1 v (List.mem_cons_of_mem _ hv), ?_, this.2.2⟩
    intro z hz
    cases hz with
    | head => exact this.1 x List.mem_cons_self
    | tail _ h1 => exact this.2.1 z (List.mem_append.mpr (Or.inl h1))

/-- the visited listing never repeats a node (it models a Python `set`) -/
theorem bfs_nodup : ∀ (queue visited : List Nat), visited.Nodup → (bfs univ nbrs h queue visited).Nodup := by
  intro queue visited
  induction queue, visited using bfs.induct univ nbrs h with
  | case1 visited => intro hv; rw [bfs]; exact hv
  | case2 x q visited hx ih => intro hv; rw [bfs]; simp only [hx, if_true]; exact ih hv
  | case3 x q visited hx ih =>
    intro hv; rw [bfs]; simp only [hx, if_false]
    exact ih (List.nodup_cons.mpr ⟨hx, hv⟩)

theorem bfs_correct (s y : Nat) : y ∈ bfs univ nbrs h [s] [] ↔ NReach nbrs s y := by
  constructor
  · intro hy
    exact bfs_sound univ nbrs h s [s] []
      (by intro x hx; simp at hx; subst hx; exact NReach.refl _) (by simp) y hy
  · intro hr
    have hc := bfs_closed univ nbrs h [s] [] (by simp)
    induction hr with
    | refl => exact hc.2.1 s List.mem_cons_self
    | step _ hcb ih => exact hc.2.2 _ ih _ hcb

end BfsGeneric

/-! ## reachability through filtered hyperedges -/

theorem Adj.symm {es : List Edge} {f : Filt} {u v : Nat} (h : Adj es f u v) : Adj es f v u := by
  obtain ⟨e, he, hp, hu, hv⟩ := h
  exact ⟨e, he, hp, hv, hu⟩

theorem Reach.trans {es : List Edge} {f : Filt} {u v w : Nat} (h1 : Reach es f u v) (h2 : Reach es f v w) :
    Reach es f u w := by
  induction h2 with
  | refl => exact h1
  | step _ ha ih => exact Reach.step ih ha

theorem Reach.single {es : List Edge} {f : Filt} {u v : Nat} (h : Adj es f u v) : Reach es f u v :=
  Reach.step (Reach.refl u) h

theorem Reach.symm {es : List Edge} {f : Filt} {u v : Nat} (h : Reach es f u v) : Reach es f v u := by
  induction h with
  | refl => exact Reach.refl _
  | step _ ha ih => exact Reach.trans (Reach.single ha.symm) ih

theorem Reach.mem_nodes {nodes : List Nat} {es : List Edge} {f : Filt} (hwf : WF nodes es) {u v : Nat}
    (h : Reach es f u v) (hu : u ∈ nodes) : v ∈ nodes := by
  induction h with
  | refl => exact hu
  | step _ ha _ =>
    obtain ⟨e, he, _, _, hw⟩ := ha
    exact hwf e he _ hw

theorem nreach_iff_reach (es : List Edge) (f : Filt) (s y : Nat) :
    NReach (neighbors es f) s y ↔ Reach es f s y := by
  constructor
  · intro h
    induction h with
    | refl => exact Reach.refl _
    | step _ hc ih =>
      obtain ⟨_, e, he, hp, hb, hcm⟩ := (mem_neighbors es f _ _).mp hc
      exact Reach.step ih ⟨e, he, hp, hb, hcm⟩
  · intro h
    induction h with
    | refl => exact NReach.refl _
    | @step v w _ ha ih =>
      by_cases hvw : w = v
      · rw [hvw]; exact ih
      · obtain ⟨e, he, hp, hv, hw⟩ := ha
        exact NReach.step ih ((mem_neighbors es f v w).mpr ⟨hvw, e, he, hp, hv, hw⟩)

/-- BFS visits exactly the nodes reachable through filtered hyperedges -/
theorem mem_bfsH (es : List Edge) (f : Filt) (s y : Nat) : y ∈ bfsH es f s ↔ Reach es f s y := by
  unfold bfsH
  rw [bfs_correct, nreach_iff_reach]

theorem bfsH_nodup (es : List Edge) (f : Filt) (s : Nat) : (bfsH es f s).Nodup := by
  unfold bfsH
  exact bfs_nodup _ _ _ _ _ List.nodup_nil

/-! ## the component loop -/

section Loop
variable (cls : Nat → List Nat)

theorem compLoop_spec (hrefl : ∀ n, n ∈ cls n) (hcls : ∀ n y, y ∈ cls n → ∀ z, z ∈ cls y ↔ z ∈ cls n) :
    ∀ (todo visited : List Nat) (comps : List (List Nat)),
    (∀ x, x ∈ visited ↔ ∃ c ∈ comps, x ∈ c) →
    (∀ c ∈ comps, ∃ r, c = cls r) →
    comps.Pairwise Disj →
    (∀ c ∈ compLoop cls todo visited comps, c ∈ comps ∨ ∃ r ∈ todo, c = cls r) ∧
    (compLoop cls todo visited comps).Pairwise Disj ∧
    (∀ x, x ∈ visited ∨ x ∈ todo → ∃ c ∈ compLoop cls todo visited comps, x ∈ c) := by
  intro todo
  induction todo with
  | nil =>
    intro visited comps hV _ hD
    simp only [compLoop]
    refine ⟨fun c hc => Or.inl hc, hD, ?_⟩
    intro x hx
    rcases hx with hx | hx
    · exact (hV x).mp hx
    · cases hx
  | cons n rest ih =>
    intro visited comps hV hR hD
    by_cases hn : n ∈ visited
    · simp only [compLoop, hn, if_true]
      obtain ⟨h1, h2, h3⟩ := ih visited comps hV hR hD
      refine ⟨?_, h2, ?_⟩
      · intro c hc
        rcases h1 c hc with h | ⟨r, hr, h⟩
        · exact Or.inl h
        · exact Or.inr ⟨r, List.mem_cons_of_mem _ hr, h⟩
      · intro x hx
        rcases hx with hx | hx
        · exact h3 x (Or.inl hx)
        · cases hx with
          | head => exact h3 n (Or.inl hn)
          | tail _ hx => exact h3 x (Or.inr hx)
    · simp only [compLoop, hn, if_false]
      have hV' : ∀ x, x ∈ visited ++ cls n ↔ ∃ c ∈ comps ++ [cls n], x ∈ c := by
        intro x
        simp only [List.mem_append, List.mem_singleton, hV x]
        constructor
        · rintro (⟨c, hc, hx⟩ | hx)
          · exact ⟨c, Or.inl hc, hx⟩
          · exact ⟨cls n, Or.inr rfl, hx⟩
        · rintro ⟨c, hc | hc, hx⟩
          · exact Or.inl ⟨c, hc, hx⟩
          · exact Or.inr (hc ▸ hx)
      have hR' : ∀ c ∈ comps ++ [cls n], ∃ r, c = cls r := by
        intro c hc
        rcases List.mem_append.mp hc with hc | hc
        · exact hR c hc
        · exact ⟨n, by simpa using hc⟩
      have hD' : (comps ++ [cls n]).Pairwise Disj := by
        apply List.pairwise_append.mpr
        refine ⟨hD, List.pairwise_singleton _ _, ?_⟩
        intro a ha b hb x hxa hxb
        simp only [List.mem_singleton] at hb
        subst hb
        obtain ⟨r, hr⟩ := hR a ha
        subst hr
        -- x ∈ cls r ∩ cls n, hence n ∈ cls r, which was already visited
        have h1 : n ∈ cls x := (hcls n x hxb n).mpr (hrefl n)
        have h2 : n ∈ cls r := (hcls r x hxa n).mp h1
        exact hn ((hV n).mpr ⟨cls r, ha, h2⟩)
      obtain ⟨h1, h2, h3⟩ := ih (visited ++ cls n) (comps ++ [cls n]) hV' hR' hD'
      refine ⟨?_, h2, ?_⟩
      · intro c hc
        rcases h1 c hc with h | ⟨r, hr, h⟩
        · rcases List.mem_append.mp h with h | h
          · exact Or.inl h
          · exact Or.inr ⟨n, List.mem_cons_self, by simpa using h⟩
        · exact Or.inr ⟨r, List.mem_cons_of_mem _ hr, h⟩
      · intro x hx
        rcases hx with hx | hx
        · exact h3 x (Or.inl (List.mem_append.mpr (Or.inl hx)))
        · cases hx with
          | head => exact h3 n (Or.inl (List.mem_append.mpr (Or.inr (hrefl n))))
          | tail _ hx => exact h3 x (Or.inr hx)

end Loop

theorem bfsH_class (es : List Edge) (f : Filt) (n y : Nat) (hy : y ∈ bfsH es f n) (z : Nat) :
    z ∈ bfsH es f y ↔ z ∈ bfsH es f n := by
  rw [mem_bfsH] at hy
  rw [mem_bfsH, mem_bfsH]
  exact ⟨fun h => hy.trans h, fun h => hy.symm.trans h⟩

/-- what the loop of `connected_components` returns -/
theorem components_spec (nodes : List Nat) (es : List Edge) (f : Filt) :
    (∀ c ∈ components nodes es f, ∃ r ∈ nodes, c = bfsH es f r) ∧
    (components nodes es f).Pairwise Disj ∧
    (∀ x ∈ nodes, ∃ c ∈ components nodes es f, x ∈ c) := by
  have := compLoop_spec (bfsH es f) (fun n => (mem_bfsH es f n n).mpr (Reach.refl n)) (bfsH_class es f)
    nodes [] [] (by simp) (by simp) List.Pairwise.nil
  obtain ⟨h1, h2, h3⟩ := this
  refine ⟨?_, h2, fun x hx => h3 x (Or.inr hx)⟩
  intro c hc
  rcases h1 c hc with h | h
  · cases h
  · exact h

/-- every component is the reachability class of each of its members -/
theorem components_class (nodes : List Nat) (es : List Edge) (f : Filt) (c : List Nat)
    (hc : c ∈ components nodes es f) (u : Nat) (hu : u ∈ c) (v : Nat) : v ∈ c ↔ Reach es f u v := by
  obtain ⟨r, _, rfl⟩ := (components_spec nodes es f).1 c hc
  rw [mem_bfsH] at hu
  rw [mem_bfsH]
  exact ⟨fun h => hu.symm.trans h, fun h => hu.trans h⟩

/-! ## counting: a system of distinct representatives has as many members as there are components -/

theorem length_le_of_rel {α β : Type} [DecidableEq β] (rel : α → β → Prop) :
    ∀ (A : List α) (B : List β), A.Pairwise (fun a a' => ∀ b, rel a b → ¬ rel a' b) →
      (∀ a ∈ A, ∃ b ∈ B, rel a b) → A.length ≤ B.length := by
  intro A
  induction A with
  | nil => intro B _ _; simp
  | cons a t ih =>
    intro B hp hex
    obtain ⟨b, hb, hab⟩ := hex a List.mem_cons_self
    have hp' := List.pairwise_cons.mp hp
    have := ih (B.erase b) hp'.2 (by
      intro a' ha'
      obtain ⟨b', hb', hab'⟩ := hex a' (List.mem_cons_of_mem _ ha')
      have hne : b' ≠ b := by
        intro h; subst h
        exact hp'.1 a' ha' b' hab hab'
      exact ⟨b', (List.mem_erase_of_ne hne).mpr hb', hab'⟩)
    have hlen := List.length_erase_of_mem hb
    have hpos : 0 < B.length := List.length_pos_of_mem hb
    simp only [List.length_cons]
    omega

theorem components_count (nodes : List Nat) (es : List Edge) (f : Filt) (R : List Nat)
    (hR : ∀ r ∈ R, r ∈ nodes) (hpair : R.Pairwise (fun a b => ¬ Reach es f a b))
    (hcov : ∀ n ∈ nodes, ∃ r ∈ R, Reach es f r n) : (components nodes es f).length = R.length := by
  obtain ⟨h1, h2, h3⟩ := components_spec nodes es f
  apply Nat.le_antisymm
  · apply length_le_of_rel (fun (c : List Nat) (r : Nat) => r ∈ c)
    · exact h2.imp (fun hd b hb hb' => hd b hb hb')
    · intro c hc
      obtain ⟨n, hn, rfl⟩ := h1 c hc
      obtain ⟨r, hr, hrn⟩ := hcov n hn
      exact ⟨r, hr, (mem_bfsH es f n r).mpr hrn.symm⟩
  · apply length_le_of_rel (fun (r : Nat) (c : List Nat) => c ∈ components nodes es f ∧ r ∈ c)
    · exact hpair.imp (fun {a b} hab c hac hbc =>
        hab ((components_class nodes es f c hac.1 a hac.2 b).mp hbc.2))
    · intro r hr
      obtain ⟨c, hc, hrc⟩ := h3 r (hR r hr)
      exact ⟨c, hc, hc, hrc⟩

/-! ## `max(components, key=len)` -/

theorem foldl_max_spec (t : List (List Nat)) : ∀ (c : List Nat),
    let r := t.foldl (fun best d => if best.length < d.length then d else best) c
    r ∈ c :: t ∧ ∀ d ∈ c :: t, d.length ≤ r.length := by
  induction t with
  | nil => intro c; simp
  | cons a t ih =>
    intro c
    simp only [List.foldl_cons]
    by_cases hlt : c.length < a.length
    · simp only [hlt, if_true]
      obtain ⟨h1, h2⟩ := ih a
      refine ⟨List.mem_cons_of_mem _ h1, ?_⟩
      intro d hd
      rcases List.mem_cons.mp hd with hd | hd
      · subst hd; have := h2 a List.mem_cons_self; omega
      · exact h2 d hd
    · simp only [hlt, if_false]
      obtain ⟨h1, h2⟩ := ih c
      refine ⟨?_, ?_⟩
      · rcases List.mem_cons.mp h1 with h | h
        · exact List.mem_cons.mpr (Or.inl h)
        · exact List.mem_cons_of_mem _ (List.mem_cons_of_mem _ h)
      · intro d hd
        rcases List.mem_cons.mp hd with hd | hd
        · subst hd; exact h2 d List.mem_cons_self
        · rcases List.mem_cons.mp hd with hd | hd
          · subst hd; have := h2 c List.mem_cons_self; omega
          · exact h2 d (List.mem_cons_of_mem _ hd)

theorem maxByLen_spec (l : List (List Nat)) (hl : l ≠ []) :
    ∃ c, maxByLen l = some c ∧ c ∈ l ∧ ∀ d ∈ l, d.length ≤ c.length := by
  cases l with
  | nil => exact absurd rfl hl
  | cons c t => exact ⟨_, rfl, foldl_max_spec t c⟩

/-! ## isolated nodes -/

theorem neighbors_eq_nil_iff (es : List Edge) (f : Filt) (n : Nat) :
    neighbors es f n = [] ↔ ∀ v, Adj es f n v → v = n := by
  rw [List.eq_nil_iff_forall_not_mem]
  constructor
  · intro h v ⟨e, he, hp, hn, hv⟩
    apply Decidable.byContradiction
    intro hne
    exact h v ((mem_neighbors es f n v).mpr ⟨hne, e, he, hp, hn, hv⟩)
  · intro h v hv
    obtain ⟨hne, e, he, hp, hn, hve⟩ := (mem_neighbors es f n v).mp hv
    exact hne (h v ⟨e, he, hp, hn, hve⟩)

theorem reach_of_no_adj (es : List Edge) (f : Filt) (n : Nat) (h : ∀ v, Adj es f n v → v = n) :
    ∀ v, Reach es f n v → v = n := by
  intro v hr
  induction hr with
  | refl => rfl
  | step _ ha ih => rw [ih] at ha; exact h _ ha

theorem exists_ne_of_two_le (e : List Nat) (hnd : e.Nodup) (h2 : 2 ≤ e.length) (n : Nat) : ∃ v ∈ e, v ≠ n := by
  match e, hnd, h2 with
  | a :: b :: t, hnd, _ =>
    have hab : a ≠ b := by
      intro h; subst h
      exact (List.nodup_cons.mp hnd).1 List.mem_cons_self
    by_cases ha : a = n
    · exact ⟨b, by simp, fun hb => hab (ha.trans hb.symm)⟩
    · exact ⟨a, by simp, ha⟩

theorem two_le_of_mem_ne (e : List Nat) (n v : Nat) (hn : n ∈ e) (hv : v ∈ e) (hne : v ≠ n) : 2 ≤ e.length := by
  match e, hn, hv with
  | [a], hn, hv =>
    simp only [List.mem_singleton] at hn hv
    exact absurd (hv.trans hn.symm) hne
  | _ :: _ :: _, _, _ => simp

end C08
