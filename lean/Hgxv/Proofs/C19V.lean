import Hgxv.Model.C19
/-! C19, part A: the allowed values of a criterion count as a SET (core Lean only).

`filter_hypergraph` tests `metadata.get(attr) in values`; `values` may be a list, a tuple, a set, a frozenset, the
keys of a dict, a range. Whatever the container - order, multiplicity - only the membership of the values matters. -/
namespace C19

/-- two criteria dictionaries with the same attributes (in dictionary order) whose allowed values agree as sets -/
def SameCrit : Crit → Crit → Prop
  | [], [] => True
  | p :: ps, q :: qs => p.1 = q.1 ∧ (∀ v, v ∈ p.2 ↔ v ∈ q.2) ∧ SameCrit ps qs
  | _, _ => False

/-- the same for the optional argument (`None` = no criteria) -/
def SameCrit? : Option Crit → Option Crit → Prop
  | none, none => True
  | some a, some b => SameCrit a b
  | _, _ => False

theorem contains_congr {l1 l2 : List (Option Nat)} (h : ∀ v, v ∈ l1 ↔ v ∈ l2) (x : Option Nat) :
    l1.contains x = l2.contains x := by
  rw [Bool.eq_iff_iff]
  simp [h x]

theorem matchesCrit_congr {cr1 cr2 : Crit} (h : SameCrit cr1 cr2) (md : Md) :
    matchesCrit md cr1 = matchesCrit md cr2 := by
  induction cr1 generalizing cr2 with
  | nil =>
    cases cr2 with
    | nil => rfl
    | cons q qs => exact absurd h (by simp [SameCrit])
  | cons p ps ih =>
    cases cr2 with
    | nil => exact absurd h (by simp [SameCrit])
    | cons q qs =>
      obtain ⟨h1, h2, h3⟩ := h
      have hrec := ih h3
      simp only [matchesCrit, List.all_cons] at hrec ⊢
      rw [hrec, h1, contains_congr h2]

variable {κ ω : Type} [DecidableEq κ] [Add ω]

theorem nodePhase_congr (ops : KeyOps κ) (c : Content κ ω) {nc nc' : Option Crit} (h : SameCrit? nc nc')
    (mode : Mode) (keep : Bool) : nodePhase ops c nc mode keep = nodePhase ops c nc' mode keep := by
  cases nc with
  | none =>
    cases nc' with
    | none => rfl
    | some b => exact absurd h (by simp [SameCrit?])
  | some a =>
    cases nc' with
    | none => exact absurd h (by simp [SameCrit?])
    | some b =>
      have hf : (fun x : Node × Md => selected mode (matchesCrit x.2 a)) =
          (fun x : Node × Md => selected mode (matchesCrit x.2 b)) := by
        funext x
        rw [matchesCrit_congr h]
      simp only [nodePhase, nodesToProcess, hf]

omit [Add ω] in
theorem edgePhase_congr (c : Content κ ω) {ec ec' : Option Crit} (h : SameCrit? ec ec') (mode : Mode) :
    edgePhase c ec mode = edgePhase c ec' mode := by
  cases ec with
  | none =>
    cases ec' with
    | none => rfl
    | some b => exact absurd h (by simp [SameCrit?])
  | some a =>
    cases ec' with
    | none => exact absurd h (by simp [SameCrit?])
    | some b =>
      have hf : (fun e : κ × (ω × Md) => selected mode (matchesCrit e.2.2 a)) =
          (fun e : κ × (ω × Md) => selected mode (matchesCrit e.2.2 b)) := by
        funext x
        rw [matchesCrit_congr h]
      simp only [edgePhase, edgesToProcess, hf]

theorem critSel_congr {cr cr' : Option Crit} (h : SameCrit? cr cr') (mode : Mode) (md : Md) :
    critSel cr mode md = critSel cr' mode md := by
  cases cr with
  | none =>
    cases cr' with
    | none => rfl
    | some b => exact absurd h (by simp [SameCrit?])
  | some a =>
    cases cr' with
    | none => exact absurd h (by simp [SameCrit?])
    | some b => simp only [critSel]; rw [matchesCrit_congr h]

omit [DecidableEq κ] [Add ω] in
theorem removedNodes_congr (c : Content κ ω) {nc nc' : Option Crit} (h : SameCrit? nc nc') (mode : Mode) :
    removedNodes c nc mode = removedNodes c nc' mode := by
  cases nc with
  | none =>
    cases nc' with
    | none => rfl
    | some b => exact absurd h (by simp [SameCrit?])
  | some a =>
    cases nc' with
    | none => exact absurd h (by simp [SameCrit?])
    | some b =>
      have hf : (fun x : Node × Md => selected mode (matchesCrit x.2 a)) =
          (fun x : Node × Md => selected mode (matchesCrit x.2 b)) := by
        funext x
        rw [matchesCrit_congr h]
      simp only [removedNodes, nodesToProcess, hf]

theorem filterHg_congr (ops : KeyOps κ) (c : Content κ ω) {nc nc' ec ec' : Option Crit}
    (hn : SameCrit? nc nc') (he : SameCrit? ec ec') (mode : Mode) (keep : Bool) :
    filterHg ops c nc ec mode keep = filterHg ops c nc' ec' mode keep := by
  simp only [filterHg]
  rw [nodePhase_congr ops c hn, edgePhase_congr _ he]

end C19
