import Hgxv.Model.C01X
import Hgxv.Proofs.C01Query
import Hgxv.Proofs.C01Cor
/-! C01, extension round: the extraction routines and the whole-object machine refine their abstract twins. -/
namespace C01
open AL

theorem andThen_sim (r : Store × Out) (r' : Spec × Out) (f : Store → Store × Out) (g : Spec → Spec × Out)
    (h : Sim r r') (hf : ∀ s, Inv s → Sim (f s) (g (abs s))) : Sim (andThen r f) (andThen r' g) := by
  obtain ⟨s, o⟩ := r
  obtain ⟨a, o'⟩ := r'
  obtain ⟨h1, h2, h3⟩ := h
  simp only at h1 h2 h3
  subst h1; subst h2
  cases o with
  | ok => exact hf s h3
  | rej => exact ⟨rfl, rfl, h3⟩

theorem abs_new (w : Bool) (hm : Meta) : abs (Store.new w hm) = Spec.new w hm := rfl

theorem Inv.key_nodup_of_mem {s : Store} (h : Inv s) {e : Edge} (he : e ∈ keys s.edgeList) : e.Nodup := by
  obtain ⟨id, hid⟩ := Option.isSome_iff_exists.mp ((mem_keys_iff _ _).mp he)
  exact (h.key_canon e id hid).1

theorem sim_copyNodeMeta (src h : Store) (n : Node) (hs : Inv src) (hh : Inv h) :
    Sim (copyNodeMeta src h n) (Spec.copyNodeMeta (abs src) (abs h) n) := by
  unfold copyNodeMeta Spec.copyNodeMeta
  have e1 : (get? (abs src).nodes n).isSome = (get? src.adj n).isSome := hs.node_agree n
  have e2 : (abs src).nodes = src.nmeta := rfl
  rw [e1, e2]
  split
  · exact sim_setNodeMeta h n _ hh
  · exact ⟨rfl, rfl, hh⟩

theorem sim_copyEdge (src h : Store) (e : Edge) (hh : Inv h) (he : e.Nodup) :
    Sim (copyEdge src h e) (Spec.copyEdge (abs src) (abs h) e) := by
  unfold copyEdge Spec.copyEdge
  rw [abs_weightOf, abs_emetaOf]
  exact sim_addEdge h e _ _ hh he

theorem sim_copyEdgeMeta (src h : Store) (e : Edge) (hh : Inv h) :
    Sim (copyEdgeMeta src h e) (Spec.copyEdgeMeta (abs src) (abs h) e) := by
  unfold copyEdgeMeta Spec.copyEdgeMeta
  rw [abs_emetaOf]
  exact sim_setEdgeMeta h e _ hh

theorem sim_copyNodeMetas (src : Store) (hs : Inv src) (ns : List Node) (h : Store) (hh : Inv h) :
    Sim (seqOps (copyNodeMeta src) h ns) (seqOps (Spec.copyNodeMeta (abs src)) (abs h) ns) :=
  seqOps_sim _ _ (fun _ => True) (fun h n hh _ => sim_copyNodeMeta src h n hs hh) ns h hh (fun _ _ => trivial)

theorem sim_copyEdges (src : Store) (es : List Edge) (hes : ∀ e ∈ es, e.Nodup) (h : Store) (hh : Inv h) :
    Sim (seqOps (copyEdge src) h es) (seqOps (Spec.copyEdge (abs src)) (abs h) es) :=
  seqOps_sim _ _ (fun e => e.Nodup) (fun h e hh he => sim_copyEdge src h e hh he) es h hh hes

theorem sim_fresh (src : Store) :
    Sim (Store.new src.weighted [], Out.ok) (Spec.new (abs src).weighted [], Out.ok) :=
  ⟨rfl, rfl, inv_new _ _⟩

theorem sim_freshNodes (src : Store) (ns : List Node) :
    Sim (addNodes (Store.new src.weighted []) ns none) (Spec.addNodes (Spec.new (abs src).weighted []) ns none) :=
  sim_addNodes (Store.new src.weighted []) ns none (inv_new _ _)

theorem sim_subhypergraph (src : Store) (ns : List Node) (hs : Inv src) :
    Sim (subhypergraph src ns) (Spec.subhypergraph (abs src) ns) := by
  unfold subhypergraph Spec.subhypergraph
  apply andThen_sim
  · exact sim_freshNodes src ns
  · intro h hh
    apply andThen_sim
    · exact sim_copyNodeMetas src hs ns h hh
    · intro h hh
      rw [abs_keys]
      exact sim_copyEdges src _ (fun e he => hs.key_nodup_of_mem ((List.mem_filter.mp he).1)) h hh

theorem mem_edgesOfSizes {ks : List Int} {es : List Edge} {e : Edge} (h : e ∈ edgesOfSizes ks es) : e ∈ es := by
  unfold edgesOfSizes at h
  obtain ⟨k, _, hk⟩ := List.mem_flatMap.mp h
  exact (List.mem_filter.mp hk).1

theorem sim_subOrders (src : Store) (os ks : Option (List Int)) (keep : Bool) (hs : Inv src) :
    Sim (subOrders src os ks keep) (Spec.subOrders (abs src) os ks keep) := by
  unfold subOrders Spec.subOrders
  cases sizesArg os ks with
  | none => exact ⟨rfl, rfl, inv_new _ _⟩
  | some sz =>
    simp only []
    apply andThen_sim
    · cases keep with
      | false => exact sim_fresh src
      | true =>
        simp only [if_true]
        rw [nodes_keys hs]
        apply andThen_sim
        · exact sim_freshNodes src _
        · intro h hh
          exact sim_copyNodeMetas src hs _ h hh
    · intro h hh
      apply andThen_sim
      · rw [abs_keys]
        exact sim_copyEdges src _ (fun e he => hs.key_nodup_of_mem (mem_edgesOfSizes he)) h hh
      · intro h hh
        cases keep with
        | true => exact ⟨rfl, rfl, hh⟩
        | false =>
          simp only [Bool.false_eq_true, if_false]
          rw [nodes_keys hh]
          exact sim_copyNodeMetas src hs _ h hh

theorem mem_edgesF {s : Store} {f : Filter} {es : List Edge} (h : edgesF s f = some es) :
    ∀ e ∈ es, e ∈ keys s.edgeList := by
  unfold edgesF at h
  cases hr : f.resolve with
  | none => rw [hr] at h; cases h
  | some o =>
    rw [hr] at h
    simp only [Option.map_some, Option.some.injEq] at h
    subst h
    intro e he
    exact (List.mem_filter.mp he).1

theorem sim_subEdges (src : Store) (f : Filter) (iso : Bool) (hs : Inv src) :
    Sim (subEdges src f iso) (Spec.subEdges (abs src) f iso) := by
  unfold subEdges Spec.subEdges
  rw [edgesF_abs]
  cases hes : edgesF src f with
  | none => exact ⟨rfl, rfl, inv_new _ _⟩
  | some es =>
    simp only []
    have hmem := mem_edgesF hes
    apply andThen_sim
    · cases iso with
      | false => exact sim_fresh src
      | true =>
        simp only [if_true]
        rw [nodes_keys hs]
        exact sim_freshNodes src _
    · intro h hh
      apply andThen_sim
      · have hw : Spec.weightOf (abs src) = weightOf src := funext (abs_weightOf src)
        rw [hw]
        exact sim_addEdges h es _ none hh (fun r hr => hs.key_nodup_of_mem (hmem r hr))
      · intro h hh
        apply andThen_sim
        · rw [nodes_keys hh]
          exact sim_copyNodeMetas src hs _ h hh
        · intro h hh
          exact seqOps_sim _ _ (fun _ => True) (fun h e hh _ => sim_copyEdgeMeta src h e hh) es h hh
            (fun _ _ => trivial)

/-- every extraction routine on the tables is matched by the same routine on the abstract hypergraph -/
theorem sim_extract (src : Store) (x : Extract) (hs : Inv src) : Sim (extract src x) (Spec.extract (abs src) x) := by
  cases x with
  | sub ns => exact sim_subhypergraph src ns hs
  | orders os ks keep => exact sim_subOrders src os ks keep hs
  | edges f iso => exact sim_subEdges src f iso hs

/-! ### the whole object -/

theorem isClear_eq {op : Op} (h : isClear op = true) : op = .clear := by
  cases op <;> simp [isClear] at h ⊢

theorem fapply_sim (s : Full) (op : FOp) (hwf : op.WF) (h : Inv s.base) :
    fabs (s.apply op).1 = ((fabs s).apply op).1 ∧ (s.apply op).2 = ((fabs s).apply op).2 ∧
      Inv (s.apply op).1.base := by
  cases op with
  | base op =>
    obtain ⟨e1, e2, e3⟩ := sim_apply s.base op hwf h
    simp only [Full.apply, FSpec.apply]
    refine ⟨?_, e2, ?_⟩
    · cases isClear op
      · simp only [Bool.false_eq_true, if_false, fabs, e1]
      · simp only [if_true, fabs, e1]
    · cases isClear op
      · simpa only [Bool.false_eq_true, if_false] using e3
      · simpa only [if_true] using e3
  | setIncMeta raw n md =>
    refine ⟨?_, ?_, h⟩ <;> simp only [Full.apply, FSpec.apply, fabs, abs_isSome]
  | addEmptyEdge name md =>
    refine ⟨?_, ?_, h⟩ <;> simp only [Full.apply, FSpec.apply, fabs]

theorem fanswer_abs (s : Full) (h : Inv s.base) (q : FQuery) : s.answer q = (fabs s).answer q := by
  cases q with
  | base q => simp only [Full.answer, FSpec.answer, fabs, answer_abs s.base h q]
  | incMeta raw n => simp only [Full.answer, FSpec.answer, fabs, abs_isSome]
  | allIncMeta => rfl

def FStateSim (st : FState) (sa : FSState) : Prop := sa = st.map fabs ∧ ∀ s ∈ st, Inv s.base

theorem fstep_sim (st : FState) (sa : FSState) (c : FCmd) (hwf : c.WF) (h : FStateSim st sa) :
    FStateSim (fstep st c).1 (FSpec.step sa c).1 ∧ (fstep st c).2 = (FSpec.step sa c).2 := by
  obtain ⟨hsa, hinv⟩ := h
  subst hsa
  cases c with
  | new i w hm =>
    simp only [fstep, FSpec.step, List.length_map]
    by_cases hc : i < st.length
    · simp only [if_pos hc]
      refine ⟨⟨by rw [List.map_set]; rfl, ?_⟩, trivial⟩
      intro s hs
      rcases mem_set_cases hs with hs | hs
      · subst hs; exact inv_new w hm
      · exact hinv s hs
    · simp only [if_neg hc]
      exact ⟨⟨rfl, hinv⟩, trivial⟩
  | copy i j =>
    simp only [fstep, FSpec.step, List.length_map, List.getElem?_map]
    cases hs : st[i]? with
    | none => exact ⟨⟨rfl, hinv⟩, rfl⟩
    | some s0 =>
      simp only [Option.map_some]
      by_cases hc : j < st.length
      · simp only [if_pos hc]
        refine ⟨⟨by rw [List.map_set], ?_⟩, trivial⟩
        intro s hs'
        rcases mem_set_cases hs' with hs' | hs'
        · subst hs'; exact hinv _ (List.mem_of_getElem? hs)
        · exact hinv s hs'
      · simp only [if_neg hc]
        exact ⟨⟨rfl, hinv⟩, trivial⟩
  | on i op =>
    simp only [fstep, FSpec.step, List.getElem?_map]
    cases hs : st[i]? with
    | none => exact ⟨⟨rfl, hinv⟩, rfl⟩
    | some s0 =>
      simp only [Option.map_some]
      obtain ⟨e1, e2, e3⟩ := fapply_sim s0 op hwf (hinv _ (List.mem_of_getElem? hs))
      refine ⟨⟨by rw [List.map_set, e1], ?_⟩, e2⟩
      intro s hs'
      rcases mem_set_cases hs' with hs' | hs'
      · subst hs'; exact e3
      · exact hinv s hs'
  | extract i j x =>
    simp only [fstep, FSpec.step, List.getElem?_map, List.length_map]
    cases hs : st[i]? with
    | none => exact ⟨⟨rfl, hinv⟩, rfl⟩
    | some s0 =>
      simp only [Option.map_some]
      by_cases hc : j < st.length
      · simp only [if_pos hc]
        obtain ⟨e1, e2, e3⟩ := sim_extract s0.base x (hinv _ (List.mem_of_getElem? hs))
        have hb : (fabs s0).base = abs s0.base := rfl
        rw [hb]
        generalize extract s0.base x = r at e1 e2 e3
        generalize Spec.extract (abs s0.base) x = r' at e1 e2
        obtain ⟨h1, o1⟩ := r
        obtain ⟨a1, o2⟩ := r'
        simp only at e1 e2 e3
        subst e1; subst e2
        cases o1 with
        | rej => exact ⟨⟨rfl, hinv⟩, rfl⟩
        | ok =>
          refine ⟨⟨by rw [List.map_set]; rfl, ?_⟩, rfl⟩
          intro s hs'
          rcases mem_set_cases hs' with hs' | hs'
          · subst hs'; exact e3
          · exact hinv s hs'
      · simp only [if_neg hc]
        exact ⟨⟨rfl, hinv⟩, trivial⟩

theorem frun_sim : ∀ (cs : List FCmd) (st : FState) (sa : FSState), (∀ c ∈ cs, c.WF) → FStateSim st sa →
    FStateSim (frun st cs) (FSpec.run sa cs) := by
  intro cs
  induction cs with
  | nil => intro st sa _ h; exact h
  | cons c cs ih =>
    intro st sa hwf h
    simp only [frun, FSpec.run, List.foldl_cons]
    exact ih _ _ (fun c' hc' => hwf c' (List.mem_cons_of_mem _ hc')) (fstep_sim st sa c (hwf c List.mem_cons_self) h).1

theorem finit_sim (k : Nat) : FStateSim (finit k) (FSpec.init k) := by
  refine ⟨?_, ?_⟩
  · simp only [finit, FSpec.init, List.map_replicate]
    rfl
  · intro s hs
    simp only [finit, List.mem_replicate] at hs
    rw [hs.2]; exact inv_new false []

theorem fquery_sim (st : FState) (sa : FSState) (h : FStateSim st sa) (i : Nat) (q : FQuery) :
    fquery st i q = FSpec.query sa i q := by
  obtain ⟨hsa, hinv⟩ := h
  subst hsa
  simp only [fquery, FSpec.query, List.getElem?_map]
  cases hs : st[i]? with
  | none => rfl
  | some s0 => simp only [Option.map_some]; exact fanswer_abs s0 (hinv _ (List.mem_of_getElem? hs)) q

/-! ### a rejected call leaves the whole object as it was -/

theorem full_eta (s : Full) : ({ s with base := s.base } : Full) = s := rfl

theorem fapply_rej (s : Full) (op : FOp) (hi : Inv s.base) (h : (s.apply op).2 = .rej) : (s.apply op).1 = s := by
  cases op with
  | base op =>
    simp only [Full.apply] at h ⊢
    have hb := apply_rej s.base op hi h
    cases hc : isClear op with
    | true =>
      have := isClear_eq hc
      subst this
      simp [apply, clear] at h
    | false =>
      simp only [Bool.false_eq_true, if_false, hb]
  | setIncMeta raw n md =>
    simp only [Full.apply, regSetInc] at h ⊢
    cases hp : (get? s.base.edgeList (canon raw)).isSome with
    | true => simp [hp] at h
    | false => simp
  | addEmptyEdge name md =>
    simp only [Full.apply, regAddEmpty] at h ⊢
    cases hp : (get? s.empties name).isSome with
    | true => simp
    | false => simp [hp] at h

theorem fstep_rej (st : FState) (c : FCmd) (hi : ∀ s ∈ st, Inv s.base) (h : (fstep st c).2 = .rej) :
    (fstep st c).1 = st := by
  cases c with
  | new i w hm =>
    simp only [fstep] at h ⊢
    split
    · rename_i hc; simp [hc] at h
    · rfl
  | copy i j =>
    simp only [fstep] at h ⊢
    split
    · rename_i s0 hs0
      simp only [hs0] at h
      split
      · rename_i hc; simp [hc] at h
      · rfl
    · rfl
  | on i op =>
    simp only [fstep] at h ⊢
    split
    · rename_i s0 hs0
      simp only [hs0] at h
      simp only []
      rw [fapply_rej s0 op (hi _ (List.mem_of_getElem? hs0)) h]
      exact set_getElem?_self st i s0 hs0
    · rfl
  | extract i j x =>
    simp only [fstep] at h ⊢
    split
    · rename_i s0 hs0
      simp only [hs0] at h
      split
      · rename_i hc
        simp only [if_pos hc] at h
        generalize extract s0.base x = r at h ⊢
        obtain ⟨h1, o1⟩ := r
        cases o1 with
        | ok => simp at h
        | rej => rfl
      · rfl
    · rfl

/-! ### the base machine is the whole-object machine on lifted histories -/

theorem fstep_lift (st : FState) (c : Cmd) :
    (fstep st c.lift).1.map (·.base) = (step (st.map (·.base)) c).1 ∧ (fstep st c.lift).2 = (step (st.map (·.base)) c).2 := by
  cases c with
  | new i w hm =>
    simp only [Cmd.lift, fstep, step, List.length_map]
    by_cases hc : i < st.length
    · simp only [if_pos hc, List.map_set, and_self]
    · simp only [if_neg hc, and_self]
  | copy i j =>
    simp only [Cmd.lift, fstep, step, List.length_map, List.getElem?_map]
    cases hs : st[i]? with
    | none => exact ⟨rfl, rfl⟩
    | some s0 =>
      simp only [Option.map_some]
      by_cases hc : j < st.length
      · simp only [if_pos hc, List.map_set, and_self]
      · simp only [if_neg hc, and_self]
  | on i op =>
    simp only [Cmd.lift, fstep, step, List.getElem?_map]
    cases hs : st[i]? with
    | none => exact ⟨rfl, rfl⟩
    | some s0 =>
      simp only [Option.map_some, Full.apply, List.map_set, and_true]
      cases isClear op <;> rfl

theorem frun_lift : ∀ (cs : List Cmd) (st : FState),
    (frun st (cs.map Cmd.lift)).map (·.base) = run (st.map (·.base)) cs := by
  intro cs
  induction cs with
  | nil => intro st; rfl
  | cons c cs ih =>
    intro st
    simp only [frun, run, List.map_cons, List.foldl_cons]
    rw [← (fstep_lift st c).1]
    exact ih _

theorem finit_base (k : Nat) : (finit k).map (·.base) = init k := by
  simp only [finit, init, List.map_replicate]

theorem lift_wf (c : Cmd) (h : c.WF) : c.lift.WF := by
  cases c <;> exact h

end C01
