import Hgxv.Model.C16Ext
import Hgxv.Proofs.C16Sample
/-! Helper lemmas for C16, extension round: `matchFull` (all four flag pairs, error path) refines `matchSequences`;
the degree cap of `force_deg_seq and not force_dim_seq`; sessions over five kinds of calls.  Core Lean only. -/
namespace C16

/-- forget what a raising run leaves behind -/
def MRes.toOption : MRes → Option MState
  | .done st => some st
  | .raised _ => none

theorem extractIntoR_toOption (size : Nat) (fd fm : Bool) (st : MState) :
    (extractIntoR size fd fm st).toOption = extractInto size fd fm st := by
  unfold extractIntoR
  cases extractInto size fd fm st <;> rfl

theorem extractManyR_toOption (size : Nat) (fd fm : Bool) (k : Nat) (st : MState) :
    (extractManyR size fd fm k st).toOption = extractMany size fd fm k st := by
  induction k generalizing st with
  | zero => rfl
  | succ k ih =>
    have h1 := extractIntoR_toOption size fd fm st
    unfold extractManyR extractMany
    cases hr : extractIntoR size fd fm st with
    | done st' =>
      rw [hr] at h1
      simp only [MRes.toOption] at h1
      simp only [← h1, Option.bind_some]
      exact ih st'
    | raised ok =>
      rw [hr] at h1
      simp only [MRes.toOption] at h1
      simp [← h1, MRes.toOption]

theorem matchLoopR_toOption (fd fm : Bool) (dimSeq : List (Nat × Nat)) (st : MState) :
    (matchLoopR fd fm dimSeq st).toOption = matchLoop fd fm dimSeq st := by
  induction dimSeq generalizing st with
  | nil => rfl
  | cons p rest ih =>
    obtain ⟨size, cnt⟩ := p
    have h1 := extractManyR_toOption size fd fm cnt st
    unfold matchLoopR matchLoop
    cases hr : extractManyR size fd fm cnt st with
    | done st' =>
      rw [hr] at h1
      simp only [MRes.toOption] at h1
      simp only [← h1, Option.bind_some]
      exact ih st'
    | raised ok =>
      rw [hr] at h1
      simp only [MRes.toOption] at h1
      simp [← h1, MRes.toOption]

/-- on the three flag pairs of `matchSequences` the run with exceptions kept is the old run -/
theorem matchFull_toOption (degSeq : List Nat) (dimSeq : List (Nat × Nat)) (fd fm : Bool) (picks : List (List Nat))
    (hp : (fd && !fm) = false) :
    (matchFull degSeq dimSeq fd fm picks).toOption = matchSequences degSeq dimSeq fd fm picks := by
  have h1 := matchLoopR_toOption fd fm dimSeq (matchInit degSeq picks)
  unfold matchFull matchSequences
  simp only [hp, Bool.false_eq_true, if_false]
  unfold matchInit at h1 ⊢
  cases hr : matchLoopR fd fm dimSeq ⟨AL.keys (degToDict degSeq), degSeq, [], true, picks⟩ with
  | done st => rw [hr] at h1; simpa [MRes.toOption] using h1
  | raised ok => rw [hr] at h1; simpa [MRes.toOption] using h1

/-- `force_deg_seq and not force_dim_seq`: the loops of `matchLoop`, then the second phase -/
theorem matchFull_forceDeg (degSeq : List Nat) (dimSeq : List (Nat × Nat)) (picks : List (List Nat)) (st : MState)
    (h : matchFull degSeq dimSeq true false picks = .done st) :
    ∃ st1, matchLoop true false dimSeq (matchInit degSeq picks) = some st1 ∧ phase2 st1 = .done st := by
  have h1 := matchLoopR_toOption true false dimSeq (matchInit degSeq picks)
  unfold matchFull at h
  cases hr : matchLoopR true false dimSeq (matchInit degSeq picks) with
  | done st1 =>
    rw [hr] at h h1
    simp only [MRes.toOption] at h1
    exact ⟨st1, h1.symm, by simpa using h⟩
  | raised ok => rw [hr] at h; simp at h

theorem phase2_done {st st' : MState} (h : phase2 st = .done st') :
    st'.cfg = st.cfg ∧ st'.resid = st.resid ∧ st'.keys = st.keys ∧ availableNodes st'.keys st'.resid ≤ 1 ∧
      (st'.flag = true → st.flag = true ∧ ∀ k ∈ st.keys, k = 0) := by
  unfold phase2 at h
  split at h
  · split at h
    · simp at h
    · rename_i hav
      simp only [MRes.done.injEq] at h
      subst h
      exact ⟨rfl, rfl, rfl, by simp only; omega, by simp⟩
  · rename_i hk
    simp only [MRes.done.injEq] at h
    subst h
    have hk' : ∀ k ∈ st.keys, k = 0 := by
      intro k hk1
      have : ¬ (st.keys.any (fun d => d != 0) = true) := hk
      simp only [List.any_eq_true, not_exists, not_and] at this
      have := this k hk1
      simpa using this
    refine ⟨rfl, rfl, rfl, ?_, fun hf => ⟨hf, hk'⟩⟩
    unfold availableNodes
    have : st.keys.filter (fun d => 0 < d) = [] := by
      rw [List.filter_eq_nil_iff]
      intro k hk1
      have := hk' k hk1
      simp [this]
    simp [this]

/-! ## the degree cap of the shrinking construction -/

theorem count_decResid {resid chosen : List Nat} (c1 : chosen.Nodup)
    (hp : ∀ c ∈ chosen, ∃ r, resid[c]? = some (r + 1)) (n : Nat) :
    chosen.count n + rd (decResid resid chosen) n = rd resid n := by
  obtain ⟨_, d2, _⟩ := decResid_spec c1 hp
  simp only [rd, d2 n, count01 c1]
  by_cases hn : n ∈ chosen
  · obtain ⟨r, hr⟩ := hp n hn
    simp [hn, hr]; omega
  · simp [hn]

/-- `_extract_hye(force_deg_seq=True, force_dim_seq=False)`: whatever comes back - the full hyperedge, a smaller one, the
empty one -, every node of it pays one unit of residual degree and nobody else pays -/
theorem extractHye_forceDeg {keys resid : List Nat} {size : Nat} {picks : List (List Nat)} {o : ExtractOut}
    (h : extractHye keys resid size true false picks = some o) :
    ∀ n, o.hye.count n + rd o.resid n = rd resid n := by
  unfold extractHye at h
  split at h
  · exact absurd h (by simp)
  · split at h
    · exact absurd h (by simp)
    · rename_i chosen visited picks' hl
      obtain ⟨c1, c2, _⟩ := pickLoop_spec (posDegs_spec keys).1 hl
      have hp : ∀ c ∈ chosen, ∃ r, resid[c]? = some (r + 1) := by
        intro c hc
        obtain ⟨d, hd, e⟩ := c2 c hc
        have := (posDegs_spec keys).2 d hd
        exact ⟨d - 1, by rw [e]; congr; omega⟩
      simp only [Option.some.injEq] at h
      subst h
      exact count_decResid c1 hp
    · rename_i chosen visited need picks' hl
      obtain ⟨c1, c2, _⟩ := pickLoop_spec (posDegs_spec keys).1 hl
      have hp : ∀ c ∈ chosen, ∃ r, resid[c]? = some (r + 1) := by
        intro c hc
        obtain ⟨d, hd, e⟩ := c2 c hc
        have := (posDegs_spec keys).2 d hd
        exact ⟨d - 1, by rw [e]; congr; omega⟩
      simp only [Bool.not_true, Bool.or_self, Bool.false_eq_true, if_false] at h
      unfold extractShrink at h
      split at h
      · exact absurd h (by simp)
      · split at h
        · simp only [Option.some.injEq] at h
          subst h
          intro n; simp
        · simp only [Option.some.injEq] at h
          subst h
          exact count_decResid c1 hp

/-- what the shrinking construction keeps for every node, whether or not the report is still `True`: hyperedges built so
far plus residual degree never exceed the requested degree -/
def MCap (degSeq : List Nat) (st : MState) : Prop := ∀ n, degOf n st.cfg + rd st.resid n ≤ rd degSeq n

theorem extractInto_cap {degSeq : List Nat} {size : Nat} {st st' : MState} (hc : MCap degSeq st)
    (h : extractInto size true false st = some st') : MCap degSeq st' := by
  unfold extractInto at h
  cases he : extractHye st.keys st.resid size true false st.picks with
  | none => simp [he] at h
  | some o =>
    simp only [he, Option.map_some, Option.some.injEq] at h
    have e := extractHye_forceDeg he
    subst h
    intro n
    have h1 := hc n
    have h2 := e n
    simp only
    split
    · rw [degOf_snoc]; omega
    · omega

theorem extractMany_cap {degSeq : List Nat} {size : Nat} {k : Nat} {st st' : MState} (hc : MCap degSeq st)
    (h : extractMany size true false k st = some st') : MCap degSeq st' := by
  induction k generalizing st with
  | zero => simp only [extractMany, Option.some.injEq] at h; subst h; exact hc
  | succ k ih =>
    simp only [extractMany] at h
    cases h1 : extractInto size true false st with
    | none => simp [h1] at h
    | some s1 =>
      simp only [h1, Option.bind_some] at h
      exact ih (extractInto_cap hc h1) h

theorem matchLoop_cap {degSeq : List Nat} {dimSeq : List (Nat × Nat)} {st st' : MState} (hc : MCap degSeq st)
    (h : matchLoop true false dimSeq st = some st') : MCap degSeq st' := by
  induction dimSeq generalizing st with
  | nil => simp only [matchLoop, Option.some.injEq] at h; subst h; exact hc
  | cons p rest ih =>
    obtain ⟨size, cnt⟩ := p
    simp only [matchLoop] at h
    cases h1 : extractMany size true false cnt st with
    | none => simp [h1] at h
    | some s1 =>
      simp only [h1, Option.bind_some] at h
      exact ih (extractMany_cap hc h1) h

/-! ## every residual degree is a key of `nodes_with_deg`; "at most one node keeps residual degree" -/

/-- the dictionary has a key for the residual degree of every node (its sets cover the nodes) -/
def MCover (keys resid : List Nat) : Prop := ∀ (n d : Nat), resid[n]? = some d → d ∈ keys

theorem pickLoop_visited {resid : List Nat} {degs : List Nat} {need : Nat} {picks : List (List Nat)}
    {chosen visited : List Nat} {need' : Nat} {picks' : List (List Nat)}
    (h : pickLoop resid degs need picks = some (chosen, visited, need', picks')) :
    ∀ c ∈ chosen, ∃ d ∈ visited, resid[c]? = some d := by
  induction degs generalizing need picks chosen visited need' picks' with
  | nil =>
    cases need with
    | zero => simp [pickLoop] at h; obtain ⟨rfl, _, _, _⟩ := h; simp
    | succ k => simp [pickLoop] at h; obtain ⟨rfl, _, _, _⟩ := h; simp
  | cons d ds ih =>
    cases need with
    | zero => simp [pickLoop] at h; obtain ⟨rfl, _, _, _⟩ := h; simp
    | succ k =>
      cases picks with
      | nil => simp [pickLoop] at h
      | cons p ps =>
        simp only [pickLoop] at h
        split at h
        · rename_i hv
          obtain ⟨_, hsub, _⟩ := validPick_spec hv
          cases hr : pickLoop resid ds (k + 1 - p.length) ps with
          | none => simp [hr] at h
          | some r =>
            obtain ⟨c', vs, nd, rr⟩ := r
            simp only [hr, Option.map_some, Option.some.injEq, Prod.mk.injEq] at h
            obtain ⟨rfl, rfl, _, _⟩ := h
            intro c hc
            rcases List.mem_append.mp hc with hc | hc
            · exact ⟨d, List.mem_cons_self, mem_bucket.mp (hsub c hc)⟩
            · obtain ⟨d', hd', e2⟩ := ih hr c hc
              exact ⟨d', List.mem_cons_of_mem _ hd', e2⟩
        · exact absurd h (by simp)

theorem mem_addKeyN {ks : List Nat} {k x : Nat} : x ∈ addKeyN ks k ↔ x ∈ ks ∨ x = k := by
  unfold addKeyN
  split
  · rename_i h
    have : k ∈ ks := by simpa using h
    constructor
    · exact Or.inl
    · rintro (h1 | h1)
      · exact h1
      · exact h1 ▸ this
  · simp

theorem mem_moveKeys {keys visited : List Nat} {x : Nat} :
    x ∈ moveKeys keys visited ↔ x ∈ keys ∨ ∃ d ∈ visited, x = d - 1 := by
  unfold moveKeys
  induction visited generalizing keys with
  | nil => simp
  | cons v vs ih =>
    simp only [List.foldl_cons, ih, mem_addKeyN, List.mem_cons, exists_eq_or_imp]
    constructor
    · rintro ((h | h) | h)
      · exact Or.inl h
      · exact Or.inr (Or.inl h)
      · exact Or.inr (Or.inr h)
    · rintro (h | h | h)
      · exact Or.inl (Or.inl h)
      · exact Or.inl (Or.inr h)
      · exact Or.inr h

theorem cover_step {keys resid chosen visited : List Nat} (hc : MCover keys resid) (c1 : chosen.Nodup)
    (hp : ∀ c ∈ chosen, ∃ r, resid[c]? = some (r + 1)) (hv : ∀ c ∈ chosen, ∃ d ∈ visited, resid[c]? = some d) :
    MCover (moveKeys keys visited) (decResid resid chosen) := by
  obtain ⟨_, d2, _⟩ := decResid_spec c1 hp
  intro n d hd
  rw [d2 n] at hd
  rw [mem_moveKeys]
  split at hd
  · rename_i hn
    obtain ⟨d0, hd0, e⟩ := hv n hn
    rw [e] at hd
    simp only [Option.map_some, Option.some.injEq] at hd
    exact Or.inr ⟨d0, hd0, hd.symm⟩
  · exact Or.inl (hc n d hd)

theorem extractHye_cover {keys resid : List Nat} {size : Nat} {fd fm : Bool} {picks : List (List Nat)}
    {o : ExtractOut} (hc : MCover keys resid) (h : extractHye keys resid size fd fm picks = some o) :
    MCover o.keys o.resid := by
  unfold extractHye at h
  split at h
  · exact absurd h (by simp)
  · split at h
    · exact absurd h (by simp)
    · rename_i chosen visited picks' hl
      obtain ⟨c1, c2, _⟩ := pickLoop_spec (posDegs_spec keys).1 hl
      have hp : ∀ c ∈ chosen, ∃ r, resid[c]? = some (r + 1) := by
        intro c hc
        obtain ⟨d, hd, e⟩ := c2 c hc
        have := (posDegs_spec keys).2 d hd
        exact ⟨d - 1, by rw [e]; congr; omega⟩
      simp only [Option.some.injEq] at h
      subst h
      exact cover_step hc c1 hp (pickLoop_visited hl)
    · rename_i chosen visited need picks' hl
      obtain ⟨c1, c2, _⟩ := pickLoop_spec (posDegs_spec keys).1 hl
      have hp : ∀ c ∈ chosen, ∃ r, resid[c]? = some (r + 1) := by
        intro c hc
        obtain ⟨d, hd, e⟩ := c2 c hc
        have := (posDegs_spec keys).2 d hd
        exact ⟨d - 1, by rw [e]; congr; omega⟩
      split at h
      · unfold extractTopUp at h
        split at h
        case isFalse => exact absurd h (by simp)
        split at h
        · exact absurd h (by simp)
        · split at h
          · simp only [Option.some.injEq] at h
            subst h
            exact cover_step hc c1 hp (pickLoop_visited hl)
          · exact absurd h (by simp)
      · unfold extractShrink at h
        split at h
        · exact absurd h (by simp)
        · split at h
          · simp only [Option.some.injEq] at h
            subst h
            exact hc
          · simp only [Option.some.injEq] at h
            subst h
            exact cover_step hc c1 hp (pickLoop_visited hl)

theorem extractInto_cover {size : Nat} {fd fm : Bool} {st st' : MState} (hc : MCover st.keys st.resid)
    (h : extractInto size fd fm st = some st') : MCover st'.keys st'.resid := by
  unfold extractInto at h
  cases he : extractHye st.keys st.resid size fd fm st.picks with
  | none => simp [he] at h
  | some o =>
    simp only [he, Option.map_some, Option.some.injEq] at h
    subst h
    exact extractHye_cover hc he

theorem extractMany_cover {size : Nat} {fd fm : Bool} {k : Nat} {st st' : MState} (hc : MCover st.keys st.resid)
    (h : extractMany size fd fm k st = some st') : MCover st'.keys st'.resid := by
  induction k generalizing st with
  | zero => simp only [extractMany, Option.some.injEq] at h; subst h; exact hc
  | succ k ih =>
    simp only [extractMany] at h
    cases h1 : extractInto size fd fm st with
    | none => simp [h1] at h
    | some s1 =>
      simp only [h1, Option.bind_some] at h
      exact ih (extractInto_cover hc h1) h

theorem matchLoop_cover {fd fm : Bool} {dimSeq : List (Nat × Nat)} {st st' : MState} (hc : MCover st.keys st.resid)
    (h : matchLoop fd fm dimSeq st = some st') : MCover st'.keys st'.resid := by
  induction dimSeq generalizing st with
  | nil => simp only [matchLoop, Option.some.injEq] at h; subst h; exact hc
  | cons p rest ih =>
    obtain ⟨size, cnt⟩ := p
    simp only [matchLoop] at h
    cases h1 : extractMany size fd fm cnt st with
    | none => simp [h1] at h
    | some s1 =>
      simp only [h1, Option.bind_some] at h
      exact ih (extractMany_cover hc h1) h

/-- the dictionary built by `_deg_seq_to_dict` has a key for every degree that occurs -/
theorem cover_init (degSeq : List Nat) : MCover (AL.keys (degToDict degSeq)) degSeq := by
  intro n d hd
  have hg := foldl_dictStep_get degSeq.zipIdx [] d
  rw [← degToDict_eq] at hg
  have hmem : (d, n) ∈ degSeq.zipIdx := List.mem_zipIdx_iff_getElem?.mpr hd
  have : n ∈ (AL.get? (degToDict degSeq) d).getD [] := by
    rw [hg]
    simp only [AL.get?_nil, Option.getD_none, List.nil_append, List.mem_map, List.mem_filter, beq_iff_eq]
    exact ⟨(d, n), ⟨hmem, rfl⟩, rfl⟩
  cases hk : AL.get? (degToDict degSeq) d with
  | none => rw [hk] at this; simp at this
  | some v =>
    apply Decidable.byContradiction
    intro hne
    have := (AL.get?_eq_none_iff (degToDict degSeq) d).mpr hne
    rw [hk] at this
    simp at this

theorem le_sum_of_mem {l : List Nat} {f : Nat → Nat} {x : Nat} (h : x ∈ l) : f x ≤ (l.map f).sum := by
  induction l with
  | nil => simp at h
  | cons z zs ih =>
    simp only [List.map_cons, List.sum_cons]
    rcases List.mem_cons.mp h with h | h
    · subst h; omega
    · have := ih h; omega

theorem two_le_sum_of_mem {l : List Nat} {f : Nat → Nat} {x y : Nat} (hx : x ∈ l) (hy : y ∈ l) (hne : x ≠ y) :
    f x + f y ≤ (l.map f).sum := by
  induction l with
  | nil => simp at hx
  | cons z zs ih =>
    simp only [List.map_cons, List.sum_cons]
    by_cases hxz : x = z
    · have hy' : y ∈ zs := by
        rcases List.mem_cons.mp hy with h | h
        · exact absurd (hxz.trans h.symm) hne
        · exact h
      have := le_sum_of_mem (f := f) hy'
      rw [hxz]; omega
    · have hx' : x ∈ zs := by
        rcases List.mem_cons.mp hx with h | h
        · exact absurd h hxz
        · exact h
      by_cases hyz : y = z
      · have := le_sum_of_mem (f := f) hx'
        rw [hyz]; omega
      · have hy' : y ∈ zs := by
          rcases List.mem_cons.mp hy with h | h
          · exact absurd h hyz
          · exact h
        have := ih hx' hy'
        omega

theorem two_le_length_of_mem {l : List Nat} {a b : Nat} (ha : a ∈ l) (hb : b ∈ l) (hne : a ≠ b) : 2 ≤ l.length := by
  match l, ha, hb with
  | [x], ha, hb =>
    simp only [List.mem_singleton] at ha hb
    exact absurd (ha.trans hb.symm) hne
  | _ :: _ :: _, _, _ => simp

/-- with every residual degree a key, `available_nodes <= 1` says: at most one node keeps residual degree -/
theorem available_le_one {keys resid : List Nat} (hc : MCover keys resid) (hav : availableNodes keys resid ≤ 1)
    {a b : Nat} (ha : 0 < rd resid a) (hb : 0 < rd resid b) : a = b := by
  apply Decidable.byContradiction
  intro hne
  unfold rd at ha hb
  cases ea : resid[a]? with
  | none => simp [ea] at ha
  | some da =>
    cases eb : resid[b]? with
    | none => simp [eb] at hb
    | some db =>
      simp only [ea, eb, Option.getD_some] at ha hb
      have ka : da ∈ keys.filter (fun d => 0 < d) := by simp [hc a da ea, ha]
      have kb : db ∈ keys.filter (fun d => 0 < d) := by simp [hc b db eb, hb]
      have ma : a ∈ bucket resid da := mem_bucket.mpr ea
      have mb : b ∈ bucket resid db := mem_bucket.mpr eb
      unfold availableNodes at hav
      by_cases hd : da = db
      · subst hd
        have h2 := two_le_length_of_mem ma mb hne
        have := le_sum_of_mem (f := fun d => (bucket resid d).length) ka
        omega
      · have h1 := two_le_sum_of_mem (f := fun d => (bucket resid d).length) ka kb hd
        have la := List.length_pos_of_mem ma
        have lb := List.length_pos_of_mem mb
        omega

/-- the converse: two nodes with residual degree make `available_nodes > 1` and some key is not `0` -/
theorem available_ge_two {keys resid : List Nat} (hc : MCover keys resid) {a b : Nat} (hne : a ≠ b)
    (ha : 0 < rd resid a) (hb : 0 < rd resid b) :
    1 < availableNodes keys resid ∧ keys.any (fun d => d != 0) = true := by
  unfold rd at ha hb
  cases ea : resid[a]? with
  | none => simp [ea] at ha
  | some da =>
    cases eb : resid[b]? with
    | none => simp [eb] at hb
    | some db =>
      simp only [ea, eb, Option.getD_some] at ha hb
      have ka : da ∈ keys.filter (fun d => 0 < d) := by simp [hc a da ea, ha]
      have kb : db ∈ keys.filter (fun d => 0 < d) := by simp [hc b db eb, hb]
      have ma : a ∈ bucket resid da := mem_bucket.mpr ea
      have mb : b ∈ bucket resid db := mem_bucket.mpr eb
      refine ⟨?_, ?_⟩
      · unfold availableNodes
        by_cases hd : da = db
        · subst hd
          have h2 := two_le_length_of_mem ma mb hne
          have := le_sum_of_mem (f := fun d => (bucket resid d).length) ka
          omega
        · have h1 := two_le_sum_of_mem (f := fun d => (bucket resid d).length) ka kb hd
          have la := List.length_pos_of_mem ma
          have lb := List.length_pos_of_mem mb
          omega
      · rw [List.any_eq_true]
        exact ⟨da, hc a da ea, by simp; omega⟩

/-- the loops of `force_deg_seq and not force_dim_seq` returned: what `matchFull` answers is the second phase -/
theorem matchFull_of_loop {degSeq : List Nat} {dimSeq : List (Nat × Nat)} {picks : List (List Nat)} {st1 : MState}
    (h : matchLoop true false dimSeq (matchInit degSeq picks) = some st1) :
    matchFull degSeq dimSeq true false picks = phase2 st1 := by
  have h1 := matchLoopR_toOption true false dimSeq (matchInit degSeq picks)
  unfold matchFull
  cases hr : matchLoopR true false dimSeq (matchInit degSeq picks) with
  | done st =>
    rw [hr, h] at h1
    simp only [MRes.toOption, Option.some.injEq] at h1
    simp [h1]
  | raised ok =>
    rw [hr, h] at h1
    simp [MRes.toOption] at h1

/-! ## sessions over the five kinds of calls -/

theorem callStepX_snd_local (s s' : Sampler) (c : CallX) : (callStepX s c).2 = (callStepX s' c).2 := by
  unfold callStepX
  cases c.args <;> rfl

theorem runSessionX_outs (s : Sampler) (cs : List CallX) :
    (runSessionX s cs).map (·.1) = cs.map freshCallX := by
  induction cs generalizing s with
  | nil => rfl
  | cons c cs ih =>
    simp only [runSessionX, List.map_cons, ih, freshCallX]
    rw [callStepX_snd_local s ⟨none⟩ c]

/-- what a raising run of `_match_sequences` leaves is never `True` -/
theorem flagOfRes_raised (ok : Bool) : flagOfRes (.raised ok) = none ∨ flagOfRes (.raised ok) = some false := by
  cases ok <;> simp [flagOfRes]

theorem seqCallX_of_old {degSeq : List Nat} {dimSeq : List (Nat × Nat)} {fd fm : Bool} (fixed : Config) (t : OwnTape)
    (s : Sampler) (hp : (fd && !fm) = false) :
    (seqCallX degSeq dimSeq fd fm fixed t).2 = (seqCall true s degSeq dimSeq fd fm fixed t).2 ∧
      ((seqCall true s degSeq dimSeq fd fm fixed t).2 ≠ none →
        (seqCallX degSeq dimSeq fd fm fixed t).1 = (seqCall true s degSeq dimSeq fd fm fixed t).1) := by
  have h1 := matchFull_toOption degSeq dimSeq fd fm t.picks hp
  unfold seqCallX seqCall
  cases hr : matchFull degSeq dimSeq fd fm t.picks with
  | done st =>
    rw [hr] at h1
    simp only [MRes.toOption] at h1
    simp [← h1, flagAfter_reset]
  | raised ok =>
    rw [hr] at h1
    simp only [MRes.toOption] at h1
    simp [← h1]

end C16
