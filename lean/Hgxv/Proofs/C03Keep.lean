import Hgxv.Proofs.C03Ref
/-! # C03 - closed form of `remove_node(n, keep_edges=True)` on the map `(time, node set) ↦ (weight, metadata)`

`Spec.removeNode` is defined operationally (a fold of `dropKey` over the records containing `n`, in creation order, each
step = delete + re-insert, as the Python code does).  Here the result is characterised record by record, independently of
the processing order: every record containing `n` moves onto its node set minus `n` and MERGES with the record that is
already there (weights add when weighted, the moved record's metadata wins), a record that would become empty is dropped,
every other record is untouched.  (Seeded change C03-c1 re-keyed the records in place and lost exactly this merge.) -/
namespace C03
open AL

/-- the key onto which `remove_node(n, keep_edges=True)` moves the record `k` -/
def shrinkKey (n : Node) (k : Key) : Key := (k.1, k.2.filter (· != n))

/-- what the invariant of the stores gives for the map: distinct canonical keys, unweighted ⇒ every weight is 1 -/
structure SpecWF (sp : Spec) : Prop where
  nodup : (keys sp.recs).Nodup
  canonK : ∀ k, (get? sp.recs k).isSome → Sorted k.2 ∧ k.2.Nodup
  unw : sp.weighted = false → ∀ k v, get? sp.recs k = some v → v.1 = one

theorem specWF_abs (s : Store) (h : Inv s) : SpecWF (abs s) := by
  refine ⟨?_, ?_, ?_⟩
  · show (keys (records s)).Nodup
    rw [keys_records]; exact h.keysNodup
  · intro k hk
    have : (get? s.edgeList k).isSome := by rw [← isSome_recs]; exact hk
    obtain ⟨id, hid⟩ := Option.isSome_iff_exists.mp this
    exact h.keyCanon k id hid
  · intro hw k v hv
    have hr : get? (records s) k = some v := hv
    rw [get?_records] at hr
    cases hg : get? s.edgeList k with
    | none => rw [hg] at hr; cases hr
    | some id =>
      rw [hg] at hr
      simp only [Option.map_some, Option.some.injEq] at hr
      subst hr
      have hs : (get? s.rev id).isSome := by rw [h.rev_of_edge k id hg]; rfl
      have hws := (h.wKeys id).mpr hs
      obtain ⟨w, hw2⟩ := Option.isSome_iff_exists.mp hws
      have := h.unw hw id w hw2
      simp [valOf, hw2, this]

theorem mem_filter_ne (l : List Nat) (n x : Nat) : x ∈ l.filter (· != n) ↔ x ∈ l ∧ x ≠ n := by
  simp [List.mem_filter]

/-- two canonical node lists containing `n` with the same rest are equal -/
theorem shrink_inj (n : Node) (l1 l2 : List Nat) (s1 : Sorted l1) (s2 : Sorted l2) (d1 : l1.Nodup) (d2 : l2.Nodup)
    (m1 : n ∈ l1) (m2 : n ∈ l2) (h : l1.filter (· != n) = l2.filter (· != n)) : l1 = l2 := by
  apply sorted_ext l1 l2 s1 s2 d1 d2
  intro x
  by_cases hx : x = n
  · subst hx; exact ⟨fun _ => m2, fun _ => m1⟩
  · have a1 := mem_filter_ne l1 n x
    have a2 := mem_filter_ne l2 n x
    rw [h] at a1
    constructor
    · intro hm; exact (a2.mp (a1.mpr ⟨hm, hx⟩)).1
    · intro hm; exact (a1.mp (a2.mpr ⟨hm, hx⟩)).1

theorem shrinkKey_inj (n : Node) (k1 k2 : Key) (c1 : Sorted k1.2 ∧ k1.2.Nodup) (c2 : Sorted k2.2 ∧ k2.2.Nodup)
    (m1 : n ∈ k1.2) (m2 : n ∈ k2.2) (h : shrinkKey n k1 = shrinkKey n k2) : k1 = k2 := by
  obtain ⟨t1, e1⟩ := k1
  obtain ⟨t2, e2⟩ := k2
  simp only [shrinkKey, Prod.mk.injEq] at h
  obtain ⟨ht, he⟩ := h
  have := shrink_inj n e1 e2 c1.1 c2.1 c1.2 c2.2 m1 m2 he
  simp [ht, this]

theorem not_mem_shrink (n : Node) (k : Key) : n ∉ (shrinkKey n k).2 := by
  simp [shrinkKey, List.mem_filter]

/-- one step of the loop, as a map update -/
theorem dropKey_keep_eq (sp : Spec) (hwf : SpecWF sp) (n : Node) (k : Key) (w : Int) (md : Meta)
    (hk : get? sp.recs k = some (w, md)) :
    Spec.dropKey sp n true k =
      if (shrinkKey n k).2 = [] then { sp with recs := erase sp.recs k }
      else Spec.addKey { sp with recs := erase sp.recs k } (shrinkKey n k) w md := by
  have hcan := hwf.canonK k (by simp [hk])
  have hsorted : canon (k.2.filter (· != n)) = k.2.filter (· != n) :=
    canon_of_sorted _ (sorted_filter _ _ hcan.1)
  have hone : sp.weighted = false → w = one := fun hw => hwf.unw hw k (w, md) hk
  unfold Spec.dropKey
  simp only [hk, shrinkKey]
  by_cases he : k.2.filter (· != n) = []
  · simp [he]
  · simp only [he, if_false, List.isEmpty_iff, Bool.true_and, Bool.not_eq_true', decide_eq_false_iff_not,
      not_false_eq_true, if_true, decide_false, Bool.not_false]
    unfold Spec.addEdge
    have hrej : (!sp.weighted && (some w).isSome && (some w != some one)) = false := by
      cases hw : sp.weighted
      · simp [hone hw]
      · simp
    simp only [hrej, Bool.false_eq_true, if_false]
    have hneg : ¬ ((k.1 : Int) < 0) := by omega
    simp only [hneg, if_false, Int.toNat_natCast, hsorted, Option.getD_some]
    have hemp : (k.2.filter (· != n)).isEmpty = false := by
      cases hf : k.2.filter (· != n) with
      | nil => exact absurd hf he
      | cons a t => rfl
    rw [if_pos hemp]

theorem recs_addKey (sp : Spec) (k : Key) (w : Int) (md : Meta) :
    (Spec.addKey sp k w md).recs = AL.set sp.recs k (Spec.recVal sp.weighted (get? sp.recs k) w md) := rfl

theorem weighted_dropKey (sp : Spec) (n : Node) (k : Key) : (Spec.dropKey sp n true k).weighted = sp.weighted := by
  unfold Spec.dropKey
  cases hg : get? sp.recs k with
  | none => rfl
  | some v =>
    obtain ⟨w, md⟩ := v
    simp only
    split
    · unfold Spec.addEdge
      simp only
      split
      · rfl
      · split
        · rfl
        · rfl
    · rfl

/-- the records after one step -/
theorem get?_dropKey (sp : Spec) (hwf : SpecWF sp) (n : Node) (k : Key) (w : Int) (md : Meta)
    (hk : get? sp.recs k = some (w, md)) (hn : n ∈ k.2) (k' : Key) :
    get? (Spec.dropKey sp n true k).recs k' =
      if k' = k then none
      else if k' = shrinkKey n k ∧ k'.2 ≠ [] then some (Spec.recVal sp.weighted (get? sp.recs k') w md)
      else get? sp.recs k' := by
  have hne : shrinkKey n k ≠ k := by
    intro h
    have := not_mem_shrink n k
    rw [h] at this
    exact this hn
  rw [dropKey_keep_eq sp hwf n k w md hk]
  by_cases he : (shrinkKey n k).2 = []
  · simp only [he, if_true]
    rw [get?_erase _ _ _ hwf.nodup]
    by_cases h1 : k' = k
    · simp [h1]
    · have : ¬ (k = k') := fun h => h1 h.symm
      simp only [this, h1, if_false]
      by_cases h2 : k' = shrinkKey n k
      · subst h2; simp [he]
      · simp [h2]
  · simp only [he, if_false]
    rw [recs_addKey]
    simp only
    rw [get?_set, get?_erase _ _ _ hwf.nodup]
    by_cases h1 : k' = k
    · subst h1
      simp only [if_true]
      have : ¬ (shrinkKey n k' = k') := hne
      simp only [this, if_false]
      rw [get?_erase _ _ _ hwf.nodup]; simp
    · have h1' : ¬ (k = k') := fun h => h1 h.symm
      simp only [h1, if_false]
      by_cases h2 : k' = shrinkKey n k
      · subst h2
        have : ¬ (k = shrinkKey n k) := fun h => hne h.symm
        simp [this, he]
      · have h2' : ¬ (shrinkKey n k = k') := fun h => h2 h.symm
        simp only [h2', h2, false_and, if_false]
        rw [get?_erase _ _ _ hwf.nodup]; simp [h1']

theorem recVal_unw (old : Option (Int × Meta)) (w : Int) (md : Meta) (ho : ∀ v, old = some v → v.1 = one) (hw : w = one) :
    (Spec.recVal false old w md).1 = one := by
  cases old with
  | none => simpa [Spec.recVal] using hw
  | some v => obtain ⟨w0, m0⟩ := v; simpa [Spec.recVal] using ho (w0, m0) rfl

theorem specWF_dropKey (sp : Spec) (hwf : SpecWF sp) (n : Node) (k : Key) (w : Int) (md : Meta)
    (hk : get? sp.recs k = some (w, md)) (hn : n ∈ k.2) : SpecWF (Spec.dropKey sp n true k) := by
  have hcan := hwf.canonK k (by simp [hk])
  have hg := get?_dropKey sp hwf n k w md hk hn
  refine ⟨?_, ?_, ?_⟩
  · rw [dropKey_keep_eq sp hwf n k w md hk]
    split
    · exact keys_erase_nodup _ _ hwf.nodup
    · rw [recs_addKey]; exact keys_set_nodup _ _ _ (keys_erase_nodup _ _ hwf.nodup)
  · intro k' hs
    rw [hg k'] at hs
    by_cases h1 : k' = k
    · simp [h1] at hs
    · simp only [h1, if_false] at hs
      by_cases h2 : k' = shrinkKey n k ∧ k'.2 ≠ []
      · rw [h2.1]
        exact ⟨sorted_filter _ _ hcan.1, hcan.2.filter _⟩
      · simp only [h2, if_false] at hs
        exact hwf.canonK k' hs
  · rw [weighted_dropKey]
    intro hw k' v hv
    rw [hg k'] at hv
    by_cases h1 : k' = k
    · simp [h1] at hv
    · simp only [h1, if_false] at hv
      by_cases h2 : k' = shrinkKey n k ∧ k'.2 ≠ []
      · rw [if_pos h2] at hv
        have hv' := Option.some.inj hv
        rw [← hv', hw]
        exact recVal_unw _ w md (fun v hv' => hwf.unw hw k' v hv') (hwf.unw hw k (w, md) hk)
      · simp only [h2, if_false] at hv
        exact hwf.unw hw k' v hv

/-- **The loop, record by record.**  `ks`: distinct present keys containing `n` (in any order). -/
theorem dropLoop_keep (n : Node) (ks : List Key) :
    ∀ (sp : Spec), SpecWF sp → ks.Nodup → (∀ k ∈ ks, (get? sp.recs k).isSome ∧ n ∈ k.2) →
    let sp' := ks.foldl (fun sp k => Spec.dropKey sp n true k) sp
    sp'.weighted = sp.weighted ∧ SpecWF sp' ∧
    (∀ k' ∈ ks, get? sp'.recs k' = none) ∧
    (∀ k', k' ∉ ks → (∀ k ∈ ks, shrinkKey n k = k' → k'.2 = []) → get? sp'.recs k' = get? sp.recs k') ∧
    (∀ k ∈ ks, ∀ w md, get? sp.recs k = some (w, md) → (shrinkKey n k).2 ≠ [] →
      get? sp'.recs (shrinkKey n k) = some (Spec.recVal sp.weighted (get? sp.recs (shrinkKey n k)) w md)) := by
  induction ks with
  | nil =>
    intro sp hwf _ _
    refine ⟨rfl, hwf, ?_, ?_, ?_⟩
    · intro k' hk'; cases hk'
    · intro k' _ _; rfl
    · intro k hk; cases hk
  | cons k0 rest ih =>
    intro sp hwf hnd hall
    simp only [List.foldl_cons]
    have hnd' := List.nodup_cons.mp hnd
    obtain ⟨h0s, h0n⟩ := hall k0 List.mem_cons_self
    obtain ⟨v0, hv0⟩ := Option.isSome_iff_exists.mp h0s
    obtain ⟨w0, m0⟩ := v0
    have hstep := get?_dropKey sp hwf n k0 w0 m0 hv0 h0n
    have hwf1 := specWF_dropKey sp hwf n k0 w0 m0 hv0 h0n
    have hw1 := weighted_dropKey sp n k0
    have hc0 := hwf.canonK k0 h0s
    -- the other keys of the list are untouched by the first step
    have hrest : ∀ k ∈ rest, get? (Spec.dropKey sp n true k0).recs k = get? sp.recs k := by
      intro k hk
      have hkn := (hall k (List.mem_cons_of_mem _ hk)).2
      have h1 : k ≠ k0 := fun h => hnd'.1 (h ▸ hk)
      have h2 : k ≠ shrinkKey n k0 := fun h => (not_mem_shrink n k0) (h ▸ hkn)
      rw [hstep k]; simp [h1, h2]
    have hall1 : ∀ k ∈ rest, (get? (Spec.dropKey sp n true k0).recs k).isSome ∧ n ∈ k.2 := by
      intro k hk
      rw [hrest k hk]
      exact hall k (List.mem_cons_of_mem _ hk)
    obtain ⟨iw, iwf, ia, ib, ic⟩ := ih (Spec.dropKey sp n true k0) hwf1 hnd'.2 hall1
    -- no key of the rest shrinks onto k0, nor onto the target of k0
    have hno0 : ∀ k ∈ rest, shrinkKey n k = k0 → k0.2 = [] := by
      intro k _ h
      exact absurd h0n (h ▸ not_mem_shrink n k)
    have hnoT : ∀ k ∈ rest, shrinkKey n k = shrinkKey n k0 → (shrinkKey n k0).2 = [] := by
      intro k hk h
      have hk' := hall k (List.mem_cons_of_mem _ hk)
      have := shrinkKey_inj n k k0 (hwf.canonK k hk'.1) hc0 hk'.2 h0n h
      exact absurd (this ▸ hk) hnd'.1
    refine ⟨iw.trans hw1, iwf, ?_, ?_, ?_⟩
    · intro k' hk'
      rcases List.mem_cons.mp hk' with h | h
      · subst h
        rw [ib k' hnd'.1 hno0, hstep k']; simp
      · exact ia k' h
    · intro k' hk' hno
      have h1 : k' ≠ k0 := fun h => hk' (h ▸ List.mem_cons_self)
      have h2 : k' ∉ rest := fun h => hk' (List.mem_cons_of_mem _ h)
      rw [ib k' h2 (fun k hk => hno k (List.mem_cons_of_mem _ hk)), hstep k']
      simp only [h1, if_false]
      by_cases h3 : k' = shrinkKey n k0 ∧ k'.2 ≠ []
      · exact absurd (hno k0 List.mem_cons_self h3.1.symm) h3.2
      · simp [h3]
    · intro k hk w md hkv hne
      rcases List.mem_cons.mp hk with h | h
      · subst h
        rw [hv0] at hkv
        simp only [Option.some.injEq, Prod.mk.injEq] at hkv
        obtain ⟨e1, e2⟩ := hkv
        subst e1 e2
        have hT : shrinkKey n k ∉ rest := fun hm => (not_mem_shrink n k) ((hall (shrinkKey n k) (List.mem_cons_of_mem _ hm)).2)
        rw [ib (shrinkKey n k) hT (fun k2 hk2 h2 => hnoT k2 hk2 h2), hstep (shrinkKey n k)]
        have hne0 : shrinkKey n k ≠ k := by
          intro h
          have := not_mem_shrink n k
          rw [h] at this
          exact this h0n
        simp [hne0, hne]
      · have hk' := hall k (List.mem_cons_of_mem _ h)
        have hkk0 : k ≠ k0 := fun e => hnd'.1 (e ▸ h)
        have hTne : shrinkKey n k ≠ shrinkKey n k0 := by
          intro e
          exact hkk0 (shrinkKey_inj n k k0 (hwf.canonK k hk'.1) hc0 hk'.2 h0n e)
        have hTk0 : shrinkKey n k ≠ k0 := fun e => (not_mem_shrink n k) (e ▸ h0n)
        have h1 : get? (Spec.dropKey sp n true k0).recs (shrinkKey n k) = get? sp.recs (shrinkKey n k) := by
          rw [hstep (shrinkKey n k)]; simp [hTk0, hTne]
        have := ic k h w md (by rw [hrest k h]; exact hkv) hne
        rw [this, h1, hw1]

/-- the keys processed by `Spec.removeNode`: the present keys containing `n`, each once -/
theorem removeNode_keys (sp : Spec) (hwf : SpecWF sp) (n : Node) :
    let ks := (sp.recs.filter (fun p => p.1.2.contains n)).map (·.1)
    ks.Nodup ∧ (∀ k, k ∈ ks ↔ ((get? sp.recs k).isSome ∧ n ∈ k.2)) := by
  intro ks
  have hsub : ks.Sublist (keys sp.recs) := by
    simp only [ks, keys]
    exact List.Sublist.map _ List.filter_sublist
  refine ⟨hsub.nodup hwf.nodup, ?_⟩
  intro k
  constructor
  · intro hk
    obtain ⟨p, hp, hpk⟩ := List.mem_map.mp hk
    obtain ⟨hp1, hp2⟩ := List.mem_filter.mp hp
    subst hpk
    refine ⟨(mem_keys_iff _ _).mp (List.mem_map.mpr ⟨p, hp1, rfl⟩), ?_⟩
    simpa using hp2
  · rintro ⟨hs, hn⟩
    obtain ⟨v, hv⟩ := Option.isSome_iff_exists.mp hs
    have hm := mem_of_get? _ _ _ hv
    exact List.mem_map.mpr ⟨(k, v), List.mem_filter.mpr ⟨hm, by simpa using hn⟩, rfl⟩

/-- **`remove_node(n, keep_edges=True)` on the map, record by record** (for a node `n` of a well-formed map). -/
theorem removeNode_keep_spec (sp : Spec) (hwf : SpecWF sp) (n : Node) (hn : (get? sp.nodes n).isSome) :
    (Spec.removeNode sp n true).2 = .ok ∧
    (Spec.removeNode sp n true).1.weighted = sp.weighted ∧
    (∀ k', n ∈ k'.2 → get? (Spec.removeNode sp n true).1.recs k' = none) ∧
    (∀ k', n ∉ k'.2 → (∀ k, (get? sp.recs k).isSome → n ∈ k.2 → shrinkKey n k = k' → k'.2 = []) →
      get? (Spec.removeNode sp n true).1.recs k' = get? sp.recs k') ∧
    (∀ k w md, get? sp.recs k = some (w, md) → n ∈ k.2 → (shrinkKey n k).2 ≠ [] →
      get? (Spec.removeNode sp n true).1.recs (shrinkKey n k) =
        some (Spec.recVal sp.weighted (get? sp.recs (shrinkKey n k)) w md)) := by
  obtain ⟨hnd, hmem⟩ := removeNode_keys sp hwf n
  obtain ⟨lw, _, la, lb, lc⟩ := dropLoop_keep n _ sp hwf hnd (fun k hk => (hmem k).mp hk)
  unfold Spec.removeNode
  simp only [hn, if_true]
  refine ⟨trivial, lw, ?_, ?_, ?_⟩
  · intro k' hk'
    by_cases hin : k' ∈ (sp.recs.filter (fun p => p.1.2.contains n)).map (·.1)
    · exact la k' hin
    · have hnone : get? sp.recs k' = none := by
        cases hg : get? sp.recs k' with
        | none => rfl
        | some v => exact absurd ((hmem k').mpr ⟨by simp [hg], hk'⟩) hin
      rw [lb k' hin (fun k _ h => absurd hk' (h ▸ not_mem_shrink n k))]
      exact hnone
  · intro k' hk' hno
    have hin : k' ∉ (sp.recs.filter (fun p => p.1.2.contains n)).map (·.1) := fun h => hk' ((hmem k').mp h).2
    exact lb k' hin (fun k hk h => hno k ((hmem k).mp hk).1 ((hmem k).mp hk).2 h)
  · intro k w md hk hkn hne
    exact lc k ((hmem k).mpr ⟨by simp [hk], hkn⟩) w md hk hne

/-- non-vacuity: a weighted hypergraph in which node 1 sits in `{1,2,3}@5` (weight 2, metadata) next to `{2,3}@5`
(weight 3) and in `{1}@6` -/
def keepOps : List Op := [
  .new 0 true,
  .on 0 (.addEdge [1, 2, 3] (.int 5) (some 8) (some [(0, 1)])),
  .on 0 (.addEdge [3, 2] (.int 5) (some 12) none),
  .on 0 (.addEdge [1] (.int 6) none none),
  .on 0 (.addEdge [1, 4] (.int 6) (some 2) none)]

def keepStore : Store := (get? (run [] keepOps) 0).getD (Store.new false)

end C03
