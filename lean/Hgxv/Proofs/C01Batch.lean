import Hgxv.Proofs.C01Cor
/-! # C01 - a batched call is the run of its members (strengthening round d)

`add_nodes`, `add_edges`, `remove_edges`, `remove_nodes` validate the whole batch and then loop over the single
calls.  Here: whenever the batched call is accepted, running its members one call each through `apply` - stopping at
the first rejection, as a caller would - rejects nowhere and ends in the very same store.  For `add_edges` with weights
the run starts from the store after the EMPTY batch `add_edges([], weights=[])` (the only thing a batch with weights does
beyond its members: it switches an unweighted hypergraph to weighted); the `i`-th member gets `weights[i]` and
`metadata[i]`, whatever their magnitude (`Int`).  Core Lean only. -/
open AL
namespace C01

theorem seqOps_map {α β σ : Type} (f : σ → β → σ × Out) (g : α → β) :
    ∀ (xs : List α) (s : σ), seqOps f s (xs.map g) = seqOps (fun s x => f s (g x)) s xs := by
  intro xs
  induction xs with
  | nil => intro s; rfl
  | cons x xs ih =>
    intro s
    simp only [List.map_cons, seqOps]
    cases h : f s (g x) with
    | mk s' o => cases o <;> simp only [ih]

theorem seqOps_total {α σ : Type} (f : σ → α → σ × Out) (g : σ → α → σ) (h : ∀ s a, f s a = (g s a, .ok)) :
    ∀ (xs : List α) (s : σ), seqOps f s xs = (xs.foldl g s, .ok) := by
  intro xs
  induction xs with
  | nil => intro s; rfl
  | cons x xs ih => intro s; simp only [seqOps, h, List.foldl_cons, ih]

/-- the `i`-th triple of the loop of `add_edges`: the `i`-th hyperedge with `weights[i]` and `metadata[i]` -/
theorem zipArgs_getElem? : ∀ (raws : List (List Nat)) (ws : Option (List Int)) (mds : Option (List Meta)) (i : Nat),
    (zipArgs raws ws mds)[i]? = raws[i]?.map fun r => (r, ws.bind (·[i]?), mds.bind (·[i]?)) := by
  intro raws
  induction raws with
  | nil => intro ws mds i; simp [zipArgs]
  | cons r rs ih =>
    intro ws mds i
    cases i with
    | zero =>
      cases ws <;> cases mds <;> simp [zipArgs, List.head?_eq_getElem?]
    | succ j =>
      simp only [zipArgs, List.getElem?_cons_succ, ih]
      cases ws <;> cases mds <;> simp

theorem zipArgs_length : ∀ (raws : List (List Nat)) (ws : Option (List Int)) (mds : Option (List Meta)),
    (zipArgs raws ws mds).length = raws.length := by
  intro raws
  induction raws with
  | nil => intro ws mds; rfl
  | cons r rs ih => intro ws mds; simp [zipArgs, ih]

/-- `add_nodes` -/
theorem addNodes_singles (s : Store) (ns : List Node) (mds : Option (List (Node × Meta)))
    (h : (apply s (.addNodes ns mds)).2 = .ok) :
    seqOps apply s (ns.map fun n => Op.addNode n (mds.bind fun t => get? t n)) = apply s (.addNodes ns mds) := by
  rw [seqOps_map]
  show _ = addNodes s ns mds
  have h' : (addNodes s ns mds).2 = .ok := h
  cases mds with
  | none =>
    exact seqOps_total (fun s x => apply s (Op.addNode x (none.bind fun t => get? t x)))
      (fun s n => addNode s n none) (fun _ _ => rfl) ns s
  | some t =>
    unfold addNodes at h' ⊢
    simp only at h' ⊢
    by_cases hv : (ns.all fun n => (get? t n).isSome) = true
    · rw [if_pos hv]
      exact seqOps_total (fun s x => apply s (Op.addNode x ((some t).bind fun t => get? t x)))
        (fun s n => addNode s n (get? t n)) (fun _ _ => rfl) ns s
    · rw [if_neg hv] at h'; cases h'

/-- the empty batch with the same kind of `weights` argument: switches to weighted, adds nothing -/
theorem addEdges_empty (s : Store) (ws : Option (List Int)) :
    (apply s (.addEdges [] (ws.map fun _ => []) none)).1 = { s with weighted := s.weighted || ws.isSome } := by
  cases ws <;> rfl

/-- `add_edges` -/
theorem addEdges_singles (s : Store) (raws : List (List Nat)) (ws : Option (List Int)) (mds : Option (List Meta))
    (h : (apply s (.addEdges raws ws mds)).2 = .ok) :
    seqOps apply (apply s (.addEdges [] (ws.map fun _ => []) none)).1
      ((zipArgs raws ws mds).map fun x => Op.addEdge x.1 (if ws.isSome then x.2.1 else none) x.2.2)
      = apply s (.addEdges raws ws mds) := by
  rw [addEdges_empty, seqOps_map]
  show _ = addEdges s raws ws mds
  have h' : (addEdges s raws ws mds).2 = .ok := h
  unfold addEdges at h' ⊢
  by_cases hv : addEdgesValid raws ws mds = true
  · rw [if_pos hv]; rfl
  · rw [if_neg hv] at h'; cases h'

/-- `remove_edges` -/
theorem removeEdges_singles (s : Store) (raws : List (List Nat)) (h : (apply s (.removeEdges raws)).2 = .ok) :
    seqOps apply s (raws.map Op.removeEdge) = apply s (.removeEdges raws) := by
  rw [seqOps_map]
  show _ = removeEdges s raws
  have h' : (removeEdges s raws).2 = .ok := h
  unfold removeEdges at h' ⊢
  split
  · rfl
  · rename_i hv; rw [if_neg hv] at h'; cases h'

/-- `remove_nodes` -/
theorem removeNodes_singles (s : Store) (ns : List Node) (keep : Bool) (h : (apply s (.removeNodes ns keep)).2 = .ok) :
    seqOps apply s (ns.map fun n => Op.removeNode n keep) = apply s (.removeNodes ns keep) := by
  rw [seqOps_map]
  show _ = removeNodes s ns keep
  have h' : (removeNodes s ns keep).2 = .ok := h
  unfold removeNodes at h' ⊢
  split
  · rfl
  · rename_i hv; rw [if_neg hv] at h'; cases h'

end C01
