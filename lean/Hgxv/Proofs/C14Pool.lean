import Hgxv.Proofs.C14Shuffle
import Hgxv.Model.C14Trace
import Mathlib.Algebra.BigOperators.Group.List.Lemmas
import Mathlib.Tactic.Tauto
/-! The node pool of `random_shuffle` and the option `preserve_degree`; the validation paths. -/
namespace C14

/-- the multiplicities over the distinct members add up to the length -/
theorem sum_count_dedup (l : List Nat) : ((dedup l).map (fun x => l.count x)).sum = l.length := by
  have hp : (dedup l).Perm l.dedup :=
    (List.perm_ext_iff_of_nodup (nodup_dedup l) (List.nodup_dedup l)).mpr
      (by intro a; rw [mem_dedup, List.mem_dedup])
  rw [(hp.map _).sum_nat]
  exact List.sum_map_count_dedup_eq_length l

theorem poolWeights_length (cur : List (Edge × Rec)) (idx : List Nat) (preserve : Bool) :
    (poolWeights cur idx preserve).length = (pool cur idx).length := by simp [poolWeights]

/-- every weight handed to `np.random.choice` is at least 1 (the probabilities are positive) -/
theorem poolWeights_pos (cur : List (Edge × Rec)) (idx : List Nat) (preserve : Bool) :
    ∀ w ∈ poolWeights cur idx preserve, 1 ≤ w := by
  intro w hw
  simp only [poolWeights, List.mem_map] at hw
  obtain ⟨x, hx, rfl⟩ := hw
  split
  · have : x ∈ (selected cur idx 0).flatten := by simpa [pool, mem_dedup] using hx
    exact List.count_pos_iff.mpr this
  · exact Nat.le_refl 1

/-- `preserve_degree=False`: uniform weights -/
theorem poolWeights_uniform (cur : List (Edge × Rec)) (idx : List Nat) :
    ∀ w ∈ poolWeights cur idx false, w = 1 := by
  intro w hw
  simp only [poolWeights, List.mem_map] at hw
  obtain ⟨x, _, rfl⟩ := hw
  simp

/-- `preserve_degree=True`: the weights add up to the number of node slots of the rewired hyperedges -/
theorem poolWeights_sum (cur : List (Edge × Rec)) (idx : List Nat) :
    (poolWeights cur idx true).sum = ((selected cur idx 0).map List.length).sum := by
  simp only [poolWeights, pool, if_true]
  rw [sum_count_dedup, List.length_flatten]

/-- a rewired hyperedge with distinct nodes fits into the pool: `np.random.choice(pool, size, replace=False)` has enough
    members to choose from -/
theorem pool_large_enough (cur : List (Edge × Rec)) (idx : List Nat) (e : Edge) (he : e ∈ selected cur idx 0)
    (hnd : e.Nodup) : e.length ≤ (pool cur idx).length := by
  apply List.Nodup.length_le_of_subset hnd
  intro x hx
  exact (mem_pool cur idx x).mpr ⟨e, he, hx⟩

/-! ## validation paths -/

theorem sfError_none_iff (sizes : List Nat) (counts : List Int) (scaleKeys : List Nat) (correlated : Bool)
    (corr : Option Rat) (shuffles : Int) :
    sfError sizes counts scaleKeys correlated corr shuffles = none ↔
      sfValid sizes counts scaleKeys correlated corr shuffles = true := by
  unfold sfError sfValid
  cases corr <;> (repeat' split) <;> simp_all <;> tauto

theorem sfError_range (sizes : List Nat) (counts : List Int) (scaleKeys : List Nat) (correlated : Bool)
    (corr : Option Rat) (shuffles : Int) (i : Nat)
    (h : sfError sizes counts scaleKeys correlated corr shuffles = some i) : 1 ≤ i ∧ i ≤ 8 := by
  unfold sfError at h
  (repeat' split at h) <;> simp at h <;> omega

end C14
