import Hgxv.Model.C11
/-! # C11 - `applyPerm` on masks moves bit `i` to bit `t[i]` (core Lean only) -/
namespace C11

theorem testBit_toMask (bs : List Bool) (j : Nat) : (toMask bs).testBit j = bs.getD j false := by
  induction bs generalizing j with
  | nil => simp [toMask]
  | cons b bs ih =>
    cases j with
    | zero =>
      simp only [toMask, Nat.testBit_zero, List.getD_cons_zero]
      cases b <;> simp <;> omega
    | succ j =>
      rw [Nat.testBit_succ, List.getD_cons_succ, ← ih j]
      congr 1
      simp only [toMask]
      cases b <;> simp <;> omega

theorem testBit_moveBit (m i j b : Nat) : (moveBit m i j).testBit b = (decide (b = j) && m.testBit i) := by
  unfold moveBit
  show ((m >>> i &&& 1) <<< j).testBit b = _
  rw [Nat.testBit_shiftLeft, Nat.testBit_and, Nat.testBit_shiftRight]
  by_cases hbj : b = j
  · subst hbj; simp
  · by_cases hge : b ≥ j
    · have : b - j ≠ 0 := by omega
      have h1 : Nat.testBit 1 (b - j) = false := by
        cases hb : b - j with
        | zero => exact absurd hb this
        | succ k => rw [Nat.testBit_succ]; simp
      simp [hbj, h1]
    · simp [hbj, hge]

/-- does some entry `t[p]` equal `j` with bit `i+p` of `m` set? -/
def hit : List Nat → Nat → Nat → Nat → Bool
  | [], _, _, _ => false
  | t :: ts, i, m, j => (decide (j = t) && m.testBit i) || hit ts (i+1) m j

theorem testBit_applyPermGo (ts : List Nat) : ∀ (i m acc j : Nat),
    (applyPermGo ts i m acc).testBit j = (acc.testBit j || hit ts i m j) := by
  induction ts with
  | nil => intro i m acc j; simp [applyPermGo, hit]
  | cons t ts ih =>
    intro i m acc j
    simp only [applyPermGo, hit]
    rw [ih]
    show ((acc ||| moveBit m i t).testBit j || hit ts (i + 1) m j) = _
    rw [Nat.testBit_or, testBit_moveBit, Bool.or_assoc]

theorem hit_iff (ts : List Nat) : ∀ (i m j : Nat),
    hit ts i m j = true ↔ ∃ p, p < ts.length ∧ ts.getD p 0 = j ∧ m.testBit (i + p) = true := by
  induction ts with
  | nil => intro i m j; simp [hit]
  | cons t ts ih =>
    intro i m j
    simp only [hit, Bool.or_eq_true, Bool.and_eq_true, decide_eq_true_eq, ih, List.length_cons]
    constructor
    · rintro (⟨h1, h2⟩ | ⟨p, hp, h1, h2⟩)
      · exact ⟨0, by omega, by simp [h1], by simpa using h2⟩
      · exact ⟨p + 1, by omega, by simpa using h1, by rw [← h2]; congr 1; omega⟩
    · rintro ⟨p, hp, h1, h2⟩
      cases p with
      | zero => left; exact ⟨by simpa using h1.symm, by simpa using h2⟩
      | succ p =>
        right
        exact ⟨p, by omega, by simpa using h1, by rw [← h2]; congr 1; omega⟩

/-- if bit `i` of `bs'` equals bit `t[i]` of `bs`, and `t` hits every position below `k`, then relabelling the mask of `bs'` by `t` gives the mask of `bs` -/
theorem applyPerm_toMask (t : List Nat) (bs bs' : List Bool) (k : Nat) (hb : bs.length = k)
    (ht : t.length = k) (hsurj : ∀ j, j < k → ∃ p, p < k ∧ t.getD p 0 = j)
    (hbits : ∀ p, p < k → bs'.getD p false = bs.getD (t.getD p 0) false) (hb' : bs'.length = k) :
    applyPerm t (toMask bs') = toMask bs := by
  apply Nat.eq_of_testBit_eq
  intro j
  unfold applyPerm
  rw [testBit_applyPermGo, Nat.zero_testBit, Bool.false_or, testBit_toMask]
  rw [Bool.eq_iff_iff, hit_iff]
  constructor
  · rintro ⟨p, hp, hpj, hbit⟩
    rw [ht] at hp
    rw [Nat.zero_add, testBit_toMask, hbits p hp, hpj] at hbit
    exact hbit
  · intro hj
    have hjk : j < k := by
      apply Classical.byContradiction
      intro hge
      rw [List.getD_eq_getElem?_getD, List.getElem?_eq_none (by omega)] at hj
      exact absurd hj (by simp)
    obtain ⟨p, hp, hpj⟩ := hsurj j hjk
    refine ⟨p, by omega, hpj, ?_⟩
    rw [Nat.zero_add, testBit_toMask, hbits p hp, hpj]
    exact hj

end C11
