import Hgxv.Proofs.C11RelabelAux
import Hgxv.Proofs.C11Bits
import Hgxv.Proofs.C11Census
/-! # C11 - a node set connected by its inner hyperedges has a connected labelled pattern

so every connected `n`-subset is filed under some class.  The kernel checks, for every labelled
pattern that `_is_connected` rejects, a cut: a proper non-empty set `A` of positions that no present
hyperedge crosses (`cutOk`); the rest is a path argument. -/
namespace C11

def properSubsets (n : Nat) : List (List Nat) :=
  ((List.range (n+1)).flatMap fun k => subsetsOfSize k (List.range n)).filter fun A =>
    !A.isEmpty && decide (A.length < n)

/-- no hyperedge present in the mask `m` has nodes on both sides of `A` -/
def isCut (n m : Nat) (A : List Nat) : Bool :=
  (List.range (hyperedges n).length).all fun i =>
    !m.testBit i || ((hyperedges n).getD i []).all (fun v => A.contains v)
      || ((hyperedges n).getD i []).all (fun v => !A.contains v)

def cutFor (n m : Nat) : Option (List Nat) := (properSubsets n).find? (isCut n m)

set_option maxRecDepth 100000 in
theorem cutOk3 : allBelow (fun m => !(Nat.beq (cid3 m) 0) || (cutFor 3 m).isSome) 16 = true := by decide +kernel
set_option maxRecDepth 100000 in
theorem cutOk4 : allBelow (fun m => !(Nat.beq (cid4 m) 0) || (cutFor 4 m).isSome) 2048 = true := by decide +kernel

theorem exists_cut {n : Nat} (hn : n = 3 ∨ n = 4) {m : Nat} (hm : m < numMasks n) (hc : cidFor n m = 0) :
    ∃ A : List Nat, A ≠ [] ∧ A.length < n ∧ A.Nodup ∧ (∀ a ∈ A, a < n) ∧
      ∀ i, i < (hyperedges n).length → m.testBit i = true →
        (∀ v ∈ (hyperedges n).getD i [], v ∈ A) ∨ (∀ v ∈ (hyperedges n).getD i [], v ∉ A) := by
  have hsome : (cutFor n m).isSome = true := by
    rcases hn with h | h <;> subst h
    · rw [numMasks3] at hm
      have := allBelow_iff.mp cutOk3 m hm
      have hc' : Nat.beq (cid3 m) 0 = true := by
        show Nat.beq (cidFor 3 m) 0 = true
        rw [hc]; rfl
      simpa [hc'] using this
    · rw [numMasks4] at hm
      have := allBelow_iff.mp cutOk4 m hm
      have hc' : Nat.beq (cid4 m) 0 = true := by
        show Nat.beq (cidFor 4 m) 0 = true
        rw [hc]; rfl
      simpa [hc'] using this
  obtain ⟨A, hA⟩ := Option.isSome_iff_exists.mp hsome
  unfold cutFor at hA
  have hmem := List.mem_of_find?_eq_some hA
  have hcut := List.find?_some hA
  simp only [properSubsets, List.mem_filter, List.mem_flatMap, List.mem_range, Bool.and_eq_true,
    Bool.not_eq_true', List.isEmpty_eq_false_iff, decide_eq_true_eq] at hmem
  obtain ⟨⟨k, _, hk⟩, hne, hlt⟩ := hmem
  have hsub := (mem_subsetsOfSize.mp hk).1
  refine ⟨A, hne, hlt, List.Nodup.sublist hsub List.nodup_range,
    fun a ha => List.mem_range.mp (hsub.subset ha), ?_⟩
  intro i hi hbit
  simp only [isCut, List.all_eq_true, List.mem_range, Bool.or_eq_true, Bool.not_eq_true',
    List.contains_iff_mem] at hcut
  rcases hcut i hi with (h | h) | h
  · rw [hbit] at h; exact absurd h (by simp)
  · exact Or.inl h
  · right; intro v hv; have := h v hv; simpa using this

/-- a connected `n`-set has a connected labelled pattern -/
theorem conn_pattern {n : Nat} (hn : n = 3 ∨ n = 4) {E : HG} (hE : WF E) {S : List Nat} (hS : SSorted S)
    (hlen : S.length = n) (hc : Conn E S) : cidFor n (pattern n E S) ≠ 0 := by
  intro h0
  obtain ⟨A, hne, hlt, hnd, hAlt, hcut⟩ := exists_cut hn (pattern_lt E hlen) h0
  obtain ⟨a, ha⟩ := List.exists_mem_of_ne_nil A hne
  obtain ⟨b, hb, hbA⟩ := exists_outside (S := List.range n) (sub := A) List.nodup_range hnd (by simpa using hlt)
  have hbn : b < n := List.mem_range.mp hb
  have han : a < n := hAlt a ha
  -- positions are determined by nodes
  have hinj : ∀ i j, i < n → j < n → S.getD i 0 = S.getD j 0 → i = j := by
    intro i j hi hj h
    rw [getD_eq_getElem_lt _ _ (by omega), getD_eq_getElem_lt _ _ (by omega)] at h
    apply Classical.byContradiction
    intro hne
    rcases Nat.lt_or_gt_of_ne hne with hlt | hlt
    · exact (List.pairwise_iff_getElem.mp hS.nodup) i j (by omega) (by omega) hlt h
    · exact (List.pairwise_iff_getElem.mp hS.nodup) j i (by omega) (by omega) hlt h.symm
  -- from a node on the A side only the A side is reachable
  have hinv : ∀ x, Reach E S (S.getD a 0) x → ∃ j ∈ A, x = S.getD j 0 := by
    intro x hr
    induction hr with
    | refl => exact ⟨a, ha, rfl⟩
    | @step z x _ hadj ih =>
      obtain ⟨j, hj, rfl⟩ := ih
      obtain ⟨e, he, hes, hze, hxe⟩ := hadj
      have hesrt := hE.sorted e he
      by_cases h2 : 2 ≤ e.length
      · -- e is the i-th sub-hyperedge of S and bit i is set
        have hmem : e ∈ hyperedgesOf n S :=
          mem_hyperedgesOf.mpr ⟨sublist_of_sorted hesrt hS hes, h2,
            by have := length_le_of_sorted_subset hesrt hS hes; omega⟩
        rw [hyperedgesOf_eq hlen] at hmem
        obtain ⟨he0, hhe0, rfl⟩ := List.mem_map.mp hmem
        obtain ⟨i, hi, rfl⟩ := List.mem_iff_getElem.mp hhe0
        have hbit : (pattern n E S).testBit i = true := by
          unfold pattern patBits
          rw [testBit_toMask, hyperedgesOf_eq hlen, List.map_map, getD_map_lt _ _ [] false hi]
          simp only [Function.comp]
          rw [getD_eq_getElem_lt _ _ hi]
          exact List.contains_iff_mem.mpr he
        have hpos := (mem_hyperedges (List.getElem_mem hi)).2.1
        have hside := hcut i hi hbit
        rw [getD_eq_getElem_lt _ _ hi] at hside
        obtain ⟨j', hj', hj'e⟩ := List.mem_map.mp hze
        have hjj : j' = j := hinj j' j (hpos j' hj') (hAlt j hj) hj'e
        obtain ⟨j'', hj'', rfl⟩ := List.mem_map.mp hxe
        rcases hside with h | h
        · exact ⟨j'', h j'' hj'', rfl⟩
        · exact absurd hj (hjj ▸ h j' hj')
      · -- a hyperedge with one node
        have : x = S.getD j 0 := by
          match e, h2 with
          | [], _ => simp at hze
          | [u], _ => exact (List.mem_singleton.mp hxe).trans (List.mem_singleton.mp hze).symm
          | _ :: _ :: _, h2 => simp at h2
        exact ⟨j, hj, this⟩
  have hSa : S.getD a 0 ∈ S := getD_mem _ _ (by omega)
  have hSb : S.getD b 0 ∈ S := getD_mem _ _ (by omega)
  obtain ⟨j, hj, hjb⟩ := hinv _ (hc _ hSa _ hSb)
  have := hinj b j hbn (hAlt j hj) hjb
  exact hbA (this ▸ hj)

end C11
