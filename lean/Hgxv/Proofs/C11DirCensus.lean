import Hgxv.Proofs.C11DirIso
/-! # C11 - the directed census as an enumeration (core Lean only)

`dirCensus n E` reports, for every canonical pattern `k`, the number of node sets visited by the two directed
passes (`dCounted`) whose pattern has canonical form `k`; nothing is lost by the dict merge of
`compute_directed_motifs` (`mappa[key] = count` first for the full pass, then for the not-full pass), because the
keys of the two passes are disjoint: a full-pass pattern contains a hyperedge on all `n` ranks, a not-full-pass
pattern does not (`hasSpan`, invariant under relabelling and hence under `dcanon`). -/
namespace C11

/-- the pattern contains a hyperedge on all `n` nodes -/
def hasSpan (n : Nat) (pat : List DEdge) : Bool := pat.any fun e => dsize e == n

theorem dsize_relabelEdge (p : List Nat) (e : DEdge) : dsize (relabelEdge p e) = dsize e := by
  simp [relabelEdge, dsize, isort_length]

theorem dsize_rankE (S : List Nat) (e : DEdge) : dsize (rankE S e) = dsize e := by
  simp [rankE, dsize, isort_length]

theorem hasSpan_iff {n : Nat} {pat : List DEdge} : hasSpan n pat = true ↔ ∃ e ∈ pat, dsize e = n := by
  simp [hasSpan, List.any_eq_true]

theorem hasSpan_drelabel (n : Nat) (p : List Nat) (pat : List DEdge) :
    hasSpan n (drelabel p pat) = hasSpan n pat := by
  rw [Bool.eq_iff_iff, hasSpan_iff, hasSpan_iff, drelabel_eq]
  constructor
  · rintro ⟨e, he, hs⟩
    obtain ⟨e0, he0, rfl⟩ := List.mem_map.mp (mem_sortD.mp he)
    exact ⟨e0, he0, by rwa [dsize_relabelEdge] at hs⟩
  · rintro ⟨e, he, hs⟩
    exact ⟨relabelEdge p e, mem_sortD.mpr (List.mem_map.mpr ⟨e, he, rfl⟩), by rwa [dsize_relabelEdge]⟩

theorem hasSpan_dcanon {n : Nat} (hn : n = 3 ∨ n = 4) (pat : List DEdge) :
    hasSpan n (dcanon n pat) = hasSpan n pat := by
  obtain ⟨⟨p0, _, hk⟩, _⟩ := dcanon_spec hn pat
  rw [hk, hasSpan_drelabel]

theorem hasSpan_dpattern {n : Nat} {F : DHG} {S : List Nat} :
    hasSpan n (dpattern F S) = true ↔ ∃ e ∈ allDirected S, e ∈ F ∧ dsize e = n := by
  rw [hasSpan_iff, dpattern_eq]
  constructor
  · rintro ⟨e, he, hs⟩
    obtain ⟨e0, he0, rfl⟩ := List.mem_map.mp (mem_sortD.mp he)
    obtain ⟨h1, h2⟩ := List.mem_filter.mp he0
    exact ⟨e0, h1, List.contains_iff_mem.mp h2, by rwa [dsize_rankE] at hs⟩
  · rintro ⟨e, he, hF, hs⟩
    refine ⟨rankE S e, mem_sortD.mpr (List.mem_map.mpr ⟨e, List.mem_filter.mpr ⟨he, ?_⟩, rfl⟩), by rwa [dsize_rankE]⟩
    exact List.contains_iff_mem.mpr hF

theorem dedup_length_le {α} [BEq α] [LawfulBEq α] (l : List α) : (dedup l).length ≤ l.length :=
  List.Nodup.length_le_of_subset (nodup_dedup l) (fun _ h => mem_dedup.mp h)

theorem dedup_length_of_nodup {α} [BEq α] [LawfulBEq α] {l : List α} (h : l.Nodup) : (dedup l).length = l.length :=
  Nat.le_antisymm (dedup_length_le l) (List.Nodup.length_le_of_subset h (fun _ hx => mem_dedup.mpr hx))

/-- a hyperedge of the full pass lies in the pattern of its node set -/
theorem span_of_full {n : Nat} {F : DHG} (hF : DWF F) (hne : ∀ e ∈ F, e.1 ≠ [] ∧ e.2 ≠ [])
    (hsz : ∀ e ∈ F, dsize e ≤ n) {S : List Nat} (hS : S ∈ dFullSets n F) :
    hasSpan n (dpattern F S) = true := by
  obtain ⟨hlen, e, he, rfl⟩ := mem_dFullSets.mp hS
  have hlen' : (dedup (e.1 ++ e.2)).length = n := by
    have : (dnodes e).length = (dedup (e.1 ++ e.2)).length := isort_length _
    omega
  have hle := hsz e he
  have hsz' : dsize e = (e.1 ++ e.2).length := by simp [dsize]
  have hge := dedup_length_le (e.1 ++ e.2)
  rw [hasSpan_dpattern]
  refine ⟨e, ?_, he, by omega⟩
  show e ∈ allDirected (sset (e.1 ++ e.2))
  rw [mem_allDirected_sorted (sset_sorted _)]
  refine ⟨(hne e he).1, (hne e he).2, (hF.sorted e he).1, (hF.sorted e he).2, ?_, ?_⟩
  · intro x hx; exact mem_sset.mpr (List.mem_append_left _ hx)
  · intro x hx
    refine ⟨mem_sset.mpr (List.mem_append_right _ hx), ?_⟩
    intro hx1
    have hsub : ∀ y ∈ dedup (e.1 ++ e.2), y ∈ e.1 ++ e.2.erase x := by
      intro y hy
      rcases List.mem_append.mp (mem_dedup.mp hy) with h | h
      · exact List.mem_append_left _ h
      · by_cases hyx : y = x
        · rw [hyx]; exact List.mem_append_left _ hx1
        · exact List.mem_append_right _ ((List.mem_erase_of_ne hyx).mpr h)
    have h1 := List.Nodup.length_le_of_subset (nodup_dedup (e.1 ++ e.2)) hsub
    rw [List.length_append, List.length_erase_of_mem hx] at h1
    have : 0 < e.2.length := List.length_pos_of_mem hx
    rw [List.length_append] at hsz'
    omega

/-- a node set that is not spanned by one hyperedge has no spanning hyperedge in its pattern -/
theorem no_span_of_not_full {n : Nat} {F : DHG} {S : List Nat} (hsorted : SSorted S) (hlen : S.length = n)
    (hS : S ∉ dFullSets n F) : hasSpan n (dpattern F S) = false := by
  rw [Bool.eq_false_iff]
  intro h
  obtain ⟨e, he, heF, hs⟩ := hasSpan_dpattern.mp h
  obtain ⟨_, _, s1, s2, m1, m2⟩ := (mem_allDirected_sorted hsorted).mp he
  apply hS
  refine mem_dFullSets.mpr ⟨hlen, e, heF, ?_⟩
  have hnd : (e.1 ++ e.2).Nodup := by
    refine List.nodup_append.mpr ⟨s1.nodup, s2.nodup, ?_⟩
    intro a ha b hb hab
    exact (m2 b hb).2 (hab ▸ ha)
  apply eq_of_sorted_subset_length (sset_sorted _) hsorted
  · intro x hx
    rcases List.mem_append.mp (mem_sset.mp hx) with h' | h'
    · exact m1 x h'
    · exact (m2 x h').1
  · show S.length ≤ (isort (dedup (e.1 ++ e.2))).length
    rw [isort_length, dedup_length_of_nodup hnd, List.length_append]
    simp only [dsize] at hs
    omega

/-! ## closed form of the census -/

theorem mem_dspec {keys : List (List DEdge)} {k : List DEdge} {c : Nat} :
    (k, c) ∈ dspec keys ↔ k ∈ keys ∧ c = keys.count k := by
  unfold dspec
  simp only [List.mem_map, Prod.mk.injEq, mem_dedup]
  constructor
  · rintro ⟨a, ha, rfl, rfl⟩; exact ⟨ha, rfl⟩
  · rintro ⟨h1, h2⟩; exact ⟨k, h1, rfl, h2.symm⟩

theorem count_map_keys (g : List Nat → List DEdge) (L : List (List Nat)) (k : List DEdge) :
    (L.map g).count k = (L.filter fun S => g S == k).length := by
  induction L with
  | nil => simp
  | cons a L ih =>
    simp only [List.map_cons, List.count_cons, List.filter_cons, ih]
    by_cases h : g a = k
    · simp [h]
    · have : (g a == k) = false := by simpa using h
      simp [this]

/-- the merge of `compute_directed_motifs` loses nothing: for `DWF` hypergraphs whose hyperedges have non-empty
sides the census is the tally of the full pass followed by the tally of the not-full pass -/
theorem dirCensus_closed {n : Nat} (hn : n = 3 ∨ n = 4) {E : DHG} (hE : DWF E)
    (hne : ∀ e ∈ E, e.1 ≠ [] ∧ e.2 ≠ []) :
    dirCensus n E =
      dspec ((dFullSets n (dUpTo n E)).map fun S => dcanon n (dpattern (dUpTo n E) S)) ++
      (if n == 4 then dspec ((dNotFullSets n (dUpTo n E) (dFullSets n (dUpTo n E))).map
          fun S => dcanon n (dpattern (dUpTo n E) S)) else []) := by
  have hF : DWF (dUpTo n E) := hE.filter _
  have hneF : ∀ e ∈ dUpTo n E, e.1 ≠ [] ∧ e.2 ≠ [] := fun e he => hne e (List.mem_filter.mp he).1
  have hszF : ∀ e ∈ dUpTo n E, dsize e ≤ n := fun e he => by simpa using (List.mem_filter.mp he).2
  unfold dirCensus
  simp only [dtally_eq]
  by_cases h4 : (n == 4) = true
  · simp only [h4, if_true]
    congr 1
    apply List.filter_eq_self.mpr
    intro kc hkc
    simp only [Bool.not_eq_true', List.any_eq_false, beq_iff_eq]
    intro q hq hqk
    obtain ⟨k, c⟩ := kc
    obtain ⟨k', c'⟩ := q
    simp only at hqk
    subst hqk
    obtain ⟨S, hS, hSk⟩ := List.mem_map.mp (mem_dspec.mp hkc).1
    obtain ⟨S', hS', hSk'⟩ := List.mem_map.mp (mem_dspec.mp hq).1
    have h1 := span_of_full hF hneF hszF hS
    obtain ⟨hc', hlen', hnot'⟩ := mem_visitNew.mp hS'
    have h2 := no_span_of_not_full (dNfCands_sorted hc') hlen' hnot'
    rw [← hasSpan_dcanon hn, hSk] at h1
    rw [← hasSpan_dcanon hn, hSk', h1] at h2
    exact absurd h2 (by simp)
  · simp only [h4, Bool.false_eq_true, if_false, List.append_nil]

theorem dCounted_nodup (n : Nat) (F : DHG) : (dCounted n F).Nodup := by
  unfold dCounted
  refine List.nodup_append.mpr ⟨nodup_visitNew, ?_, ?_⟩
  · split
    · exact nodup_visitNew
    · exact List.nodup_nil
  · intro a ha b hb hab
    split at hb
    · exact (mem_visitNew.mp hb).2.2 (hab ▸ ha)
    · simp at hb

theorem mem_dCounted {n : Nat} {F : DHG} {S : List Nat} :
    S ∈ dCounted n F ↔ S.length = n ∧
      ((∃ e ∈ F, dnodes e = S) ∨
       (n = 4 ∧ ∃ e ∈ F, (dnodes e).length + 1 = n ∧ dsize e + 1 = n ∧
          ∃ x, (x ∈ e.1 ∨ x ∈ e.2) ∧ ∃ f ∈ F, (x ∈ f.1 ∨ x ∈ f.2) ∧ (dnodes f).length = dsize f ∧
            S = sset (e.1 ++ e.2 ++ f.1 ++ f.2))) := by
  unfold dCounted
  rw [List.mem_append, mem_dFullSets]
  by_cases h4 : (n == 4) = true
  · have h4' : n = 4 := by simpa using h4
    simp only [h4, if_true]
    unfold dNotFullSets
    rw [mem_visitNew, mem_dNfCands, mem_dFullSets]
    constructor
    · rintro (⟨h1, h2⟩ | ⟨h1, h2, _⟩)
      · exact ⟨h1, Or.inl h2⟩
      · exact ⟨h2, Or.inr ⟨h4', h1⟩⟩
    · rintro ⟨h1, h2 | ⟨_, h2⟩⟩
      · exact Or.inl ⟨h1, h2⟩
      · by_cases hf : ∃ e ∈ F, dnodes e = S
        · exact Or.inl ⟨h1, hf⟩
        · exact Or.inr ⟨h2, h1, fun hh => hf hh.2⟩
  · have h4' : n ≠ 4 := by simpa using h4
    simp only [h4, Bool.false_eq_true, if_false, List.not_mem_nil, or_false]
    constructor
    · rintro ⟨h1, h2⟩; exact ⟨h1, Or.inl h2⟩
    · rintro ⟨h1, h2 | ⟨h, _⟩⟩
      · exact ⟨h1, h2⟩
      · exact absurd h h4'

theorem dCounted_sorted {n : Nat} {F : DHG} {S : List Nat} (h : S ∈ dCounted n F) : SSorted S := by
  unfold dCounted at h
  rcases List.mem_append.mp h with h | h
  · exact dFullSets_sorted h
  · split at h
    · exact dNfCands_sorted (mem_visitNew.mp h).1
    · simp at h

/-- the labelled pattern of a sorted node set is its induced sub-hypergraph: exactly the hyperedges of `F` with
non-empty disjoint sides inside `S`, nodes replaced by their ranks -/
theorem mem_dpattern {F : DHG} (hF : DWF F) {S : List Nat} (hS : SSorted S) {e' : DEdge} :
    e' ∈ dpattern F S ↔ ∃ e ∈ F, e.1 ≠ [] ∧ e.2 ≠ [] ∧ (∀ x ∈ e.1, x ∈ S) ∧ (∀ x ∈ e.2, x ∈ S ∧ x ∉ e.1) ∧
      e' = rankE S e := by
  rw [dpattern_eq, mem_sortD, List.mem_map]
  constructor
  · rintro ⟨e, he, rfl⟩
    obtain ⟨h1, h2⟩ := List.mem_filter.mp he
    obtain ⟨a, b, _, _, c, d⟩ := (mem_allDirected_sorted hS).mp h1
    exact ⟨e, List.contains_iff_mem.mp h2, a, b, c, d, rfl⟩
  · rintro ⟨e, he, a, b, c, d, rfl⟩
    refine ⟨e, List.mem_filter.mpr ⟨?_, List.contains_iff_mem.mpr he⟩, rfl⟩
    exact (mem_allDirected_sorted hS).mpr ⟨a, b, (hF.sorted e he).1, (hF.sorted e he).2, c, d⟩

/-- the directed census in closed form: `(k, c)` is reported iff `c > 0` is the number of counted node sets whose
pattern has canonical form `k` -/
theorem dirCensus_count {n : Nat} (hn : n = 3 ∨ n = 4) {E : DHG} (hE : DWF E)
    (hne : ∀ e ∈ E, e.1 ≠ [] ∧ e.2 ≠ []) (k : List DEdge) (c : Nat) :
    (k, c) ∈ dirCensus n E ↔
      0 < c ∧ c = ((dCounted n (dUpTo n E)).filter fun S => dcanon n (dpattern (dUpTo n E) S) == k).length := by
  have hF : DWF (dUpTo n E) := hE.filter _
  have hneF : ∀ e ∈ dUpTo n E, e.1 ≠ [] ∧ e.2 ≠ [] := fun e he => hne e (List.mem_filter.mp he).1
  have hszF : ∀ e ∈ dUpTo n E, dsize e ≤ n := fun e he => by simpa using (List.mem_filter.mp he).2
  rw [dirCensus_closed hn hE hne]
  generalize hg : (fun S => dcanon n (dpattern (dUpTo n E) S)) = g
  have hgk : ∀ S, dcanon n (dpattern (dUpTo n E) S) = g S := fun S => by rw [← hg]
  simp only [hgk]
  unfold dCounted
  rw [List.filter_append, List.length_append, ← count_map_keys g, ← count_map_keys g, List.mem_append]
  have hpos : ∀ L : List (List DEdge), k ∈ L ↔ 0 < L.count k := fun L => List.count_pos_iff.symm
  by_cases h4 : (n == 4) = true
  · simp only [h4, if_true, mem_dspec]
    -- disjoint keys
    have hdis : ((dFullSets n (dUpTo n E)).map g).count k = 0 ∨
        ((dNotFullSets n (dUpTo n E) (dFullSets n (dUpTo n E))).map g).count k = 0 := by
      by_cases hs : hasSpan n k = true
      · right
        apply List.count_eq_zero_of_not_mem
        intro hk
        obtain ⟨S', hS', hSk'⟩ := List.mem_map.mp hk
        obtain ⟨hc', hlen', hnot'⟩ := mem_visitNew.mp hS'
        have h2 := no_span_of_not_full (dNfCands_sorted hc') hlen' hnot'
        rw [← hasSpan_dcanon hn, hgk, hSk', hs] at h2
        exact absurd h2 (by simp)
      · left
        apply List.count_eq_zero_of_not_mem
        intro hk
        obtain ⟨S, hS, hSk⟩ := List.mem_map.mp hk
        have h1 := span_of_full hF hneF hszF hS
        rw [← hasSpan_dcanon hn, hgk, hSk] at h1
        exact hs h1
    rw [hpos, hpos]
    omega
  · simp only [h4, Bool.false_eq_true, if_false, List.not_mem_nil, or_false, mem_dspec, List.map_nil,
      List.count_nil, Nat.add_zero]
    rw [hpos]
    omega

theorem sum_map_add_nat {α} (D : List α) (f h : α → Nat) :
    (D.map fun k => f k + h k).sum = (D.map f).sum + (D.map h).sum := by
  induction D with
  | nil => simp
  | cons d D ihD => simp only [List.map_cons, List.sum_cons, ihD]; omega

theorem sum_map_eq_zero {α} (D : List α) (f : α → Nat) (h : ∀ k ∈ D, f k = 0) : (D.map f).sum = 0 := by
  induction D with
  | nil => simp
  | cons d D ihD =>
    simp only [List.map_cons, List.sum_cons, h d List.mem_cons_self,
      ihD (fun k hk => h k (List.mem_cons_of_mem _ hk))]

theorem sum_indicator (a : List DEdge) : ∀ (D : List (List DEdge)), D.Nodup → a ∈ D →
    (D.map fun k => if (a == k) = true then 1 else 0).sum = 1 := by
  intro D; induction D with
  | nil => intro _ h; simp at h
  | cons d D ihD =>
    intro hnd hmem
    have hnd' := List.nodup_cons.mp hnd
    simp only [List.map_cons, List.sum_cons]
    by_cases hda : a = d
    · have hz : (D.map fun k => if (a == k) = true then 1 else 0).sum = 0 := by
        apply sum_map_eq_zero
        intro k hk
        have : a ≠ k := fun e => hnd'.1 (hda ▸ e ▸ hk)
        simp [this]
      rw [hz]; simp [hda]
    · have hmem' : a ∈ D := by
        rcases List.mem_cons.mp hmem with h | h
        · exact absurd h hda
        · exact h
      rw [ihD hnd'.2 hmem']; simp [hda]

theorem sum_counts : ∀ (D : List (List DEdge)), D.Nodup → ∀ L : List (List DEdge), (∀ x ∈ L, x ∈ D) →
    (D.map fun k => L.count k).sum = L.length := by
  intro D hD L
  induction L with
  | nil => intro _; exact sum_map_eq_zero _ _ (fun _ _ => rfl)
  | cons a L ih =>
    intro hsub
    have ha : a ∈ D := hsub a List.mem_cons_self
    have ih' := ih (fun x hx => hsub x (List.mem_cons_of_mem _ hx))
    have : (D.map fun k => (a :: L).count k)
        = D.map fun k => L.count k + if (a == k) = true then 1 else 0 := by
      apply List.map_congr_left; intro k _
      rw [List.count_cons]
    rw [this, sum_map_add_nat, ih', sum_indicator a D hD ha, List.length_cons]

/-- every counted node set is counted exactly once: the counts add up to the number of counted node sets -/
theorem dspec_total (keys : List (List DEdge)) : ((dspec keys).map (·.2)).sum = keys.length := by
  unfold dspec
  rw [List.map_map]
  exact sum_counts (dedup keys) (nodup_dedup _) keys (fun x hx => mem_dedup.mpr hx)

end C11
