import Hgxv.Model.C11Tables
/-! # C11 - class tables from a checkable certificate (core Lean only)

`Cert n cid` says that `cid : mask → mask` sends every connected labelled pattern to a fixed
representative of its relabelling orbit (and everything else to 0).  From such a certificate the
loop of `generate_motifs` (`classes n`) is computed in closed form and the statements of
`C11_classes` follow without evaluating the loop.  `certOk` is the boolean checker that the kernel
runs once per order in `Proofs/C11Tables.lean`. -/
namespace C11

/-! ## generic list lemmas -/

theorem mem_dedup_aux {α} [BEq α] [LawfulBEq α] (l : List α) : ∀ (acc : List α) (x : α),
    x ∈ l.foldl (fun acc x => if acc.contains x then acc else acc ++ [x]) acc ↔ x ∈ acc ∨ x ∈ l := by
  induction l with
  | nil => intro acc x; simp
  | cons a l ih =>
    intro acc x
    simp only [List.foldl_cons, List.mem_cons]
    rw [ih]
    by_cases h : a ∈ acc
    · simp only [List.contains_iff_mem, h, if_true]
      constructor
      · rintro (h1 | h1)
        · exact Or.inl h1
        · exact Or.inr (Or.inr h1)
      · rintro (h1 | h1 | h1)
        · exact Or.inl h1
        · exact Or.inl (h1 ▸ h)
        · exact Or.inr h1
    · simp only [List.contains_iff_mem, h, if_false, List.mem_append, List.mem_singleton]
      constructor
      · rintro ((h1 | h1) | h1)
        · exact Or.inl h1
        · exact Or.inr (Or.inl h1)
        · exact Or.inr (Or.inr h1)
      · rintro (h1 | h1 | h1)
        · exact Or.inl (Or.inl h1)
        · exact Or.inl (Or.inr h1)
        · exact Or.inr h1

theorem mem_dedup {α} [BEq α] [LawfulBEq α] {l : List α} {x : α} : x ∈ dedup l ↔ x ∈ l := by
  unfold dedup; rw [mem_dedup_aux]; simp

theorem nodup_dedup_aux {α} [BEq α] [LawfulBEq α] (l : List α) : ∀ (acc : List α), acc.Nodup →
    (l.foldl (fun acc x => if acc.contains x then acc else acc ++ [x]) acc).Nodup := by
  induction l with
  | nil => intro acc h; simpa using h
  | cons a l ih =>
    intro acc h
    simp only [List.foldl_cons]
    apply ih
    by_cases hc : a ∈ acc
    · simp only [List.contains_iff_mem, hc, if_true]; exact h
    · simp only [List.contains_iff_mem, hc, if_false]
      refine List.nodup_append.mpr ⟨h, by simp, ?_⟩
      intro x hx y hy hxy
      simp at hy; subst hy; subst hxy; exact hc hx

theorem nodup_dedup {α} [BEq α] [LawfulBEq α] (l : List α) : (dedup l).Nodup :=
  nodup_dedup_aux l [] List.nodup_nil

theorem sum_indicator_nodup (L : List Nat) (hL : L.Nodup) (x : Nat) :
    (L.map fun l => if x == l then 1 else 0).sum = if x ∈ L then 1 else 0 := by
  induction L with
  | nil => simp
  | cons a L ih =>
    have hnd := List.nodup_cons.mp hL
    simp only [List.map_cons, List.sum_cons, ih hnd.2, List.mem_cons]
    by_cases hxa : x = a
    · subst hxa; simp [hnd.1]
    · simp [hxa]

theorem sum_map_zero (L : List Nat) : (L.map fun _ => 0).sum = 0 := by
  induction L with
  | nil => rfl
  | cons a L ih => simpa using ih

theorem sum_count_nodup (L : List Nat) (hL : L.Nodup) (X : List Nat) :
    (L.map fun l => X.count l).sum = X.countP (fun x => L.contains x) := by
  induction X with
  | nil => simpa using sum_map_zero L
  | cons x X ih =>
    have h1 : (L.map fun l => (x :: X).count l).sum
        = (L.map fun l => X.count l).sum + (L.map fun l => if x == l then 1 else 0).sum := by
      clear ih hL
      induction L with
      | nil => simp
      | cons a L ihL =>
        simp only [List.map_cons, List.sum_cons, List.count_cons] at ihL ⊢
        rw [ihL]
        omega
    rw [h1, ih, sum_indicator_nodup L hL, List.countP_cons]
    by_cases hx : x ∈ L <;> simp [hx]

/-! ## the certificate -/

def allBelow (p : Nat → Bool) : Nat → Bool
  | 0 => true
  | k+1 => p k && allBelow p k

theorem allBelow_iff {p : Nat → Bool} {k : Nat} : allBelow p k = true ↔ ∀ m, m < k → p m = true := by
  induction k with
  | zero => simp [allBelow]
  | succ k ih =>
    simp only [allBelow, Bool.and_eq_true, ih]
    constructor
    · rintro ⟨h1, h2⟩ m hm
      by_cases h : m = k
      · subst h; exact h1
      · exact h2 m (by omega)
    · intro h; exact ⟨h k (by omega), fun m hm => h m (by omega)⟩

/-- `applyPerm` with the recursion unrolled for tables of length 4 and 11 (fast in the kernel) -/
def apL : List Nat → Nat → Nat
  | [t0, t1, t2, t3], m =>
    Nat.lor (Nat.lor (Nat.lor (Nat.lor 0 (moveBit m 0 t0)) (moveBit m 1 t1)) (moveBit m 2 t2)) (moveBit m 3 t3)
  | [t0, t1, t2, t3, t4, t5, t6, t7, t8, t9, t10], m =>
    Nat.lor (Nat.lor (Nat.lor (Nat.lor (Nat.lor (Nat.lor (Nat.lor (Nat.lor (Nat.lor (Nat.lor (Nat.lor 0
      (moveBit m 0 t0)) (moveBit m 1 t1)) (moveBit m 2 t2)) (moveBit m 3 t3)) (moveBit m 4 t4)) (moveBit m 5 t5))
      (moveBit m 6 t6)) (moveBit m 7 t7)) (moveBit m 8 t8)) (moveBit m 9 t9)) (moveBit m 10 t10)
  | t, m => applyPerm t m

theorem apL_eq (t : List Nat) (m : Nat) : apL t m = applyPerm t m := by
  unfold apL; split <;> rfl

/-- packed table: entry `m` occupies bits `k*m .. k*m+k-1` of `big` -/
def cidOf (big k low : Nat) (m : Nat) : Nat := Nat.land (Nat.shiftRight big (Nat.mul k m)) low

structure Cert (n : Nat) (cid : Nat → Nat) : Prop where
  conn : ∀ m, m < numMasks n → (connected n (masks n) m = true ↔ cid m ≠ 0)
  le : ∀ m, m < numMasks n → cid m ≤ m
  inv : ∀ m, m < numMasks n → ∀ t ∈ tbls n, applyPerm t m < numMasks n ∧ cid (applyPerm t m) = cid m
  idem : ∀ m, m < numMasks n → cid m ≠ 0 → cid (cid m) = cid m
  toRep : ∀ m, m < numMasks n → cid m ≠ 0 → ∃ t ∈ tbls n, applyPerm t m = cid m
  ofRep : ∀ m, m < numMasks n → cid m ≠ 0 → ∃ t ∈ tbls n, applyPerm t (cid m) = m

def certRow (n : Nat) (ms : List Nat) (tb : List (List Nat)) (cid : Nat → Nat) (M m : Nat) : Bool :=
  (connected n ms m == !(Nat.beq (cid m) 0)) && Nat.ble (cid m) m
  && tb.all (fun t => Nat.blt (apL t m) M && Nat.beq (cid (apL t m)) (cid m))
  && (Nat.beq (cid m) 0 || (Nat.beq (cid (cid m)) (cid m) && tb.any (fun t => Nat.beq (apL t m) (cid m))
        && tb.any (fun t => Nat.beq (apL t (cid m)) m)))

def certOk (n : Nat) (ms : List Nat) (tb : List (List Nat)) (cid : Nat → Nat) (M : Nat) : Bool :=
  allBelow (certRow n ms tb cid M) M

theorem cert_of_ok {n : Nat} {cid : Nat → Nat}
    (h : certOk n (masks n) (tbls n) cid (numMasks n) = true) : Cert n cid := by
  have h' := allBelow_iff.mp h
  have row : ∀ m, m < numMasks n →
      (connected n (masks n) m = !(Nat.beq (cid m) 0)) ∧ cid m ≤ m
      ∧ (∀ t ∈ tbls n, applyPerm t m < numMasks n ∧ cid (applyPerm t m) = cid m)
      ∧ (cid m = 0 ∨ ((cid (cid m) = cid m ∧ (∃ t ∈ tbls n, applyPerm t m = cid m))
          ∧ (∃ t ∈ tbls n, applyPerm t (cid m) = m))) := by
    intro m hm
    have := h' m hm
    simp only [certRow, Bool.and_eq_true, Bool.or_eq_true, List.all_eq_true, List.any_eq_true,
      Nat.ble_eq, Nat.blt_eq, beq_iff_eq, apL_eq, Nat.beq_eq] at this
    obtain ⟨⟨⟨a, b⟩, c⟩, d⟩ := this
    exact ⟨a, b, c, d⟩
  refine ⟨?_, ?_, ?_, ?_, ?_, ?_⟩
  · intro m hm
    have := (row m hm).1
    rw [this]
    cases hb : Nat.beq (cid m) 0 with
    | false => simp [Nat.ne_of_beq_eq_false hb]
    | true => simp [Nat.eq_of_beq_eq_true hb]
  · intro m hm; exact (row m hm).2.1
  · intro m hm; exact (row m hm).2.2.1
  · intro m hm hc
    rcases (row m hm).2.2.2 with h0 | h1
    · exact absurd h0 hc
    · exact h1.1.1
  · intro m hm hc
    rcases (row m hm).2.2.2 with h0 | h1
    · exact absurd h0 hc
    · exact h1.1.2
  · intro m hm hc
    rcases (row m hm).2.2.2 with h0 | h1
    · exact absurd h0 hc
    · exact h1.2

/-! ## consequences -/

section consequences
variable {n : Nat} {cid : Nat → Nat} (C : Cert n cid)
include C

/-- membership test of the closed form of `classes` -/
def isRep (n : Nat) (cid : Nat → Nat) (m : Nat) : Bool := connected n (masks n) m && cid m == m

omit C in
theorem genStep_spec (C : Cert n cid) (j : Nat) (hj : j < numMasks n) :
    genStep n (masks n) (tbls n) ((List.range j).filter (isRep n cid)) j
      = (List.range j).filter (isRep n cid) ++ (if isRep n cid j then [j] else []) := by
  unfold genStep
  by_cases hc : connected n (masks n) j = true
  · have hne : cid j ≠ 0 := (C.conn j hj).mp hc
    have key : (tbls n).any (fun t => ((List.range j).filter (isRep n cid)).contains (applyPerm t j)) = true
        ↔ cid j ≠ j := by
      simp only [List.any_eq_true, List.contains_iff_mem, List.mem_filter, List.mem_range, isRep,
        Bool.and_eq_true, beq_iff_eq]
      constructor
      · rintro ⟨t, ht, hlt, _, hfix⟩ heq
        have := (C.inv j hj t ht).2
        rw [hfix, heq] at this
        omega
      · intro hne'
        obtain ⟨t, ht, hto⟩ := C.toRep j hj hne
        have hle := C.le j hj
        have hlt : cid j < j := by omega
        refine ⟨t, ht, by omega, ?_, ?_⟩
        · rw [hto]
          exact (C.conn (cid j) (by omega)).mpr (by rw [C.idem j hj hne]; exact hne)
        · rw [hto]; exact C.idem j hj hne
    by_cases hfix : cid j = j
    · have : (tbls n).any (fun t => ((List.range j).filter (isRep n cid)).contains (applyPerm t j)) = false := by
        cases h : (tbls n).any (fun t => ((List.range j).filter (isRep n cid)).contains (applyPerm t j)) with
        | false => rfl
        | true => exact absurd hfix (key.mp h)
      have hr : isRep n cid j = true := by simp [isRep, hc, hfix]
      rw [hc, this, hr]; simp
    · have := key.mpr hfix
      have hr : isRep n cid j = false := by simp [isRep, hfix]
      rw [hc, this, hr]; simp
  · have hr : isRep n cid j = false := by simp [isRep, hc]
    rw [hr]; simp [hc]

omit C in
theorem gen_prefix (C : Cert n cid) : ∀ j, j ≤ numMasks n →
    (List.range j).foldl (genStep n (masks n) (tbls n)) [] = (List.range j).filter (isRep n cid) := by
  intro j
  induction j with
  | zero => intro _; simp
  | succ j ih =>
    intro hj
    rw [List.range_succ, List.foldl_append, ih (by omega), List.filter_append]
    simp only [List.foldl_cons, List.foldl_nil]
    rw [genStep_spec C j (by omega)]
    simp [List.filter_cons]

theorem classes_eq : classes n = (List.range (numMasks n)).filter (isRep n cid) := by
  unfold classes genClassesWith
  exact gen_prefix C _ (Nat.le_refl _)

theorem mem_classes {c : Nat} : c ∈ classes n ↔ c < numMasks n ∧ cid c = c ∧ c ≠ 0 := by
  rw [classes_eq C]
  simp only [List.mem_filter, List.mem_range, isRep, Bool.and_eq_true, beq_iff_eq]
  constructor
  · rintro ⟨hlt, hconn, hfix⟩
    refine ⟨hlt, hfix, ?_⟩
    have := (C.conn c hlt).mp hconn
    rwa [hfix] at this
  · rintro ⟨hlt, hfix, hne⟩
    exact ⟨hlt, (C.conn c hlt).mpr (by rwa [hfix]), hfix⟩

theorem classes_nodup : (classes n).Nodup := by
  rw [classes_eq C]; exact List.Pairwise.filter _ List.nodup_range

/-- the class of a connected pattern -/
theorem cid_mem_classes {m : Nat} (hm : m < numMasks n) (hc : cid m ≠ 0) : cid m ∈ classes n := by
  rw [mem_classes C]
  have := C.le m hm
  exact ⟨by omega, C.idem m hm hc, hc⟩

/-- classes are pairwise non-isomorphic -/
theorem classes_noniso {c1 c2 : Nat} (h1 : c1 ∈ classes n) (h2 : c2 ∈ classes n) {t : List Nat}
    (ht : t ∈ tbls n) (h : applyPerm t c1 = c2) : c1 = c2 := by
  obtain ⟨l1, f1, _⟩ := (mem_classes C).mp h1
  obtain ⟨_, f2, _⟩ := (mem_classes C).mp h2
  have := (C.inv c1 l1 t ht).2
  rw [h, f1, f2] at this
  exact this.symm

/-- a relabelling of a class has that class as its `cid` -/
theorem cid_of_relabel {c m : Nat} (hc : c ∈ classes n) {t : List Nat} (ht : t ∈ tbls n)
    (h : applyPerm t c = m) : m < numMasks n ∧ cid m = c := by
  obtain ⟨l1, f1, _⟩ := (mem_classes C).mp hc
  have := C.inv c l1 t ht
  rw [h, f1] at this
  exact this

theorem mem_orbit {c p : Nat} (hc : c ∈ classes n) :
    p ∈ orbit n c ↔ p < numMasks n ∧ cid p = c := by
  unfold orbit orbitWith
  rw [mem_dedup]
  simp only [List.mem_map]
  constructor
  · rintro ⟨t, ht, h⟩
    exact cid_of_relabel C hc ht h
  · rintro ⟨hlt, hcid⟩
    obtain ⟨_, _, hne⟩ := (mem_classes C).mp hc
    obtain ⟨t, ht, h⟩ := C.ofRep p hlt (by rw [hcid]; exact hne)
    exact ⟨t, ht, by rw [← hcid]; exact h⟩

theorem mem_labeling {p : Nat} : p ∈ labeling n ↔ p < numMasks n ∧ cid p ≠ 0 := by
  unfold labeling labelingWith
  rw [mem_dedup]
  simp only [List.mem_flatMap]
  constructor
  · rintro ⟨c, hc, hp⟩
    have := (mem_orbit C hc).mp hp
    obtain ⟨_, _, hne⟩ := (mem_classes C).mp hc
    exact ⟨this.1, by rw [this.2]; exact hne⟩
  · rintro ⟨hlt, hne⟩
    exact ⟨cid p, cid_mem_classes C hlt hne, (mem_orbit C (cid_mem_classes C hlt hne)).mpr ⟨hlt, rfl⟩⟩

/-- the tail of every pass counts, per class, the handed-over patterns that are relabellings of it -/
theorem tally_eq (pats : List Nat) (hp : ∀ p ∈ pats, p < numMasks n) :
    tallyWith (tbls n) (classes n) (labeling n) pats
      = (classes n).map fun c => (c, pats.countP (fun p => cid p == c)) := by
  unfold tallyWith
  apply List.map_congr_left
  intro c hc
  obtain ⟨_, _, hne⟩ := (mem_classes C).mp hc
  have hnd : (orbitWith (tbls n) c).Nodup := nodup_dedup _
  rw [sum_count_nodup _ hnd, List.countP_filter]
  congr 1
  apply List.countP_congr
  intro p hpm
  have hlt := hp p hpm
  simp only [Bool.and_eq_true, List.contains_iff_mem, beq_iff_eq]
  have ho := mem_orbit C hc (p := p)
  unfold orbit at ho
  have hl := mem_labeling C (p := p)
  constructor
  · rintro ⟨h1, _⟩; exact (ho.mp h1).2
  · intro h
    exact ⟨ho.mpr ⟨hlt, h⟩, hl.mpr ⟨hlt, by rw [h]; exact hne⟩⟩

end consequences

end C11
