import Hgxv.Proofs.C11Cert
/-! # C11 - sorted node lists, `isort`, `subsetsOfSize` (core Lean only) -/
namespace C11

/-- strictly increasing -/
abbrev SSorted (l : List Nat) : Prop := l.Pairwise (· < ·)

theorem SSorted.nodup {l : List Nat} (h : SSorted l) : l.Nodup :=
  List.Pairwise.imp (fun hab => Nat.ne_of_lt hab) h

/-! ## insertion sort -/

theorem mem_insertSorted {a x : Nat} {l : List Nat} : x ∈ insertSorted a l ↔ x = a ∨ x ∈ l := by
  induction l with
  | nil => simp [insertSorted]
  | cons b l ih =>
    unfold insertSorted
    split
    · simp
    · simp only [List.mem_cons, ih]
      constructor
      · rintro (h | h | h)
        · exact Or.inr (Or.inl h)
        · exact Or.inl h
        · exact Or.inr (Or.inr h)
      · rintro (h | h | h)
        · exact Or.inr (Or.inl h)
        · exact Or.inl h
        · exact Or.inr (Or.inr h)

theorem mem_isort {x : Nat} {l : List Nat} : x ∈ isort l ↔ x ∈ l := by
  induction l with
  | nil => simp [isort]
  | cons a l ih =>
    have : isort (a :: l) = insertSorted a (isort l) := rfl
    rw [this, mem_insertSorted, ih]; simp

theorem insertSorted_sorted {a : Nat} {l : List Nat} (h : SSorted l) (ha : a ∉ l) :
    SSorted (insertSorted a l) := by
  induction l with
  | nil => simp [insertSorted]
  | cons b l ih =>
    have hb := List.pairwise_cons.mp h
    unfold insertSorted
    split
    · rename_i hle
      have hne : a ≠ b := fun e => ha (by simp [e])
      have hlt : a < b := by omega
      refine List.pairwise_cons.mpr ⟨?_, h⟩
      intro x hx
      rcases List.mem_cons.mp hx with e | e
      · omega
      · have := hb.1 x e; omega
    · rename_i hle
      refine List.pairwise_cons.mpr ⟨?_, ih hb.2 (fun e => ha (by simp [e]))⟩
      intro x hx
      rcases mem_insertSorted.mp hx with e | e
      · omega
      · exact hb.1 x e

theorem isort_sorted {l : List Nat} (h : l.Nodup) : SSorted (isort l) := by
  induction l with
  | nil => simp [isort]
  | cons a l ih =>
    have hnd := List.nodup_cons.mp h
    have : isort (a :: l) = insertSorted a (isort l) := rfl
    rw [this]
    exact insertSorted_sorted (ih hnd.2) (fun e => hnd.1 (mem_isort.mp e))

theorem insertSorted_length (a : Nat) (l : List Nat) : (insertSorted a l).length = l.length + 1 := by
  induction l with
  | nil => simp [insertSorted]
  | cons b l ih => unfold insertSorted; split <;> simp [ih]

theorem isort_length (l : List Nat) : (isort l).length = l.length := by
  induction l with
  | nil => simp [isort]
  | cons a l ih =>
    have : isort (a :: l) = insertSorted a (isort l) := rfl
    rw [this, insertSorted_length, ih]; simp

/-- two strictly increasing lists with the same members are equal -/
theorem eq_of_sorted_of_mem_iff {l₁ l₂ : List Nat} (h₁ : SSorted l₁) (h₂ : SSorted l₂)
    (h : ∀ x, x ∈ l₁ ↔ x ∈ l₂) : l₁ = l₂ := by
  have hp : l₁.Perm l₂ := (List.perm_ext_iff_of_nodup h₁.nodup h₂.nodup).mpr h
  exact List.Perm.eq_of_pairwise (le := (· < ·)) (fun a b _ _ hab hba => by omega) h₁ h₂ hp

theorem isort_eq_of_mem_iff {o S : List Nat} (ho : o.Nodup) (hS : SSorted S)
    (h : ∀ x, x ∈ o ↔ x ∈ S) : isort o = S :=
  eq_of_sorted_of_mem_iff (isort_sorted ho) hS (fun x => by rw [mem_isort]; exact h x)

/-- a strictly increasing list whose members lie in a strictly increasing list is a sublist of it -/
theorem sublist_of_sorted {e l : List Nat} (he : SSorted e) (hl : SSorted l)
    (h : ∀ x ∈ e, x ∈ l) : e.Sublist l := by
  induction l generalizing e with
  | nil =>
    cases e with
    | nil => exact List.Sublist.slnil
    | cons x e => exact absurd (h x (by simp)) (by simp)
  | cons a l ih =>
    have hla := List.pairwise_cons.mp hl
    cases e with
    | nil => exact List.nil_sublist _
    | cons x e =>
      have hex := List.pairwise_cons.mp he
      by_cases hxa : x = a
      · subst hxa
        apply List.Sublist.cons_cons
        apply ih hex.2 hla.2
        intro y hy
        have hlt := hex.1 y hy
        rcases List.mem_cons.mp (h y (by simp [hy])) with e1 | e1
        · omega
        · exact e1
      · apply List.Sublist.cons
        apply ih he hla.2
        have hxl : x ∈ l := by
          rcases List.mem_cons.mp (h x (by simp)) with e1 | e1
          · exact absurd e1 hxa
          · exact e1
        have hax := hla.1 x hxl
        intro y hy
        rcases List.mem_cons.mp hy with e1 | e1
        · subst e1; exact hxl
        · have hlt := hex.1 y e1
          rcases List.mem_cons.mp (h y hy) with e2 | e2
          · omega
          · exact e2

/-! ## `subsetsOfSize` -/

theorem mem_subsetsOfSize {k : Nat} {l e : List Nat} :
    e ∈ subsetsOfSize k l ↔ e.Sublist l ∧ e.length = k := by
  induction l generalizing k e with
  | nil =>
    cases k with
    | zero => simp [subsetsOfSize]
    | succ k =>
      simp only [subsetsOfSize, List.not_mem_nil, false_iff, not_and]
      intro h; have := List.sublist_nil.mp h; subst this; simp
  | cons a l ih =>
    cases k with
    | zero =>
      simp only [subsetsOfSize, List.mem_singleton, List.length_eq_zero_iff]
      constructor
      · intro h; subst h; exact ⟨List.nil_sublist _, rfl⟩
      · intro h; exact h.2
    | succ k =>
      simp only [subsetsOfSize, List.mem_append, List.mem_map, ih]
      constructor
      · rintro (⟨e', ⟨hs, hl⟩, rfl⟩ | ⟨hs, hl⟩)
        · exact ⟨List.Sublist.cons_cons a hs, by simp [hl]⟩
        · exact ⟨List.Sublist.cons a hs, hl⟩
      · rintro ⟨hs, hl⟩
        cases hs with
        | cons _ hs' => exact Or.inr ⟨hs', hl⟩
        | cons_cons _ hs' =>
          rename_i e'
          exact Or.inl ⟨e', ⟨hs', by simpa using hl⟩, rfl⟩

theorem nodup_subsetsOfSize {k : Nat} {l : List Nat} (hl : l.Nodup) : (subsetsOfSize k l).Nodup := by
  induction l generalizing k with
  | nil => cases k <;> simp [subsetsOfSize]
  | cons a l ih =>
    have hnd := List.nodup_cons.mp hl
    cases k with
    | zero => simp [subsetsOfSize]
    | succ k =>
      simp only [subsetsOfSize]
      refine List.nodup_append.mpr ⟨?_, ih hnd.2, ?_⟩
      · refine List.Pairwise.map _ ?_ (ih (k := k) hnd.2)
        intro x y hxy h; exact hxy (List.cons.inj h).2
      · intro x hx y hy hxy
        subst hxy
        obtain ⟨e', _, rfl⟩ := List.mem_map.mp hx
        have := (mem_subsetsOfSize.mp hy).1
        exact hnd.1 (this.subset (by simp))

theorem length_subsetsOfSize {k : Nat} {l l' : List Nat} (h : l.length = l'.length) :
    (subsetsOfSize k l).length = (subsetsOfSize k l').length := by
  induction l generalizing k l' with
  | nil =>
    cases l' with
    | nil => rfl
    | cons _ _ => simp at h
  | cons a l ih =>
    cases l' with
    | nil => simp at h
    | cons a' l' =>
      have h' : l.length = l'.length := by simpa using h
      cases k with
      | zero => simp [subsetsOfSize]
      | succ k => simp [subsetsOfSize, ih (k := k) h', ih (k := k+1) h']

/-- for a strictly increasing `S`: the sub-lists of size `k` are the strictly increasing `k`-lists inside `S` -/
theorem mem_subsetsOfSize_sorted {k : Nat} {S e : List Nat} (hS : SSorted S) :
    e ∈ subsetsOfSize k S ↔ SSorted e ∧ (∀ x ∈ e, x ∈ S) ∧ e.length = k := by
  rw [mem_subsetsOfSize]
  constructor
  · rintro ⟨hs, hl⟩; exact ⟨List.Pairwise.sublist hs hS, fun x hx => hs.subset hx, hl⟩
  · rintro ⟨he, hm, hl⟩; exact ⟨sublist_of_sorted he hS hm, hl⟩

/-- a strictly increasing list inside `S` with as many nodes as `S` is `S` -/
theorem eq_of_sorted_subset_length {e S : List Nat} (he : SSorted e) (hS : SSorted S)
    (hm : ∀ x ∈ e, x ∈ S) (hl : S.length ≤ e.length) : e = S :=
  (sublist_of_sorted he hS hm).eq_of_length_le hl

theorem length_le_of_sorted_subset {e S : List Nat} (he : SSorted e) (hS : SSorted S)
    (hm : ∀ x ∈ e, x ∈ S) : e.length ≤ S.length :=
  (sublist_of_sorted he hS hm).length_le

end C11
