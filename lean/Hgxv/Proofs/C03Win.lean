import Hgxv.Proofs.C03Base
/-! Pure derivations of C03: windows, times of a hyperedge, min/max time (core Lean only). -/
namespace C03
open AL

theorem inWin_iff (a b : Int) (k : Key) : inWin a b k = true ↔ a ≤ (k.1 : Int) ∧ (k.1 : Int) < b := by
  simp [inWin]

/-- the windowed listing is, as a multiset, the filter of the key list -/
theorem window_perm (s : Store) (a b : Int) : (window s a b).Perm ((edgeKeys s).filter (inWin a b)) :=
  (sortKeys_perm _).filter _

theorem mem_window (s : Store) (a b : Int) (k : Key) :
    k ∈ window s a b ↔ k ∈ edgeKeys s ∧ a ≤ (k.1 : Int) ∧ (k.1 : Int) < b := by
  rw [(window_perm s a b).mem_iff, List.mem_filter, inWin_iff]

theorem window_nodup (s : Store) (a b : Int) (h : (edgeKeys s).Nodup) : (window s a b).Nodup :=
  (window_perm s a b).nodup_iff.mpr (h.filter _)

theorem mem_applyFilt (f : Filt) (ks : List Key) (k : Key) :
    k ∈ applyFilt f ks ↔ k ∈ ks ∧ (∀ o, effOrder f.order f.size = some o → passes o f.upTo k = true) := by
  unfold applyFilt
  cases h : effOrder f.order f.size with
  | none => simp
  | some o => simp [List.mem_filter]

theorem passes_iff (o : Int) (u : Bool) (k : Key) :
    passes o u k = true ↔ (if u then ((k.2.length : Int) - 1 ≤ o) else ((k.2.length : Int) - 1 = o)) := by
  unfold passes; cases u <;> simp

theorem mem_timesFor (s : Store) (raw : List Nat) (t : Nat) : t ∈ timesFor s raw ↔ (t, canon raw) ∈ edgeKeys s := by
  simp only [timesFor, V.timesFor, view]
  simp only [List.mem_map, List.mem_filter, beq_iff_eq]
  constructor
  · rintro ⟨k, ⟨hk, he⟩, ht⟩
    obtain ⟨t', e⟩ := k
    simp at he ht; subst he; subst ht; exact hk
  · intro h; exact ⟨(t, canon raw), ⟨h, rfl⟩, rfl⟩

/-! min / max as folds -/
def minStep (m : Option Nat) (k : Key) : Option Nat :=
  match m with | none => some k.1 | some v => if v > k.1 then some k.1 else some v
def maxStep (m : Option Nat) (k : Key) : Option Nat :=
  match m with | none => some k.1 | some v => if v < k.1 then some k.1 else some v

theorem minTime_eq (s : Store) : minTime s = (edgeKeys s).foldl minStep none := rfl
theorem maxTime_eq (s : Store) : maxTime s = (edgeKeys s).foldl maxStep none := rfl

theorem foldl_minStep (l : List Key) (m0 : Nat) :
    ∃ m, l.foldl minStep (some m0) = some m ∧ m ≤ m0 ∧ (∀ k ∈ l, m ≤ k.1) ∧ (m = m0 ∨ ∃ k ∈ l, k.1 = m) := by
  induction l generalizing m0 with
  | nil => exact ⟨m0, rfl, Nat.le_refl _, by simp, Or.inl rfl⟩
  | cons a t ih =>
    simp only [List.foldl_cons, minStep]
    by_cases h : m0 > a.1
    · simp only [h, if_true]
      obtain ⟨m, hm, hle, hall, hex⟩ := ih a.1
      refine ⟨m, hm, by omega, ?_, ?_⟩
      · intro k hk; rcases List.mem_cons.mp hk with hk | hk
        · subst hk; exact hle
        · exact hall k hk
      · rcases hex with hex | ⟨k, hk, hk2⟩
        · exact Or.inr ⟨a, by simp, hex.symm⟩
        · exact Or.inr ⟨k, by simp [hk], hk2⟩
    · simp only [h, if_false]
      obtain ⟨m, hm, hle, hall, hex⟩ := ih m0
      refine ⟨m, hm, hle, ?_, ?_⟩
      · intro k hk; rcases List.mem_cons.mp hk with hk | hk
        · subst hk; omega
        · exact hall k hk
      · rcases hex with hex | ⟨k, hk, hk2⟩
        · exact Or.inl hex
        · exact Or.inr ⟨k, by simp [hk], hk2⟩

theorem foldl_maxStep (l : List Key) (m0 : Nat) :
    ∃ m, l.foldl maxStep (some m0) = some m ∧ m0 ≤ m ∧ (∀ k ∈ l, k.1 ≤ m) ∧ (m = m0 ∨ ∃ k ∈ l, k.1 = m) := by
  induction l generalizing m0 with
  | nil => exact ⟨m0, rfl, Nat.le_refl _, by simp, Or.inl rfl⟩
  | cons a t ih =>
    simp only [List.foldl_cons, maxStep]
    by_cases h : m0 < a.1
    · simp only [h, if_true]
      obtain ⟨m, hm, hle, hall, hex⟩ := ih a.1
      refine ⟨m, hm, by omega, ?_, ?_⟩
      · intro k hk; rcases List.mem_cons.mp hk with hk | hk
        · subst hk; exact hle
        · exact hall k hk
      · rcases hex with hex | ⟨k, hk, hk2⟩
        · exact Or.inr ⟨a, by simp, hex.symm⟩
        · exact Or.inr ⟨k, by simp [hk], hk2⟩
    · simp only [h, if_false]
      obtain ⟨m, hm, hle, hall, hex⟩ := ih m0
      refine ⟨m, hm, hle, ?_, ?_⟩
      · intro k hk; rcases List.mem_cons.mp hk with hk | hk
        · subst hk; omega
        · exact hall k hk
      · rcases hex with hex | ⟨k, hk, hk2⟩
        · exact Or.inl hex
        · exact Or.inr ⟨k, by simp [hk], hk2⟩

/-- `min_time()` is `inf` exactly without records, else the least recorded time -/
theorem minTime_spec (s : Store) :
    (minTime s = none ↔ edgeKeys s = []) ∧
    (∀ m, minTime s = some m → (∃ k ∈ edgeKeys s, k.1 = m) ∧ ∀ k ∈ edgeKeys s, m ≤ k.1) := by
  rw [minTime_eq]
  cases hk : edgeKeys s with
  | nil => simp
  | cons a t =>
    simp only [List.foldl_cons, minStep]
    obtain ⟨m, hm, hle, hall, hex⟩ := foldl_minStep t a.1
    rw [hm]
    refine ⟨by simp, ?_⟩
    intro m' hm'; cases hm'
    refine ⟨?_, ?_⟩
    · rcases hex with hex | ⟨k, hk, hk2⟩
      · exact ⟨a, by simp, hex.symm⟩
      · exact ⟨k, by simp [hk], hk2⟩
    · intro k hk; rcases List.mem_cons.mp hk with hk | hk
      · subst hk; exact hle
      · exact hall k hk

theorem maxTime_spec (s : Store) :
    (maxTime s = none ↔ edgeKeys s = []) ∧
    (∀ m, maxTime s = some m → (∃ k ∈ edgeKeys s, k.1 = m) ∧ ∀ k ∈ edgeKeys s, k.1 ≤ m) := by
  rw [maxTime_eq]
  cases hk : edgeKeys s with
  | nil => simp
  | cons a t =>
    simp only [List.foldl_cons, maxStep]
    obtain ⟨m, hm, hle, hall, hex⟩ := foldl_maxStep t a.1
    rw [hm]
    refine ⟨by simp, ?_⟩
    intro m' hm'; cases hm'
    refine ⟨?_, ?_⟩
    · rcases hex with hex | ⟨k, hk, hk2⟩
      · exact ⟨a, by simp, hex.symm⟩
      · exact ⟨k, by simp [hk], hk2⟩
    · intro k hk; rcases List.mem_cons.mp hk with hk | hk
      · subst hk; exact hle
      · exact hall k hk

end C03
