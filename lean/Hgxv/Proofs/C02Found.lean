import Hgxv.Proofs.C02Total
/-! # C02 - an inserted hyperedge is found under every listing (strengthening round c)

`add_edge` canonicalises with `canonAdd` (bare node accepted), every other entry point with `canonStrict`.  The two
canonicalisations meet: the key `add_edge` files a hyperedge under is the key every other entry point computes from
ANY listing of the same source set and the same target set. -/
open AL
namespace C02

theorem canonStrict_of_perm (e : RawEdge) (S' T' : List Node) (hS : S'.Perm e.src.toList) (hT : T'.Perm e.tgt.toList) :
    canonStrict (.ofLists S' T') = some (canonAdd e) := by
  simp [canonStrict, canonAdd, RawEdge.ofLists, Side.strict, sortNodes_eq_of_perm hS, sortNodes_eq_of_perm hT]

/-- after an accepted `add_edge` on key `k`: `k` is in the edge index and its metadata entry is the given one -/
theorem addEdgeKey_found (s : Store) (k : Key) (w : Option Int) (md : Option Meta) (hok : (addEdgeKey s k w md).2 = .ok) :
    ∃ id, get? (addEdgeKey s k w md).1.edgeList k = some id ∧ get? (addEdgeKey s k w md).1.emeta id = some (md.getD []) := by
  unfold addEdgeKey at hok ⊢
  split
  · rename_i hc; simp [hc] at hok
  · split
    · refine ⟨s.nextId, ?_, ?_⟩
      · simp only []; rw [(addEdgeNew_fields s k _ _).1]; simp
      · simp only []; rw [(addEdgeNew_fields s k _ _).2.2.2.1]; simp
    · rename_i id hk
      exact ⟨id, hk, by simp [addEdgeOld]⟩

end C02
