import Hgxv.Model.C10
import Hgxv.Proofs.C01Query
import Hgxv.Proofs.C02Total
/-! # C10 ↔ C01 (`Hypergraph`) and C02 (`DirectedHypergraph`): the listings of an object reached through ANY history

The C10 model takes listings as input.  Here the listings are READ OFF the full container models: `nodesH`, `edgesH`,
`incidentH`, `incTableH` are the answers of `C01.answer` to `get_nodes()`, `get_edges()`, `get_incident_edges(n)`;
`edgesD` is the answer of `C02.edges` to `get_edges()` of a `DirectedHypergraph`.  `bipartiteH`, `cliqueH`,
`lineGraphH`, `simplicialH`, `directedLineGraphD` are the C10 routines applied to those answers, i.e. the routines
applied to the OBJECT.

Under the class invariants (`C01.Inv`, `C02.Inv`, which hold after every history: `C01.run_inv`, `C02.runCmds_inv`) the
answers are the listings of the abstract content (`C01.abs s`, `C02.abs s`) and satisfy every hypothesis of the C10
theorems (`ListingOK`, `dlistingOK_of_inv`); the per-node incident table the object answers is, list for list,
`nodes.map (incident edges)` (`incTableH_eq`, from `C01.Inv.incidentKeys_eq`).  `history01` / `history02` tie the
object in a slot after a history to the abstract content of the same history.  `buildH l` is the constructor call
`Hypergraph(s_edges)` that ends `simplicial_complex`, as a call of the full C01 model (`buildH_spec`).
Corollaries: `C10_link_*` in `Hgxv/Props/C10.lean`.  Core Lean only. -/
namespace C10
open AL

/-! ## `Hypergraph` (C01) -/

/-- the payload of an answer of kind "list of nodes"; `[]` for any other kind (does not occur: `nodesH_eq`) -/
def natsOf : C01.Ans → List Nat
  | .nats l => l
  | _ => []
/-- the payload of an answer of kind "list of hyperedges"; `[]` for a raised call / any other kind (does not occur for
the calls the routines make: `edgesH_eq`, `incidentH_eq`) -/
def edgesOf : C01.Ans → List Edge
  | .edges l => l
  | _ => []

/-- `h.get_nodes()` -/
def nodesH (s : C01.Store) : List Nat := natsOf (C01.answer s .nodes)
/-- `h.get_edges()` -/
def edgesH (s : C01.Store) : List Edge := edgesOf (C01.answer s (.edges {}))
/-- `h.get_incident_edges(n)` -/
def incidentH (s : C01.Store) (n : Nat) : List Edge := edgesOf (C01.answer s (.incident n {}))
/-- the dict `adj` of `line_graph`: `adj[node] = h.get_incident_edges(node)` for `node in h.get_nodes()` -/
def incTableH (s : C01.Store) : List (List Edge) := (nodesH s).map (incidentH s)

/-- `bipartite_projection(h)` -/
def bipartiteH (s : C01.Store) : Bip := bipartite (nodesH s) (edgesH s)
/-- `clique_projection(h, keep_isolated)` -/
def cliqueH (keepIso : Bool) (s : C01.Store) : Graph Nat := clique keepIso (nodesH s) (edgesH s)
/-- `line_graph(h, distance, s, weighted)`: pairs enumerated through the incident lists the object answers -/
def lineGraphH (s : C01.Store) (d : Dist) (thr : Rat) (weighted : Bool) : Option LG :=
  lineGraphFrom (edgesH s) d thr weighted (incTableH s)
/-- hyperedges of `simplicial_complex(h)` -/
def simplicialH (s : C01.Store) : List Edge := simplicial (edgesH s)

theorem nodesH_eq (s : C01.Store) : C01.answer s .nodes = .nats (keys s.adj) ∧ nodesH s = keys s.adj := ⟨rfl, rfl⟩

theorem edgesF_all (s : C01.Store) : C01.edgesF s {} = some (keys s.edgeList) := by
  simp [C01.edgesF, C01.Filter.resolve, C01.keepEdge]

theorem edgesH_eq (s : C01.Store) :
    C01.answer s (.edges {}) = .edges (keys s.edgeList) ∧ edgesH s = keys s.edgeList ∧
    C01.answer s .len = .int ((keys s.edgeList).length : Nat) := by
  refine ⟨?_, ?_, ?_⟩
  · simp only [C01.answer, edgesF_all, C01.ofOpt]
  · simp only [edgesH, C01.answer, edgesF_all, C01.ofOpt, edgesOf]
  · simp [C01.answer, keys]

theorem incident_eq_filter (es : List Edge) (n : Nat) : incident es n = es.filter (fun e => decide (n ∈ e)) := by
  unfold incident
  apply List.filter_congr
  intro e _
  simp

/-- for a node of the object, `get_incident_edges` answers (does not raise) the list of the hyperedges of `get_edges()`
that contain the node, in the order of `get_edges()` -/
theorem incidentH_eq (s : C01.Store) (h : C01.Inv s) (n : Nat) (hn : n ∈ keys s.adj) :
    C01.answer s (.incident n {}) = .edges (incident (keys s.edgeList) n) ∧
    incidentH s n = incident (keys s.edgeList) n := by
  have hn' : (get? s.adj n).isSome = true := (C01.mem_keys_iff _ _).mp hn
  have hF : C01.incidentF s n {} = some (incident (keys s.edgeList) n) := by
    unfold C01.incidentF
    rw [h.incidentKeys_eq n hn', incident_eq_filter]
    simp [hn', C01.Filter.resolve, C01.keepEdge]
  refine ⟨?_, ?_⟩
  · simp only [C01.answer, hF, C01.ofOpt]
  · simp only [incidentH, C01.answer, hF, C01.ofOpt, edgesOf]

/-- the table of incident lists the object answers is, list for list, what `get_edges()` says -/
theorem incTableH_eq (s : C01.Store) (h : C01.Inv s) :
    incTableH s = (keys s.adj).map (incident (keys s.edgeList)) := by
  unfold incTableH
  rw [(nodesH_eq s).2]
  apply List.map_congr_left
  intro n hn
  exact (incidentH_eq s h n hn).2

/-- the hypotheses of the C10 theorems about a node list and a hyperedge list -/
structure ListingOK (nodes : List Nat) (es : List Edge) : Prop where
  nodesNodup : nodes.Nodup
  edgesNodup : es.Nodup
  sorted : ∀ e ∈ es, e.Pairwise (· < ·)
  edgeNodup : ∀ e ∈ es, e.Nodup
  members : ∀ e ∈ es, ∀ n ∈ e, n ∈ nodes

theorem sorted_lt_of_canon {e : List Nat} (hnd : e.Nodup) (hc : C01.canon e = e) : e.Pairwise (· < ·) := by
  have hs : e.Pairwise (· ≤ ·) := hc ▸ C01.canon_sorted e
  have hne : e.Pairwise (· ≠ ·) := hnd
  exact (hs.and hne).imp (fun h => by omega)

/-- every store that satisfies the class invariant lists nodes and hyperedges as the C10 theorems need them -/
theorem listingOK_of_inv (s : C01.Store) (h : C01.Inv s) : ListingOK (keys s.adj) (keys s.edgeList) := by
  have hid : ∀ e ∈ keys s.edgeList, ∃ id, get? s.edgeList e = some id := fun e he =>
    Option.isSome_iff_exists.mp ((C01.mem_keys_iff _ _).mp he)
  refine ⟨h.adj_nodup, h.el_nodup, ?_, ?_, ?_⟩
  · intro e he
    obtain ⟨id, hid⟩ := hid e he
    exact sorted_lt_of_canon (h.key_canon e id hid).1 (h.key_canon e id hid).2
  · intro e he
    obtain ⟨id, hid⟩ := hid e he
    exact (h.key_canon e id hid).1
  · intro e he n hn
    obtain ⟨id, hid⟩ := hid e he
    exact (C01.mem_keys_iff _ _).mpr (h.nodes_in id e (h.rev_of_edge _ _ hid) n hn)

/-- the object in slot `i` after a history of well-formed public calls, and the abstract content in slot `i` after the
same history: the object satisfies the class invariant and the content is its abstraction -/
theorem history01 (k : Nat) (cs : List C01.Cmd) (hwf : ∀ c ∈ cs, c.WF) (i : Nat) (s : C01.Store) (a : C01.Spec)
    (hs : (C01.run (C01.init k) cs)[i]? = some s) (ha : (C01.Spec.run (C01.Spec.init k) cs)[i]? = some a) :
    C01.Inv s ∧ a = C01.abs s := by
  have h := C01.run_sim cs _ _ hwf (C01.init_sim k)
  refine ⟨h.2 s (List.mem_of_getElem? hs), ?_⟩
  rw [h.1, List.getElem?_map, hs] at ha
  simpa using ha.symm

/-- the listings of the abstraction are the listings of the store -/
theorem abs_listings (s : C01.Store) (h : C01.Inv s) :
    keys (C01.abs s).nodes = keys s.adj ∧ keys (C01.abs s).edges = keys s.edgeList :=
  ⟨C01.nodes_keys h, C01.abs_keys s⟩

/-! ### the object `simplicial_complex` returns: `S = Hypergraph(s_edges)` -/

/-- `Hypergraph(edge_list)`: the constructor of an unweighted hypergraph followed by `add_edges(edge_list)`; `l` is the
order in which the Python set `s_edges` is iterated -/
def buildH (l : List Edge) : C01.Store × C01.Out := C01.apply (C01.Store.new false []) (.addEdges l none none)

theorem mem_keys_touchMeta (nm : List (Nat × C01.Meta)) (m n : Nat) :
    n ∈ keys (C01.touchMeta nm m) ↔ n ∈ keys nm ∨ n = m := by
  unfold C01.touchMeta
  split
  · rename_i h
    constructor
    · exact Or.inl
    · rintro (h1 | rfl)
      · exact h1
      · exact (C01.mem_keys_iff _ _).mpr h
  · rw [C01.mem_keys_iff, C01.isSome_set, C01.mem_keys_iff]
    by_cases hmn : m = n
    · subst hmn; simp
    · have : ¬ n = m := fun e => hmn e.symm
      simp [hmn, this]

theorem mem_keys_touchFold (ns : List Nat) (nm : List (Nat × C01.Meta)) (n : Nat) :
    n ∈ keys (ns.foldl C01.touchMeta nm) ↔ n ∈ keys nm ∨ n ∈ ns := by
  induction ns generalizing nm with
  | nil => simp
  | cons m ns ih =>
    simp only [List.foldl_cons, ih, List.mem_cons, mem_keys_touchMeta]
    constructor
    · rintro ((h | h) | h)
      · exact Or.inl h
      · exact Or.inr (Or.inl h)
      · exact Or.inr (Or.inr h)
    · rintro (h | h | h)
      · exact Or.inl (Or.inl h)
      · exact Or.inl (Or.inr h)
      · exact Or.inr h

/-- `add_edge` of a canonical key that is not present, unweighted hypergraph, no weight given: accepted; the key goes
to the end of the key list; its members become nodes -/
theorem spec_addEdge_fresh (a : C01.Spec) (r : List Nat) (md : Option C01.Meta) (hw : a.weighted = false)
    (hc : C01.canon r = r) (hr : r ∉ keys a.edges) :
    ∃ a', C01.Spec.addEdge a r none md = (a', .ok) ∧ keys a'.edges = keys a.edges ++ [r] ∧
      (∀ n, n ∈ keys a'.nodes ↔ n ∈ keys a.nodes ∨ n ∈ r) ∧ a'.weighted = false := by
  have hg : get? a.edges r = none := by
    cases h : get? a.edges r with
    | none => rfl
    | some v => exact absurd ((C01.mem_keys_iff _ _).mpr (by rw [h]; rfl)) hr
  unfold C01.Spec.addEdge
  simp only [hw, hc, hg, Option.isSome_none, Bool.and_false, Bool.false_eq_true, if_false]
  rw [C01.spec_touch_fold]
  refine ⟨_, rfl, ?_, ?_, rfl⟩
  · simp only [C01.set_of_not_mem _ _ _ hg, keys, List.map_append, List.map_cons, List.map_nil]
  · intro n; exact mem_keys_touchFold r a.nodes n

/-- the loop of `add_edges(edge_list)` (no weights, no metadata) over distinct canonical keys none of which is present -/
theorem spec_build_loop (raws : List (List Nat)) : ∀ (a : C01.Spec), a.weighted = false →
    (∀ r ∈ raws, C01.canon r = r) → raws.Nodup → (∀ r ∈ raws, r ∉ keys a.edges) →
    ∃ a', C01.seqOps (fun a (x : List Nat × Option Int × Option C01.Meta) => C01.Spec.addEdge a x.1 none x.2.2) a
        (C01.zipArgs raws none none) = (a', .ok) ∧
      keys a'.edges = keys a.edges ++ raws ∧
      (∀ n, n ∈ keys a'.nodes ↔ n ∈ keys a.nodes ∨ ∃ r ∈ raws, n ∈ r) ∧ a'.weighted = false := by
  induction raws with
  | nil => intro a hw _ _ _; exact ⟨a, rfl, by simp, by simp, hw⟩
  | cons r raws ih =>
    intro a hw hc hnd hfresh
    obtain ⟨a1, e1, k1, n1, w1⟩ := spec_addEdge_fresh a r none hw (hc r List.mem_cons_self)
      (hfresh r List.mem_cons_self)
    have hnd' := List.nodup_cons.mp hnd
    obtain ⟨a2, e2, k2, n2, w2⟩ := ih a1 w1 (fun x hx => hc x (List.mem_cons_of_mem _ hx)) hnd'.2
      (fun x hx => by
        rw [k1, List.mem_append, List.mem_singleton]
        rintro (h | h)
        · exact hfresh x (List.mem_cons_of_mem _ hx) h
        · exact hnd'.1 (h ▸ hx))
    refine ⟨a2, ?_, ?_, ?_, w2⟩
    · simp only [C01.zipArgs, C01.seqOps, Option.bind_none, Option.map_none]
      rw [e1]
      exact e2
    · rw [k2, k1, List.append_assoc]; rfl
    · intro n
      rw [n2, n1]
      simp only [List.mem_cons, exists_eq_or_imp, or_assoc]

/-- **`Hypergraph(l)` for distinct canonical tuples `l`** is accepted, satisfies the class invariant, lists exactly `l`
(in that order) as its hyperedges and has exactly the members of those tuples as nodes -/
theorem buildH_spec (l : List Edge) (hc : ∀ e ∈ l, C01.canon e = e) (hnd : l.Nodup) (hdf : ∀ e ∈ l, e.Nodup) :
    (buildH l).2 = .ok ∧ C01.Inv (buildH l).1 ∧ edgesH (buildH l).1 = l ∧
    ∀ n, n ∈ nodesH (buildH l).1 ↔ ∃ e ∈ l, n ∈ e := by
  have hs := C01.sim_apply (C01.Store.new false []) (.addEdges l none none) hdf (C01.inv_new false [])
  obtain ⟨s1, s2, s3⟩ := hs
  have habs : C01.abs (C01.Store.new false []) = C01.Spec.new false [] := rfl
  obtain ⟨a', e1, k1, n1, _⟩ := spec_build_loop l (C01.Spec.new false []) rfl hc hnd (by intro r _ h; cases h)
  have hsp : C01.Spec.apply (C01.Spec.new false []) (.addEdges l none none) = (a', .ok) := by
    simp only [C01.Spec.apply, C01.Spec.addEdges, C01.addEdgesValid, Option.isSome_none, Bool.or_false,
      Bool.and_self, if_true, Bool.false_eq_true, if_false]
    exact e1
  rw [habs, hsp] at s1 s2
  obtain ⟨q1, q2⟩ := abs_listings _ s3
  refine ⟨s2, s3, ?_, ?_⟩
  · rw [(edgesH_eq _).2.1]
    show keys (C01.apply (C01.Store.new false []) (.addEdges l none none)).1.edgeList = l
    rw [← q2, s1, k1]; rfl
  · intro n
    rw [(nodesH_eq _).2]
    show n ∈ keys (C01.apply (C01.Store.new false []) (.addEdges l none none)).1.adj ↔ _
    rw [← q1, s1, n1]
    simp [C01.Spec.new, keys]

/-! ## `DirectedHypergraph` (C02) -/

/-- `h.get_edges()` of a directed hypergraph: (source tuple, target tuple) pairs; `[]` would stand for a raised call
(does not occur: `edgesD_eq`) -/
def edgesD (s : C02.Store) : List DEdge := (C02.edges s .all false).getD []

/-- `directed_line_graph(h, distance, s, weighted)` -/
def directedLineGraphD (s : C02.Store) (d : Dist) (thr : Rat) (weighted : Bool) : Option (Graph Nat) :=
  directedLineGraph (edgesD s) d thr weighted

theorem edgesD_eq (s : C02.Store) :
    C02.edges s .all false = some (keys s.edgeList) ∧ edgesD s = keys s.edgeList ∧
    C02.numEdges s = (keys s.edgeList).length ∧
    C02.sources s = (keys s.edgeList).map (·.1) ∧ C02.targets s = (keys s.edgeList).map (·.2) := by
  have h : C02.edges s .all false = some (keys s.edgeList) := by
    simp [C02.edges, C02.Filt.target, C02.passes]
  refine ⟨h, ?_, ?_, rfl, rfl⟩
  · simp only [edgesD, h, Option.getD_some]
  · simp [C02.numEdges, keys]

/-- every store that satisfies the class invariant lists distinct (source, target) pairs with duplicate-free,
non-empty sides -/
theorem dlistingOK_of_inv (s : C02.Store) (h : C02.Inv s) :
    (keys s.edgeList).Nodup ∧
    ∀ k ∈ keys s.edgeList, k.1 ≠ [] ∧ k.2 ≠ [] ∧ k.1.Nodup ∧ k.2.Nodup ∧ ∀ n, n ∈ k.1 → n ∉ k.2 := by
  refine ⟨h.nd_edge, ?_⟩
  intro k hk
  obtain ⟨id, hid⟩ := (h.mem_keys_iff k).mp hk
  have wf := h.key_wf id k hid
  exact ⟨wf.neS, wf.neT, wf.nodupS, wf.nodupT, wf.disj⟩

/-- the object in a slot after a history of constructor calls, copies and public calls, and the abstract content in
the same slot after the same history -/
theorem history02 (cs : List C02.Cmd) (hcs : ∀ c ∈ cs, c.WF) (slot : Nat) (s : C02.Store) (a : C02.Spec)
    (hs : get? (C02.runCmds [] cs) slot = some s) (ha : get? (C02.Spec.runCmds [] cs) slot = some a) :
    C02.Inv s ∧ a = C02.abs s := by
  have h0 : C02.StateInv [] := fun _ _ h => by simp [get?] at h
  have o0 : C02.StateOrd [] := fun _ _ h => by simp [get?] at h
  refine ⟨C02.runCmds_inv [] cs hcs h0 slot s hs, ?_⟩
  have h1 := (C02.abs_runCmds [] cs hcs h0 o0).1
  have e0 : C02.absState [] = [] := rfl
  rw [e0] at h1
  rw [← h1] at ha
  have := get?_map_val (C02.runCmds [] cs) C02.abs slot
  unfold C02.absState at ha
  rw [this, hs] at ha
  simpa using ha.symm

theorem abs_dlistings (s : C02.Store) : keys (C02.abs s).edges = keys s.edgeList := C02.abs_edges_keys s

/-! ## concrete histories for the non-vacuity examples -/

/-- `Hypergraph`: re-insertion in another node order, removals (id gaps), a removed hyperedge inserted again (it moves to
the end of the listing), isolated nodes left behind by a removal, a copy, `remove_node(keep_edges=True)` on the copy
(merging `{1,2,3}` into `{1,2}`), a node added to the original afterwards -/
def demoH : List C01.Cmd :=
  [.on 0 (.addEdge [2, 1] none none), .on 0 (.addEdge [3, 1, 2] none none), .on 0 (.addEdge [9, 8] none none),
   .on 0 (.addEdge [5, 4, 3] none none), .on 0 (.addEdge [2, 3, 1] none none), .on 0 (.removeEdge [8, 9]),
   .on 0 (.removeEdge [1, 2]), .on 0 (.addEdge [1, 2] none none), .copy 0 1, .on 1 (.removeNode 3 true),
   .on 0 (.addNode 7 none)]

theorem demoH_wf : ∀ c ∈ demoH, c.WF := by
  simp [demoH, C01.Cmd.WF, C01.Op.WF]

/-- `DirectedHypergraph`: constructor with hyperedges, an insertion, a removal and re-insertion, a copy,
`remove_node(keep_edges=True)` on the copy -/
def demoD : List C02.Cmd :=
  [.new 0 false none none (some [.ofLists [2, 1] [3], .ofLists [3] [4, 1]]) none none,
   .op 0 (.addEdge (.ofLists [4] [2]) none none), .op 0 (.removeEdge (.ofLists [1, 2] [3])),
   .op 0 (.addEdge (.ofLists [1, 2] [3]) none none), .copy 0 1, .op 1 (.removeNode 4 true)]

theorem demoD_wf : ∀ c ∈ demoD, c.WF := C02.cmds_WF_of_ok _ (by decide)

end C10
