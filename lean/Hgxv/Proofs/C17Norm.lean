import Hgxv.Proofs.C17Sum
import Mathlib.Tactic.IntervalCases
import Mathlib.Tactic.NormNum
import Mathlib.Tactic.Linarith
set_option linter.unusedSectionVars false
set_option linter.unusedVariables false
/-! `normalizeU = True`: what the Lagrange multiplier has to satisfy (it is an input of the model: the root finder is
outside the proof), and what the node update then guarantees about the new row of `u`.  The defect D36 was a multiplier
that violated `LamOk.pos` (a root of the constraint on a branch with a negative denominator) or `LamOk.root` (the
solver stopped away from the root). -/
namespace C17
open Finset
variable {α : Type} [Field α] [LinearOrder α] [IsStrictOrderedRing α]

/-- the numerator handed to `enforce_constraint_u`: entries whose quotient is below the threshold are zeroed first -/
def numEff (c : Cfg α) (s : St α) (i k : Nat) : α :=
  if uNum c s.rho i k / uDen c s.w (barNew c s i) k < c.minv then 0 else uNum c s.rho i k

/-- contract of `enforce_constraint_u` for the update of node `i` in state `s`: the multiplier that the update consumes
is the root of `Σ_{k ∈ ks} num_k / (λ + den_k) = 1` on the branch where every term with a positive numerator has a
positive denominator -/
structure LamOk (c : Cfg α) (s : St α) (i : Nat) : Prop where
  pos : ∀ k, k < c.K → actK c s i k = true → 0 < numEff c s i k →
          0 < s.lams.headD 0 + uDen c s.w (barNew c s i) k
  root : sumR c.K (fun k => if actK c s i k then
            numEff c s i k / (s.lams.headD 0 + uDen c s.w (barNew c s i) k) else 0) = 1

theorem nrm_rawNew_norm (c : Cfg α) (hn : c.normU = true) (s : St α) (i k : Nat) :
    rawNew c s i k = numEff c s i k / (s.lams.headD 0 + uDen c s.w (barNew c s i) k) := by
  unfold rawNew uRaw numEff
  simp [hn]

section
variable (c : Cfg α) (hn : c.normU = true) (s : St α) (i : Nat)
  (hnum : ∀ k, 0 ≤ uNum c s.rho i k) (hl : LamOk c s i)
include hn hnum hl

theorem nrm_numEff_nonneg (k : Nat) : 0 ≤ numEff c s i k := by
  unfold numEff; split
  · exact le_refl 0
  · exact hnum k

theorem nrm_rawNew_nonneg (k : Nat) (hk : k < c.K) (ha : actK c s i k = true) : 0 ≤ rawNew c s i k := by
  rw [nrm_rawNew_norm c hn]
  rcases (nrm_numEff_nonneg c hn s i hnum hl k).lt_or_eq with h | h
  · exact le_of_lt (div_pos h (hl.pos k hk ha h))
  · rw [← h]; simp

theorem nrm_negNew_false : negNew c s i = false := by
  unfold negNew anyK
  rw [List.any_eq_false]
  intro k hk
  have hk' : k < c.K := List.mem_range.mp hk
  cases ha : actK c s i k with
  | false => simp
  | true =>
    have := nrm_rawNew_nonneg c hn s i hnum hl k hk' ha
    simp [not_lt.mpr this]

/-- the freshly computed entries of the active columns sum to one -/
theorem nrm_rawNew_sum : ∑ k ∈ range c.K, (if actK c s i k then rawNew c s i k else 0) = 1 := by
  have h := hl.root
  rw [sumR_eq] at h
  rw [← h]
  apply Finset.sum_congr rfl
  intro k _
  rw [nrm_rawNew_norm c hn]

theorem nrm_rawNew_le_one (k : Nat) (hk : k < c.K) (ha : actK c s i k = true) : rawNew c s i k ≤ 1 := by
  have hs := nrm_rawNew_sum c hn s i hnum hl
  have hnn : ∀ j ∈ range c.K, 0 ≤ (if actK c s i j then rawNew c s i j else 0) := by
    intro j hj
    split
    · rename_i hj'
      exact nrm_rawNew_nonneg c hn s i hnum hl j (Finset.mem_range.mp hj) hj'
    · exact le_refl 0
  have h1 := Finset.single_le_sum hnn (Finset.mem_range.mpr hk)
  rw [hs] at h1
  simpa [ha] using h1

end

section
variable (c : Cfg α) (hc : CfgOk c) (hn : c.normU = true) (hmax : ∀ t v, c.maxv = some (t, v) → 1 ≤ t)
  (s : St α) (hs : Inv c s) (i : Nat) (hi : i < c.N)
  (hnum : ∀ k, 0 ≤ uNum c s.rho i k) (hl : LamOk c s i)
include hc hn hmax hs hi hnum hl

/-- an active column: the new entry is the raw value, set to 0 when it is below the threshold -/
theorem nrm_vNew_active (k : Nat) (hk : k < c.K) (ha : actK c s i k = true) :
    vNew c s i k = clampLow c (rawNew c s i k) := by
  unfold vNew
  rw [ha, nrm_negNew_false c hn s i hnum hl]
  simp only [if_true, Bool.false_eq_true, if_false]
  have h1 : clampLow c (rawNew c s i k) ≤ 1 := by
    rcases clampLow_cases c (rawNew c s i k) with h | ⟨h, _⟩
    · rw [h]; exact zero_le_one
    · rw [h]; exact nrm_rawNew_le_one c hn s i hnum hl k hk ha
  unfold clampHigh
  split
  · rename_i t v hm
    rw [if_neg (not_lt.mpr (le_trans h1 (hmax t v hm)))]
  · rfl

theorem nrm_vNew_bounds (k : Nat) (hk : k < c.K) :
    (if actK c s i k then rawNew c s i k else 0) - c.minv ≤ vNew c s i k ∧
    vNew c s i k ≤ (if actK c s i k then rawNew c s i k else 0) + c.minv := by
  cases ha : actK c s i k with
  | true =>
    simp only [if_true]
    rw [nrm_vNew_active c hc hn hmax s hs i hi hnum hl k hk ha]
    have h0 := nrm_rawNew_nonneg c hn s i hnum hl k hk ha
    have hm := hc.minv
    unfold clampLow
    split
    · rename_i hlt
      constructor <;> linarith
    · constructor <;> linarith
  | false =>
    simp only [Bool.false_eq_true, if_false]
    rw [vNew_inactive c hc s hs i hi k ha]
    have h0 := hs.unn i k
    have hle : at2 s.u i k ≤ c.minv := by
      have : ¬ c.minv < at2 s.u i k := by simpa [actK] using ha
      exact not_lt.mp this
    have hm := hc.minv
    constructor <;> linarith

theorem nrm_row_sum_bounds :
    1 - (c.K : α) * c.minv ≤ sumR c.K (vNew c s i) ∧ sumR c.K (vNew c s i) ≤ 1 + (c.K : α) * c.minv := by
  rw [sumR_eq]
  have hsum := nrm_rawNew_sum c hn s i hnum hl
  have hconst : ∑ _k ∈ range c.K, c.minv = (c.K : α) * c.minv := by
    rw [Finset.sum_const, Finset.card_range, nsmul_eq_mul]
  constructor
  · have h : ∑ k ∈ range c.K, ((if actK c s i k then rawNew c s i k else 0) - c.minv)
        ≤ ∑ k ∈ range c.K, vNew c s i k :=
      Finset.sum_le_sum (fun k hk => (nrm_vNew_bounds c hc hn hmax s hs i hi hnum hl k (Finset.mem_range.mp hk)).1)
    rw [Finset.sum_sub_distrib, hsum, hconst] at h
    exact h
  · have h : ∑ k ∈ range c.K, vNew c s i k
        ≤ ∑ k ∈ range c.K, ((if actK c s i k then rawNew c s i k else 0) + c.minv) :=
      Finset.sum_le_sum (fun k hk => (nrm_vNew_bounds c hc hn hmax s hs i hi hnum hl k (Finset.mem_range.mp hk)).2)
    rw [Finset.sum_add_distrib, hsum, hconst] at h
    exact h

end
end C17

/-! ### a concrete instance (non-vacuity of `LamOk` and of the hypotheses of `C17_normalized_row`) -/
namespace C17

theorem at2_mem_or_zero {β : Type} [Zero β] (m : Mat β) (i k : Nat) :
    at2 m i k = 0 ∨ ∃ r ∈ m, at2 m i k ∈ r := by
  unfold at2
  simp only [List.getD_eq_getElem?_getD]
  cases hd : m[i]? with
  | none => left; simp
  | some r =>
    simp only [Option.getD_some]
    cases hk : r[k]? with
    | none => left; simp
    | some x => right; exact ⟨r, List.mem_of_getElem? hd, by simpa using List.mem_of_getElem? hk⟩

theorem at2_nonneg_rat (m : Mat ℚ) (h : ∀ r ∈ m, ∀ x ∈ r, 0 ≤ x) (i k : Nat) : 0 ≤ at2 m i k := by
  rcases at2_mem_or_zero m i k with h0 | ⟨r, hr, hx⟩
  · rw [h0]
  · exact h r hr _ hx

/-- two nodes, one hyperedge {0,1} of weight 1, K = 2, `normalizeU = True`, thresholds as in the code -/
def cNorm : Cfg ℚ :=
  { N := 2, K := 2, D := 2, edges := [[0, 1]], A := [1], minv := 1 / 100000, maxv := some (100, 100), eps := 0,
    rtol := 1 / 1000, normU := true }

/-- `u = 1/2` everywhere, `psi = (e_1, e_2)` of its columns, `w = 1`, `rho = 1/2`; the multiplier `1/2` is the root of
`2 · (1/2) / (λ + 1/2) = 1` -/
def sNorm : St ℚ :=
  { u := [[1 / 2, 1 / 2], [1 / 2, 1 / 2]], w := [[1, 1]], psi := [[1, 1], [1 / 4, 1 / 4]], bar := [[0, 0], [0, 0]],
    rho := [[1 / 2, 1 / 2]], lams := [1 / 2] }

theorem cNorm_ok : CfgOk cNorm := by
  refine ⟨by decide +kernel, ?_⟩
  intro t v h
  simp only [cNorm, Option.some.injEq, Prod.mk.injEq] at h
  obtain ⟨rfl, rfl⟩ := h
  constructor <;> decide +kernel

theorem sNorm_lamOk : LamOk cNorm sNorm 0 := by
  refine ⟨?_, by decide +kernel⟩
  intro k hk
  have hk' : k < 2 := hk
  interval_cases k <;> decide +kernel

theorem sNorm_num (k : Nat) : 0 ≤ uNum cNorm sNorm.rho 0 k := by
  by_cases h0 : k = 0
  · subst h0; decide +kernel
  · by_cases h1 : k = 1
    · subst h1; decide +kernel
    · have : at2 sNorm.rho 0 k = 0 := by
        unfold at2 sNorm
        simp only [List.getD_cons_zero]
        match k, h0, h1 with
        | k + 2, _, _ => rfl
      unfold uNum sumR
      simp [cNorm, Cfg.E, Cfg.edge, Cfg.wt, this]

theorem sNorm_inv : Inv cNorm sNorm := by
  refine ⟨⟨?_, ?_, ?_⟩, ?_⟩
  · intro d k hd hk
    have hd' : d < 2 := hd
    have hk' : k < 2 := hk
    interval_cases d <;> interval_cases k <;> decide +kernel
  · intro i k
    apply at2_nonneg_rat
    decide +kernel
  · intro d k
    apply at2_nonneg_rat
    decide +kernel
  · intro i k
    by_cases h : at2 sNorm.u i k = 0
    · left; exact h
    · right
      have := at2_mem_or_zero sNorm.u i k
      rcases this with h0 | hm
      · exact absurd h0 h
      · have hall : ∀ r ∈ sNorm.u, ∀ x ∈ r, cNorm.minv ≤ x := by decide +kernel
        obtain ⟨r, hr, hx⟩ := hm
        exact hall r hr _ hx

end C17
