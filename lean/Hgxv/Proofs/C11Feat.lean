import Hgxv.Proofs.C11Classes
/-! # C11 - which hyperedge sizes a pattern uses is a class invariant (kernel-checked, a few seconds)

Bit 0 of a mask is the hyperedge on all `n` nodes, bits 1..4 of an order-4 mask are the four
hyperedges of size 3.  Relabelling keeps "has the big hyperedge" and "has some hyperedge of size 3". -/
namespace C11

set_option maxRecDepth 100000 in
theorem featOk3 : allBelow (fun m => Nat.beq (cid3 m) 0 || Nat.beq (cid3 m % 2) (m % 2)) 16 = true := by
  decide +kernel

set_option maxRecDepth 100000 in
theorem featOk4 : allBelow (fun m => Nat.beq (cid4 m) 0 ||
    (Nat.beq (cid4 m % 2) (m % 2) && (Nat.beq (cid4 m / 2 % 16) 0 == Nat.beq (m / 2 % 16) 0))) 2048 = true := by
  decide +kernel

theorem feat_bit0 {n : Nat} (hn : n = 3 ∨ n = 4) {m : Nat} (hm : m < numMasks n) (hc : cidFor n m ≠ 0) :
    cidFor n m % 2 = m % 2 := by
  rcases hn with h | h <;> subst h
  · rw [numMasks3] at hm
    have := allBelow_iff.mp featOk3 m hm
    simp only [Bool.or_eq_true, Nat.beq_eq] at this
    rcases this with h0 | h1
    · exact absurd h0 hc
    · exact h1
  · rw [numMasks4] at hm
    have := allBelow_iff.mp featOk4 m hm
    simp only [Bool.or_eq_true, Bool.and_eq_true, Nat.beq_eq] at this
    rcases this with h0 | h1
    · exact absurd h0 hc
    · exact h1.1

theorem feat_mid {m : Nat} (hm : m < numMasks 4) (hc : cidFor 4 m ≠ 0) :
    (cidFor 4 m / 2 % 16 = 0 ↔ m / 2 % 16 = 0) := by
  rw [numMasks4] at hm
  have := allBelow_iff.mp featOk4 m hm
  simp only [Bool.or_eq_true, Bool.and_eq_true, Nat.beq_eq, beq_iff_eq] at this
  rcases this with h0 | h1
  · exact absurd h0 hc
  · have h2 := h1.2
    show cid4 m / 2 % 16 = 0 ↔ m / 2 % 16 = 0
    constructor
    · intro h
      have : Nat.beq (cid4 m / 2 % 16) 0 = true := by rw [h]; rfl
      rw [h2] at this
      exact Nat.eq_of_beq_eq_true this
    · intro h
      have : Nat.beq (m / 2 % 16) 0 = true := by rw [h]; rfl
      rw [← h2] at this
      exact Nat.eq_of_beq_eq_true this

end C11
