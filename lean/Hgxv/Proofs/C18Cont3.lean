import Hgxv.Model.C18
import Hgxv.Proofs.C18Cont
import Mathlib.Algebra.Order.Field.Rat
import Mathlib.Tactic.Linarith
/-! Single-rate corner cases of one contagion sweep (extension round): what one rate being `0`/`1` forces whatever
the other two rates and the draws are, and "no infection without a source". -/
namespace C18

theorem loopHits_none (f : Nat → Rat) (rate : Rat) (cs : List Bool) (p : Nat) (h : cs.any id = false) :
    loopHits f rate cs p = (false, p) := by
  rw [loopHits_eq_tries]
  have : cs.count true = 0 := by
    rw [List.count_eq_zero]
    intro hm
    have : cs.any id = true := List.any_eq_true.mpr ⟨true, hm, rfl⟩
    rw [h] at this; cases this
  rw [this]; rfl

theorem newVal_no_source (es : List Edge) (nodes : List Nat) (r : Rates) (f : Nat → Rat) (I : Nat → Bool) (v q : Nat)
    (hI : I v = false) (hp : (pairNbrs es nodes v).any I = false) (ht : (triplets es v).any (triHit I v) = false) :
    (newVal es nodes r f I v q).1 = false := by
  have h1 : ((pairNbrs es nodes v).map I).any id = false := by rw [List.any_map]; exact hp
  have h2 : ((triplets es v).map (triHit I v)).any id = false := by rw [List.any_map]; exact ht
  simp [newVal, hI, infect, loopHits_none f _ _ _ h1, loopHits_none f _ _ _ h2]

theorem newVal_beta1 (es : List Edge) (nodes : List Nat) (r : Rates) (f : Nat → Rat) (hf : UnitDraws f) (hb : r.beta = 1)
    (I : Nat → Bool) (v q : Nat) (hI : I v = false) (hp : (pairNbrs es nodes v).any I = true) :
    (newVal es nodes r f I v q).1 = true := by
  have e1 : ∀ cs p, (loopHits f 1 cs p).1 = cs.any id := loopHits_succeed f 1 (fun n => (hf n).2)
  have h1 : ((pairNbrs es nodes v).map I).any id = true := by rw [List.any_map]; exact hp
  simp [newVal, hI, infect, hb, e1, h1]

theorem newVal_betaD1 (es : List Edge) (nodes : List Nat) (r : Rates) (f : Nat → Rat) (hf : UnitDraws f) (hbd : r.betaD = 1)
    (I : Nat → Bool) (v q : Nat) (hI : I v = false) (ht : (triplets es v).any (triHit I v) = true) :
    (newVal es nodes r f I v q).1 = true := by
  have e1 : ∀ cs p, (loopHits f 1 cs p).1 = cs.any id := loopHits_succeed f 1 (fun n => (hf n).2)
  have h2 : ((triplets es v).map (triHit I v)).any id = true := by rw [List.any_map]; exact ht
  simp only [newVal, hI, if_true, infect, hbd]
  split
  · rfl
  · rw [e1]; exact h2

theorem newVal_mu1 (es : List Edge) (nodes : List Nat) (r : Rates) (f : Nat → Rat) (hf : UnitDraws f) (hmu : r.mu = 1)
    (I : Nat → Bool) (v q : Nat) (hI : I v = true) : (newVal es nodes r f I v q).1 = false := by
  simp [newVal, hI, recover, hmu, (hf q).2]

theorem step_value (es : List Edge) (nodes : List Nat) (hnd : nodes.Nodup) (r : Rates) (f : Nat → Rat)
    (I : Nat → Bool) (p v : Nat) (b : Bool) (hv : v ∈ nodes) (h : ∀ q, (newVal es nodes r f I v q).1 = b) :
    (step es nodes r f I p).1 v = b := by
  obtain ⟨_, h2⟩ := step_spec es nodes hnd r f I p
  obtain ⟨q, hq⟩ := h2 v hv
  rw [hq, h q]

end C18
