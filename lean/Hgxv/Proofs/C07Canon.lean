import Hgxv.Proofs.C07Sort
/-! # C07 helper lemmas: the canonical tree of a content (core Lean only) -/
namespace C07
open AL
variable {κ : Type} [Kind κ]

/-- hyperedge record of the serialized pre-image, metadata already serialized -/
def edgeRec (e : κ × Num × JTree) : JTree :=
  .obj [("metadata", e.2.2), ("nodes", Kind.keyTree e.1), ("weight", .num e.2.1)]
/-- node record of the serialized pre-image, metadata already serialized -/
def nodeRec (p : Nat × JTree) : JTree :=
  .obj [("metadata", p.2), ("node", natTree p.1)]

theorem ser_edgeTree [LawfulKind κ] (e : κ × Num × JTree) : ser (edgeTree e) = edgeRec (normEdge e) := by
  simp [ser, serFields, edgeTree, edgeRec, normEdge, sortBy, insertBy, fieldLe, KeyOrd.le,
    LawfulKind.ser_keyTree]

theorem ser_nodeTree (p : Nat × JTree) : ser (nodeTree p) = nodeRec (normNode p) := by
  simp [ser, serFields, nodeTree, nodeRec, normNode, sortBy, insertBy, fieldLe, KeyOrd.le, ser_natTree]

theorem edgeRec_inj [LawfulKind κ] {a b : κ × Num × JTree} (h : edgeRec a = edgeRec b) : a = b := by
  simp only [edgeRec, JTree.obj.injEq, List.cons.injEq, Prod.mk.injEq, true_and, and_true, JTree.num.injEq] at h
  obtain ⟨h1, h2, h3⟩ := h
  obtain ⟨a1, a2, a3⟩ := a
  obtain ⟨b1, b2, b3⟩ := b
  simp only at h1 h2 h3
  rw [LawfulKind.keyTree_inj _ _ h2, h1, h3]

theorem nodeRec_inj {a b : Nat × JTree} (h : nodeRec a = nodeRec b) : a = b := by
  simp only [nodeRec, JTree.obj.injEq, List.cons.injEq, Prod.mk.injEq, true_and, and_true] at h
  obtain ⟨a1, a2⟩ := a
  obtain ⟨b1, b2⟩ := b
  simp only at h
  rw [natTree_inj h.2, h.1]

theorem map_inj_of_inj {α β : Type} (f : α → β) (hf : ∀ a b, f a = f b → a = b) {l₁ l₂ : List α}
    (h : l₁.map f = l₂.map f) : l₁ = l₂ := by
  induction l₁ generalizing l₂ with
  | nil => cases l₂ with
    | nil => rfl
    | cons y ys => simp at h
  | cons x xs ih => cases l₂ with
    | nil => simp at h
    | cons y ys =>
      simp only [List.map_cons, List.cons.injEq] at h
      rw [hf _ _ h.1, ih h.2]

/-- the canonical tree, written out -/
def canonNF (c : Content κ) : JTree :=
  .obj [("edges", .arr ((sortBy edgeKeyLe (c.edges.map normEdge)).map edgeRec)),
        ("hypergraph_metadata", ser c.hmeta),
        ("nodes", .arr ((sortBy nodeKeyLe (c.nodes.map normNode)).map nodeRec)),
        ("type", .str (Kind.tag κ)), ("weighted", .bool c.weighted)]

theorem sort_normEdge (l : List (κ × Num × JTree)) :
    sortBy edgeKeyLe (l.map normEdge) = (sortBy edgeKeyLe l).map normEdge :=
  sortBy_map edgeKeyLe edgeKeyLe normEdge (fun _ _ => rfl) l

theorem sort_normNode (l : List (Nat × JTree)) :
    sortBy nodeKeyLe (l.map normNode) = (sortBy nodeKeyLe l).map normNode :=
  sortBy_map nodeKeyLe nodeKeyLe normNode (fun _ _ => rfl) l

theorem canon_eq_NF [LawfulKind κ] (c : Content κ) : canon c = canonNF c := by
  unfold canon canonNF
  rw [ser_topTree, sort_normEdge, sort_normNode]
  simp only [List.map_map]
  have e1 : (ser ∘ edgeTree : κ × Num × JTree → JTree) = edgeRec ∘ normEdge := by
    funext e; exact ser_edgeTree e
  have e2 : (ser ∘ nodeTree) = nodeRec ∘ normNode := by
    funext p; exact ser_nodeTree p
  rw [e1, e2]

theorem keys_normEdge (l : List (κ × Num × JTree)) : (l.map normEdge).map (·.1) = l.map (·.1) := by
  simp [List.map_map, Function.comp_def, normEdge]

theorem keys_normNode (l : List (Nat × JTree)) : (l.map normNode).map (·.1) = l.map (·.1) := by
  simp [List.map_map, Function.comp_def, normNode]

/-- equal contents have the same canonical tree -/
theorem canon_congr [LawfulKind κ] {a b : Content κ} (wa : a.WF) (h : a.Equiv b) : canon a = canon b := by
  rw [canon_eq_NF, canon_eq_NF]
  unfold canonNF
  have he : sortBy edgeKeyLe (a.edges.map normEdge) = sortBy edgeKeyLe (b.edges.map normEdge) :=
    sortBy_key_eq_of_perm (fun e : κ × Num × JTree => e.1) h.edges (by rw [keys_normEdge]; exact wa.edgesNodup)
  have hn : sortBy nodeKeyLe (a.nodes.map normNode) = sortBy nodeKeyLe (b.nodes.map normNode) :=
    sortBy_key_eq_of_perm (fun p : Nat × JTree => p.1) h.nodes (by rw [keys_normNode]; exact wa.nodesNodup)
  rw [he, hn, h.hmeta, h.weighted]

/-- the canonical tree determines the content -/
theorem canon_inj [LawfulKind κ] {a b : Content κ} (h : canon a = canon b) : a.Equiv b := by
  rw [canon_eq_NF, canon_eq_NF] at h
  simp only [canonNF, JTree.obj.injEq, List.cons.injEq, Prod.mk.injEq, true_and, and_true, JTree.arr.injEq,
    JTree.bool.injEq] at h
  obtain ⟨he, hh, hn, hw⟩ := h
  have he' := map_inj_of_inj edgeRec (fun _ _ => edgeRec_inj) he
  have hn' := map_inj_of_inj nodeRec (fun _ _ => nodeRec_inj) hn
  refine ⟨?_, ?_, hh, hw⟩
  · exact (sortBy_perm nodeKeyLe _).symm.trans (hn' ▸ sortBy_perm nodeKeyLe _)
  · exact (sortBy_perm edgeKeyLe _).symm.trans (he' ▸ sortBy_perm edgeKeyLe _)

theorem Content.Equiv.refl (a : Content κ) : a.Equiv a := ⟨List.Perm.refl _, List.Perm.refl _, rfl, rfl⟩
theorem Content.Equiv.symm {a b : Content κ} (h : a.Equiv b) : b.Equiv a :=
  ⟨h.nodes.symm, h.edges.symm, h.hmeta.symm, h.weighted.symm⟩
theorem Content.Equiv.trans {a b c : Content κ} (h : a.Equiv b) (g : b.Equiv c) : a.Equiv c :=
  ⟨h.nodes.trans g.nodes, h.edges.trans g.edges, h.hmeta.trans g.hmeta, h.weighted.trans g.weighted⟩

/-! ## each kind of difference is a difference of contents -/

theorem not_equiv_of_node {a b : Content κ} {n : Nat} (ha : n ∈ a.nodes.map (·.1)) (hb : n ∉ b.nodes.map (·.1)) :
    ¬ a.Equiv b := by
  intro h
  have := (h.nodes.map (·.1)).mem_iff (a := n)
  rw [keys_normNode, keys_normNode] at this
  exact hb (this.mp ha)

theorem not_equiv_of_key {a b : Content κ} {k : κ} (ha : k ∈ a.edges.map (·.1)) (hb : k ∉ b.edges.map (·.1)) :
    ¬ a.Equiv b := by
  intro h
  have := (h.edges.map (·.1)).mem_iff (a := k)
  rw [keys_normEdge, keys_normEdge] at this
  exact hb (this.mp ha)

/-- the record of a key in a duplicate-free listing is unique -/
theorem record_unique {α β : Type} {l : List (α × β)} (hnd : (l.map (·.1)).Nodup) {k : α} {v v' : β}
    (h : (k, v) ∈ l) (h' : (k, v') ∈ l) : v = v' := by
  have := eq_of_nodup_map (fun p : α × β => p.1) hnd h h' rfl
  exact (Prod.mk.inj this).2

theorem not_equiv_of_edge_record {a b : Content κ} (wb : b.WF) {k : κ} {w w' : Num} {md md' : JTree}
    (ha : (k, w, md) ∈ a.edges) (hb : (k, w', md') ∈ b.edges) (hne : w ≠ w' ∨ ser md ≠ ser md') :
    ¬ a.Equiv b := by
  intro h
  have hm : normEdge (k, w, md) ∈ b.edges.map normEdge :=
    h.edges.mem_iff.mp (List.mem_map_of_mem ha)
  obtain ⟨e, he, hee⟩ := List.mem_map.mp hm
  obtain ⟨k2, w2, md2⟩ := e
  simp only [normEdge, Prod.mk.injEq] at hee
  obtain ⟨hk, hw, hmd⟩ := hee
  subst hk
  have := record_unique wb.edgesNodup he hb
  simp only [Prod.mk.injEq] at this
  rcases hne with h1 | h1
  · exact h1 (hw.symm.trans this.1)
  · exact h1 (hmd.symm.trans (by rw [this.2]))

theorem not_equiv_of_node_record {a b : Content κ} (wb : b.WF) {n : Nat} {md md' : JTree}
    (ha : (n, md) ∈ a.nodes) (hb : (n, md') ∈ b.nodes) (hne : ser md ≠ ser md') : ¬ a.Equiv b := by
  intro h
  have hm : normNode (n, md) ∈ b.nodes.map normNode :=
    h.nodes.mem_iff.mp (List.mem_map_of_mem ha)
  obtain ⟨e, he, hee⟩ := List.mem_map.mp hm
  obtain ⟨n2, md2⟩ := e
  simp only [normNode, Prod.mk.injEq] at hee
  obtain ⟨hk, hmd⟩ := hee
  subst hk
  have := record_unique wb.nodesNodup he hb
  exact hne (hmd.symm.trans (by rw [this]))

end C07
