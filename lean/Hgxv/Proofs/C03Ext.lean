import Hgxv.Model.C03Ext
import Hgxv.Proofs.C03Full
/-! C03, extension round - the constructor is a history of public calls; the hashing view is the sorted map; the raw
tables.  Core Lean only. -/
namespace AL
variable {α β : Type} [DecidableEq α]

theorem set_set (l : List (α × β)) (k : α) (a b : β) : set (set l k a) k b = set l k b := by
  induction l with
  | nil => simp [set]
  | cons hd t ih => grind [set]

end AL

namespace C03
open AL

/-! ## the constructor -/

/-- the quantifier's "node sets" for the constructor's batch -/
def CtorArgs.WF (a : CtorArgs) : Prop :=
  match ctorBatch a.edges with
  | some (some (raws, _)) => ∀ r ∈ raws, r.Nodup
  | _ => True

instance (a : CtorArgs) : Decidable a.WF := by
  unfold CtorArgs.WF
  split <;> infer_instance

theorem inv_ctorInit (a : CtorArgs) : Inv (ctorInit a) := by
  constructor <;> simp [ctorInit, keys]
  constructor <;> simp [keys]

theorem ctorNodes_inv (s : Store) (h : Inv s) (nm : List (Node × Meta)) : Inv (ctorNodes s nm) :=
  foldl_inv _ (fun s p hs => addNode_inv s hs p.1 (some p.2)) nm s h

theorem abs_ctorInit (a : CtorArgs) : abs (ctorInit a) = Spec.ctorInit a := rfl

theorem abs_ctorNodes (s : Store) (nm : List (Node × Meta)) : abs (ctorNodes s nm) = Spec.ctorNodes (abs s) nm := by
  induction nm generalizing s with
  | nil => rfl
  | cons p t ih =>
    show abs (ctorNodes (addNode s p.1 (some p.2)) t) = Spec.ctorNodes (Spec.addNode (abs s) p.1 (some p.2)) t
    rw [ih, addNode_abs]

/-- the constructor refines the constructor of the map: accepted together, same abstract state -/
theorem construct_abs (a : CtorArgs) (ha : a.WF) : (construct a).map abs = Spec.construct a := by
  unfold construct Spec.construct
  unfold CtorArgs.WF at ha
  cases hb : ctorBatch a.edges with
  | none => rfl
  | some b =>
    cases b with
    | none => simp only [Option.map_some, abs_ctorNodes, abs_ctorInit]
    | some p =>
      obtain ⟨raws, ts⟩ := p
      rw [hb] at ha
      simp only at ha ⊢
      obtain ⟨e1, e2⟩ := addEdges_abs _ (ctorNodes_inv _ (inv_ctorInit a) a.nodeMeta) raws ha ts a.weights a.edgeMeta
      rw [abs_ctorNodes, abs_ctorInit] at e1 e2
      generalize addEdges (ctorNodes (ctorInit a) a.nodeMeta) raws ts a.weights a.edgeMeta = r at e1 e2 ⊢
      generalize Spec.addEdges (Spec.ctorNodes (Spec.ctorInit a) a.nodeMeta) raws ts a.weights a.edgeMeta = r' at e1 e2 ⊢
      obtain ⟨s1, o1⟩ := r
      obtain ⟨sp1, o1'⟩ := r'
      simp only at e1 e2
      subst e2
      cases o1 with
      | ok => simp only [Option.map_some, e1]
      | rej => rfl

theorem runCalls_append (s : Store) (a b : List SOp) : runCalls s (a ++ b) = runCalls (runCalls s a) b := by
  unfold runCalls; rw [List.foldl_append]

theorem ctorNodes_runCalls (s : Store) (nm : List (Node × Meta)) : ctorNodes s nm = runCalls s (nodeCalls nm) := by
  induction nm generalizing s with
  | nil => rfl
  | cons p t ih => exact ih (addNode s p.1 (some p.2))

theorem setHMeta_new (a : CtorArgs) : (applyOp (Store.new a.weighted) (.setHMeta (ctorHMeta a.weighted a.hm))).1 = ctorInit a := rfl

/-- accepted constructor = the run of `ctorCalls` on the empty object -/
theorem construct_some (a : CtorArgs) (s : Store) (h : construct a = some s) :
    ∃ calls, ctorCalls a = some calls ∧ s = runCalls (Store.new a.weighted) calls := by
  unfold construct at h
  unfold ctorCalls
  cases hb : ctorBatch a.edges with
  | none => rw [hb] at h; simp at h
  | some b =>
    cases b with
    | none =>
      rw [hb] at h
      simp only [Option.some.injEq] at h
      refine ⟨_, rfl, ?_⟩
      rw [← h, ctorNodes_runCalls]
      show _ = runCalls ((applyOp (Store.new a.weighted) (.setHMeta (ctorHMeta a.weighted a.hm))).1) _
      rw [setHMeta_new]
    | some p =>
      obtain ⟨raws, ts⟩ := p
      rw [hb] at h
      simp only at h
      refine ⟨_, rfl, ?_⟩
      show _ = runCalls ((applyOp (Store.new a.weighted) (.setHMeta (ctorHMeta a.weighted a.hm))).1) _
      rw [setHMeta_new, runCalls_append, ← ctorNodes_runCalls]
      generalize hr : addEdges (ctorNodes (ctorInit a) a.nodeMeta) raws ts a.weights a.edgeMeta = r at h
      obtain ⟨s1, o⟩ := r
      cases o with
      | rej => simp at h
      | ok =>
        simp only [Option.some.injEq] at h
        rw [← h]
        show s1 = (addEdges (ctorNodes (ctorInit a) a.nodeMeta) raws ts a.weights a.edgeMeta).1
        rw [hr]

theorem nodeCalls_wf (nm : List (Node × Meta)) : ∀ op ∈ nodeCalls nm, op.WF := by
  intro op hop
  obtain ⟨p, _, rfl⟩ := List.mem_map.mp hop
  exact True.intro

theorem ctorCalls_wf (a : CtorArgs) (ha : a.WF) (calls : List SOp) (h : ctorCalls a = some calls) : ∀ op ∈ calls, op.WF := by
  unfold ctorCalls at h
  unfold CtorArgs.WF at ha
  cases hb : ctorBatch a.edges with
  | none => rw [hb] at h; simp at h
  | some b =>
    cases b with
    | none =>
      rw [hb] at h
      simp only [Option.some.injEq] at h
      rw [← h]
      intro op hop
      rcases List.mem_cons.mp hop with h1 | h1
      · rw [h1]; exact True.intro
      · exact nodeCalls_wf _ op h1
    | some p =>
      obtain ⟨raws, ts⟩ := p
      rw [hb] at h ha
      simp only [Option.some.injEq] at h ha
      rw [← h]
      intro op hop
      rcases List.mem_cons.mp hop with h1 | h1
      · rw [h1]; exact True.intro
      · rcases List.mem_append.mp h1 with h2 | h2
        · exact nodeCalls_wf _ op h2
        · simp only [List.mem_singleton] at h2
          rw [h2]; exact ha

/-- the constructor is refused exactly when the time argument has none of the accepted forms or the single `add_edges`
is refused - and that is decided by the arguments alone -/
theorem construct_none_iff (a : CtorArgs) :
    construct a = none ↔
      (ctorBatch a.edges = none ∨ ∃ raws ts, ctorBatch a.edges = some (some (raws, ts)) ∧
        addEdgesOk raws ts a.weights a.edgeMeta = false) := by
  unfold construct
  cases hb : ctorBatch a.edges with
  | none => simp
  | some b =>
    cases b with
    | none => simp
    | some p =>
      obtain ⟨raws, ts⟩ := p
      simp only [addEdges]
      cases hok : addEdgesOk raws ts a.weights a.edgeMeta with
      | false =>
        simp only [Bool.false_eq_true, if_false]
        constructor
        · intro _; exact Or.inr ⟨raws, ts, rfl, hok⟩
        · intro _; trivial
      | true =>
        simp only [if_true]
        constructor
        · intro h; cases h
        · rintro (h | ⟨r, t, h1, h2⟩)
          · cases h
          · simp only [Option.some.injEq, Prod.mk.injEq] at h1
            obtain ⟨rfl, rfl⟩ := h1
            rw [hok] at h2; cases h2

/-! ## the machine with constructor calls is the machine of Model/C03Full.lean on the expanded history -/

theorem frun_append (st : FState) (a b : List FOp) : frun st (a ++ b) = frun (frun st a) b := by
  unfold frun; rw [List.foldl_append]

theorem frun_on (st : FState) (i : Nat) (o : Obj) (calls : List SOp) :
    frun (AL.set st i o) (calls.map (fun c => FOp.on i (.base c))) =
      AL.set st i { o with base := runCalls o.base calls } := by
  induction calls generalizing o with
  | nil => rfl
  | cons c t ih =>
    simp only [List.map_cons, frun, List.foldl_cons]
    have h1 : (fstep (AL.set st i o) (FOp.on i (.base c))).1 = AL.set st i { o with base := (applyOp o.base c).1 } := by
      simp only [fstep, get?_set_self, set_set]; rfl
    rw [h1]
    have := ih { o with base := (applyOp o.base c).1 }
    simp only [frun] at this
    rw [this]; rfl

theorem frun_ctor (st : FState) (i : Nat) (w : Bool) (calls : List SOp) :
    frun st (FOp.new i w :: calls.map (fun c => FOp.on i (.base c))) =
      AL.set st i { base := runCalls (Store.new w) calls } := by
  have h := frun_on st i (Obj.new w) calls
  simp only [frun, List.foldl_cons] at h ⊢
  exact h

theorem xstep_expand (st : FState) (op : XOp) : (xstep st op).1 = frun st op.expand := by
  cases op with
  | f op => rfl
  | ask i q => simp only [xstep, XOp.expand, frun, List.foldl_nil]; cases get? st i <;> rfl
  | ctor i a =>
    simp only [xstep, XOp.expand]
    cases hc : construct a with
    | none => rfl
    | some s =>
      obtain ⟨calls, h1, h2⟩ := construct_some a s hc
      simp only [h1]
      rw [frun_ctor, ← h2]

/-- **Projection.** A history with constructor calls and the new getters is the history of `Model/C03Full.lean` in
which every accepted constructor call is replaced by `TemporalHypergraph(weighted=w)` followed by the public calls
`ctorCalls`, and refused constructor calls and questions are dropped. -/
theorem xrun_expand (ops : List XOp) (st : FState) : xrun st ops = frun st (ops.flatMap XOp.expand) := by
  induction ops generalizing st with
  | nil => rfl
  | cons op ops ih =>
    simp only [List.flatMap_cons, frun_append]
    rw [← xstep_expand, ← ih]
    rfl

def XOp.WF : XOp → Prop
  | .f op => op.WF
  | .ctor _ a => a.WF
  | .ask _ _ => True

instance (o : XOp) : Decidable o.WF := by
  cases o <;> simp only [XOp.WF] <;> infer_instance

theorem expand_wf (ops : List XOp) (hwf : ∀ op ∈ ops, op.WF) : ∀ b ∈ ops.flatMap XOp.expand, b.WF := by
  intro b hb
  obtain ⟨op, hop, hb⟩ := List.mem_flatMap.mp hb
  have h := hwf op hop
  cases op with
  | f op => simp only [XOp.expand, List.mem_singleton] at hb; rw [hb]; exact h
  | ask i q => simp [XOp.expand] at hb
  | ctor i a =>
    simp only [XOp.expand] at hb
    cases hc : construct a with
    | none => rw [hc] at hb; simp at hb
    | some s =>
      cases hcc : ctorCalls a with
      | none => rw [hc, hcc] at hb; simp at hb
      | some calls =>
        rw [hc, hcc] at hb
        simp only at hb
        rcases List.mem_cons.mp hb with h1 | h1
        · rw [h1]; exact True.intro
        · obtain ⟨c, hcm, rfl⟩ := List.mem_map.mp h1
          exact ctorCalls_wf a h calls hcc c hcm

/-- `o` is the content of some slot after some history of well-formed calls, constructor calls included -/
def XReachable (o : Obj) : Prop :=
  ∃ ops : List XOp, (∀ op ∈ ops, op.WF) ∧ ∃ i, get? (xrun [] ops) i = some o

theorem xreachable_full {o : Obj} (h : XReachable o) : FReachable o := by
  obtain ⟨ops, hwf, i, hi⟩ := h
  exact ⟨ops.flatMap XOp.expand, expand_wf ops hwf, i, by rw [← xrun_expand]; exact hi⟩

/-- every constructed object is reachable -/
theorem construct_reachable (a : CtorArgs) (ha : a.WF) (s : Store) (h : construct a = some s) : Reachable s := by
  apply freachable_base (o := { base := s })
  apply xreachable_full
  refine ⟨[.ctor 0 a], ?_, 0, ?_⟩
  · intro op hop
    simp only [List.mem_singleton] at hop
    rw [hop]; exact ha
  · simp only [xrun, List.foldl_cons, List.foldl_nil, xstep, h]
    exact get?_set_self _ _ _

/-! ## refinement for histories with constructor calls -/

/-- the history on the abstract side: base calls as before, a constructor call is the constructor of the map -/
def xspecStep (st : SpecState) : XOp → SpecState
  | .f op => match op.toBase? with
    | some b => specStep st b
    | none => st
  | .ctor i a => specCtor st i a
  | .ask _ _ => st

def xspecRun (st : SpecState) (ops : List XOp) : SpecState := ops.foldl xspecStep st

theorem toBase_wf1 (op : FOp) (h : op.WF) (b : Op) (hb : op.toBase? = some b) : b.WF :=
  toBase_wf [op] (by intro o ho; simp only [List.mem_singleton] at ho; rw [ho]; exact h) b
    (by simp [List.filterMap_cons, hb])

theorem stateInv_set (st : State) (hst : StateInv st) (i : Nat) (s : Store) (h : Inv s) : StateInv (AL.set st i s) := by
  intro p hp
  rcases mem_set _ _ _ _ hp with hp | hp
  · subst hp; exact h
  · exact hst p hp

theorem xstep_inv (st : FState) (hst : StateInv (baseState st)) (op : XOp) (hwf : op.WF) :
    StateInv (baseState (xstep st op).1) := by
  cases op with
  | f op =>
    show StateInv (baseState (fstep st op).1)
    rw [fstep_base]
    cases hb : op.toBase? with
    | none => exact hst
    | some b => exact step_inv _ hst b (toBase_wf1 op hwf b hb)
  | ask i q => simp only [xstep]; cases get? st i <;> exact hst
  | ctor i a =>
    simp only [xstep]
    cases hc : construct a with
    | none => exact hst
    | some s =>
      simp only [baseState_eq, mapVals_set]
      exact stateInv_set _ hst i s (reachable_inv (construct_reachable a hwf s hc))

theorem xstep_abs (st : FState) (hst : StateInv (baseState st)) (op : XOp) (hwf : op.WF) :
    absState (baseState (xstep st op).1) = xspecStep (absState (baseState st)) op := by
  cases op with
  | f op =>
    show absState (baseState (fstep st op).1) = _
    rw [fstep_base]
    simp only [xspecStep]
    cases hb : op.toBase? with
    | none => rfl
    | some b => exact step_abs _ hst b (toBase_wf1 op hwf b hb)
  | ask i q => simp only [xstep, xspecStep]; cases get? st i <;> rfl
  | ctor i a =>
    have hab := construct_abs a hwf
    simp only [xstep, xspecStep, specCtor]
    cases hc : construct a with
    | none => rw [hc] at hab; rw [← hab]; rfl
    | some s =>
      rw [hc] at hab
      rw [← hab]
      simp only [Option.map_some, baseState_eq, absState, mapVals_set]

theorem xrun_inv (ops : List XOp) (hwf : ∀ op ∈ ops, op.WF) (st : FState) (hst : StateInv (baseState st)) :
    StateInv (baseState (xrun st ops)) := by
  induction ops generalizing st with
  | nil => exact hst
  | cons op ops ih =>
    simp only [xrun, List.foldl_cons]
    exact ih (fun o ho => hwf o (by simp [ho])) _ (xstep_inv st hst op (hwf op (by simp)))

theorem xrun_abs (ops : List XOp) (hwf : ∀ op ∈ ops, op.WF) (st : FState) (hst : StateInv (baseState st)) :
    absState (baseState (xrun st ops)) = xspecRun (absState (baseState st)) ops := by
  induction ops generalizing st with
  | nil => rfl
  | cons op ops ih =>
    simp only [xrun, xspecRun, List.foldl_cons]
    have h1 := xstep_abs st hst op (hwf op (by simp))
    have := ih (fun o ho => hwf o (by simp [ho])) _ (xstep_inv st hst op (hwf op (by simp)))
    simp only [xrun, xspecRun] at this
    rw [this, h1]

/-! ## strict total orders and `sorted` -/

structure StrictTotal {κ : Type} (lt : κ → κ → Bool) : Prop where
  irrefl : ∀ a, lt a a = false
  trans : ∀ a b c, lt a b = true → lt b c = true → lt a c = true
  tri : ∀ a b, lt a b = false → lt b a = false → a = b

theorem ltList_irrefl (a : List Nat) : ltList a a = false := by
  induction a with
  | nil => rfl
  | cons x t ih => simp [ltList, ih]

theorem ltList_trans (a b c : List Nat) (h1 : ltList a b = true) (h2 : ltList b c = true) : ltList a c = true := by
  induction a generalizing b c with
  | nil =>
    cases b with
    | nil => simp [ltList] at h1
    | cons y bs =>
      cases c with
      | nil => simp [ltList] at h2
      | cons z cs => rfl
  | cons x as ih =>
    cases b with
    | nil => simp [ltList] at h1
    | cons y bs =>
      cases c with
      | nil => simp [ltList] at h2
      | cons z cs =>
        simp only [ltList, Bool.or_eq_true, Bool.and_eq_true, decide_eq_true_eq] at h1 h2 ⊢
        rcases h1 with h1 | ⟨e1, h1⟩
        · rcases h2 with h2 | ⟨e2, h2⟩
          · left; omega
          · left; omega
        · rcases h2 with h2 | ⟨e2, h2⟩
          · left; omega
          · right; exact ⟨by omega, ih bs cs h1 h2⟩

theorem ltList_tri (a b : List Nat) (h1 : ltList a b = false) (h2 : ltList b a = false) : a = b := by
  induction a generalizing b with
  | nil =>
    cases b with
    | nil => rfl
    | cons y bs => simp [ltList] at h1
  | cons x as ih =>
    cases b with
    | nil => simp [ltList] at h2
    | cons y bs =>
      simp only [ltList, Bool.or_eq_false_iff, Bool.and_eq_false_iff, decide_eq_false_iff_not] at h1 h2
      have hxy : x = y := by omega
      subst hxy
      have e1 : ltList as bs = false := by
        rcases h1.2 with h | h
        · exact absurd rfl h
        · exact h
      have e2 : ltList bs as = false := by
        rcases h2.2 with h | h
        · exact absurd rfl h
        · exact h
      rw [ih bs e1 e2]

theorem st_ltNat : StrictTotal ltNat :=
  ⟨fun a => by simp [ltNat], fun a b c h1 h2 => by simp only [ltNat, decide_eq_true_eq] at *; omega,
   fun a b h1 h2 => by simp only [ltNat, decide_eq_false_iff_not] at *; omega⟩

theorem st_ltKey : StrictTotal ltKey := by
  refine ⟨fun a => ?_, fun a b c h1 h2 => ?_, fun a b h1 h2 => ?_⟩
  · simp [ltKey, ltList_irrefl]
  · simp only [ltKey, Bool.or_eq_true, Bool.and_eq_true, decide_eq_true_eq] at h1 h2 ⊢
    rcases h1 with h1 | ⟨e1, h1⟩
    · rcases h2 with h2 | ⟨e2, h2⟩
      · left; omega
      · left; omega
    · rcases h2 with h2 | ⟨e2, h2⟩
      · left; omega
      · right; exact ⟨e1.trans e2, ltList_trans _ _ _ h1 h2⟩
  · simp only [ltKey, Bool.or_eq_false_iff, Bool.and_eq_false_iff, decide_eq_false_iff_not] at h1 h2
    have e : a.1 = b.1 := by omega
    have e2 : a.2 = b.2 := by
      rcases h1.2 with h | h
      · exact absurd e h
      · rcases h2.2 with h' | h'
        · exact absurd e.symm h'
        · exact ltList_tri _ _ h h'
    exact Prod.ext e e2

section SortSec
variable {α κ : Type} (key : α → κ) (lt : κ → κ → Bool)

theorem insBy_perm (x : α) (l : List α) : (insBy key lt x l).Perm (x :: l) := by
  induction l with
  | nil => exact List.Perm.refl _
  | cons y ys ih =>
    unfold insBy
    split
    · exact List.Perm.refl _
    · exact (List.Perm.cons y ih).trans (List.Perm.swap x y ys)

theorem sortBy_perm (l : List α) : (sortBy key lt l).Perm l := by
  induction l with
  | nil => exact List.Perm.refl _
  | cons x t ih => exact (insBy_perm key lt x _).trans (List.Perm.cons x ih)

theorem insBy_sorted (st : StrictTotal lt) (x : α) (l : List α)
    (h : l.Pairwise (fun a b => lt (key a) (key b) = true)) (hx : ∀ y ∈ l, key y ≠ key x) :
    (insBy key lt x l).Pairwise (fun a b => lt (key a) (key b) = true) := by
  induction l with
  | nil => simp [insBy]
  | cons y ys ih =>
    have hp := List.pairwise_cons.mp h
    unfold insBy
    split
    · rename_i hlt
      refine List.pairwise_cons.mpr ⟨?_, h⟩
      intro z hz
      rcases List.mem_cons.mp hz with rfl | hz
      · exact hlt
      · exact st.trans _ _ _ hlt (hp.1 z hz)
    · rename_i hlt
      refine List.pairwise_cons.mpr ⟨?_, ih hp.2 (fun z hz => hx z (List.mem_cons_of_mem _ hz))⟩
      intro z hz
      rcases List.mem_cons.mp ((insBy_perm key lt x ys).mem_iff.mp hz) with rfl | hz
      · cases hyx : lt (key y) (key z) with
        | true => rfl
        | false =>
          exfalso
          have hlt' : lt (key z) (key y) = false := by simpa using hlt
          exact hx y List.mem_cons_self (st.tri _ _ hyx hlt')
      · exact hp.1 z hz

theorem sortBy_sorted (st : StrictTotal lt) (l : List α) (hn : (l.map key).Nodup) :
    (sortBy key lt l).Pairwise (fun a b => lt (key a) (key b) = true) := by
  induction l with
  | nil => simp [sortBy]
  | cons x t ih =>
    have hn' := List.nodup_cons.mp hn
    refine insBy_sorted key lt st x _ (ih hn'.2) ?_
    intro y hy he
    apply hn'.1
    rw [← he]
    exact List.mem_map.mpr ⟨y, (sortBy_perm key lt t).mem_iff.mp hy, rfl⟩

/-- `sorted` of items with distinct keys depends only on the items as a set: not on the order they arrive in -/
theorem sortBy_perm_eq (st : StrictTotal lt) (l l' : List α) (hn : (l.map key).Nodup) (hp : l.Perm l') :
    sortBy key lt l = sortBy key lt l' := by
  have hn' : (l'.map key).Nodup := (hp.map key).nodup_iff.mp hn
  refine List.Perm.eq_of_pairwise (le := fun a b => lt (key a) (key b) = true) ?_
    (sortBy_sorted key lt st l hn) (sortBy_sorted key lt st l' hn')
    ((sortBy_perm key lt l).trans (hp.trans (sortBy_perm key lt l').symm))
  intro a b _ _ hab hba
  have := st.trans _ _ _ hab hba
  rw [st.irrefl] at this
  exact absurd this (by simp)

theorem insBy_map (x : α) (l : List α) : (insBy key lt x l).map key = insBy id lt (key x) (l.map key) := by
  induction l with
  | nil => rfl
  | cons y ys ih =>
    simp only [insBy, List.map_cons, id]
    split
    · rfl
    · simp only [List.map_cons, ih]

theorem sortBy_map (l : List α) : (sortBy key lt l).map key = sortBy id lt (l.map key) := by
  induction l with
  | nil => rfl
  | cons x t ih =>
    show (insBy key lt x (sortBy key lt t)).map key = insBy id lt (key x) (sortBy id lt (t.map key))
    rw [insBy_map, ih]

end SortSec

/-! ## the hashing view -/

theorem hashEdges_map (s : Store) (L : List (Key × (Int × Meta)))
    (h : ∀ r ∈ L, canon r.1.2 = r.1.2 ∧ ∃ id, get? s.edgeList r.1 = some id ∧ r.2 = valOf s id) :
    hashEdges s (L.map (·.1)) = some L := by
  induction L with
  | nil => rfl
  | cons r t ih =>
    obtain ⟨hc, id, hg, hv⟩ := h r List.mem_cons_self
    obtain ⟨⟨tm, e⟩, v⟩ := r
    simp only at hc hg hv
    simp only [List.map_cons, hashEdges, hc, hg, ih (fun r hr => h r (List.mem_cons_of_mem _ hr)), Option.map_some, hv, valOf]

theorem hashNodes_map (s : Store) (L : List (Node × Meta)) (h : ∀ p ∈ L, get? s.nmeta p.1 = some p.2) :
    hashNodes s (L.map (·.1)) = some L := by
  induction L with
  | nil => rfl
  | cons p t ih =>
    have hp := h p List.mem_cons_self
    simp only [List.map_cons, hashNodes, hp, ih (fun r hr => h r (List.mem_cons_of_mem _ hr)), Option.map_some]

/-- in a reachable state `expose_attributes_for_hashing()` succeeds and is the hashing view of the map -/
theorem hashView_abs (s : Store) (h : Inv s) : hashView s = some (Spec.hashView (abs s)) := by
  have he : hashEdges s (sortBy id ltKey (edgeKeys s)) =
      some (sortBy (fun (r : Key × (Int × Meta)) => r.1) ltKey (abs s).recs) := by
    have : sortBy id ltKey (edgeKeys s) = (sortBy (fun (r : Key × (Int × Meta)) => r.1) ltKey (abs s).recs).map (·.1) := by
      rw [sortBy_map]
      show _ = sortBy id ltKey (keys (records s))
      rw [keys_records]
    rw [this]
    apply hashEdges_map
    intro r hr
    have hr' : r ∈ records s := (sortBy_perm _ _ _).mem_iff.mp hr
    rw [records_eq] at hr'
    obtain ⟨p, hp, rfl⟩ := List.mem_map.mp hr'
    have hg := get?_of_mem _ _ _ h.keysNodup hp
    exact ⟨canon_of_sorted _ (h.keyCanon _ _ hg).1, p.2, hg, rfl⟩
  have hn : hashNodes s (sortBy id ltNat (keys s.nmeta)) = some (sortBy (fun (p : Node × Meta) => p.1) ltNat s.nmeta) := by
    have : sortBy id ltNat (keys s.nmeta) = (sortBy (fun (p : Node × Meta) => p.1) ltNat s.nmeta).map (·.1) := by
      rw [sortBy_map]; rfl
    rw [this]
    apply hashNodes_map
    intro p hp
    exact get?_of_mem _ _ _ h.nt.nmetaNodup ((sortBy_perm _ _ _).mem_iff.mp hp)
  unfold hashView
  rw [he, hn]
  rfl

/-- the hashing view of a map is the same for two maps iff they have the same flag, the same hypergraph metadata
and the same entries / nodes as SETS (any arrangement) -/
theorem Spec.hashView_eq_iff (sp sp' : Spec) (h1 : (keys sp.recs).Nodup) (h2 : (keys sp.nodes).Nodup) :
    Spec.hashView sp = Spec.hashView sp' ↔
      sp.weighted = sp'.weighted ∧ sp.hmeta = sp'.hmeta ∧ sp.recs.Perm sp'.recs ∧ sp.nodes.Perm sp'.nodes := by
  constructor
  · intro h
    have a1 : sp.weighted = sp'.weighted := congrArg HashView.weighted h
    have a2 : sp.hmeta = sp'.hmeta := congrArg HashView.hmeta h
    have a3 : sortBy (fun (r : Key × (Int × Meta)) => r.1) ltKey sp.recs =
        sortBy (fun (r : Key × (Int × Meta)) => r.1) ltKey sp'.recs := congrArg HashView.edges h
    have a4 : sortBy (fun (p : Node × Meta) => p.1) ltNat sp.nodes =
        sortBy (fun (p : Node × Meta) => p.1) ltNat sp'.nodes := congrArg HashView.nodes h
    have p1 := sortBy_perm (fun (r : Key × (Int × Meta)) => r.1) ltKey sp.recs
    have p2 := sortBy_perm (fun (r : Key × (Int × Meta)) => r.1) ltKey sp'.recs
    have q1 := sortBy_perm (fun (p : Node × Meta) => p.1) ltNat sp.nodes
    have q2 := sortBy_perm (fun (p : Node × Meta) => p.1) ltNat sp'.nodes
    rw [a3] at p1
    rw [a4] at q1
    exact ⟨a1, a2, p1.symm.trans p2, q1.symm.trans q2⟩
  · rintro ⟨a1, a2, a3, a4⟩
    unfold Spec.hashView
    rw [a1, a2, sortBy_perm_eq _ _ st_ltKey sp.recs sp'.recs h1 a3, sortBy_perm_eq _ _ st_ltNat sp.nodes sp'.nodes h2 a4]

/-! ## the label mapping -/

theorem indexOf?_some_iff (l : List Node) (n : Node) : (indexOf? l n).isSome ↔ n ∈ l := by
  induction l with
  | nil => simp [indexOf?]
  | cons m ms ih =>
    unfold indexOf?
    by_cases h : m = n
    · simp [h]
    · simp only [h, if_false, Option.isSome_map, ih, List.mem_cons]
      constructor
      · intro hm; exact Or.inr hm
      · rintro (hm | hm)
        · exact absurd hm.symm h
        · exact hm

theorem indexOf?_get (l : List Node) (n : Node) (i : Nat) (h : indexOf? l n = some i) : l[i]? = some n := by
  induction l generalizing i with
  | nil => simp [indexOf?] at h
  | cons m ms ih =>
    unfold indexOf? at h
    by_cases hm : m = n
    · simp only [hm, if_true, Option.some.injEq] at h
      subst h; simp [hm]
    · simp only [hm, if_false] at h
      cases hj : indexOf? ms n with
      | none => rw [hj] at h; simp at h
      | some j =>
        rw [hj] at h
        simp only [Option.map_some, Option.some.injEq] at h
        subst h
        simp [ih j hj]

/-! ## the raw tables -/

theorem ids_nodup (s : Store) (h : Inv s) : (s.edgeList.map (·.2)).Nodup := by
  have hinj : ∀ p ∈ s.edgeList, ∀ q ∈ s.edgeList, p.2 = q.2 → p = q := by
    intro p hp q hq e
    have h1 := h.rev_of_edge _ _ (get?_of_mem _ _ _ h.keysNodup hp)
    have h2 := h.rev_of_edge _ _ (get?_of_mem _ _ _ h.keysNodup hq)
    rw [e, h2] at h1
    exact Prod.ext (Option.some.inj h1).symm e
  unfold List.Nodup
  rw [List.pairwise_map]
  have hk : s.edgeList.Pairwise (fun a b => a.1 ≠ b.1) := by
    have := h.keysNodup
    unfold List.Nodup keys at this
    rwa [List.pairwise_map] at this
  exact hk.imp_of_mem (fun ha hb hne e => hne (congrArg Prod.fst (hinj _ ha _ hb e)))

end C03
