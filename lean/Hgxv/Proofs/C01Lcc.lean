import Hgxv.Model.C01Lcc
import Hgxv.Proofs.C01X
import Hgxv.Proofs.C01Sub
import Hgxv.Proofs.C08Comp
import Hgxv.Proofs.C08LinkC01
/-! Lemmas for `subhypergraph_largest_component` (core Lean). -/
namespace C01
open AL

theorem maxByLen_mem (l : List (List Nat)) (c : List Nat) (h : C08.maxByLen l = some c) : c ∈ l := by
  cases l with
  | nil => simp [C08.maxByLen] at h
  | cons a t =>
    simp only [C08.maxByLen, Option.some.injEq] at h
    subst h
    have : ∀ (t : List (List Nat)) (b : List Nat),
        t.foldl (fun best d => if best.length < d.length then d else best) b = b ∨
        t.foldl (fun best d => if best.length < d.length then d else best) b ∈ t := by
      intro t
      induction t with
      | nil => intro b; exact Or.inl rfl
      | cons d r ih =>
        intro b
        simp only [List.foldl_cons, List.mem_cons]
        rcases ih (if b.length < d.length then d else b) with h | h
        · rw [h]; split <;> simp
        · exact Or.inr (Or.inr h)
    rcases this t a with h | h
    · rw [h]; exact List.mem_cons_self
    · exact List.mem_cons_of_mem _ h

theorem maxByLen_isSome (l : List (List Nat)) : (C08.maxByLen l).isSome = !l.isEmpty := by
  cases l <;> rfl

theorem maxByLen_ge (l : List (List Nat)) (c : List Nat) (h : C08.maxByLen l = some c) : ∀ d ∈ l, d.length ≤ c.length := by
  cases l with
  | nil => simp [C08.maxByLen] at h
  | cons a t =>
    simp only [C08.maxByLen, Option.some.injEq] at h
    subst h
    have : ∀ (t : List (List Nat)) (b : List Nat),
        b.length ≤ (t.foldl (fun best d => if best.length < d.length then d else best) b).length ∧
        ∀ d ∈ t, d.length ≤ (t.foldl (fun best d => if best.length < d.length then d else best) b).length := by
      intro t
      induction t with
      | nil => intro b; simp
      | cons d r ih =>
        intro b
        simp only [List.foldl_cons, List.mem_cons]
        obtain ⟨h1, h2⟩ := ih (if b.length < d.length then d else b)
        by_cases hb : b.length < d.length
        · simp only [hb, if_true] at h1 h2 ⊢
          refine ⟨by omega, ?_⟩
          rintro x (rfl | hx)
          · exact h1
          · exact h2 x hx
        · simp only [hb, if_false] at h1 h2 ⊢
          refine ⟨h1, ?_⟩
          rintro x (rfl | hx)
          · omega
          · exact h2 x hx
    intro d hd
    rcases List.mem_cons.mp hd with rfl | hd
    · exact (this t d).1
    · exact (this t a).2 d hd

/-- the chosen node list is the same on both levels -/
theorem lccNodes_abs (s : Store) (h : Inv s) (o k : Option Int) :
    lccNodes (keys (abs s).nodes) (keys (abs s).edges) o k = lccNodes (keys s.adj) (keys s.edgeList) o k := by
  rw [nodes_keys h, abs_keys]

theorem subLcc_sim (s : Store) (h : Inv s) (o k : Option Int) : Sim (subLcc s o k) (Spec.subLcc (abs s) o k) := by
  unfold subLcc Spec.subLcc
  rw [lccNodes_abs s h]
  cases lccNodes (keys s.adj) (keys s.edgeList) o k with
  | none => exact ⟨rfl, rfl, inv_new _ _⟩
  | some comp => exact sim_extract s (.sub comp) h

/-- every node of the chosen component is a node -/
theorem lccNodes_sub (s : Store) (h : Inv s) (o k : Option Int) (comp : List Node)
    (hc : lccNodes (keys s.adj) (keys s.edgeList) o k = some comp) : ∀ n ∈ comp, n ∈ keys s.adj := by
  unfold lccNodes at hc
  cases hf : lccFilt o k with
  | none => simp [hf] at hc
  | some f =>
    simp only [hf] at hc
    have hm := maxByLen_mem _ _ hc
    obtain ⟨h1, _, h3, _, _⟩ := C08.Link.listing_wf h
    have hp := C08.components_flatten_perm (keys s.adj) (keys s.edgeList) f h1 h3
    intro n hn
    exact hp.mem_iff.mp (List.mem_flatten.mpr ⟨comp, hm, hn⟩)

end C01

namespace C01
open AL

theorem components_nil_iff (nodes : List Nat) (es : List Edge) (f : C08.Filt) :
    C08.components nodes es f = [] ↔ nodes = [] := by
  constructor
  · intro hc
    cases nodes with
    | nil => rfl
    | cons x t =>
      obtain ⟨c, hcm, _⟩ := (C08.components_spec (x :: t) es f).2.2 x List.mem_cons_self
      rw [hc] at hcm; cases hcm
  · rintro rfl; rfl

theorem comp_nodes_some (s : Store) (h : Inv s) (o k : Option Int) (comp : List Node)
    (hc : lccNodes (keys s.adj) (keys s.edgeList) o k = some comp) : ∀ n ∈ comp, (get? (abs s).nodes n).isSome := by
  intro n hn
  have := lccNodes_sub s h o k comp hc n hn
  rw [← nodes_keys h] at this
  exact (mem_keys_iff _ _).mp this

/-- accepted iff not both arguments are given and there is a node -/
theorem subLcc_ok_iff (s : Store) (h : Inv s) (o k : Option Int) :
    (subLcc s o k).2 = .ok ↔ (lccFilt o k).isSome = true ∧ keys s.adj ≠ [] := by
  have hsim := subLcc_sim s h o k
  cases hc : lccNodes (keys s.adj) (keys s.edgeList) o k with
  | none =>
    have hr : (subLcc s o k).2 = .rej := by unfold subLcc; rw [hc]
    rw [hr]
    unfold lccNodes at hc
    cases hf : lccFilt o k with
    | none => simp
    | some f =>
      simp only [hf] at hc
      have : (C08.maxByLen (C08.components (keys s.adj) (keys s.edgeList) f)).isSome = false := by
        unfold C08.largestComponent at hc; rw [hc]; rfl
      rw [maxByLen_isSome] at this
      have hnil : C08.components (keys s.adj) (keys s.edgeList) f = [] := by
        cases hcs : C08.components (keys s.adj) (keys s.edgeList) f with
        | nil => rfl
        | cons a t => rw [hcs] at this; simp at this
      have := (components_nil_iff _ _ _).mp hnil
      simp [this]
  | some comp =>
    have hok : (subLcc s o k).2 = .ok := by
      have e1 : subLcc s o k = subhypergraph s comp := by unfold subLcc; rw [hc]
      rw [e1]
      have hs := sim_extract s (.sub comp) h
      have : (subhypergraph s comp).2 = (Spec.subhypergraph (abs s) comp).2 := hs.2.1
      rw [this]
      exact ((spec_subhypergraph (abs s) (abs_swf h) comp).1).mpr (comp_nodes_some s h o k comp hc)
    simp only [hok, true_iff]
    unfold lccNodes at hc
    cases hf : lccFilt o k with
    | none => simp [hf] at hc
    | some f =>
      simp only [hf] at hc
      refine ⟨rfl, ?_⟩
      intro hnil
      have := (components_nil_iff (keys s.adj) (keys s.edgeList) f).mpr hnil
      unfold C08.largestComponent at hc
      rw [this] at hc
      simp [C08.maxByLen] at hc

end C01
