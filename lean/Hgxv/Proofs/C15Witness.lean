import Hgxv.Proofs.C15Loop
import Mathlib.Tactic.NormNum
import Mathlib.Tactic.IntervalCases
/-! # C15 — D28: with `w_prior > 0` the UNPENALISED likelihood can decrease between consecutive `n_iter`

Concrete data (the harness replays the same numbers on the real code every run):
`u = [[3,1],[2,0],[1,1]]` supplied, hyperedges `(0,1)`, `(0,2)` with weight 3, assortative, `w_prior = 1`,
initial `w = I`.  One pass gives `w = diag(7/16, 3/8)`, two passes `diag(4/9, 1/3)`; the log-likelihood goes
`3 log(21/8) + 3 log(27/16) − 83/16  →  3 log(8/3) + 3 log(5/3) − 47/9`, a decrease of about 0.0247. -/
open Finset
namespace C15

def witU : List (List Rat) := [[3, 1], [2, 0], [1, 1]]
def witD : Data := dataOf 3 2 [[0, 1], [0, 2]] [3, 3]
def witW0 : List (List Rat) := [[1, 0], [0, 1]]
def witW1 : List (List Rat) := [[7/16, 0], [0, 3/8]]
def witW2 : List (List Rat) := [[4/9, 0], [0, 1/3]]
def witR : Mat := fun _ _ => 1

theorem wit_pois1 (w : Mat) :
    poisson 3 2 (matOf [[3, 1], [2, 0], [1, 1]]) w [0, 1] = 6 * w 0 0 + w 0 1 + w 1 0 := by
  simp [poisson, qf, vecMat, edgeSum, sumTo, inc, matOf, half]; ring

theorem wit_pois2 (w : Mat) :
    poisson 3 2 (matOf [[3, 1], [2, 0], [1, 1]]) w [0, 2] = 3 * w 0 0 + 2 * w 0 1 + 2 * w 1 0 + w 1 1 := by
  simp [poisson, qf, vecMat, edgeSum, sumTo, inc, matOf, half]; ring

theorem wit_bfSum (w : Mat) :
    bfSum 3 2 (matOf [[3, 1], [2, 0], [1, 1]]) w = 11 * w 0 0 + 4 * w 0 1 + 4 * w 1 0 + w 1 1 := by
  simp [bfSum, qfSum, colSum, qf, vecMat, sumTo, matOf, half]; ring

theorem wit_step1 : toRows 2 2 (wUpdate witD (matOf witU) (matOf witW0) witR) = witW1 := by
  simp [toRows, List.range_succ, wUpdate, safeDiv, wNum, wDen, mult, weighting, witD, dataOf, colSum, edgeSum, sumTo,
    inc, witU, witW0, witW1, witR, half, wit_pois1, wit_pois2]
  simp [matOf]
  norm_num

theorem wit_step2 : toRows 2 2 (wUpdate witD (matOf witU) (matOf witW1) witR) = witW2 := by
  simp [toRows, List.range_succ, wUpdate, safeDiv, wNum, wDen, mult, weighting, witD, dataOf, colSum, edgeSum, sumTo,
    inc, witU, witW1, witW2, witR, half, wit_pois1, wit_pois2]
  simp [matOf]
  norm_num

theorem wit_after1 (ru : Mat) : wAfter witD witU witW0 ru witR 1 = witW1 := by
  rw [wAfter_succ]; exact wit_step1

theorem wit_after2 (ru : Mat) : wAfter witD witU witW0 ru witR 2 = witW2 := by
  rw [wAfter_succ, wit_after1]; exact wit_step2

theorem wit_lik1 : penLik witD (matOf witU) (fun _ _ => 0) (matOf witW1)
    = 3 * Real.log (21 / 8) + 3 * Real.log (27 / 16) - 83 / 16 := by
  simp [penLik, Finset.sum_range_succ, witD, dataOf, witU, wit_pois1, wit_pois2, wit_bfSum]
  simp [matOf, witW1]
  norm_num

theorem wit_lik2 : penLik witD (matOf witU) (fun _ _ => 0) (matOf witW2)
    = 3 * Real.log (8 / 3) + 3 * Real.log (5 / 3) - 47 / 9 := by
  simp [penLik, Finset.sum_range_succ, witD, dataOf, witU, wit_pois1, wit_pois2, wit_bfSum]
  simp [matOf, witW2]
  norm_num

/-- `log b − log a ≤ b/a − 1` -/
theorem log_diff_le (a b : ℝ) (ha : 0 < a) (hb : 0 < b) : Real.log b - Real.log a ≤ b / a - 1 := by
  rw [← Real.log_div hb.ne' ha.ne']
  exact Real.log_le_sub_one_of_pos (div_pos hb ha)

theorem wit_ineq : 3 * Real.log (8 / 3) + 3 * Real.log (5 / 3) - 47 / 9
    < 3 * Real.log (21 / 8) + 3 * Real.log (27 / 16) - 83 / 16 := by
  have h1 := log_diff_le (21 / 8) (8 / 3) (by norm_num) (by norm_num)
  have h2 := log_diff_le (27 / 16) (5 / 3) (by norm_num) (by norm_num)
  norm_num at h1 h2
  linarith

/-! the witness satisfies every hypothesis of `C15_ascent` -/

theorem witU_nonneg : ∀ i a, 0 ≤ matOf witU i a := by
  intro i a
  unfold matOf witU
  match i, a with
  | 0, 0 | 0, 1 | 1, 0 | 1, 1 | 2, 0 | 2, 1 => simp
  | 0, a + 2 | 1, a + 2 | 2, a + 2 => simp
  | i + 3, a => simp

theorem witW0_nonneg : ∀ a b, 0 ≤ matOf witW0 a b := by
  intro i a
  unfold matOf witW0
  match i, a with
  | 0, 0 | 0, 1 | 1, 0 | 1, 1 => simp
  | 0, a + 2 | 1, a + 2 => simp
  | i + 2, a => simp

theorem witD_lam : ∀ e < witD.E, 0 < poisson witD.N witD.K (matOf witU) (matOf witW0) (witD.edge e) := by
  intro e he
  have he' : e < 2 := he
  interval_cases e
  · show 0 < poisson 3 2 (matOf witU) (matOf witW0) [0, 1]
    unfold witU; rw [wit_pois1]; simp [matOf, witW0]
  · show 0 < poisson 3 2 (matOf witU) (matOf witW0) [0, 2]
    unfold witU; rw [wit_pois2]; simp [matOf, witW0]; norm_num

theorem witD_A : ∀ e < witD.E, 0 < witD.A e := by
  intro e he
  have he' : e < 2 := he
  interval_cases e
  · show (0 : Rat) < ([3, 3] : List Rat).getD 0 0; simp
  · show (0 : Rat) < ([3, 3] : List Rat).getD 1 0; simp

theorem witD_den : ∀ a < witD.K, ∀ b < witD.K, 0 < wDen witD.N (matOf witU) a b + witR a b := by
  intro a _ b _
  rw [wDen_eq]
  have := chat_nonneg (matOf witU) witU_nonneg (range witD.N) a b
  unfold witR; linarith

theorem witW0_symm : ∀ a b, matOf witW0 a b = matOf witW0 b a := by
  intro i a
  unfold matOf witW0
  match i, a with
  | 0, 0 | 0, 1 | 1, 0 | 1, 1 => simp
  | 0, a + 2 | 1, a + 2 => simp
  | i + 2, 0 | i + 2, 1 => simp
  | i + 2, a + 2 => simp

theorem witD_size : ∀ e < witD.E, 2 ≤ (witD.edge e).length ∧ (witD.edge e).length ≤ witD.N := by
  intro e he
  have he' : e < 2 := he
  interval_cases e
  · show 2 ≤ ([0, 1] : List ℕ).length ∧ ([0, 1] : List ℕ).length ≤ 3; simp
  · show 2 ≤ ([0, 2] : List ℕ).length ∧ ([0, 2] : List ℕ).length ≤ 3; simp

/-! memberships in which community 1 is held by node 0 alone: the denominator of `_w_update` for the pair `(1, 1)`
vanishes (the branch of the D46 repair), all other hypotheses of `C15_ascent` hold -/

def sglU : List (List Rat) := [[3, 1], [2, 0], [1, 0]]

theorem sglU_nonneg : ∀ i a, 0 ≤ matOf sglU i a := by
  intro i a
  unfold matOf sglU
  match i, a with
  | 0, 0 | 0, 1 | 1, 0 | 1, 1 | 2, 0 | 2, 1 => simp
  | 0, a + 2 | 1, a + 2 | 2, a + 2 => simp
  | i + 3, a => simp

theorem sgl_lam : ∀ e < witD.E, 0 < poisson witD.N witD.K (matOf sglU) (matOf witW0) (witD.edge e) := by
  intro e he
  have he' : e < 2 := he
  interval_cases e
  · show 0 < poisson 3 2 (matOf sglU) (matOf witW0) [0, 1]
    decide +kernel
  · show 0 < poisson 3 2 (matOf sglU) (matOf witW0) [0, 2]
    decide +kernel

theorem sgl_den : wDen witD.N (matOf sglU) 1 1 + 0 = 0 := by
  show wDen 3 (matOf sglU) 1 1 + 0 = 0
  decide +kernel

/-! a symmetric, non-diagonal affinity for the non-vacuity examples -/

def exW : Mat := matOf [[1, 2], [2, 3]]

theorem exW_symm : ∀ a < 2, ∀ b < 2, exW a b = exW b a := by
  intro a ha b hb
  interval_cases a <;> interval_cases b <;> simp [exW, matOf]

end C15
