import Hgxv.Model.C14Raw
/-! Lemmas about the argument conversions of `Hgxv/Model/C14Raw.lean` (core Lean only). -/
namespace C14

theorem optAll_map_some {α β : Type} (f : α → Option β) (g : β → α) (hg : ∀ b, f (g b) = some b) :
    ∀ l : List β, optAll f (l.map g) = some l
  | [] => rfl
  | b :: l => by simp [optAll, hg, optAll_map_some f g hg l]

theorem optAll_length {α β : Type} (f : α → Option β) : ∀ (l : List α) (r : List β), optAll f l = some r →
    r.length = l.length
  | [], r, h => by cases h; rfl
  | a :: l, r, h => by
    unfold optAll at h
    cases ha : f a with
    | none => simp [ha] at h
    | some b =>
      cases hl : optAll f l with
      | none => simp [ha, hl] at h
      | some bs =>
        simp [ha, hl] at h
        subst h
        simp [optAll_length f l bs hl]

theorem optAll_mem {α β : Type} (f : α → Option β) : ∀ (l : List α) (r : List β), optAll f l = some r →
    ∀ p ∈ l.zip r, f p.1 = some p.2
  | [], r, h, p, hp => by simp at hp
  | a :: l, r, h, p, hp => by
    unfold optAll at h
    cases ha : f a with
    | none => simp [ha] at h
    | some b =>
      cases hl : optAll f l with
      | none => simp [ha, hl] at h
      | some bs =>
        simp [ha, hl] at h
        subst h
        simp only [List.zip_cons_cons, List.mem_cons] at hp
        rcases hp with rfl | hp
        · exact ha
        · exact optAll_mem f l bs hl p hp

namespace Num

/-- `j < ceil(a / (d+1))  ↔  j * (d+1) < a` -/
theorem lt_ceilDiv (a d j : Nat) : j < (a + d) / (d + 1) ↔ j * (d + 1) < a := by
  rw [Nat.lt_iff_add_one_le, Nat.le_div_iff_mul_le (show 0 < d + 1 by omega), Nat.add_mul]
  omega

theorem natLt_real (j : Nat) (n : Int) (d : Nat) :
    natLt j (real n d) = some (decide (j < (n.toNat + d) / (d + 1))) := by
  simp only [natLt, Option.some.injEq, decide_eq_decide, lt_ceilDiv]
  have hc : ((j : Int) * ((d : Int) + 1)) = ((j * (d + 1) : Nat) : Int) := by simp [Int.natCast_mul]
  rw [hc]
  generalize j * (d + 1) = m
  omega

/-- `loopCount` IS the exit point of the loop `while len(acc) < x`: the test holds at every smaller length and fails
    at this one (Python's own comparison `natLt`, no rounding: `int`/`float` comparisons are exact) -/
theorem loopCount_spec (x : Num) (k : Nat) (h : x.loopCount = some k) :
    (∀ j, j < k → x.natLt j = some true) ∧ x.natLt k = some false := by
  cases x with
  | int i =>
    simp only [loopCount, Option.some.injEq] at h
    subst h
    refine ⟨fun j hj => ?_, ?_⟩ <;> simp only [natLt, Option.some.injEq, decide_eq_true_eq, decide_eq_false_iff_not] <;> omega
  | bool b =>
    simp only [loopCount, Option.some.injEq] at h
    subst h
    refine ⟨fun j hj => ?_, ?_⟩ <;> simp only [natLt, Option.some.injEq, decide_eq_true_eq, decide_eq_false_iff_not] <;> omega
  | real n d =>
    simp only [loopCount, Option.some.injEq] at h
    subst h
    refine ⟨fun j hj => ?_, ?_⟩ <;> rw [natLt_real] <;> simp
    exact hj
  | text v => simp [loopCount] at h

/-- the loop test raises (a `str`) exactly when `loopCount` has no value -/
theorem loopCount_none (x : Num) : x.loopCount = none ↔ ∀ j, x.natLt j = none := by
  cases x <;> simp [loopCount, natLt]

/-- for a non-negative real `int(x)` is the floor: `int(x) * den ≤ num < (int(x) + 1) * den` -/
theorem toInt_real_floor (n : Int) (d : Nat) (k : Int) (hn : 0 ≤ n) (h : toInt (real n d) = some k) :
    0 ≤ k ∧ k * ((d : Int) + 1) ≤ n ∧ n < (k + 1) * ((d : Int) + 1) := by
  simp only [toInt, Option.some.injEq] at h
  subst h
  have hd : (0 : Int) < (d : Int) + 1 := by omega
  rw [Int.tdiv_eq_ediv_of_nonneg hn]
  refine ⟨Int.ediv_nonneg hn (by omega), Int.ediv_mul_le n (by omega), ?_⟩
  exact Int.lt_ediv_add_one_mul_self n hd

/-- the two conversions of a non-negative real differ by at most one, and they agree exactly on integral values:
    `int(x) ≤ passes of the loop ≤ int(x) + 1` (`3.7`: 3 and 4 - what the seeded change C14-d1 mixes up) -/
theorem toInt_le_loopCount (n : Int) (d : Nat) (k : Int) (c : Nat) (hn : 0 ≤ n)
    (hk : toInt (real n d) = some k) (hc : loopCount (real n d) = some c) :
    k ≤ c ∧ (c : Int) ≤ k + 1 ∧ (n = k * ((d : Int) + 1) → (c : Int) = k) := by
  obtain ⟨h0, h1, h2⟩ := toInt_real_floor n d k hn hk
  obtain ⟨s1, s2⟩ := loopCount_spec _ c hc
  simp only [natLt, Option.some.injEq, decide_eq_false_iff_not, Int.not_lt] at s2
  have key : ∀ j : Nat, (j : Int) < k → j < c := by
    intro j hj
    apply Decidable.byContradiction
    intro hcj
    have hcj : c ≤ j := by omega
    have : (c : Int) * ((d : Int) + 1) ≤ (j : Int) * ((d : Int) + 1) :=
      Int.mul_le_mul_of_nonneg_right (by omega) (by omega)
    have : ((j : Int) + 1) * ((d : Int) + 1) ≤ k * ((d : Int) + 1) :=
      Int.mul_le_mul_of_nonneg_right (by omega) (by omega)
    rw [Int.add_mul] at this
    omega
  have up : (c : Int) ≤ k + 1 := by
    apply Decidable.byContradiction
    intro hcc
    have hlt : k.toNat + 1 < c := by omega
    have := s1 (k.toNat + 1) hlt
    simp only [natLt, Option.some.injEq, decide_eq_true_eq] at this
    have e : ((k.toNat + 1 : Nat) : Int) = k + 1 := by omega
    rw [e] at this
    omega
  refine ⟨?_, up, ?_⟩
  · apply Decidable.byContradiction
    intro hcc
    have hck : (c : Int) < k := by omega
    have := key c hck
    omega
  · intro he
    apply Decidable.byContradiction
    intro hne
    have hck : k.toNat < c := by
      have : k ≤ c := by
        apply Decidable.byContradiction
        intro hcc
        have := key c (by omega)
        omega
      omega
    have := s1 k.toNat hck
    simp only [natLt, Option.some.injEq, decide_eq_true_eq] at this
    have e : ((k.toNat : Nat) : Int) = k := by omega
    rw [e] at this
    omega

theorem index_ofNat (n : Nat) : (ofNat n).index = some (n : Int) := rfl
theorem npSize_ofNat (n : Nat) : (ofNat n).npSize = some (n : Int) := rfl
theorem succ_ofNat (s : Nat) : (ofNat s).succ = some (ofNat (s + 1)) := by simp [succ, ofNat]
theorem sampleK_int (pop s : Nat) : sampleK pop (ofNat s) = s := by simp [sampleK, index, ofNat]
theorem choiceK_int (pop s : Nat) : choiceK pop (ofNat s) = s := by simp [choiceK, npSize, ofNat]
theorem natValue_int (s : Nat) : natValue (ofNat s) = some s := by simp [natValue, ofNat]

/-- a `k` the sampler accepts for a population of `pop` members is an index `0 ≤ i ≤ pop` -/
theorem sampleK_le (pop : Nat) (x : Num) (h : sampleK pop x ≤ pop) :
    ∃ i : Int, x.index = some i ∧ 0 ≤ i ∧ (sampleK pop x : Int) = i := by
  unfold sampleK at h ⊢
  cases hx : x.index with
  | none => simp only [hx] at h; omega
  | some i =>
    simp only [hx] at h ⊢
    by_cases hi : 0 ≤ i
    · simp only [hi, if_true] at h ⊢
      exact ⟨i, rfl, hi, by omega⟩
    · simp only [hi, if_false] at h
      omega

end Num
end C14
