import Hgxv.Model.C02
import Hgxv.Proofs.C05Batch
/-! OPTIONAL link (analogous to `C05LinkC01.lean`): the content-level semantics of `Model/C05.lean` at `κ = DKey` is the
abstract specification `C02.Spec` of `Model/C02.lean` (which C02 proves to be the abstraction `C02.abs` of the concrete id-table
store of `DirectedHypergraph`), operation by operation.  Every modelled mutator on `C02.Spec` is the C05 step on its content, so
`C05.WF` holds of - and the C05 extraction theorems speak about - every `DirectedHypergraph` reachable by those mutators.
If `Model/C02.lean` changes shape this file may be deleted: only the `C05_link_C02*` theorems go with it. -/
namespace C05

/-- forget the hypergraph-level metadata (C02 uses other tokens for it) -/
def ofSpecD (a : C02.Spec) : Content DKey := { weighted := a.weighted, nodes := a.nodes, edges := a.edges }

theorem insertSorted_eqD (a : Nat) (l : List Nat) : C02.insertSorted a l = insertSorted a l := by
  induction l with
  | nil => rfl
  | cons b bs ih => simp [C02.insertSorted, insertSorted, ih]

theorem sortNodes_eq (raw : List Nat) : C02.sortNodes raw = canonU raw := by
  induction raw with
  | nil => rfl
  | cons a l ih =>
    simp only [C02.sortNodes, canonU, List.foldr_cons] at ih ⊢
    rw [ih, insertSorted_eqD]

/-- C02's canonical key of `add_edge` is C05's `canonD` -/
theorem canonAdd_eq (e : C02.RawEdge) : C02.canonAdd e = canonD (e.src.toList, e.tgt.toList) := by
  simp [C02.canonAdd, canonD, sortNodes_eq]

/-- the C02 single-call mutators C05 models, on canonical keys (`set_attr_* / remove_attr_*` are left out: C02 also models
non-dict metadata values there, C05 does not) -/
def liftOpD : C02.Op → Option (Op DKey)
  | .addNode n md => some (.addNode n (md.getD []))
  | .addNodes ns => some (.addNodes ns none)
  | .addEdge e w md => some (.addEdge (canonD (e.src.toList, e.tgt.toList)) w (md.getD []))
  | .removeEdge e => (C02.canonStrict e).map (fun k => .removeEdge k)
  | .setWeight e w => (C02.canonStrict e).map (fun k => .setWeight k w)
  | .setNodeMeta n md => some (.setNodeMeta n md)
  | .setEdgeMeta e md => (C02.canonStrict e).map (fun k => .setEdgeMeta k md)
  | .clear => some .clear
  | _ => none

theorem addNode_eqD (a : C02.Spec) (n : Node) (md : Option Meta) :
    C02.Spec.addNode a n md = { a with nodes := addNodeL a.nodes n (md.getD []) } := by
  unfold C02.Spec.addNode addNodeL
  cases h : AL.get? a.nodes n with
  | none => simp [C05AL.set_of_none _ _ _ h]
  | some cur =>
    cases cur with
    | nil => simp
    | cons x xs => simp

theorem touchAll_eqD (ns : List Node) : ∀ (a : C02.Spec),
    C02.Spec.touchAll a ns = { a with nodes := touchL a.nodes ns } := by
  induction ns with
  | nil => intro a; rfl
  | cons n ns ih =>
    intro a
    simp only [C02.Spec.touchAll, addNode_eqD, ih, touchL, List.foldl_cons, Option.getD_none]

theorem addNodes_eqD (ns : List Node) : ∀ (a : C02.Spec),
    C02.Spec.addNodes a ns = { a with nodes := touchL a.nodes ns } := by
  induction ns with
  | nil => intro a; rfl
  | cons n ns ih =>
    intro a
    simp only [C02.Spec.addNodes, addNode_eqD, ih, touchL, List.foldl_cons, Option.getD_none]

theorem addEdgeKey_eqD (a : C02.Spec) (k : DKey) (w : Option Int) (md : Option Meta) :
    ofSpecD (C02.Spec.addEdgeKey a k w md).1 = step (ofSpecD a) (.addEdge k w (md.getD [])) ∧
    ((C02.Spec.addEdgeKey a k w md).2 = .ok ↔ (apply? (ofSpecD a) (.addEdge k w (md.getD []))).isSome = true) := by
  obtain ⟨aw, an, ae, ah⟩ := a
  have hone : C02.one = unitW := rfl
  simp only [C02.Spec.addEdgeKey, step, apply?, addEdge, ofSpecD]
  cases hw : aw <;> cases w with
  | none =>
    cases hg : AL.get? ae k with
    | none =>
      simp [weightOk, addEdgeCore, addEdgeNew, touchAll, hg, hone, touchAll_eqD,
        C05AL.set_of_none _ _ _ hg, Keyed.members]
    | some v => simp [weightOk, addEdgeCore, addEdgeOld, hg, hone]
  | some x =>
    by_cases hx : x = unitW
    · subst hx
      cases hg : AL.get? ae k with
      | none =>
        simp [weightOk, addEdgeCore, addEdgeNew, touchAll, hg, hone, touchAll_eqD,
          C05AL.set_of_none _ _ _ hg, Keyed.members]
      | some v => simp [weightOk, addEdgeCore, addEdgeOld, hg, hone]
    · cases hg : AL.get? ae k with
      | none =>
        simp [weightOk, addEdgeCore, addEdgeNew, touchAll, hg, hone, hx, touchAll_eqD,
          C05AL.set_of_none _ _ _ hg, Keyed.members]
      | some v => simp [weightOk, addEdgeCore, addEdgeOld, hg, hone, hx]

theorem removeEdgeKey_eqD (a : C02.Spec) (k : DKey) :
    ofSpecD (C02.Spec.removeEdgeKey a k).1 = step (ofSpecD a) (.removeEdge k) ∧
    ((C02.Spec.removeEdgeKey a k).2 = .ok ↔ (apply? (ofSpecD a) (.removeEdge k)).isSome = true) := by
  simp only [C02.Spec.removeEdgeKey, step, apply?, removeEdge, ofSpecD]
  by_cases hs : AL.has a.edges k = true
  · simp [hs]
  · simp [hs]

/-- one call of a modelled mutator on `C02.Spec` is the C05 step on its content, with the same verdict -/
theorem link_C02 (a : C02.Spec) (op : C02.Op) (op' : Op DKey) (hl : liftOpD op = some op') :
    ofSpecD (C02.Spec.applyOp a op).1 = step (ofSpecD a) op' ∧
    ((C02.Spec.applyOp a op).2 = .ok ↔ (apply? (ofSpecD a) op').isSome = true) := by
  cases op <;> simp only [liftOpD, Option.some.injEq, reduceCtorEq, Option.map_eq_some_iff] at hl
  case addNode n md =>
    subst hl
    simp [C02.Spec.applyOp, addNode_eqD, step, apply?, addNode, ofSpecD]
  case addNodes ns =>
    subst hl
    simp [C02.Spec.applyOp, addNodes_eqD, step, apply?, addNodes, touchAll, ofSpecD]
  case addEdge e w md =>
    subst hl
    simp only [C02.Spec.applyOp, C02.Spec.addEdge, canonAdd_eq]
    exact addEdgeKey_eqD a _ w md
  case removeEdge e =>
    obtain ⟨k, hk, rfl⟩ := hl
    simp only [C02.Spec.applyOp, C02.Spec.removeEdge, hk]
    exact removeEdgeKey_eqD a k
  case setWeight e w =>
    obtain ⟨k, hk, rfl⟩ := hl
    have hone : C02.one = unitW := rfl
    simp only [C02.Spec.applyOp, C02.Spec.setWeight, hk, step, apply?, setWeight, ofSpecD, hone]
    by_cases hok : (!a.weighted && w != unitW) = true
    · simp [hok]
    · simp only [hok, Bool.false_eq_true, ↓reduceIte]
      cases hg : AL.get? a.edges k with
      | none => simp
      | some v => simp
  case setNodeMeta n md =>
    subst hl
    simp only [C02.Spec.applyOp, C02.Spec.setNodeMeta, step, apply?, setNodeMeta, ofSpecD]
    by_cases hs : AL.has a.nodes n = true
    · simp [hs]
    · simp [hs]
  case setEdgeMeta e md =>
    obtain ⟨k, hk, rfl⟩ := hl
    simp only [C02.Spec.applyOp, C02.Spec.updEdgeMeta, hk, step, apply?, setEdgeMeta, ofSpecD]
    cases hg : AL.get? a.edges k <;> simp
  case clear =>
    subst hl
    simp [C02.Spec.applyOp, step, apply?, clear, ofSpecD, Keyed.clearsHyper]

/-- the batch `remove_edges` of `C02.Spec` (a plain loop: what was removed before the first failing call stays removed) is
the C05 batch on the content, same state left, same verdict -/
theorem link_C02_removeEdges : ∀ (es : List C02.RawEdge) (ks : List DKey) (a : C02.Spec),
    es.map C02.canonStrict = ks.map some →
    ofSpecD (C02.Spec.removeEdges a es).1 = (removeEdgesB (ofSpecD a) ks).1 ∧
    ((C02.Spec.removeEdges a es).2 = .ok ↔ (removeEdgesB (ofSpecD a) ks).2 = true) := by
  intro es
  induction es with
  | nil =>
    intro ks a h
    cases ks with
    | nil => simp [C02.Spec.removeEdges, removeEdgesB, loopRaw, Batch.validates]
    | cons k ks => simp at h
  | cons e es ih =>
    intro ks a h
    cases ks with
    | nil => simp at h
    | cons k ks =>
      simp only [List.map_cons, List.cons.injEq] at h
      obtain ⟨hk, ht⟩ := h
      obtain ⟨l1, l2⟩ := removeEdgeKey_eqD a k
      have hih := ih ks (C02.Spec.removeEdgeKey a k).1 ht
      simp only [removeEdgesB, Batch.validates, Bool.false_and, Bool.false_eq_true, ↓reduceIte] at hih ⊢
      simp only [C02.Spec.removeEdges, C02.Spec.removeEdge, hk, loopRaw]
      simp only [step, apply?] at l1 l2
      cases hr : removeEdge (ofSpecD a) k with
      | none =>
        have hrej : (C02.Spec.removeEdgeKey a k).2 = .rej := by
          cases hh : (C02.Spec.removeEdgeKey a k).2 with
          | rej => rfl
          | ok => rw [hr] at l2; simp [hh] at l2
        rw [hr] at l1
        simp [hrej, orSame, l1]
      | some c' =>
        have hok : (C02.Spec.removeEdgeKey a k).2 = .ok := l2.2 (by rw [hr]; rfl)
        rw [hr] at l1
        simp only [Option.getD_some] at l1
        simp only [hok, orSame, ↓reduceIte]
        rw [← l1]
        exact hih


/-! ## `remove_node` on `C02.Spec`: every node, both values of `keep_edges`, half-way state included -/

/-- no stored hyperedge metadata is Python's `None` (C02 turns such a value into `{}` when `remove_node(keep_edges=True)` hands it
on as the `metadata=` argument; C05 models dict metadata only) -/
def NoNoneMeta (a : C02.Spec) : Prop := ∀ e ∈ a.edges, C02.argMeta e.2.2 = e.2.2

theorem filter_bne (l : List Nat) (n : Nat) : l.filter (· != n) = l.filter (fun m => decide (m ≠ n)) := by
  apply List.filter_congr; intro x _; by_cases h : x = n <;> simp [h]

theorem mem_addEdgeKey (a : C02.Spec) (k : DKey) (w : Option Int) (md : Option Meta) (e : DKey × (Int × Meta))
    (he : e ∈ (C02.Spec.addEdgeKey a k w md).1.edges) : e ∈ a.edges ∨ e.2.2 = md.getD [] := by
  unfold C02.Spec.addEdgeKey at he
  split at he
  · exact .inl he
  · cases hg : AL.get? a.edges k with
    | none =>
      simp only [hg, touchAll_eqD] at he
      rcases C05AL.mem_set _ _ _ _ he with h | h
      · exact .inr (by rw [h])
      · exact .inl h
    | some v =>
      obtain ⟨w0, m0⟩ := v
      simp only [hg] at he
      rcases C05AL.mem_set _ _ _ _ he with h | h
      · exact .inr (by rw [h])
      · exact .inl h

theorem argMeta_idem (md : Meta) : C02.argMeta (C02.argMeta md) = C02.argMeta md := by
  unfold C02.argMeta
  by_cases h : (md == C02.metaNone) = true
  · simp [h]
  · simp [h]

/-- one round of the `keep_edges` loop on `C02.Spec` is the C05 round on the content -/
theorem reinsert_eqD (a : C02.Spec) (n : Node) (k : DKey) (hm : NoNoneMeta a) :
    ofSpecD (C02.Spec.reinsert a n k).1 = (orSame (ofSpecD a) (shrinkInto n (ofSpecD a) k)).1 ∧
    ((C02.Spec.reinsert a n k).2 = .ok ↔ (orSame (ofSpecD a) (shrinkInto n (ofSpecD a) k)).2 = true) ∧
    NoNoneMeta (C02.Spec.reinsert a n k).1 := by
  unfold C02.Spec.reinsert shrinkInto
  simp only [C02.shrinkKey, filter_bne, Keyed.without]
  by_cases he : ((k.1.filter (fun m => decide (m ≠ n))).isEmpty || (k.2.filter (fun m => decide (m ≠ n))).isEmpty) = true
  · simp only [he, ↓reduceIte, orSame]
    refine ⟨?_, ?_, hm⟩ <;> simp
  · simp only [he, Bool.false_eq_true, ↓reduceIte]
    cases hg : AL.get? a.edges k with
    | none =>
      have : getWeight (ofSpecD a) k = none := by simp [getWeight, ofSpecD, hg]
      simp [this, orSame, hm]
    | some v =>
      obtain ⟨w, md⟩ := v
      have hmd : C02.argMeta md = md := hm (k, (w, md)) (C05AL.mem_of_get? _ _ _ hg)
      have h1 : getWeight (ofSpecD a) k = some w := by simp [getWeight, ofSpecD, hg]
      have h2 : getEdgeMeta (ofSpecD a) k = some md := by simp [getEdgeMeta, ofSpecD, hg]
      simp only [h1, h2, Option.bind_eq_bind, Option.bind_some, hmd]
      have hk : C02.canonAdd (C02.RawEdge.ofKey (k.1.filter (fun m => decide (m ≠ n)), k.2.filter (fun m => decide (m ≠ n))))
          = canonD (k.1.filter (fun m => decide (m ≠ n)), k.2.filter (fun m => decide (m ≠ n))) := by
        rw [canonAdd_eq]; rfl
      obtain ⟨l1, l2⟩ := addEdgeKey_eqD a (canonD (k.1.filter (fun m => decide (m ≠ n)), k.2.filter (fun m => decide (m ≠ n))))
        (some w) (some md)
      simp only [C02.Spec.addEdge, hk]
      simp only [step, apply?, Option.getD_some] at l1 l2
      refine ⟨?_, ?_, ?_⟩
      · rw [l1]; cases addEdge (ofSpecD a) _ (some w) md <;> rfl
      · rw [l2]; cases addEdge (ofSpecD a) _ (some w) md <;> simp [orSame]
      · intro e he
        rcases mem_addEdgeKey _ _ _ _ e he with h | h
        · exact hm e h
        · rw [h]; simpa using hmd

/-- the `keep_edges` loop of `C02.Spec` and of the C05 content, side by side (state left and verdict) -/
theorem reinsertAll_eqD (n : Node) : ∀ (ks : List DKey) (a : C02.Spec), NoNoneMeta a →
    ofSpecD (C02.Spec.reinsertAll a n ks).1 = (loopRaw (fun h k => orSame h (shrinkInto n h k)) (ofSpecD a) ks).1 ∧
    ((C02.Spec.reinsertAll a n ks).2 = .ok ↔ (loopRaw (fun h k => orSame h (shrinkInto n h k)) (ofSpecD a) ks).2 = true) := by
  intro ks
  induction ks with
  | nil => intro a _; simp [C02.Spec.reinsertAll, loopRaw]
  | cons k ks ih =>
    intro a hm
    obtain ⟨l1, l2, l3⟩ := reinsert_eqD a n k hm
    simp only [C02.Spec.reinsertAll, loopRaw]
    cases hr : (C02.Spec.reinsert a n k).2 with
    | rej =>
      have hf : (orSame (ofSpecD a) (shrinkInto n (ofSpecD a) k)).2 = false := by
        cases hb : (orSame (ofSpecD a) (shrinkInto n (ofSpecD a) k)).2 with
        | false => rfl
        | true => rw [hr] at l2; exact absurd (l2.2 hb) (by simp)
      simp only [hf, Bool.false_eq_true, ↓reduceIte]
      exact ⟨l1, by simp [hr]⟩
    | ok =>
      have ht : (orSame (ofSpecD a) (shrinkInto n (ofSpecD a) k)).2 = true := l2.1 hr
      simp only [ht, ↓reduceIte]
      rw [← l1]
      exact ih _ l3

theorem removeKeys_eq : ∀ (ks : List DKey) (a : C02.Spec),
    C02.Spec.removeKeys a ks = C02.Spec.removeEdges a (ks.map C02.RawEdge.ofKey) := by
  intro ks
  induction ks with
  | nil => intro a; rfl
  | cons k ks ih =>
    intro a
    simp only [C02.Spec.removeKeys, C02.Spec.removeEdges, List.map_cons]
    cases (C02.Spec.removeEdge a (C02.RawEdge.ofKey k)).2 with
    | rej => rfl
    | ok => exact ih _

theorem incidentKeys_eq (a : C02.Spec) (n : Node) :
    C02.Spec.incidentKeys a n = Keyed.incident n (AL.keys (ofSpecD a).edges) := by
  simp [C02.Spec.incidentKeys, Keyed.incident, ofSpecD]

/-- `remove_node(node, keep_edges)` on `C02.Spec` - EVERY node, also one that is source and target of one hyperedge, where C02
models the call as raising half-way - leaves exactly the content `C05.removeNodeRaw` leaves, with the same verdict.
`hcan`: stored keys are sorted (C02's canonical form); `hm`: with `keep_edges`, no stored hyperedge metadata is Python's `None` -/
theorem link_C02_removeNode (a : C02.Spec) (n : Node) (keep : Bool)
    (hcan : ∀ k ∈ AL.keys a.edges, C02.canonStrict (C02.RawEdge.ofKey k) = some k)
    (hm : keep = true → NoNoneMeta a) :
    ofSpecD (C02.Spec.removeNode a n keep).1 = (removeNodeRaw (ofSpecD a) n keep).1 ∧
    ((C02.Spec.removeNode a n keep).2 = .ok ↔ (removeNodeRaw (ofSpecD a) n keep).2 = true) := by
  unfold C02.Spec.removeNode removeNodeRaw
  have hnodes : (ofSpecD a).nodes = a.nodes := rfl
  rw [hnodes]
  by_cases hh : AL.has a.nodes n = true
  · simp only [hh, Bool.not_true, Bool.false_eq_true, ↓reduceIte]
    rw [← incidentKeys_eq]
    generalize hinc : C02.Spec.incidentKeys a n = inc
    have hincmem : ∀ k ∈ inc, k ∈ AL.keys a.edges := by
      intro k hk
      rw [← hinc] at hk
      simp only [C02.Spec.incidentKeys, List.mem_append, List.mem_filter] at hk
      rcases hk with h | h <;> exact h.1
    have hmap : (inc.map C02.RawEdge.ofKey).map C02.canonStrict = inc.map some := by
      rw [List.map_map]
      apply List.map_congr_left
      intro k hk
      exact hcan k (hincmem k hk)
    -- stage 1
    have hP1 : ofSpecD (if keep = true then C02.Spec.reinsertAll a n inc else (a, C02.Out.ok)).1 =
          (if keep = true then loopRaw (fun h k => orSame h (shrinkInto n h k)) (ofSpecD a) inc else (ofSpecD a, true)).1 ∧
        ((if keep = true then C02.Spec.reinsertAll a n inc else (a, C02.Out.ok)).2 = .ok ↔
          (if keep = true then loopRaw (fun h k => orSame h (shrinkInto n h k)) (ofSpecD a) inc else (ofSpecD a, true)).2 = true) := by
      cases keep with
      | false => simp
      | true => simpa using reinsertAll_eqD n inc a (hm rfl)
    generalize (if keep = true then C02.Spec.reinsertAll a n inc else (a, C02.Out.ok)) = r1 at hP1
    generalize (if keep = true then loopRaw (fun h k => orSame h (shrinkInto n h k)) (ofSpecD a) inc else (ofSpecD a, true)) = r1' at hP1
    obtain ⟨p1, p2⟩ := hP1
    cases h1 : r1.2 with
    | rej =>
      have hf : r1'.2 = false := by
        cases hb : r1'.2 with
        | false => rfl
        | true => rw [h1] at p2; exact absurd (p2.2 hb) (by simp)
      simp only [hf, Bool.not_false, ↓reduceIte]
      exact ⟨p1, by simp [h1]⟩
    | ok =>
      have ht : r1'.2 = true := p2.1 h1
      simp only [ht, Bool.not_true, Bool.false_eq_true, ↓reduceIte]
      obtain ⟨q1, q2⟩ := link_C02_removeEdges (inc.map C02.RawEdge.ofKey) inc r1.1 hmap
      simp only [removeEdgesB, Batch.validates, Bool.false_and, Bool.false_eq_true, ↓reduceIte] at q1 q2
      rw [p1] at q1 q2
      rw [removeKeys_eq]
      generalize C02.Spec.removeEdges r1.1 (inc.map C02.RawEdge.ofKey) = r2 at q1 q2
      generalize loopRaw (fun h k => orSame h (removeEdge h k)) r1'.1 inc = r2' at q1 q2
      cases h2 : r2.2 with
      | rej =>
        have hf : r2'.2 = false := by
          cases hb : r2'.2 with
          | false => rfl
          | true => rw [h2] at q2; exact absurd (q2.2 hb) (by simp)
        simp only [hf, Bool.not_false, ↓reduceIte]
        exact ⟨q1, by simp [h2]⟩
      | ok =>
        have ht2 : r2'.2 = true := q2.1 h2
        simp only [ht2, Bool.not_true, Bool.false_eq_true, ↓reduceIte]
        refine ⟨?_, by simp⟩
        rw [← q1]; rfl
  · simp [hh]


end C05
