import Hgxv.Proofs.C19K
import Mathlib.Algebra.BigOperators.Group.List.Basic
import Mathlib.Data.List.Nodup
/-! C19 part A, `keep_edges=True`: conservation of weight through the shrink-merge (weights in a commutative
additive monoid). -/
namespace C19
open AL
set_option linter.unusedSectionVars false
set_option linter.unusedSimpArgs false

section wsum
variable {κ ω : Type} [DecidableEq κ] [AddCommMonoid ω]

/-- total weight of the records whose key satisfies `φ` -/
def wsum (φ : κ → Bool) (l : List (κ × (ω × Md))) : ω := ((l.filter (fun e => φ e.1)).map (·.2.1)).sum

theorem wsum_nil (φ : κ → Bool) : wsum φ ([] : List (κ × (ω × Md))) = 0 := rfl

theorem wsum_cons (φ : κ → Bool) (e : κ × (ω × Md)) (l : List (κ × (ω × Md))) :
    wsum φ (e :: l) = (if φ e.1 then e.2.1 else 0) + wsum φ l := by
  unfold wsum
  by_cases h : φ e.1 <;> simp [List.filter_cons, h]

theorem wsum_append (φ : κ → Bool) (l m : List (κ × (ω × Md))) : wsum φ (l ++ m) = wsum φ l + wsum φ m := by
  unfold wsum; simp

theorem wsum_erase (φ : κ → Bool) (l : List (κ × (ω × Md))) (e : κ × (ω × Md)) (he : e ∈ l)
    (hnd : (keys l).Nodup) : wsum φ l = (if φ e.1 then e.2.1 else 0) + wsum φ (erase l e.1) := by
  induction l with
  | nil => simp at he
  | cons hd t ih =>
    simp only [keys, List.map_cons, List.nodup_cons] at hnd
    rcases List.mem_cons.mp he with rfl | he'
    · simp [erase, wsum_cons]
    · have hne : hd.1 ≠ e.1 := by
        intro h; apply hnd.1; rw [h]; exact al_mem_keys_of_mem he'
      obtain ⟨hk, hv⟩ := hd
      simp only [erase, if_neg hne, wsum_cons]
      rw [ih he' hnd.2]
      exact add_left_comm _ _ _

theorem wsum_set (φ : κ → Bool) (l : List (κ × (ω × Md))) (k : κ) (w0 w : ω) (md0 md : Md)
    (h : get? l k = some (w0, md0)) :
    wsum φ (set l k (w0 + w, md)) = wsum φ l + (if φ k then w else 0) := by
  induction l with
  | nil => simp [get?] at h
  | cons hd t ih =>
    obtain ⟨hk, hv⟩ := hd
    by_cases hkk : hk = k
    · subst hkk
      simp only [get?, if_true, Option.some.injEq] at h
      subst h
      simp only [AL.set, if_true, wsum_cons]
      by_cases hφ : φ hk <;> simp [hφ, add_comm, add_left_comm]
    · simp only [get?, if_neg hkk] at h
      simp only [AL.set, if_neg hkk, wsum_cons, ih h, add_assoc]

theorem wsum_congr (φ ψ : κ → Bool) (l : List (κ × (ω × Md))) (h : ∀ e ∈ l, φ e.1 = ψ e.1) :
    wsum φ l = wsum ψ l := by
  unfold wsum
  rw [List.filter_congr (fun e he => h e he)]

/-- with distinct keys the sum over "key = k" is the weight of `k` -/
theorem wsum_eq_key (l : List (κ × (ω × Md))) (hnd : (keys l).Nodup) (e : κ × (ω × Md)) (he : e ∈ l) :
    wsum (fun k => decide (k = e.1)) l = e.2.1 := by
  rw [wsum_erase _ l e he hnd]
  have : wsum (fun k => decide (k = e.1)) (erase l e.1) = 0 := by
    unfold wsum
    rw [List.filter_eq_nil_iff.mpr]
    · rfl
    · intro a ha
      have := (al_mem_erase hnd a).mp ha
      simpa using this.2
  simp [this]

end wsum

section keepw
variable {κ ω : Type} [DecidableEq κ] [AddCommMonoid ω] (ops : KeyOps κ)

/-- `φ` pulled back along one key step (`false` on dropped keys) -/
def pull (φ : κ → Bool) (n : Node) (k : κ) : Bool :=
  match stepKey ops n k with
  | some k' => φ k'
  | none => false

theorem addEdge_wsum (φ : κ → Bool) (c : Content κ ω) (hw : c.weighted = true) (k : κ) (w : ω) (md : Md) :
    wsum φ (addEdge ops c k w md).edges = wsum φ c.edges + (if φ k then w else 0) := by
  unfold addEdge
  cases h : get? c.edges k with
  | some v =>
    obtain ⟨w0, md0⟩ := v
    simp only [addEdgeOld, hw, if_true]
    exact wsum_set φ c.edges k w0 w md0 md h
  | none =>
    simp only [addEdgeNew, wsum_append, wsum_cons, wsum_nil, add_zero]

/-- one loop iteration conserves the pulled-back weight -/
theorem shrinkOne_wsum (hlaw : Lawful ops) (φ : κ → Bool) (n : Node) (c : Content κ ω) (hw : c.weighted = true)
    (hnd : (keys c.edges).Nodup) (e : κ × (ω × Md)) (he : e ∈ c.edges) (hn : n ∈ ops.nodesOf e.1) :
    wsum (pull ops φ n) (shrinkOne ops n c e).edges = wsum (pull ops φ n) c.edges := by
  rw [wsum_erase (pull ops φ n) c.edges e he hnd]
  have hstep : stepKey ops n e.1 = ops.shrink e.1 n := by
    unfold stepKey; rw [if_pos (by simpa using hn)]
  unfold shrinkOne
  cases hs : ops.shrink e.1 n with
  | none =>
    have : pull ops φ n e.1 = false := by unfold pull; rw [hstep, hs]
    simp [removeEdge, this]
  | some k' =>
    have hk' : n ∉ ops.nodesOf k' := fun h => ((hlaw _ _ _ hs n).mp h).2 rfl
    have h1 : pull ops φ n e.1 = φ k' := by unfold pull; rw [hstep, hs]
    have h2 : pull ops φ n k' = φ k' := by
      unfold pull stepKey; rw [if_neg (by simpa using hk')]
    rw [addEdge_wsum ops _ _ (by simpa [removeEdge] using hw), h1, h2]
    simp only [removeEdge]
    exact add_comm _ _

theorem foldl_shrinkOne_wsum (hlaw : Lawful ops) (φ : κ → Bool) (n : Node) (l : List (κ × (ω × Md)))
    (c : Content κ ω) (hw : c.weighted = true) (hnd : (keys c.edges).Nodup)
    (hl : ∀ e ∈ l, get? c.edges e.1 = some e.2 ∧ n ∈ ops.nodesOf e.1) (hlk : (l.map (·.1)).Nodup) :
    wsum (pull ops φ n) (l.foldl (shrinkOne ops n) c).edges = wsum (pull ops φ n) c.edges := by
  induction l generalizing c with
  | nil => rfl
  | cons e l ih =>
    simp only [List.foldl_cons]
    simp only [List.map_cons, List.nodup_cons] at hlk
    have he := hl e List.mem_cons_self
    have hmem : e ∈ c.edges := al_mem_of_get? he.1
    rw [ih (shrinkOne ops n c e) (by simpa using hw) (shrinkOne_keys_nodup ops n c e hnd) ?_ hlk.2,
      shrinkOne_wsum ops hlaw φ n c hw hnd e hmem he.2]
    intro e' he'
    have h' := hl e' (List.mem_cons_of_mem _ he')
    refine ⟨?_, h'.2⟩
    rw [shrinkOne_get?_in ops hlaw n c e e'.1 h'.2 hnd]
    have hne : e.1 ≠ e'.1 := fun h => hlk.1 (List.mem_map.mpr ⟨e', he', h.symm⟩)
    rw [if_neg hne]; exact h'.1

/-- one `remove_node(n, keep_edges=True)` on a weighted container: the weight found on the keys satisfying `φ`
afterwards is the weight of the old records whose image satisfies `φ` -/
theorem removeNode_keep_wsum (hlaw : Lawful ops) (φ : κ → Bool) (c : Content κ ω) (hwf : WF ops c)
    (hw : c.weighted = true) (n : Node) :
    wsum φ (removeNode ops true c n).edges = wsum (pull ops φ n) c.edges := by
  have hnd2 : c.edges.Nodup :=
    List.Pairwise.of_map (·.1) (fun a b hab heq => hab (by rw [heq])) hwf.keysNodup
  have hinc : ((incident ops c n).map (·.1)).Nodup := by
    apply List.Nodup.map_on _ (incident_nodup ops c n hnd2)
    intro a ha b hb hkey
    exact al_entry_unique hwf.keysNodup ((mem_incident ops c n a).mp ha).1 ((mem_incident ops c n b).mp hb).1 hkey
  rw [← foldl_shrinkOne_wsum ops hlaw φ n (incident ops c n) c hw hwf.keysNodup ?_ hinc, removeNode_keep_edges ops hlaw]
  · apply wsum_congr
    intro e he
    have hk : e.1 ∈ keys (removeNode ops true c n).edges := by
      rw [removeNode_keep_edges ops hlaw]; exact al_mem_keys_of_mem he
    obtain ⟨k, _, hs⟩ := (removeNode_keep_keys ops hlaw c hwf n e.1).mp hk
    have hn := stepKey_not_mem ops hlaw n k e.1 hs
    unfold pull stepKey
    rw [if_neg (by simpa using hn)]
  · intro e he
    have := (mem_incident ops c n e).mp he
    exact ⟨al_get?_of_mem hwf.keysNodup this.1, this.2⟩

/-- `φ` pulled back along the removal of the nodes `R` -/
def pullAll (φ : κ → Bool) (R : List Node) (k : κ) : Bool :=
  match shrinkAll ops R k with
  | some k' => φ k'
  | none => false

theorem foldl_removeNode_keep_wsum (hlaw : Lawful ops) (R : List Node) (φ : κ → Bool) (c : Content κ ω)
    (hwf : WF ops c) (hw : c.weighted = true) :
    wsum φ (R.foldl (removeNode ops true) c).edges = wsum (pullAll ops φ R) c.edges := by
  induction R generalizing c with
  | nil =>
    apply wsum_congr
    intro e _
    simp [pullAll, shrinkAll]
  | cons n R ih =>
    simp only [List.foldl_cons]
    rw [ih _ (removeNode_keep_wf ops hlaw c hwf n) (by rw [removeNode_keep_weighted ops hlaw]; exact hw),
      removeNode_keep_wsum ops hlaw _ c hwf hw n]
    apply wsum_congr
    intro e _
    unfold pull pullAll
    rw [shrinkAll_cons]
    cases stepKey ops n e.1 <;> rfl

end keepw
end C19
