import Hgxv.Proofs.C01SubOrders
import Hgxv.Proofs.C01Batch
/-! C01, extension round: what `get_edges(order, size, up_to, subhypergraph=True, keep_isolated_nodes)` builds, in
declarative terms.  Core Lean only. -/
namespace C01
open AL

/-! ### nodes that `add_edge` brings along -/

theorem touchMeta_get (nm : List (Node × Meta)) (n m : Node) :
    get? (touchMeta nm n) m = if (get? nm m).isSome then get? nm m else if m = n then some [] else none := by
  unfold touchMeta
  by_cases hn : (get? nm n).isSome = true
  · simp only [hn, if_true]
    by_cases hm : (get? nm m).isSome = true
    · simp [hm]
    · have hne : m ≠ n := fun e => hm (e ▸ hn)
      have : get? nm m = none := by cases h : get? nm m <;> simp_all
      simp [hm, hne, this]
  · simp only [hn, Bool.false_eq_true, if_false]
    rw [get?_set]
    by_cases hmn : m = n
    · subst hmn
      have : get? nm m = none := by cases h : get? nm m <;> simp_all
      simp [this]
    · have hnm : ¬ n = m := fun e => hmn e.symm
      simp only [hnm, if_false, hmn]
      cases h : get? nm m <;> simp

theorem touchFold_get : ∀ (e : List Node) (nm : List (Node × Meta)) (m : Node),
    get? (e.foldl touchMeta nm) m = if (get? nm m).isSome then get? nm m else if m ∈ e then some [] else none := by
  intro e
  induction e with
  | nil => intro nm m; cases h : get? nm m <;> simp [h]
  | cons n e ih =>
    intro nm m
    simp only [List.foldl_cons]
    rw [ih, touchMeta_get]
    by_cases hm : (get? nm m).isSome = true
    · simp [hm]
    · by_cases hmn : m = n
      · subst hmn; simp [hm]
      · simp [hm, hmn]

/-- `add_edge` of a canonical key that is not there yet: one new map entry, and its nodes become nodes -/
theorem spec_addEdge_new (h : Spec) (e : Edge) (w : Option Int) (md : Option Meta) (hc : canon e = e)
    (hacc : h.weighted = true ∨ w = none) (hg : get? h.edges e = none) :
    Spec.addEdge h e w md =
      ({ h with edges := h.edges ++ [(e, (if h.weighted then w.getD one else one, md.getD []))],
                nodes := e.foldl touchMeta h.nodes }, .ok) := by
  have hrej : (!h.weighted && w.isSome && (w != some one)) = false := by
    rcases hacc with hw | hw
    · simp [hw]
    · subst hw; simp
  unfold Spec.addEdge
  rw [if_neg (by rw [hrej]; simp)]
  simp only [hc, hg]
  rw [spec_touch_fold, set_of_not_mem _ _ _ hg]

/-- the insertion loop of `add_edges(edges, [get_weight(e) for e in edges])` on keys of `a` that are new to `h` -/
theorem spec_insertEdges (a : Spec) (ha : SWF a) : ∀ (es : List Edge) (h : Spec), es.Nodup →
    (∀ e ∈ es, (get? a.edges e).isSome) → (∀ e ∈ es, get? h.edges e = none) → h.weighted = a.weighted →
    (seqOps (fun h e => Spec.addEdge h e (if a.weighted then some (Spec.weightOf a e) else none) none) h es).2 = .ok ∧
    (seqOps (fun h e => Spec.addEdge h e (if a.weighted then some (Spec.weightOf a e) else none) none) h es).1.weighted
      = h.weighted ∧
    (seqOps (fun h e => Spec.addEdge h e (if a.weighted then some (Spec.weightOf a e) else none) none) h es).1.hmeta
      = h.hmeta ∧
    keys (seqOps (fun h e => Spec.addEdge h e (if a.weighted then some (Spec.weightOf a e) else none) none) h es).1.edges
      = keys h.edges ++ es ∧
    (∀ x, get? (seqOps (fun h e => Spec.addEdge h e (if a.weighted then some (Spec.weightOf a e) else none) none) h es).1.edges x
      = if x ∈ es then (get? a.edges x).map (fun v => (v.1, ([] : Meta))) else get? h.edges x) ∧
    (∀ m, get? (seqOps (fun h e => Spec.addEdge h e (if a.weighted then some (Spec.weightOf a e) else none) none) h es).1.nodes m
      = if (get? h.nodes m).isSome then get? h.nodes m else if m ∈ es.flatten then some [] else none) := by
  intro es
  induction es with
  | nil =>
    intro h _ _ _ _
    refine ⟨rfl, rfl, rfl, by simp [seqOps], fun x => by simp [seqOps], fun m => ?_⟩
    cases hm : get? h.nodes m <;> simp [seqOps, hm]
  | cons e es ih =>
    intro h hnd hpres hfree hw
    obtain ⟨v, hv⟩ := Option.isSome_iff_exists.mp (hpres e List.mem_cons_self)
    obtain ⟨w0, md0⟩ := v
    obtain ⟨_, hcan, _⟩ := ha.key e (hpres e List.mem_cons_self)
    have hval : (if h.weighted then (if a.weighted then some (Spec.weightOf a e) else none).getD one else one) = w0 := by
      rw [hw, (spec_weightOf_get a e w0 md0 hv).1]
      cases hwt : a.weighted with
      | true => simp
      | false => simp [ha.unw hwt e w0 md0 hv]
    have hstep : Spec.addEdge h e (if a.weighted then some (Spec.weightOf a e) else none) none =
        ({ h with edges := h.edges ++ [(e, (w0, []))], nodes := e.foldl touchMeta h.nodes }, .ok) := by
      rw [spec_addEdge_new h e _ none hcan ?_ (hfree e List.mem_cons_self), hval]
      · rfl
      · rw [hw]; cases a.weighted <;> simp
    simp only [seqOps, hstep]
    have hne : ∀ x ∈ es, x ≠ e := fun x hx hxe => (List.nodup_cons.mp hnd).1 (hxe ▸ hx)
    have happ : h.edges ++ [(e, (w0, ([] : Meta)))] = AL.set h.edges e (w0, []) :=
      (set_of_not_mem _ _ _ (hfree e List.mem_cons_self)).symm
    obtain ⟨r1, r2, r3, r4, r5, r6⟩ := ih
      { h with edges := h.edges ++ [(e, (w0, []))], nodes := e.foldl touchMeta h.nodes } (List.nodup_cons.mp hnd).2
      (fun x hx => hpres x (List.mem_cons_of_mem _ hx))
      (fun x hx => by
        show get? (h.edges ++ [(e, (w0, ([] : Meta)))]) x = none
        rw [happ, get?_set_ne _ _ _ _ (fun h' => hne x hx h'.symm)]
        exact hfree x (List.mem_cons_of_mem _ hx)) hw
    refine ⟨r1, r2, r3, ?_, ?_, ?_⟩
    · rw [r4]
      show keys (h.edges ++ [(e, (w0, ([] : Meta)))]) ++ es = keys h.edges ++ e :: es
      simp [keys]
    · intro x
      rw [r5 x]
      show (if x ∈ es then _ else get? (h.edges ++ [(e, (w0, ([] : Meta)))]) x) = _
      rw [happ, get?_set]
      by_cases hxe : x = e
      · subst hxe
        have : x ∉ es := (List.nodup_cons.mp hnd).1
        simp [this, hv]
      · have : ¬ e = x := fun h' => hxe h'.symm
        simp [hxe, this]
    · intro m
      rw [r6 m]
      show (if (get? (e.foldl touchMeta h.nodes) m).isSome then get? (e.foldl touchMeta h.nodes) m
            else if m ∈ es.flatten then some [] else none) = _
      rw [touchFold_get]
      by_cases hm : (get? h.nodes m).isSome = true
      · simp [hm]
      · by_cases hme : m ∈ e
        · simp [hm, hme]
        · simp [hm, hme]

/-- the triples the loop of `add_edges(es, ws)` runs over, for `ws = [f e for e in es]` resp. no weights -/
theorem zipArgs_map (f : Edge → Int) : ∀ (es : List Edge),
    zipArgs es (some (es.map f)) none = es.map (fun e => (e, some (f e), none)) ∧
    zipArgs es none none = es.map (fun e => (e, none, none)) := by
  intro es
  induction es with
  | nil => exact ⟨rfl, rfl⟩
  | cons e es ih =>
    refine ⟨?_, ?_⟩
    · simp only [zipArgs, List.map_cons, Option.bind_some, List.head?_cons, Option.bind_none, Option.map_some, List.tail_cons,
        Option.map_none, ih.1]
    · simp only [zipArgs, List.map_cons, Option.bind_none, Option.map_none, ih.2]

/-- `add_edges(es, [get_weight(e) for e in es])` (weighted) / `add_edges(es)` on a hypergraph with the source's flag -/
theorem spec_addEdges_loop (a h : Spec) (es : List Edge) (hnd : es.Nodup) (hw : h.weighted = a.weighted) :
    Spec.addEdges h es (if a.weighted then some (es.map (Spec.weightOf a)) else none) none =
      seqOps (fun h e => Spec.addEdge h e (if a.weighted then some (Spec.weightOf a e) else none) none) h es := by
  unfold Spec.addEdges
  cases hwt : a.weighted with
  | true =>
    have hv : addEdgesValid es (some (es.map (Spec.weightOf a))) none = true := by
      simp [addEdgesValid, hnd]
    simp only [if_true, hv, Option.isSome_some, Bool.or_true, (zipArgs_map (Spec.weightOf a) es).1]
    have hh : ({ h with weighted := true } : Spec) = h := by
      rw [hwt] at hw
      cases h; simp_all
    rw [hh, seqOps_map]
  | false =>
    have hv : addEdgesValid es none none = true := by simp [addEdgesValid]
    simp only [Bool.false_eq_true, if_false, hv, if_true, Option.isSome_none, Bool.or_false, (zipArgs_map (fun _ => 0) es).2]
    rw [seqOps_map]

/-! ### the metadata loop over the hyperedges -/

theorem spec_copyEdgeMetas (a : Spec) : ∀ (es : List Edge) (h : Spec), (∀ e ∈ es, canon e = e) →
    (∀ e ∈ es, (get? h.edges e).isSome) →
    (seqOps (Spec.copyEdgeMeta a) h es).2 = .ok ∧
    (seqOps (Spec.copyEdgeMeta a) h es).1.nodes = h.nodes ∧
    (seqOps (Spec.copyEdgeMeta a) h es).1.weighted = h.weighted ∧
    (seqOps (Spec.copyEdgeMeta a) h es).1.hmeta = h.hmeta ∧
    keys (seqOps (Spec.copyEdgeMeta a) h es).1.edges = keys h.edges ∧
    ∀ x, get? (seqOps (Spec.copyEdgeMeta a) h es).1.edges x =
      if x ∈ es then (get? h.edges x).map (fun v => (v.1, Spec.emetaOf a x)) else get? h.edges x := by
  intro es
  induction es with
  | nil => intro h _ _; exact ⟨rfl, rfl, rfl, rfl, rfl, fun x => by simp [seqOps]⟩
  | cons e es ih =>
    intro h hcan hpres
    obtain ⟨v, hv⟩ := Option.isSome_iff_exists.mp (hpres e List.mem_cons_self)
    obtain ⟨w0, md0⟩ := v
    have hstep : Spec.copyEdgeMeta a h e = ({ h with edges := AL.set h.edges e (w0, Spec.emetaOf a e) }, .ok) := by
      unfold Spec.copyEdgeMeta Spec.setEdgeMeta
      rw [hcan e List.mem_cons_self, hv]
    simp only [seqOps, hstep]
    obtain ⟨r1, r2, r3, r4, r5, r6⟩ := ih { h with edges := AL.set h.edges e (w0, Spec.emetaOf a e) }
      (fun x hx => hcan x (List.mem_cons_of_mem _ hx))
      (fun x hx => by
        show (get? (AL.set h.edges e (w0, Spec.emetaOf a e)) x).isSome
        rw [isSome_set]; simp [hpres x (List.mem_cons_of_mem _ hx)])
    refine ⟨r1, r2, r3, r4, ?_, ?_⟩
    · rw [r5]
      exact keys_set_of_mem _ _ _ (hpres e List.mem_cons_self)
    · intro x
      rw [r6 x]
      show (if x ∈ es then (get? (AL.set h.edges e (w0, Spec.emetaOf a e)) x).map _ else
        get? (AL.set h.edges e (w0, Spec.emetaOf a e)) x) = _
      rw [get?_set]
      by_cases hxe : x = e
      · subst hxe
        by_cases hx : x ∈ es <;> simp [hx, hv]
      · have : ¬ e = x := fun h' => hxe h'.symm
        simp [hxe, this]

/-! ### `get_edges(.., subhypergraph=True, keep_isolated_nodes)` -/

theorem spec_subEdges_start (a : Spec) (iso : Bool) :
    ∃ h1, (if iso then Spec.addNodes (Spec.new a.weighted []) (keys a.nodes) none
           else (Spec.new a.weighted [], Out.ok)) = (h1, .ok) ∧
      h1.edges = [] ∧ h1.weighted = a.weighted ∧ h1.hmeta = initHMeta a.weighted [] ∧
      ∀ m, get? h1.nodes m = if iso = true ∧ m ∈ keys a.nodes then some [] else none := by
  cases iso with
  | false => exact ⟨Spec.new a.weighted [], rfl, rfl, rfl, rfl, fun m => by simp; rfl⟩
  | true =>
    obtain ⟨a1, a2, a3, a4⟩ := spec_addNodes_none (keys a.nodes) (Spec.new a.weighted [])
    refine ⟨(keys a.nodes).foldl (fun a n => Spec.addNode a n none) (Spec.new a.weighted []), ?_, a1, a2, a3, ?_⟩
    · simp only [if_true]; rfl
    · intro m
      have hnew : get? (Spec.new a.weighted []).nodes m = none := rfl
      rw [a4 m, hnew]; simp

/-- outcome and result of `get_edges(order, size, up_to, subhypergraph=True, keep_isolated_nodes=iso)` on an abstract
hypergraph of a history; `o` = the order asked for (`none` = no filter) -/
theorem spec_subEdges (a : Spec) (ha : SWF a) (f : Filter) (iso : Bool) :
    (f.resolve = none → (Spec.subEdges a f iso).2 = .rej) ∧
    (∀ o, f.resolve = some o →
      (Spec.subEdges a f iso).2 = .ok ∧
      (Spec.subEdges a f iso).1.weighted = a.weighted ∧
      (Spec.subEdges a f iso).1.hmeta = initHMeta a.weighted [] ∧
      (∀ m, get? (Spec.subEdges a f iso).1.nodes m =
        if iso = true ∨ m ∈ ((keys a.edges).filter (keepEdge o f.upTo)).flatten then get? a.nodes m else none) ∧
      keys (Spec.subEdges a f iso).1.edges = (keys a.edges).filter (keepEdge o f.upTo) ∧
      ∀ x, get? (Spec.subEdges a f iso).1.edges x = if keepEdge o f.upTo x then get? a.edges x else none) := by
  refine ⟨?_, ?_⟩
  · intro h
    unfold Spec.subEdges Spec.edgesF
    rw [h]; rfl
  · intro o hres
    generalize hes : (keys a.edges).filter (keepEdge o f.upTo) = es
    have hes_mem : ∀ e, e ∈ es ↔ e ∈ keys a.edges ∧ keepEdge o f.upTo e = true := by
      intro e; rw [← hes]; exact List.mem_filter
    have hnd : es.Nodup := by rw [← hes]; exact (List.filter_sublist).nodup ha.knd
    have hpres : ∀ e ∈ es, (get? a.edges e).isSome := fun e he => (mem_keys_iff _ _).mp ((hes_mem e).mp he).1
    have hedgesF : Spec.edgesF a f = some es := by
      unfold Spec.edgesF; rw [hres, ← hes]; rfl
    obtain ⟨h1, e0, e1, e2, e3, e4⟩ := spec_subEdges_start a iso
    obtain ⟨i1, i2, i3, i4, i5, i6⟩ := spec_insertEdges a ha es h1 hnd hpres (fun e _ => by rw [e1]; rfl) e2
    unfold Spec.subEdges
    rw [hedgesF]
    simp only [e0, andThen, spec_addEdges_loop a h1 es hnd e2]
    generalize hh2 : seqOps (fun h e => Spec.addEdge h e (if a.weighted then some (Spec.weightOf a e) else none) none) h1 es
      = r2 at i1 i2 i3 i4 i5 i6
    obtain ⟨h2, o2⟩ := r2
    simp only at i1 i2 i3 i4 i5 i6
    subst i1
    simp only []
    -- nodes of the object after the insertion loop
    have h2in : ∀ m, (get? h2.nodes m).isSome → (get? a.nodes m).isSome := by
      intro m hm
      rw [i6 m, e4 m] at hm
      by_cases hc : iso = true ∧ m ∈ keys a.nodes
      · exact (mem_keys_iff _ _).mp hc.2
      · simp only [hc, if_false, Option.isSome_none, Bool.false_eq_true] at hm
        by_cases hfl : m ∈ es.flatten
        · obtain ⟨e, he, hme⟩ := List.mem_flatten.mp hfl
          exact (ha.key e (hpres e he)).2.2 m hme
        · simp [hfl] at hm
    obtain ⟨b1, b2⟩ := spec_copyNodeMetas a (keys h2.nodes) h2 (fun n hn => (mem_keys_iff _ _).mp hn)
    have hall : ∀ n ∈ keys h2.nodes, (get? a.nodes n).isSome := fun n hn => h2in n ((mem_keys_iff _ _).mp hn)
    have b1' := b1.mpr hall
    obtain ⟨c1, c2, c3, c4⟩ := b2 hall
    generalize hh3 : seqOps (Spec.copyNodeMeta a) h2 (keys h2.nodes) = r3 at b1' c1 c2 c3 c4
    obtain ⟨h3, o3⟩ := r3
    simp only at b1' c1 c2 c3 c4
    subst b1'
    simp only []
    have h3edges : ∀ x, get? h3.edges x = if x ∈ es then (get? a.edges x).map (fun v => (v.1, ([] : Meta))) else none := by
      intro x; rw [c1, i5 x, e1]; rfl
    obtain ⟨d1, d2, d3, d4, d5, d6⟩ := spec_copyEdgeMetas a es h3
      (fun e he => (ha.key e (hpres e he)).2.1)
      (fun e he => by
        rw [h3edges e]
        obtain ⟨v, hv⟩ := Option.isSome_iff_exists.mp (hpres e he)
        simp [he, hv])
    generalize hh4 : seqOps (Spec.copyEdgeMeta a) h3 es = r4 at d1 d2 d3 d4 d5 d6
    obtain ⟨h4, o4⟩ := r4
    simp only at d1 d2 d3 d4 d5 d6
    subst d1
    refine ⟨rfl, ?_, ?_, ?_, ?_, ?_⟩
    · rw [d3, c2, i2, e2]
    · rw [d4, c3, i3, e3]
    · intro m
      rw [d2, c4 m]
      by_cases hk : m ∈ keys h2.nodes
      · have hs : (get? h2.nodes m).isSome := (mem_keys_iff _ _).mp hk
        rw [i6 m, e4 m] at hs
        have hcond : iso = true ∨ m ∈ es.flatten := by
          by_cases hc : iso = true ∧ m ∈ keys a.nodes
          · exact Or.inl hc.1
          · simp only [hc, if_false, Option.isSome_none, Bool.false_eq_true] at hs
            by_cases hfl : m ∈ es.flatten
            · exact Or.inr hfl
            · simp [hfl] at hs
        simp only [hk, if_true, hcond]
      · have hnone : get? h2.nodes m = none := (get?_eq_none_iff _ _).mpr hk
        simp only [hk, if_false, hnone]
        rw [i6 m, e4 m] at hnone
        by_cases hiso : iso = true
        · have hnk : m ∉ keys a.nodes := by
            intro hmk
            simp [hiso, hmk] at hnone
          simp only [hiso, true_or, if_true]
          exact ((get?_eq_none_iff _ _).mpr hnk).symm
        · have hfl : m ∉ es.flatten := by
            intro hfl
            simp [hiso, hfl] at hnone
          simp [hiso, hfl]
    · rw [d5, c1, i4, e1]; rfl
    · intro x
      rw [d6 x, h3edges x]
      by_cases hx : x ∈ es
      · obtain ⟨v, hv⟩ := Option.isSome_iff_exists.mp (hpres x hx)
        obtain ⟨w0, md0⟩ := v
        simp only [hx, if_true, hv, Option.map_some, ((hes_mem x).mp hx).2, (spec_weightOf_get a x w0 md0 hv).2]
      · simp only [hx, if_false]
        by_cases hkeep : keepEdge o f.upTo x = true
        · have hnk : x ∉ keys a.edges := fun hk => hx ((hes_mem x).mpr ⟨hk, hkeep⟩)
          simp only [hkeep, if_true]
          exact ((get?_eq_none_iff _ _).mpr hnk).symm
        · simp [hkeep]

end C01
