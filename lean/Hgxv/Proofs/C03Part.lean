import Hgxv.Proofs.C03Agg
import Hgxv.Proofs.C03Win
/-! C03, second extension round - consecutive windows partition the records.  Core Lean only. -/
namespace C03
open AL

theorem filter_split_length {α : Type} (l : List α) (p q r : α → Bool)
    (h : ∀ x, p x = (q x || r x)) (hd : ∀ x, ¬ (q x = true ∧ r x = true)) :
    (l.filter p).length = (l.filter q).length + (l.filter r).length := by
  induction l with
  | nil => rfl
  | cons x t ih =>
    have h1 := h x
    have h2 := hd x
    simp only [List.filter_cons]
    cases hq : q x <;> cases hr : r x <;> simp_all <;> omega

theorem inWin_split (a b c : Int) (hab : a ≤ b) (hbc : b ≤ c) (k : Key) :
    inWin a c k = (inWin a b k || inWin b c k) := by
  simp only [inWin]
  by_cases h1 : a ≤ (k.1 : Int) <;> by_cases h2 : (k.1 : Int) < b <;> by_cases h3 : (k.1 : Int) < c <;>
    by_cases h4 : b ≤ (k.1 : Int) <;> simp [h1, h2, h3, h4] <;> omega

theorem inWin_disjoint (a b c : Int) (k : Key) : ¬ (inWin a b k = true ∧ inWin b c k = true) := by
  simp only [inWin, Bool.and_eq_true, decide_eq_true_eq]
  omega

theorem window_length_split (s : Store) (a b c : Int) (hab : a ≤ b) (hbc : b ≤ c) :
    (window s a c).length = (window s a b).length + (window s b c).length :=
  filter_split_length _ _ _ _ (inWin_split a b c hab hbc) (inWin_disjoint a b c)

/-- the width-`w` windows `[j·w, (j+1)·w)` partition the time axis: `t` lies in window `j` iff `j = ⌊t / w⌋` -/
theorem window_index (w : Nat) (hw : 0 < w) (j t : Nat) : (j * w ≤ t ∧ t < (j + 1) * w) ↔ j = t / w := by
  constructor
  · rintro ⟨h1, h2⟩
    exact (Nat.div_eq_of_lt_le h1 h2).symm
  · intro h
    subst h
    refine ⟨Nat.div_mul_le_self t w, ?_⟩
    have := Nat.lt_div_mul_add (a := t) hw
    rw [Nat.add_mul, Nat.one_mul]; exact this

end C03
